import Tea.Input.RefDecoder
import Tea.Proofs.Paste
/-
Helper lemmas for C08 (key sequences): table lookup, the length loop as a longest-prefix
match, the detectors that run before the key table, and detectOneMsg on a key in context.
No property theorems here.
-/
namespace Tea.Input
open Tea Tea.Utf8

/-! ### Table.lookup -/

theorem Table.lookup_some {T : Table} {s : Bytes} {k : Key} (h : T.lookup s = some k) :
    ∃ e ∈ T, e.seq = s ∧ e.key = k := by
  induction T with
  | nil => simp [Table.lookup] at h
  | cons e es ih =>
    simp only [Table.lookup] at h
    split at h
    · rename_i he
      injection h with h
      exact ⟨e, by simp, by simpa using he, h⟩
    · obtain ⟨e', he', h1, h2⟩ := ih h
      exact ⟨e', by simp [he'], h1, h2⟩

theorem Table.lookup_ne_none_of_mem {T : Table} {e : Entry} (h : e ∈ T) : T.lookup e.seq ≠ none := by
  induction T with
  | nil => cases h
  | cons e' es ih =>
    simp only [Table.lookup]
    split
    · simp
    · rename_i hne
      rcases List.mem_cons.1 h with h | h
      · subst h; simp at hne
      · exact ih h

theorem consistent_of_B {T : Table} (h : consistentB T = true) : Consistent T := by
  intro e he
  have := (List.all_eq_true.1 h) e he
  simpa using this

theorem wfTable_of_B {T : Table} (h : wfTableB T = true) : WFTable T := by
  intro e he
  have := (List.all_eq_true.1 h) e he
  cases hs : e.seq with
  | nil => simp [hs] at this
  | cons c tl =>
    simp [hs] at this
    exact ⟨c, tl, rfl, this⟩

/-! ### consistency of the derived table -/

theorem lexLt_irrefl : ∀ a : Bytes, lexLt a a = false := by
  intro a
  induction a with
  | nil => simp [lexLt]
  | cons x xs ih =>
    have : Nat.blt x x = false := by
      cases h : Nat.blt x x with
      | false => rfl
      | true => rw [Nat.blt_eq] at h; omega
    simp [lexLt, ih, this]

theorem lexLt_trans : ∀ (a b c : Bytes), lexLt a b = true → lexLt b c = true → lexLt a c = true := by
  intro a
  induction a with
  | nil =>
    intro b c h1 h2
    cases c with
    | nil => cases b <;> simp [lexLt] at h2
    | cons => simp [lexLt]
  | cons x xs ih =>
    intro b c h1 h2
    cases b with
    | nil => simp [lexLt] at h1
    | cons y ys =>
      cases c with
      | nil => simp [lexLt] at h2
      | cons z zs =>
        simp only [lexLt, Bool.or_eq_true, Bool.and_eq_true, Nat.blt_eq, Nat.beq_eq] at h1 h2 ⊢
        rcases h1 with h1 | ⟨h1, h1'⟩ <;> rcases h2 with h2 | ⟨h2, h2'⟩
        · left; omega
        · left; omega
        · left; omega
        · right; exact ⟨by omega, ih _ _ h1' h2'⟩

theorem sortedKeys_head : ∀ (T : Table) (a : Entry), sortedKeysB (a :: T) = true →
    (∀ b ∈ T, lexLt a.seq b.seq = true) ∧ sortedKeysB T = true := by
  intro T
  induction T with
  | nil => intro a _; simp [sortedKeysB]
  | cons b rest ih =>
    intro a h
    simp only [sortedKeysB, Bool.and_eq_true] at h
    obtain ⟨hb, hrest⟩ := ih b h.2
    refine ⟨?_, h.2⟩
    intro c hc
    rcases List.mem_cons.1 hc with hc | hc
    · subst hc; exact h.1
    · exact lexLt_trans _ _ _ h.1 (hb c hc)

theorem nodupKeys_of_sorted : ∀ (T : Table), sortedKeysB T = true → NodupKeys T := by
  intro T
  induction T with
  | nil => intro _; exact List.Pairwise.nil
  | cons a rest ih =>
    intro h
    obtain ⟨h1, h2⟩ := sortedKeys_head rest a h
    refine List.pairwise_cons.2 ⟨?_, ih h2⟩
    intro b hb heq
    have := h1 b hb
    rw [heq, lexLt_irrefl] at this
    cases this

theorem consistent_of_nodupKeys : ∀ (T : Table), NodupKeys T → Consistent T := by
  intro T
  induction T with
  | nil => intro _ e he; cases he
  | cons a rest ih =>
    intro h e he
    obtain ⟨h1, h2⟩ := List.pairwise_cons.1 h
    simp only [Table.lookup]
    rcases List.mem_cons.1 he with he | he
    · subst he; simp
    · have : (a.seq == e.seq) = false := by simpa using h1 e he
      rw [this]
      exact ih h2 e he

theorem Table.lookup_append (A B : Table) (k : Bytes) :
    Table.lookup (A ++ B) k = match Table.lookup A k with
      | some x => some x
      | none => Table.lookup B k := by
  induction A with
  | nil => simp [Table.lookup]
  | cons a rest ih =>
    simp only [List.cons_append, Table.lookup]
    split
    · rfl
    · exact ih

theorem consistent_append {A B : Table} (hA : Consistent A) (hB : Consistent B)
    (hd : ∀ a ∈ A, ∀ b ∈ B, a.seq ≠ b.seq) : Consistent (A ++ B) := by
  intro e he
  rw [Table.lookup_append]
  rcases List.mem_append.1 he with he | he
  · rw [hA e he]
  · cases hl : Table.lookup A e.seq with
    | none => exact hB e he
    | some x =>
      obtain ⟨a, ha, h1, _⟩ := Table.lookup_some hl
      exact absurd h1 (hd a ha e he)

theorem docShape_of_B {S : Table} (h : docShapeB S = true) {e : Entry} (he : e ∈ S) :
    ∃ c d tl, e.seq = 0x1b :: c :: d :: tl ∧ c ≠ 0x1b := by
  have := (List.all_eq_true.1 h) e he
  split at this
  · rename_i c d tl hs
    exact ⟨c, d, tl, hs, by simpa using this⟩
  · cases this

theorem mem_deriveSeqs {S : Table} {x : Entry} (h : x ∈ deriveSeqs S) :
    ∃ e ∈ S, x.seq = e.seq ∨ x.seq = 0x1b :: e.seq := by
  unfold deriveSeqs at h
  obtain ⟨e, he, hx⟩ := List.mem_flatMap.1 h
  refine ⟨e, he, ?_⟩
  split at hx
  · simp at hx; subst hx; exact Or.inl rfl
  · simp at hx
    rcases hx with hx | hx
    · subst hx; exact Or.inl rfl
    · subst hx; exact Or.inr rfl

theorem nodupKeys_deriveSeqs {S : Table} (hn : NodupKeys S) (hs : docShapeB S = true) :
    NodupKeys (deriveSeqs S) := by
  unfold NodupKeys deriveSeqs
  rw [List.pairwise_flatMap]
  constructor
  · intro e _
    split
    · simp
    · simp only [List.pairwise_cons, List.mem_cons, List.not_mem_nil, or_false, forall_eq,
        List.Pairwise.nil, and_true, false_imp_iff, implies_true]
      intro h
      have := congrArg List.length h
      simp at this
  · refine List.Pairwise.imp_of_mem ?_ hn
    intro a b ha hb hab x hx y hy
    obtain ⟨ca, da, tla, hsa, hca⟩ := docShape_of_B hs ha
    obtain ⟨cb, db, tlb, hsb, hcb⟩ := docShape_of_B hs hb
    have hx' : x.seq = a.seq ∨ x.seq = 0x1b :: a.seq := by
      split at hx
      · simp at hx; subst hx; exact Or.inl rfl
      · simp at hx; rcases hx with hx | hx <;> subst hx <;> simp
    have hy' : y.seq = b.seq ∨ y.seq = 0x1b :: b.seq := by
      split at hy
      · simp at hy; subst hy; exact Or.inl rfl
      · simp at hy; rcases hy with hy | hy <;> subst hy <;> simp
    rcases hx' with hx' | hx' <;> rcases hy' with hy' | hy' <;> rw [hx', hy']
    · exact hab
    · rw [hsa, hsb]; intro h; injection h with _ h; injection h with h _; exact hca h
    · rw [hsa, hsb]; intro h; injection h with _ h; injection h with h _; exact hcb h.symm
    · intro h; injection h with _ h; exact hab h

theorem ctrlFixed_consistent : Consistent (deriveCtrl ++ deriveFixed) :=
  consistent_of_B (by decide +kernel)

theorem ctrlFixed_short : ∀ e ∈ deriveCtrl ++ deriveFixed, e.seq.length ≤ 2 := by decide +kernel

/-- the derivation of key_sequences.go produces no conflicting duplicates when the documented
table is strictly sorted (so duplicate-free) and every documented sequence has the `docShapeB`
shape: every entry of the derived table is found under its own sequence -/
theorem consistent_deriveExt {S : Table} (hsorted : sortedKeysB S = true) (hshape : docShapeB S = true) :
    Consistent (deriveExt S) := by
  unfold deriveExt
  rw [List.append_assoc]
  refine consistent_append (consistent_of_nodupKeys _ (nodupKeys_deriveSeqs (nodupKeys_of_sorted _ hsorted) hshape))
    ctrlFixed_consistent ?_
  intro a ha b hb heq
  obtain ⟨e, he, h⟩ := mem_deriveSeqs ha
  obtain ⟨c, d, tl, hs, _⟩ := docShape_of_B hshape he
  have h2 := ctrlFixed_short b hb
  rw [← heq] at h2
  rcases h with h | h <;> rw [h, hs] at h2 <;> simp at h2

/-! ### descLengths -/

theorem mem_insertDesc (n : Nat) : ∀ (l : List Nat) (x : Nat), x ∈ insertDesc n l ↔ x = n ∨ x ∈ l := by
  intro l
  induction l with
  | nil => intro x; simp [insertDesc]
  | cons m ms ih =>
    intro x
    simp only [insertDesc]
    split
    · simp
    · split
      · rename_i h; subst h; simp
      · simp [ih]; 
        constructor
        · rintro (h | h | h) <;> simp [h]
        · rintro (h | h | h) <;> simp [h]

theorem pairwise_insertDesc (n : Nat) : ∀ (l : List Nat), l.Pairwise (· > ·) → (insertDesc n l).Pairwise (· > ·) := by
  intro l
  induction l with
  | nil => intro _; simp [insertDesc]
  | cons m ms ih =>
    intro h
    simp only [insertDesc]
    have hm := (List.pairwise_cons.1 h)
    split
    · rename_i hlt
      refine List.pairwise_cons.2 ⟨?_, h⟩
      intro a ha
      rcases List.mem_cons.1 ha with ha | ha
      · subst ha; exact hlt
      · have := hm.1 a ha; omega
    · split
      · exact h
      · rename_i h1 h2
        refine List.pairwise_cons.2 ⟨?_, ih hm.2⟩
        intro a ha
        rcases (mem_insertDesc n ms a).1 ha with ha | ha
        · subst ha; omega
        · exact hm.1 a ha

theorem descLengths_pairwise (T : Table) : (descLengths T).Pairwise (· > ·) := by
  induction T with
  | nil => simp [descLengths]
  | cons e es ih => exact pairwise_insertDesc _ _ ih

theorem mem_descLengths (T : Table) (x : Nat) : x ∈ descLengths T ↔ ∃ e ∈ T, e.seq.length = x := by
  induction T with
  | nil => simp [descLengths]
  | cons e es ih =>
    have : descLengths (e :: es) = insertDesc e.seq.length (descLengths es) := rfl
    rw [this, mem_insertDesc, ih]
    constructor
    · rintro (h | ⟨e', he', h⟩)
      · exact ⟨e, by simp, h.symm⟩
      · exact ⟨e', by simp [he'], h⟩
    · rintro ⟨e', he', h⟩
      rcases List.mem_cons.1 he' with he' | he'
      · subst he'; exact Or.inl h.symm
      · exact Or.inr ⟨e', he', h⟩

theorem descLengths_pos {T : Table} (hT : ∀ e ∈ T, e.seq ≠ []) : ∀ l ∈ descLengths T, 0 < l := by
  intro l hl
  obtain ⟨e, he, h⟩ := (mem_descLengths T l).1 hl
  have := hT e he
  subst h
  exact List.length_pos_iff.2 this

/-! ### the length loop is a longest-prefix match -/

/-- `lens` lists the length of every key that is a prefix of `b` -/
def CoversPrefixes (T : Table) (b : Bytes) (lens : List Nat) : Prop :=
  ∀ e ∈ T, e.seq <+: b → e.seq.length ∈ lens

theorem take_length_of_prefix {s b : Bytes} (h : s <+: b) : b.take s.length = s := by
  obtain ⟨t, rfl⟩ := h
  simp

theorem lookupLens_longest (T : Table) (b : Bytes) : ∀ (lens : List Nat),
    lens.Pairwise (· > ·) → CoversPrefixes T b lens →
    ∀ sz k, lookupLens T b lens = some (sz, k) → ∀ e ∈ T, e.seq <+: b → e.seq.length ≤ sz := by
  intro lens
  induction lens with
  | nil => intro _ _ sz k h; simp [lookupLens] at h
  | cons l ls ih =>
    intro hp hc sz k h e he hpre
    have hp' := List.pairwise_cons.1 hp
    simp only [lookupLens] at h
    split at h
    · rename_i hgt
      refine ih hp'.2 ?_ sz k h e he hpre
      intro e' he' hpre'
      rcases List.mem_cons.1 (hc e' he' hpre') with h1 | h1
      · have := hpre'.length_le; omega
      · exact h1
    · split at h
      · rename_i k' hk
        injection h with h
        injection h with h1 h2
        subst h1
        rcases List.mem_cons.1 (hc e he hpre) with h1 | h1
        · omega
        · have := hp'.1 _ h1; omega
      · rename_i hnone
        refine ih hp'.2 ?_ sz k h e he hpre
        intro e' he' hpre'
        rcases List.mem_cons.1 (hc e' he' hpre') with h1 | h1
        · exfalso
          rw [← h1, take_length_of_prefix hpre'] at hnone
          exact Table.lookup_ne_none_of_mem he' hnone
        · exact h1

theorem lookupLens_ne_none (T : Table) (b : Bytes) : ∀ (lens : List Nat),
    CoversPrefixes T b lens → ∀ e ∈ T, e.seq <+: b → lookupLens T b lens ≠ none := by
  intro lens
  induction lens with
  | nil => intro hc e he hpre; exact absurd (hc e he hpre) (by simp)
  | cons l ls ih =>
    intro hc e he hpre
    simp only [lookupLens]
    split
    · rename_i hgt
      refine ih ?_ e he hpre
      intro e' he' hpre'
      rcases List.mem_cons.1 (hc e' he' hpre') with h1 | h1
      · have := hpre'.length_le; omega
      · exact h1
    · split
      · simp
      · rename_i hnone
        refine ih ?_ e he hpre
        intro e' he' hpre'
        rcases List.mem_cons.1 (hc e' he' hpre') with h1 | h1
        · exfalso
          rw [← h1, take_length_of_prefix hpre'] at hnone
          exact Table.lookup_ne_none_of_mem he' hnone
        · exact h1

theorem lookupLens_eq_none_of_noKey {T : Table} {b : Bytes} (h : NoKeyPrefix T b) (lens : List Nat) :
    lookupLens T b lens = none := by
  cases hl : lookupLens T b lens with
  | none => rfl
  | some p =>
    obtain ⟨sz, k⟩ := p
    have := lookupLens_bound T b lens sz k hl
    obtain ⟨e, he, h1, _⟩ := Table.lookup_some this.2.2
    exact absurd (h1 ▸ List.take_prefix sz b) (h e he)

/-- the exact result of the length loop on a key followed by `rest` -/
theorem lookupLens_key (T : Table) (lens : List Nat) (e : Entry) (rest : Bytes)
    (hp : lens.Pairwise (· > ·)) (hc : CoversPrefixes T (e.seq ++ rest) lens)
    (he : e ∈ T) (hfirst : T.lookup e.seq = some e.key) (hne : NotExtended T e.seq rest) :
    lookupLens T (e.seq ++ rest) lens = some (e.seq.length, e.key) := by
  have hpre : e.seq <+: e.seq ++ rest := List.prefix_append _ _
  cases hl : lookupLens T (e.seq ++ rest) lens with
  | none => exact absurd hl (lookupLens_ne_none T _ lens hc e he hpre)
  | some p =>
    obtain ⟨sz, k⟩ := p
    have h1 := lookupLens_longest T _ lens hp hc sz k hl e he hpre
    have h2 := lookupLens_bound T _ lens sz k hl
    obtain ⟨e', he', hs, hk⟩ := Table.lookup_some h2.2.2
    have hpre' : e'.seq <+: e.seq ++ rest := hs ▸ List.take_prefix _ _
    have h3 := hne e' he' hpre'
    have hlen : e'.seq.length = sz := by rw [hs, List.length_take]; omega
    have hsz : sz = e.seq.length := by omega
    subst hsz
    have : (e.seq ++ rest).take e.seq.length = e.seq := by simp
    rw [this, hfirst] at h2
    have := h2.2.2
    injection this with this
    rw [this]

/-! ### the detectors that run before the key table -/

theorem detectMouse_none_of {b : Bytes}
    (h : (decide (6 ≤ b.length) && (isPrefix [0x1b, 0x5b, 0x4d] b || isPrefix [0x1b, 0x5b, 0x3c] b)) = false) :
    detectMouse b = .ok none := by
  unfold detectMouse
  split
  · rename_i hlen
    split
    · simp [isPrefix] at h hlen; omega
    · simp [isPrefix] at h hlen; omega
    · rfl
  · rfl

theorem detectBracketedPaste_none_of {b : Bytes} (h : isPrefix bpStart b = false) :
    detectBracketedPaste b = none := by
  unfold detectBracketedPaste
  split
  · rfl
  · rename_i hc
    exfalso
    simp only [Bool.or_eq_true, decide_eq_true_eq, not_or, Nat.not_lt] at hc
    have h2 : b.take bpStart.length = bpStart := by simpa using hc.2
    have : bpStart <+: b := h2 ▸ List.take_prefix _ _
    rw [isPrefix_iff.2 this] at h
    cases h

theorem detectReportFocus_none_of {b : Bytes} (h1 : b ≠ [0x1b, 0x5b, 0x49]) (h2 : b ≠ [0x1b, 0x5b, 0x4f]) :
    detectReportFocus b = none := by
  unfold detectReportFocus
  rw [if_neg (by simpa using h1), if_neg (by simpa using h2)]

theorem noIntroducer_spec {b : Bytes} (h : NoIntroducer b = true) :
    detectMouse b = .ok none ∧ detectReportFocus b = none ∧ detectBracketedPaste b = none := by
  unfold NoIntroducer at h
  simp only [Bool.and_eq_true, Bool.not_eq_true', bne_iff_ne, ne_eq] at h
  obtain ⟨⟨⟨h1, h2⟩, h3⟩, h4⟩ := h
  exact ⟨detectMouse_none_of h1, detectReportFocus_none_of h3 h4, detectBracketedPaste_none_of h2⟩

/-- once the mouse / focus / paste detectors are out of the way, detectOneMsg is the key-table
lookup followed by the tail -/
theorem detectOneMsg_of_noIntro (T : Table) (lens : List Nat) (b : Bytes) (more : Bool)
    (hmore : more = false ∨ isIncompleteEvent T b = false) (hni : NoIntroducer b = true) :
    detectOneMsg T lens b more =
      match detectSequence T lens b with
      | some (w, m) => .ok (w, some m)
      | none => detectTail b more := by
  obtain ⟨h1, h2, h3⟩ := noIntroducer_spec hni
  unfold detectOneMsg
  have h0 : (more && isIncompleteEvent T b) = false := by
    rcases hmore with h | h <;> simp [h]
  rw [h0, h1, h2, h3]
  simp only [Bool.false_eq_true, if_false]
  cases detectSequence T lens b with
  | none => rfl
  | some p => obtain ⟨w, m⟩ := p; rfl

theorem not_prefix_append_of_incomparable {s p rest : Bytes} (h1 : ¬ s <+: p) (h2 : ¬ p <+: s) :
    ¬ p <+: s ++ rest := by
  intro h
  rcases List.prefix_or_prefix_of_prefix h (List.prefix_append s rest) with h | h
  · exact h2 h
  · exact h1 h

theorem isPrefix_eq_false_iff {p b : Bytes} : isPrefix p b = false ↔ ¬ p <+: b := by
  rw [← isPrefix_iff]; simp

/-- a key of an intro-free table, followed by anything, is not taken by the earlier detectors -/
theorem noIntroducer_of_introFree {T : Table} (hT : introFreeB T = true) {e : Entry} (he : e ∈ T)
    (rest : Bytes) : NoIntroducer (e.seq ++ rest) = true := by
  have h := (List.all_eq_true.1 hT) e he
  simp only [introducers, focusReports, List.all_cons, List.all_nil, Bool.and_true, Bool.and_eq_true,
    Bool.not_eq_true', isPrefix_eq_false_iff] at h
  obtain ⟨⟨⟨a1, a2⟩, ⟨b1, b2⟩, ⟨c1, c2⟩⟩, d1, d2⟩ := h
  unfold NoIntroducer
  simp only [Bool.and_eq_true, Bool.not_eq_true', bne_iff_ne, ne_eq, Bool.and_eq_false_iff,
    Bool.or_eq_false_iff, isPrefix_eq_false_iff]
  refine ⟨⟨⟨Or.inr ⟨not_prefix_append_of_incomparable a1 a2, not_prefix_append_of_incomparable b1 b2⟩,
    not_prefix_append_of_incomparable c1 c2⟩, ?_⟩, ?_⟩
  · intro h; exact d1 (h ▸ List.prefix_append _ _)
  · intro h; exact d2 (h ▸ List.prefix_append _ _)

/-! ### a key in context -/

theorem detectSequence_key (T : Table) (lens : List Nat) (e : Entry) (rest : Bytes)
    (hp : lens.Pairwise (· > ·)) (hc : CoversPrefixes T (e.seq ++ rest) lens)
    (he : e ∈ T) (hfirst : T.lookup e.seq = some e.key) (hne : NotExtended T e.seq rest) :
    detectSequence T lens (e.seq ++ rest) = some (e.seq.length, .key e.key) := by
  unfold detectSequence
  rw [lookupLens_key T lens e rest hp hc he hfirst hne]

theorem detectOneMsg_key (T : Table) (lens : List Nat) (e : Entry) (rest : Bytes) (more : Bool)
    (hp : lens.Pairwise (· > ·)) (hc : CoversPrefixes T (e.seq ++ rest) lens)
    (he : e ∈ T) (hfirst : T.lookup e.seq = some e.key) (hne : NotExtended T e.seq rest)
    (hmore : more = false ∨ isIncompleteEvent T (e.seq ++ rest) = false)
    (hni : NoIntroducer (e.seq ++ rest) = true) :
    detectOneMsg T lens (e.seq ++ rest) more = .ok (e.seq.length, some (.key e.key)) := by
  rw [detectOneMsg_of_noIntro T lens _ more hmore hni, detectSequence_key T lens e rest hp hc he hfirst hne]

theorem coversPrefixes_of_all {T : Table} {lens : List Nat} (h : ∀ e ∈ T, e.seq.length ∈ lens) (b : Bytes) :
    CoversPrefixes T b lens := fun e he _ => h e he

theorem coversPrefixes_descLengths (T : Table) (b : Bytes) : CoversPrefixes T b (descLengths T) :=
  fun e he _ => (mem_descLengths T _).2 ⟨e, he, rfl⟩

theorem notExtended_nil (T : Table) (s : Bytes) : NotExtended T s [] := by
  intro e' _ h
  rw [List.append_nil] at h
  exact h.length_le

end Tea.Input
