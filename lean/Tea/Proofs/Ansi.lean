import Tea.Prelude.Ansi
/-
Basic facts about the styled-text metric (`Tea/Prelude/Ansi.lean`).  Every statement holds
for every byte list: no well-formedness hypothesis on the escape sequences.
-/
namespace Tea.Ansi
open Tea

/-- only the ground state prints, and a printing byte leaves the parser in the ground state -/
theorem next_print {st : St} {b : Nat} {st' : St} (h : next st b = (st', true)) :
    st = .ground ∧ st' = .ground := by
  cases st <;> simp only [next] at h <;> split at h <;> simp_all

@[simp] theorem visibleFrom_nil (st : St) : visibleFrom st [] = [] := by
  cases st <;> rfl

@[simp] theorem truncFrom_nil (w : Nat) (st : St) (cur : Nat) : truncFrom w st cur [] = [] := by
  cases st <;> rfl

theorem visibleFrom_cons (st : St) (b : Nat) (bs : Bytes) :
    visibleFrom st (b :: bs) =
      if (next st b).2 then b :: visibleFrom (next st b).1 bs else visibleFrom (next st b).1 bs := by
  cases st <;> rfl

theorem truncFrom_cons (w : Nat) (st : St) (cur b : Nat) (bs : Bytes) :
    truncFrom w st cur (b :: bs) =
      if (next st b).2 then
        if cur < w then b :: truncFrom w (next st b).1 (cur + 1) bs
        else truncFrom w (next st b).1 cur bs
      else b :: truncFrom w (next st b).1 cur bs := by
  cases st <;> rfl

/-- the visible part is never longer than the string -/
theorem visibleFrom_length_le (st : St) (s : Bytes) : (visibleFrom st s).length ≤ s.length := by
  induction s generalizing st with
  | nil => simp
  | cons b bs ih =>
    rw [visibleFrom_cons]
    have := ih (next st b).1
    split <;> simp <;> omega

theorem width_le_length (s : Bytes) : width s ≤ s.length := visibleFrom_length_le .ground s

/-- the truncation loop keeps the escape bytes and the first `w - cur` printing bytes -/
theorem visibleFrom_truncFrom (w : Nat) (st : St) (cur : Nat) (s : Bytes) :
    visibleFrom st (truncFrom w st cur s) = (visibleFrom st s).take (w - cur) := by
  induction s generalizing st cur with
  | nil => simp
  | cons b bs ih =>
    rw [truncFrom_cons, visibleFrom_cons]
    by_cases hp : (next st b).2 = true
    · simp only [hp, if_true]
      by_cases hc : cur < w
      · simp only [hc, if_true]
        rw [visibleFrom_cons]
        simp only [hp, if_true]
        rw [ih]
        have e : w - cur = (w - (cur + 1)) + 1 := by omega
        rw [e, List.take_succ_cons]
      · simp only [hc, if_false]
        obtain ⟨e1, e2⟩ := next_print (st := st) (b := b) (st' := (next st b).1)
          (by rw [← hp])
        rw [e2] at *
        rw [e1, ih]
        have e : w - cur = 0 := by omega
        simp [e]
    · simp only [hp, if_false, Bool.false_eq_true]
      rw [visibleFrom_cons]
      simp only [hp, if_false, Bool.false_eq_true]
      exact ih _ _

theorem truncFrom_length_le (w : Nat) (st : St) (cur : Nat) (s : Bytes) :
    (truncFrom w st cur s).length ≤ s.length := by
  induction s generalizing st cur with
  | nil => simp
  | cons b bs ih =>
    rw [truncFrom_cons]
    have h1 := ih (next st b).1 (cur + 1)
    have h2 := ih (next st b).1 cur
    split
    · split <;> simp <;> omega
    · simp; omega

theorem visible_truncate (w : Nat) (s : Bytes) : visible (truncate w s) = (visible s).take w := by
  unfold truncate
  split
  · rename_i h
    unfold width at h
    rw [List.take_of_length_le h]
  · unfold visible
    rw [visibleFrom_truncFrom]
    rfl

theorem width_truncate (w : Nat) (s : Bytes) : width (truncate w s) = min w (width s) := by
  unfold width
  rw [visible_truncate, List.length_take]

theorem width_truncate_le (w : Nat) (s : Bytes) : width (truncate w s) ≤ w := by
  rw [width_truncate]; omega

theorem truncate_length_le (w : Nat) (s : Bytes) : (truncate w s).length ≤ s.length := by
  unfold truncate
  split
  · exact Nat.le_refl _
  · exact truncFrom_length_le _ _ _ _

/-- a line that fits is not changed -/
theorem truncate_of_width_le {w : Nat} {s : Bytes} (h : width s ≤ w) : truncate w s = s := by
  unfold truncate
  rw [if_pos h]

/-- plain text (no ESC byte) is its own visible part -/
theorem visible_of_plain {s : Bytes} (h : ∀ b ∈ s, b ≠ 0x1b) : visible s = s := by
  unfold visible
  induction s with
  | nil => rfl
  | cons b bs ih =>
    have hb : b ≠ 0x1b := h b (by simp)
    rw [visibleFrom_cons]
    simp only [next, hb, if_false, if_true]
    rw [ih (fun x hx => h x (by simp [hx]))]

theorem width_of_plain {s : Bytes} (h : ∀ b ∈ s, b ≠ 0x1b) : width s = s.length := by
  unfold width
  rw [visible_of_plain h]

theorem truncFrom_of_plain (w cur : Nat) {s : Bytes} (h : ∀ b ∈ s, b ≠ 0x1b) :
    truncFrom w .ground cur s = s.take (w - cur) := by
  induction s generalizing cur with
  | nil => simp
  | cons b bs ih =>
    have hb : b ≠ 0x1b := h b (by simp)
    have ih' := fun c => ih c (fun x hx => h x (by simp [hx]))
    rw [truncFrom_cons]
    simp only [next, hb, if_false, if_true]
    by_cases hc : cur < w
    · simp only [hc, if_true]
      rw [ih']
      have e : w - cur = (w - (cur + 1)) + 1 := by omega
      rw [e, List.take_succ_cons]
    · simp only [hc, if_false]
      rw [ih']
      have e : w - cur = 0 := by omega
      simp [e]

/-- on plain text the truncation is `take` -/
theorem truncate_of_plain (w : Nat) {s : Bytes} (h : ∀ b ∈ s, b ≠ 0x1b) :
    truncate w s = s.take w := by
  unfold truncate
  rw [width_of_plain h]
  split
  · rename_i hl
    rw [List.take_of_length_le hl]
  · rw [truncFrom_of_plain w 0 h]
    rfl

/-- the visible part of a visible part (it contains no ESC byte) -/
theorem visibleFrom_no_esc (st : St) (s : Bytes) : ∀ b ∈ visibleFrom st s, b ≠ 0x1b := by
  induction s generalizing st with
  | nil => simp
  | cons a bs ih =>
    rw [visibleFrom_cons]
    intro b hb
    by_cases hp : (next st a).2 = true
    · simp only [hp, if_true, List.mem_cons] at hb
      rcases hb with hb | hb
      · subst hb
        cases st <;> simp only [next] at hp <;> split at hp <;> simp_all
      · exact ih _ b hb
    · simp only [hp, if_false, Bool.false_eq_true] at hb
      exact ih _ b hb

theorem visible_visible (s : Bytes) : visible (visible s) = visible s :=
  visible_of_plain (visibleFrom_no_esc .ground s)

end Tea.Ansi
