import Tea.Proofs.InlineQ
/-
Entering the alt screen from the inline view, doing anything there, and leaving it again: the
main screen, its window and its cursor come back exactly as they were, and the renderer still
knows how many lines its inline view had (`linesRendered`), with an invalid cache — so the
inline invariant `InlineInv` holds again and the next flush repaints the view in place.
-/
namespace Tea.Render
open Tea Tea.VT

/-- an `altStable` step on the alt screen does not touch the main screen, and leaves alone
everything the renderer remembers about its inline view: `linesRendered`, the queued printed
lines (a `printLine` is ignored on the alt screen, an alt-screen flush neither prints nor drops
the queue) and the size -/
theorem alt_step_keeps (r : RState) (t : Term) (h : AltInv r t) (op : ROp)
    (hop : altStable op = true) :
    (applyOps t (step r op).2).main = t.main ∧
    (step r op).1.linesRendered = r.linesRendered ∧ (step r op).1.queued = r.queued ∧
    (step r op).1.width = r.width ∧ (step r op).1.height = r.height := by
  have mode : ∀ (n : Nat) (v : Bool), n ≠ 1049 → (applyOps t [if v then .decset n else .decrst n]).main = t.main := by
    intro n v hn
    cases v
    · exact (apply_mode_alt t n false hn).2.2.2.2
    · exact (apply_mode_alt t n true hn).2.2.2.2
  cases op with
  | size w h => simp [altStable] at hop
  | exitAlt => simp [altStable] at hop
  | stop => simp [altStable] at hop
  | kill => simp [altStable] at hop
  | write s => exact ⟨rfl, rfl, rfl, rfl, rfl⟩
  | flush =>
    show (applyOps t (flush r).2).main = t.main ∧ (flush r).1.linesRendered = r.linesRendered ∧
      (flush r).1.queued = r.queued ∧ (flush r).1.width = r.width ∧ (flush r).1.height = r.height
    cases hne : (r.buf.isEmpty || r.buf == r.lastRender) with
    | true => rw [flush_noop r hne]; exact ⟨rfl, rfl, rfl, rfl, rfl⟩
    | false =>
      have hb : r.buf ≠ [] := by
        intro hb; rw [hb] at hne; simp at hne
      refine ⟨(alt_flush_inv r t h hb).2.2.1, ?_, ?_, ?_, ?_⟩
      all_goals rw [flush_state r hne]
      all_goals simp [h.alt]
  | repaintMsg => exact ⟨rfl, rfl, rfl, rfl, rfl⟩
  | clearScreen =>
    refine ⟨?_, rfl, rfl, rfl, rfl⟩
    exact (applyOps_bufOps [.ed2, .home] t (by intro op hop; simp at hop; rcases hop with rfl | rfl <;> rfl)).2.2.2.2.1
      h.onAlt
  | enterAlt =>
    show (applyOps t (enterAlt r).2).main = t.main ∧ (enterAlt r).1.linesRendered = r.linesRendered ∧
      (enterAlt r).1.queued = r.queued ∧ (enterAlt r).1.width = r.width ∧ (enterAlt r).1.height = r.height
    rw [enterAlt_active r h.alt]
    exact ⟨rfl, rfl, rfl, rfl, rfl⟩
  | printLine body =>
    have e : step r (.printLine body) = (r, []) := by simp [step, h.alt]
    rw [e]
    exact ⟨rfl, rfl, rfl, rfl, rfl⟩
  | title s => exact ⟨rfl, rfl, rfl, rfl, rfl⟩
  | showCursor => exact ⟨mode 25 true (by decide), rfl, rfl, rfl, rfl⟩
  | hideCursor => exact ⟨mode 25 false (by decide), rfl, rfl, rfl, rfl⟩
  | mouseCell => exact ⟨mode 1002 true (by decide), rfl, rfl, rfl, rfl⟩
  | noMouseCell => exact ⟨mode 1002 false (by decide), rfl, rfl, rfl, rfl⟩
  | mouseAll => exact ⟨mode 1003 true (by decide), rfl, rfl, rfl, rfl⟩
  | noMouseAll => exact ⟨mode 1003 false (by decide), rfl, rfl, rfl, rfl⟩
  | mouseSGR => exact ⟨mode 1006 true (by decide), rfl, rfl, rfl, rfl⟩
  | noMouseSGR => exact ⟨mode 1006 false (by decide), rfl, rfl, rfl, rfl⟩
  | paste => exact ⟨mode 2004 true (by decide), rfl, rfl, rfl, rfl⟩
  | noPaste => exact ⟨mode 2004 false (by decide), rfl, rfl, rfl, rfl⟩
  | focus => exact ⟨mode 1004 true (by decide), rfl, rfl, rfl, rfl⟩
  | noFocus => exact ⟨mode 1004 false (by decide), rfl, rfl, rfl, rfl⟩

/-- ... and so does any history of such steps (with `AltInv` kept all along) -/
theorem alt_run_keeps (ops : List ROp) : ∀ (r : RState) (t : Term), AltInv r t →
    (∀ o ∈ ops, altStable o = true) →
    AltInv (run r ops).1 ((run r ops).2.foldl applyOps t) ∧
    ((run r ops).2.foldl applyOps t).main = t.main ∧
    (run r ops).1.linesRendered = r.linesRendered ∧ (run r ops).1.queued = r.queued ∧
    (run r ops).1.width = r.width ∧ (run r ops).1.height = r.height := by
  induction ops with
  | nil => intro r t h _; exact ⟨h, rfl, rfl, rfl, rfl, rfl⟩
  | cons o os ih =>
    intro r t h hs
    have h1 := alt_step_inv r t h o (hs o (by simp))
    obtain ⟨k1, k2, k3, k4, k5⟩ := alt_step_keeps r t h o (hs o (by simp))
    obtain ⟨i1, i2, i3, i4, i5, i6⟩ :=
      ih (step r o).1 (applyOps t (step r o).2) h1 (fun o' ho' => hs o' (by simp [ho']))
    have e1 : (run r (o :: os)).1 = (run (step r o).1 os).1 := rfl
    have e2 : (run r (o :: os)).2.foldl applyOps t =
        (run (step r o).1 os).2.foldl applyOps (applyOps t (step r o).2) := rfl
    rw [e1, e2]
    exact ⟨i1, i2.trans k1, i3.trans k2, i4.trans k3, i5.trans k4, i6.trans k5⟩

/-- the four switching operations on a terminal that is on the main screen: the main buffer keeps
its cells, window and cursor, and remembers the cursor (row relative to the window, column,
pending wrap) -/
theorem switchOps_main (t : Term) (hidden : Bool) (hon : t.onAlt = false) :
    (applyOps t (switchOps hidden)).main.cells = t.main.cells ∧
    (applyOps t (switchOps hidden)).main.top = t.main.top ∧
    (applyOps t (switchOps hidden)).main.sr = t.main.cr - t.main.top ∧
    (applyOps t (switchOps hidden)).main.sc = t.main.cc ∧
    (applyOps t (switchOps hidden)).main.spw = t.main.pw := by
  cases hidden <;>
    simp [switchOps, cursorOp, applyOps, apply, setMode, Term.setBuf, Term.buf, hon]

/-- the render that precedes the switch stays on the main screen at the same size -/
theorem preAlt_term (r : RState) (t : Term) :
    (applyOps t (preAlt r).2).onAlt = t.onAlt ∧ (applyOps t (preAlt r).2).w = t.w ∧
    (applyOps t (preAlt r).2).h = t.h ∧
    (t.onAlt = false → (applyOps t (preAlt r).2).alt = t.alt) := by
  obtain ⟨a1, a2, a3, _, _, a6⟩ := applyOps_bufOps (preAlt r).2 t (preAlt_bufOps r)
  exact ⟨a3, a1, a2, a6⟩

/-- entering the alt screen from the main screen: the main buffer is the one left by the render
that brings it up to date (`preAlt`: nothing when no printed line is queued) — its cells, window
and cursor are kept, and it remembers the cursor (row relative to the window, column, pending
wrap).

Before the repair of `enterAlt` (no render first) the statement was the same with `t` in place of
`applyOps t (preAlt r).2`; it is that statement when `r.queued = []` (`enterAlt_main_noq`). -/
theorem enterAlt_main (r : RState) (t : Term) (ha : r.altActive = false) (hon : t.onAlt = false) :
    (applyOps t (enterAlt r).2).main.cells = (applyOps t (preAlt r).2).main.cells ∧
    (applyOps t (enterAlt r).2).main.top = (applyOps t (preAlt r).2).main.top ∧
    (applyOps t (enterAlt r).2).main.sr =
      (applyOps t (preAlt r).2).main.cr - (applyOps t (preAlt r).2).main.top ∧
    (applyOps t (enterAlt r).2).main.sc = (applyOps t (preAlt r).2).main.cc ∧
    (applyOps t (enterAlt r).2).main.spw = (applyOps t (preAlt r).2).main.pw := by
  rw [enterAlt_ops r ha, applyOps_append]
  exact switchOps_main _ _ (by rw [(preAlt_term r t).1, hon])

theorem enterAlt_main_noq (r : RState) (t : Term) (ha : r.altActive = false) (hon : t.onAlt = false)
    (hq : r.queued = []) :
    (applyOps t (enterAlt r).2).main.cells = t.main.cells ∧
    (applyOps t (enterAlt r).2).main.top = t.main.top ∧
    (applyOps t (enterAlt r).2).main.sr = t.main.cr - t.main.top ∧
    (applyOps t (enterAlt r).2).main.sc = t.main.cc ∧
    (applyOps t (enterAlt r).2).main.spw = t.main.pw := by
  have := enterAlt_main r t ha hon
  rw [preAlt_noq r hq] at this
  exact this

/-- **The render before the switch keeps the inline invariant**: from an inline view, `preAlt` (one
ordinary flush when printed lines are queued) leaves renderer and terminal inline, at the same
size, with the alt buffer untouched. -/
theorem preAlt_inline (r : RState) (t : Term) (hinv : InlineInv r t) :
    InlineInv (preAlt r).1 (applyOps t (preAlt r).2) ∧
    (applyOps t (preAlt r).2).alt = t.alt ∧
    (applyOps t (preAlt r).2).w = t.w ∧ (applyOps t (preAlt r).2).h = t.h := by
  obtain ⟨_, p2, p3, p4⟩ := preAlt_term r t
  refine ⟨?_, p4 hinv.onAlt, p2, p3⟩
  rcases preAlt_cases r with h | h <;> rw [h]
  · exact hinv
  · cases hne : (r.buf.isEmpty || r.buf == r.lastRender) with
    | true => rw [flush_noop r hne]; exact hinv
    | false => exact (inline_flushQ_inv r t hinv hne).1

/-- leaving the alt screen: back on the main screen, whose cells and window are untouched and
whose cursor goes back to the remembered position; the size and the alt buffer stay -/
theorem exitAlt_main (r : RState) (t : Term) (ha : r.altActive = true) (hon : t.onAlt = true) :
    (applyOps t (exitAlt r).2).onAlt = false ∧
    (applyOps t (exitAlt r).2).w = t.w ∧ (applyOps t (exitAlt r).2).h = t.h ∧
    (applyOps t (exitAlt r).2).main.cells = t.main.cells ∧
    (applyOps t (exitAlt r).2).main.top = t.main.top ∧
    (applyOps t (exitAlt r).2).main.cr = t.main.top + t.main.sr ∧
    (applyOps t (exitAlt r).2).main.cc = t.main.sc ∧
    (applyOps t (exitAlt r).2).main.pw = t.main.spw := by
  have ho : (exitAlt r).2 = [.decrst 1049, cursorOp r.cursorHidden] := by
    simp [exitAlt, ha]
  rw [ho]
  cases r.cursorHidden <;> simp [cursorOp, applyOps, apply, setMode, hon]

/-- the renderer after leaving the alt screen -/
theorem exitAlt_state (r : RState) (ha : r.altActive = true) :
    (exitAlt r).1 = ({ r with altActive := false } : RState).repaint := by
  simp [exitAlt, ha]

/-- **Alt-screen round trip.**  From an inline view (`InlineInv r t`): enter the alt screen, run
any `altStable` history there (views, flushes, prints, modes, ClearScreen, repaints), leave it.
Entering first brings the main screen up to date (`preAlt`: one ordinary flush when printed lines
are queued — they and the pending view are painted on the main screen — and nothing otherwise);
call the renderer and the terminal after that `r0`, `t0`.  Then: the inline invariant holds again;
the queue of printed lines is the queue of `r0`; the main screen has exactly the cells, the window
and the cursor row of `t0`; the renderer remembers how many lines the inline view of `r0` had; and
the line cache is invalid.

(Before the repair of `enterAlt` the statement read `r`, `t` for `r0`, `t0`: the queue was carried
through the alt screen.  With `r.queued = []` nothing has changed: `alt_roundtrip_noq`.) -/
theorem alt_roundtrip (r : RState) (t : Term) (hinv : InlineInv r t) (ops : List ROp)
    (hs : ∀ o ∈ ops, altStable o = true) :
    let r0 := (preAlt r).1
    let t0 := applyOps t (preAlt r).2
    let r1 := (enterAlt r).1
    let t1 := applyOps t (enterAlt r).2
    let r2 := (run r1 ops).1
    let t2 := (run r1 ops).2.foldl applyOps t1
    let r3 := (exitAlt r2).1
    let t3 := applyOps t2 (exitAlt r2).2
    InlineInv r3 t3 ∧ r3.queued = r0.queued ∧ t3.main.cells = t0.main.cells ∧
    t3.main.top = t0.main.top ∧ t3.main.cr = t0.main.cr ∧
    r3.linesRendered = r0.linesRendered ∧ r3.lastLines = none ∧
    t3.w = t.w ∧ t3.h = t.h := by
  intro r0 t0 r1 t1 r2 t2 r3 t3
  obtain ⟨hinv0, _, hw0, hh0⟩ : InlineInv r0 t0 ∧ t0.alt = t.alt ∧ t0.w = t.w ∧ t0.h = t.h :=
    preAlt_inline r t hinv
  have h1 : AltInv r1 t1 :=
    enterAlt_inv r t hinv.alt hinv.onAlt hinv.width hinv.height hinv.wpos hinv.hpos
  obtain ⟨m1, m2, m3, m4, m5⟩ : t1.main.cells = t0.main.cells ∧ t1.main.top = t0.main.top ∧
      t1.main.sr = t0.main.cr - t0.main.top ∧ t1.main.sc = t0.main.cc ∧ t1.main.spw = t0.main.pw :=
    enterAlt_main r t hinv.alt hinv.onAlt
  obtain ⟨e6, e7, e11, e12⟩ : r1.queued = r0.queued ∧ r1.linesRendered = r0.linesRendered ∧
      r1.width = r.width ∧ r1.height = r.height := by
    obtain ⟨_, _, _, _, _, e6, e7, _, _, _, e11, e12⟩ := enterAlt_fields r hinv.alt
    exact ⟨e6, e7, e11, e12⟩
  obtain ⟨p5, p6⟩ : r0.width = r.width ∧ r0.height = r.height := (preAlt_keeps r).2.2.2.2
  obtain ⟨h2, k1, k2, k3, k4, k5⟩ := alt_run_keeps ops r1 t1 h1 hs
  obtain ⟨x1, x2, x3, x4, x5, x6, x7, x8⟩ := exitAlt_main r2 t2 h2.alt h2.onAlt
  have hr3 : r3 = ({ r2 with altActive := false } : RState).repaint := exitAlt_state r2 h2.alt
  have f1 : r3.linesRendered = r0.linesRendered := by
    rw [hr3]; show r2.linesRendered = _; rw [k2]; exact e7
  have f2 : r3.queued = r0.queued := by rw [hr3]; show r2.queued = _; rw [k3]; exact e6
  have f3 : r3.width = r0.width := by rw [hr3]; show r2.width = _; rw [k4, p5]; exact e11
  have f4 : r3.height = r0.height := by rw [hr3]; show r2.height = _; rw [k5, p6]; exact e12
  have f5 : r3.lastLines = none := by rw [hr3]; rfl
  have f6 : r3.lastRender = [] := by rw [hr3]; rfl
  have f7 : r3.altActive = false := by rw [hr3]; rfl
  have hw3 : t3.w = t0.w := by
    rw [x2, ← h2.width, k4]; exact e11.trans (hinv.width.trans hw0.symm)
  have hh3 : t3.h = t0.h := by
    rw [x3, ← h2.height, k5]; exact e12.trans (hinv.height.trans hh0.symm)
  have hin := hinv0.inside
  have c1 : t3.main.cells = t0.main.cells := by rw [x4, k1, m1]
  have c2 : t3.main.top = t0.main.top := by rw [x5, k1, m2]
  have c3 : t3.main.cr = t0.main.cr := by rw [x6, k1, m2, m3]; omega
  have c4 : t3.main.cc = 0 := by rw [x7, k1, m4]; exact hinv0.col.1
  have c5 : t3.main.pw = false := by rw [x8, k1, m5]; exact hinv0.col.2
  refine ⟨⟨f7, x1, by rw [f3, hw3]; exact hinv0.width, by rw [f4, hh3]; exact hinv0.height,
    by rw [hw3]; exact hinv0.wpos, by rw [hh3]; exact hinv0.hpos, ⟨c4, c5⟩, ?_, ?_, ?_, ?_⟩,
    f2, c1, c2, c3, f1, f5, hw3.trans hw0, hh3.trans hh0⟩
  · rw [c2, c3, f1, hh3]; exact hin
  · intro ρ hρ hρ2 c hc
    rw [c3] at hρ
    rw [c2, hh3] at hρ2
    rw [hw3] at hc
    rw [c1]
    exact hinv0.below ρ hρ hρ2 c hc
  · intro ls hls; rw [f5] at hls; cases hls
  · intro hne; exact absurd f6 hne

/-- the round trip with nothing queued (the statement as it was before the repair of `enterAlt`):
everything is relative to `r`, `t` themselves -/
theorem alt_roundtrip_noq (r : RState) (t : Term) (hinv : InlineInv r t) (hq : r.queued = [])
    (ops : List ROp) (hs : ∀ o ∈ ops, altStable o = true) :
    let r1 := (enterAlt r).1
    let t1 := applyOps t (enterAlt r).2
    let r2 := (run r1 ops).1
    let t2 := (run r1 ops).2.foldl applyOps t1
    let r3 := (exitAlt r2).1
    let t3 := applyOps t2 (exitAlt r2).2
    InlineInv r3 t3 ∧ r3.queued = [] ∧ t3.main.cells = t.main.cells ∧
    t3.main.top = t.main.top ∧ t3.main.cr = t.main.cr ∧
    r3.linesRendered = r.linesRendered ∧ r3.lastLines = none ∧
    t3.w = t.w ∧ t3.h = t.h := by
  have h := alt_roundtrip r t hinv ops hs
  rw [preAlt_noq r hq] at h
  simp only [applyOps_nil] at h
  rw [hq] at h
  exact h

/-- a row is a function of the cells -/
theorem row_of_cells {b b' : Buf} (h : b'.cells = b.cells) (w R : Nat) : b'.row w R = b.row w R := by
  unfold Buf.row; rw [h]

/-- after the round trip the inline view starts where it started before -/
theorem viewTop_congr {r r' : RState} {t t' : Term} (h1 : r'.linesRendered = r.linesRendered)
    (h2 : t'.main.cr = t.main.cr) : viewTop r' t' = viewTop r t := by
  unfold viewTop; rw [h1, h2]

end Tea.Render
