import Tea.Proofs.Inline
/-
Entering the alt screen from the inline view, doing anything there, and leaving it again: the
main screen, its window and its cursor come back exactly as they were, and the renderer still
knows how many lines its inline view had (`linesRendered`), with an invalid cache — so the
inline invariant `InlineInv` holds again and the next flush repaints the view in place.
-/
namespace Tea.Render
open Tea Tea.VT

/-- an `altStable` step on the alt screen does not touch the main screen, and leaves alone
everything the renderer remembers about its inline view: `linesRendered`, the queued printed
lines (a `printLine` is ignored on the alt screen, an alt-screen flush neither prints nor drops
the queue) and the size -/
theorem alt_step_keeps (r : RState) (t : Term) (h : AltInv r t) (op : ROp)
    (hop : altStable op = true) :
    (applyOps t (step r op).2).main = t.main ∧
    (step r op).1.linesRendered = r.linesRendered ∧ (step r op).1.queued = r.queued ∧
    (step r op).1.width = r.width ∧ (step r op).1.height = r.height := by
  have mode : ∀ (n : Nat) (v : Bool), n ≠ 1049 → (applyOps t [if v then .decset n else .decrst n]).main = t.main := by
    intro n v hn
    cases v
    · exact (apply_mode_alt t n false hn).2.2.2.2
    · exact (apply_mode_alt t n true hn).2.2.2.2
  cases op with
  | size w h => simp [altStable] at hop
  | exitAlt => simp [altStable] at hop
  | stop => simp [altStable] at hop
  | kill => simp [altStable] at hop
  | write s => exact ⟨rfl, rfl, rfl, rfl, rfl⟩
  | flush =>
    show (applyOps t (flush r).2).main = t.main ∧ (flush r).1.linesRendered = r.linesRendered ∧
      (flush r).1.queued = r.queued ∧ (flush r).1.width = r.width ∧ (flush r).1.height = r.height
    cases hne : (r.buf.isEmpty || r.buf == r.lastRender) with
    | true => rw [flush_noop r hne]; exact ⟨rfl, rfl, rfl, rfl, rfl⟩
    | false =>
      have hb : r.buf ≠ [] := by
        intro hb; rw [hb] at hne; simp at hne
      refine ⟨(alt_flush_inv r t h hb).2.2.1, ?_, ?_, ?_, ?_⟩
      all_goals rw [flush_state r hne]
      all_goals simp [h.alt]
  | repaintMsg => exact ⟨rfl, rfl, rfl, rfl, rfl⟩
  | clearScreen =>
    refine ⟨?_, rfl, rfl, rfl, rfl⟩
    exact (applyOps_bufOps [.ed2, .home] t (by intro op hop; simp at hop; rcases hop with rfl | rfl <;> rfl)).2.2.2.2.1
      h.onAlt
  | enterAlt =>
    show (applyOps t (enterAlt r).2).main = t.main ∧ (enterAlt r).1.linesRendered = r.linesRendered ∧
      (enterAlt r).1.queued = r.queued ∧ (enterAlt r).1.width = r.width ∧ (enterAlt r).1.height = r.height
    have e : enterAlt r = (r, []) := by simp [enterAlt, h.alt]
    rw [e]
    exact ⟨rfl, rfl, rfl, rfl, rfl⟩
  | printLine body =>
    have e : step r (.printLine body) = (r, []) := by simp [step, h.alt]
    rw [e]
    exact ⟨rfl, rfl, rfl, rfl, rfl⟩
  | title s => exact ⟨rfl, rfl, rfl, rfl, rfl⟩
  | showCursor => exact ⟨mode 25 true (by decide), rfl, rfl, rfl, rfl⟩
  | hideCursor => exact ⟨mode 25 false (by decide), rfl, rfl, rfl, rfl⟩
  | mouseCell => exact ⟨mode 1002 true (by decide), rfl, rfl, rfl, rfl⟩
  | noMouseCell => exact ⟨mode 1002 false (by decide), rfl, rfl, rfl, rfl⟩
  | mouseAll => exact ⟨mode 1003 true (by decide), rfl, rfl, rfl, rfl⟩
  | noMouseAll => exact ⟨mode 1003 false (by decide), rfl, rfl, rfl, rfl⟩
  | mouseSGR => exact ⟨mode 1006 true (by decide), rfl, rfl, rfl, rfl⟩
  | noMouseSGR => exact ⟨mode 1006 false (by decide), rfl, rfl, rfl, rfl⟩
  | paste => exact ⟨mode 2004 true (by decide), rfl, rfl, rfl, rfl⟩
  | noPaste => exact ⟨mode 2004 false (by decide), rfl, rfl, rfl, rfl⟩
  | focus => exact ⟨mode 1004 true (by decide), rfl, rfl, rfl, rfl⟩
  | noFocus => exact ⟨mode 1004 false (by decide), rfl, rfl, rfl, rfl⟩

/-- ... and so does any history of such steps (with `AltInv` kept all along) -/
theorem alt_run_keeps (ops : List ROp) : ∀ (r : RState) (t : Term), AltInv r t →
    (∀ o ∈ ops, altStable o = true) →
    AltInv (run r ops).1 ((run r ops).2.foldl applyOps t) ∧
    ((run r ops).2.foldl applyOps t).main = t.main ∧
    (run r ops).1.linesRendered = r.linesRendered ∧ (run r ops).1.queued = r.queued ∧
    (run r ops).1.width = r.width ∧ (run r ops).1.height = r.height := by
  induction ops with
  | nil => intro r t h _; exact ⟨h, rfl, rfl, rfl, rfl, rfl⟩
  | cons o os ih =>
    intro r t h hs
    have h1 := alt_step_inv r t h o (hs o (by simp))
    obtain ⟨k1, k2, k3, k4, k5⟩ := alt_step_keeps r t h o (hs o (by simp))
    obtain ⟨i1, i2, i3, i4, i5, i6⟩ :=
      ih (step r o).1 (applyOps t (step r o).2) h1 (fun o' ho' => hs o' (by simp [ho']))
    have e1 : (run r (o :: os)).1 = (run (step r o).1 os).1 := rfl
    have e2 : (run r (o :: os)).2.foldl applyOps t =
        (run (step r o).1 os).2.foldl applyOps (applyOps t (step r o).2) := rfl
    rw [e1, e2]
    exact ⟨i1, i2.trans k1, i3.trans k2, i4.trans k3, i5.trans k4, i6.trans k5⟩

/-- entering the alt screen from the main screen: the main buffer keeps its cells, window and
cursor, and remembers the cursor (row relative to the window, column, pending wrap) -/
theorem enterAlt_main (r : RState) (t : Term) (ha : r.altActive = false) (hon : t.onAlt = false) :
    (applyOps t (enterAlt r).2).main.cells = t.main.cells ∧
    (applyOps t (enterAlt r).2).main.top = t.main.top ∧
    (applyOps t (enterAlt r).2).main.sr = t.main.cr - t.main.top ∧
    (applyOps t (enterAlt r).2).main.sc = t.main.cc ∧
    (applyOps t (enterAlt r).2).main.spw = t.main.pw := by
  have ho : (enterAlt r).2 = [.decset 1049, .ed2, .home, cursorOp r.cursorHidden] := by
    simp [enterAlt, ha]
  rw [ho]
  cases r.cursorHidden <;>
    simp [cursorOp, applyOps, apply, setMode, Term.setBuf, Term.buf, hon]

/-- leaving the alt screen: back on the main screen, whose cells and window are untouched and
whose cursor goes back to the remembered position; the size and the alt buffer stay -/
theorem exitAlt_main (r : RState) (t : Term) (ha : r.altActive = true) (hon : t.onAlt = true) :
    (applyOps t (exitAlt r).2).onAlt = false ∧
    (applyOps t (exitAlt r).2).w = t.w ∧ (applyOps t (exitAlt r).2).h = t.h ∧
    (applyOps t (exitAlt r).2).main.cells = t.main.cells ∧
    (applyOps t (exitAlt r).2).main.top = t.main.top ∧
    (applyOps t (exitAlt r).2).main.cr = t.main.top + t.main.sr ∧
    (applyOps t (exitAlt r).2).main.cc = t.main.sc ∧
    (applyOps t (exitAlt r).2).main.pw = t.main.spw := by
  have ho : (exitAlt r).2 = [.decrst 1049, cursorOp r.cursorHidden] := by
    simp [exitAlt, ha]
  rw [ho]
  cases r.cursorHidden <;> simp [cursorOp, applyOps, apply, setMode, hon]

/-- the renderer after leaving the alt screen -/
theorem exitAlt_state (r : RState) (ha : r.altActive = true) :
    (exitAlt r).1 = ({ r with altActive := false } : RState).repaint := by
  simp [exitAlt, ha]

/-- **Alt-screen round trip.**  From an inline view (`InlineInv r t`): enter the alt screen, run
any `altStable` history there (views, flushes, prints, modes, ClearScreen, repaints), leave it.
The inline invariant holds again; the queue of printed lines is what it was; the main screen has
exactly the cells, the window and the cursor row it had; the renderer remembers how many lines
the inline view had; and the line cache is invalid. -/
theorem alt_roundtrip (r : RState) (t : Term) (hinv : InlineInv r t) (ops : List ROp)
    (hs : ∀ o ∈ ops, altStable o = true) :
    let r1 := (enterAlt r).1
    let t1 := applyOps t (enterAlt r).2
    let r2 := (run r1 ops).1
    let t2 := (run r1 ops).2.foldl applyOps t1
    let r3 := (exitAlt r2).1
    let t3 := applyOps t2 (exitAlt r2).2
    InlineInv r3 t3 ∧ r3.queued = r.queued ∧ t3.main.cells = t.main.cells ∧
    t3.main.top = t.main.top ∧ t3.main.cr = t.main.cr ∧
    r3.linesRendered = r.linesRendered ∧ r3.lastLines = none ∧
    t3.w = t.w ∧ t3.h = t.h := by
  intro r1 t1 r2 t2 r3 t3
  have h1 : AltInv r1 t1 :=
    enterAlt_inv r t hinv.alt hinv.onAlt hinv.width hinv.height hinv.wpos hinv.hpos
  obtain ⟨m1, m2, m3, m4, m5⟩ := enterAlt_main r t hinv.alt hinv.onAlt
  have hr1 : r1 = ({ r with altActive := true, altLinesRendered := 0 } : RState).repaint := by
    show (enterAlt r).1 = _
    simp [enterAlt, hinv.alt]
  obtain ⟨h2, k1, k2, k3, k4, k5⟩ := alt_run_keeps ops r1 t1 h1 hs
  obtain ⟨x1, x2, x3, x4, x5, x6, x7, x8⟩ := exitAlt_main r2 t2 h2.alt h2.onAlt
  have hr3 : r3 = ({ r2 with altActive := false } : RState).repaint := exitAlt_state r2 h2.alt
  have f1 : r3.linesRendered = r.linesRendered := by rw [hr3]; show r2.linesRendered = _; rw [k2, hr1]; rfl
  have f2 : r3.queued = r.queued := by rw [hr3]; show r2.queued = _; rw [k3, hr1]; rfl
  have f3 : r3.width = r.width := by rw [hr3]; show r2.width = _; rw [k4, hr1]; rfl
  have f4 : r3.height = r.height := by rw [hr3]; show r2.height = _; rw [k5, hr1]; rfl
  have f5 : r3.lastLines = none := by rw [hr3]; rfl
  have f6 : r3.lastRender = [] := by rw [hr3]; rfl
  have f7 : r3.altActive = false := by rw [hr3]; rfl
  have g1 : r1.width = r.width := by rw [hr1]; rfl
  have g2 : r1.height = r.height := by rw [hr1]; rfl
  have hw3 : t3.w = t.w := by
    rw [x2, ← h2.width, k4, g1]; exact hinv.width
  have hh3 : t3.h = t.h := by
    rw [x3, ← h2.height, k5, g2]; exact hinv.height
  have hin := hinv.inside
  have c1 : t3.main.cells = t.main.cells := by rw [x4, k1, m1]
  have c2 : t3.main.top = t.main.top := by rw [x5, k1, m2]
  have c3 : t3.main.cr = t.main.cr := by rw [x6, k1, m2, m3]; omega
  have c4 : t3.main.cc = 0 := by rw [x7, k1, m4]; exact hinv.col.1
  have c5 : t3.main.pw = false := by rw [x8, k1, m5]; exact hinv.col.2
  refine ⟨⟨f7, x1, by rw [f3, hw3]; exact hinv.width, by rw [f4, hh3]; exact hinv.height,
    by rw [hw3]; exact hinv.wpos, by rw [hh3]; exact hinv.hpos, ⟨c4, c5⟩, ?_, ?_, ?_, ?_⟩,
    f2, c1, c2, c3, f1, f5, hw3, hh3⟩
  · rw [c2, c3, f1, hh3]; exact hin
  · intro ρ hρ hρ2 c hc
    rw [c3] at hρ
    rw [c2, hh3] at hρ2
    rw [hw3] at hc
    rw [c1]
    exact hinv.below ρ hρ hρ2 c hc
  · intro ls hls; rw [f5] at hls; cases hls
  · intro hne; exact absurd f6 hne

/-- after the round trip the inline view starts where it started before -/
theorem viewTop_congr {r r' : RState} {t t' : Term} (h1 : r'.linesRendered = r.linesRendered)
    (h2 : t'.main.cr = t.main.cr) : viewTop r' t' = viewTop r t := by
  unfold viewTop; rw [h1, h2]

end Tea.Render
