import Tea.Proofs.Flush
import Tea.Proofs.Outside
import Tea.Proofs.EnterAlt
/-
Alt-screen flushes on a `Term`: the general one-flush theorem (`alt_flush_term`),
the renderer/terminal invariant `AltInv`, and its preservation — by every step that stays on
the alt screen (`alt_step_inv`) and by resizes (`alt_resize_inv`; `runT` runs a history in which
the terminal is resized at `.size` steps).
-/
namespace Tea.Render
open Tea Tea.VT

theorem term_buf_alt (t : Term) (h : t.onAlt = true) : t.buf = t.alt := by simp [Term.buf, h]
theorem term_buf_main (t : Term) (h : t.onAlt = false) : t.buf = t.main := by simp [Term.buf, h]

theorem canSkip_sameAsLast {r : RState} {fq sh : Bool} {n i : Nat} {l : Line}
    (h : canSkip r fq sh n i l = true) : sameAsLast r i l = true := by
  unfold canSkip at h
  simp only [Bool.and_eq_true] at h
  exact h.2

theorem sameAsLast_none (r : RState) (i : Nat) (l : Line) (h : r.lastLines = none) :
    sameAsLast r i l = false := by simp [sameAsLast, h]

theorem sameAsLast_some {r : RState} {i : Nat} {l : Line} {ls : List Line} (h : r.lastLines = some ls)
    (hs : sameAsLast r i l = true) : ls[i]? = some l := by
  simpa [sameAsLast, h] using hs

/-- One painting flush on the alt screen, for a renderer and a terminal that agree on the size
and on being on the alt screen, from any cursor position, provided every line that the loop may
skip (`sameAsLast`) is on the screen in its row. -/
theorem alt_flush_term (r : RState) (t : Term) (halt : r.altActive = true) (hon : t.onAlt = true)
    (hw : r.width = t.w) (hh : r.height = t.h) (hw1 : 1 ≤ t.w) (hh1 : 1 ≤ t.h)
    (hne : (r.buf.isEmpty || r.buf == r.lastRender) = false)
    (hskip : ∀ j l, (frameLines r)[j]? = some l → sameAsLast r j l = true →
      rowShows t.w t.alt (t.alt.top + j) (Ansi.visible l)) :
    ∀ t', t' = applyOps t (flush r).2 →
    t'.onAlt = true ∧ t'.w = t.w ∧ t'.h = t.h ∧ t'.main = t.main ∧
    t'.alt.top = t.alt.top ∧ t'.alt.cr = t.alt.top + (frameLines r).length - 1 ∧
    t'.alt.cc = 0 ∧ t'.alt.pw = false ∧
    (∀ j l, (frameLines r)[j]? = some l → rowShows t.w t'.alt (t.alt.top + j) (Ansi.visible l)) ∧
    (∀ ρ, ρ < t.alt.top → ∀ c, t'.alt.cells ρ c = t.alt.cells ρ c) ∧
    (¬ r.altLinesRendered > (frameLines r).length → ∀ ρ, t.alt.top + (frameLines r).length ≤ ρ →
      ∀ c, t'.alt.cells ρ c = t.alt.cells ρ c) ∧
    (r.altLinesRendered > (frameLines r).length → ∀ ρ, t.alt.top + (frameLines r).length ≤ ρ →
      ρ < t.alt.top + t.h → rowBlank t.w t'.alt ρ) := by
  intro t' ht'
  have hn1 : 1 ≤ (frameLines r).length := by rw [frameLines_eq]; exact frameOf_length_pos _ _
  have hnh : (frameLines r).length ≤ t.h := by
    rw [frameLines_eq, ← hh]; exact frameOf_length_le _ _ (by omega)
  rw [flush_alt_ops r halt hne] at ht'
  obtain ⟨a1, a2, a3, a4, a5, _⟩ := applyOps_bufOps ([.home] ++ (paintOps r false
      (decide (r.altLinesRendered > (frameLines r).length))
      (frameLines r).length 0 (frameLines r) ++ [.cup (frameLines r).length])) t (by
    intro op hop
    simp only [List.mem_append, List.mem_singleton] at hop
    rcases hop with rfl | hop | rfl
    · rfl
    · exact paintOps_bufOps _ _ _ _ _ _ op hop
    · rfl)
  rw [← ht'] at a1 a2 a3 a4 a5
  have hon' : t'.onAlt = true := by rw [a3, hon]
  rw [term_buf_alt t' hon', term_buf_alt t hon] at a4
  obtain ⟨c1, c2, c3, c4, c5⟩ := a4
  obtain ⟨s1, s2, s3, s4, s5, s6, s7, s8⟩ := altFlush_buf r
    (decide (r.altLinesRendered > (frameLines r).length)) t.w t.h t.alt (frameLines r) hw hw1 hn1 hnh
    (fun j l hj hcs => hskip j l hj (canSkip_sameAsLast hcs)) _ rfl
  refine ⟨hon', a1, a2, a5 hon, by rw [c2, s1], by rw [c3, s2], by rw [c4, s3], by rw [c5, s4],
    ?_, ?_, ?_, ?_⟩
  · intro j l hj
    exact rowShows_congr (fun c => by rw [c1]) (s5 j l hj)
  · intro ρ hρ c
    rw [c1]; exact s6 ρ hρ c
  · intro hsh ρ hρ c
    rw [c1]; exact s7 (by simpa using hsh) ρ hρ c
  · intro hsh ρ hρ hρ2
    exact rowBlank_congr (fun c => by rw [c1]) (s8 (by simpa using hsh) ρ hρ hρ2)

/-- The alt-screen invariant between a renderer state and the terminal it writes to: both are on
the alt screen with the same size (the cursor may be anywhere: an alt-screen flush starts with
HOME); every window row from `altLinesRendered` on is blank; when the line cache is valid it has
`altLinesRendered` lines and window row `i` shows cached line `i` (cut at the width, padded with
blanks); the cache, when `lastRender` is set, is the frame of `lastRender`; and every cell of the
alt buffer outside the window rectangle (below its last row or right of its last column) is blank
(`outside`: nothing is ever written there, so a window that grows shows blank cells). -/
structure AltInv (r : RState) (t : Term) : Prop where
  alt : r.altActive = true
  onAlt : t.onAlt = true
  width : r.width = t.w
  height : r.height = t.h
  wpos : 1 ≤ t.w
  hpos : 1 ≤ t.h
  below : ∀ i, r.altLinesRendered ≤ i → i < t.h → rowBlank t.w t.alt (t.alt.top + i)
  cache : ∀ ls, r.lastLines = some ls → ls.length = r.altLinesRendered ∧
      ∀ i l, ls[i]? = some l → rowShows t.w t.alt (t.alt.top + i) (Ansi.visible l)
  render : r.lastRender ≠ [] → r.lastLines = some (frameOf r.height r.lastRender)
  outside : ∀ ρ c, (t.alt.top + t.h ≤ ρ ∨ t.w ≤ c) → t.alt.cells ρ c = 32

theorem AltInv.write {r : RState} {t : Term} (h : AltInv r t) (s : Bytes) : AltInv (write r s) t :=
  ⟨h.alt, h.onAlt, h.width, h.height, h.wpos, h.hpos, h.below, h.cache, h.render, h.outside⟩

theorem write_buf_ne (r : RState) (s : Bytes) : (write r s).buf ≠ [] := by
  unfold write
  cases s <;> simp

/-- `AltInv` is preserved by a flush (whatever changed between the views, including nothing),
the window does not scroll, the main screen is not touched, and afterwards the cache is the new
frame — so by `AltInv` the screen shows exactly the new frame and blank rows below it. -/
theorem alt_flush_inv (r : RState) (t : Term) (hinv : AltInv r t) (hbuf : r.buf ≠ []) :
    AltInv (flush r).1 (applyOps t (flush r).2) ∧
    (applyOps t (flush r).2).alt.top = t.alt.top ∧
    (applyOps t (flush r).2).main = t.main ∧
    (applyOps t (flush r).2).w = t.w ∧ (applyOps t (flush r).2).h = t.h ∧
    (flush r).1.lastLines = some (frameLines r) ∧
    (flush r).1.altLinesRendered = (frameLines r).length ∧
    (r.buf ≠ r.lastRender →
      (applyOps t (flush r).2).alt.cr = t.alt.top + (frameLines r).length - 1 ∧
      (applyOps t (flush r).2).alt.cc = 0 ∧ (applyOps t (flush r).2).alt.pw = false) := by
  have hbe : r.buf.isEmpty = false := by cases hb : r.buf with
    | nil => exact absurd hb hbuf
    | cons _ _ => rfl
  cases hsame : (r.buf == r.lastRender) with
  | true =>
    have hnoop : flush r = (r, []) := flush_noop r (by simp [hsame])
    have heq : r.buf = r.lastRender := by simpa using hsame
    have hll : r.lastLines = some (frameLines r) := by
      rw [frameLines_eq, heq]; exact hinv.render (by rw [← heq]; exact hbuf)
    rw [hnoop]
    exact ⟨hinv, rfl, rfl, rfl, rfl, hll, ((hinv.cache _ hll).1).symm, fun h => absurd heq h⟩
  | false =>
    have hne : (r.buf.isEmpty || r.buf == r.lastRender) = false := by simp [hbe, hsame]
    obtain ⟨s1, s2, s3, s4, s5, s6, s7, s8, s9, _, s11, s12⟩ := alt_flush_term r t hinv.alt hinv.onAlt
      hinv.width hinv.height hinv.wpos hinv.hpos hne
      (by
        intro j l _ hs
        cases hll : r.lastLines with
        | none => rw [sameAsLast_none r j l hll] at hs; cases hs
        | some ls => exact (hinv.cache ls hll).2 j l (sameAsLast_some hll hs))
      _ rfl
    have hn1 : 1 ≤ (frameLines r).length := by rw [frameLines_eq]; exact frameOf_length_pos _ _
    have hout : OutsideBlank t.w t.h (applyOps t (flush r).2).alt := by
      rw [flush_alt_ops r hinv.alt hne, List.singleton_append]
      refine applyOps_home_outside _ t hinv.onAlt ?_ hinv.wpos hinv.hpos hinv.outside
      intro op hop
      simp only [List.mem_append, List.mem_singleton] at hop
      rcases hop with hop | rfl
      · exact paintOps_bufOps _ _ _ _ _ _ op hop
      · rfl
    generalize applyOps t (flush r).2 = t' at *
    have e := flush_state r hne
    generalize (flush r).1 = r' at e ⊢
    have f1 : r'.altActive = true := by rw [e]; exact hinv.alt
    have f2 : r'.width = r.width := by rw [e]
    have f3 : r'.height = r.height := by rw [e]
    have f4 : r'.altLinesRendered = (frameLines r).length := by rw [e]; simp [hinv.alt]
    have f5 : r'.lastLines = some (frameLines r) := by rw [e]
    have f6 : r'.lastRender = r.buf := by rw [e]
    refine ⟨⟨f1, s1, by rw [s2, f2]; exact hinv.width, by rw [s3, f3]; exact hinv.height,
      by rw [s2]; exact hinv.wpos, by rw [s3]; exact hinv.hpos, ?_, ?_, ?_, by rw [s2, s3]; exact hout⟩,
      s5, s4, s2, s3, f5, f4, fun _ => ⟨s6, s7, s8⟩⟩
    · intro i hi hih
      rw [s2, s5]
      rw [s3] at hih
      rw [f4] at hi
      by_cases hsh : r.altLinesRendered > (frameLines r).length
      · exact s12 hsh _ (by omega) (by omega)
      · exact rowBlank_congr (fun c => s11 hsh _ (by omega) c) (hinv.below i (by omega) hih)
    · intro ls hls
      rw [f5] at hls
      have := Option.some.inj hls
      subst this
      refine ⟨f4.symm, ?_⟩
      intro i l hi
      rw [s2, s5]
      exact s9 i l hi
    · intro _
      rw [f5, f6, f3, frameLines_eq]

/-- what `AltInv` with a known cache says about the screen: the first `ls.length` window rows
are exactly the cached lines (cut and padded), the remaining window rows are blank -/
theorem AltInv.screen {r : RState} {t : Term} (h : AltInv r t) {ls : List Line}
    (hls : r.lastLines = some ls) :
    ls.length = r.altLinesRendered ∧
    (∀ i l, ls[i]? = some l → t.alt.row t.w (t.alt.top + i) = padLine t.w (Ansi.visible l)) ∧
    (∀ i, ls.length ≤ i → i < t.h → t.alt.row t.w (t.alt.top + i) = List.replicate t.w 32) := by
  obtain ⟨c1, c2⟩ := h.cache ls hls
  refine ⟨c1, ?_, ?_⟩
  · intro i l hi
    exact (rowShows_iff_row _ _ _ _).1 (c2 i l hi)
  · intro i hi hih
    exact (rowBlank_iff_row _ _ _).1 (h.below i (by omega) hih)

/-- `AltInv` only reads these fields -/
theorem AltInv.congr {r r' : RState} {t t' : Term} (h : AltInv r t)
    (e1 : r'.altActive = r.altActive) (e2 : r'.width = r.width) (e3 : r'.height = r.height)
    (e4 : r'.altLinesRendered = r.altLinesRendered) (e5 : r'.lastLines = r.lastLines)
    (e6 : r'.lastRender = r.lastRender)
    (f1 : t'.onAlt = t.onAlt) (f2 : t'.w = t.w) (f3 : t'.h = t.h) (f4 : t'.alt = t.alt) :
    AltInv r' t' := by
  refine ⟨by rw [e1]; exact h.alt, by rw [f1]; exact h.onAlt, by rw [e2, f2]; exact h.width,
    by rw [e3, f3]; exact h.height, by rw [f2]; exact h.wpos, by rw [f3]; exact h.hpos, ?_, ?_, ?_, ?_⟩
  · rw [e4, f2, f3, f4]; exact h.below
  · rw [e4, e5, f2, f4]; exact h.cache
  · rw [e3, e5, e6]; exact h.render
  · rw [f2, f3, f4]; exact h.outside

/-- invalidating the cache keeps the invariant (it only weakens what is known) -/
theorem AltInv.repaint {r : RState} {t : Term} (h : AltInv r t) : AltInv r.repaint t :=
  ⟨h.alt, h.onAlt, h.width, h.height, h.wpos, h.hpos, h.below,
    fun _ hls => by simp [RState.repaint] at hls, fun hne => by simp [RState.repaint] at hne,
    h.outside⟩

theorem preAlt_bufOps (r : RState) : ∀ op ∈ (preAlt r).2, isBufOp op = true := by
  rcases preAlt_cases r with h | h <;> rw [h]
  · intro op hop; simp at hop
  · exact flush_bufOps r

/-- what the four switching operations do to a terminal that is on the main screen: the alt screen
is active and blank, the main buffer is not touched (its cursor is saved) -/
theorem switchOps_term (t : Term) (hidden : Bool) (hon : t.onAlt = false) :
    (applyOps t (switchOps hidden)).onAlt = true ∧
    (applyOps t (switchOps hidden)).w = t.w ∧
    (applyOps t (switchOps hidden)).h = t.h ∧
    ∀ ρ c, (applyOps t (switchOps hidden)).alt.cells ρ c = 32 := by
  cases hidden <;>
    simp [switchOps, cursorOp, applyOps, apply, setMode, Term.setBuf, Term.buf, hon, applyBuf, cupRow,
      Buf.eraseRows]

/-- ... and the alt screen's cursor is at home (top left of its window, no pending wrap) -/
theorem switchOps_alt_home (t : Term) (hidden : Bool) (hon : t.onAlt = false) :
    (applyOps t (switchOps hidden)).alt.cr = (applyOps t (switchOps hidden)).alt.top ∧
    (applyOps t (switchOps hidden)).alt.cc = 0 ∧
    (applyOps t (switchOps hidden)).alt.pw = false := by
  cases hidden <;>
    simp [switchOps, cursorOp, applyOps, apply, setMode, Term.setBuf, Term.buf, hon, applyBuf, cupRow,
      Buf.eraseRows] <;> (repeat' split) <;> omega

/-- entering the alt screen establishes the invariant (whatever is queued: the render that now
precedes the switch happens on the main screen and changes neither the size nor the screen the
terminal is on) -/
theorem enterAlt_inv (r : RState) (t : Term) (ha : r.altActive = false) (hon : t.onAlt = false)
    (hw : r.width = t.w) (hh : r.height = t.h) (hw1 : 1 ≤ t.w) (hh1 : 1 ≤ t.h) :
    AltInv (enterAlt r).1 (applyOps t (enterAlt r).2) := by
  obtain ⟨f1, f2, f3, f4, _, _, _, _, _, _, f11, f12⟩ := enterAlt_fields r ha
  obtain ⟨a1, a2, a3, _, _, _⟩ := applyOps_bufOps (preAlt r).2 t (preAlt_bufOps r)
  rw [enterAlt_ops r ha, applyOps_append]
  obtain ⟨h1, h2, h3, h4⟩ := switchOps_term (applyOps t (preAlt r).2) r.cursorHidden (by rw [a3, hon])
  generalize applyOps (applyOps t (preAlt r).2) (switchOps r.cursorHidden) = t' at *
  refine ⟨f1, h1, by rw [h2, a1, f11]; exact hw, by rw [h3, a2, f12]; exact hh, by omega, by omega,
    ?_, ?_, ?_, fun ρ c _ => h4 ρ c⟩
  · intro i _ _ c _; exact h4 _ _
  · intro ls hls; rw [f4] at hls; cases hls
  · intro hne; exact absurd f3 hne

/-- mode switches other than 1049 and the title leave the screens alone -/
theorem apply_mode_alt (t : Term) (n : Nat) (v : Bool) (hn : n ≠ 1049) :
    (setMode t n v).onAlt = t.onAlt ∧ (setMode t n v).w = t.w ∧ (setMode t n v).h = t.h ∧
    (setMode t n v).alt = t.alt ∧ (setMode t n v).main = t.main := by
  unfold setMode
  repeat' split
  all_goals first | exact ⟨rfl, rfl, rfl, rfl, rfl⟩ | omega

/-- CLEAR SCREEN on the alt screen: ED2, HOME blank the window -/
theorem clearScreen_inv (r : RState) (t : Term) (h : AltInv r t) :
    AltInv (clearScreen r).1 (applyOps t (clearScreen r).2) := by
  have hb : t.buf = t.alt := term_buf_alt t h.onAlt
  have ht : (applyOps t [.ed2, .home]).onAlt = true ∧ (applyOps t [.ed2, .home]).w = t.w ∧
      (applyOps t [.ed2, .home]).h = t.h ∧ (applyOps t [.ed2, .home]).alt.top = t.alt.top ∧
      (∀ ρ c, t.alt.top ≤ ρ → ρ < t.alt.top + t.h → c < t.w →
        (applyOps t [.ed2, .home]).alt.cells ρ c = 32) ∧
      (∀ ρ c, (t.alt.top + t.h ≤ ρ ∨ t.w ≤ c) →
        (applyOps t [.ed2, .home]).alt.cells ρ c = t.alt.cells ρ c) := by
    simp only [applyOps, List.foldl_cons, List.foldl_nil, apply]
    simp only [Term.setBuf, Term.buf, h.onAlt, if_true, applyBuf, cupRow, Buf.eraseRows]
    refine ⟨trivial, trivial, trivial, trivial, ?_, ?_⟩
    · intro ρ c h1 h2 h3
      simp [h1, h2, h3]
    · intro ρ c h1
      rw [if_neg (by omega)]
  obtain ⟨h1, h2, h3, h4, h5, h6⟩ := ht
  show AltInv r.repaint (applyOps t [.ed2, .home])
  generalize applyOps t [.ed2, .home] = t' at *
  refine ⟨h.alt, h1, by rw [h2]; exact h.width, by rw [h3]; exact h.height, by rw [h2]; exact h.wpos,
    by rw [h3]; exact h.hpos, ?_, ?_, ?_, ?_⟩
  · intro i _ hi c hc
    rw [h3] at hi; rw [h2] at hc; rw [h4]
    exact h5 _ _ (by omega) (by omega) hc
  · intro ls hls; simp [RState.repaint] at hls
  · intro hne; simp [RState.repaint] at hne
  · intro ρ c hρc
    rw [h2, h3, h4] at hρc
    rw [h6 ρ c hρc]
    exact h.outside ρ c hρc

/-- the steps that keep renderer and terminal on the alt screen with an unchanged size -/
def altStable : ROp → Bool
  | .size _ _ => false
  | .exitAlt => false
  | .stop => false
  | .kill => false
  | _ => true

/-- `AltInv` is an invariant of every step other than a resize, leaving the alt screen and
shutting down -/
theorem alt_step_inv (r : RState) (t : Term) (h : AltInv r t) (op : ROp) (hop : altStable op = true) :
    AltInv (step r op).1 (applyOps t (step r op).2) := by
  have mode : ∀ (r' : RState) (n : Nat) (v : Bool), n ≠ 1049 → r'.altActive = r.altActive →
      r'.width = r.width → r'.height = r.height → r'.altLinesRendered = r.altLinesRendered →
      r'.lastLines = r.lastLines → r'.lastRender = r.lastRender →
      AltInv r' (setMode t n v) := by
    intro r' n v hn e1 e2 e3 e4 e5 e6
    obtain ⟨f1, f2, f3, f4, _⟩ := apply_mode_alt t n v hn
    exact h.congr e1 e2 e3 e4 e5 e6 f1 f2 f3 f4
  cases op with
  | size w h => simp [altStable] at hop
  | exitAlt => simp [altStable] at hop
  | stop => simp [altStable] at hop
  | kill => simp [altStable] at hop
  | write s => exact h.write s
  | flush =>
    show AltInv (flush r).1 (applyOps t (flush r).2)
    cases hb : r.buf with
    | nil => rw [flush_noop r (by simp [hb])]; exact h
    | cons x xs => exact (alt_flush_inv r t h (by rw [hb]; simp)).1
  | repaintMsg => exact h.repaint
  | clearScreen => exact clearScreen_inv r t h
  | enterAlt =>
    show AltInv (enterAlt r).1 (applyOps t (enterAlt r).2)
    simp only [enterAlt, h.alt, if_true]; exact h
  | printLine body =>
    show AltInv (if r.altActive = true then (r, []) else _).1 (applyOps t (if r.altActive = true then (r, []) else _).2)
    simp only [h.alt, if_true]; exact h
  | title s =>
    exact h.congr rfl rfl rfl rfl rfl rfl rfl rfl rfl rfl
  | showCursor => exact mode _ 25 true (by decide) rfl rfl rfl rfl rfl rfl
  | hideCursor => exact mode _ 25 false (by decide) rfl rfl rfl rfl rfl rfl
  | mouseCell => exact mode _ 1002 true (by decide) rfl rfl rfl rfl rfl rfl
  | noMouseCell => exact mode _ 1002 false (by decide) rfl rfl rfl rfl rfl rfl
  | mouseAll => exact mode _ 1003 true (by decide) rfl rfl rfl rfl rfl rfl
  | noMouseAll => exact mode _ 1003 false (by decide) rfl rfl rfl rfl rfl rfl
  | mouseSGR => exact mode _ 1006 true (by decide) rfl rfl rfl rfl rfl rfl
  | noMouseSGR => exact mode _ 1006 false (by decide) rfl rfl rfl rfl rfl rfl
  | paste => exact mode _ 2004 true (by decide) rfl rfl rfl rfl rfl rfl
  | noPaste => exact mode _ 2004 false (by decide) rfl rfl rfl rfl rfl rfl
  | focus => exact mode _ 1004 true (by decide) rfl rfl rfl rfl rfl rfl
  | noFocus => exact mode _ 1004 false (by decide) rfl rfl rfl rfl rfl rfl

/-! ### resizes on the alt screen -/

/-- what `Term.resize` does to a terminal that is on the alt screen: the size changes, the alt
buffer is cut to the new window rectangle (everything outside it becomes blank), the window does
not move, the main screen and the modes are untouched -/
theorem resize_alt (t : Term) (w h : Nat) (hon : t.onAlt = true) :
    (resize t w h).onAlt = true ∧ (resize t w h).w = w ∧ (resize t w h).h = h ∧
    (resize t w h).main = t.main ∧ (resize t w h).alt.top = t.alt.top ∧
    (∀ ρ c, (resize t w h).alt.cells ρ c =
      if c ≥ w ∨ ρ ≥ t.alt.top + h then 32 else t.alt.cells ρ c) ∧
    (resize t w h).alt.cr = (if t.alt.cr > t.alt.top + h - 1 then t.alt.top + h - 1 else t.alt.cr) ∧
    (resize t w h).alt.cc = (if t.alt.cc > w - 1 then w - 1 else t.alt.cc) ∧
    (resize t w h).alt.pw = false := by
  simp [resize, Term.setBuf, Term.buf, hon]

/-- **A resize keeps the alt-screen invariant.**  The terminal cuts the alt buffer to the new
window rectangle and the renderer's `.size w h` step (which writes nothing) adopts the new size
and invalidates its cache: rows `≥ altLinesRendered` of the new window are blank — inside the old
rectangle by `below`, outside it by `outside` (this is where a window that GROWS needs the cells
beyond the old rectangle to be blank) — and everything outside the new rectangle was just cut. -/
theorem alt_resize_inv (r : RState) (t : Term) (hinv : AltInv r t) (w h : Nat) (hw : 1 ≤ w)
    (hh : 1 ≤ h) :
    AltInv (step r (.size w h)).1 (resize t w h) ∧ (step r (.size w h)).2 = [] := by
  obtain ⟨a1, a2, a3, _, a5, a6, _⟩ := resize_alt t w h hinv.onAlt
  refine ⟨⟨hinv.alt, a1, by rw [a2]; rfl, by rw [a3]; rfl, by rw [a2]; exact hw, by rw [a3]; exact hh,
    ?_, ?_, ?_, ?_⟩, rfl⟩
  · intro i hi hih c hc
    rw [a2] at hc
    rw [a3] at hih
    rw [a5, a6, if_neg (by omega)]
    by_cases hin : i < t.h ∧ c < t.w
    · exact hinv.below i hi hin.1 c hin.2
    · exact hinv.outside _ _ (by omega)
  · intro ls hls; simp [step, RState.repaint] at hls
  · intro hne; simp [step, RState.repaint] at hne
  · intro ρ c hρc
    rw [a2, a3, a5] at hρc
    rw [a6, if_pos (by omega)]

/-- one step of a history that feeds the terminal: a `.size w h` step is the terminal being
resized (`Term.resize`) while the renderer handles the `WindowSizeMsg`; for every other
operation the terminal receives what the renderer's step writes -/
def stepT (r : RState) (t : Term) (o : ROp) : RState × Term :=
  ((step r o).1,
    match o with
    | .size w h => resize t w h
    | _ => applyOps t (step r o).2)

/-- run a history, feeding the terminal (resizes included) -/
def runT (r : RState) (t : Term) : List ROp → RState × Term
  | [] => (r, t)
  | o :: os => runT (stepT r t o).1 (stepT r t o).2 os

@[simp] theorem runT_nil (r : RState) (t : Term) : runT r t [] = (r, t) := rfl
@[simp] theorem runT_cons (r : RState) (t : Term) (o : ROp) (os : List ROp) :
    runT r t (o :: os) = runT (stepT r t o).1 (stepT r t o).2 os := rfl

theorem stepT_size (r : RState) (t : Term) (w h : Nat) :
    stepT r t (.size w h) = ((step r (.size w h)).1, resize t w h) := rfl

theorem stepT_of_stable (r : RState) (t : Term) (o : ROp) (ho : altStable o = true) :
    stepT r t o = ((step r o).1, applyOps t (step r o).2) := by
  cases o <;> first | rfl | simp [altStable] at ho

/-- the steps that keep renderer and terminal on the alt screen: those of `altStable`, and
resizes to a size of at least one column and one row -/
def altStableR : ROp → Bool
  | .size w h => decide (1 ≤ w ∧ 1 ≤ h)
  | o => altStable o

theorem altStableR_of_altStable (o : ROp) (h : altStable o = true) : altStableR o = true := by
  cases o <;> first | exact h | simp [altStable] at h

/-- `AltInv` is an invariant of every step of `altStableR`, resizes included -/
theorem alt_stepT_inv (r : RState) (t : Term) (h : AltInv r t) (op : ROp)
    (hop : altStableR op = true) : AltInv (stepT r t op).1 (stepT r t op).2 := by
  by_cases hs : altStable op = true
  · rw [stepT_of_stable r t op hs]
    exact alt_step_inv r t h op hs
  · cases op with
    | size w h' =>
      have : 1 ≤ w ∧ 1 ≤ h' := by simpa [altStableR] using hop
      rw [stepT_size]
      exact (alt_resize_inv r t h w h' this.1 this.2).1
    | _ => first | exact absurd hop hs | exact absurd rfl hs

end Tea.Render
