import Tea.Proofs.Paint
import Tea.Render.Model
/-
The paint loop of `flush` (`paintOps`) run on a terminal buffer: one step
(`paintLineOps`) and the loop invariant, in absolute tape rows so that the same
lemma serves the alt screen (no scrolling) and the inline view (LF may scroll).
-/
namespace Tea.Render
open Tea Tea.VT

/-- the skip test of the paint loop -/
def canSkip (r : RState) (flushQ shrinking : Bool) (n i : Nat) (l : Line) : Bool :=
  !flushQ && !(shrinking && i == n - 1) && sameAsLast r i l

theorem paintLineOps_skip (r : RState) (fq sh : Bool) (n i : Nat) (l : Line)
    (hs : canSkip r fq sh n i l = true) :
    paintLineOps r fq sh n i l = if i < n - 1 then [.lf] else [] := by
  unfold canSkip at hs
  simp only [paintLineOps, hs, if_true]

theorem paintLineOps_paint (r : RState) (fq sh : Bool) (n i : Nat) (l : Line)
    (hs : canSkip r fq sh n i l = false) (hw : 0 < r.width) :
    paintLineOps r fq sh n i l =
      (if (i == 0 && r.lastRender.isEmpty) = true then [.cr] else []) ++
      ((if (sh && i == n - 1) = true then [.ed0] else []) ++
      (lineOps r.width (truncateLine r.width l) ++
      (if i < n - 1 then [.cr, .lf] else []))) := by
  unfold canSkip at hs
  simp only [paintLineOps, hs, Bool.false_eq_true, if_false, hw, if_true, lineOps,
    lineWidth, List.append_assoc]

theorem applyBufs_optCr (w h : Nat) (b : Buf) (c : Bool) (hc : b.cc = 0) (hp : b.pw = false) :
    applyBufs w h b (if c = true then [.cr] else []) = b := by
  cases c
  · simp
  · simp [applyBuf_cr_noop w h b hc hp]

/-- a cut line takes at most `w` cells (its escape sequences are all kept, they take none) -/
theorem truncateLine_width_le (w : Nat) (l : Line) : lineWidth (truncateLine w l) ≤ w :=
  Ansi.width_truncate_le w l

/-- what a cut line shows: the first `w` visible bytes of the line -/
theorem visible_truncateLine (w : Nat) (l : Line) :
    Ansi.visible (truncateLine w l) = (Ansi.visible l).take w := Ansi.visible_truncate w l

/-- a step of the paint loop that is not the last one: row `cr` ends up showing (the visible part
of) line `l`
(painted, or skipped because it already shows it), no other row changes, and the cursor goes
to the start of the next row, scrolling if it was on the last window row -/
theorem paintLine_step_mid (r : RState) (fq sh : Bool) (n i : Nat) (l : Line) (w h : Nat) (b : Buf)
    (hw : r.width = w) (hw1 : 1 ≤ w) (hi : i + 1 < n) (hc : b.cc = 0) (hp : b.pw = false)
    (hskip : canSkip r fq sh n i l = true → rowShows w b b.cr (Ansi.visible l)) :
    (applyBufs w h b (paintLineOps r fq sh n i l)).cr = b.cr + 1 ∧
    (applyBufs w h b (paintLineOps r fq sh n i l)).cc = 0 ∧
    (applyBufs w h b (paintLineOps r fq sh n i l)).pw = false ∧
    (applyBufs w h b (paintLineOps r fq sh n i l)).top
        = (if b.cr + 1 = b.top + h then b.top + 1 else b.top) ∧
    (∀ ρ, ρ ≠ b.cr → ∀ c, (applyBufs w h b (paintLineOps r fq sh n i l)).cells ρ c = b.cells ρ c) ∧
    rowShows w (applyBufs w h b (paintLineOps r fq sh n i l)) b.cr (Ansi.visible l) := by
  have hlt : i < n - 1 := by omega
  have hne : (i == n - 1) = false := by simp; omega
  cases hs : canSkip r fq sh n i l with
  | true =>
    rw [paintLineOps_skip r fq sh n i l hs, if_pos hlt]
    simp only [applyBufs_cons, applyBufs_nil]
    refine ⟨by simp, by simp [hc], by simp, by rw [applyBuf_lf_top], fun ρ _ c => by simp, ?_⟩
    exact rowShows_congr (fun c => by simp) (hskip hs)
  | false =>
    rw [paintLineOps_paint r fq sh n i l hs (by omega), applyBufs_append,
      applyBufs_optCr w h b _ hc hp, hne, Bool.and_false]
    simp only [Bool.false_eq_true, if_false, List.nil_append, if_pos hlt, applyBufs_append]
    obtain ⟨p1, p2, _, p4, p5⟩ := lineOps_spec w h b (truncateLine w l) hw1
      (truncateLine_width_le w l) hc hp
    rw [hw]
    simp only [applyBufs_cons, applyBufs_nil, applyBuf_lf_cr, applyBuf_lf_cc, applyBuf_lf_pw,
      applyBuf_lf_top, applyBuf_lf_cells, applyBuf_cr_cr, applyBuf_cr_cc, applyBuf_cr_top,
      applyBuf_cr_cells, p1, p2, true_and]
    refine ⟨p4, ?_⟩
    exact rowShows_congr (fun c => by simp) ((rowShows_take w _ b.cr (Ansi.visible l)).1 (visible_truncateLine w l ▸ p5))

/-- the last step of the paint loop: row `cr` ends up showing `l`; rows above are untouched;
rows below are untouched, or, when the view shrinks, blank to the end of the window (ED0) -/
theorem paintLine_step_last (r : RState) (fq sh : Bool) (n i : Nat) (l : Line) (w h : Nat) (b : Buf)
    (hw : r.width = w) (hw1 : 1 ≤ w) (hi : i + 1 = n) (hc : b.cc = 0) (hp : b.pw = false)
    (hskip : canSkip r fq sh n i l = true → rowShows w b b.cr (Ansi.visible l)) :
    (applyBufs w h b (paintLineOps r fq sh n i l)).cr = b.cr ∧
    (applyBufs w h b (paintLineOps r fq sh n i l)).cc < w ∧
    (applyBufs w h b (paintLineOps r fq sh n i l)).top = b.top ∧
    (∀ ρ, ρ < b.cr → ∀ c, (applyBufs w h b (paintLineOps r fq sh n i l)).cells ρ c = b.cells ρ c) ∧
    rowShows w (applyBufs w h b (paintLineOps r fq sh n i l)) b.cr (Ansi.visible l) ∧
    (sh = false → ∀ ρ, b.cr < ρ →
      ∀ c, (applyBufs w h b (paintLineOps r fq sh n i l)).cells ρ c = b.cells ρ c) ∧
    (sh = true → ∀ ρ, b.cr < ρ → ρ < b.top + h →
      rowBlank w (applyBufs w h b (paintLineOps r fq sh n i l)) ρ) := by
  have hlt : ¬ i < n - 1 := by omega
  have heq : (i == n - 1) = true := by simp; omega
  cases hs : canSkip r fq sh n i l with
  | true =>
    have hsh : sh = false := by
      cases sh
      · rfl
      · simp [canSkip, heq] at hs
    rw [paintLineOps_skip r fq sh n i l hs, if_neg hlt]
    refine ⟨rfl, by show b.cc < w; omega, rfl, fun _ _ _ => rfl, hskip hs, fun _ _ _ _ => rfl, ?_⟩
    intro h1; rw [hsh] at h1; cases h1
  | false =>
    rw [paintLineOps_paint r fq sh n i l hs (by omega), applyBufs_append,
      applyBufs_optCr w h b _ hc hp, heq, Bool.and_true, if_neg hlt, List.append_nil, hw]
    cases sh with
    | false =>
      simp only [Bool.false_eq_true, if_false, List.nil_append]
      obtain ⟨p1, p2, p3, p4, p5⟩ := lineOps_spec w h b (truncateLine w l) hw1
        (truncateLine_width_le w l) hc hp
      refine ⟨p2, p3.1, p1, fun ρ hρ c => p4 ρ (by omega) c, (rowShows_take w _ b.cr (Ansi.visible l)).1 (visible_truncateLine w l ▸ p5),
        fun _ ρ hρ c => p4 ρ (by omega) c, ?_⟩
      intro h1; cases h1
    | true =>
      simp only [if_true, applyBufs_append, applyBufs_cons, applyBufs_nil]
      obtain ⟨p1, p2, p3, p4, p5⟩ := lineOps_spec w h (applyBuf w h b .ed0) (truncateLine w l) hw1
        (truncateLine_width_le w l) (by simpa using hc) (by simpa using hp)
      simp only [applyBuf_ed0_cr, applyBuf_ed0_top] at p1 p2 p4 p5
      refine ⟨p2, p3.1, p1, ?_, (rowShows_take w _ b.cr (Ansi.visible l)).1 (visible_truncateLine w l ▸ p5), ?_, ?_⟩
      · intro ρ hρ c
        rw [p4 ρ (by omega) c, applyBuf_ed0_cells, if_neg (by omega), if_neg (by omega)]
      · intro h1; cases h1
      · intro _ ρ h1 h2 c hcw
        rw [p4 ρ (by omega) c, applyBuf_ed0_cells, if_pos ⟨by omega, h2, hcw⟩]

/-- The loop invariant of the paint loop, in absolute tape rows.  Started at the beginning of
row `cr` with the lines `rest` (numbers `i ..` of `n`) still to do, and every line that the loop
will skip already on the screen in its row: afterwards every line of `rest` is on the screen in
its row, the cursor is in the row of the last line, rows above the start are untouched, rows
below the last line are untouched or (when shrinking) blank to the end of the window, and the
window scrolled by exactly what was needed to keep the cursor inside. -/
theorem paintOps_spec (r : RState) (fq sh : Bool) (n w h : Nat) (hw : r.width = w) (hw1 : 1 ≤ w) :
    ∀ (rest : List Line) (i : Nat) (b : Buf), i + rest.length = n → rest ≠ [] →
      b.cc = 0 → b.pw = false → b.cr < b.top + h →
      (∀ j l, rest[j]? = some l → canSkip r fq sh n (i + j) l = true → rowShows w b (b.cr + j) (Ansi.visible l)) →
      (applyBufs w h b (paintOps r fq sh n i rest)).cr + 1 = b.cr + rest.length ∧
      (applyBufs w h b (paintOps r fq sh n i rest)).cc < w ∧
      (applyBufs w h b (paintOps r fq sh n i rest)).top = max b.top (b.cr + rest.length - h) ∧
      (∀ j l, rest[j]? = some l →
        rowShows w (applyBufs w h b (paintOps r fq sh n i rest)) (b.cr + j) (Ansi.visible l)) ∧
      (∀ ρ, ρ < b.cr → ∀ c, (applyBufs w h b (paintOps r fq sh n i rest)).cells ρ c = b.cells ρ c) ∧
      (sh = false → ∀ ρ, b.cr + rest.length ≤ ρ →
        ∀ c, (applyBufs w h b (paintOps r fq sh n i rest)).cells ρ c = b.cells ρ c) ∧
      (sh = true → ∀ ρ, b.cr + rest.length ≤ ρ →
        ρ < (applyBufs w h b (paintOps r fq sh n i rest)).top + h →
        rowBlank w (applyBufs w h b (paintOps r fq sh n i rest)) ρ) := by
  intro rest
  induction rest with
  | nil => intro i b _ hne; exact absurd rfl hne
  | cons l rest ih =>
    intro i b hn _ hc hp hwin hskip
    cases rest with
    | nil =>
      simp only [paintOps, List.append_nil, List.length_cons, List.length_nil, Nat.zero_add] at hn ⊢
      obtain ⟨q1, q2, q3, q4, q5, q6, q7⟩ := paintLine_step_last r fq sh n i l w h b hw hw1 hn hc hp
        (by have := hskip 0 l (by simp); simpa using this)
      refine ⟨by rw [q1], q2, by rw [q3]; omega, ?_, q4, ?_, ?_⟩
      · intro j l' hj
        cases j with
        | zero => simp at hj; subst hj; simpa using q5
        | succ j => simp at hj
      · intro hsh ρ hρ c
        exact q6 hsh ρ (by omega) c
      · intro hsh ρ hρ hρ2
        rw [q3] at hρ2
        exact q7 hsh ρ (by omega) hρ2
    | cons l2 rest2 =>
      have hi : i + 1 < n := by simp at hn; omega
      obtain ⟨q1, q2, q3, q4, q5, q6⟩ := paintLine_step_mid r fq sh n i l w h b hw hw1 hi hc hp
        (by have := hskip 0 l (by simp); simpa using this)
      rw [paintOps, applyBufs_append]
      generalize hb1 : applyBufs w h b (paintLineOps r fq sh n i l) = b1 at q1 q2 q3 q4 q5 q6
      have hwin1 : b1.cr < b1.top + h := by rw [q1, q4]; split <;> omega
      obtain ⟨s1, s2, s3, s4, s5, s6, s7⟩ := ih (i + 1) b1 (by simp at hn ⊢; omega) (by simp) q2 q3 hwin1
        (by
          intro j l' hj hcs
          have := hskip (j + 1) l' (by simpa using hj) (by rw [show i + (j + 1) = i + 1 + j by omega]; exact hcs)
          rw [q1]
          refine rowShows_congr (fun c => q5 _ (by omega) c) ?_
          rw [Nat.add_assoc, Nat.add_comm 1 j]; exact this)
      generalize applyBufs w h b1 (paintOps r fq sh n (i + 1) (l2 :: rest2)) = b2 at s1 s2 s3 s4 s5 s6 s7
      have hlen : (l :: l2 :: rest2).length = (l2 :: rest2).length + 1 := rfl
      refine ⟨by rw [hlen]; omega, s2, ?_, ?_, ?_, ?_, ?_⟩
      · rw [s3, q1, q4, hlen]
        have : 1 ≤ (l2 :: rest2).length := by simp
        split <;> omega
      · intro j l' hj
        cases j with
        | zero =>
          simp at hj; subst hj
          exact rowShows_congr (fun c => s5 _ (by omega) c) (by simpa using q6)
        | succ j =>
          have := s4 j l' (by simpa using hj)
          rw [q1, Nat.add_assoc, Nat.add_comm 1 j] at this
          exact this
      · intro ρ hρ c
        rw [s5 ρ (by omega) c, q5 ρ (by omega) c]
      · intro hsh ρ hρ c
        rw [s6 hsh ρ (by rw [hlen] at hρ; omega) c, q5 ρ (by omega) c]
      · intro hsh ρ hρ hρ2
        exact s7 hsh ρ (by rw [hlen] at hρ; omega) hρ2

end Tea.Render
