import Tea.Proofs.AltScreen
/-
Inline (main screen) flushes without queued printed lines: CUU to the first view
row, the paint loop (LF may scroll), CUB width.
-/
namespace Tea.Render
open Tea Tea.VT

/-- the operations of an inline flush with nothing queued -/
theorem flush_inline_ops (r : RState) (halt : r.altActive = false) (hq : r.queued = [])
    (h : (r.buf.isEmpty || r.buf == r.lastRender) = false) :
    (flush r).2 = (if r.linesRendered > 1 then [.cuu (r.linesRendered - 1)] else []) ++
      (paintOps r false (decide (r.linesRendered > (frameLines r).length))
        (frameLines r).length 0 (frameLines r) ++ [.cub r.width]) := by
  unfold flush
  simp [h, halt, hq, RState.lastLinesRendered]

/-- CUU k-1 (if k > 1), the paint loop, CUB w on a buffer whose cursor is at the start of the
last of `max k 1` rows that lie inside the window: the `n ≤ h` lines end up in the rows starting
at the first of those rows; rows above are untouched; rows below are untouched or (when
shrinking) blank to the end of the window; the window scrolls by exactly what is needed; the
cursor ends at the start of the last view row -/
theorem inlineFlush_buf (r : RState) (sh : Bool) (w h k : Nat) (b : Buf) (ls : List Line)
    (hw : r.width = w) (hw1 : 1 ≤ w) (hn1 : 1 ≤ ls.length)
    (hc : b.cc = 0) (hp : b.pw = false) (hin : b.top + max k 1 ≤ b.cr + 1) (hwin : b.cr < b.top + h)
    (hskip : ∀ j l, ls[j]? = some l → canSkip r false sh ls.length j l = true →
      rowShows w b (b.cr + 1 - max k 1 + j) (Ansi.visible l)) :
    ∀ b', b' = applyBufs w h b ((if k > 1 then [.cuu (k - 1)] else []) ++
      (paintOps r false sh ls.length 0 ls ++ [.cub w])) →
    b'.cr + 1 = b.cr + 1 - max k 1 + ls.length ∧
    b'.top = max b.top (b.cr + 1 - max k 1 + ls.length - h) ∧ b'.cc = 0 ∧ b'.pw = false ∧
    (∀ j l, ls[j]? = some l → rowShows w b' (b.cr + 1 - max k 1 + j) (Ansi.visible l)) ∧
    (∀ ρ, ρ < b.cr + 1 - max k 1 → ∀ c, b'.cells ρ c = b.cells ρ c) ∧
    (sh = false → ∀ ρ, b.cr + 1 - max k 1 + ls.length ≤ ρ → ∀ c, b'.cells ρ c = b.cells ρ c) ∧
    (sh = true → ∀ ρ, b.cr + 1 - max k 1 + ls.length ≤ ρ → ρ < b'.top + h → rowBlank w b' ρ) := by
  intro b' hb'
  -- the buffer after the optional CUU
  have hpre : ∃ b0, b0 = applyBufs w h b (if k > 1 then [.cuu (k - 1)] else []) ∧
      b0.cr = b.cr + 1 - max k 1 ∧ b0.cc = 0 ∧ b0.pw = false ∧ b0.top = b.top ∧ b0.cells = b.cells := by
    refine ⟨_, rfl, ?_⟩
    by_cases hk : k > 1
    · simp only [hk, if_true, applyBufs_cons, applyBufs_nil, applyBuf_cuu_cc, applyBuf_cuu_pw,
        applyBuf_cuu_top, applyBuf_cuu_cells, hc, and_true]
      rw [applyBuf_cuu_cr w h b (k - 1) (by omega) (by omega)]
      omega
    · simp only [hk, if_false, applyBufs_nil, hc, hp, and_true]
      omega
  obtain ⟨b0, hb0, p1, p2, p3, p4, p5⟩ := hpre
  replace hb' : b' = applyBuf w h (applyBufs w h b0 (paintOps r false sh ls.length 0 ls)) (.cub w) := by
    rw [hb', hb0]
    simp only [applyBufs_cons, applyBufs_append, applyBufs_nil]
  obtain ⟨s1, s2, s3, s4, s5, s6, s7⟩ := paintOps_spec r false sh ls.length w h hw hw1 ls 0
    b0 (by simp) (by intro hnil; rw [hnil] at hn1; simp at hn1) p2 p3 (by rw [p1, p4]; omega)
    (by
      intro j l hj hcs
      rw [p1]
      exact rowShows_congr (fun c => by rw [p5]) (hskip j l hj (by simpa using hcs)))
  rw [p1] at s1 s4 s5 s6 s7
  rw [p1, p4] at s3
  simp only [p5] at s5 s6
  generalize applyBufs w h b0 (paintOps r false sh ls.length 0 ls) = b2 at *
  subst hb'
  refine ⟨by simpa using s1, by simpa using s3, ?_, by simp, ?_, ?_, ?_, ?_⟩
  · exact applyBuf_cub_cc w h b2 w hw1 (by omega)
  · intro j l hj
    exact rowShows_congr (fun c => by simp) (s4 j l hj)
  · intro ρ hρ c
    simpa using s5 ρ hρ c
  · intro hsh ρ hρ c
    simpa using s6 hsh ρ hρ c
  · intro hsh ρ hρ hρ2
    exact rowBlank_congr (fun c => by simp) (s7 hsh ρ hρ (by simpa using hρ2))

/-- the first tape row of the inline view: the cursor row minus the rows rendered above it -/
def viewTop (r : RState) (t : Term) : Nat := t.main.cr + 1 - max r.linesRendered 1

/-- One painting inline flush with nothing queued, on a terminal whose cursor is at the start of
the last of the `max linesRendered 1` view rows, all inside the window, provided every line that
the loop may skip is on the screen in its row. -/
theorem inline_flush_term (r : RState) (t : Term) (halt : r.altActive = false) (hon : t.onAlt = false)
    (hq : r.queued = [])
    (hw : r.width = t.w) (hw1 : 1 ≤ t.w)
    (hc : t.main.cc = 0) (hp : t.main.pw = false)
    (hin : t.main.top + max r.linesRendered 1 ≤ t.main.cr + 1) (hwin : t.main.cr < t.main.top + t.h)
    (hne : (r.buf.isEmpty || r.buf == r.lastRender) = false)
    (hskip : ∀ j l, (frameLines r)[j]? = some l → sameAsLast r j l = true →
      rowShows t.w t.main (viewTop r t + j) (Ansi.visible l)) :
    ∀ t', t' = applyOps t (flush r).2 →
    t'.onAlt = false ∧ t'.w = t.w ∧ t'.h = t.h ∧ t'.alt = t.alt ∧
    t'.main.cr + 1 = viewTop r t + (frameLines r).length ∧
    t'.main.top = max t.main.top (viewTop r t + (frameLines r).length - t.h) ∧
    t'.main.cc = 0 ∧ t'.main.pw = false ∧
    (∀ j l, (frameLines r)[j]? = some l → rowShows t.w t'.main (viewTop r t + j) (Ansi.visible l)) ∧
    (∀ ρ, ρ < viewTop r t → ∀ c, t'.main.cells ρ c = t.main.cells ρ c) ∧
    (¬ r.linesRendered > (frameLines r).length → ∀ ρ, viewTop r t + (frameLines r).length ≤ ρ →
      ∀ c, t'.main.cells ρ c = t.main.cells ρ c) ∧
    (r.linesRendered > (frameLines r).length → ∀ ρ, viewTop r t + (frameLines r).length ≤ ρ →
      ρ < t'.main.top + t.h → rowBlank t.w t'.main ρ) := by
  intro t' ht'
  have hn1 : 1 ≤ (frameLines r).length := by rw [frameLines_eq]; exact frameOf_length_pos _ _
  rw [flush_inline_ops r halt hq hne] at ht'
  obtain ⟨a1, a2, a3, a4, _, a6⟩ := applyOps_bufOps
    ((if r.linesRendered > 1 then [.cuu (r.linesRendered - 1)] else []) ++
      (paintOps r false (decide (r.linesRendered > (frameLines r).length))
        (frameLines r).length 0 (frameLines r) ++ [.cub r.width])) t (by
    intro op hop
    simp only [List.mem_append, List.mem_singleton] at hop
    rcases hop with hop | hop | rfl
    · split at hop
      · simp at hop; subst hop; rfl
      · simp at hop
    · exact paintOps_bufOps _ _ _ _ _ _ op hop
    · rfl)
  rw [← ht'] at a1 a2 a3 a4 a6
  have hon' : t'.onAlt = false := by rw [a3, hon]
  rw [term_buf_main t' hon', term_buf_main t hon, hw] at a4
  obtain ⟨c1, c2, c3, c4, c5⟩ := a4
  obtain ⟨s1, s2, s3, s4, s5, s6, s7, s8⟩ := inlineFlush_buf r
    (decide (r.linesRendered > (frameLines r).length)) t.w t.h r.linesRendered t.main (frameLines r)
    hw hw1 hn1 hc hp hin hwin
    (fun j l hj hcs => hskip j l hj (canSkip_sameAsLast hcs)) _ rfl
  unfold viewTop
  refine ⟨hon', a1, a2, a6 hon, by rw [c3, s1], by rw [c2, s2], by rw [c4, s3], by rw [c5, s4],
    ?_, ?_, ?_, ?_⟩
  · intro j l hj
    exact rowShows_congr (fun c => by rw [c1]) (s5 j l hj)
  · intro ρ hρ c
    rw [c1]; exact s6 ρ hρ c
  · intro hsh ρ hρ c
    rw [c1]; exact s7 (by simpa using hsh) ρ hρ c
  · intro hsh ρ hρ hρ2
    rw [c2] at hρ2
    exact rowBlank_congr (fun c => by rw [c1]) (s8 (by simpa using hsh) ρ hρ hρ2)

/-- The inline invariant between a renderer state and the terminal it writes to: both on the
main screen with the same size; the cursor is at the start (column 0, no pending wrap) of the
last of the `max linesRendered 1` view rows, which all lie inside the window; every window row
below the cursor is blank; when the line cache is valid it has `linesRendered` lines and view
row `i` shows cached line `i`; and the cache, when `lastRender` is set, is the frame of
`lastRender`. -/
structure InlineInv (r : RState) (t : Term) : Prop where
  alt : r.altActive = false
  onAlt : t.onAlt = false
  width : r.width = t.w
  height : r.height = t.h
  wpos : 1 ≤ t.w
  hpos : 1 ≤ t.h
  col : t.main.cc = 0 ∧ t.main.pw = false
  inside : t.main.top + max r.linesRendered 1 ≤ t.main.cr + 1 ∧ t.main.cr < t.main.top + t.h
  below : ∀ ρ, t.main.cr < ρ → ρ < t.main.top + t.h → rowBlank t.w t.main ρ
  cache : ∀ ls, r.lastLines = some ls → ls.length = r.linesRendered ∧
      ∀ i l, ls[i]? = some l → rowShows t.w t.main (viewTop r t + i) (Ansi.visible l)
  render : r.lastRender ≠ [] → r.lastLines = some (frameOf r.height r.lastRender)

theorem InlineInv.write {r : RState} {t : Term} (h : InlineInv r t) (s : Bytes) :
    InlineInv (write r s) t :=
  ⟨h.alt, h.onAlt, h.width, h.height, h.wpos, h.hpos, h.col, h.inside, h.below, h.cache, h.render⟩

/-- `InlineInv` is preserved by a flush with nothing queued; the first view row stays where it
is, rows above it are untouched, the alt screen is untouched, the window scrolls by exactly what
the view needs, and afterwards the cache is the new frame. -/
theorem inline_flush_inv (r : RState) (t : Term) (hinv : InlineInv r t) (hq : r.queued = [])
    (hbuf : r.buf ≠ []) :
    InlineInv (flush r).1 (applyOps t (flush r).2) ∧
    (flush r).1.queued = [] ∧
    viewTop (flush r).1 (applyOps t (flush r).2) = viewTop r t ∧
    (applyOps t (flush r).2).main.top = max t.main.top (viewTop r t + (frameLines r).length - t.h) ∧
    (applyOps t (flush r).2).alt = t.alt ∧
    (applyOps t (flush r).2).w = t.w ∧ (applyOps t (flush r).2).h = t.h ∧
    (∀ ρ, ρ < viewTop r t → ∀ c, (applyOps t (flush r).2).main.cells ρ c = t.main.cells ρ c) ∧
    (flush r).1.lastLines = some (frameLines r) ∧
    (flush r).1.linesRendered = (frameLines r).length := by
  have hbe : r.buf.isEmpty = false := by cases hb : r.buf with
    | nil => exact absurd hb hbuf
    | cons _ _ => rfl
  have hn1 : 1 ≤ (frameLines r).length := by rw [frameLines_eq]; exact frameOf_length_pos _ _
  have hnh : (frameLines r).length ≤ t.h := by
    rw [frameLines_eq, ← hinv.height]
    exact frameOf_length_le _ _ (by have := hinv.hpos; have := hinv.height; omega)
  cases hsame : (r.buf == r.lastRender) with
  | true =>
    have hnoop : flush r = (r, []) := flush_noop r (by simp [hsame])
    have heq : r.buf = r.lastRender := by simpa using hsame
    have hll : r.lastLines = some (frameLines r) := by
      rw [frameLines_eq, heq]; exact hinv.render (by rw [← heq]; exact hbuf)
    have hk := (hinv.cache _ hll).1
    have := hinv.inside
    rw [hnoop]
    refine ⟨hinv, hq, rfl, ?_, rfl, rfl, rfl, fun _ _ _ => rfl, hll, hk.symm⟩
    show t.main.top = _
    unfold viewTop
    omega
  | false =>
    have hne : (r.buf.isEmpty || r.buf == r.lastRender) = false := by simp [hbe, hsame]
    obtain ⟨s1, s2, s3, s4, s5, s6, s7, s8, s9, s10, s11, s12⟩ := inline_flush_term r t hinv.alt
      hinv.onAlt hq hinv.width hinv.wpos hinv.col.1 hinv.col.2
      hinv.inside.1 hinv.inside.2 hne
      (by
        intro j l _ hs
        cases hll : r.lastLines with
        | none => rw [sameAsLast_none r j l hll] at hs; cases hs
        | some ls => exact (hinv.cache ls hll).2 j l (sameAsLast_some hll hs))
      _ rfl
    generalize applyOps t (flush r).2 = t' at *
    have e := flush_state r hne
    generalize (flush r).1 = r' at e ⊢
    have f1 : r'.altActive = false := by rw [e]; exact hinv.alt
    have f2 : r'.width = r.width := by rw [e]
    have f3 : r'.height = r.height := by rw [e]
    have f4 : r'.linesRendered = (frameLines r).length := by rw [e]; simp [hinv.alt]
    have f5 : r'.lastLines = some (frameLines r) := by rw [e]
    have f6 : r'.lastRender = r.buf := by rw [e]
    have f7 : r'.queued = [] := by rw [e]; simp [hq]
    have hin := hinv.inside
    have hvt : viewTop r' t' = viewTop r t := by
      unfold viewTop at s5 ⊢
      rw [f4]; omega
    have hvt0 : t.main.top ≤ viewTop r t := by unfold viewTop; omega
    refine ⟨⟨f1, s1, by rw [s2, f2]; exact hinv.width, by rw [s3, f3]; exact hinv.height,
      by rw [s2]; exact hinv.wpos, by rw [s3]; exact hinv.hpos, ⟨s7, s8⟩, ?_, ?_, ?_, ?_⟩,
      f7, hvt, s6, s4, s2, s3, s10, f5, f4⟩
    · rw [f4, s3, s6]
      constructor <;> omega
    · intro ρ hρ hρ2
      rw [s2]
      rw [s3] at hρ2
      by_cases hsh : r.linesRendered > (frameLines r).length
      · exact s12 hsh ρ (by omega) hρ2
      · have hρ3 : t.main.cr < ρ := by unfold viewTop at s5; omega
        refine rowBlank_congr (fun c => s11 hsh ρ (by omega) c) (hinv.below ρ hρ3 ?_)
        rw [s6] at hρ2
        omega
    · intro ls hls
      rw [f5] at hls
      have := Option.some.inj hls
      subst this
      refine ⟨f4.symm, ?_⟩
      intro i l hi
      rw [s2, hvt]
      exact s9 i l hi
    · intro _
      rw [f5, f6, f3, frameLines_eq]

/-- what `InlineInv` with a known cache says about the screen -/
theorem InlineInv.screen {r : RState} {t : Term} (h : InlineInv r t) {ls : List Line}
    (hls : r.lastLines = some ls) :
    ls.length = r.linesRendered ∧
    (∀ i l, ls[i]? = some l → t.main.row t.w (viewTop r t + i) = padLine t.w (Ansi.visible l)) ∧
    (∀ ρ, t.main.cr < ρ → ρ < t.main.top + t.h → t.main.row t.w ρ = List.replicate t.w 32) := by
  obtain ⟨c1, c2⟩ := h.cache ls hls
  refine ⟨c1, ?_, ?_⟩
  · intro i l hi
    exact (rowShows_iff_row _ _ _ _).1 (c2 i l hi)
  · intro ρ h1 h2
    exact (rowBlank_iff_row _ _ _).1 (h.below ρ h1 h2)

end Tea.Render
