import Tea.Runtime.Lifecycle
/-
Helper lemmas about the Lifecycle LTS (Tea/Runtime/Lifecycle.lean) for C04 and C13:
an induction principle over `Reachable`, the invariants (context cancellation,
renderer stop handshake, Run's error), stability facts, and list lemmas used by the rank.
-/
namespace Tea.Runtime.Life

/-- induction over reachable states -/
theorem reachable_induct {c : Config} (Inv : St → Prop)
    (h0 : Inv (init c))
    (hstep : ∀ s s' l, Reachable c s → Inv s → step s l = some s' → Inv s')
    {s : St} (hr : Reachable c s) : Inv s := by
  induction hr with
  | init => exact h0
  | step l hr hs ih => exact hstep _ _ l hr ih hs

/-- running a label list from a reachable state stays reachable -/
theorem reachable_runLabels {c : Config} {s s' : St} (ls : List Label)
    (hr : Reachable c s) (h : runLabels s ls = some s') : Reachable c s' := by
  induction ls generalizing s with
  | nil => simp only [runLabels] at h; cases h; exact hr
  | cons l ls ih =>
    simp only [runLabels] at h
    split at h
    · rename_i s1 h1; exact ih (Reachable.step l hr h1) h
    · cases h

theorem phaseOf_none (s : St) (ph : ShPhase) :
    phaseOf s none = some ph ↔ (s.runPc = .tail ∧ s.runSh = ph) := by
  simp only [phaseOf]; split <;> simp_all

theorem phaseOf_some (s : St) (j : Nat) : phaseOf s (some j) = s.killers[j]? := rfl

/- case analysis of one step `hs : step s l = some s'`: one goal per label and branch of its
guard (the `who` of a shutdown label split into Run's own call and killer `j`); `hs` is consumed,
`s'` is replaced by the explicit successor, the guards are hypotheses -/
set_option hygiene false in
macro "step_cases" hs:ident l:ident : tactic => `(tactic| (
  cases $l:ident
  case' shCancel who => cases who
  case' shHandlers who => cases who
  case' shReader who => cases who
  case' shWaitRead who => cases who
  case' shWaitReadTimeout who => cases who
  case' shRenderer who => cases who
  case' shRestore who => cases who
  all_goals simp only [step] at $hs:ident
  all_goals (repeat' split at $hs:ident)
  all_goals (cases $hs:ident)
  all_goals (try simp only [phaseOf_none, phaseOf_some, setPhase, killOf] at *)))

/-! ### I1: the context -/

/-- the context is never un-cancelled -/
theorem ctxDone_mono {s s' : St} {l : Label} (hs : step s l = some s') (h : s.ctxDone = true) :
    s'.ctxDone = true := by
  step_cases hs l <;> simp_all

theorem mem_set_inv {ks : List ShPhase} {k : Nat} {x y : ShPhase} {P : Prop}
    (ih : ∀ ph ∈ ks, ph ≠ .cancel → P) (hk : ks[k]? = some y) (hy : y ≠ .cancel) :
    ∀ ph ∈ ks.set k x, ph ≠ .cancel → P :=
  fun _ _ _ => ih y (List.mem_of_getElem? hk) hy

theorem mem_append_cancel_inv {ks : List ShPhase} {P : Prop}
    (ih : ∀ ph ∈ ks, ph ≠ .cancel → P) : ∀ ph ∈ ks ++ [.cancel], ph ≠ .cancel → P := by
  intro ph hm hne
  rcases List.mem_append.1 hm with h | h
  · exact ih ph h hne
  · simp at h; exact absurd h hne

/-- I1: who is past `cancel()` implies the context is cancelled; Run's return and `finished` -/
structure InvCtx (s : St) : Prop where
  tail : s.runPc = .tail → s.runSh ≠ .cancel → s.ctxDone = true
  killers : ∀ ph ∈ s.killers, ph ≠ .cancel → s.ctxDone = true
  returned : s.runPc = .returned → s.ctxDone = true ∧ s.finishedClosed = true ∧ s.runSh = .done
  finished : s.finishedClosed = true → s.runPc = .returned
  disp : s.dispAlive = false → s.ctxDone = true
  loopSh : s.runPc = .loop → s.runSh = .cancel

theorem inv_ctx {c : Config} {s : St} (hr : Reachable c s) : InvCtx s := by
  refine reachable_induct InvCtx ?_ ?_ hr
  · constructor <;> simp [init]
  · intro s s' l _ ih hs
    obtain ⟨h1, h2, h3, h4, h5, h6⟩ := ih
    step_cases hs l
    all_goals constructor
    all_goals first
      | assumption
      | (simp_all; done)
      | exact mem_set_inv h2 (by assumption) (by decide)
      | exact mem_set_inv h2 (And.left (by assumption)) (by decide)
      | exact mem_append_cancel_inv h2

/-! ### I2: the renderer's stop handshake -/

/-- I2: the listen goroutine has stopped exactly when `renderer.stop`'s once has fired -/
theorem inv_listen {c : Config} {s : St} (hr : Reachable c s) :
    (s.listen = .stopped ↔ s.onceDone = true) := by
  refine reachable_induct (fun s => s.listen = .stopped ↔ s.onceDone = true) ?_ ?_ hr
  · simp [init]
  · intro s s' l _ ih hs
    step_cases hs l
    all_goals first
      | assumption
      | (simp_all; done)

/-! ### I3: Run's tail and error -/

/-- I3: Run is past its loop only after the loop exited; the error and the kill flag were
computed from the loop's cause and the context as it was at that check -/
def InvErr (s : St) : Prop :=
  s.runPc ≠ .loop → ∃ c b, s.el = .exited c ∧ s.runErr = errOf c b ∧ s.runKill = (b || c != .quit)

theorem inv_err {c : Config} {s : St} (hr : Reachable c s) : InvErr s := by
  refine reachable_induct InvErr ?_ ?_ hr
  · simp [init, InvErr]
  · intro s s' l _ ih hs
    unfold InvErr at ih ⊢
    step_cases hs l
    all_goals first
      | assumption
      | (simp_all; done)
      | exact fun _ => ⟨_, _, by assumption, rfl, rfl⟩

/-! ### stability -/

/-- the loop never leaves `exited` -/
theorem el_exited_stable {s s' : St} {l : Label} (hs : step s l = some s') {c : Cause}
    (h : s.el = .exited c) : s'.el = .exited c := by
  step_cases hs l <;> simp_all

/-- Run never un-returns, `finished` is never re-opened -/
theorem returned_stable {s s' : St} {l : Label} (hs : step s l = some s')
    (h : s.runPc = .returned) : s'.runPc = .returned := by
  step_cases hs l <;> simp_all

theorem finished_stable {s s' : St} {l : Label} (hs : step s l = some s')
    (h : s.finishedClosed = true) : s'.finishedClosed = true := by
  step_cases hs l <;> simp_all

/-- shutdown callers never disappear -/
theorem killers_length_mono {s s' : St} {l : Label} (hs : step s l = some s') :
    s.killers.length ≤ s'.killers.length := by
  step_cases hs l <;> simp

/-- termination, once begun, stays begun -/
theorem terminating_stable {s s' : St} {l : Label} (hs : step s l = some s')
    (h : Terminating s) : Terminating s' := by
  rcases h with h | ⟨c, h⟩ | h
  · exact Or.inl (ctxDone_mono hs h)
  · exact Or.inr (Or.inl ⟨c, el_exited_stable hs h⟩)
  · refine Or.inr (Or.inr ?_)
    have := killers_length_mono hs
    intro h0
    rw [h0] at this
    cases hk : s.killers with
    | nil => exact h hk
    | cons a b => rw [hk] at this; simp at this

/-! ### progress labels and the rank -/

/-- the lifecycle labels that move the termination forward (everything except message
hand-overs to a running loop and the returns of API callers) -/
def progressLabel : Label → Bool
  | .elCtxExit | .elCmdAbort | .runTail | .shCancel _ | .shHandlers _ | .shReader _ | .shWaitRead _
  | .shWaitReadTimeout _ | .shRenderer _ | .shRestore _ | .runReturn | .dispExit | .sigExit | .sigAbort
  | .resizeExit | .initAbort | .readerMsgAbort | .readerErrAbort | .readerCanceled => true
  | _ => false

theorem progress_isLifecycle (l : Label) (h : progressLabel l = true) : l.isLifecycle = true := by
  cases l <;> first | rfl | cases h

/-- progress steps start no user code -/
theorem noCallback_progress {s s' : St} {l : Label} (hp : progressLabel l = true)
    (hs : step s l = some s') (h : NoCallback s) : NoCallback s' := by
  unfold NoCallback at h ⊢
  step_cases hs l
  all_goals first
    | (simp [progressLabel] at hp; done)
    | (simp_all; done)

def phaseW : ShPhase → Nat
  | .cancel => 6 | .waitHandlers => 5 | .reader => 4 | .waitRead => 3 | .renderer => 2
  | .restore => 1 | .done => 0

/-- remaining steps of Run itself: leave the loop, seven shutdown phases, return -/
def runW (s : St) : Nat :=
  match s.runPc with
  | .loop => 8
  | .tail => phaseW s.runSh + 1
  | .returned => 0

def elW : ElPc → Nat
  | .exited _ => 0
  | _ => 1

def sigW : SigPc → Nat
  | .waiting | .sending _ => 1
  | _ => 0

def hW : HPc → Nat
  | .waiting => 1
  | _ => 0

def readW : ReadPc → Nat
  | .reading | .sendingMsg | .sendingErr => 1
  | _ => 0

def killersW (ks : List ShPhase) : Nat := (ks.map phaseW).sum

/-- the amount of termination work left -/
def rank (s : St) : Nat :=
  runW s + killersW s.killers + elW s.el + (if s.dispAlive = true then 1 else 0) + sigW s.sig
    + hW s.resize + hW s.initG + readW s.reader

theorem killersW_set {ks : List ShPhase} {j : Nat} {x y : ShPhase} (h : ks[j]? = some y) :
    killersW (ks.set j x) + phaseW y = killersW ks + phaseW x := by
  induction ks generalizing j with
  | nil => simp at h
  | cons a ks ih =>
    cases j with
    | zero =>
      simp only [List.getElem?_cons_zero, Option.some.injEq] at h
      subst h
      simp only [killersW, List.set_cons_zero, List.map_cons, List.sum_cons]
      omega
    | succ j =>
      simp only [List.getElem?_cons_succ] at h
      have := ih h
      simp only [killersW, List.set_cons_succ, List.map_cons, List.sum_cons] at this ⊢
      omega

theorem killersW_append (ks : List ShPhase) : killersW (ks ++ [.cancel]) = killersW ks + 6 := by
  simp [killersW, phaseW]

end Tea.Runtime.Life
