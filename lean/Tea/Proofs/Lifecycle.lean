import Tea.Runtime.Lifecycle
/-
Helper lemmas about the Lifecycle LTS (Tea/Runtime/Lifecycle.lean) for C04 and C13:
an induction principle over `Reachable` (base case: Run has just been entered, `init0`), the
fault-free start-up, the invariants (context cancellation, the shape of the start-up, the renderer's
listen goroutine, Run's error), stability facts, and list lemmas used by the rank.
-/
namespace Tea.Runtime.Life

/-- induction over reachable states -/
theorem reachable_induct {c : Config} (Inv : St → Prop)
    (h0 : Inv (init0 c))
    (hstep : ∀ s s' l, Reachable c s → Inv s → step s l = some s' → Inv s')
    {s : St} (hr : Reachable c s) : Inv s := by
  induction hr with
  | init0 => exact h0
  | step l hr hs ih => exact hstep _ _ l hr ih hs

/-- running a label list from a reachable state stays reachable -/
theorem reachable_runLabels {c : Config} {s s' : St} (ls : List Label)
    (hr : Reachable c s) (h : runLabels s ls = some s') : Reachable c s' := by
  induction ls generalizing s with
  | nil => simp only [runLabels] at h; cases h; exact hr
  | cons l ls ih =>
    simp only [runLabels] at h
    split at h
    · rename_i s1 h1; exact ih (Reachable.step l hr h1) h
    · cases h

/-- the fault-free start-up leads from Run's entry to the state in which the loop begins -/
theorem startup_reaches_loop (c : Config) : runLabels (init0 c) startupSchedule = some (init c) := by
  simp [startupSchedule, runLabels, step, init0, init]

/-- the state in which the loop begins is reachable: every reachability fact of the model that
started at the loop is a special case -/
theorem Reachable.init {c : Config} : Reachable c (init c) :=
  reachable_runLabels startupSchedule Reachable.init0 (startup_reaches_loop c)

theorem phaseOf_none (s : St) (ph : ShPhase) :
    phaseOf s none = some ph ↔ (s.runPc = .tail ∧ s.runSh = ph) := by
  simp only [phaseOf]; split <;> simp_all

theorem phaseOf_some (s : St) (j : Nat) : phaseOf s (some j) = s.killers[j]? := rfl

/- case analysis of one step `hs : step s l = some s'`: one goal per label and branch of its
guard (the `who` of a shutdown label split into Run's own call and killer `j`); `hs` is consumed,
`s'` is replaced by the explicit successor, the guards are hypotheses -/
set_option hygiene false in
macro "step_cases" hs:ident l:ident : tactic => `(tactic| (
  cases $l:ident
  case' shCancel who => cases who
  case' shHandlers who => cases who
  case' shReader who => cases who
  case' shWaitRead who => cases who
  case' shWaitReadTimeout who => cases who
  case' shRenderer who => cases who
  case' shRestore who => cases who
  all_goals simp only [step] at $hs:ident
  all_goals (repeat' split at $hs:ident)
  all_goals (cases $hs:ident)
  all_goals (try simp only [phaseOf_none, phaseOf_some, setPhase, killOf] at *)))

/-! ### I1: the context -/

/-- the context is never un-cancelled -/
theorem ctxDone_mono {s s' : St} {l : Label} (hs : step s l = some s') (h : s.ctxDone = true) :
    s'.ctxDone = true := by
  step_cases hs l <;> simp_all

theorem mem_set_inv {ks : List ShPhase} {k : Nat} {x y : ShPhase} {P : Prop}
    (ih : ∀ ph ∈ ks, ph ≠ .cancel → P) (hk : ks[k]? = some y) (hy : y ≠ .cancel) :
    ∀ ph ∈ ks.set k x, ph ≠ .cancel → P :=
  fun _ _ _ => ih y (List.mem_of_getElem? hk) hy

theorem mem_append_cancel_inv {ks : List ShPhase} {P : Prop}
    (ih : ∀ ph ∈ ks, ph ≠ .cancel → P) : ∀ ph ∈ ks ++ [.cancel], ph ≠ .cancel → P := by
  intro ph hm hne
  rcases List.mem_append.1 hm with h | h
  · exact ih ph h hne
  · simp at h; exact absurd h hne

/-- I1: who is past `cancel()` implies the context is cancelled; Run's return and `finished` -/
structure InvCtx (s : St) : Prop where
  tail : s.runPc = .tail → s.runSh ≠ .cancel → s.ctxDone = true
  killers : ∀ ph ∈ s.killers, ph ≠ .cancel → s.ctxDone = true
  returned : s.runPc = .returned → s.ctxDone = true ∧ s.finishedClosed = true
  finished : s.finishedClosed = true → s.runPc = .returned

theorem inv_ctx {c : Config} {s : St} (hr : Reachable c s) : InvCtx s := by
  refine reachable_induct InvCtx ?_ ?_ hr
  · constructor <;> simp [init0]
  · intro s s' l _ ih hs
    obtain ⟨h1, h2, h3, h4⟩ := ih
    step_cases hs l
    all_goals constructor
    all_goals first
      | assumption
      | (simp_all; done)
      | exact mem_set_inv h2 (by assumption) (by decide)
      | exact mem_set_inv h2 (And.left (by assumption)) (by decide)
      | exact mem_append_cancel_inv h2

/-! ### I2: the shape of the start-up -/

/-- the stages before `renderer.start()` -/
def StartPc.beforeStart : StartPc → Bool
  | .sigHandler | .newRenderer | .modeWrites | .startRenderer => true
  | _ => false

/-- the stages after the creation of the renderer -/
def StartPc.afterNewRenderer : StartPc → Bool
  | .sigHandler | .newRenderer => false
  | _ => true

/-- I2: while Run is starting up the loop has not begun, Run's own shutdown has not been entered,
`finished` is open and no error has been computed; the loop has begun when Run is in it; before the
loop begins there is neither a dispatcher nor a resize listener; before `renderer.start()` the
listen goroutine does not exist; after the creation of the renderer it exists; a return that is not the
end of a shutdown is the start-up failure of `initTerminal`; there is no dispatcher only when the
context is cancelled or the loop has not begun -/
structure InvStart (s : St) : Prop where
  starting : ∀ p, s.runPc = .starting p →
    s.el = .notStarted ∧ s.runSh = .cancel ∧ s.finishedClosed = false ∧ s.runErr = .nil ∧ s.runKill = false
  loop : s.runPc = .loop → s.el ≠ .notStarted ∧ s.runSh = .cancel
  notStarted : s.el = .notStarted → s.dispAlive = false ∧ s.resize = .absent
  early : ∀ p, s.runPc = .starting p → p.beforeStart = true → s.listen = .notStarted
  made : ∀ p, s.runPc = .starting p → p.afterNewRenderer = true → s.rendererMade = true
  returned : s.runPc = .returned → s.runSh = .done ∨ (s.el = .notStarted ∧ s.runErr = .startup ∧ s.runSh = .cancel)
  disp : s.dispAlive = false → s.ctxDone = true ∨ s.el = .notStarted

theorem inv_start {c : Config} {s : St} (hr : Reachable c s) : InvStart s := by
  refine reachable_induct InvStart ?_ ?_ hr
  · constructor <;> simp [init0, StartPc.afterNewRenderer]
  · intro s s' l _ ih hs
    obtain ⟨h1, h2, h3, h4, h5, h6, h7⟩ := ih
    step_cases hs l
    all_goals constructor
    all_goals first
      | assumption
      | (simp_all [StartPc.beforeStart, StartPc.afterNewRenderer]; done)

/-- I2 (continued): a loop that has begun and has not exited belongs to a Run that is in its loop (in
particular while the loop is inside an Exec); the renderer exists from the third stage of the
start-up on -/
structure InvLive (s : St) : Prop where
  live : s.el ≠ .notStarted → (∀ c, s.el ≠ .exited c) → s.runPc = .loop
  unmade : s.rendererMade = false → s.runPc = .starting .sigHandler ∨ s.runPc = .starting .newRenderer

theorem inv_live {c : Config} {s : St} (hr : Reachable c s) : InvLive s := by
  refine reachable_induct InvLive ?_ ?_ hr
  · constructor <;> simp [init0]
  · intro s s' l _ ih hs
    obtain ⟨h1, h2⟩ := ih
    step_cases hs l
    all_goals constructor
    all_goals first
      | assumption
      | (simp_all; done)

/-- while the loop is inside an Exec, Run is in its loop and the renderer exists -/
theorem exec_in_loop {c : Config} {s : St} (hr : Reachable c s) (h : s.el.inExec = true) :
    s.runPc = .loop ∧ s.rendererMade = true := by
  have hl : s.runPc = .loop :=
    (inv_live hr).live (by intro h'; rw [h'] at h; cases h) (by intro c h'; rw [h'] at h; cases h)
  refine ⟨hl, ?_⟩
  cases hm : s.rendererMade with
  | true => rfl
  | false => rcases (inv_live hr).unmade hm with h' | h' <;> rw [hl] at h' <;> cases h'

/-! ### I2': the renderer's listen goroutine -/

/-- I2': the listen goroutine has been started (and possibly halted) only after the renderer was
created (this replaces the `sync.Once` invariant of the old handshake: the state of the handshake
IS the state of the listen goroutine now) -/
theorem inv_listen {c : Config} {s : St} (hr : Reachable c s) :
    (s.listen ≠ .notStarted → s.rendererMade = true) := by
  refine reachable_induct (fun s => s.listen ≠ .notStarted → s.rendererMade = true) ?_ ?_ hr
  · simp [init0]
  · intro s s' l hrs ih hs
    have S := inv_start hrs
    step_cases hs l
    all_goals first
      | assumption
      | (simp_all; done)
      | exact fun _ => S.made _ (by assumption) rfl
      | exact fun _ => (exec_in_loop hrs (by simp_all [ElPc.inExec])).2

/-! ### I3: Run's tail and error -/

/-- I3: Run is past its loop (in its tail, or returned) only after the loop exited - then the error
and the kill flag were computed from the loop's cause and the context as it was at that check - or
after a start-up failure / a panic of the start-up's user code, the loop never having begun -/
def InvErr (s : St) : Prop :=
  (s.runPc = .tail ∨ s.runPc = .returned) →
    (∃ c b, s.el = .exited c ∧ s.runErr = errOf c b ∧ s.runKill = (b || c != .quit)) ∨
    (s.el = .notStarted ∧ (s.runErr = .killed ∨ s.runErr = .startup))

theorem inv_err {c : Config} {s : St} (hr : Reachable c s) : InvErr s := by
  refine reachable_induct InvErr ?_ ?_ hr
  · simp [init0, InvErr]
  · intro s s' l hrs ih hs
    have S := inv_start hrs
    unfold InvErr at ih ⊢
    step_cases hs l
    all_goals first
      | assumption
      | (simp_all; done)
      | exact fun _ => Or.inl ⟨_, _, by assumption, rfl, rfl⟩
      | exact fun _ => Or.inr ⟨(S.starting _ (by assumption)).1, by simp⟩
      | exact fun _ => Or.inr ⟨(S.starting _ (And.left (by assumption))).1, by simp⟩

/-! ### stability -/

/-- the loop never leaves `exited` -/
theorem el_exited_stable {s s' : St} {l : Label} (hs : step s l = some s') {c : Cause}
    (h : s.el = .exited c) : s'.el = .exited c := by
  step_cases hs l <;> simp_all

/-- Run never un-returns, `finished` is never re-opened -/
theorem returned_stable {s s' : St} {l : Label} (hs : step s l = some s')
    (h : s.runPc = .returned) : s'.runPc = .returned := by
  step_cases hs l <;> simp_all

theorem finished_stable {s s' : St} {l : Label} (hs : step s l = some s')
    (h : s.finishedClosed = true) : s'.finishedClosed = true := by
  step_cases hs l <;> simp_all

/-- shutdown callers never disappear -/
theorem killers_length_mono {s s' : St} {l : Label} (hs : step s l = some s') :
    s.killers.length ≤ s'.killers.length := by
  step_cases hs l <;> simp

/-- Run never goes back from its tail to its loop or its start-up -/
theorem pastLoop_stable {s s' : St} {l : Label} (hs : step s l = some s')
    (h : s.runPc = .tail ∨ s.runPc = .returned) : s'.runPc = .tail ∨ s'.runPc = .returned := by
  rcases h with h | h <;> (step_cases hs l <;> simp_all)

/-- termination, once begun, stays begun -/
theorem terminating_stable {s s' : St} {l : Label} (hs : step s l = some s')
    (h : Terminating s) : Terminating s' := by
  rcases h with h | ⟨c, h⟩ | h | h
  · exact Or.inl (ctxDone_mono hs h)
  · exact Or.inr (Or.inl ⟨c, el_exited_stable hs h⟩)
  · refine Or.inr (Or.inr (Or.inl ?_))
    have := killers_length_mono hs
    intro h0
    rw [h0] at this
    cases hk : s.killers with
    | nil => exact h hk
    | cons a b => rw [hk] at this; simp at this
  · exact Or.inr (Or.inr (Or.inr (pastLoop_stable hs h)))

/-! ### progress labels and the rank -/

/-- the lifecycle labels that move the termination forward (everything except message
hand-overs to a running loop and the returns of API callers); the internal steps of Run's start-up
and of an Exec are among them: a Run that is starting up, a loop that is inside an Exec when
termination begins goes on - to the loop, to Update -, and then sees the cancelled context -/
def progressLabel : Label → Bool
  | .elCtxExit | .elCmdAbort | .runTail | .shCancel _ | .shHandlers _ | .shReader _ | .shWaitRead _
  | .shWaitReadTimeout _ | .shRenderer _ | .shRestore _ | .runReturn | .dispExit | .sigExit | .sigAbort
  | .resizeExit | .initAbort | .readerMsgAbort | .readerErrAbort | .readerCanceled
  | .suSigHandler | .suNewRenderer | .suStartRenderer | .suSpawnInit | .suOpenReader | .suSpawnHandlers
  | .exRelCancel | .exRelWaitRead | .exRelWaitTimeout | .exRelRenderer | .exRelRestore
  | .exResReader | .exResRenderer | .exResSpawn => true
  | _ => false

/-- the returns of the user code Run calls during its start-up (the writer of the mode sequences,
Init, the first View): the callbacks a Run that is still starting up has yet to make -/
def startupReturn : Label → Bool
  | .startWriterReturns | .initReturns | .firstViewReturns => true
  | _ => false

/-- the returns of user code on the goroutines a shutdown depends on: filter / Update, View, the
output writer, the user code of the start-up, the command of an Exec -/
def userReturn : Label → Bool
  | .callbackReturns | .viewReturns | .writerReturns | .startWriterReturns | .initReturns
  | .firstViewReturns | .execCmdReturns => true
  | _ => false

/-- the alphabet of the schedules that bring Run to its return: progress steps and the returns of
user code (in progress, or - during the start-up or an Exec - still to be called) -/
def scheduleLabel (l : Label) : Bool := progressLabel l || userReturn l

/-- the alphabet that suffices while the loop is not inside an Exec and not inside user code: progress
steps and the returns of the start-up's user code -/
def startupScheduleLabel (l : Label) : Bool := progressLabel l || startupReturn l

theorem startupScheduleLabel_schedule (l : Label) (h : startupScheduleLabel l = true) :
    scheduleLabel l = true := by
  cases l <;> first | rfl | cases h

theorem progress_isLifecycle (l : Label) (h : progressLabel l = true) : l.isLifecycle = true := by
  cases l <;> first | rfl | cases h

/-- the progress steps after which a goroutine is inside user code: Run inside the writer of the
mode sequences, Init, the first View; the loop waiting for the command of an Exec, inside Update
with the execMsg -/
def entersUserCode : Label → Bool
  | .suNewRenderer | .suStartRenderer | .suSpawnInit | .exRelRestore | .exResSpawn => true
  | _ => false

/-- no user code in progress on the loop or the listen goroutine (`NoCallback` without the clauses
about Run's start-up and the command of an Exec) -/
def LoopQuiet (s : St) : Prop :=
  s.el ≠ .callback ∧ s.el ≠ .view ∧ s.listen ≠ .flushing

theorem NoCallback.loopQuiet {s : St} (h : NoCallback s) : LoopQuiet s := ⟨h.1, h.2.1, h.2.2.1⟩

/-- Run is inside user code of its start-up -/
def InStartupCode (s : St) : Prop :=
  s.runPc = .starting .modeWrites ∨ s.runPc = .starting .initCall ∨ s.runPc = .starting .firstView

theorem noCallback_iff (s : St) : NoCallback s ↔ (LoopQuiet s ∧ ¬ InStartupCode s ∧ s.el ≠ .execCmd) := by
  unfold NoCallback LoopQuiet InStartupCode
  constructor
  · rintro ⟨a, b, c, d, e, f, g⟩
    exact ⟨⟨a, b, c⟩, fun h => by rcases h with h | h | h <;> contradiction, g⟩
  · rintro ⟨⟨a, b, c⟩, h, g⟩
    exact ⟨a, b, c, fun x => h (Or.inl x), fun x => h (Or.inr (Or.inl x)), fun x => h (Or.inr (Or.inr x)), g⟩

/-- progress steps start no user code, except the steps after which - by construction - Run is
inside the user code of its start-up, the loop waits for the command of an Exec or is inside Update -/
theorem noCallback_progress {s s' : St} {l : Label} (hp : progressLabel l = true)
    (hne : entersUserCode l = false)
    (hs : step s l = some s') (h : NoCallback s) : NoCallback s' := by
  unfold NoCallback at h ⊢
  step_cases hs l
  all_goals first
    | (simp [progressLabel] at hp; done)
    | (simp [entersUserCode] at hne; done)
    | (simp_all; done)
    | (refine ⟨h.1, h.2.1, ?_, h.2.2.2⟩; split <;> simp_all)

/-- progress steps and the returns of user code start no user code on the loop or the listen
goroutine - except the last step of an Exec, after which the loop is inside Update -/
theorem loopQuiet_schedule {s s' : St} {l : Label} (hp : scheduleLabel l = true)
    (hne : l ≠ .exResSpawn)
    (hs : step s l = some s') (h : LoopQuiet s) : LoopQuiet s' := by
  unfold LoopQuiet at h ⊢
  step_cases hs l
  all_goals first
    | (simp [scheduleLabel, progressLabel, userReturn] at hp; done)
    | exact absurd rfl hne
    | (simp_all; done)
    | (refine ⟨h.1, h.2.1, ?_⟩; split <;> simp_all)
    | (refine ⟨by simp, by simp, ?_⟩; split <;> simp_all)

/-- outside an Exec, progress steps and the returns of the start-up's user code start no user code on
the loop or the listen goroutine, and start no Exec -/
theorem quiet_startupSchedule {s s' : St} {l : Label} (hp : startupScheduleLabel l = true)
    (hs : step s l = some s') (h : LoopQuiet s) (hex : s.el.inExec = false) :
    LoopQuiet s' ∧ s'.el.inExec = false := by
  unfold LoopQuiet at h ⊢
  step_cases hs l
  all_goals first
    | (simp [startupScheduleLabel, progressLabel, startupReturn] at hp; done)
    | (simp_all [ElPc.inExec]; done)
    | (refine ⟨⟨h.1, h.2.1, ?_⟩, hex⟩; split <;> simp_all)

/-- once Run is past its start-up and the loop is not inside an Exec, progress steps start no user
code at all -/
theorem noCallback_progress_past {s s' : St} {l : Label} (hp : progressLabel l = true)
    (hs : step s l = some s') (hpast : ∀ p, s.runPc ≠ .starting p) (hex : s.el.inExec = false)
    (h : NoCallback s) :
    NoCallback s' ∧ (∀ p, s'.runPc ≠ .starting p) ∧ s'.el.inExec = false := by
  unfold NoCallback at h ⊢
  step_cases hs l
  all_goals first
    | (simp [progressLabel] at hp; done)
    | (exact absurd (by assumption) (hpast _); done)
    | (simp_all [ElPc.inExec]; done)

def phaseW : ShPhase → Nat
  | .cancel => 6 | .waitHandlers => 5 | .reader => 4 | .waitRead => 3 | .renderer => 2
  | .restore => 1 | .done => 0

/-- what is left of the start-up: four per remaining stage (a stage spawns at most three
goroutines, each of which adds one to the rank), on top of the eight of the loop -/
def stageW : StartPc → Nat
  | .sigHandler => 44 | .newRenderer => 40 | .modeWrites => 36 | .startRenderer => 32 | .initCall => 28
  | .spawnInit => 24 | .firstView => 20 | .openReader => 16 | .spawnHandlers => 12

/-- remaining steps of Run itself: the stages of the start-up, leave the loop, seven shutdown
phases, return -/
def runW (s : St) : Nat :=
  match s.runPc with
  | .starting p => stageW p
  | .loop => 8
  | .tail => phaseW s.runSh + 1
  | .returned => 0

/-- the loop: one until it has exited; inside an Exec two per remaining phase on top (a phase of
RestoreTerminal starts a read loop) -/
def elW : ElPc → Nat
  | .exited _ => 0
  | .execRelease .cancelReader => 17 | .execRelease .waitRead => 15 | .execRelease .renderer => 13
  | .execRelease .restore => 11 | .execCmd => 9
  | .execRestore .reader => 7 | .execRestore .renderer => 5 | .execRestore .spawn => 3
  | _ => 1

def sigW : SigPc → Nat
  | .waiting | .sending _ => 1
  | _ => 0

def hW : HPc → Nat
  | .waiting => 1
  | _ => 0

def readW : ReadPc → Nat
  | .reading | .sendingMsg | .sendingErr => 1
  | _ => 0

def killersW (ks : List ShPhase) : Nat := (ks.map phaseW).sum

/-- an Exec message that the loop has not received yet: the sixteen its Exec adds to the loop's share -/
def callerW (c : Caller) : Nat :=
  match c.kind, c.pc with
  | .exec, .returned => 0
  | .exec, _ => 16
  | _, _ => 0

def sendersW (ss : List Caller) : Nat := (ss.map callerW).sum

/-- user code in progress on the loop (or to be entered by the Exec in progress) and on the listen
goroutine: the returns a schedule needs on top of the rank -/
def pendW (s : St) : Nat :=
  (match s.el with
    | .callback | .view | .execRelease _ | .execCmd | .execRestore _ => 1
    | _ => 0) + (if s.listen = .flushing then 1 else 0)

/-- the amount of termination work left -/
def rank (s : St) : Nat :=
  runW s + killersW s.killers + elW s.el + (if s.dispAlive = true then 1 else 0) + sigW s.sig
    + hW s.resize + hW s.initG + readW s.reader + sendersW s.senders

theorem killersW_set {ks : List ShPhase} {j : Nat} {x y : ShPhase} (h : ks[j]? = some y) :
    killersW (ks.set j x) + phaseW y = killersW ks + phaseW x := by
  induction ks generalizing j with
  | nil => simp at h
  | cons a ks ih =>
    cases j with
    | zero =>
      simp only [List.getElem?_cons_zero, Option.some.injEq] at h
      subst h
      simp only [killersW, List.set_cons_zero, List.map_cons, List.sum_cons]
      omega
    | succ j =>
      simp only [List.getElem?_cons_succ] at h
      have := ih h
      simp only [killersW, List.set_cons_succ, List.map_cons, List.sum_cons] at this ⊢
      omega

theorem sendersW_set {ss : List Caller} {j : Nat} {x y : Caller} (h : ss[j]? = some y) :
    sendersW (ss.set j x) + callerW y = sendersW ss + callerW x := by
  induction ss generalizing j with
  | nil => simp at h
  | cons a ss ih =>
    cases j with
    | zero =>
      simp only [List.getElem?_cons_zero, Option.some.injEq] at h
      subst h
      simp only [sendersW, List.set_cons_zero, List.map_cons, List.sum_cons]
      omega
    | succ j =>
      simp only [List.getElem?_cons_succ] at h
      have := ih h
      simp only [sendersW, List.set_cons_succ, List.map_cons, List.sum_cons] at this ⊢
      omega

theorem sendersW_append (ss ts : List Caller) : sendersW (ss ++ ts) = sendersW ss + sendersW ts := by
  simp [sendersW]

theorem sendersW_user1 : sendersW [{ kind := .user, pc := .blocked }] = 0 := rfl
theorem sendersW_user2 :
    sendersW [{ kind := .user, pc := .blocked }, { kind := .user, pc := .blocked }] = 0 := rfl
theorem pendW_le_two (s : St) : pendW s ≤ 2 := by
  unfold pendW
  split <;> split <;> omega

theorem sigW_le_one (x : SigPc) : sigW x ≤ 1 := by cases x <;> simp [sigW]
theorem hW_le_one (x : HPc) : hW x ≤ 1 := by cases x <;> simp [hW]
theorem readW_le_one (x : ReadPc) : readW x ≤ 1 := by cases x <;> simp [readW]

theorem killersW_append (ks : List ShPhase) : killersW (ks ++ [.cancel]) = killersW ks + 6 := by
  simp [killersW, phaseW]

end Tea.Runtime.Life
