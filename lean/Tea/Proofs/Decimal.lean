import Tea.Prelude.Decimal
/-
Decimal printing / parsing round trip (helpers for C11).
-/
namespace Tea.Dec
open Tea

/-- reference definition of the decimal digits by well-founded recursion -/
def D (n : Nat) : Bytes :=
  if h : n < 10 then [48 + n] else D (n / 10) ++ [48 + n % 10]
termination_by n
decreasing_by omega

theorem D_lt {n : Nat} (h : n < 10) : D n = [48 + n] := by
  rw [D]; simp [h]

theorem D_ge {n : Nat} (h : ¬ n < 10) : D n = D (n / 10) ++ [48 + n % 10] := by
  rw [D]; simp [h]

theorem digitsAux_eq_D : ∀ (fuel n : Nat) (acc : Bytes), n < fuel → digitsAux fuel n acc = D n ++ acc := by
  intro fuel
  induction fuel with
  | zero => intro n acc h; omega
  | succ f ih =>
    intro n acc h
    unfold digitsAux
    by_cases hn : n < 10
    · rw [if_pos hn, D_lt hn]; rfl
    · rw [if_neg hn, D_ge hn, ih (n / 10) _ (by omega)]
      simp

theorem digits_eq_D (n : Nat) : digits n = D n := by
  unfold digits
  rw [digitsAux_eq_D (n + 1) n [] (by omega)]
  simp

/-- the recurrence of the decimal expansion -/
theorem digits_rec (n : Nat) :
    digits n = (if n < 10 then [] else digits (n / 10)) ++ [48 + n % 10] := by
  rw [digits_eq_D]
  by_cases hn : n < 10
  · rw [if_pos hn, D_lt hn, Nat.mod_eq_of_lt hn]; rfl
  · rw [if_neg hn, D_ge hn, digits_eq_D]

theorem digits_ne_nil (n : Nat) : digits n ≠ [] := by
  rw [digits_rec]; simp

theorem digits_length_pos (n : Nat) : 0 < (digits n).length :=
  List.length_pos_iff.mpr (digits_ne_nil n)

theorem D_isDigit : ∀ (n : Nat), ∀ c ∈ D n, isDigit c = true := by
  intro n
  induction n using Nat.strongRecOn with
  | _ n ih =>
    intro c hc
    by_cases hn : n < 10
    · rw [D_lt hn] at hc
      simp at hc; subst hc
      simp [isDigit]; omega
    · rw [D_ge hn] at hc
      simp at hc
      rcases hc with hc | hc
      · exact ih (n / 10) (by omega) c hc
      · subst hc
        simp [isDigit]; omega

theorem digits_isDigit (n : Nat) : ∀ c ∈ digits n, isDigit c = true := by
  rw [digits_eq_D]; exact D_isDigit n

theorem valueAux_snoc (ds : Bytes) : ∀ (acc c : Nat),
    valueAux acc (ds ++ [c]) = valueAux acc ds * 10 + (c - 48) := by
  induction ds with
  | nil => intro acc c; rfl
  | cons d ds ih =>
    intro acc c
    show valueAux (acc * 10 + (d - 48)) (ds ++ [c]) = valueAux (acc * 10 + (d - 48)) ds * 10 + (c - 48)
    exact ih _ _

theorem value_D : ∀ (n : Nat), value (D n) = n := by
  intro n
  induction n using Nat.strongRecOn with
  | _ n ih =>
    by_cases hn : n < 10
    · rw [D_lt hn]
      show 0 * 10 + (48 + n - 48) = n
      omega
    · rw [D_ge hn]
      unfold value
      rw [valueAux_snoc]
      have := ih (n / 10) (by omega)
      unfold value at this
      rw [this]
      omega

theorem value_digits (n : Nat) : value (digits n) = n := by
  rw [digits_eq_D]; exact value_D n

/-- `Atoi(Itoa(n))`: the value, saturated at the maximum int64 -/
theorem atoi_digits (n : Nat) : atoi (digits n) = min n maxInt64 := by
  unfold atoi; rw [value_digits]

/-- the digit run of a string that starts with digits and goes on with a non-digit -/
theorem spanDigits_of_all (ds rest : Bytes) (hd : ∀ c ∈ ds, isDigit c = true)
    (hr : rest = [] ∨ ∃ c tl, rest = c :: tl ∧ isDigit c = false) :
    spanDigits (ds ++ rest) = (ds, rest) := by
  induction ds with
  | nil =>
    rcases hr with hr | ⟨c, tl, hr, hc⟩
    · subst hr; simp [spanDigits]
    · subst hr; simp [spanDigits, hc]
  | cons d ds ih =>
    have hd' : ∀ c ∈ ds, isDigit c = true := fun c hc => hd c (List.mem_cons_of_mem _ hc)
    have h0 : isDigit d = true := hd d (List.mem_cons_self ..)
    simp only [List.cons_append, spanDigits, h0, if_true, ih hd']

theorem spanDigits_digits (n : Nat) (rest : Bytes)
    (hr : rest = [] ∨ ∃ c tl, rest = c :: tl ∧ isDigit c = false) :
    spanDigits (digits n ++ rest) = (digits n, rest) :=
  spanDigits_of_all _ _ (digits_isDigit n) hr

/-- variant with the head of the rest spelled with `List.head?` -/
theorem spanDigits_digits' (n : Nat) (rest : Bytes)
    (hr : ∀ c, rest.head? = some c → isDigit c = false) :
    spanDigits (digits n ++ rest) = (digits n, rest) := by
  apply spanDigits_digits
  cases rest with
  | nil => exact Or.inl rfl
  | cons c tl => exact Or.inr ⟨c, tl, rfl, hr c rfl⟩

theorem spanDigits_digits_cons (n c : Nat) (tl : Bytes) (hc : isDigit c = false) :
    spanDigits (digits n ++ c :: tl) = (digits n, c :: tl) :=
  spanDigits_digits n _ (Or.inr ⟨c, tl, rfl, hc⟩)

end Tea.Dec
