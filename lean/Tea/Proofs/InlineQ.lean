import Tea.Proofs.Queued
/-
The general inline flush: CUU to the first view row, the queued (printed) lines,
the paint loop, CUB width.  With an empty queue this is `Tea/Proofs/Inline.lean`.
-/
namespace Tea.Render
open Tea Tea.VT

theorem queuedLineOps_bufOps (w : Nat) (l : Line) : ∀ op ∈ queuedLineOps w l, isBufOp op = true := by
  have : (queuedLineOps w l).all isBufOp = true := by
    unfold queuedLineOps
    split <;> simp [isBufOp]
  simpa [List.all_eq_true] using this

theorem queued_bufOps (w : Nat) (qs : List Line) :
    ∀ op ∈ qs.flatMap (queuedLineOps w), isBufOp op = true := by
  intro op hop
  rw [List.mem_flatMap] at hop
  obtain ⟨l, _, hl⟩ := hop
  exact queuedLineOps_bufOps w l op hl

/-- the operations of any inline flush that paints -/
theorem flush_inlineQ_ops (r : RState) (halt : r.altActive = false)
    (h : (r.buf.isEmpty || r.buf == r.lastRender) = false) :
    (flush r).2 = (if r.linesRendered > 1 then [.cuu (r.linesRendered - 1)] else []) ++
      (r.queued.flatMap (queuedLineOps r.width) ++
      (paintOps r (!r.queued.isEmpty) (decide (r.linesRendered > (frameLines r).length))
        (frameLines r).length 0 (frameLines r) ++ [.cub r.width])) := by
  unfold flush
  cases hq : r.queued with
  | nil => simp [h, halt, RState.lastLinesRendered]
  | cons q qs => simp [h, halt, RState.lastLinesRendered]

theorem canSkip_flushQ (r : RState) (sh : Bool) (n i : Nat) (l : Line) :
    canSkip r true sh n i l = false := by simp [canSkip]

/-- the general inline flush on a buffer: as `inlineFlush_buf`, with the queued lines' rows
`qrows w qs` first and the view below them -/
theorem inlineFlushQ_buf (r : RState) (fq sh : Bool) (w h k : Nat) (b : Buf) (qs ls : List Line)
    (hw : r.width = w) (hw1 : 1 ≤ w) (hn1 : 1 ≤ ls.length)
    (hc : b.cc = 0) (hp : b.pw = false) (hin : b.top + max k 1 ≤ b.cr + 1) (hwin : b.cr < b.top + h)
    (hskip : ∀ j l, ls[j]? = some l → canSkip r fq sh ls.length j l = true →
      rowShows w b (b.cr + 1 - max k 1 + (qrows w qs).length + j) (Ansi.visible l)) :
    ∀ b', b' = applyBufs w h b ((if k > 1 then [.cuu (k - 1)] else []) ++
      (qs.flatMap (queuedLineOps w) ++ (paintOps r fq sh ls.length 0 ls ++ [.cub w]))) →
    b'.cr + 1 = b.cr + 1 - max k 1 + (qrows w qs).length + ls.length ∧
    b'.top = max b.top (b.cr + 1 - max k 1 + (qrows w qs).length + ls.length - h) ∧
    b'.cc = 0 ∧ b'.pw = false ∧
    (∀ j l, (qrows w qs)[j]? = some l → rowShows w b' (b.cr + 1 - max k 1 + j) l) ∧
    (∀ j l, ls[j]? = some l →
      rowShows w b' (b.cr + 1 - max k 1 + (qrows w qs).length + j) (Ansi.visible l)) ∧
    (∀ ρ, ρ < b.cr + 1 - max k 1 → ∀ c, b'.cells ρ c = b.cells ρ c) ∧
    (sh = false → ∀ ρ, b.cr + 1 - max k 1 + (qrows w qs).length + ls.length ≤ ρ →
      ∀ c, b'.cells ρ c = b.cells ρ c) ∧
    (sh = true → ∀ ρ, b.cr + 1 - max k 1 + (qrows w qs).length + ls.length ≤ ρ →
      ρ < b'.top + h → rowBlank w b' ρ) := by
  intro b' hb'
  have hpre : ∃ b0, b0 = applyBufs w h b (if k > 1 then [.cuu (k - 1)] else []) ∧
      b0.cr = b.cr + 1 - max k 1 ∧ b0.cc = 0 ∧ b0.pw = false ∧ b0.top = b.top ∧ b0.cells = b.cells := by
    refine ⟨_, rfl, ?_⟩
    by_cases hk : k > 1
    · simp only [hk, if_true, applyBufs_cons, applyBufs_nil, applyBuf_cuu_cc, applyBuf_cuu_pw,
        applyBuf_cuu_top, applyBuf_cuu_cells, hc, and_true]
      rw [applyBuf_cuu_cr w h b (k - 1) (by omega) (by omega)]
      omega
    · simp only [hk, if_false, applyBufs_nil, hc, hp, and_true]
      omega
  obtain ⟨b0, hb0, p1, p2, p3, p4, p5⟩ := hpre
  obtain ⟨q1, q2, q3, q4, q5, q6, q7⟩ := queued_spec w h hw1 qs b0 p2 p3 (by rw [p1, p4]; omega) _ rfl
  replace hb' : b' = applyBuf w h (applyBufs w h (applyBufs w h b0 (qs.flatMap (queuedLineOps w)))
      (paintOps r fq sh ls.length 0 ls)) (.cub w) := by
    rw [hb', hb0]
    simp only [applyBufs_cons, applyBufs_append, applyBufs_nil]
  generalize applyBufs w h b0 (qs.flatMap (queuedLineOps w)) = b1 at *
  rw [p1] at q1 q5 q6 q7
  rw [p1, p4] at q4
  simp only [p5] at q6 q7
  obtain ⟨s1, s2, s3, s4, s5, s6, s7⟩ := paintOps_spec r fq sh ls.length w h hw hw1 ls 0
    b1 (by simp) (by intro hnil; rw [hnil] at hn1; simp at hn1) q2 q3 (by rw [q1, q4]; omega)
    (by
      intro j l hj hcs
      rw [q1]
      exact rowShows_congr (fun c => q7 _ (by omega) c) (hskip j l hj (by simpa using hcs)))
  rw [q1] at s1 s4 s5 s6 s7
  rw [q1, q4] at s3
  generalize applyBufs w h b1 (paintOps r fq sh ls.length 0 ls) = b2 at *
  subst hb'
  refine ⟨by simpa using s1, by simp only [applyBuf_cub_top]; rw [s3]; omega, ?_, by simp,
    ?_, ?_, ?_, ?_, ?_⟩
  · exact applyBuf_cub_cc w h b2 w hw1 (by omega)
  · intro j l hj
    have hjl : j < (qrows w qs).length := by
      apply Classical.byContradiction
      intro hn
      rw [List.getElem?_eq_none (by omega)] at hj
      cases hj
    exact rowShows_congr (fun c => by rw [applyBuf_cub_cells]; exact s5 _ (by omega) c) (q5 j l hj)
  · intro j l hj
    exact rowShows_congr (fun c => by simp) (s4 j l hj)
  · intro ρ hρ c
    rw [applyBuf_cub_cells, s5 ρ (by omega) c, q6 ρ hρ c]
  · intro hsh ρ hρ c
    rw [applyBuf_cub_cells, s6 hsh ρ hρ c, q7 ρ (by omega) c]
  · intro hsh ρ hρ hρ2
    exact rowBlank_congr (fun c => by simp) (s7 hsh ρ hρ (by simpa using hρ2))

/-- One painting inline flush, queue arbitrary, on a `Term` (cf. `inline_flush_term`). -/
theorem inline_flushQ_term (r : RState) (t : Term) (halt : r.altActive = false) (hon : t.onAlt = false)
    (hw : r.width = t.w) (hw1 : 1 ≤ t.w)
    (hc : t.main.cc = 0) (hp : t.main.pw = false)
    (hin : t.main.top + max r.linesRendered 1 ≤ t.main.cr + 1) (hwin : t.main.cr < t.main.top + t.h)
    (hne : (r.buf.isEmpty || r.buf == r.lastRender) = false)
    (hskip : r.queued = [] → ∀ j l, (frameLines r)[j]? = some l → sameAsLast r j l = true →
      rowShows t.w t.main (viewTop r t + j) (Ansi.visible l)) :
    ∀ t', t' = applyOps t (flush r).2 →
    t'.onAlt = false ∧ t'.w = t.w ∧ t'.h = t.h ∧ t'.alt = t.alt ∧
    t'.main.cr + 1 = viewTop r t + (qrows t.w r.queued).length + (frameLines r).length ∧
    t'.main.top = max t.main.top
      (viewTop r t + (qrows t.w r.queued).length + (frameLines r).length - t.h) ∧
    t'.main.cc = 0 ∧ t'.main.pw = false ∧
    (∀ j l, (qrows t.w r.queued)[j]? = some l → rowShows t.w t'.main (viewTop r t + j) l) ∧
    (∀ j l, (frameLines r)[j]? = some l →
      rowShows t.w t'.main (viewTop r t + (qrows t.w r.queued).length + j) (Ansi.visible l)) ∧
    (∀ ρ, ρ < viewTop r t → ∀ c, t'.main.cells ρ c = t.main.cells ρ c) ∧
    (¬ r.linesRendered > (frameLines r).length →
      ∀ ρ, viewTop r t + (qrows t.w r.queued).length + (frameLines r).length ≤ ρ →
      ∀ c, t'.main.cells ρ c = t.main.cells ρ c) ∧
    (r.linesRendered > (frameLines r).length →
      ∀ ρ, viewTop r t + (qrows t.w r.queued).length + (frameLines r).length ≤ ρ →
      ρ < t'.main.top + t.h → rowBlank t.w t'.main ρ) := by
  intro t' ht'
  have hn1 : 1 ≤ (frameLines r).length := by rw [frameLines_eq]; exact frameOf_length_pos _ _
  rw [flush_inlineQ_ops r halt hne] at ht'
  obtain ⟨a1, a2, a3, a4, _, a6⟩ := applyOps_bufOps
    ((if r.linesRendered > 1 then [.cuu (r.linesRendered - 1)] else []) ++
      (r.queued.flatMap (queuedLineOps r.width) ++
      (paintOps r (!r.queued.isEmpty) (decide (r.linesRendered > (frameLines r).length))
        (frameLines r).length 0 (frameLines r) ++ [.cub r.width]))) t (by
    intro op hop
    simp only [List.mem_append, List.mem_singleton] at hop
    rcases hop with hop | hop | hop | rfl
    · split at hop
      · simp at hop; subst hop; rfl
      · simp at hop
    · exact queued_bufOps _ _ op hop
    · exact paintOps_bufOps _ _ _ _ _ _ op hop
    · rfl)
  rw [← ht'] at a1 a2 a3 a4 a6
  have hon' : t'.onAlt = false := by rw [a3, hon]
  rw [term_buf_main t' hon', term_buf_main t hon, hw] at a4
  obtain ⟨c1, c2, c3, c4, c5⟩ := a4
  obtain ⟨s1, s2, s3, s4, s5, s6, s7, s8, s9⟩ := inlineFlushQ_buf r (!r.queued.isEmpty)
    (decide (r.linesRendered > (frameLines r).length)) t.w t.h r.linesRendered t.main r.queued
    (frameLines r) hw hw1 hn1 hc hp hin hwin
    (by
      intro j l hj hcs
      cases hq : r.queued with
      | nil =>
        have := hskip hq j l hj (canSkip_sameAsLast hcs)
        simpa [qrows, viewTop] using this
      | cons q qs =>
        rw [hq] at hcs
        rw [show (!(q :: qs).isEmpty) = true from rfl, canSkip_flushQ] at hcs
        cases hcs) _ rfl
  unfold viewTop
  refine ⟨hon', a1, a2, a6 hon, by rw [c3, s1], by rw [c2, s2], by rw [c4, s3], by rw [c5, s4],
    ?_, ?_, ?_, ?_, ?_⟩
  · intro j l hj
    exact rowShows_congr (fun c => by rw [c1]) (s5 j l hj)
  · intro j l hj
    exact rowShows_congr (fun c => by rw [c1]) (s6 j l hj)
  · intro ρ hρ c
    rw [c1]; exact s7 ρ hρ c
  · intro hsh ρ hρ c
    rw [c1]; exact s8 (by simpa using hsh) ρ hρ c
  · intro hsh ρ hρ hρ2
    rw [c2] at hρ2
    exact rowBlank_congr (fun c => by rw [c1]) (s9 (by simpa using hsh) ρ hρ hρ2)

/-- `InlineInv` is preserved by ANY painting inline flush; the queued lines end up, once and in
order, in the rows starting at the old first view row, the view directly below them. -/
theorem inline_flushQ_inv (r : RState) (t : Term) (hinv : InlineInv r t)
    (hne : (r.buf.isEmpty || r.buf == r.lastRender) = false) :
    InlineInv (flush r).1 (applyOps t (flush r).2) ∧
    (flush r).1.queued = [] ∧
    viewTop (flush r).1 (applyOps t (flush r).2) = viewTop r t + (qrows t.w r.queued).length ∧
    (applyOps t (flush r).2).main.top = max t.main.top
      (viewTop r t + (qrows t.w r.queued).length + (frameLines r).length - t.h) ∧
    (applyOps t (flush r).2).alt = t.alt ∧
    (applyOps t (flush r).2).w = t.w ∧ (applyOps t (flush r).2).h = t.h ∧
    (∀ ρ, ρ < viewTop r t → ∀ c, (applyOps t (flush r).2).main.cells ρ c = t.main.cells ρ c) ∧
    (∀ j l, (qrows t.w r.queued)[j]? = some l →
      rowShows t.w (applyOps t (flush r).2).main (viewTop r t + j) l) ∧
    (flush r).1.lastLines = some (frameLines r) ∧
    (flush r).1.linesRendered = (frameLines r).length := by
  have hn1 : 1 ≤ (frameLines r).length := by rw [frameLines_eq]; exact frameOf_length_pos _ _
  have hnh : (frameLines r).length ≤ t.h := by
    rw [frameLines_eq, ← hinv.height]
    exact frameOf_length_le _ _ (by have := hinv.hpos; have := hinv.height; omega)
  obtain ⟨s1, s2, s3, s4, s5, s6, s7, s8, sq, s9, s10, s11, s12⟩ := inline_flushQ_term r t hinv.alt
    hinv.onAlt hinv.width hinv.wpos hinv.col.1 hinv.col.2
    hinv.inside.1 hinv.inside.2 hne
    (by
      intro _ j l _ hs
      cases hll : r.lastLines with
      | none => rw [sameAsLast_none r j l hll] at hs; cases hs
      | some ls => exact (hinv.cache ls hll).2 j l (sameAsLast_some hll hs))
    _ rfl
  generalize applyOps t (flush r).2 = t' at *
  have e := flush_state r hne
  generalize (flush r).1 = r' at e ⊢
  have f1 : r'.altActive = false := by rw [e]; exact hinv.alt
  have f2 : r'.width = r.width := by rw [e]
  have f3 : r'.height = r.height := by rw [e]
  have f4 : r'.linesRendered = (frameLines r).length := by rw [e]; simp [hinv.alt]
  have f5 : r'.lastLines = some (frameLines r) := by rw [e]
  have f6 : r'.lastRender = r.buf := by rw [e]
  have f7 : r'.queued = [] := by
    rw [e]
    cases hq : r.queued <;> simp [hinv.alt]
  have hin := hinv.inside
  generalize hQ : (qrows t.w r.queued).length = Q at *
  have hvt : viewTop r' t' = viewTop r t + Q := by
    unfold viewTop at s5 ⊢
    rw [f4]; omega
  have hvt0 : t.main.top ≤ viewTop r t := by unfold viewTop; omega
  refine ⟨⟨f1, s1, by rw [s2, f2]; exact hinv.width, by rw [s3, f3]; exact hinv.height,
    by rw [s2]; exact hinv.wpos, by rw [s3]; exact hinv.hpos, ⟨s7, s8⟩, ?_, ?_, ?_, ?_⟩,
    f7, hvt, s6, s4, s2, s3, s10, sq, f5, f4⟩
  · rw [f4, s3, s6]
    constructor <;> omega
  · intro ρ hρ hρ2
    rw [s2]
    rw [s3] at hρ2
    by_cases hsh : r.linesRendered > (frameLines r).length
    · exact s12 hsh ρ (by omega) hρ2
    · have hρ3 : t.main.cr < ρ := by unfold viewTop at s5; omega
      refine rowBlank_congr (fun c => s11 hsh ρ (by omega) c) (hinv.below ρ hρ3 ?_)
      rw [s6] at hρ2
      omega
  · intro ls hls
    rw [f5] at hls
    have := Option.some.inj hls
    subst this
    refine ⟨f4.symm, ?_⟩
    intro i l hi
    rw [s2, hvt]
    exact s9 i l hi
  · intro _
    rw [f5, f6, f3, frameLines_eq]

end Tea.Render
