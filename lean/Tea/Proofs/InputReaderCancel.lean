import Tea.Proofs.InputReader
/-
The reader under cancellation (`decodeLoopC`, `readAllCAux`, `readAllC`) against the
uncancelled reader (`decodeLoop`, `readAll`): cancellation only truncates, and nothing
after the cancelling send is looked at (for C09). None of this needs the hypothesis on
the table lengths: it is a statement about the loops, whatever detectOneMsg does.
-/
namespace Tea.Input
open Tea

/-- the accumulator of the inner loop is only ever extended -/
theorem decodeLoop_prefix (T : Table) (lens : List Nat) (more : Bool) :
    ∀ (fuel : Nat) (b : Bytes) (acc out : List Out) (left : Bytes),
      decodeLoop T lens more fuel b acc = .ok (out, left) → ∃ sfx, out = acc.reverse ++ sfx := by
  intro fuel
  induction fuel with
  | zero =>
    intro b acc out left h
    simp only [decodeLoop, Except.ok.injEq, Prod.mk.injEq] at h
    exact ⟨[], by simp [h.1]⟩
  | succ f ih =>
    intro b acc out left h
    simp only [decodeLoop] at h
    split at h
    · simp only [Except.ok.injEq, Prod.mk.injEq] at h
      exact ⟨[], by simp [h.1]⟩
    · split at h
      · cases h
      · split at h
        · simp only [Except.ok.injEq, Prod.mk.injEq] at h
          exact ⟨[], by simp [h.1]⟩
        · rename_i w m _ _
          obtain ⟨sfx, hs⟩ := ih _ _ _ _ h
          exact ⟨{ msg := m, consumed := b.take w } :: sfx, by simp [hs]⟩

/-- the inner loop under cancellation sends exactly the first `budget` new messages of the
uncancelled loop, and says "cancelled" iff there was one more; when not cancelled the
left-over is the same. -/
theorem decodeLoopC_spec (T : Table) (lens : List Nat) (more : Bool) :
    ∀ (fuel : Nat) (b : Bytes) (acc : List Out) (budget : Nat) (out : List Out) (left : Bytes),
      decodeLoop T lens more fuel b acc = .ok (out, left) →
      ∃ left'', decodeLoopC T lens more fuel b acc budget =
          .ok (out.take (acc.length + budget), left'', decide (acc.length + budget < out.length)) ∧
        (out.length ≤ acc.length + budget → left'' = left) := by
  intro fuel
  induction fuel with
  | zero =>
    intro b acc budget out left h
    simp only [decodeLoop, Except.ok.injEq, Prod.mk.injEq] at h
    obtain ⟨h1, h2⟩ := h
    subst h1; subst h2
    refine ⟨b, ?_, fun _ => rfl⟩
    simp only [decodeLoopC]
    rw [List.take_of_length_le (by simp)]
    simp
  | succ f ih =>
    intro b acc budget out left h
    simp only [decodeLoop] at h
    simp only [decodeLoopC]
    by_cases he : b.isEmpty = true
    · rw [if_pos he] at h ⊢
      simp only [Except.ok.injEq, Prod.mk.injEq] at h
      obtain ⟨h1, h2⟩ := h
      subst h1; subst h2
      refine ⟨[], ?_, fun _ => rfl⟩
      rw [List.take_of_length_le (by simp)]
      simp
    · rw [if_neg he] at h ⊢
      cases hd : detectOneMsg T lens b more with
      | error e => rw [hd] at h; cases h
      | ok r =>
        obtain ⟨w, m⟩ := r
        rw [hd] at h
        simp only at h ⊢
        by_cases hw : (w == 0) = true
        · rw [if_pos hw] at h ⊢
          simp only [Except.ok.injEq, Prod.mk.injEq] at h
          obtain ⟨h1, h2⟩ := h
          subst h1; subst h2
          refine ⟨b, ?_, fun _ => rfl⟩
          rw [List.take_of_length_le (by simp)]
          simp
        · rw [if_neg hw] at h ⊢
          cases budget with
          | zero =>
            obtain ⟨sfx, hs⟩ := decodeLoop_prefix T lens more _ _ _ _ _ h
            refine ⟨b, ?_, ?_⟩
            · simp only [Nat.add_zero]
              subst hs
              simp
            · intro hle
              subst hs
              simp at hle
              omega
          | succ k =>
            obtain ⟨left'', h1, h2⟩ := ih _ _ k _ _ h
            refine ⟨left'', ?_, ?_⟩
            · simp only
              rw [h1]
              have : acc.length + 1 + k = acc.length + (k + 1) := by omega
              simp only [List.length_cons, this]
            · intro hle
              apply h2
              simp only [List.length_cons]
              omega

/-- the accumulator of the outer loop is only ever extended -/
theorem readAll_prefix (T : Table) (lens : List Nat) (eof : Bool) :
    ∀ (chunks : List Bytes) (left : Bytes) (acc out : List Out) (left' : Bytes),
      readAll T lens eof chunks left acc = .ok (out, left') → ∃ sfx, out = acc ++ sfx := by
  intro chunks
  induction chunks with
  | nil =>
    intro left acc out left' h
    simp only [readAll] at h
    split at h
    · split at h
      · cases h
      · simp only [Except.ok.injEq, Prod.mk.injEq] at h
        exact ⟨_, h.1.symm⟩
    · simp only [Except.ok.injEq, Prod.mk.injEq] at h
      exact ⟨[], by simp [h.1]⟩
  | cons c cs ih =>
    intro left acc out left' h
    simp only [readAll] at h
    split at h
    · cases h
    · obtain ⟨sfx, hs⟩ := ih _ _ _ _ h
      exact ⟨_, by rw [hs, List.append_assoc]⟩

theorem take_append_add {α} (a o : List α) (n : Nat) : (a ++ o).take (a.length + n) = a ++ o.take n := by
  rw [List.take_append]
  simp [List.take_of_length_le]

/-- the whole reader under cancellation against the uncancelled reader: the messages sent are
the first `budget` NEW messages of the uncancelled run (after the `acc` already sent), and the
flag says whether there was one more. -/
theorem readAllCAux_spec (T : Table) (lens : List Nat) (eof : Bool) :
    ∀ (chunks : List Bytes) (left : Bytes) (acc : List Out) (budget : Nat) (out : List Out) (l : Bytes),
      readAll T lens eof chunks left acc = .ok (out, l) →
      readAllCAux T lens eof chunks left acc budget =
        .ok (out.take (acc.length + budget), decide (acc.length + budget < out.length)) := by
  intro chunks
  induction chunks with
  | nil =>
    intro left acc budget out l h
    simp only [readAll] at h
    simp only [readAllCAux]
    cases eof with
    | false =>
      simp only [Bool.false_eq_true, if_false, Except.ok.injEq, Prod.mk.injEq] at h ⊢
      obtain ⟨h1, _⟩ := h
      subst h1
      rw [List.take_of_length_le (by omega)]
      simp
    | true =>
      simp only [if_true] at h ⊢
      split at h
      · cases h
      · rename_i o l' hd
        simp only [Except.ok.injEq, Prod.mk.injEq] at h
        obtain ⟨h1, _⟩ := h
        subst h1
        obtain ⟨left'', g, _⟩ := decodeLoopC_spec T lens false _ _ [] budget _ _ hd
        rw [g]
        simp only [List.length_nil, Nat.zero_add, List.length_append, take_append_add]
        congr 2
        apply decide_eq_decide.mpr
        omega
  | cons c cs ih =>
    intro left acc budget out l h
    simp only [readAll] at h
    simp only [readAllCAux]
    split at h
    · cases h
    · rename_i o left' hp
      unfold processRead at hp
      obtain ⟨left'', g, gl⟩ := decodeLoopC_spec T lens _ _ _ [] budget _ _ hp
      simp only [List.length_nil, Nat.zero_add] at g gl
      rw [g]
      simp only
      obtain ⟨sfx, hs⟩ := readAll_prefix T lens eof _ _ _ _ _ h
      by_cases hb : budget < o.length
      · simp only [hb, decide_true, if_true]
        subst hs
        rw [List.append_assoc, take_append_add, List.take_append_of_le_length (by omega)]
        congr 2
        simp
        omega
      · simp only [hb, decide_false, Bool.false_eq_true, if_false]
        have hle : o.length ≤ budget := by omega
        rw [List.take_of_length_le hle, gl hle]
        rw [ih _ _ _ _ _ h]
        simp only [List.length_append]
        have : acc.length + o.length + (budget - o.length) = acc.length + budget := by omega
        simp only [this]

/-- promptness: once a read's inner loop has returned because of the cancellation, neither the
later reads nor the kind of the final error matter. -/
theorem readAllCAux_prompt (T : Table) (lens : List Nat) :
    ∀ (pre : List Bytes) (left : Bytes) (acc : List Out) (budget : Nat) (sent : List Out),
      readAllCAux T lens false pre left acc budget = .ok (sent, true) →
      ∀ (eof : Bool) (later : List Bytes),
        readAllCAux T lens eof (pre ++ later) left acc budget = .ok (sent, true) := by
  intro pre
  induction pre with
  | nil =>
    intro left acc budget sent h
    simp [readAllCAux] at h
  | cons c cs ih =>
    intro left acc budget sent h eof later
    simp only [readAllCAux, List.cons_append] at h ⊢
    split at h
    · cases h
    · rename_i o left' cancelled hd
      cases cancelled with
      | true => simpa using h
      | false =>
        simp only [Bool.false_eq_true, if_false] at h ⊢
        exact ih _ _ _ _ h eof later

end Tea.Input
