import Tea.Proofs.ChunkedRunes
/-
Helper lemmas for C15, events that straddle the buffer boundary: printable padding, then an
event that starts with ESC and is cut by the 256-byte boundary, then a tail.  The first read
emits the padding and holds back the beginning of the event; the second (short) read decodes
the event whole.  Instances: SGR and X10 mouse reports, key sequences of the table.
No property theorems here.
-/
namespace Tea.Input
open Tea Tea.Utf8

/-- one-shot decoding of a whole input: the decode loop with `canHaveMoreData = false` -/
def oneShot (T : Table) (lens : List Nat) (s : Bytes) : Except Panic (List Out × Bytes) :=
  decodeLoop T lens false (s.length + 1) s []

/-! ### printable characters followed by ESC -/

theorem runeLoop_run_esc (more : Bool) (ps : List Nat) (hp : ∀ r ∈ ps, printable r = true) (rest : Bytes) :
    runeLoop false more ((encodeRunes ps ++ 0x1b :: rest).length + 1) (encodeRunes ps ++ 0x1b :: rest) 0 []
      = ((encodeRunes ps).length, ps, false) := by
  rw [runeLoop_runes more _ (0x1b :: rest) ps _ 0 [] hp
    (by have := encodeRunes_length_ge ps; simp only [List.length_append]; omega) (by simp)]
  simp only [Nat.zero_add, List.append_nil]
  have : ∃ f, (encodeRunes ps ++ 0x1b :: rest).length + 1 - ps.length = f + 1 :=
    ⟨(encodeRunes ps ++ 0x1b :: rest).length - ps.length, by
      have := encodeRunes_length_ge ps; simp only [List.length_append]; omega⟩
  obtain ⟨f, hf⟩ := this
  rw [hf]
  simp only [runeLoop]
  have hlt : (encodeRunes ps).length < (encodeRunes ps ++ 0x1b :: rest).length := by
    simp only [List.length_append, List.length_cons]; omega
  rw [if_pos hlt, List.drop_left, decodeRune_enc1 0x1b rest (by omega)]
  simp [runeError, keyUS]

/-- printable characters followed by ESC: one KeyRunes message with exactly the characters,
whatever `more` is (the run is closed by the ESC) -/
theorem detectOneMsg_run_esc (T : Table) (lens : List Nat) (hl : ∀ l ∈ lens, 0 < l) (hT : ControlKeyed T)
    (more : Bool) (ps : List Nat) (hp : ∀ r ∈ ps, printable r = true) (hps : ps ≠ []) (rest : Bytes) :
    detectOneMsg T lens (encodeRunes ps ++ 0x1b :: rest) more =
      .ok ((encodeRunes ps).length, some (.key { type := keyRunes, runes := ps })) := by
  obtain ⟨c, tl, hc, hplain⟩ := encodeRunes_head hp hps
  have hb : encodeRunes ps ++ 0x1b :: rest = c :: (tl ++ 0x1b :: rest) := by rw [hc]; rfl
  rw [hb, detectOneMsg_plain T lens hl hT hplain, detectTail_plain hplain, ← hb, runeLoop_run_esc more ps hp]
  have h1 : ps.length > 0 := List.length_pos_iff.mpr hps
  have h2 : (ps == [32]) = false := by
    cases ps with
    | nil => exact absurd rfl hps
    | cons r rs' =>
      have := (printable_iff.1 (hp r (by simp))).2.1
      simp; intro h; omega
  simp [h1, h2]
  intro h; omega

/-! ### decode loop helpers -/

theorem decodeLoop_held_acc (T : Table) (lens : List Nat) (more : Bool) (b : Bytes) (hb : b ≠ [])
    (h : detectOneMsg T lens b more = .ok (0, none)) (fuel : Nat) (acc : List Out) :
    decodeLoop T lens more (fuel + 1) b acc = .ok (acc.reverse, b) := by
  simp only [decodeLoop]
  have : b.isEmpty = false := by simpa using hb
  rw [this, h]
  simp

/-- normal form of a `more = false` run that continues on `tail` with enough fuel -/
theorem decodeLoop_tail_nf (T : Table) (lens : List Nat) (tail : Bytes) (fuel : Nat) (acc : List Out)
    (hf : tail.length < fuel) (o : List Out) (l : Bytes)
    (h : decodeLoop T lens false (tail.length + 1) tail [] = .ok (o, l)) :
    decodeLoop T lens false fuel tail acc = .ok (acc.reverse ++ o, l) := by
  rw [decodeLoop_fuel T lens false fuel (tail.length + 1) tail acc hf (by omega), decodeLoop_acc, h]

theorem isIncomplete_held (T : Table) (lens : List Nat) (b : Bytes) (h : isIncompleteEvent T b = true) :
    detectOneMsg T lens b true = .ok (0, none) := by
  unfold detectOneMsg
  rw [h]
  simp

theorem readsOf_two (s : Bytes) (h1 : bufSize ≤ s.length) (h2 : s.length < 2 * bufSize) :
    readsOf bufSize s s.length = [s.take bufSize, s.drop bufSize] := by
  unfold bufSize at *
  obtain ⟨f, hf⟩ : ∃ f, s.length = f + 2 := ⟨s.length - 2, by omega⟩
  rw [hf]
  simp only [readsOf]
  rw [if_neg (by omega), if_pos (by rw [List.length_drop]; omega)]

/-! ### the generic straddle -/

/-- printable padding `ps`, an event `ev` (starting with ESC) cut after `k` bytes by the
buffer boundary, a tail.  If the cut beginning of the event is held back when the read filled
the buffer, and one-shot detection takes the event whole, then the two reads emit exactly
what one-shot decoding of the whole input emits. -/
theorem readAll_straddle (T : Table) (lens : List Nat) (hl : ∀ l ∈ lens, 0 < l) (hT : ControlKeyed T)
    (eof : Bool) (ps : List Nat) (hp : ∀ r ∈ ps, printable r = true) (hps : ps ≠ [])
    (ev' tail : Bytes) (k : Nat) (m : Option Msg)
    (hk : 0 < k) (hk' : k < (0x1b :: ev').length)
    (hcut : (encodeRunes ps).length + k = bufSize)
    (hshort : (0x1b :: ev').length - k + tail.length < bufSize)
    (hheld : detectOneMsg T lens ((0x1b :: ev').take k) true = .ok (0, none))
    (hev : detectOneMsg T lens ((0x1b :: ev') ++ tail) false = .ok ((0x1b :: ev').length, m))
    (o : List Out) (l : Bytes)
    (htail : decodeLoop T lens false (tail.length + 1) tail [] = .ok (o, l)) :
    readAll T lens eof
        (readsOf bufSize (encodeRunes ps ++ (0x1b :: ev') ++ tail) (encodeRunes ps ++ (0x1b :: ev') ++ tail).length)
        [] []
      = .ok (runOut ps :: { msg := m, consumed := 0x1b :: ev' } :: o, l) ∧
    oneShot T lens (encodeRunes ps ++ (0x1b :: ev') ++ tail)
      = .ok (runOut ps :: { msg := m, consumed := 0x1b :: ev' } :: o, l) := by
  generalize hevd : (0x1b :: ev') = ev at *
  have hpad : encodeRunes ps ≠ [] := by
    obtain ⟨c, tl, hc, _⟩ := encodeRunes_head hp hps
    rw [hc]; simp
  have hpadlen : 0 < (encodeRunes ps).length := List.length_pos_iff.mpr hpad
  have hevne : ev ≠ [] := by rw [← hevd]; simp
  -- the two chunks
  have hslen : (encodeRunes ps ++ ev ++ tail).length = (encodeRunes ps).length + ev.length + tail.length := by
    simp only [List.length_append]
  have hreads : readsOf bufSize (encodeRunes ps ++ ev ++ tail) (encodeRunes ps ++ ev ++ tail).length
      = [encodeRunes ps ++ ev.take k, ev.drop k ++ tail] := by
    rw [readsOf_two _ (by omega) (by omega)]
    rw [← hcut, List.append_assoc, List.take_length_add_append, List.drop_length_add_append,
      List.take_append_of_le_length (by omega), List.drop_append_of_le_length (by omega)]
  -- first read: the padding is emitted, the beginning of the event is held back
  have hc1len : (encodeRunes ps ++ ev.take k).length = bufSize := by
    rw [List.length_append, List.length_take_of_le (by omega)]; exact hcut
  have htk : ev.take k ≠ [] := by
    intro h
    have := congrArg List.length h
    rw [List.length_take_of_le (by omega)] at this
    simp at this; omega
  have hpadmsg : ∀ (more : Bool) (rest : Bytes), detectOneMsg T lens (encodeRunes ps ++ (ev.take k ++ rest)) more =
      .ok ((encodeRunes ps).length, some (.key { type := keyRunes, runes := ps })) := by
    intro more rest
    obtain ⟨k', rfl⟩ : ∃ k', k = k' + 1 := ⟨k - 1, by omega⟩
    rw [← hevd]
    simp only [List.take_succ_cons, List.cons_append]
    exact detectOneMsg_run_esc T lens hl hT more ps hp hps _
  have h1 : processRead T lens [] (encodeRunes ps ++ ev.take k) = .ok ([runOut ps], ev.take k) := by
    unfold processRead
    have hm : ((encodeRunes ps ++ ev.take k).length == bufSize) = true := by simp [hc1len]
    rw [hm, List.nil_append]
    have := hpadmsg true []
    rw [List.append_nil] at this
    rw [decodeLoop_step T lens true _ (encodeRunes ps) (ev.take k) [] _ hpad this]
    obtain ⟨f, hf⟩ : ∃ f, (encodeRunes ps ++ ev.take k).length = f + 1 := ⟨bufSize - 1, by rw [hc1len]; rfl⟩
    rw [hf, decodeLoop_held_acc T lens true _ htk hheld]
    rfl
  -- second read: the event whole, then the tail
  have h2 : processRead T lens (ev.take k) (ev.drop k ++ tail) = .ok ({ msg := m, consumed := ev } :: o, l) := by
    unfold processRead
    have hm : ((ev.drop k ++ tail).length == bufSize) = false := by
      simp only [List.length_append, List.length_drop, beq_eq_false_iff_ne]; omega
    rw [hm, ← List.append_assoc, List.take_append_drop]
    rw [decodeLoop_step T lens false _ ev tail [] _ hevne hev]
    rw [decodeLoop_tail_nf T lens tail _ _ (by simp only [List.length_append]; omega) o l htail]
    rfl
  have hc2 : (ev.drop k ++ tail).length ≠ bufSize := by
    simp only [List.length_append, List.length_drop]; omega
  refine ⟨?_, ?_⟩
  · rw [hreads, readAll_two T lens eof _ _ [] hc2 _ _ _ _ h1 h2]
    rfl
  · unfold oneShot
    have hpm := hpadmsg false (ev.drop k ++ tail)
    rw [← List.append_assoc (ev.take k), List.take_append_drop] at hpm
    rw [List.append_assoc]
    rw [decodeLoop_step T lens false _ (encodeRunes ps) (ev ++ tail) [] _ hpad hpm]
    obtain ⟨f, hf⟩ : ∃ f, (encodeRunes ps ++ (ev ++ tail)).length = f + 1 :=
      ⟨(encodeRunes ps ++ (ev ++ tail)).length - 1, by simp only [List.length_append]; omega⟩
    rw [hf, decodeLoop_step T lens false _ ev tail _ _ hevne hev]
    rw [decodeLoop_tail_nf T lens tail _ _ (by simp only [List.length_append] at hf; omega) o l htail]
    rfl

/-! ### cut events are held back -/

theorem dropWhile_all {α : Type} (f : α → Bool) : ∀ (p : List α), (∀ c ∈ p, f c = true) → p.dropWhile f = []
  | [], _ => rfl
  | x :: xs, h => by
    rw [List.dropWhile_cons_of_pos (h x (by simp))]
    exact dropWhile_all f xs (fun c hc => h c (by simp [hc]))

/-- `ESC [` followed by parameter bytes only (possibly none): an incomplete CSI sequence -/
theorem isIncompleteEvent_csi_params (T : Table) (p : Bytes) (hp : ∀ c ∈ p, isParam c = true) :
    isIncompleteEvent T (0x1b :: 0x5b :: p) = true := by
  unfold isIncompleteEvent
  simp only [bne_self_eq_false, Bool.false_eq_true, if_false]
  by_cases h1 : isProperPrefixOfKey T (0x1b :: 0x5b :: p) = true
  · rw [if_pos h1]
  · rw [if_neg h1]
    by_cases h2 : (detectReportFocus (0x1b :: 0x5b :: p)).isSome = true
    · rw [if_pos h2]
    · rw [if_neg h2]
      have hd : p.dropWhile isParam = [] := dropWhile_all isParam p hp
      split
      · rename_i tl
        have := hp 0x4d (by simp)
        simp [isParam] at this
      · rw [hd]; rfl

/-- ESC alone at the end of a completely filled buffer is held back when some longer key
sequence starts with ESC -/
theorem isIncompleteEvent_esc (T : Table) (hesc : isProperPrefixOfKey T [0x1b] = true) :
    isIncompleteEvent T [0x1b] = true := by
  unfold isIncompleteEvent
  simp [hesc]

/-- every proper non-empty prefix of `ESC [ params final` is an incomplete event -/
theorem csi_cut_incomplete (T : Table) (hesc : isProperPrefixOfKey T [0x1b] = true)
    (p : Bytes) (hp : ∀ c ∈ p, isParam c = true) (fin : Nat) (k : Nat) (hk : 0 < k)
    (hk' : k < (0x1b :: 0x5b :: (p ++ [fin])).length) :
    isIncompleteEvent T ((0x1b :: 0x5b :: (p ++ [fin])).take k) = true := by
  by_cases h1 : k = 1
  · subst h1
    exact isIncompleteEvent_esc T hesc
  · obtain ⟨j, rfl⟩ : ∃ j, k = j + 2 := ⟨k - 2, by omega⟩
    simp only [List.take_succ_cons]
    have hj : j ≤ p.length := by
      simp only [List.length_cons, List.length_append, List.length_nil] at hk'; omega
    rw [List.take_append_of_le_length hj]
    exact isIncompleteEvent_csi_params T _ (fun c hc => hp c (List.mem_of_mem_take hc))

/-- the SGR mouse report as `ESC [ params final` -/
theorem sgrReport_csi (b x y fin : Nat) :
    Xterm.sgrReport b x y fin =
      0x1b :: 0x5b :: ((0x3c :: (Dec.digits b ++ 59 :: (Dec.digits x ++ 59 :: Dec.digits y))) ++ [fin]) := by
  simp [Xterm.sgrReport]

theorem sgr_params (b x y : Nat) :
    ∀ c ∈ (0x3c :: (Dec.digits b ++ 59 :: (Dec.digits x ++ 59 :: Dec.digits y))), isParam c = true := by
  intro c hc
  have hd : ∀ n, ∀ a ∈ Dec.digits n, isParam a = true :=
    fun n a ha => isParam_of_isDigit (Dec.digits_isDigit n a ha)
  simp only [List.mem_cons, List.mem_append] at hc
  rcases hc with h | h | h | h | h | h
  · subst h; decide
  · exact hd b c h
  · subst h; decide
  · exact hd x c h
  · subst h; decide
  · exact hd y c h

/-- every proper non-empty prefix of an X10 mouse report is an incomplete event -/
theorem x10_cut_incomplete (T : Table) (hesc : isProperPrefixOfKey T [0x1b] = true)
    (cb cx cy : Nat) (k : Nat) (hk : 0 < k) (hk' : k < 6) :
    isIncompleteEvent T ((Xterm.x10Report cb cx cy).take k) = true := by
  have h6 : k = 1 ∨ k = 2 ∨ k = 3 ∨ k = 4 ∨ k = 5 := by omega
  unfold Xterm.x10Report
  rcases h6 with h | h | h | h | h <;> subst h
  · exact isIncompleteEvent_esc T hesc
  · exact isIncompleteEvent_csi_params T [] (by simp)
  all_goals
    simp only [List.take_succ_cons, List.take_zero]
    unfold isIncompleteEvent
    simp only [bne_self_eq_false, Bool.false_eq_true, if_false]
    split
    · rfl
    · split
      · rfl
      · simp

/-- every proper non-empty prefix of a key sequence of the table (starting with ESC) is an
incomplete event -/
theorem key_cut_incomplete (T : Table) (e : Entry) (he : e ∈ T) (ev' : Bytes) (hseq : e.seq = 0x1b :: ev')
    (k : Nat) (hk : 0 < k) (hk' : k < e.seq.length) :
    isIncompleteEvent T (e.seq.take k) = true := by
  have hpp : isProperPrefixOfKey T (e.seq.take k) = true := by
    unfold isProperPrefixOfKey
    rw [List.any_eq_true]
    refine ⟨e, he, ?_⟩
    simp only [Bool.and_eq_true, decide_eq_true_eq]
    exact ⟨by rw [List.length_take_of_le (by omega)]; exact hk', isPrefix_iff.2 (List.take_prefix k _)⟩
  obtain ⟨j, rfl⟩ : ∃ j, k = j + 1 := ⟨k - 1, by omega⟩
  rw [hseq] at hpp ⊢
  simp only [List.take_succ_cons] at hpp ⊢
  unfold isIncompleteEvent
  simp [hpp]

/-- a bracketed paste `start marker ++ payload ++ end marker` as `ESC :: _` -/
theorem paste_event_cons (p : Bytes) :
    bpStart ++ p ++ bpEnd = 0x1b :: ([0x5b, 0x32, 0x30, 0x30, 0x7e] ++ p ++ bpEnd) := rfl

/-- every proper non-empty prefix of a whole bracketed paste is held back when the read
filled the buffer: inside the start marker it is an incomplete CSI sequence, after it the
paste is unterminated -/
theorem paste_cut_held (T : Table) (lens : List Nat) (hesc : isProperPrefixOfKey T [0x1b] = true)
    (p : Bytes) (hp : ¬ bpEnd <:+: p) (k : Nat) (hk : 0 < k) (hk' : k < (bpStart ++ p ++ bpEnd).length) :
    detectOneMsg T lens ((bpStart ++ p ++ bpEnd).take k) true = .ok (0, none) := by
  by_cases h6 : k < 6
  · have hb : bpStart = 0x1b :: 0x5b :: ([0x32, 0x30, 0x30] ++ [0x7e]) := rfl
    rw [List.append_assoc, List.take_append_of_le_length (by simp [bpStart]; omega), hb]
    exact isIncomplete_held T lens _
      (csi_cut_incomplete T hesc [0x32, 0x30, 0x30] (by decide) 0x7e k hk (by simpa using h6))
  · obtain ⟨j, rfl⟩ : ∃ j, k = bpStart.length + j := ⟨k - 6, by simp [bpStart]; omega⟩
    rw [List.append_assoc, List.take_length_add_append]
    by_cases hinc : isIncompleteEvent T (bpStart ++ (p ++ bpEnd).take j) = true
    · exact isIncomplete_held T lens _ hinc
    · have hq : ¬ bpEnd <:+: (p ++ bpEnd).take j := by
        apply no_bpEnd_in_proper_prefix p _ hp (List.take_prefix _ _)
        intro he
        have := congrArg List.length he
        rw [List.length_take] at this
        simp only [List.length_append] at hk' this
        omega
      rw [detectOneMsg_bpStart T lens _ true (Or.inr (by simpa using hinc)),
        (indexOf_eq_none_iff bpEnd _).2 hq]

/-! ### concrete data for the examples of C15 -/

/-- a small table (the up-arrow key) that satisfies the table hypotheses of the C15 theorems -/
def T0 : Table := [{ seq := [27, 91, 65], key := { type := -2 } }]

/-- malformed input: 247 letters, then `ESC [ < a 1 ; 2 ;` up to the 256-byte boundary, then
`3 M` in the second read -/
def malformed : Bytes :=
  List.replicate 247 0x61 ++ [0x1b, 0x5b, 0x3c, 0x61, 0x31, 0x3b, 0x32, 0x3b, 0x33, 0x4d]

end Tea.Input
