import Tea.Render.Tty
/-
Helper lemmas for the termios parts of C05 / C17 (Tea/Render/Tty.lean).

Plan: on a terminal, the state of a running program is `taken raw s = {cur := raw s, saved := some s}`
and that of a released one `released s = {cur := s, saved := some s}`. `exec` maps both to
`taken raw s`, `releaseOnly` both to `released s`, `restoreOnly` maps `released s` to `taken raw s`
but `taken raw s` to `taken raw (raw s)` - the saved state is overwritten by the raw one.
`restoreInput` maps both to `released s` and is idempotent. When the input is not a terminal
every function is the identity.
-/
namespace Tea.Render
variable {σ : Type}

/-- a program that owns the terminal: raw mode, the earlier settings `s` remembered -/
def taken (raw : σ → σ) (s : σ) : TtyState σ := { cur := raw s, saved := some s, isTty := true }

/-- a program that has released the terminal: the settings `s` are back (and still remembered) -/
def released (s : σ) : TtyState σ := { cur := s, saved := some s, isTty := true }

/-! ## 1. single calls -/

theorem initInput_fresh (raw : σ → σ) (s : σ) : initInput raw (ttyFresh true s) = taken raw s := rfl

theorem initInput_released (raw : σ → σ) (s : σ) : initInput raw (released s) = taken raw s := rfl

theorem initInput_taken (raw : σ → σ) (s : σ) : initInput raw (taken raw s) = taken raw (raw s) := rfl

theorem restoreInput_taken (raw : σ → σ) (s : σ) : restoreInput (taken raw s) = released s := rfl

theorem restoreInput_released (s : σ) : restoreInput (released s) = released s := rfl

/-- before `initInput` (or after a failed MakeRaw) nothing is remembered and nothing is restored -/
theorem restoreInput_fresh (isTty : Bool) (s : σ) :
    restoreInput (ttyFresh isTty s) = ttyFresh isTty s := by
  cases isTty <;> rfl

theorem initInput_notTty (raw : σ → σ) (t : TtyState σ) (h : t.isTty = false) :
    initInput raw t = t := by
  simp [initInput, h]

theorem restoreInput_notTty (t : TtyState σ) (h : t.isTty = false) : restoreInput t = t := by
  obtain ⟨c, sv, b⟩ := t
  cases h
  rfl

/-- restoring twice is restoring once, in every state -/
theorem restoreInput_idem (t : TtyState σ) : restoreInput (restoreInput t) = restoreInput t := by
  obtain ⟨c, sv, b⟩ := t
  cases b <;> cases sv <;> rfl

theorem ttyExit_eq (t : TtyState σ) (k : ExitKind) : ttyExit t k = restoreInput t := by
  cases k <;> simp [ttyExit, restoreInput_idem]

theorem ttyExit_taken (raw : σ → σ) (s : σ) (k : ExitKind) : ttyExit (taken raw s) k = released s := by
  rw [ttyExit_eq, restoreInput_taken]

theorem ttyExit_released (s : σ) (k : ExitKind) : ttyExit (released s) k = released s := by
  rw [ttyExit_eq, restoreInput_released]

/-! ## 2. single events -/

theorem ttyStep_exec_taken (raw : σ → σ) (s : σ) : ttyStep raw (taken raw s) .exec = taken raw s := rfl

theorem ttyStep_exec_released (raw : σ → σ) (s : σ) : ttyStep raw (released s) .exec = taken raw s := rfl

theorem ttyStep_release_taken (raw : σ → σ) (s : σ) :
    ttyStep raw (taken raw s) .releaseOnly = released s := rfl

theorem ttyStep_release_released (raw : σ → σ) (s : σ) :
    ttyStep raw (released s) .releaseOnly = released s := rfl

theorem ttyStep_restore_released (raw : σ → σ) (s : σ) :
    ttyStep raw (released s) .restoreOnly = taken raw s := rfl

/-- RestoreTerminal on a terminal that was not released: the raw settings are remembered -/
theorem ttyStep_restore_taken (raw : σ → σ) (s : σ) :
    ttyStep raw (taken raw s) .restoreOnly = taken raw (raw s) := rfl

theorem ttyDuring_exec_taken (raw : σ → σ) (s : σ) : ttyDuring (taken raw s) .exec = [s] := rfl

theorem ttyStep_notTty (raw : σ → σ) (t : TtyState σ) (e : TtyEvent) (h : t.isTty = false) :
    ttyStep raw t e = t := by
  cases e <;> simp [ttyStep, restoreInput_notTty, initInput_notTty, h]

/-! ## 3. lists of events -/

theorem ttyEvents_append (raw : σ → σ) (t : TtyState σ) (a b : List TtyEvent) :
    ttyEvents raw t (a ++ b) = ttyEvents raw (ttyEvents raw t a) b := by
  induction a generalizing t with
  | nil => rfl
  | cons e es ih => simp [ttyEvents, ih]

/-- any number of execs from a running program: the state does not move, every command finds `s`,
and between the commands the settings are `raw s` -/
theorem execs_taken (raw : σ → σ) (s : σ) (evs : List TtyEvent) (h : ∀ e ∈ evs, e = .exec) :
    ttyEvents raw (taken raw s) evs = taken raw s ∧
    ttyDuringAll raw (taken raw s) evs = List.replicate evs.length s ∧
    ttyBetweenAll raw (taken raw s) evs = List.replicate evs.length (raw s) := by
  induction evs with
  | nil => exact ⟨rfl, rfl, rfl⟩
  | cons e es ih =>
    have he : e = .exec := h e (List.mem_cons_self ..)
    obtain ⟨h1, h2, h3⟩ := ih (fun x hx => h x (List.mem_cons_of_mem _ hx))
    subst he
    refine ⟨?_, ?_, ?_⟩
    · rw [ttyEvents, ttyStep_exec_taken, h1]
    · rw [ttyDuringAll, ttyStep_exec_taken, ttyDuring_exec_taken, h2]; rfl
    · rw [ttyBetweenAll, ttyStep_exec_taken, h3]; rfl

/-- the state in which a history of alternating releases and restores leaves the program -/
def phase (raw : σ → σ) (s : σ) : Bool → TtyState σ
  | true => released s
  | false => taken raw s

/-- histories in which releases and restores alternate keep the FIRST settings remembered -/
theorem alternating_phase (raw : σ → σ) (s : σ) (evs : List TtyEvent) (rel : Bool)
    (h : alternating rel evs = true) :
    ∃ rel', ttyEvents raw (phase raw s rel) evs = phase raw s rel' := by
  induction evs generalizing rel with
  | nil => exact ⟨rel, rfl⟩
  | cons e es ih =>
    cases e with
    | exec =>
      have hs : ttyStep raw (phase raw s rel) .exec = phase raw s false := by cases rel <;> rfl
      rw [ttyEvents, hs]
      exact ih false (by cases rel <;> simpa [alternating] using h)
    | releaseOnly =>
      have hs : ttyStep raw (phase raw s rel) .releaseOnly = phase raw s true := by cases rel <;> rfl
      rw [ttyEvents, hs]
      exact ih true (by cases rel <;> simpa [alternating] using h)
    | restoreOnly =>
      cases rel with
      | false => simp [alternating] at h
      | true =>
        have hs : ttyStep raw (phase raw s true) .restoreOnly = phase raw s false := rfl
        rw [ttyEvents, hs]
        exact ih false (by simpa [alternating] using h)

theorem ttyExit_phase (raw : σ → σ) (s : σ) (rel : Bool) (k : ExitKind) :
    ttyExit (phase raw s rel) k = released s := by
  cases rel
  · exact ttyExit_taken raw s k
  · exact ttyExit_released s k

/-- a history without `restoreOnly` alternates, whatever the phase it starts in -/
theorem alternating_of_no_restoreOnly (evs : List TtyEvent) (rel : Bool)
    (h : ∀ e ∈ evs, e ≠ .restoreOnly) : alternating rel evs = true := by
  induction evs generalizing rel with
  | nil => cases rel <;> rfl
  | cons e es ih =>
    have he := h e (List.mem_cons_self ..)
    have ht := fun r => ih r (fun x hx => h x (List.mem_cons_of_mem _ hx))
    cases e with
    | exec => cases rel <;> simpa [alternating] using ht false
    | releaseOnly => cases rel <;> simpa [alternating] using ht true
    | restoreOnly => exact absurd rfl he

/-- when the input is not a terminal no event changes anything, and every command finds the
settings as they are -/
theorem events_notTty (raw : σ → σ) (t : TtyState σ) (evs : List TtyEvent) (h : t.isTty = false) :
    ttyEvents raw t evs = t ∧
    (∀ x ∈ ttyDuringAll raw t evs, x = t.cur) ∧
    (∀ x ∈ ttyBetweenAll raw t evs, x = t.cur) := by
  induction evs with
  | nil => exact ⟨rfl, by simp [ttyDuringAll], by simp [ttyBetweenAll]⟩
  | cons e es ih =>
    obtain ⟨h1, h2, h3⟩ := ih
    refine ⟨?_, ?_, ?_⟩
    · rw [ttyEvents, ttyStep_notTty raw t e h, h1]
    · intro x hx
      rw [ttyDuringAll, ttyStep_notTty raw t e h, List.mem_append] at hx
      rcases hx with hx | hx
      · cases e <;> simp [ttyDuring, restoreInput_notTty, h] at hx
        exact hx
      · exact h2 x hx
    · intro x hx
      rw [ttyBetweenAll, ttyStep_notTty raw t e h, List.mem_cons] at hx
      rcases hx with hx | hx
      · exact hx
      · exact h3 x hx

end Tea.Render
