import Tea.Runtime.LifeAccept
/-
SOUNDNESS of the trace-acceptance checker `Tea.Runtime.LifeAccept`: whenever the checker accepts a
recorded history, the Lifecycle LTS has a run from Run's entry (`init0 c`) whose observable history
is exactly that list of observations, with only hidden labels in between.

Nothing here looks inside `step`: the lemmas about the closure are stated for an arbitrary
transition function `stp : σ → ι → Option σ` and instantiated; the rest uses `step` only through
`runLabels`.  Nothing depends on the hash set either (no lawfulness of `BEq St` / `Hashable St` is
needed): the hash set only decides which states are skipped.
-/
namespace Tea.Runtime.Life

/-! ## an arbitrary transition function -/
section Generic
variable {σ ι : Type}

/-- `runLabels` for an arbitrary transition function -/
def runG (stp : σ → ι → Option σ) (s : σ) : List ι → Option σ
  | [] => some s
  | l :: ls => match stp s l with
    | some s' => runG stp s' ls
    | none => none

theorem runG_append (stp : σ → ι → Option σ) {s s1 s2 : σ} {ls ms : List ι}
    (h1 : runG stp s ls = some s1) (h2 : runG stp s1 ms = some s2) : runG stp s (ls ++ ms) = some s2 := by
  induction ls generalizing s with
  | nil => simp only [runG, Option.some.injEq] at h1; subst h1; simpa using h2
  | cons l ls ih =>
    simp only [runG, List.cons_append] at h1 ⊢
    cases h : stp s l with
    | none => simp [h] at h1
    | some t => simp only [h] at h1 ⊢; exact ih h1

theorem runG_snoc (stp : σ → ι → Option σ) {s s1 s2 : σ} {ls : List ι} {l : ι}
    (h1 : runG stp s ls = some s1) (h2 : stp s1 l = some s2) : runG stp s (ls ++ [l]) = some s2 :=
  runG_append stp h1 (by simp [runG, h2])

/-- `s'` is reached from a state of `ss` along labels of `hid` -/
def HReachG (stp : σ → ι → Option σ) (hid : List ι) (ss : List σ) (s' : σ) : Prop :=
  ∃ s, s ∈ ss ∧ ∃ ls, runG stp s ls = some s' ∧ ∀ l, l ∈ ls → l ∈ hid

theorem HReachG.base {stp : σ → ι → Option σ} {hid : List ι} {ss : List σ} {s : σ} (h : s ∈ ss) :
    HReachG stp hid ss s :=
  ⟨s, h, [], rfl, by simp⟩

theorem HReachG.step {stp : σ → ι → Option σ} {hid : List ι} {ss : List σ} {s s' : σ} {l : ι}
    (h : HReachG stp hid ss s) (hl : l ∈ hid) (hs : stp s l = some s') : HReachG stp hid ss s' := by
  obtain ⟨s0, h0, ls, hr, hh⟩ := h
  refine ⟨s0, h0, ls ++ [l], runG_snoc stp hr hs, ?_⟩
  intro l' hl'
  rcases List.mem_append.1 hl' with h | h
  · exact hh _ h
  · simp only [List.mem_singleton] at h; subst h; exact hl

variable [BEq σ] [Hashable σ]

/-- everything the work lists hold satisfies `P` -/
def Work.Good (P : σ → Prop) (w : Work σ) : Prop :=
  (∀ s, s ∈ w.all → P s) ∧ (∀ s, s ∈ w.next → P s)

theorem Work.Good.visit {P : σ → Prop} {w : Work σ} (hw : w.Good P) {s' : σ} (hs : P s') : (w.visit s').Good P := by
  unfold Work.visit
  split
  · exact hw
  · refine ⟨?_, ?_⟩
    · intro s h
      rcases List.mem_cons.1 h with h | h
      · subst h; exact hs
      · exact hw.1 _ h
    · intro s h
      rcases List.mem_cons.1 h with h | h
      · subst h; exact hs
      · exact hw.2 _ h

/-- one round keeps an invariant that the hidden steps keep -/
theorem expand_good (stp : σ → ι → Option σ) (hid : List ι) (P : σ → Prop)
    (hP : ∀ s l s', P s → l ∈ hid → stp s l = some s' → P s')
    (frontier : List σ) (w : Work σ) (hw : w.Good P) (hf : ∀ s, s ∈ frontier → P s) :
    (expand stp hid w frontier).Good P := by
  unfold expand
  induction frontier generalizing w with
  | nil => exact hw
  | cons s fr ih =>
    simp only [List.foldl_cons]
    apply ih
    · have hs : P s := hf s (List.mem_cons_self ..)
      -- the inner fold, over any part of `hid`
      have inner : ∀ (ls : List ι) (w : Work σ), (∀ l, l ∈ ls → l ∈ hid) → w.Good P →
          (ls.foldl (fun w l => match stp s l with | some s' => w.visit s' | none => w) w).Good P := by
        intro ls
        induction ls with
        | nil => intro w _ hw; exact hw
        | cons l ls ih2 =>
          intro w hsub hw
          simp only [List.foldl_cons]
          apply ih2
          · intro l' hl'; exact hsub l' (List.mem_cons_of_mem _ hl')
          · cases h : stp s l with
            | none => exact hw
            | some s' => exact hw.visit (hP s l s' hs (hsub l (List.mem_cons_self ..)) h)
      exact inner hid w (fun _ h => h) hw
    · intro s' h; exact hf s' (List.mem_cons_of_mem _ h)

/-- the closure keeps an invariant that the hidden steps keep -/
theorem closureG_good (stp : σ → ι → Option σ) (hid : List ι) (P : σ → Prop)
    (hP : ∀ s l s', P s → l ∈ hid → stp s l = some s' → P s')
    (fuel : Nat) (seen : Std.HashSet σ) (all frontier : List σ)
    (ha : ∀ s, s ∈ all → P s) (hf : ∀ s, s ∈ frontier → P s) :
    ∀ s, s ∈ closureG stp hid fuel seen all frontier → P s := by
  induction fuel generalizing seen all frontier with
  | zero => simpa [closureG] using ha
  | succ fuel ih =>
    simp only [closureG]
    split
    · exact ha
    · have hw : (expand stp hid ⟨seen, all, []⟩ frontier).Good P :=
        expand_good stp hid P hP frontier ⟨seen, all, []⟩ ⟨ha, by simp⟩ hf
      exact ih _ _ _ hw.1 hw.2

/-- the states `closeSetG` starts from are states of `ss` -/
theorem initWork_good (P : σ → Prop) (ss : List σ) (w : Work σ) (hw : w.Good P) (hs : ∀ s, s ∈ ss → P s) :
    (ss.foldl Work.visit w).Good P := by
  induction ss generalizing w with
  | nil => exact hw
  | cons s ss ih =>
    simp only [List.foldl_cons]
    exact ih _ (hw.visit (hs s (List.mem_cons_self ..))) (fun s' h => hs s' (List.mem_cons_of_mem _ h))

/-- `closeSetG` keeps an invariant that the hidden steps keep -/
theorem closeSetG_good (stp : σ → ι → Option σ) (hid : List ι) (P : σ → Prop)
    (hP : ∀ s l s', P s → l ∈ hid → stp s l = some s' → P s') (ss : List σ) (hs : ∀ s, s ∈ ss → P s) :
    ∀ s, s ∈ closeSetG stp hid ss → P s := by
  have hw : (ss.foldl Work.visit (⟨{}, [], []⟩ : Work σ)).Good P :=
    initWork_good P ss _ ⟨by simp, by simp⟩ hs
  exact closureG_good stp hid P hP _ _ _ _ hw.1 hw.2

/-- GENERIC closure soundness: every state of `closeSetG stp hid ss` is reached from a state of `ss`
along labels of `hid` -/
theorem closeSetG_sound (stp : σ → ι → Option σ) (hid : List ι) (ss : List σ) :
    ∀ s', s' ∈ closeSetG stp hid ss → HReachG stp hid ss s' :=
  closeSetG_good stp hid (HReachG stp hid ss) (fun _ _ _ h hl hs => h.step hl hs) ss (fun _ h => HReachG.base h)

/-- the first state of `ss` is kept: the closure of a non-empty list is non-empty -/
theorem closeSetG_ne_nil (stp : σ → ι → Option σ) (hid : List ι) {ss : List σ} (h : ss ≠ []) :
    closeSetG stp hid ss ≠ [] := by
  -- `all` only grows
  have visit_all : ∀ (w : Work σ) (s : σ), w.all ≠ [] → (w.visit s).all ≠ [] := by
    intro w s hw; unfold Work.visit; split
    · exact hw
    · simp
  have fold_visit : ∀ (ls : List σ) (w : Work σ), w.all ≠ [] → (ls.foldl Work.visit w).all ≠ [] := by
    intro ls; induction ls with
    | nil => intro w hw; exact hw
    | cons s ls ih => intro w hw; simp only [List.foldl_cons]; exact ih _ (visit_all w s hw)
  have expand_all : ∀ (fr : List σ) (w : Work σ), w.all ≠ [] → (expand stp hid w fr).all ≠ [] := by
    intro fr; unfold expand; induction fr with
    | nil => intro w hw; exact hw
    | cons s fr ih =>
      intro w hw
      simp only [List.foldl_cons]
      apply ih
      have inner : ∀ (ls : List ι) (w : Work σ), w.all ≠ [] →
          (ls.foldl (fun w l => match stp s l with | some s' => w.visit s' | none => w) w).all ≠ [] := by
        intro ls; induction ls with
        | nil => intro w hw; exact hw
        | cons l ls ih2 =>
          intro w hw; simp only [List.foldl_cons]; apply ih2
          cases stp s l with
          | none => exact hw
          | some s' => exact visit_all w s' hw
      exact inner hid w hw
  have closure_all : ∀ (fuel : Nat) (seen : Std.HashSet σ) (all fr : List σ), all ≠ [] →
      closureG stp hid fuel seen all fr ≠ [] := by
    intro fuel; induction fuel with
    | zero => intro seen all fr ha; simpa [closureG] using ha
    | succ fuel ih =>
      intro seen all fr ha
      simp only [closureG]
      split
      · exact ha
      · exact ih _ _ _ (expand_all fr ⟨seen, all, []⟩ ha)
  cases ss with
  | nil => exact absurd rfl h
  | cons s ss =>
    unfold closeSetG
    apply closure_all
    simp only [List.foldl_cons]
    apply fold_visit
    simp [Work.visit]

end Generic

/-! ## the Lifecycle LTS -/

theorem runLabels_eq_runG (s : St) (ls : List Label) : runLabels s ls = runG step s ls := by
  induction ls generalizing s with
  | nil => rfl
  | cons l ls ih =>
    simp only [runLabels, runG]
    cases step s l with
    | none => rfl
    | some s' => exact ih s'

theorem runSeq_eq_runLabels (s : St) (ls : List Label) : runSeq s ls = runLabels s ls := by
  induction ls generalizing s with
  | nil => rfl
  | cons l ls ih =>
    simp only [runLabels, runSeq]
    cases step s l with
    | none => rfl
    | some s' => exact ih s'

theorem runLabels_append_la {s s1 s2 : St} {ls ms : List Label}
    (h1 : runLabels s ls = some s1) (h2 : runLabels s1 ms = some s2) : runLabels s (ls ++ ms) = some s2 := by
  rw [runLabels_eq_runG] at *
  exact runG_append step h1 h2

/-- every state a label list leads to is a reachable state -/
theorem Reachable.runLabels {c : Config} {s s' : St} {ls : List Label}
    (hs : Reachable c s) (h : runLabels s ls = some s') : Reachable c s' := by
  induction ls generalizing s with
  | nil => simp only [Life.runLabels, Option.some.injEq] at h; subst h; exact hs
  | cons l ls ih =>
    simp only [Life.runLabels] at h
    cases hl : Life.step s l with
    | none => simp [hl] at h
    | some t => simp only [hl] at h; exact ih (Reachable.step l hs hl) h

/-- `s'` is reached from `s` by hidden labels only -/
def HiddenPath (hid : List Label) (s s' : St) : Prop :=
  ∃ ls, runLabels s ls = some s' ∧ ∀ l, l ∈ ls → l ∈ hid

/-- the label sequences ONE observation stands for, in state `s` -/
def Obs.Alt (o : Obs) (s : St) (ls : List Label) : Prop :=
  match o with
  | .lab l => ls = [l]
  | .alts as orIf => ls ∈ as ∨ (ls = [] ∧ orIf s = true)
  | .elExited => ls = [] ∧ ∃ c, s.el = .exited c
  | .shCancelBy k => ls = [.killCall, .shCancel (some k)] ∧ s.killers.length = k

/-- 1. `s'` is reached from `s` by the labels of one alternative of `o` followed by hidden labels -/
def Explains (hid : List Label) (s s' : St) (o : Obs) : Prop :=
  ∃ (ls hs : List Label), o.Alt s ls ∧ (∀ l, l ∈ hs → l ∈ hid) ∧ runLabels s (ls ++ hs) = some s'

/-- the observable projection of a run: `Run hid s obs s'` = the LTS goes from `s` to `s'` and the trace
points see exactly `obs` on the way (each observation: one of its alternatives, then hidden labels) -/
inductive Run (hid : List Label) : St → List Obs → St → Prop where
  | nil (s : St) : Run hid s [] s
  | cons {s s1 s' : St} {o : Obs} {os : List Obs} : Explains hid s s1 o → Run hid s1 os s' → Run hid s (o :: os) s'

/-- 2. every state of `closeSet hid ss` is reached from a state of `ss` by hidden labels -/
theorem closure_sound (hid : List Label) (ss : List St) :
    ∀ s', s' ∈ closeSet hid ss → ∃ s, s ∈ ss ∧ ∃ ls, runLabels s ls = some s' ∧ ∀ l, l ∈ ls → l ∈ hid := by
  intro s' h
  obtain ⟨s, hs, ls, hr, hh⟩ := closeSetG_sound step hid ss s' h
  exact ⟨s, hs, ls, by rw [runLabels_eq_runG]; exact hr, hh⟩

theorem closeSet_ne_nil (hid : List Label) {ss : List St} (h : ss ≠ []) : closeSet hid ss ≠ [] :=
  closeSetG_ne_nil step hid h

/-- 3. every state `advance` keeps is explained by a state it started from -/
theorem advance_sound (hid : List Label) (ss : List St) (o : Obs) :
    ∀ s', s' ∈ advance hid ss o → ∃ s, s ∈ ss ∧ Explains hid s s' o := by
  intro s' h
  unfold advance at h
  obtain ⟨s1, h1, hs, hr, hh⟩ := closure_sound hid _ s' h
  -- it is enough to find the alternative that led to `s1`
  suffices hmid : ∃ s, s ∈ ss ∧ ∃ ls, o.Alt s ls ∧ runLabels s ls = some s1 by
    obtain ⟨s, hs0, ls, halt, hrun⟩ := hmid
    exact ⟨s, hs0, ls, hs, halt, hh, runLabels_append_la hrun hr⟩
  unfold observe at h1
  cases o with
  | lab l =>
    simp only [List.mem_filterMap] at h1
    obtain ⟨s, hs0, hstep⟩ := h1
    exact ⟨s, hs0, [l], rfl, by simp [runLabels, hstep]⟩
  | alts as orIf =>
    simp only [List.mem_flatMap, List.mem_append, List.mem_filterMap] at h1
    obtain ⟨s, hs0, h1 | ⟨ls, hls, hrun⟩⟩ := h1
    · by_cases hor : orIf s = true
      · simp only [hor, if_true, List.mem_singleton] at h1
        subst h1
        exact ⟨s1, hs0, [], Or.inr ⟨rfl, hor⟩, rfl⟩
      · simp [hor] at h1
    · exact ⟨s, hs0, ls, Or.inl hls, by rw [← runSeq_eq_runLabels]; exact hrun⟩
  | elExited =>
    simp only [List.mem_filter] at h1
    obtain ⟨hs0, hel⟩ := h1
    refine ⟨s1, hs0, [], ⟨rfl, ?_⟩, rfl⟩
    cases hc : s1.el with
    | exited c => exact ⟨c, rfl⟩
    | _ => simp [hc] at hel
  | shCancelBy k =>
    simp only [List.mem_flatMap] at h1
    obtain ⟨s, hs0, h1⟩ := h1
    by_cases hk : s.killers.length = k
    · simp only [hk, if_true, Option.mem_toList] at h1
      exact ⟨s, hs0, _, ⟨rfl, hk⟩, by rw [← runSeq_eq_runLabels]; exact h1⟩
    · simp [hk] at h1

/-- 4. if every observation is explained (`acceptsFrom … = none`), the LTS has a run from a state of `ss`
whose observable projection is `obs` -/
theorem accepts_sound (hid : List Label) (ss : List St) (obs : List Obs) (i : Nat)
    (hne : ss ≠ []) (h : acceptsFrom hid ss obs i = none) :
    ∃ s0, s0 ∈ ss ∧ ∃ sN, Run hid s0 obs sN := by
  induction obs generalizing ss i with
  | nil =>
    cases ss with
    | nil => exact absurd rfl hne
    | cons s ss => exact ⟨s, List.mem_cons_self .., s, Run.nil s⟩
  | cons o os ih =>
    unfold acceptsFrom at h
    split at h
    · simp at h
    · rename_i hadv
      obtain ⟨s1, hs1, sN, hrun⟩ := ih _ _ (fun he => hadv he) h
      obtain ⟨s, hs, hex⟩ := advance_sound hid ss o s1 hs1
      exact ⟨s, hs, sN, Run.cons hex hrun⟩

/-- every prefix of an accepted history has a non-empty set of compatible states -/
theorem accepts_prefix (hid : List Label) (ss : List St) (obs pre suf : List Obs) (i : Nat)
    (hobs : obs = pre ++ suf) (h : acceptsFrom hid ss obs i = none) :
    acceptsFrom hid ss pre i = none := by
  subst hobs
  induction pre generalizing ss i with
  | nil => simp [acceptsFrom]
  | cons o os ih =>
    simp only [List.cons_append] at h
    unfold acceptsFrom at h ⊢
    split at h
    · simp at h
    · exact ih _ _ h

/-- a run with an observable projection is a run of the LTS -/
theorem Run.labels {hid : List Label} {s s' : St} {obs : List Obs} (h : Run hid s obs s') :
    ∃ ls, runLabels s ls = some s' := by
  induction h with
  | nil s => exact ⟨[], rfl⟩
  | cons hex _ ih =>
    obtain ⟨ls, hs, _, _, hrun⟩ := hex
    obtain ⟨ms, hms⟩ := ih
    exact ⟨(ls ++ hs) ++ ms, runLabels_append_la hrun hms⟩

/-- the same, for any set of hidden labels (the driver hides the Send calls of its spare senders as well) -/
theorem accepted_sound (hid : List Label) (c : Config) (obs : List Obs)
    (h : acceptsFrom hid (closeSet hid [init0 c]) obs 0 = none) :
    ∃ s0 s', HiddenPath hid (init0 c) s0 ∧ Run hid s0 obs s' := by
  have hne : closeSet hid [init0 c] ≠ [] := closeSet_ne_nil _ (by simp)
  obtain ⟨s0, hs0, sN, hrun⟩ := accepts_sound _ _ obs 0 hne h
  obtain ⟨s, hs, ls, hr, hh⟩ := closure_sound _ _ s0 hs0
  simp only [List.mem_singleton] at hs
  subst hs
  exact ⟨s0, sN, ⟨ls, hr, hh⟩, hrun⟩

/-- 5. an accepted history is the observable history of a run of the Lifecycle LTS that begins where Run
is entered (`init0 c`, then hidden labels only) -/
theorem firstRejected_sound (c : Config) (obs : List Obs) (h : firstRejected c obs = none) :
    ∃ s0 s', HiddenPath (hiddenLabels c.senders.length) (init0 c) s0 ∧
      Run (hiddenLabels c.senders.length) s0 obs s' :=
  accepted_sound _ c obs h

/-- … and all its states are reachable states of the model (the theorems about `Reachable c` apply) -/
theorem accepted_reachable (hid : List Label) (c : Config) (obs : List Obs)
    (h : acceptsFrom hid (closeSet hid [init0 c]) obs 0 = none) :
    ∃ s0 s', Reachable c s0 ∧ Reachable c s' ∧ Run hid s0 obs s' := by
  obtain ⟨s0, s', ⟨ls, hr, _⟩, hrun⟩ := accepted_sound hid c obs h
  have h0 : Reachable c s0 := Reachable.runLabels Reachable.init0 hr
  obtain ⟨ms, hms⟩ := hrun.labels
  exact ⟨s0, s', h0, Reachable.runLabels h0 hms, hrun⟩

theorem firstRejected_reachable (c : Config) (obs : List Obs) (h : firstRejected c obs = none) :
    ∃ s0 s', Reachable c s0 ∧ Reachable c s' ∧ Run (hiddenLabels c.senders.length) s0 obs s' :=
  accepted_reachable _ c obs h

/-- `rejectedAt` (what the driver of the `ltrace` stream calls) is `acceptsFrom` with a count next to the index -/
theorem rejectedAt_fst (hid : List Label) (ss : List St) (obs : List Obs) (i : Nat) :
    (rejectedAt hid ss obs i).map (·.1) = acceptsFrom hid ss obs i := by
  induction obs generalizing ss i with
  | nil => rfl
  | cons o os ih =>
    unfold rejectedAt acceptsFrom
    split
    · rfl
    · exact ih _ _

/-- the driver's answer `accepted` (`firstRejectedWith hid c obs = none`) is sound -/
theorem firstRejectedWith_sound (hid : List Label) (c : Config) (obs : List Obs)
    (h : firstRejectedWith hid c obs = none) :
    ∃ s0 s', HiddenPath hid (init0 c) s0 ∧ Reachable c s0 ∧ Reachable c s' ∧ Run hid s0 obs s' := by
  have h' : acceptsFrom hid (closeSet hid [init0 c]) obs 0 = none := by
    rw [← rejectedAt_fst]; unfold firstRejectedWith at h; rw [h]; rfl
  obtain ⟨s0, s', hp, hrun⟩ := accepted_sound hid c obs h'
  have ⟨ls, hr, _⟩ := hp
  have h0 : Reachable c s0 := Reachable.runLabels Reachable.init0 hr
  obtain ⟨ms, hms⟩ := hrun.labels
  exact ⟨s0, s', hp, h0, Reachable.runLabels h0 hms, hrun⟩

/-! ## completeness, as long as the fuel does not run out

Not needed for the correspondence argument (a rejected history is looked at by a person), but it
says what a rejection means: if every closure along the way TERMINATED within `closureFuel` rounds
(`closeDone` / `fuelOK`, decidable, computed next to the checker), the checker accepts every
history the model has.  This half needs `==` on states to be equality (`LawfulBEq`): the hash set
now has to be right about what it has seen.
-/
section GenericComplete
variable {σ ι : Type}

/-- did the closure stop because nothing new was found (and not because the fuel ran out)? -/
def closureDoneG [BEq σ] [Hashable σ] (stp : σ → ι → Option σ) (hid : List ι) :
    Nat → Std.HashSet σ → List σ → List σ → Bool
  | 0, _, _, frontier => frontier.isEmpty
  | fuel + 1, seen, all, frontier =>
    if frontier.isEmpty then true else
    let w := expand stp hid ⟨seen, all, []⟩ frontier
    closureDoneG stp hid fuel w.seen w.all w.next

def closeDoneG [BEq σ] [Hashable σ] (stp : σ → ι → Option σ) (hid : List ι) (ss : List σ) : Bool :=
  let w : Work σ := ss.foldl Work.visit ⟨{}, [], []⟩
  closureDoneG stp hid closureFuel w.seen w.all w.next

/-- `L` is closed under the steps of `hid` -/
def ClosedG (stp : σ → ι → Option σ) (hid : List ι) (L : List σ) : Prop :=
  ∀ s l s', s ∈ L → l ∈ hid → stp s l = some s' → s' ∈ L

theorem ClosedG.reach {stp : σ → ι → Option σ} {hid : List ι} {L : List σ} (hL : ClosedG stp hid L)
    {s s' : σ} {ls : List ι} (hs : s ∈ L) (hr : runG stp s ls = some s') (hh : ∀ l, l ∈ ls → l ∈ hid) : s' ∈ L := by
  induction ls generalizing s with
  | nil => simp only [runG, Option.some.injEq] at hr; subst hr; exact hs
  | cons l ls ih =>
    simp only [runG] at hr
    cases h : stp s l with
    | none => simp [h] at hr
    | some t =>
      simp only [h] at hr
      exact ih (hL s l t hs (hh l (List.mem_cons_self ..)) h) hr (fun l' hl' => hh l' (List.mem_cons_of_mem _ hl'))

/-- a fold whose steps keep an invariant `I`, move along a preorder `R`, and establish `Q x` (kept along `R`)
for the element `x` they handle -/
theorem foldl_inv {α β : Type} (f : β → α → β) (I : β → Prop) (R : β → β → Prop) (Q : α → β → Prop)
    (rrefl : ∀ w, R w w) (rtrans : ∀ a b c, R a b → R b c → R a c)
    (hI : ∀ w x, I w → I (f w x)) (hR : ∀ w x, I w → R w (f w x))
    (hQ : ∀ w x, I w → Q x (f w x)) (hmono : ∀ x w w', R w w' → Q x w → Q x w')
    (xs : List α) (w : β) (hw : I w) :
    I (xs.foldl f w) ∧ R w (xs.foldl f w) ∧ ∀ x, x ∈ xs → Q x (xs.foldl f w) := by
  induction xs generalizing w with
  | nil => exact ⟨hw, rrefl w, by simp⟩
  | cons x xs ih =>
    simp only [List.foldl_cons]
    obtain ⟨h1, h2, h3⟩ := ih (f w x) (hI w x hw)
    refine ⟨h1, rtrans _ _ _ (hR w x hw) h2, ?_⟩
    intro y hy
    rcases List.mem_cons.1 hy with hy | hy
    · subst hy; exact hmono _ _ _ h2 (hQ w y hw)
    · exact h3 y hy

variable [BEq σ] [Hashable σ]

/-- the hash set knows only states of the list -/
def Work.Sync (w : Work σ) : Prop := ∀ s, w.seen.contains s = true → s ∈ w.all

/-- `w'` extends `w`: both lists grow, and what is new in `all` is in `next` -/
def Work.Ext (w w' : Work σ) : Prop :=
  (∀ s, s ∈ w.all → s ∈ w'.all) ∧ (∀ s, s ∈ w.next → s ∈ w'.next) ∧ (∀ s, s ∈ w'.all → s ∈ w.all ∨ s ∈ w'.next)

theorem Work.Ext.refl (w : Work σ) : w.Ext w := ⟨fun _ h => h, fun _ h => h, fun _ h => Or.inl h⟩

theorem Work.Ext.trans (a b c : Work σ) (h1 : a.Ext b) (h2 : b.Ext c) : a.Ext c := by
  refine ⟨fun s h => h2.1 s (h1.1 s h), fun s h => h2.2.1 s (h1.2.1 s h), ?_⟩
  intro s h
  rcases h2.2.2 s h with h | h
  · rcases h1.2.2 s h with h | h
    · exact Or.inl h
    · exact Or.inr (h2.2.1 s h)
  · exact Or.inr h

theorem Work.ext_visit (w : Work σ) (s' : σ) : w.Ext (w.visit s') := by
  unfold Work.visit
  split
  · exact Work.Ext.refl w
  · refine ⟨fun s h => List.mem_cons_of_mem _ h, fun s h => List.mem_cons_of_mem _ h, ?_⟩
    intro s h
    rcases List.mem_cons.1 h with h | h
    · subst h; exact Or.inr (List.mem_cons_self ..)
    · exact Or.inl h

theorem Work.mem_visit (w : Work σ) (s' : σ) (hw : w.Sync) : s' ∈ (w.visit s').all := by
  unfold Work.visit
  split
  · rename_i h; exact hw s' h
  · exact List.mem_cons_self ..

variable [LawfulBEq σ]

theorem Work.sync_visit (w : Work σ) (s' : σ) (hw : w.Sync) : (w.visit s').Sync := by
  unfold Work.visit
  split
  · exact hw
  · intro s hs
    simp only [Std.HashSet.contains_insert, Bool.or_eq_true, beq_iff_eq] at hs
    rcases hs with hs | hs
    · subst hs; exact List.mem_cons_self ..
    · exact List.mem_cons_of_mem _ (hw s hs)

/-- one state of the frontier: all its `hid` successors are recorded -/
theorem expandOne_spec (stp : σ → ι → Option σ) (hid : List ι) (s : σ) (w : Work σ) (hw : w.Sync) :
    let w' := hid.foldl (fun w l => match stp s l with | some s' => w.visit s' | none => w) w
    w'.Sync ∧ w.Ext w' ∧ ∀ l, l ∈ hid → ∀ s', stp s l = some s' → s' ∈ w'.all := by
  apply foldl_inv (fun (w : Work σ) (l : ι) => match stp s l with | some s' => w.visit s' | none => w)
    Work.Sync Work.Ext (fun l w => ∀ s', stp s l = some s' → s' ∈ w.all) Work.Ext.refl Work.Ext.trans
  · intro w l hw
    cases stp s l with
    | none => exact hw
    | some s' => exact w.sync_visit s' hw
  · intro w l _
    cases stp s l with
    | none => exact Work.Ext.refl w
    | some s' => exact w.ext_visit s'
  · intro w l hw s' h
    simp only [h]
    exact w.mem_visit s' hw
  · intro l w w' hext hq s' h
    exact hext.1 _ (hq s' h)
  · exact hw

/-- one round: the successors of every state of the frontier are recorded -/
theorem expand_spec (stp : σ → ι → Option σ) (hid : List ι) (frontier : List σ) (w : Work σ) (hw : w.Sync) :
    (expand stp hid w frontier).Sync ∧ w.Ext (expand stp hid w frontier) ∧
      ∀ s, s ∈ frontier → ∀ l, l ∈ hid → ∀ s', stp s l = some s' → s' ∈ (expand stp hid w frontier).all := by
  unfold expand
  apply foldl_inv
    (fun (w : Work σ) (s : σ) => hid.foldl (fun w l => match stp s l with | some s' => w.visit s' | none => w) w)
    Work.Sync Work.Ext (fun s w => ∀ l, l ∈ hid → ∀ s', stp s l = some s' → s' ∈ w.all) Work.Ext.refl Work.Ext.trans
  · intro w s hw; exact (expandOne_spec stp hid s w hw).1
  · intro w s hw; exact (expandOne_spec stp hid s w hw).2.1
  · intro w s hw; exact (expandOne_spec stp hid s w hw).2.2
  · intro s w w' hext hq l hl s' h
    exact hext.1 _ (hq l hl s' h)
  · exact hw

/-- every state found so far is still in the frontier or has all its `hid` successors found -/
def Pending (stp : σ → ι → Option σ) (hid : List ι) (all frontier : List σ) : Prop :=
  ∀ s, s ∈ all → s ∈ frontier ∨ ∀ l, l ∈ hid → ∀ s', stp s l = some s' → s' ∈ all

/-- if the closure stopped by itself, its result contains what it started from and is closed under `hid` -/
theorem closureG_closed (stp : σ → ι → Option σ) (hid : List ι)
    (fuel : Nat) (seen : Std.HashSet σ) (all frontier : List σ)
    (hsync : (⟨seen, all, []⟩ : Work σ).Sync) (hpend : Pending stp hid all frontier)
    (hdone : closureDoneG stp hid fuel seen all frontier = true) :
    (∀ s, s ∈ all → s ∈ closureG stp hid fuel seen all frontier) ∧
      ClosedG stp hid (closureG stp hid fuel seen all frontier) := by
  have stop : frontier.isEmpty = true → ClosedG stp hid all := by
    intro he s l s' hs hl hstep
    rcases hpend s hs with h | h
    · rw [List.isEmpty_iff] at he; subst he; simp at h
    · exact h l hl s' hstep
  induction fuel generalizing seen all frontier with
  | zero =>
    simp only [closureDoneG] at hdone
    simp only [closureG]
    exact ⟨fun _ h => h, stop hdone⟩
  | succ fuel ih =>
    simp only [closureG]
    simp only [closureDoneG] at hdone
    split
    · rename_i he; exact ⟨fun _ h => h, stop he⟩
    · rename_i he
      simp only [he] at hdone
      obtain ⟨h1, h2, h3⟩ := expand_spec stp hid frontier ⟨seen, all, []⟩ hsync
      have hpend' : Pending stp hid (expand stp hid ⟨seen, all, []⟩ frontier).all
          (expand stp hid ⟨seen, all, []⟩ frontier).next := by
        intro s hs
        rcases h2.2.2 s hs with h | h
        · rcases hpend s h with hf | hsucc
          · exact Or.inr (h3 s hf)
          · exact Or.inr (fun l hl s' hstep => h2.1 _ (hsucc l hl s' hstep))
        · exact Or.inl h
      have hstop' : (expand stp hid ⟨seen, all, []⟩ frontier).next.isEmpty = true →
          ClosedG stp hid (expand stp hid ⟨seen, all, []⟩ frontier).all := by
        intro he s l s' hs hl hstep
        rcases hpend' s hs with h | h
        · rw [List.isEmpty_iff] at he; rw [he] at h; simp at h
        · exact h l hl s' hstep
      obtain ⟨r1, r2⟩ := ih _ _ _ h1 hpend' hdone hstop'
      exact ⟨fun s h => r1 s (h2.1 s h), r2⟩

theorem closeSetG_closed (stp : σ → ι → Option σ) (hid : List ι) (ss : List σ)
    (hdone : closeDoneG stp hid ss = true) :
    (∀ s, s ∈ ss → s ∈ closeSetG stp hid ss) ∧ ClosedG stp hid (closeSetG stp hid ss) := by
  obtain ⟨h1, h2, h3⟩ := foldl_inv (fun (w : Work σ) (s : σ) => w.visit s) Work.Sync Work.Ext (fun s w => s ∈ w.all)
    Work.Ext.refl Work.Ext.trans (fun w s hw => w.sync_visit s hw) (fun w s _ => w.ext_visit s)
    (fun w s hw => w.mem_visit s hw) (fun s w w' hext h => hext.1 s h) ss ⟨{}, [], []⟩
    (by intro s h; simp at h)
  have hpend : Pending stp hid (ss.foldl Work.visit (⟨{}, [], []⟩ : Work σ)).all
      (ss.foldl Work.visit (⟨{}, [], []⟩ : Work σ)).next := by
    intro s hs
    rcases h2.2.2 s hs with h | h
    · simp at h
    · exact Or.inl h
  obtain ⟨r1, r2⟩ := closureG_closed stp hid closureFuel _ _ _ h1 hpend hdone
  exact ⟨fun s h => r1 s (h3 s h), r2⟩

/-- GENERIC closure completeness: if the closure stopped by itself, it holds every state reached from `ss`
along labels of `hid` -/
theorem closeSetG_complete (stp : σ → ι → Option σ) (hid : List ι) (ss : List σ)
    (hdone : closeDoneG stp hid ss = true) :
    ∀ s', HReachG stp hid ss s' → s' ∈ closeSetG stp hid ss := by
  intro s' ⟨s, hs, ls, hr, hh⟩
  obtain ⟨h1, h2⟩ := closeSetG_closed stp hid ss hdone
  exact h2.reach (h1 s hs) hr hh

end GenericComplete

deriving instance ReflBEq, LawfulBEq for St

/-- the closure of `ss` stopped by itself -/
def closeDone (hid : List Label) (ss : List St) : Bool := closeDoneG step hid ss

/-- every closure the checker computes on `obs` stopped by itself -/
def fuelOK (hid : List Label) : List St → List Obs → Bool
  | _, [] => true
  | ss, o :: os => closeDone hid (observe ss o) && fuelOK hid (advance hid ss o) os

theorem runLabels_split_la {s s' : St} {ls ms : List Label} (h : runLabels s (ls ++ ms) = some s') :
    ∃ s1, runLabels s ls = some s1 ∧ runLabels s1 ms = some s' := by
  induction ls generalizing s with
  | nil => exact ⟨s, rfl, by simpa using h⟩
  | cons l ls ih =>
    simp only [List.cons_append, runLabels] at h ⊢
    cases hl : step s l with
    | none => simp [hl] at h
    | some t => simp only [hl] at h ⊢; exact ih h

theorem closure_complete (hid : List Label) (ss : List St) (hdone : closeDone hid ss = true)
    {s s' : St} {ls : List Label} (hs : s ∈ ss) (hr : runLabels s ls = some s') (hh : ∀ l, l ∈ ls → l ∈ hid) :
    s' ∈ closeSet hid ss :=
  closeSetG_complete step hid ss hdone s' ⟨s, hs, ls, by rw [← runLabels_eq_runG]; exact hr, hh⟩

theorem advance_complete (hid : List Label) (ss : List St) (o : Obs) (hdone : closeDone hid (observe ss o) = true)
    {s s' : St} (hs : s ∈ ss) (hex : Explains hid s s' o) : s' ∈ advance hid ss o := by
  obtain ⟨ls, hs', halt, hh, hrun⟩ := hex
  obtain ⟨s1, hr1, hr2⟩ := runLabels_split_la hrun
  refine closure_complete hid _ hdone (s := s1) ?_ hr2 hh
  unfold observe
  cases o with
  | lab l =>
    simp only [Obs.Alt] at halt
    subst halt
    simp only [runLabels] at hr1
    simp only [List.mem_filterMap]
    refine ⟨s, hs, ?_⟩
    cases hl : step s l with
    | none => simp [hl] at hr1
    | some t => simpa [hl] using hr1
  | alts as orIf =>
    simp only [List.mem_flatMap, List.mem_append, List.mem_filterMap]
    refine ⟨s, hs, ?_⟩
    rcases halt with halt | ⟨hnil, hor⟩
    · exact Or.inr ⟨ls, halt, by rw [runSeq_eq_runLabels]; exact hr1⟩
    · subst hnil
      simp only [runLabels, Option.some.injEq] at hr1
      subst hr1
      exact Or.inl (by simp [hor])
  | elExited =>
    obtain ⟨hnil, c, hc⟩ := halt
    subst hnil
    simp only [runLabels, Option.some.injEq] at hr1
    subst hr1
    simp only [List.mem_filter]
    exact ⟨hs, by simp [hc]⟩
  | shCancelBy k =>
    obtain ⟨hls, hk⟩ := halt
    subst hls
    simp only [List.mem_flatMap]
    refine ⟨s, hs, ?_⟩
    simp only [hk, if_true, Option.mem_toList]
    rw [runSeq_eq_runLabels]; exact hr1

/-- COMPLETENESS under the fuel condition: a history the model has (from a state the checker starts with) is
accepted, provided no closure on the way ran out of fuel -/
theorem accepts_complete (hid : List Label) (ss : List St) (obs : List Obs) (i : Nat)
    {s0 sN : St} (hs0 : s0 ∈ ss) (hrun : Run hid s0 obs sN) (hfuel : fuelOK hid ss obs = true) :
    acceptsFrom hid ss obs i = none := by
  induction hrun generalizing ss i with
  | nil s => simp [acceptsFrom]
  | cons hex _ ih =>
    simp only [fuelOK, Bool.and_eq_true] at hfuel
    have hmem := advance_complete hid ss _ hfuel.1 hs0 hex
    unfold acceptsFrom
    split
    · rename_i he; rw [he] at hmem; simp at hmem
    · exact ih _ _ hmem hfuel.2

theorem firstRejected_complete (c : Config) (obs : List Obs) {s0 s' : St}
    (hpath : HiddenPath (hiddenLabels c.senders.length) (init0 c) s0)
    (hrun : Run (hiddenLabels c.senders.length) s0 obs s')
    (hdone : closeDone (hiddenLabels c.senders.length) [init0 c] = true)
    (hfuel : fuelOK (hiddenLabels c.senders.length) (closeSet (hiddenLabels c.senders.length) [init0 c]) obs = true) :
    firstRejected c obs = none := by
  obtain ⟨ls, hr, hh⟩ := hpath
  unfold firstRejected
  exact accepts_complete _ _ obs 0 (closure_complete _ _ hdone (List.mem_singleton.2 rfl) hr hh) hrun hfuel

end Tea.Runtime.Life
