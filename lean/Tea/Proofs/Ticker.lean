import Tea.Render.Ticker
namespace Tea.Render.Ticker

theorem count_set_from_select (l : List LPc) (i : Nat) (x : LPc) (hx : x ≠ .atSelect)
    (h : l[i]? = some .atSelect) :
    ((l.set i x).filter (· == .atSelect)).length + 1 = (l.filter (· == .atSelect)).length := by
  induction l generalizing i with
  | nil => simp at h
  | cons a l ih =>
    cases i with
    | zero =>
      simp only [List.getElem?_cons_zero, Option.some.injEq] at h
      subst h
      cases x <;> simp_all
    | succ i =>
      simp only [List.getElem?_cons_succ] at h
      have := ih i h
      simp only [List.set_cons_succ, List.filter_cons]
      split <;> simp_all <;> omega

theorem count_set_other (l : List LPc) (i : Nat) (x y : LPc) (hx : x ≠ .atSelect) (hy : y ≠ .atSelect)
    (h : l[i]? = some y) :
    ((l.set i x).filter (· == .atSelect)).length = (l.filter (· == .atSelect)).length := by
  induction l generalizing i with
  | nil => simp at h
  | cons a l ih =>
    cases i with
    | zero =>
      simp only [List.getElem?_cons_zero, Option.some.injEq] at h
      subst h
      cases x <;> cases a <;> simp_all
    | succ i =>
      simp only [List.getElem?_cons_succ] at h
      have := ih i h
      simp only [List.set_cons_succ, List.filter_cons]
      split <;> simp_all

/-- the invariant of the repaired handshake -/
def Inv (s : St) : Prop :=
  (s.listening = true → s.tickerOn = true) ∧ waiting s = (if s.listening then 1 else 0)

theorem inv_init : Inv {} := by simp [Inv, waiting]

theorem inv_step (s s' : St) (l : Label) (hi : Inv s) (h : stepNew s l = some s') : Inv s' := by
  obtain ⟨h1, h2⟩ := hi
  cases l with
  | start =>
    simp only [stepNew, Option.some.injEq] at h
    subst h
    unfold startStep
    split
    · rename_i hl; simp_all [Inv, waiting]
    · rename_i hl
      simp only [Bool.not_eq_true] at hl
      simp only [Inv, waiting, hl] at h2 ⊢
      simp_all
  | halt i =>
    simp only [stepNew] at h
    split at h
    · rename_i hc
      simp only [Option.some.injEq] at h; subst h
      have := count_set_from_select s.listeners i .gotStop (by decide) hc.2
      simp only [Inv, waiting, hc.1] at h2 ⊢
      simp_all
    · simp at h
  | after i =>
    simp only [stepNew] at h
    split at h
    · rename_i hc
      simp only [Option.some.injEq] at h; subst h
      have := count_set_other s.listeners i .gone .gotStop (by decide) (by decide) hc
      simp only [Inv, waiting] at h2 ⊢
      exact ⟨h1, by rw [this]; exact h2⟩
    · simp at h
  | tick i =>
    simp only [stepNew, tickStep] at h
    split at h
    · simp only [Option.some.injEq] at h; subst h; exact ⟨h1, h2⟩
    · simp at h

theorem inv_reach (s : St) (h : Reach stepNew s) : Inv s := by
  induction h with
  | init => exact inv_init
  | step l _ hs ih => exact inv_step _ _ l ih hs

theorem exists_waiting (l : List LPc) (h : (l.filter (· == .atSelect)).length = 1) :
    ∃ i : Nat, l[i]? = some LPc.atSelect := by
  induction l with
  | nil => simp at h
  | cons a l ih =>
    by_cases ha : a = .atSelect
    · exact ⟨0, by simp [ha]⟩
    · have : (l.filter (· == .atSelect)).length = 1 := by
        simp only [List.filter_cons] at h
        split at h
        · rename_i hc; simp at hc; exact absurd hc ha
        · exact h
      obtain ⟨i, hi⟩ := ih this
      exact ⟨i + 1, by simpa using hi⟩

end Tea.Render.Ticker
