import Tea.Proofs.TermLift
/-
Nothing is ever written outside the window rectangle: while the cursor is inside the window
(row `< top + h`, column `< w`) every terminal operation keeps it there, `putChar` writes only
at the cursor, EL / ED only blank cells, and a scroll only moves the window down the tape.  So
"every cell below the bottom of the window or right of its last column is blank" (`OutsideBlank`)
is an invariant of `applyBuf`.  Used for the alt screen, where a resize (`Term.resize`) may bring
such cells back into the window.
-/
namespace Tea.VT
open Tea

/-- every cell outside the window rectangle (below its bottom row, or right of its last column)
is blank -/
def OutsideBlank (w h : Nat) (b : Buf) : Prop :=
  ∀ ρ c, (b.top + h ≤ ρ ∨ w ≤ c) → b.cells ρ c = 32

/-- the cursor is inside the window rectangle and everything outside the rectangle is blank -/
structure WinInv (w h : Nat) (b : Buf) : Prop where
  row : b.cr < b.top + h
  col : b.cc < w
  out : OutsideBlank w h b

/-- how `OutsideBlank` is carried from `b` to `b'`: the window only moved down, and every cell
is unchanged, blank, or inside the window -/
theorem OutsideBlank.of {w h : Nat} {b b' : Buf} (hb : OutsideBlank w h b) (htop : b.top ≤ b'.top)
    (hcells : ∀ ρ c, b'.cells ρ c = b.cells ρ c ∨ b'.cells ρ c = 32 ∨ (ρ < b'.top + h ∧ c < w)) :
    OutsideBlank w h b' := by
  intro ρ c hρc
  rcases hcells ρ c with e | e | ⟨e1, e2⟩
  · rw [e]; exact hb ρ c (by omega)
  · exact e
  · omega

theorem lineFeed_winInv (w h : Nat) (b : Buf) (hb : WinInv w h b) : WinInv w h (lineFeed h b) := by
  obtain ⟨h1, h2, h3⟩ := hb
  unfold lineFeed
  split
  · exact ⟨by show b.cr + 1 < b.top + 1 + h; omega, h2,
      h3.of (by show b.top ≤ b.top + 1; omega) (fun _ _ => Or.inl rfl)⟩
  · exact ⟨by show b.cr + 1 < b.top + h; omega, h2, h3⟩

theorem putChar_winInv (w h : Nat) (hw1 : 1 ≤ w) (b : Buf) (ch : Nat) (hb : WinInv w h b) :
    WinInv w h (putChar w h b ch) := by
  have h1 : WinInv w h (if b.pw then lineFeed h { b with cc := 0, pw := false } else b) := by
    split
    · exact lineFeed_winInv w h _ ⟨hb.row, by show 0 < w; omega, hb.out⟩
    · exact hb
  unfold putChar
  generalize (if b.pw then lineFeed h { b with cc := 0, pw := false } else b) = b1 at h1
  obtain ⟨q1, q2, q3⟩ := h1
  have hout : OutsideBlank w h (b1.setCell b1.cr b1.cc ch) := by
    refine q3.of (Nat.le_refl _) ?_
    intro ρ c
    show (if ρ = b1.cr ∧ c = b1.cc then ch else b1.cells ρ c) = _ ∨ _
    by_cases hc : ρ = b1.cr ∧ c = b1.cc
    · right; right
      obtain ⟨e1, e2⟩ := hc
      subst e1 e2
      exact ⟨q1, q2⟩
    · left; rw [if_neg hc]
  simp only []
  split
  · exact ⟨q1, q2, hout⟩
  · rename_i hlt
    exact ⟨q1, by show b1.cc + 1 < w; simp only [Buf.setCell] at hlt; omega, hout⟩

theorem text_winInv (w h : Nat) (hw1 : 1 ≤ w) (s : Bytes) : ∀ (b : Buf), WinInv w h b →
    WinInv w h (s.foldl (putChar w h) b) := by
  induction s with
  | nil => intro b hb; exact hb
  | cons x s ih => intro b hb; exact ih _ (putChar_winInv w h hw1 b x hb)

theorem cupRow_winInv (w h : Nat) (hw1 : 1 ≤ w) (hh1 : 1 ≤ h) (b : Buf) (row : Nat)
    (hb : OutsideBlank w h b) : WinInv w h (cupRow h b row) := by
  refine ⟨?_, by show 0 < w; omega, hb⟩
  show b.top + (if row < 1 then 1 else if row > h then h else row) - 1 < b.top + h
  split
  · omega
  · split <;> omega

/-- while the cursor is inside the window, no operation writes outside it (and the cursor stays
inside) -/
theorem applyBuf_winInv (w h : Nat) (hw1 : 1 ≤ w) (hh1 : 1 ≤ h) (b : Buf) (op : TermOp)
    (hb : WinInv w h b) : WinInv w h (applyBuf w h b op) := by
  obtain ⟨h1, h2, h3⟩ := hb
  cases op with
  | text s => exact text_winInv w h hw1 _ b ⟨h1, h2, h3⟩
  | cr => exact ⟨h1, by show 0 < w; omega, h3⟩
  | lf => exact lineFeed_winInv w h _ ⟨h1, h2, h3⟩
  | cuu n =>
    refine ⟨?_, h2, h3⟩
    show (if b.cr - countOr1 n < b.top then b.top else b.cr - countOr1 n) < b.top + h
    split <;> omega
  | cub n => exact ⟨h1, by show b.cc - countOr1 n < w; omega, h3⟩
  | home => exact cupRow_winInv w h hw1 hh1 b 1 h3
  | cup row => exact cupRow_winInv w h hw1 hh1 b row h3
  | el0 =>
    refine ⟨h1, h2, h3.of (Nat.le_refl _) ?_⟩
    intro ρ c
    rw [applyBuf_el0_cells]
    split
    · right; left; rfl
    · left; rfl
  | el2 =>
    refine ⟨h1, h2, h3.of (Nat.le_refl _) ?_⟩
    intro ρ c
    rw [applyBuf_el2_cells]
    split
    · right; left; rfl
    · left; rfl
  | ed0 =>
    refine ⟨h1, h2, h3.of (Nat.le_refl _) ?_⟩
    intro ρ c
    rw [applyBuf_ed0_cells]
    split
    · right; left; rfl
    · split
      · right; left; rfl
      · left; rfl
  | ed2 =>
    refine ⟨h1, h2, h3.of (Nat.le_refl _) ?_⟩
    intro ρ c
    rw [applyBuf_ed2_cells]
    split
    · right; left; rfl
    · left; rfl
  | decset n => exact ⟨h1, h2, h3⟩
  | decrst n => exact ⟨h1, h2, h3⟩
  | title s => exact ⟨h1, h2, h3⟩

theorem applyBufs_winInv (w h : Nat) (hw1 : 1 ≤ w) (hh1 : 1 ≤ h) (ops : List TermOp) :
    ∀ (b : Buf), WinInv w h b → WinInv w h (applyBufs w h b ops) := by
  induction ops with
  | nil => intro b hb; exact hb
  | cons op ops ih => intro b hb; exact ih _ (applyBuf_winInv w h hw1 hh1 b op hb)

/-- HOME followed by any buffer operations on the alt screen: whatever the cursor position was,
the cells outside the window rectangle stay blank -/
theorem applyOps_home_outside (rest : List TermOp) (t : Term) (hon : t.onAlt = true)
    (hall : ∀ op ∈ rest, isBufOp op = true) (hw1 : 1 ≤ t.w) (hh1 : 1 ≤ t.h)
    (hout : OutsideBlank t.w t.h t.alt) :
    OutsideBlank t.w t.h (applyOps t (.home :: rest)).alt := by
  obtain ⟨_, _, a3, a4, _, _⟩ := applyOps_bufOps (.home :: rest) t (by
    intro op hop
    rcases List.mem_cons.1 hop with rfl | hop
    · rfl
    · exact hall op hop)
  have hon' : (applyOps t (.home :: rest)).onAlt = true := by rw [a3, hon]
  have e1 : (applyOps t (.home :: rest)).buf = (applyOps t (.home :: rest)).alt := by
    simp [Term.buf, hon']
  have e2 : t.buf = t.alt := by simp [Term.buf, hon]
  rw [e1, e2, applyBufs_cons] at a4
  obtain ⟨c1, c2, _, _, _⟩ := a4
  have hw := applyBufs_winInv t.w t.h hw1 hh1 rest _ (cupRow_winInv t.w t.h hw1 hh1 t.alt 1 hout)
  intro ρ c hρc
  rw [c1]
  rw [c2] at hρc
  exact hw.out ρ c hρc

end Tea.VT
