import Tea.Proofs.Paint
/-
From `applyOps` on a `Term` to `applyBufs` on its active buffer.  `Term.setBuf`
updates the ghost field `used` after every operation, so the two agree only on
the visible fields (`Buf.sim`): cells, top, cr, cc, pw.
-/
namespace Tea.VT
open Tea

/-- two buffers agree on everything a terminal operation can observe -/
def Buf.sim (a b : Buf) : Prop :=
  a.cells = b.cells ∧ a.top = b.top ∧ a.cr = b.cr ∧ a.cc = b.cc ∧ a.pw = b.pw

theorem Buf.sim_refl (a : Buf) : a.sim a := ⟨rfl, rfl, rfl, rfl, rfl⟩

/-- operations that act on the active buffer only (everything but modes and the title) -/
def isBufOp : TermOp → Bool
  | .decset _ => false
  | .decrst _ => false
  | .title _ => false
  | _ => true

theorem putChar_sim (w h : Nat) (a b : Buf) (ch : Nat) (hs : a.sim b) :
    (putChar w h a ch).sim (putChar w h b ch) := by
  obtain ⟨ac, atop, acr, acc, apw, _, _, _, _⟩ := a
  obtain ⟨bc, btop, bcr, bcc, bpw, _, _, _, _⟩ := b
  simp only [Buf.sim] at hs
  obtain ⟨rfl, rfl, rfl, rfl, rfl⟩ := hs
  cases apw
  all_goals simp only [putChar, lineFeed, Buf.setCell, Buf.sim]
  all_goals (repeat' split)
  all_goals simp

theorem text_sim (w h : Nat) (s : Bytes) : ∀ (a b : Buf), a.sim b →
    (s.foldl (putChar w h) a).sim (s.foldl (putChar w h) b) := by
  induction s with
  | nil => intro a b hs; exact hs
  | cons x s ih => intro a b hs; exact ih _ _ (putChar_sim w h a b x hs)

theorem applyBuf_sim (w h : Nat) (a b : Buf) (op : TermOp) (hs : a.sim b) :
    (applyBuf w h a op).sim (applyBuf w h b op) := by
  cases op with
  | text s => exact text_sim w h (Ansi.visible s) a b hs
  | _ =>
    obtain ⟨ac, atop, acr, acc, apw, _, _, _, _⟩ := a
    obtain ⟨bc, btop, bcr, bcc, bpw, _, _, _, _⟩ := b
    simp only [Buf.sim] at hs
    obtain ⟨rfl, rfl, rfl, rfl, rfl⟩ := hs
    simp only [applyBuf, lineFeed, cupRow, Buf.eraseCols, Buf.eraseRows, Buf.sim]
    all_goals (repeat' split)
    all_goals simp

theorem applyBufs_sim (w h : Nat) (ops : List TermOp) : ∀ (a b : Buf), a.sim b →
    (applyBufs w h a ops).sim (applyBufs w h b ops) := by
  induction ops with
  | nil => intro a b hs; exact hs
  | cons x s ih => intro a b hs; exact ih _ _ (applyBuf_sim w h a b x hs)

theorem setBuf_facts (t : Term) (b : Buf) :
    (t.setBuf b).w = t.w ∧ (t.setBuf b).h = t.h ∧ (t.setBuf b).onAlt = t.onAlt ∧
    (t.setBuf b).buf.sim b ∧
    (t.onAlt = true → (t.setBuf b).main = t.main) ∧ (t.onAlt = false → (t.setBuf b).alt = t.alt) := by
  unfold Term.setBuf Term.buf
  cases h : t.onAlt <;> simp [Buf.sim]

theorem apply_bufOp (t : Term) (op : TermOp) (hop : isBufOp op = true) :
    (apply t op).w = t.w ∧ (apply t op).h = t.h ∧ (apply t op).onAlt = t.onAlt ∧
    (apply t op).buf.sim (applyBuf t.w t.h t.buf op) ∧
    (t.onAlt = true → (apply t op).main = t.main) ∧ (t.onAlt = false → (apply t op).alt = t.alt) := by
  cases op <;> first | (simp [isBufOp] at hop; done) | exact setBuf_facts t _

theorem applyOps_cons (t : Term) (op : TermOp) (ops : List TermOp) :
    applyOps t (op :: ops) = applyOps (apply t op) ops := rfl

@[simp] theorem applyOps_nil (t : Term) : applyOps t [] = t := rfl

/-- a list of buffer operations acts on the active buffer as `applyBufs` does (up to the ghost
field), and leaves the size, the active-screen flag and the other buffer alone -/
theorem applyOps_bufOps (ops : List TermOp) : ∀ (t : Term), (∀ op ∈ ops, isBufOp op = true) →
    (applyOps t ops).w = t.w ∧ (applyOps t ops).h = t.h ∧ (applyOps t ops).onAlt = t.onAlt ∧
    (applyOps t ops).buf.sim (applyBufs t.w t.h t.buf ops) ∧
    (t.onAlt = true → (applyOps t ops).main = t.main) ∧
    (t.onAlt = false → (applyOps t ops).alt = t.alt) := by
  induction ops with
  | nil => intro t _; exact ⟨rfl, rfl, rfl, Buf.sim_refl _, fun _ => rfl, fun _ => rfl⟩
  | cons op ops ih =>
    intro t hall
    obtain ⟨a1, a2, a3, a4, a5, a6⟩ := apply_bufOp t op (hall op (by simp))
    obtain ⟨b1, b2, b3, b4, b5, b6⟩ := ih (apply t op) (fun o ho => hall o (by simp [ho]))
    rw [applyOps_cons]
    refine ⟨by rw [b1, a1], by rw [b2, a2], by rw [b3, a3], ?_, ?_, ?_⟩
    · rw [a1, a2] at b4
      obtain ⟨c1, c2, c3, c4, c5⟩ := applyBufs_sim t.w t.h ops _ _ a4
      obtain ⟨d1, d2, d3, d4, d5⟩ := b4
      exact ⟨d1.trans c1, d2.trans c2, d3.trans c3, d4.trans c4, d5.trans c5⟩
    · intro h; rw [b5 (by rw [a3]; exact h), a5 h]
    · intro h; rw [b6 (by rw [a3]; exact h), a6 h]

theorem applyOps_append (t : Term) (o1 o2 : List TermOp) :
    applyOps t (o1 ++ o2) = applyOps (applyOps t o1) o2 := by
  simp [applyOps, List.foldl_append]

end Tea.VT
