import Tea.Input.Reader
/-
Helper lemmas about the input-decoder model (no property theorems here).
-/
namespace Tea.Input
open Tea

theorem idx_ok_of_lt {b : Bytes} {i : Nat} (h : i < b.length) : idx b i = .ok b[i] := by
  simp [idx, List.getElem?_eq_getElem h]

theorem parseX10_ok {b : Bytes} (h : 6 ≤ b.length) : ∃ m, parseX10 b = .ok m := by
  unfold parseX10
  rw [idx_ok_of_lt (by omega : 3 < b.length), idx_ok_of_lt (by omega : 4 < b.length),
      idx_ok_of_lt (by omega : 5 < b.length)]
  exact ⟨_, rfl⟩

theorem parseSGR_ok_of_find {b : Bytes} {r} (h : sgrFind (b.drop 3) = some r) :
    ∃ m, parseSGR b = .ok m := by
  unfold parseSGR
  rw [h]
  exact ⟨_, rfl⟩

theorem detectMouse_ok (b : Bytes) : ∃ r, detectMouse b = .ok r := by
  unfold detectMouse
  split
  · rename_i hlen
    split
    · obtain ⟨m, hm⟩ := parseX10_ok (b := _) hlen
      rw [hm]; exact ⟨_, rfl⟩
    · rename_i rest
      split
      · rename_i off m hf
        obtain ⟨ev, hev⟩ := parseSGR_ok_of_find (b := 0x1b :: 0x5b :: 0x3c :: rest) (r := (off, m)) (by simpa using hf)
        rw [hev]; exact ⟨_, rfl⟩
      · exact ⟨_, rfl⟩
    · exact ⟨_, rfl⟩
  · exact ⟨_, rfl⟩

end Tea.Input

namespace Tea.Dec
open Tea

theorem spanDigits_append (s : Bytes) : (spanDigits s).1 ++ (spanDigits s).2 = s := by
  induction s with
  | nil => simp [spanDigits]
  | cons c cs ih =>
    unfold spanDigits
    split
    · simp [ih]
    · simp

theorem spanDigits_length (s : Bytes) : (spanDigits s).1.length + (spanDigits s).2.length = s.length := by
  have := congrArg List.length (spanDigits_append s)
  simpa using this

end Tea.Dec

namespace Tea
theorem indexOf_bound (pat : Bytes) : ∀ (b : Bytes) (i : Nat), indexOf pat b = some i → i + pat.length ≤ b.length := by
  intro b
  induction b with
  | nil =>
    intro i h
    simp only [indexOf] at h
    split at h
    · rename_i he
      have : pat = [] := by simpa using he
      simp at h
      subst h; subst this; simp
    · simp at h
  | cons x xs ih =>
    intro i h
    simp only [indexOf] at h
    split at h
    · rename_i hp
      have hp' := (isPrefix_iff).1 hp
      have := hp'.length_le
      simp at h; subst h; simpa using this
    · cases hxs : indexOf pat xs with
      | none => simp [hxs] at h
      | some j =>
        simp [hxs] at h
        have := ih j hxs
        subst h
        simp; omega
end Tea

namespace Tea.Utf8
theorem decodeRune_size_pos (p : Bytes) (hp : p ≠ []) : 1 ≤ (decodeRune p).2 := by
  unfold decodeRune
  split
  · exact absurd rfl hp
  · repeat' split
    all_goals simp
theorem decodeRune_size_le (p : Bytes) (hp : p ≠ []) : (decodeRune p).2 ≤ p.length := by
  unfold decodeRune
  split
  · exact absurd rfl hp
  · rename_i p0 rest
    repeat' split
    all_goals (simp at *; try omega)
end Tea.Utf8
