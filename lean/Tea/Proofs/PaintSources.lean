import Tea.Proofs.RenderBytes
/-
Which renderer operations can paint, and how many steps of a history do (C19, rate part).

`TermOp.text` is the only terminal operation that carries content bytes (view lines and printed
lines); a list of operations `paints` when it contains one. The lemmas here show that only
`flush`, `stop` and an `enterAlt` with a printed line pending can paint, follow the queue of
printed lines through every operation, and bound the painting steps of a history by a potential
argument (the potential is 1 while a printed line is pending).
-/
namespace Tea.Render
open Tea Tea.VT

/-- the operations contain content bytes: a view line or a printed line is (re)written -/
def paints (ops : List TermOp) : Bool :=
  ops.any (fun o => match o with | .text _ => true | _ => false)

def isFlush : ROp → Bool
  | .flush => true
  | _ => false

def isStop : ROp → Bool
  | .stop => true
  | _ => false

def isPrintLine : ROp → Bool
  | .printLine _ => true
  | _ => false

/-- the number of steps of the history `ops`, run from `r`, whose output paints -/
def paintSteps (r : RState) : List ROp → Nat
  | [] => 0
  | o :: os => (if paints (step r o).2 then 1 else 0) + paintSteps (step r o).1 os

/-! ### `paints` -/

theorem paints_nil : paints [] = false := rfl

theorem paints_append (a b : List TermOp) : paints (a ++ b) = (paints a || paints b) := by
  simp [paints, List.any_append]

/-! ### `run`, one step at a time -/

theorem run_cons_state (r : RState) (o : ROp) (os : List ROp) :
    (run r (o :: os)).1 = (run (step r o).1 os).1 := rfl

/-! ### flush -/

/-- a flush that paints had a view pending that differs from the one on screen -/
theorem flush_paints_pending {r : RState} (h : paints (flush r).2 = true) :
    r.buf ≠ [] ∧ r.buf ≠ r.lastRender := by
  refine ⟨fun hb => ?_, fun hb => ?_⟩
  · rw [flush_noop (Or.inl hb)] at h
    exact Bool.noConfusion h
  · rw [flush_noop (Or.inr hb)] at h
    exact Bool.noConfusion h

/-- the queue after a flush -/
theorem flush_queued (r : RState) :
    (flush r).1.queued =
      if (r.buf.isEmpty || r.buf == r.lastRender) = true then r.queued
      else if flushQ r = true then [] else r.queued := by
  by_cases h : (r.buf.isEmpty || r.buf == r.lastRender) = true
  · unfold flush
    rw [if_pos h, if_pos h]
  · unfold flush
    rw [if_neg h, if_neg h]
    rfl

/-- a flush never makes an empty queue non-empty -/
theorem flush_queued_nil {r : RState} (hq : r.queued = []) : (flush r).1.queued = [] := by
  rw [flush_queued]
  split
  · exact hq
  · split
    · rfl
    · exact hq

/-- a painting flush on the main screen leaves the queue empty -/
theorem flush_paints_queued_nil {r : RState} (h : paints (flush r).2 = true)
    (ha : r.altActive = false) : (flush r).1.queued = [] := by
  by_cases hq : r.queued = []
  · exact flush_queued_nil hq
  · obtain ⟨h1, h2⟩ := flush_paints_pending h
    have hc : ¬ (r.buf.isEmpty || r.buf == r.lastRender) = true := by
      simp [List.isEmpty_iff, h1, h2]
    have hf : flushQ r = true := by
      simp [flushQ, hq, ha]
    rw [flush_queued, if_neg hc, if_pos hf]

/-- printed lines are content: flushing a non-empty queue paints -/
theorem paints_queued {w : Nat} {q : List Line} (hq : q ≠ []) :
    paints (q.flatMap (queuedLineOps w)) = true := by
  cases q with
  | nil => exact absurd rfl hq
  | cons l ls =>
    rw [List.flatMap_cons, paints_append]
    simp [queuedLineOps, paints]

/-- conversely: on the main screen, with a printed line and a new view pending, the flush paints -/
theorem flush_paints_of_queued {r : RState} (ha : r.altActive = false) (hq : r.queued ≠ [])
    (h1 : r.buf ≠ []) (h2 : r.buf ≠ r.lastRender) : paints (flush r).2 = true := by
  have hc : ¬ (r.buf.isEmpty || r.buf == r.lastRender) = true := by
    simp [List.isEmpty_iff, h1, h2]
  have hf : flushQ r = true := by
    simp [flushQ, hq, ha]
  rw [flush_ops hc, if_pos hf]
  simp only [paints_append, paints_queued hq, Bool.or_true, Bool.true_or]

/-! ### stop, enterAlt -/

theorem stop_ops_eq_flush (r : RState) : (stop r).2 = (flush r).2 ++ [.el2, .cr] := rfl

theorem stop_queued (r : RState) : (stop r).1.queued = (flush r).1.queued := rfl

theorem stop_paints (r : RState) : paints (stop r).2 = paints (flush r).2 := by
  rw [stop_ops_eq_flush, paints_append]
  simp [paints]

theorem cursorOp_not_text (b : Bool) : paints [cursorOp b] = false := by
  cases b <;> rfl

theorem enterAlt_of_alt {r : RState} (ha : r.altActive = true) : enterAlt r = (r, []) := by
  unfold enterAlt
  rw [if_pos ha]

theorem enterAlt_of_empty {r : RState} (ha : r.altActive = false) (hq : r.queued = []) :
    enterAlt r =
      (({ r with altActive := true, altLinesRendered := 0 } : RState).repaint,
        [.decset 1049, .ed2, .home, cursorOp r.cursorHidden]) := by
  unfold enterAlt
  simp [ha, hq]

theorem enterAlt_of_queued {r : RState} (ha : r.altActive = false) (hq : r.queued ≠ []) :
    enterAlt r =
      (({ (flush r).1 with altActive := true, altLinesRendered := 0 } : RState).repaint,
        (flush r).2 ++ [.decset 1049, .ed2, .home, cursorOp (flush r).1.cursorHidden]) := by
  unfold enterAlt
  simp [ha, List.isEmpty_iff, hq]

theorem paints_altSwitch (b : Bool) :
    paints [.decset 1049, .ed2, .home, cursorOp b] = false := by
  cases b <;> rfl

/-- entering the alt screen paints only through the flush of pending printed lines -/
theorem enterAlt_paints {r : RState} (h : paints (enterAlt r).2 = true) :
    r.altActive = false ∧ r.queued ≠ [] ∧ paints (flush r).2 = true := by
  cases ha : r.altActive with
  | true =>
    rw [enterAlt_of_alt ha] at h
    exact Bool.noConfusion h
  | false =>
    by_cases hq : r.queued = []
    · rw [enterAlt_of_empty ha hq] at h
      rw [paints_altSwitch] at h
      exact absurd h (by decide)
    · rw [enterAlt_of_queued ha hq, paints_append, paints_altSwitch, Bool.or_false] at h
      exact ⟨rfl, hq, h⟩

/-- and under exactly these conditions it does -/
theorem enterAlt_paints_of_queued {r : RState} (ha : r.altActive = false) (hq : r.queued ≠ [])
    (h1 : r.buf ≠ []) (h2 : r.buf ≠ r.lastRender) : paints (enterAlt r).2 = true := by
  rw [enterAlt_of_queued ha hq, paints_append, flush_paints_of_queued ha hq h1 h2]
  rfl

/-- the queue after entering the alt screen -/
theorem enterAlt_queued_eq (r : RState) :
    (enterAlt r).1.queued =
      if r.altActive = false ∧ r.queued ≠ [] then (flush r).1.queued else r.queued := by
  cases ha : r.altActive with
  | true =>
    rw [enterAlt_of_alt ha]
    simp
  | false =>
    by_cases hq : r.queued = []
    · rw [enterAlt_of_empty ha hq]
      simp [RState.repaint, hq]
    · rw [enterAlt_of_queued ha hq]
      simp [RState.repaint, hq]

/-! ### which steps paint -/

/-- only a flush, a stop, and an `enterAlt` that flushes pending printed lines can paint -/
theorem step_paint_sources (r : RState) (o : ROp) (h : paints (step r o).2 = true) :
    o = .flush ∨ o = .stop ∨
      (o = .enterAlt ∧ r.altActive = false ∧ r.queued ≠ [] ∧ r.buf ≠ [] ∧ r.buf ≠ r.lastRender) := by
  cases o with
  | flush => exact Or.inl rfl
  | stop => exact Or.inr (Or.inl rfl)
  | enterAlt =>
    obtain ⟨ha, hq, hf⟩ := enterAlt_paints (r := r) h
    obtain ⟨h1, h2⟩ := flush_paints_pending hf
    exact Or.inr (Or.inr ⟨rfl, ha, hq, h1, h2⟩)
  | exitAlt =>
    exfalso
    have : paints (exitAlt r).2 = false := by
      unfold exitAlt
      split
      · rfl
      · exact paints_append [.decrst 1049] [cursorOp r.cursorHidden] ▸ by
          rw [cursorOp_not_text]; rfl
    rw [show step r .exitAlt = exitAlt r from rfl, this] at h
    exact absurd h (by decide)
  | printLine b =>
    exfalso
    have : (step r (.printLine b)).2 = [] := by
      show (if r.altActive then _ else _ : RState × List TermOp).2 = []
      split <;> rfl
    rw [this] at h
    exact absurd h (by decide)
  | _ => exact Bool.noConfusion h

/-! ### the queue through one step -/

/-- only `printLine` can make an empty queue non-empty -/
theorem step_queued_nil (r : RState) (o : ROp) (hq : r.queued = [])
    (hn : isPrintLine o = false) : (step r o).1.queued = [] := by
  cases o with
  | flush => exact flush_queued_nil hq
  | stop => exact (stop_queued r).trans (flush_queued_nil hq)
  | enterAlt =>
    show (enterAlt r).1.queued = []
    rw [enterAlt_queued_eq]
    split
    · exact flush_queued_nil hq
    · exact hq
  | exitAlt =>
    show (exitAlt r).1.queued = []
    unfold exitAlt
    split
    · exact hq
    · exact hq
  | printLine b => exact Bool.noConfusion hn
  | _ => exact hq

/-! ### the potential argument -/

/-- one step: painting plus "a printed line is pending afterwards" is paid for by the step being a
flush, a stop or a printLine, or by a printed line pending before -/
theorem step_potential (r : RState) (o : ROp) :
    (if paints (step r o).2 = true then 1 else 0) + (if (step r o).1.queued = [] then 0 else 1)
      ≤ (if isFlush o = true then 1 else 0) + (if isStop o = true then 1 else 0)
        + (if isPrintLine o = true then 1 else 0) + (if r.queued = [] then 0 else 1) := by
  by_cases hp : paints (step r o).2 = true
  · rw [if_pos hp]
    rcases step_paint_sources r o hp with rfl | rfl | ⟨rfl, ha, hq, -, -⟩
    · -- flush
      have hm : r.queued = [] → (flush r).1.queued = [] := flush_queued_nil
      show 1 + (if (flush r).1.queued = [] then 0 else 1) ≤ 1 + 0 + 0 + (if r.queued = [] then 0 else 1)
      by_cases hq : r.queued = []
      · rw [if_pos hq, if_pos (hm hq)]
        omega
      · rw [if_neg hq]
        split <;> omega
    · -- stop
      have hm : r.queued = [] → (stop r).1.queued = [] :=
        fun hq => (stop_queued r).trans (flush_queued_nil hq)
      show 1 + (if (stop r).1.queued = [] then 0 else 1) ≤ 0 + 1 + 0 + (if r.queued = [] then 0 else 1)
      by_cases hq : r.queued = []
      · rw [if_pos hq, if_pos (hm hq)]
        omega
      · rw [if_neg hq]
        split <;> omega
    · -- a painting enterAlt: the queue was non-empty and is empty afterwards
      have hf : paints (flush r).2 = true := (enterAlt_paints (r := r) hp).2.2
      have he : (enterAlt r).1.queued = [] := by
        rw [enterAlt_queued_eq, if_pos ⟨ha, hq⟩]
        exact flush_paints_queued_nil hf ha
      show 1 + (if (enterAlt r).1.queued = [] then 0 else 1) ≤ 0 + 0 + 0 + (if r.queued = [] then 0 else 1)
      rw [if_pos he, if_neg hq]
      omega
  · rw [if_neg hp]
    cases hpl : isPrintLine o with
    | true =>
      have : (if (step r o).1.queued = [] then 0 else 1) ≤ 1 := by split <;> omega
      simp only [if_true]
      omega
    | false =>
      by_cases hq : r.queued = []
      · rw [if_pos (step_queued_nil r o hq hpl)]
        omega
      · rw [if_neg hq]
        have : (if (step r o).1.queued = [] then 0 else 1) ≤ 1 := by split <;> omega
        omega

/-- histories: the painting steps, plus one if a printed line is still pending at the end, are
bounded by the flushes, stops and printLines of the history, plus one if a printed line was pending
at the start -/
theorem paintSteps_le (r : RState) (ops : List ROp) :
    paintSteps r ops + (if (run r ops).1.queued = [] then 0 else 1)
      ≤ ops.countP isFlush + ops.countP isStop + ops.countP isPrintLine
        + (if r.queued = [] then 0 else 1) := by
  induction ops generalizing r with
  | nil =>
    show 0 + (if r.queued = [] then 0 else 1) ≤ 0 + 0 + 0 + (if r.queued = [] then 0 else 1)
    omega
  | cons o os ih =>
    have h1 := step_potential r o
    have h2 := ih (step r o).1
    rw [run_cons_state]
    simp only [paintSteps, List.countP_cons]
    omega

theorem countP_eq_zero_of_forall {α : Type} (p : α → Bool) (xs : List α)
    (h : ∀ x ∈ xs, p x = false) : xs.countP p = 0 := by
  induction xs with
  | nil => rfl
  | cons a rest ih =>
    rw [List.countP_cons, ih (fun x hx => h x (List.mem_cons_of_mem _ hx)),
      h a (List.mem_cons_self ..)]
    rfl

theorem isPrintLine_false_of_ne {o : ROp} (h : ∀ b, o ≠ .printLine b) : isPrintLine o = false := by
  cases o with
  | printLine b => exact absurd rfl (h b)
  | _ => rfl

end Tea.Render
