import Tea.Runtime.Sequence
/-
Helper lemmas for property C03 (Sequence runs its commands strictly one after
another, in order): invariants of the Sequence LTS (Tea/Runtime/Sequence.lean).
-/
namespace Tea.Runtime.Seq

/-! ## the transition relation, as an inductive predicate with named premises -/

/-- an element that is a real (non-nil) command -/
def IsCmd (e : Option Elem) : Prop := e = some .plain ∨ ∃ parts, e = some (.batch parts)

/-- `step` as a relation: one constructor per label, carrying the guard of that label -/
inductive Step (s : St) : Label → St → Prop where
  | skipNil : s.pc = .next → s.elems[s.idx]? = some .nilCmd →
      Step s .skipNil { s with idx := s.idx + 1 }
  | start : s.pc = .next → IsCmd s.elems[s.idx]? →
      Step s .start { s with pc := .running, started := s.started ++ [s.idx] }
  | finishPlain : s.pc = .running → s.elems[s.idx]? = some .plain →
      Step s .finishPlain { s with pc := .sending }
  | finishBatch (parts : List Bool) : s.pc = .running → s.elems[s.idx]? = some (.batch parts) →
      Step s .finishBatch { s with pc := .waiting, fans := fansOf parts }
  | recv : s.pc = .sending →
      Step s .recv { s with pc := .next, idx := s.idx + 1, received := s.received ++ [⟨s.idx, 0⟩] }
  | abort : s.pc = .sending → s.ctxDone = true →
      Step s .abort { s with pc := .next, idx := s.idx + 1, abandoned := s.abandoned ++ [⟨s.idx, 0⟩] }
  | fanFinish (k : Nat) (f : Fan) : s.fans[k]? = some f → s.pc = .waiting → f.pc = .running →
      Step s (.fanFinish k) { s with fans := s.fans.set k { f with pc := .sending } }
  | fanRecv (k : Nat) (f : Fan) : s.fans[k]? = some f → s.pc = .waiting → f.pc = .sending →
      Step s (.fanRecv k) { s with fans := s.fans.set k { f with pc := .finished },
                                   received := s.received ++ [⟨s.idx, f.part⟩] }
  | fanAbort (k : Nat) (f : Fan) : s.fans[k]? = some f → s.pc = .waiting → f.pc = .sending →
      s.ctxDone = true →
      Step s (.fanAbort k) { s with fans := s.fans.set k { f with pc := .finished },
                                    abandoned := s.abandoned ++ [⟨s.idx, f.part⟩] }
  | waitDone : s.pc = .waiting → (∀ f ∈ s.fans, f.pc = .finished) →
      Step s .waitDone { s with pc := .next, idx := s.idx + 1, fans := [] }
  | finish : s.pc = .next → s.elems.length ≤ s.idx → Step s .finish { s with pc := .done }
  | cancel : Step s .cancel { s with ctxDone := true }

/-- every transition of the executable `step` is a `Step` -/
theorem step_inv {s s' : St} {l : Label} (hs : step s l = some s') : Step s l s' := by
  cases l <;> simp only [step] at hs
  case skipNil =>
    split at hs
    · split at hs
      · injection hs with hs; subst hs; exact .skipNil ‹_› ‹_›
      · cases hs
    · cases hs
  case start =>
    split at hs
    · split at hs
      · injection hs with hs; subst hs; exact .start ‹_› (Or.inl ‹_›)
      · injection hs with hs; subst hs; exact .start ‹_› (Or.inr ⟨_, ‹_›⟩)
      · cases hs
    · cases hs
  case finishPlain =>
    split at hs
    · split at hs
      · injection hs with hs; subst hs; exact .finishPlain ‹_› ‹_›
      · cases hs
    · cases hs
  case finishBatch =>
    split at hs
    · split at hs
      · injection hs with hs; subst hs; exact .finishBatch _ ‹_› ‹_›
      · cases hs
    · cases hs
  case recv =>
    split at hs
    · injection hs with hs; subst hs; exact .recv ‹_›
    · cases hs
  case abort =>
    split at hs
    · rename_i h; injection hs with hs; subst hs; exact .abort h.1 h.2
    · cases hs
  case fanFinish k =>
    split at hs
    · split at hs
      · rename_i h; injection hs with hs; subst hs; exact .fanFinish k _ ‹_› h.1 h.2
      · cases hs
    · cases hs
  case fanRecv k =>
    split at hs
    · split at hs
      · rename_i h; injection hs with hs; subst hs; exact .fanRecv k _ ‹_› h.1 h.2
      · cases hs
    · cases hs
  case fanAbort k =>
    split at hs
    · split at hs
      · rename_i h; injection hs with hs; subst hs; exact .fanAbort k _ ‹_› h.1 h.2.1 h.2.2
      · cases hs
    · cases hs
  case waitDone =>
    split at hs
    · rename_i h; injection hs with hs; subst hs
      refine .waitDone h.1 ?_
      intro f hf
      have := List.all_eq_true.1 h.2 f hf
      simpa using this
    · cases hs
  case finish =>
    split at hs
    · rename_i h; injection hs with hs; subst hs; exact .finish h.1 h.2
    · cases hs
  case cancel =>
    injection hs with hs; subst hs; exact .cancel

/-- ... and conversely: `Step` is exactly `step` -/
theorem step_of_Step {s s' : St} {l : Label} (h : Step s l s') : step s l = some s' := by
  cases h with
  | skipNil h1 h2 => simp [step, h1, h2]
  | start h1 h2 =>
    rcases h2 with h2 | ⟨parts, h2⟩ <;> simp [step, h1, h2]
  | finishPlain h1 h2 => simp [step, h1, h2]
  | finishBatch parts h1 h2 => simp [step, h1, h2]
  | recv h1 => simp [step, h1]
  | abort h1 h2 => simp [step, h1, h2]
  | fanFinish k f h1 h2 h3 => simp [step, h1, h2, h3]
  | fanRecv k f h1 h2 h3 => simp [step, h1, h2, h3]
  | fanAbort k f h1 h2 h3 h4 => simp [step, h1, h2, h3, h4]
  | waitDone h1 h2 =>
    have : s.fans.all (fun f => f.pc == .finished) = true := by
      rw [List.all_eq_true]; intro f hf; simp [h2 f hf]
    simp [step, h1, this]
  | finish h1 h2 => simp [step, h1, h2]
  | cancel => simp [step]

/-- a generic induction principle: an invariant that holds initially and is preserved by
every step holds in every reachable state -/
theorem reachable_induct {elems : List Elem} (Inv : St → Prop)
    (h0 : Inv (init elems))
    (hstep : ∀ s s' l, Reachable elems s → Inv s → Step s l s' → Inv s')
    {s : St} (hr : Reachable elems s) : Inv s := by
  induction hr with
  | init => exact h0
  | step l hr hs ih => exact hstep _ _ l hr ih (step_inv hs)

/-! ## the fan-out of a batch -/

theorem fansOf_go_pc (i : Nat) (ps : List Bool) : ∀ f ∈ fansOf.go i ps, f.pc = .running := by
  induction ps generalizing i with
  | nil => intro f hf; simp [fansOf.go] at hf
  | cons b ps ih =>
    intro f hf
    cases b
    · exact ih (i + 1) f (by simpa [fansOf.go] using hf)
    · simp only [fansOf.go, List.mem_cons] at hf
      rcases hf with hf | hf
      · subst hf; rfl
      · exact ih (i + 1) f hf

theorem fansOf_go_lb (i : Nat) (ps : List Bool) : ∀ f ∈ fansOf.go i ps, i ≤ f.part := by
  induction ps generalizing i with
  | nil => intro f hf; simp [fansOf.go] at hf
  | cons b ps ih =>
    intro f hf
    cases b
    · have := ih (i + 1) f (by simpa [fansOf.go] using hf); omega
    · simp only [fansOf.go, List.mem_cons] at hf
      rcases hf with hf | hf
      · subst hf; exact Nat.le_refl _
      · have := ih (i + 1) f hf; omega

theorem fansOf_go_pairwise (i : Nat) (ps : List Bool) :
    ((fansOf.go i ps).map (·.part)).Pairwise (· < ·) := by
  induction ps generalizing i with
  | nil => simp [fansOf.go]
  | cons b ps ih =>
    cases b
    · simpa [fansOf.go] using ih (i + 1)
    · simp only [fansOf.go, List.map_cons, List.pairwise_cons]
      refine ⟨?_, ih (i + 1)⟩
      intro p hp
      obtain ⟨f, hf, rfl⟩ := List.mem_map.1 hp
      have := fansOf_go_lb (i + 1) ps f hf
      omega

/-- which parts get a goroutine: exactly the non-nil entries of the batch -/
theorem fansOf_go_mem (i : Nat) (ps : List Bool) (p : Nat) :
    p ∈ (fansOf.go i ps).map (·.part) ↔ i ≤ p ∧ ps[p - i]? = some true := by
  induction ps generalizing i with
  | nil => simp [fansOf.go]
  | cons b ps ih =>
    cases b
    · simp only [fansOf.go]
      rw [ih (i + 1)]
      constructor
      · rintro ⟨h1, h2⟩
        refine ⟨by omega, ?_⟩
        have : p - i = (p - (i + 1)) + 1 := by omega
        rw [this]; simpa using h2
      · rintro ⟨h1, h2⟩
        by_cases hpi : p = i
        · subst hpi; simp at h2
        · refine ⟨by omega, ?_⟩
          have : p - i = (p - (i + 1)) + 1 := by omega
          rw [this] at h2; simpa using h2
    · simp only [fansOf.go, List.map_cons, List.mem_cons]
      rw [ih (i + 1)]
      constructor
      · rintro (h | ⟨h1, h2⟩)
        · subst h; simp
        · refine ⟨by omega, ?_⟩
          have : p - i = (p - (i + 1)) + 1 := by omega
          rw [this]; simpa using h2
      · rintro ⟨h1, h2⟩
        by_cases hpi : p = i
        · exact Or.inl hpi
        · refine Or.inr ⟨by omega, ?_⟩
          have : p - i = (p - (i + 1)) + 1 := by omega
          rw [this] at h2; simpa using h2

/-- every goroutine of a fresh fan-out is running -/
theorem fansOf_pc (parts : List Bool) : ∀ f ∈ fansOf parts, f.pc = .running :=
  fansOf_go_pc 0 parts

/-- the goroutines of a fan-out have strictly increasing part numbers -/
theorem fansOf_pairwise (parts : List Bool) : ((fansOf parts).map (·.part)).Pairwise (· < ·) :=
  fansOf_go_pairwise 0 parts

/-- there is a goroutine for part `p` iff entry `p` of the batch is a non-nil command -/
theorem mem_fansOf_part (parts : List Bool) (p : Nat) :
    p ∈ (fansOf parts).map (·.part) ↔ parts[p]? = some true := by
  have := fansOf_go_mem 0 parts p
  simpa [fansOf] using this

theorem fansOf_nodup (parts : List Bool) : ((fansOf parts).map (·.part)).Nodup := by
  have := fansOf_pairwise parts
  exact this.imp (fun h => Nat.ne_of_lt h)

/-! ## small list facts -/

theorem lt_length_of_getElem? {α : Type} {l : List α} {i : Nat} {a : α} (h : l[i]? = some a) :
    i < l.length := by
  obtain ⟨h, _⟩ := List.getElem?_eq_some_iff.1 h
  exact h

theorem IsCmd.lt {l : List Elem} {i : Nat} (h : IsCmd l[i]?) : i < l.length := by
  rcases h with h | ⟨_, h⟩ <;> exact lt_length_of_getElem? h

theorem IsCmd.ne_nil {l : List Elem} {i : Nat} (h : IsCmd l[i]?) : l[i]? ≠ some .nilCmd := by
  rcases h with h | ⟨_, h⟩ <;> simp [h]

/-- changing only the pc of fan `k` does not change the list of parts -/
theorem map_part_set (fans : List Fan) (k : Nat) (f : Fan) (pc : GPc) (h : fans[k]? = some f) :
    (fans.set k { f with pc := pc }).map (·.part) = fans.map (·.part) := by
  induction fans generalizing k with
  | nil => simp
  | cons a as ih =>
    cases k with
    | zero => simp at h; subst h; simp
    | succ k => simp at h; simp [ih k h]

/-! ## INV 1: shape of the control state -/

structure ShapeInv (elems : List Elem) (s : St) : Prop where
  elems_eq : s.elems = elems
  idx_le : s.idx ≤ s.elems.length
  running : s.pc = .running → IsCmd s.elems[s.idx]?
  sending : s.pc = .sending → s.elems[s.idx]? = some .plain
  waiting : s.pc = .waiting → ∃ parts, s.elems[s.idx]? = some (.batch parts) ∧
    s.fans.map (·.part) = (fansOf parts).map (·.part)
  fans_nil : s.pc ≠ .waiting → s.fans = []
  done : s.pc = .done → s.elems.length ≤ s.idx

theorem inv_shape {elems : List Elem} {s : St} (hr : Reachable elems s) : ShapeInv elems s := by
  refine reachable_induct (fun s => ShapeInv elems s) ?_ ?_ hr
  · constructor <;> simp [init]
  · intro s s' l _ ih hs
    cases hs with
    | skipNil h1 h2 =>
      have := lt_length_of_getElem? h2
      exact ⟨ih.elems_eq, by simp only; omega, fun h => by simp [h1] at h, fun h => by simp [h1] at h,
        fun h => by simp [h1] at h, fun _ => ih.fans_nil (by simp [h1]), fun h => by simp [h1] at h⟩
    | start h1 h2 =>
      exact ⟨ih.elems_eq, ih.idx_le, fun _ => h2, fun h => by simp at h,
        fun h => by simp at h, fun _ => ih.fans_nil (by simp [h1]), fun h => by simp at h⟩
    | finishPlain h1 h2 =>
      exact ⟨ih.elems_eq, ih.idx_le, fun h => by simp at h, fun _ => h2,
        fun h => by simp at h, fun _ => ih.fans_nil (by simp [h1]), fun h => by simp at h⟩
    | finishBatch parts h1 h2 =>
      exact ⟨ih.elems_eq, ih.idx_le, fun h => by simp at h, fun h => by simp at h,
        fun _ => ⟨parts, h2, rfl⟩, fun h => by simp at h, fun h => by simp at h⟩
    | recv h1 =>
      have := lt_length_of_getElem? (ih.sending h1)
      exact ⟨ih.elems_eq, by simp only; omega, fun h => by simp at h, fun h => by simp at h,
        fun h => by simp at h, fun _ => ih.fans_nil (by simp [h1]), fun h => by simp at h⟩
    | abort h1 _ =>
      have := lt_length_of_getElem? (ih.sending h1)
      exact ⟨ih.elems_eq, by simp only; omega, fun h => by simp at h, fun h => by simp at h,
        fun h => by simp at h, fun _ => ih.fans_nil (by simp [h1]), fun h => by simp at h⟩
    | fanFinish k f h1 h2 h3 =>
      obtain ⟨parts, hp, hm⟩ := ih.waiting h2
      exact ⟨ih.elems_eq, ih.idx_le, fun h => by simp [h2] at h, fun h => by simp [h2] at h,
        fun _ => ⟨parts, hp, by simp only; rw [map_part_set _ _ _ _ h1, hm]⟩,
        fun h => by simp [h2] at h, fun h => by simp [h2] at h⟩
    | fanRecv k f h1 h2 h3 =>
      obtain ⟨parts, hp, hm⟩ := ih.waiting h2
      exact ⟨ih.elems_eq, ih.idx_le, fun h => by simp [h2] at h, fun h => by simp [h2] at h,
        fun _ => ⟨parts, hp, by simp only; rw [map_part_set _ _ _ _ h1, hm]⟩,
        fun h => by simp [h2] at h, fun h => by simp [h2] at h⟩
    | fanAbort k f h1 h2 h3 _ =>
      obtain ⟨parts, hp, hm⟩ := ih.waiting h2
      exact ⟨ih.elems_eq, ih.idx_le, fun h => by simp [h2] at h, fun h => by simp [h2] at h,
        fun _ => ⟨parts, hp, by simp only; rw [map_part_set _ _ _ _ h1, hm]⟩,
        fun h => by simp [h2] at h, fun h => by simp [h2] at h⟩
    | waitDone h1 _ =>
      obtain ⟨parts, hp, _⟩ := ih.waiting h1
      have := lt_length_of_getElem? hp
      exact ⟨ih.elems_eq, by simp only; omega, fun h => by simp at h, fun h => by simp at h,
        fun h => by simp at h, fun _ => rfl, fun h => by simp at h⟩
    | finish h1 h2 =>
      exact ⟨ih.elems_eq, ih.idx_le, fun h => by simp at h, fun h => by simp at h,
        fun h => by simp at h, fun _ => ih.fans_nil (by simp [h1]), fun _ => h2⟩
    | cancel =>
      exact ⟨ih.elems_eq, ih.idx_le, ih.running, ih.sending, ih.waiting, ih.fans_nil, ih.done⟩

/-! ## INV 2: the log of started commands -/

structure StartedInv (s : St) : Prop where
  sorted : s.started.Pairwise (· < ·)
  le_idx : ∀ k ∈ s.started, k ≤ s.idx
  isCmd : ∀ k ∈ s.started, IsCmd s.elems[k]?
  last : s.pc = .running ∨ s.pc = .sending ∨ s.pc = .waiting → s.started.getLast? = some s.idx
  lt_idx : s.pc = .next ∨ s.pc = .done → ∀ k ∈ s.started, k < s.idx

theorem inv_started {elems : List Elem} {s : St} (hr : Reachable elems s) : StartedInv s := by
  refine reachable_induct (fun s => StartedInv s) ?_ ?_ hr
  · constructor <;> simp [init]
  · intro s s' l _ ih hs
    cases hs with
    | skipNil h1 h2 =>
      exact ⟨ih.sorted, fun k hk => Nat.le_succ_of_le (ih.le_idx k hk), ih.isCmd,
        fun h => by simp [h1] at h, fun _ k hk => Nat.lt_succ_of_lt (ih.lt_idx (Or.inl h1) k hk)⟩
    | start h1 h2 =>
      have hlt := ih.lt_idx (Or.inl h1)
      refine ⟨?_, ?_, ?_, fun _ => by simp, fun h => by simp at h⟩
      · simp only [List.pairwise_append, List.pairwise_cons, List.mem_singleton]
        exact ⟨ih.sorted, ⟨by simp, List.Pairwise.nil⟩, fun a ha b hb => by subst hb; exact hlt a ha⟩
      · intro k hk
        simp only [List.mem_append, List.mem_singleton] at hk
        rcases hk with hk | hk
        · exact ih.le_idx k hk
        · subst hk; exact Nat.le_refl _
      · intro k hk
        simp only [List.mem_append, List.mem_singleton] at hk
        rcases hk with hk | hk
        · exact ih.isCmd k hk
        · subst hk; exact h2
    | finishPlain h1 h2 =>
      exact ⟨ih.sorted, ih.le_idx, ih.isCmd, fun _ => ih.last (Or.inl h1), fun h => by simp at h⟩
    | finishBatch parts h1 h2 =>
      exact ⟨ih.sorted, ih.le_idx, ih.isCmd, fun _ => ih.last (Or.inl h1), fun h => by simp at h⟩
    | recv h1 =>
      exact ⟨ih.sorted, fun k hk => Nat.le_succ_of_le (ih.le_idx k hk), ih.isCmd,
        fun h => by simp at h, fun _ k hk => Nat.lt_succ_of_le (ih.le_idx k hk)⟩
    | abort h1 _ =>
      exact ⟨ih.sorted, fun k hk => Nat.le_succ_of_le (ih.le_idx k hk), ih.isCmd,
        fun h => by simp at h, fun _ k hk => Nat.lt_succ_of_le (ih.le_idx k hk)⟩
    | fanFinish k f h1 h2 h3 =>
      exact ⟨ih.sorted, ih.le_idx, ih.isCmd, ih.last, ih.lt_idx⟩
    | fanRecv k f h1 h2 h3 =>
      exact ⟨ih.sorted, ih.le_idx, ih.isCmd, ih.last, ih.lt_idx⟩
    | fanAbort k f h1 h2 h3 _ =>
      exact ⟨ih.sorted, ih.le_idx, ih.isCmd, ih.last, ih.lt_idx⟩
    | waitDone h1 _ =>
      exact ⟨ih.sorted, fun k hk => Nat.le_succ_of_le (ih.le_idx k hk), ih.isCmd,
        fun h => by simp at h, fun _ k hk => Nat.lt_succ_of_le (ih.le_idx k hk)⟩
    | finish h1 h2 =>
      exact ⟨ih.sorted, ih.le_idx, ih.isCmd, fun h => by simp at h, fun _ => ih.lt_idx (Or.inl h1)⟩
    | cancel =>
      exact ⟨ih.sorted, ih.le_idx, ih.isCmd, ih.last, ih.lt_idx⟩

/-! ## INV 3: cancellation -/

/-- Sends are abandoned only once the program context is cancelled -/
theorem inv_abandoned {elems : List Elem} {s : St} (hr : Reachable elems s) :
    s.ctxDone = false → s.abandoned = [] := by
  refine reachable_induct (fun s => s.ctxDone = false → s.abandoned = []) (by simp [init]) ?_ hr
  intro s s' l _ ih hs
  cases hs with
  | abort _ h => intro h'; simp [h] at h'
  | fanAbort _ _ _ _ _ h => intro h'; simp [h] at h'
  | cancel => intro h'; simp at h'
  | _ => exact ih

/-! ## INV 4: the message logs -/

/-- a message is settled when the event loop received it, or its Send gave up -/
def Settled (s : St) (m : MsgId) : Prop := m ∈ s.received ∨ m ∈ s.abandoned

theorem part_inj {fans : List Fan} (hn : (fans.map (·.part)).Nodup) {i k : Nat} {f g : Fan}
    (hi : fans[i]? = some f) (hk : fans[k]? = some g) (hp : f.part = g.part) : i = k := by
  obtain ⟨hi', rfl⟩ := List.getElem?_eq_some_iff.1 hi
  obtain ⟨hk', rfl⟩ := List.getElem?_eq_some_iff.1 hk
  have hpw := List.pairwise_iff_getElem.1 hn
  apply Classical.byContradiction
  intro hne
  rcases Nat.lt_or_gt_of_ne hne with h | h
  · exact hpw i k (by simpa using hi') (by simpa using hk') h (by simpa using hp)
  · exact hpw k i (by simpa using hk') (by simpa using hi') h (by simpa using hp.symm)

theorem exists_getElem?_of_part_mem {fans : List Fan} {p : Nat} (h : p ∈ fans.map (·.part)) :
    ∃ (i : Nat) (f : Fan), fans[i]? = some f ∧ f.part = p := by
  obtain ⟨f, hf, rfl⟩ := List.mem_map.1 h
  obtain ⟨i, hi⟩ := List.getElem?_of_mem hf
  exact ⟨i, f, hi, rfl⟩

theorem part_mem_of_getElem? {fans : List Fan} {i : Nat} {f : Fan} (h : fans[i]? = some f) :
    f.part ∈ fans.map (·.part) :=
  List.mem_map.2 ⟨f, List.mem_of_getElem? h, rfl⟩

structure LogInv (s : St) : Prop where
  /-- every message of every element before the current one is settled -/
  prev : ∀ j, j < s.idx → ∀ m ∈ msgsOf s.elems j, Settled s m
  /-- a goroutine of the current fan-out has finished iff its message is settled -/
  fan : ∀ (i : Nat) (f : Fan), s.fans[i]? = some f → (f.pc = .finished ↔ Settled s ⟨s.idx, f.part⟩)
  /-- no message of a later element is settled; of the current element only fan-out parts -/
  bound : ∀ m, Settled s m → m.elem < s.idx ∨ (m.elem = s.idx ∧ m.part ∈ s.fans.map (·.part))
  nodup : s.received.Nodup
  nodupA : s.abandoned.Nodup
  disj : ∀ m ∈ s.received, m ∉ s.abandoned
  genuine : ∀ m, Settled s m → m ∈ msgsOf s.elems m.elem
  ordered : (s.received.map (·.elem)).Pairwise (· ≤ ·)

theorem inv_log {elems : List Elem} {s : St} (hr : Reachable elems s) : LogInv s := by
  refine reachable_induct (fun s => LogInv s) ?_ ?_ hr
  · constructor <;> simp [init, Settled]
  · intro s s' l hr ih hs
    have sh := inv_shape hr
    cases hs with
    | skipNil h1 h2 =>
      have hf : s.fans = [] := sh.fans_nil (by simp [h1])
      refine ⟨?_, ?_, ?_, ih.nodup, ih.nodupA, ih.disj, ih.genuine, ih.ordered⟩
      · intro j hj m hm
        simp only at hj hm
        by_cases hji : j = s.idx
        · subst hji; simp [msgsOf, h2] at hm
        · exact ih.prev j (by omega) m hm
      · intro i f hi; simp [hf] at hi
      · intro m hm
        rcases ih.bound m hm with h | ⟨_, h⟩
        · exact Or.inl (Nat.lt_succ_of_lt h)
        · simp [hf] at h
    | start h1 h2 =>
      exact ⟨ih.prev, ih.fan, ih.bound, ih.nodup, ih.nodupA, ih.disj, ih.genuine, ih.ordered⟩
    | finishPlain h1 h2 =>
      exact ⟨ih.prev, ih.fan, ih.bound, ih.nodup, ih.nodupA, ih.disj, ih.genuine, ih.ordered⟩
    | finishBatch parts h1 h2 =>
      have hf : s.fans = [] := sh.fans_nil (by simp [h1])
      have hb : ∀ m, Settled s m → m.elem < s.idx := by
        intro m hm
        rcases ih.bound m hm with h | ⟨_, h⟩
        · exact h
        · simp [hf] at h
      refine ⟨ih.prev, ?_, ?_, ih.nodup, ih.nodupA, ih.disj, ih.genuine, ih.ordered⟩
      · intro i f hi
        simp only at hi
        have hpc := fansOf_pc parts f (List.mem_of_getElem? hi)
        constructor
        · intro h; simp [hpc] at h
        · intro h
          have := hb _ h
          simp at this
      · intro m hm
        exact Or.inl (hb m hm)
    | recv h1 =>
      have hf : s.fans = [] := sh.fans_nil (by simp [h1])
      have hb : ∀ m, Settled s m → m.elem < s.idx := by
        intro m hm
        rcases ih.bound m hm with h | ⟨_, h⟩
        · exact h
        · simp [hf] at h
      have hnew : ¬ Settled s ⟨s.idx, 0⟩ := fun h => by have := hb _ h; simp at this
      refine ⟨?_, ?_, ?_, ?_, ih.nodupA, ?_, ?_, ?_⟩
      · intro j hj m hm
        simp only at hj hm
        simp only [Settled, List.mem_append, List.mem_singleton]
        by_cases hji : j = s.idx
        · subst hji
          simp [msgsOf, sh.sending h1] at hm
          exact Or.inl (Or.inr hm)
        · rcases ih.prev j (by omega) m hm with h | h
          · exact Or.inl (Or.inl h)
          · exact Or.inr h
      · intro i f hi; simp [hf] at hi
      · intro m hm
        simp only [Settled, List.mem_append, List.mem_singleton] at hm
        left
        rcases hm with (h | h) | h
        · exact Nat.lt_succ_of_lt (hb m (Or.inl h))
        · subst h; exact Nat.lt_succ_self _
        · exact Nat.lt_succ_of_lt (hb m (Or.inr h))
      · simp only
        rw [List.nodup_append]
        refine ⟨ih.nodup, by simp, ?_⟩
        intro a ha b hb'
        simp only [List.mem_singleton] at hb'
        subst hb'
        intro hab; subst hab
        exact hnew (Or.inl ha)
      · intro m hm
        simp only [List.mem_append, List.mem_singleton] at hm
        rcases hm with h | h
        · exact ih.disj m h
        · subst h; exact fun h' => hnew (Or.inr h')
      · intro m hm
        simp only [Settled, List.mem_append, List.mem_singleton] at hm
        rcases hm with (h | h) | h
        · exact ih.genuine m (Or.inl h)
        · subst h; simp [msgsOf, sh.sending h1]
        · exact ih.genuine m (Or.inr h)
      · simp only [List.map_append, List.map_cons, List.map_nil, List.pairwise_append]
        refine ⟨ih.ordered, by simp, ?_⟩
        intro a ha b hb'
        simp only [List.mem_singleton] at hb'
        subst hb'
        obtain ⟨m, hm, rfl⟩ := List.mem_map.1 ha
        exact Nat.le_of_lt (hb m (Or.inl hm))
    | abort h1 _ =>
      have hf : s.fans = [] := sh.fans_nil (by simp [h1])
      have hb : ∀ m, Settled s m → m.elem < s.idx := by
        intro m hm
        rcases ih.bound m hm with h | ⟨_, h⟩
        · exact h
        · simp [hf] at h
      have hnew : ¬ Settled s ⟨s.idx, 0⟩ := fun h => by have := hb _ h; simp at this
      refine ⟨?_, ?_, ?_, ih.nodup, ?_, ?_, ?_, ih.ordered⟩
      · intro j hj m hm
        simp only at hj hm
        simp only [Settled, List.mem_append, List.mem_singleton]
        by_cases hji : j = s.idx
        · subst hji
          simp [msgsOf, sh.sending h1] at hm
          exact Or.inr (Or.inr hm)
        · rcases ih.prev j (by omega) m hm with h | h
          · exact Or.inl h
          · exact Or.inr (Or.inl h)
      · intro i f hi; simp [hf] at hi
      · intro m hm
        simp only [Settled, List.mem_append, List.mem_singleton] at hm
        left
        rcases hm with h | h | h
        · exact Nat.lt_succ_of_lt (hb m (Or.inl h))
        · exact Nat.lt_succ_of_lt (hb m (Or.inr h))
        · subst h; exact Nat.lt_succ_self _
      · simp only
        rw [List.nodup_append]
        refine ⟨ih.nodupA, by simp, ?_⟩
        intro a ha b hb'
        simp only [List.mem_singleton] at hb'
        subst hb'
        intro hab; subst hab
        exact hnew (Or.inr ha)
      · intro m hm
        simp only [List.mem_append, List.mem_singleton]
        rintro (h | h)
        · exact ih.disj m hm h
        · subst h; exact hnew (Or.inl hm)
      · intro m hm
        simp only [Settled, List.mem_append, List.mem_singleton] at hm
        rcases hm with h | h | h
        · exact ih.genuine m (Or.inl h)
        · exact ih.genuine m (Or.inr h)
        · subst h; simp [msgsOf, sh.sending h1]
    | fanFinish k f h1 h2 h3 =>
      refine ⟨ih.prev, ?_, ?_, ih.nodup, ih.nodupA, ih.disj, ih.genuine, ih.ordered⟩
      · intro i g hi
        simp only at hi
        by_cases hik : k = i
        · subst hik
          rw [List.getElem?_set_self (lt_length_of_getElem? h1)] at hi
          injection hi with hi; subst hi
          have := ih.fan k f h1
          simp only [h3] at this
          constructor
          · intro h; simp at h
          · intro h; exact absurd (this.2 h) (by simp)
        · rw [List.getElem?_set_ne hik] at hi
          exact ih.fan i g hi
      · intro m hm
        simp only
        rw [map_part_set _ _ _ _ h1]
        exact ih.bound m hm
    | fanRecv k f h1 h2 h3 =>
      obtain ⟨parts, hp, hmp⟩ := sh.waiting h2
      have hnd : (s.fans.map (·.part)).Nodup := by rw [hmp]; exact fansOf_nodup parts
      have hnew : ¬ Settled s ⟨s.idx, f.part⟩ := fun h => by
        have := (ih.fan k f h1).2 h; simp [h3] at this
      have hle : ∀ m, Settled s m → m.elem ≤ s.idx := by
        intro m hm
        rcases ih.bound m hm with h | ⟨h, _⟩ <;> omega
      refine ⟨?_, ?_, ?_, ?_, ih.nodupA, ?_, ?_, ?_⟩
      · intro j hj m hm
        rcases ih.prev j hj m hm with h | h
        · exact Or.inl (List.mem_append_left _ h)
        · exact Or.inr h
      · intro i g hi
        simp only at hi
        simp only [Settled, List.mem_append, List.mem_singleton]
        by_cases hik : k = i
        · subst hik
          rw [List.getElem?_set_self (lt_length_of_getElem? h1)] at hi
          injection hi with hi; subst hi
          simp
        · rw [List.getElem?_set_ne hik] at hi
          have hne : g.part ≠ f.part := fun he => hik (part_inj hnd h1 hi he.symm)
          rw [ih.fan i g hi]
          simp only [Settled, MsgId.mk.injEq, true_and, hne, or_false]
      · intro m hm
        simp only
        rw [map_part_set _ _ _ _ h1]
        simp only [Settled, List.mem_append, List.mem_singleton] at hm
        rcases hm with (h | h) | h
        · exact ih.bound m (Or.inl h)
        · subst h; exact Or.inr ⟨rfl, part_mem_of_getElem? h1⟩
        · exact ih.bound m (Or.inr h)
      · simp only
        rw [List.nodup_append]
        refine ⟨ih.nodup, by simp, ?_⟩
        intro a ha b hb'
        simp only [List.mem_singleton] at hb'
        subst hb'
        intro hab; subst hab
        exact hnew (Or.inl ha)
      · intro m hm
        simp only [List.mem_append, List.mem_singleton] at hm
        rcases hm with h | h
        · exact ih.disj m h
        · subst h; exact fun h' => hnew (Or.inr h')
      · intro m hm
        simp only [Settled, List.mem_append, List.mem_singleton] at hm
        rcases hm with (h | h) | h
        · exact ih.genuine m (Or.inl h)
        · subst h
          have : f.part ∈ (fansOf parts).map (·.part) := hmp ▸ part_mem_of_getElem? h1
          obtain ⟨g, hg, hgp⟩ := List.mem_map.1 this
          simp only [msgsOf, hp]
          exact List.mem_map.2 ⟨g, hg, by simp [hgp]⟩
        · exact ih.genuine m (Or.inr h)
      · simp only [List.map_append, List.map_cons, List.map_nil, List.pairwise_append]
        refine ⟨ih.ordered, by simp, ?_⟩
        intro a ha b hb'
        simp only [List.mem_singleton] at hb'
        subst hb'
        obtain ⟨m, hm, rfl⟩ := List.mem_map.1 ha
        exact hle m (Or.inl hm)
    | fanAbort k f h1 h2 h3 _ =>
      obtain ⟨parts, hp, hmp⟩ := sh.waiting h2
      have hnd : (s.fans.map (·.part)).Nodup := by rw [hmp]; exact fansOf_nodup parts
      have hnew : ¬ Settled s ⟨s.idx, f.part⟩ := fun h => by
        have := (ih.fan k f h1).2 h; simp [h3] at this
      refine ⟨?_, ?_, ?_, ih.nodup, ?_, ?_, ?_, ih.ordered⟩
      · intro j hj m hm
        rcases ih.prev j hj m hm with h | h
        · exact Or.inl h
        · exact Or.inr (List.mem_append_left _ h)
      · intro i g hi
        simp only at hi
        simp only [Settled, List.mem_append, List.mem_singleton]
        by_cases hik : k = i
        · subst hik
          rw [List.getElem?_set_self (lt_length_of_getElem? h1)] at hi
          injection hi with hi; subst hi
          simp
        · rw [List.getElem?_set_ne hik] at hi
          have hne : g.part ≠ f.part := fun he => hik (part_inj hnd h1 hi he.symm)
          rw [ih.fan i g hi]
          simp only [Settled, MsgId.mk.injEq, true_and, hne, or_false]
      · intro m hm
        simp only
        rw [map_part_set _ _ _ _ h1]
        simp only [Settled, List.mem_append, List.mem_singleton] at hm
        rcases hm with h | h | h
        · exact ih.bound m (Or.inl h)
        · exact ih.bound m (Or.inr h)
        · subst h; exact Or.inr ⟨rfl, part_mem_of_getElem? h1⟩
      · simp only
        rw [List.nodup_append]
        refine ⟨ih.nodupA, by simp, ?_⟩
        intro a ha b hb'
        simp only [List.mem_singleton] at hb'
        subst hb'
        intro hab; subst hab
        exact hnew (Or.inr ha)
      · intro m hm
        simp only [List.mem_append, List.mem_singleton]
        rintro (h | h)
        · exact ih.disj m hm h
        · subst h; exact hnew (Or.inl hm)
      · intro m hm
        simp only [Settled, List.mem_append, List.mem_singleton] at hm
        rcases hm with h | h | h
        · exact ih.genuine m (Or.inl h)
        · exact ih.genuine m (Or.inr h)
        · subst h
          have : f.part ∈ (fansOf parts).map (·.part) := hmp ▸ part_mem_of_getElem? h1
          obtain ⟨g, hg, hgp⟩ := List.mem_map.1 this
          simp only [msgsOf, hp]
          exact List.mem_map.2 ⟨g, hg, by simp [hgp]⟩
    | waitDone h1 hall =>
      obtain ⟨parts, hp, hmp⟩ := sh.waiting h1
      refine ⟨?_, ?_, ?_, ih.nodup, ih.nodupA, ih.disj, ih.genuine, ih.ordered⟩
      · intro j hj m hm
        simp only at hj hm
        by_cases hji : j = s.idx
        · subst hji
          simp only [msgsOf, hp] at hm
          obtain ⟨g, hg, rfl⟩ := List.mem_map.1 hm
          have : g.part ∈ s.fans.map (·.part) := hmp ▸ List.mem_map.2 ⟨g, hg, rfl⟩
          obtain ⟨i, f, hi, hfp⟩ := exists_getElem?_of_part_mem this
          have := (ih.fan i f hi).1 (hall f (List.mem_of_getElem? hi))
          rw [hfp] at this
          exact this
        · exact ih.prev j (by omega) m hm
      · intro i f hi; simp at hi
      · intro m hm
        left
        rcases ih.bound m hm with h | ⟨h, _⟩
        · exact Nat.lt_succ_of_lt h
        · simp only; omega
    | finish h1 h2 =>
      exact ⟨ih.prev, ih.fan, ih.bound, ih.nodup, ih.nodupA, ih.disj, ih.genuine, ih.ordered⟩
    | cancel =>
      exact ⟨ih.prev, ih.fan, ih.bound, ih.nodup, ih.nodupA, ih.disj, ih.genuine, ih.ordered⟩

/-! ## INV 5: only started commands produce messages -/

theorem inv_settled_started {elems : List Elem} {s : St} (hr : Reachable elems s) :
    ∀ m, Settled s m → m.elem ∈ s.started := by
  refine reachable_induct (fun s => ∀ m, Settled s m → m.elem ∈ s.started) ?_ ?_ hr
  · intro m hm; simp [init, Settled] at hm
  · intro s s' l hr ih hs
    have st := inv_started hr
    cases hs with
    | start h1 h2 =>
      intro m hm
      exact List.mem_append_left _ (ih m hm)
    | recv h1 =>
      intro m hm
      simp only [Settled, List.mem_append, List.mem_singleton] at hm
      rcases hm with (h | h) | h
      · exact ih m (Or.inl h)
      · subst h; exact List.mem_of_getLast? (st.last (Or.inr (Or.inl h1)))
      · exact ih m (Or.inr h)
    | abort h1 _ =>
      intro m hm
      simp only [Settled, List.mem_append, List.mem_singleton] at hm
      rcases hm with h | h | h
      · exact ih m (Or.inl h)
      · exact ih m (Or.inr h)
      · subst h; exact List.mem_of_getLast? (st.last (Or.inr (Or.inl h1)))
    | fanRecv k f h1 h2 h3 =>
      intro m hm
      simp only [Settled, List.mem_append, List.mem_singleton] at hm
      rcases hm with (h | h) | h
      · exact ih m (Or.inl h)
      · subst h; exact List.mem_of_getLast? (st.last (Or.inr (Or.inr h2)))
      · exact ih m (Or.inr h)
    | fanAbort k f h1 h2 h3 _ =>
      intro m hm
      simp only [Settled, List.mem_append, List.mem_singleton] at hm
      rcases hm with h | h | h
      · exact ih m (Or.inl h)
      · exact ih m (Or.inr h)
      · subst h; exact List.mem_of_getLast? (st.last (Or.inr (Or.inr h2)))
    | _ => exact ih

/-! ## progress: no reachable state other than `done` is stuck -/

theorem progress {elems : List Elem} {s : St} (hr : Reachable elems s) (hd : s.pc ≠ .done) :
    ∃ l s', l ≠ Label.cancel ∧ step s l = some s' := by
  have sh := inv_shape hr
  cases hpc : s.pc with
  | done => exact absurd hpc hd
  | next =>
    by_cases hlen : s.elems.length ≤ s.idx
    · exact ⟨.finish, _, by simp, step_of_Step (.finish hpc hlen)⟩
    · have hlt : s.idx < s.elems.length := by omega
      have he : s.elems[s.idx]? = some s.elems[s.idx] := List.getElem?_eq_getElem hlt
      cases hE : s.elems[s.idx] with
      | nilCmd => rw [hE] at he; exact ⟨.skipNil, _, by simp, step_of_Step (.skipNil hpc he)⟩
      | plain => rw [hE] at he; exact ⟨.start, _, by simp, step_of_Step (.start hpc (Or.inl he))⟩
      | batch parts =>
        rw [hE] at he; exact ⟨.start, _, by simp, step_of_Step (.start hpc (Or.inr ⟨_, he⟩))⟩
  | running =>
    rcases sh.running hpc with h | ⟨parts, h⟩
    · exact ⟨.finishPlain, _, by simp, step_of_Step (.finishPlain hpc h)⟩
    · exact ⟨.finishBatch, _, by simp, step_of_Step (.finishBatch parts hpc h)⟩
  | sending => exact ⟨.recv, _, by simp, step_of_Step (.recv hpc)⟩
  | waiting =>
    by_cases hall : ∀ f ∈ s.fans, f.pc = .finished
    · exact ⟨.waitDone, _, by simp, step_of_Step (.waitDone hpc hall)⟩
    · have : ∃ f ∈ s.fans, f.pc ≠ .finished := by
        apply Classical.byContradiction
        intro hne
        apply hall
        intro f hf
        apply Classical.byContradiction
        intro hf'
        exact hne ⟨f, hf, hf'⟩
      obtain ⟨f, hf, hfp⟩ := this
      obtain ⟨k, hk⟩ := List.getElem?_of_mem hf
      cases hfpc : f.pc with
      | running => exact ⟨.fanFinish k, _, by simp, step_of_Step (.fanFinish k f hk hpc hfpc)⟩
      | sending => exact ⟨.fanRecv k, _, by simp, step_of_Step (.fanRecv k f hk hpc hfpc)⟩
      | finished => exact absurd hfpc hfp

/-- a batch whose entries are all nil starts no goroutine -/
theorem fansOf_eq_nil_of_all_false (parts : List Bool) (h : ∀ b ∈ parts, b = false) :
    fansOf parts = [] := by
  cases hf : fansOf parts with
  | nil => rfl
  | cons f fs =>
    have : f.part ∈ (fansOf parts).map (·.part) := by rw [hf]; simp
    have := (mem_fansOf_part parts f.part).1 this
    have := h true (List.mem_of_getElem? this)
    simp at this

/-! ## termination: a remaining that every step other than `cancel` decreases -/

/-- remaining work of a fan-out goroutine: finish, then have the message taken -/
def fanWeight (f : Fan) : Nat :=
  match f.pc with
  | .running => 2
  | .sending => 1
  | .finished => 0

/-- number of steps one element takes: skip / start+finish+recv / start+finish+2 per goroutine+waitDone -/
def cost : Elem → Nat
  | .nilCmd => 1
  | .plain => 3
  | .batch parts => 3 + 2 * (fansOf parts).length

/-- the cost of all elements from index `i` on -/
def tailCost (elems : List Elem) (i : Nat) : Nat := ((elems.drop i).map cost).sum

/-- an upper bound on the number of non-cancel steps still possible -/
def remaining (s : St) : Nat :=
  match s.pc with
  | .done => 0
  | .next => 1 + tailCost s.elems s.idx
  | .running => tailCost s.elems s.idx
  | .sending => 2 + tailCost s.elems (s.idx + 1)
  | .waiting => 2 + (s.fans.map fanWeight).sum + tailCost s.elems (s.idx + 1)

theorem tailCost_eq {elems : List Elem} {i : Nat} {e : Elem} (h : elems[i]? = some e) :
    tailCost elems i = cost e + tailCost elems (i + 1) := by
  obtain ⟨hlt, rfl⟩ := List.getElem?_eq_some_iff.1 h
  unfold tailCost
  rw [List.drop_eq_getElem_cons hlt]
  simp only [List.map_cons, List.sum_cons]

theorem sum_weight_running (l : List Fan) (h : ∀ f ∈ l, f.pc = .running) :
    (l.map fanWeight).sum = 2 * l.length := by
  induction l with
  | nil => simp
  | cons a as ih =>
    have ha : fanWeight a = 2 := by simp [fanWeight, h a (by simp)]
    have := ih (fun f hf => h f (by simp [hf]))
    simp only [List.map_cons, List.sum_cons, List.length_cons, ha, this]
    omega

theorem sum_weight_set (l : List Fan) (k : Nat) (f g : Fan) (h : l[k]? = some f) :
    ((l.set k g).map fanWeight).sum + fanWeight f = (l.map fanWeight).sum + fanWeight g := by
  induction l generalizing k with
  | nil => simp at h
  | cons a as ih =>
    cases k with
    | zero => simp at h; subst h; simp; omega
    | succ k =>
      simp at h
      have := ih k h
      simp only [List.set_cons_succ, List.map_cons, List.sum_cons]
      omega

theorem remaining_decreases {s s' : St} {l : Label} (hs : Step s l s') (hl : l ≠ .cancel) :
    remaining s' < remaining s := by
  cases hs with
  | skipNil h1 h2 => simp only [remaining, h1, tailCost_eq h2, cost]; omega
  | start h1 h2 => simp only [remaining, h1]; omega
  | finishPlain h1 h2 => simp only [remaining, h1, tailCost_eq h2, cost]; omega
  | finishBatch parts h1 h2 =>
    simp only [remaining, h1, tailCost_eq h2, cost, sum_weight_running _ (fansOf_pc parts)]; omega
  | recv h1 => simp only [remaining, h1]; omega
  | abort h1 _ => simp only [remaining, h1]; omega
  | fanFinish k f h1 h2 h3 =>
    have := sum_weight_set s.fans k f { f with pc := .sending } h1
    simp only [fanWeight, h3] at this
    simp only [remaining, h2]; omega
  | fanRecv k f h1 h2 h3 =>
    have := sum_weight_set s.fans k f { f with pc := .finished } h1
    simp only [fanWeight, h3] at this
    simp only [remaining, h2]; omega
  | fanAbort k f h1 h2 h3 _ =>
    have := sum_weight_set s.fans k f { f with pc := .finished } h1
    simp only [fanWeight, h3] at this
    simp only [remaining, h2]; omega
  | waitDone h1 _ => simp only [remaining, h1]; omega
  | finish h1 h2 => simp only [remaining, h1]; omega
  | cancel => exact absurd rfl hl

theorem remaining_cancel (s : St) : remaining { s with ctxDone := true } = remaining s := rfl

/-- in any run, the number of steps other than `cancel` is bounded by the remaining -/
theorem runLabels_remaining {s s' : St} {ls : List Label} (h : runLabels s ls = some s') :
    (ls.filter (fun l => l != .cancel)).length + remaining s' ≤ remaining s := by
  induction ls generalizing s with
  | nil => simp [runLabels] at h; subst h; simp
  | cons l ls ih =>
    simp only [runLabels] at h
    split at h
    · rename_i s1 hs1
      have h1 := ih h
      by_cases hl : l = .cancel
      · subst hl
        simp only [step] at hs1
        injection hs1 with hs1; subst hs1
        rw [remaining_cancel] at h1
        simpa using h1
      · have := remaining_decreases (step_inv hs1) hl
        simp only [List.filter_cons, bne_iff_ne, ne_eq, hl, not_false_eq_true, if_true,
          List.length_cons]
        omega
    · cases h

theorem reachable_runLabels {elems : List Elem} {s s' : St} {ls : List Label}
    (hr : Reachable elems s) (h : runLabels s ls = some s') : Reachable elems s' := by
  induction ls generalizing s with
  | nil => simp [runLabels] at h; subst h; exact hr
  | cons l ls ih =>
    simp only [runLabels] at h
    split at h
    · rename_i s1 hs1; exact ih (.step l hr hs1) h
    · cases h

/-- every reachable state is `runLabels` of some schedule from the initial state -/
theorem reachable_iff_runLabels {elems : List Elem} {s : St} :
    Reachable elems s ↔ ∃ ls, runLabels (init elems) ls = some s := by
  constructor
  · intro hr
    induction hr with
    | init => exact ⟨[], rfl⟩
    | step l _ hs ih =>
      obtain ⟨ls, hls⟩ := ih
      refine ⟨ls ++ [l], ?_⟩
      have : ∀ (t : St) (ls : List Label) (u : St), runLabels t ls = some u →
          runLabels t (ls ++ [l]) = step u l := by
        intro t ls
        induction ls generalizing t with
        | nil => intro u hu; simp [runLabels] at hu; subst hu; simp only [List.nil_append, runLabels]; cases step t l <;> rfl
        | cons a as ih2 =>
          intro u hu
          simp only [List.cons_append, runLabels] at hu ⊢
          split at hu
          · rename_i t1 ht1; exact ih2 t1 u hu
          · cases hu
      rw [this _ _ _ hls, hs]
  · rintro ⟨ls, hls⟩
    exact reachable_runLabels .init hls

/-- from every reachable state the sequence can run to completion without cancellation -/
theorem can_finish {elems : List Elem} {s : St} (hr : Reachable elems s) :
    ∃ ls s', (∀ l ∈ ls, l ≠ Label.cancel) ∧ runLabels s ls = some s' ∧ s'.pc = .done := by
  generalize hn : remaining s = n
  induction n using Nat.strongRecOn generalizing s with
  | _ n ih =>
    by_cases hd : s.pc = .done
    · exact ⟨[], s, by simp, rfl, hd⟩
    · obtain ⟨l, s1, hl, hs1⟩ := progress hr hd
      have hlt := remaining_decreases (step_inv hs1) hl
      obtain ⟨ls, s', h1, h2, h3⟩ := ih (remaining s1) (hn ▸ hlt) (.step l hr hs1) rfl
      refine ⟨l :: ls, s', ?_, ?_, h3⟩
      · intro x hx
        simp only [List.mem_cons] at hx
        rcases hx with rfl | hx
        · exact hl
        · exact h1 x hx
      · simp only [runLabels, hs1]; exact h2

end Tea.Runtime.Seq
