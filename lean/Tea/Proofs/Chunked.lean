import Tea.Proofs.Paste
import Tea.Proofs.MouseProofs
/-
Helper lemmas for C15 (input longer than the read buffer): the `more` flag
(`canHaveMoreData`) only adds early `(0, nil)` returns; the decode loop with
`more = true` emits a prefix of what it emits with `more = false`; the reader on
one full read followed by EOF; the generic two-read decomposition.
No property theorems here.
-/
namespace Tea.Input
open Tea Tea.Utf8

/-! ### the `more` flag only holds back -/

/-- when the rune loop with `more = true` does not take the early "incomplete" return,
it computes exactly what it computes with `more = false` -/
theorem runeLoop_true_false (alt : Bool) : ∀ (fuel : Nat) (b : Bytes) (i : Nat) (acc : List Nat),
    (runeLoop alt true fuel b i acc).2.2 = false →
      runeLoop alt false fuel b i acc = runeLoop alt true fuel b i acc := by
  intro fuel
  induction fuel with
  | zero => intro b i acc _; rfl
  | succ f ih =>
    intro b i acc
    simp only [runeLoop]
    split
    · generalize decodeRune (b.drop i) = dr
      obtain ⟨r, rw⟩ := dr
      simp only [Bool.and_true, Bool.and_false, Bool.false_and, Bool.false_eq_true, if_false]
      split
      · intro h; simp at h
      · split
        · intro _; rfl
        · split
          · intro _; rfl
          · exact ih b (i + rw) (r :: acc)
    · intro _; rfl

/-- the tail of detectOneMsg: a non-zero width with `more = true` is the answer with
`more = false` -/
theorem detectTail_true_false {b : Bytes} {w : Nat} {m : Option Msg}
    (h : detectTail b true = .ok (w, m)) (hw : w ≠ 0) : detectTail b false = .ok (w, m) := by
  unfold detectTail at h ⊢
  cases hi : idx b 0 with
  | error e => rw [hi] at h; cases h
  | ok b0 =>
    rw [hi] at h
    dsimp only at h ⊢
    generalize (if (b0 == 0x1b) = true then 1 else 0) = i0 at h ⊢
    generalize (b0 == 0x1b) = alt at h ⊢
    by_cases hn : (decide (i0 < b.length) && b.getD i0 1 == 0) = true
    · rw [if_pos hn] at h ⊢
      exact h
    · rw [if_neg hn] at h ⊢
      by_cases hinc : (runeLoop alt true (b.length + 1) b i0 []).2.2 = true
      · rw [if_pos hinc] at h
        injection h with h; injection h with h1 h2
        exact absurd h1.symm hw
      · rw [if_neg hinc] at h
        have hinc' : (runeLoop alt true (b.length + 1) b i0 []).2.2 = false := by
          simpa using hinc
        rw [runeLoop_true_false _ _ _ _ _ hinc']
        rw [if_neg hinc]
        by_cases hge : (decide ((runeLoop alt true (b.length + 1) b i0 []).1 ≥ b.length) && true) = true
        · rw [if_pos hge] at h
          injection h with h; injection h with h1 h2
          exact absurd h1.symm hw
        · rw [if_neg hge] at h
          rw [if_neg (by simp)]
          exact h

/-- 1(a): `canHaveMoreData` only holds back: a non-zero width with `more = true` is the
answer with `more = false` -/
theorem detectOneMsg_true_false {T : Table} {lens : List Nat} {b : Bytes} {w : Nat} {m : Option Msg}
    (h : detectOneMsg T lens b true = .ok (w, m)) (hw : w ≠ 0) :
    detectOneMsg T lens b false = .ok (w, m) := by
  unfold detectOneMsg at h ⊢
  simp only [Bool.true_and, Bool.false_and, Bool.false_eq_true, if_false] at h ⊢
  split at h
  · injection h with h; injection h with h1 h2
    exact absurd h1.symm hw
  · split
    · rename_i e he; rw [he] at h; exact h
    · rename_i w' m' he; rw [he] at h; exact h
    · rename_i he
      rw [he] at h
      simp only at h ⊢
      split
      · rename_i w' m' hf; rw [hf] at h; exact h
      · rename_i hf
        rw [hf] at h
        simp only at h ⊢
        split
        · rename_i w' m' hp; rw [hp] at h; exact h
        · rename_i hp
          rw [hp] at h
          simp only at h ⊢
          split
          · rename_i w' m' hs; rw [hs] at h; exact h
          · rename_i hs
            rw [hs] at h
            exact detectTail_true_false h hw

/-! ### the decode loop: `more = true` emits a prefix of `more = false` -/

/-- 1(b), accumulator form: if the loop with `more = true` stops with outputs `out` and
left-over `left`, the loop with `more = false` on the same buffer is the loop with
`more = false` restarted on `left` with `out` already emitted -/
theorem decodeLoop_true_false (T : Table) (lens : List Nat) :
    ∀ (fuel : Nat) (b : Bytes) (acc : List Out) (out : List Out) (left : Bytes),
      b.length < fuel →
      decodeLoop T lens true fuel b acc = .ok (out, left) →
      decodeLoop T lens false fuel b acc = decodeLoop T lens false (left.length + 1) left out.reverse := by
  intro fuel
  induction fuel with
  | zero => intro b acc out left h; omega
  | succ f ih =>
    intro b acc out left hf h
    generalize hR : decodeLoop T lens false (left.length + 1) left out.reverse = R
    simp only [decodeLoop] at h ⊢
    by_cases he : b.isEmpty = true
    · rw [if_pos he] at h ⊢
      injection h with h; injection h with h1 h2
      subst h1; subst h2
      rw [← hR]
      simp [decodeLoop]
    · rw [if_neg he] at h ⊢
      have hb : b ≠ [] := by simpa using he
      have hbl : 0 < b.length := List.length_pos_iff.mpr hb
      cases hd : detectOneMsg T lens b true with
      | error e => rw [hd] at h; cases h
      | ok r =>
        obtain ⟨w, m⟩ := r
        rw [hd] at h
        simp only at h
        by_cases hw : (w == 0) = true
        · rw [if_pos hw] at h
          injection h with h; injection h with h1 h2
          subst h1; subst h2
          rw [← hR, List.reverse_reverse,
            ← decodeLoop_fuel T lens false (f + 1) (b.length + 1) b acc (by omega) (by omega)]
          simp only [decodeLoop]
          rw [if_neg he]
        · rw [if_neg hw] at h
          have hw' : w ≠ 0 := by simpa using hw
          rw [detectOneMsg_true_false hd hw']
          simp only
          rw [if_neg hw, ← hR]
          exact ih _ _ _ _ (by rw [List.length_drop]; omega) h

/-- the left-over of a `more = false` run is a fixed point: decoding it again (what the EOF
branch of the reader does) emits nothing and leaves it unchanged -/
theorem decodeLoop_false_left_fixed (T : Table) (lens : List Nat) (more : Bool) :
    ∀ (fuel : Nat) (b : Bytes) (acc : List Out) (out : List Out) (left : Bytes),
      b.length < fuel →
      decodeLoop T lens more fuel b acc = .ok (out, left) →
      decodeLoop T lens more (left.length + 1) left [] = .ok ([], left) := by
  intro fuel
  induction fuel with
  | zero => intro b acc out left h; omega
  | succ f ih =>
    intro b acc out left hf h
    simp only [decodeLoop] at h
    by_cases he : b.isEmpty = true
    · rw [if_pos he] at h
      injection h with h; injection h with h1 h2
      subst h2
      simp [decodeLoop]
    · rw [if_neg he] at h
      have hb : b ≠ [] := by simpa using he
      have hbl : 0 < b.length := List.length_pos_iff.mpr hb
      cases hd : detectOneMsg T lens b more with
      | error e => rw [hd] at h; cases h
      | ok r =>
        obtain ⟨w, m⟩ := r
        rw [hd] at h
        simp only at h
        by_cases hw : (w == 0) = true
        · rw [if_pos hw] at h
          injection h with h; injection h with h1 h2
          subst h2
          simp only [decodeLoop]
          rw [if_neg he, hd]
          simp only
          rw [if_pos hw]
          rfl
        · rw [if_neg hw] at h
          have hw' : w ≠ 0 := by simpa using hw
          exact ih _ _ _ _ (by rw [List.length_drop]; omega) h

/-- 1(b): outputs of the `more = true` run are a prefix of the outputs of the `more = false`
run on the same buffer; the rest is the `more = false` decoding of the left-over -/
theorem decodeLoop_true_prefix (T : Table) (lens : List Nat) (b : Bytes) (out : List Out) (left : Bytes)
    (h : decodeLoop T lens true (b.length + 1) b [] = .ok (out, left)) :
    decodeLoop T lens false (b.length + 1) b [] =
      match decodeLoop T lens false (left.length + 1) left [] with
      | .ok (out2, left2) => .ok (out ++ out2, left2)
      | .error e => .error e := by
  rw [decodeLoop_true_false T lens _ b [] out left (by omega) h, decodeLoop_acc]
  simp only [List.reverse_reverse]
  cases decodeLoop T lens false (left.length + 1) left [] with
  | error e => rfl
  | ok r => rfl

/-! ### the reader -/

/-- the reader on exactly two reads, the second one short: the first read's outputs, then the
outputs of the second read (which decodes left-over ++ second chunk with `more = false`);
the EOF flush adds nothing. -/
theorem readAll_two (T : Table) (lens : List Nat) (eof : Bool) (c1 c2 : Bytes) (left : Bytes)
    (hc2 : c2.length ≠ bufSize) (o1 o2 : List Out) (l1 l2 : Bytes)
    (h1 : processRead T lens left c1 = .ok (o1, l1))
    (h2 : processRead T lens l1 c2 = .ok (o2, l2)) :
    readAll T lens eof [c1, c2] left [] = .ok (o1 ++ o2, l2) := by
  simp only [readAll, h1, h2, List.nil_append]
  cases eof with
  | false => simp
  | true =>
    simp only [if_true]
    have hm : (c2.length == bufSize) = false := by simpa using hc2
    unfold processRead at h2
    rw [hm] at h2
    rw [decodeLoop_false_left_fixed T lens false _ _ _ _ _ (by omega) h2]
    simp

/-- the reader on one read: -/
theorem readAll_one_short (T : Table) (lens : List Nat) (eof : Bool) (c left : Bytes) (acc : List Out)
    (hc : c.length ≠ bufSize) (o : List Out) (l : Bytes)
    (h : processRead T lens left c = .ok (o, l)) :
    readAll T lens eof [c] left acc = .ok (acc ++ o, l) := by
  simp only [readAll, h]
  cases eof with
  | false => simp
  | true =>
    simp only [if_true]
    have hm : (c.length == bufSize) = false := by simpa using hc
    unfold processRead at h
    rw [hm] at h
    rw [decodeLoop_false_left_fixed T lens false _ _ _ _ _ (by omega) h]
    simp

/-- 1(c): one completely filled read followed by EOF is the one-shot decoding of
left-over ++ chunk -/
theorem readAll_full_then_eof (T : Table) (lens : List Nat) (hl : ∀ l ∈ lens, 0 < l) (c left : Bytes)
    (hc : c.length = bufSize) :
    readAll T lens true [c] left [] =
      decodeLoop T lens false ((left ++ c).length + 1) (left ++ c) [] := by
  obtain ⟨out, left', h1, _⟩ := processRead_spec T lens hl left c
  simp only [readAll, h1, List.nil_append, if_true]
  unfold processRead at h1
  have hm : (c.length == bufSize) = true := by simpa using hc
  rw [hm] at h1
  rw [decodeLoop_true_prefix T lens _ out left' h1]
  cases decodeLoop T lens false (left'.length + 1) left' [] with
  | error e => rfl
  | ok r => rfl

end Tea.Input
