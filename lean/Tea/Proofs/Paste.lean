import Tea.Proofs.InputReader
/-
Helper lemmas for C10 (bracketed paste): `indexOf` versus `List.IsInfix`, the end marker
has no non-trivial border, the value of detectOneMsg on a buffer that starts with the
start marker, the paste rune loop, and the reader steps while a paste is open.
No property theorems here.
-/
namespace Tea
open Tea

/-! ### `indexOf` and `List.IsInfix` (any pattern) -/

/-- `bytes.Index` returns -1 exactly when the pattern does not occur. -/
theorem indexOf_eq_none_iff (pat : Bytes) (q : Bytes) : indexOf pat q = none ↔ ¬ pat <:+: q := by
  induction q with
  | nil =>
    simp only [indexOf]
    cases pat with
    | nil => simp
    | cons a as => simp
  | cons x xs ih =>
    simp only [indexOf]
    rw [List.infix_cons_iff]
    by_cases hp : isPrefix pat (x :: xs) = true
    · rw [if_pos hp]
      have := isPrefix_iff.1 hp
      simp [this]
    · rw [if_neg hp]
      have : ¬ pat <+: x :: xs := fun h => hp (isPrefix_iff.2 h)
      simp [ih, this]

/-- `bytes.Index` returns the FIRST occurrence: an occurrence at offset `s.length` bounds it. -/
theorem indexOf_le_of_occurrence (pat : Bytes) (s t : Bytes) :
    ∃ i, indexOf pat (s ++ pat ++ t) = some i ∧ i ≤ s.length := by
  induction s with
  | nil =>
    refine ⟨0, ?_, Nat.le_refl _⟩
    have hpre : isPrefix pat (pat ++ t) = true := isPrefix_iff.2 (List.prefix_append _ _)
    simp only [List.nil_append]
    generalize hl : pat ++ t = l at hpre
    cases l with
    | nil =>
      have : pat = [] := (List.append_eq_nil_iff.1 hl).1
      subst this
      simp [indexOf]
    | cons y ys =>
      simp only [indexOf]
      rw [if_pos hpre]
  | cons x xs ih =>
    obtain ⟨i, hi, hle⟩ := ih
    simp only [List.cons_append, indexOf]
    by_cases hp : isPrefix pat (x :: (xs ++ pat ++ t)) = true
    · exact ⟨0, by rw [if_pos hp], Nat.zero_le _⟩
    · refine ⟨i + 1, ?_, by simp; omega⟩
      rw [if_neg hp, hi]
      rfl

/-- the value of `indexOf` is an occurrence -/
theorem indexOf_some_prefix (pat : Bytes) : ∀ (q : Bytes) (i : Nat), indexOf pat q = some i →
    pat <+: q.drop i := by
  intro q
  induction q with
  | nil =>
    intro i h
    simp only [indexOf] at h
    split at h
    · rename_i he
      have : pat = [] := by simpa using he
      subst this
      simp
    · cases h
  | cons x xs ih =>
    intro i h
    simp only [indexOf] at h
    split at h
    · rename_i hp
      injection h with h
      subst h
      simpa using isPrefix_iff.1 hp
    · cases hxs : indexOf pat xs with
      | none => simp [hxs] at h
      | some j =>
        simp [hxs] at h
        subst h
        simpa using ih j hxs

end Tea

namespace Tea.Input
open Tea Tea.Utf8

/-! ### the end marker has no non-trivial border -/

/-- an occurrence of the end marker that starts inside `s` and is a prefix of
`s ++ bpEnd ++ t` lies completely inside `s`: the marker cannot overlap itself, because
its first byte ESC occurs in it only at position 0. -/
theorem bpEnd_no_border (s t : Bytes) (h : bpEnd <+: s ++ bpEnd ++ t) : s = [] ∨ bpEnd <+: s := by
  rcases s with _ | ⟨a, _ | ⟨b, _ | ⟨c, _ | ⟨d, _ | ⟨e, _ | ⟨f, s⟩⟩⟩⟩⟩⟩
  · exact Or.inl rfl
  · exfalso; revert h; simp [bpEnd]
  · exfalso; revert h; simp [bpEnd]
  · exfalso; revert h; simp [bpEnd]
  · exfalso; revert h; simp [bpEnd]
  · exfalso; revert h; simp [bpEnd]
  · right
    refine List.prefix_of_prefix_length_le h ?_ (by simp [bpEnd])
    rw [List.append_assoc]
    exact List.prefix_append _ _

/-- `bytes.Index(body, bpEnd)` on `payload ++ end marker ++ rest` finds the end marker right
after the payload when the payload does not contain it. -/
theorem indexOf_end (p rest : Bytes) (hp : ¬ bpEnd <:+: p) :
    indexOf bpEnd (p ++ bpEnd ++ rest) = some p.length := by
  induction p with
  | nil =>
    have : isPrefix bpEnd (bpEnd ++ rest) = true := isPrefix_iff.2 (List.prefix_append _ _)
    revert this
    simp [indexOf, bpEnd]
  | cons x xs ih =>
    have hxs : ¬ bpEnd <:+: xs := fun h => hp (List.infix_cons h)
    have hnp : ¬ isPrefix bpEnd (x :: (xs ++ bpEnd ++ rest)) = true := by
      intro h
      have h' : bpEnd <+: (x :: xs) ++ bpEnd ++ rest := by simpa using isPrefix_iff.1 h
      rcases bpEnd_no_border _ _ h' with h1 | h1
      · cases h1
      · exact hp h1.isInfix
    simp only [List.cons_append, indexOf]
    rw [if_neg hnp, ih hxs]
    rfl

/-- first occurrence is unique: if the payload does not contain the end marker, any other
way of writing the same bytes as `s ++ bpEnd ++ t` has `s` at least as long as the payload. -/
theorem bpEnd_first (p r s t : Bytes) (hp : ¬ bpEnd <:+: p)
    (h : p ++ bpEnd ++ r = s ++ bpEnd ++ t) : p.length ≤ s.length := by
  obtain ⟨i, hi, hle⟩ := indexOf_le_of_occurrence bpEnd s t
  rw [← h, indexOf_end p r hp] at hi
  injection hi with hi
  omega

/-- a proper prefix of `payload ++ end marker` contains no end marker -/
theorem no_bpEnd_in_proper_prefix (p q : Bytes) (hp : ¬ bpEnd <:+: p)
    (hq : q <+: p ++ bpEnd) (hne : q ≠ p ++ bpEnd) : ¬ bpEnd <:+: q := by
  intro hin
  obtain ⟨s, t, hst⟩ := hin
  obtain ⟨u, hu⟩ := hq
  have hune : u ≠ [] := by
    intro h; subst h; exact hne (by simpa using hu)
  have h1 : p ++ bpEnd ++ [] = s ++ bpEnd ++ (t ++ u) := by
    rw [List.append_nil, ← hu, ← hst]; simp [List.append_assoc]
  have hle := bpEnd_first p [] s (t ++ u) hp h1
  have hlen := congrArg List.length h1
  simp only [List.length_append, List.length_nil] at hlen
  have : 0 < u.length := List.length_pos_iff.mpr hune
  omega

/-! ### detectOneMsg on a buffer that starts with the start marker -/

theorem detectMouse_bpStart (body : Bytes) : detectMouse (bpStart ++ body) = .ok none := by
  simp [detectMouse, bpStart, pure, Except.pure]

theorem detectReportFocus_bpStart (body : Bytes) : detectReportFocus (bpStart ++ body) = none := by
  simp [detectReportFocus, bpStart]

/-- the message a completed paste with payload `p` produces -/
def pasteMsg (p : Bytes) : Msg :=
  .key { type := keyRunes, paste := true, runes := pasteRunes p.length p, alt := false }

theorem detectBracketedPaste_bpStart (body : Bytes) :
    detectBracketedPaste (bpStart ++ body) =
      match indexOf bpEnd body with
      | none => some (0, none)
      | some i => some (12 + i, some (pasteMsg (body.take i))) := by
  unfold detectBracketedPaste
  have h1 : (bpStart ++ body).take bpStart.length = bpStart := List.take_left' rfl
  have h2 : (bpStart ++ body).drop bpStart.length = body := List.drop_left' rfl
  rw [h1, h2]
  have h3 : ((bpStart ++ body).length < bpStart.length || bpStart != bpStart) = false := by
    simp
  rw [h3]
  simp only [Bool.false_eq_true, if_false]
  cases indexOf bpEnd body with
  | none => rfl
  | some i =>
    simp only [pasteMsg]
    have : bpStart.length + i + bpEnd.length = 12 + i := by simp [bpStart, bpEnd]; omega
    rw [this]

/-- on a buffer that starts with the start marker, `isIncompleteEvent` can only be true
because some key sequence of the table properly extends the WHOLE buffer -/
theorem isIncompleteEvent_bpStart (T : Table) (body : Bytes) :
    isIncompleteEvent T (bpStart ++ body) = isProperPrefixOfKey T (bpStart ++ body) := by
  have hf := detectReportFocus_bpStart body
  revert hf
  simp only [bpStart, List.cons_append, List.nil_append]
  intro hf
  unfold isIncompleteEvent
  simp only [hf]
  cases isProperPrefixOfKey T (27 :: 91 :: 50 :: 48 :: 48 :: 126 :: body) <;>
    simp [isParam, isInter, List.dropWhile]


/-- no key sequence of the table begins with the bracketed-paste start marker (true of the
real table: decidable, see `startFreeB`) -/
def StartFree (T : Table) : Prop := ∀ e ∈ T, ¬ bpStart <+: e.seq

/-- Boolean form of `StartFree`, for `decide` on a concrete table -/
def startFreeB (T : Table) : Bool := T.all (fun e => !isPrefix bpStart e.seq)

theorem startFree_of_B {T : Table} (h : startFreeB T = true) : StartFree T := by
  intro e he hpre
  have := (List.all_eq_true.1 h) e he
  rw [isPrefix_iff.2 hpre] at this
  cases this

theorem isProperPrefixOfKey_eq_false {T : Table} {b : Bytes}
    (h : ∀ e ∈ T, b.length < e.seq.length → ¬ b <+: e.seq) : isProperPrefixOfKey T b = false := by
  unfold isProperPrefixOfKey
  rw [List.any_eq_false]
  intro e he
  simp only [Bool.and_eq_true, decide_eq_true_eq, not_and, Bool.not_eq_true]
  intro hlen
  cases hpre : isPrefix b e.seq with
  | false => rfl
  | true => exact absurd (isPrefix_iff.1 hpre) (h e he hlen)

theorem isIncompleteEvent_bpStart_startFree {T : Table} (hT : StartFree T) (body : Bytes) :
    isIncompleteEvent T (bpStart ++ body) = false := by
  rw [isIncompleteEvent_bpStart]
  apply isProperPrefixOfKey_eq_false
  intro e he _ hpre
  exact hT e he ((List.prefix_append _ _).trans hpre)

theorem isIncompleteEvent_bpStart_short {T : Table} (hT : ∀ e ∈ T, e.seq.length ≤ 6) (body : Bytes) :
    isIncompleteEvent T (bpStart ++ body) = false := by
  rw [isIncompleteEvent_bpStart]
  apply isProperPrefixOfKey_eq_false
  intro e he hlen _
  have := hT e he
  simp [bpStart] at hlen
  omega

/-- detectOneMsg on a buffer that starts with the start marker: the answer is decided by
`bytes.Index(body, bpEnd)` alone; key-sequence detection and the rune loop are never reached. -/
theorem detectOneMsg_bpStart (T : Table) (lens : List Nat) (body : Bytes) (more : Bool)
    (hmore : more = false ∨ isIncompleteEvent T (bpStart ++ body) = false) :
    detectOneMsg T lens (bpStart ++ body) more =
      match indexOf bpEnd body with
      | none => .ok (0, none)
      | some i => .ok (12 + i, some (pasteMsg (body.take i))) := by
  unfold detectOneMsg
  have h0 : (more && isIncompleteEvent T (bpStart ++ body)) = false := by
    rcases hmore with h | h <;> simp [h]
  rw [h0, detectMouse_bpStart, detectReportFocus_bpStart, detectBracketedPaste_bpStart]
  simp only [Bool.false_eq_true, if_false]
  cases indexOf bpEnd body <;> rfl

/-! ### the decode loop: accumulator and fuel -/

theorem decodeLoop_acc (T : Table) (lens : List Nat) (more : Bool) :
    ∀ (fuel : Nat) (b : Bytes) (acc : List Out),
      decodeLoop T lens more fuel b acc =
        match decodeLoop T lens more fuel b [] with
        | .ok (out, left) => .ok (acc.reverse ++ out, left)
        | .error e => .error e := by
  intro fuel
  induction fuel with
  | zero => intro b acc; simp [decodeLoop]
  | succ f ih =>
    intro b acc
    simp only [decodeLoop]
    by_cases he : b.isEmpty = true
    · simp [he]
    · simp only [he, Bool.false_eq_true, if_false]
      cases hd : detectOneMsg T lens b more with
      | error e => rfl
      | ok r =>
        obtain ⟨w, m⟩ := r
        simp only
        by_cases hw : (w == 0) = true
        · simp [hw]
        · simp only [hw, Bool.false_eq_true, if_false]
          rw [ih (b.drop w) (_ :: acc), ih (b.drop w) [_]]
          cases decodeLoop T lens more f (b.drop w) [] with
          | error e => rfl
          | ok r => simp

theorem decodeLoop_fuel (T : Table) (lens : List Nat) (more : Bool) :
    ∀ (f1 f2 : Nat) (b : Bytes) (acc : List Out), b.length < f1 → b.length < f2 →
      decodeLoop T lens more f1 b acc = decodeLoop T lens more f2 b acc := by
  intro f1
  induction f1 with
  | zero => intro f2 b acc h; omega
  | succ f ih =>
    intro f2 b acc h1 h2
    cases f2 with
    | zero => omega
    | succ g =>
      simp only [decodeLoop]
      by_cases he : b.isEmpty = true
      · simp [he]
      · simp only [he, Bool.false_eq_true, if_false]
        have hb : b ≠ [] := by simpa using he
        have hbl : 0 < b.length := List.length_pos_iff.mpr hb
        cases hd : detectOneMsg T lens b more with
        | error e => rfl
        | ok r =>
          obtain ⟨w, m⟩ := r
          simp only
          by_cases hw : (w == 0) = true
          · simp [hw]
          · simp only [hw, Bool.false_eq_true, if_false]
            have hw' : w ≠ 0 := by simpa using hw
            apply ih
            · rw [List.length_drop]; omega
            · rw [List.length_drop]; omega


/-! ### reader steps while a paste is open -/

/-- what the reader emits for a completed paste with payload `p`: the paste message, which
accounts for the start marker, the payload and the end marker -/
def pasteOut (p : Bytes) : Out := { msg := some (pasteMsg p), consumed := bpStart ++ p ++ bpEnd }

/-- the read `c` cannot make the decoder hold back a buffer that starts with the start
marker for the "incomplete event" reason: it is a short read, or no key sequence of the
table begins with the start marker (then completely filled reads are fine as well) -/
def ReadOK (T : Table) (c : Bytes) : Prop := c.length ≠ bufSize ∨ StartFree T

theorem ReadOK.hmore {T : Table} {c : Bytes} (h : ReadOK T c) (body : Bytes) :
    (c.length == bufSize) = false ∨ isIncompleteEvent T (bpStart ++ body) = false := by
  rcases h with h | h
  · left; simpa using h
  · right; exact isIncompleteEvent_bpStart_startFree h body

/-- a read that does not complete the end marker: nothing is emitted, everything is kept -/
theorem processRead_paste_silent (T : Table) (lens : List Nat) (q c : Bytes)
    (hc : ReadOK T c) (h : ¬ bpEnd <:+: q ++ c) :
    processRead T lens (bpStart ++ q) c = .ok ([], bpStart ++ q ++ c) := by
  unfold processRead
  simp only [decodeLoop]
  have he : (bpStart ++ q ++ c).isEmpty = false := by simp [bpStart]
  have hd : detectOneMsg T lens (bpStart ++ q ++ c) (c.length == bufSize) = .ok (0, none) := by
    rw [List.append_assoc, detectOneMsg_bpStart T lens (q ++ c) _ (hc.hmore _),
      (indexOf_eq_none_iff bpEnd (q ++ c)).2 h]
  rw [he, hd]
  rfl

/-- the read that completes the end marker: the paste message is emitted first, then the
rest `r` of the buffer is decoded by the same loop as any other input -/
theorem processRead_paste_complete (T : Table) (lens : List Nat) (p q c r : Bytes)
    (hc : ReadOK T c) (hp : ¬ bpEnd <:+: p) (h : q ++ c = p ++ bpEnd ++ r) :
    processRead T lens (bpStart ++ q) c =
      match decodeLoop T lens (c.length == bufSize) (r.length + 1) r [] with
      | .ok (out, left) => .ok (pasteOut p :: out, left)
      | .error e => .error e := by
  unfold processRead
  have hb : bpStart ++ q ++ c = bpStart ++ (p ++ bpEnd ++ r) := by rw [List.append_assoc, h]
  rw [hb]
  have he : (bpStart ++ (p ++ bpEnd ++ r)).isEmpty = false := by simp [bpStart]
  have hd : detectOneMsg T lens (bpStart ++ (p ++ bpEnd ++ r)) (c.length == bufSize)
      = .ok (12 + p.length, some (pasteMsg p)) := by
    rw [detectOneMsg_bpStart T lens _ _ (hc.hmore _), indexOf_end p r hp]
    simp only
    rw [List.append_assoc, List.take_left' rfl]
  have hw : (12 + p.length == 0) = false := by simp
  have hdrop : (bpStart ++ (p ++ bpEnd ++ r)).drop (12 + p.length) = r := by
    have : bpStart ++ (p ++ bpEnd ++ r) = (bpStart ++ p ++ bpEnd) ++ r := by simp [List.append_assoc]
    rw [this]
    exact List.drop_left' (by simp [bpStart, bpEnd]; omega)
  have htake : (bpStart ++ (p ++ bpEnd ++ r)).take (12 + p.length) = bpStart ++ p ++ bpEnd := by
    have : bpStart ++ (p ++ bpEnd ++ r) = (bpStart ++ p ++ bpEnd) ++ r := by simp [List.append_assoc]
    rw [this]
    exact List.take_left' (by simp [bpStart, bpEnd]; omega)
  have key : decodeLoop T lens (c.length == bufSize) ((bpStart ++ (p ++ bpEnd ++ r)).length + 1)
      (bpStart ++ (p ++ bpEnd ++ r)) [] =
      decodeLoop T lens (c.length == bufSize) (bpStart ++ (p ++ bpEnd ++ r)).length r [pasteOut p] := by
    simp only [decodeLoop]
    rw [he, hd]
    simp only [Bool.false_eq_true, if_false, hw, hdrop, htake]
    rfl
  rw [key, decodeLoop_acc,
    decodeLoop_fuel T lens _ _ (r.length + 1) r [] (by simp [bpStart, bpEnd]; omega) (by omega)]
  cases decodeLoop T lens (c.length == bufSize) (r.length + 1) r [] with
  | error e => rfl
  | ok x => rfl

/-- the completing read ends exactly with the end marker -/
theorem processRead_paste_complete_exact (T : Table) (lens : List Nat) (p q c : Bytes)
    (hc : ReadOK T c) (hp : ¬ bpEnd <:+: p) (h : q ++ c = p ++ bpEnd) :
    processRead T lens (bpStart ++ q) c = .ok ([pasteOut p], []) := by
  rw [processRead_paste_complete T lens p q c [] hc hp (by simpa using h)]
  simp [decodeLoop]

/-- after a short completing read the rest of the read is decoded exactly like a fresh
read `r` with no left-over -/
theorem processRead_paste_complete_short (T : Table) (lens : List Nat) (p q c r : Bytes)
    (hc : c.length < bufSize) (hq : ¬ bpEnd <:+: q) (hp : ¬ bpEnd <:+: p) (h : q ++ c = p ++ bpEnd ++ r) :
    processRead T lens (bpStart ++ q) c =
      match processRead T lens [] r with
      | .ok (out, left) => .ok (pasteOut p :: out, left)
      | .error e => .error e := by
  rw [processRead_paste_complete T lens p q c r (Or.inl (Nat.ne_of_lt hc)) hp h]
  have hql : q.length < p.length + 6 := by
    apply Classical.byContradiction
    intro hge
    apply hq
    have h1 : p ++ bpEnd <+: q := by
      refine List.prefix_of_prefix_length_le (l₃ := q ++ c) ?_ (List.prefix_append _ _) ?_
      · rw [h]; exact List.prefix_append _ _
      · simp [bpEnd]; omega
    exact (List.infix_append' p bpEnd []).trans (by simpa using h1.isInfix)
  have hlen := congrArg List.length h
  simp only [List.length_append] at hlen
  have hb6 : bpEnd.length = 6 := rfl
  have hr : r.length < bufSize := by omega
  have e1 : (c.length == bufSize) = false := by simpa using Nat.ne_of_lt hc
  have e2 : (r.length == bufSize) = false := by simpa using Nat.ne_of_lt hr
  unfold processRead
  simp only [List.nil_append, e1, e2]

/-- wherever the decode loop reaches a start marker - whatever was emitted before (`acc`)
and whatever the payload is - it emits the paste and goes on with what follows the end marker -/
theorem decodeLoop_paste_step (T : Table) (lens : List Nat) (more : Bool) (fuel : Nat)
    (p rest : Bytes) (acc : List Out) (hp : ¬ bpEnd <:+: p)
    (hmore : more = false ∨ isIncompleteEvent T (bpStart ++ p ++ bpEnd ++ rest) = false) :
    decodeLoop T lens more (fuel + 1) (bpStart ++ p ++ bpEnd ++ rest) acc =
      decodeLoop T lens more fuel rest (pasteOut p :: acc) := by
  have hb : bpStart ++ p ++ bpEnd ++ rest = bpStart ++ (p ++ bpEnd ++ rest) := by
    simp [List.append_assoc]
  rw [hb] at hmore ⊢
  have he : (bpStart ++ (p ++ bpEnd ++ rest)).isEmpty = false := by simp [bpStart]
  have hd : detectOneMsg T lens (bpStart ++ (p ++ bpEnd ++ rest)) more
      = .ok (12 + p.length, some (pasteMsg p)) := by
    rw [detectOneMsg_bpStart T lens _ _ hmore, indexOf_end p rest hp]
    simp only
    rw [List.append_assoc, List.take_left' rfl]
  have hw : (12 + p.length == 0) = false := by simp
  have hdrop : (bpStart ++ (p ++ bpEnd ++ rest)).drop (12 + p.length) = rest := by
    have : bpStart ++ (p ++ bpEnd ++ rest) = (bpStart ++ p ++ bpEnd) ++ rest := by
      simp [List.append_assoc]
    rw [this]
    exact List.drop_left' (by simp [bpStart, bpEnd]; omega)
  have htake : (bpStart ++ (p ++ bpEnd ++ rest)).take (12 + p.length) = bpStart ++ p ++ bpEnd := by
    have : bpStart ++ (p ++ bpEnd ++ rest) = (bpStart ++ p ++ bpEnd) ++ rest := by
      simp [List.append_assoc]
    rw [this]
    exact List.take_left' (by simp [bpStart, bpEnd]; omega)
  simp only [decodeLoop]
  rw [he, hd]
  simp only [Bool.false_eq_true, if_false, hw, hdrop, htake]
  rfl

/-- wherever the decode loop reaches a start marker whose end marker has not arrived, it
stops and keeps everything from the start marker on as the left-over -/
theorem decodeLoop_paste_open (T : Table) (lens : List Nat) (more : Bool) (fuel : Nat)
    (q : Bytes) (acc : List Out) (hq : ¬ bpEnd <:+: q)
    (hmore : more = false ∨ isIncompleteEvent T (bpStart ++ q) = false) :
    decodeLoop T lens more (fuel + 1) (bpStart ++ q) acc = .ok (acc.reverse, bpStart ++ q) := by
  have he : (bpStart ++ q).isEmpty = false := by simp [bpStart]
  have hd : detectOneMsg T lens (bpStart ++ q) more = .ok (0, none) := by
    rw [detectOneMsg_bpStart T lens q more hmore, (indexOf_eq_none_iff bpEnd q).2 hq]
  simp only [decodeLoop]
  rw [he, hd]
  rfl

/-! ### the whole reader while a paste is open -/

/-- reads that do not complete the end marker change nothing but the left-over -/
theorem readAll_paste_silent (T : Table) (lens : List Nat) (eof : Bool) (posts : List Bytes) :
    ∀ (cs : List Bytes) (q : Bytes) (acc : List Out), (∀ c ∈ cs, ReadOK T c) →
      ¬ bpEnd <:+: q ++ cs.flatten →
      readAll T lens eof (cs ++ posts) (bpStart ++ q) acc =
        readAll T lens eof posts (bpStart ++ q ++ cs.flatten) acc := by
  intro cs
  induction cs with
  | nil => intro q acc _ _; simp
  | cons c cs ih =>
    intro q acc hcs hno
    have hc : ReadOK T c := hcs c (by simp)
    have hno1 : ¬ bpEnd <:+: q ++ c := by
      intro h
      apply hno
      refine h.trans ?_
      rw [List.flatten_cons, ← List.append_assoc]
      exact (List.prefix_append _ _).isInfix
    simp only [List.cons_append, readAll]
    rw [processRead_paste_silent T lens q c hc hno1]
    simp only [List.append_nil]
    rw [List.append_assoc bpStart q c, ih (q ++ c) acc (fun c' h => hcs c' (by simp [h]))
      (by simpa [List.append_assoc] using hno)]
    simp [List.append_assoc]

/-- empty reads with nothing held back do nothing -/
theorem readAll_empty_reads (T : Table) (lens : List Nat) (eof : Bool) (posts : List Bytes) :
    ∀ (cs : List Bytes) (acc : List Out), (∀ c ∈ cs, c = []) →
      readAll T lens eof (cs ++ posts) [] acc = readAll T lens eof posts [] acc := by
  intro cs
  induction cs with
  | nil => intro acc _; simp
  | cons c cs ih =>
    intro acc h
    have : c = [] := h c (by simp)
    subst this
    simp only [List.cons_append, readAll]
    have : processRead T lens [] [] = .ok ([], []) := by simp [processRead, decodeLoop]
    rw [this]
    simp only [List.append_nil]
    exact ih acc (fun c' h' => h c' (by simp [h']))

/-- general form: reads `cs₁` that do not complete the end marker, then the read `c` that
does (with `r` the bytes of `c` after the end marker), then anything -/
theorem readAll_paste_general (T : Table) (lens : List Nat) (eof : Bool) (p r : Bytes)
    (cs₁ : List Bytes) (c : Bytes) (cs₂ : List Bytes) (acc : List Out)
    (hcs : ∀ c' ∈ cs₁, ReadOK T c') (hc : ReadOK T c) (hp : ¬ bpEnd <:+: p)
    (hq : ¬ bpEnd <:+: cs₁.flatten) (h : cs₁.flatten ++ c = p ++ bpEnd ++ r) :
    readAll T lens eof (cs₁ ++ c :: cs₂) bpStart acc =
      match decodeLoop T lens (c.length == bufSize) (r.length + 1) r [] with
      | .ok (out, left) => readAll T lens eof cs₂ left (acc ++ pasteOut p :: out)
      | .error e => .error e := by
  have h0 := readAll_paste_silent T lens eof (c :: cs₂) cs₁ [] acc hcs (by simpa using hq)
  simp only [List.append_nil] at h0
  rw [h0]
  simp only [readAll]
  rw [processRead_paste_complete T lens p cs₁.flatten c r hc hp h]
  cases decodeLoop T lens (c.length == bufSize) (r.length + 1) r [] with
  | error e => rfl
  | ok x => rfl

/-- the reads divide `payload ++ end marker` exactly: one paste message, nothing held back -/
theorem readAll_paste_exact (T : Table) (lens : List Nat) (eof : Bool) (p : Bytes)
    (hp : ¬ bpEnd <:+: p) (posts : List Bytes) :
    ∀ (cs : List Bytes) (q : Bytes) (acc : List Out), (∀ c ∈ cs, ReadOK T c) →
      ¬ bpEnd <:+: q → q ++ cs.flatten = p ++ bpEnd →
      readAll T lens eof (cs ++ posts) (bpStart ++ q) acc =
        readAll T lens eof posts [] (acc ++ [pasteOut p]) := by
  intro cs
  induction cs with
  | nil =>
    intro q acc _ hq h
    exfalso
    apply hq
    have : q = p ++ bpEnd := by simpa using h
    rw [this]
    exact (List.infix_append' p bpEnd []).trans (by simp)
  | cons c cs ih =>
    intro q acc hcs hq h
    have hc : ReadOK T c := hcs c (by simp)
    have hcs' : ∀ c' ∈ cs, ReadOK T c' := fun c' h' => hcs c' (by simp [h'])
    by_cases hin : bpEnd <:+: q ++ c
    · -- `c` completes the end marker, which must be the end of `q ++ c`
      obtain ⟨s, t, hst⟩ := hin
      have h1 : p ++ bpEnd ++ [] = s ++ bpEnd ++ (t ++ cs.flatten) := by
        rw [List.append_nil, ← h, List.flatten_cons, ← List.append_assoc q, ← hst]
        simp [List.append_assoc]
      have hle := bpEnd_first p [] s (t ++ cs.flatten) hp h1
      have hlen := congrArg List.length h1
      simp only [List.length_append, List.length_nil] at hlen
      have ht : t = [] := List.eq_nil_of_length_eq_zero (by omega)
      have hfl : cs.flatten = [] := List.eq_nil_of_length_eq_zero (by omega)
      have hqc : q ++ c = p ++ bpEnd := by
        rw [← h, List.flatten_cons, hfl, List.append_nil]
      have hall : ∀ c' ∈ cs, c' = [] := by
        intro c' hc'
        exact List.flatten_eq_nil_iff.1 hfl c' hc'
      simp only [List.cons_append, readAll]
      rw [processRead_paste_complete_exact T lens p q c hc hp hqc]
      simp only
      exact readAll_empty_reads T lens eof posts cs _ hall
    · simp only [List.cons_append, readAll]
      rw [processRead_paste_silent T lens q c hc hin]
      simp only [List.append_nil]
      rw [List.append_assoc bpStart q c]
      exact ih (q ++ c) acc hcs' hin (by simpa [List.append_assoc] using h)

/-- while no end marker has arrived nothing at all is emitted, whether the input then ends
(`eof = true`: the final decode with `canHaveMoreData = false` still waits for the end
marker) or the program is cancelled -/
theorem readAll_paste_open (T : Table) (lens : List Nat) (eof : Bool) (cs : List Bytes)
    (acc : List Out) (hcs : ∀ c ∈ cs, ReadOK T c) (h : ¬ bpEnd <:+: cs.flatten) :
    readAll T lens eof cs bpStart acc = .ok (acc, bpStart ++ cs.flatten) := by
  have h0 := readAll_paste_silent T lens eof [] cs [] acc hcs (by simpa using h)
  simp only [List.append_nil] at h0
  rw [h0]
  cases eof with
  | false => simp [readAll]
  | true =>
    have h1 := processRead_paste_silent T lens cs.flatten [] (Or.inl (by decide)) (by simpa using h)
    unfold processRead at h1
    simp only [List.append_nil, List.length_nil] at h1
    have h2 : ((0 : Nat) == bufSize) = false := by decide
    rw [h2] at h1
    simp only [readAll, if_true]
    rw [h1]
    simp

/-! ### the paste rune loop -/

/-- specification of the paste rune loop, without fuel: decode one rune at a time with
`utf8.DecodeRune`, drop every result equal to `utf8.RuneError`, advance by the size -/
def validRunes (p : Bytes) : List Nat :=
  if _ : p = [] then []
  else
    if (decodeRune p).1 = runeError then validRunes (p.drop (decodeRune p).2)
    else (decodeRune p).1 :: validRunes (p.drop (decodeRune p).2)
termination_by p.length
decreasing_by
  all_goals
    have hne : ¬ p = [] := by assumption
    have h1 := decodeRune_size_pos p hne
    have h2 : 0 < p.length := List.length_pos_iff.mpr hne
    rw [List.length_drop]
    omega

theorem validRunes_nil : validRunes [] = [] := by
  rw [validRunes]; simp

theorem validRunes_of_ne_nil {p : Bytes} (h : p ≠ []) :
    validRunes p =
      if (decodeRune p).1 = runeError then validRunes (p.drop (decodeRune p).2)
      else (decodeRune p).1 :: validRunes (p.drop (decodeRune p).2) := by
  rw [validRunes]; simp [h]

/-- any fuel `≥ length` is enough: every step consumes at least one byte -/
theorem pasteRunes_eq_validRunes : ∀ (fuel : Nat) (p : Bytes), p.length ≤ fuel →
    pasteRunes fuel p = validRunes p := by
  intro fuel
  induction fuel with
  | zero =>
    intro p h
    have : p = [] := List.eq_nil_of_length_eq_zero (by omega)
    subst this
    simp [pasteRunes, validRunes_nil]
  | succ f ih =>
    intro p h
    cases p with
    | nil => simp [pasteRunes, validRunes_nil]
    | cons x xs =>
      have hne : x :: xs ≠ [] := by simp
      have h1 := decodeRune_size_pos (x :: xs) hne
      rw [validRunes_of_ne_nil hne]
      simp only [pasteRunes]
      have hlen : ((x :: xs).drop (decodeRune (x :: xs)).2).length ≤ f := by
        rw [List.length_drop]; simp at h ⊢; omega
      rw [ih _ hlen]
      by_cases hr : (decodeRune (x :: xs)).1 = runeError
      · simp [hr]
      · simp [hr]

end Tea.Input

namespace Tea.Utf8
open Tea

/-! ### DecodeRune after EncodeRune -/

theorem lead_C : ∀ a < 32, 2 ≤ a → lead (0xC0 + a) = some (2, 0x80, 0xBF) := by decide
theorem lead_E : ∀ a < 16, lead (0xE0 + a) =
    some (3, if a = 0 then 0xA0 else 0x80, if a = 13 then 0x9F else 0xBF) := by decide
theorem lead_F : ∀ a < 5, lead (0xF0 + a) =
    some (4, if a = 0 then 0x90 else 0x80, if a = 4 then 0x8F else 0xBF) := by decide

theorem decodeRune_enc1 (r : Nat) (tl : Bytes) (h : r < 0x80) : decodeRune (r :: tl) = (r, 1) := by
  simp [decodeRune, h]

theorem decodeRune_enc2 (a c : Nat) (tl : Bytes) (ha : 2 ≤ a) (ha' : a < 32) (hc : c < 64) :
    decodeRune ((0xC0 + a) :: (0x80 + c) :: tl) = (64 * a + c, 2) := by
  unfold decodeRune
  simp only [lead_C a ha' ha]
  have h1 : ¬ (0xC0 + a < 0x80) := by omega
  have h2 : ¬ (((0xC0 + a) :: (0x80 + c) :: tl).length < 2) := by simp
  have h3 : (decide (0x80 + c < 0x80) || decide (0xBF < 0x80 + c)) = false := by
    simp; omega
  rw [if_neg h1, if_neg h2, h3]
  simp only [Bool.false_eq_true, if_false, Nat.le_refl, if_true]
  congr 1
  omega


theorem isCont_enc (c : Nat) (hc : c < 64) : isCont (0x80 + c) = true := by
  simp [isCont]; omega

theorem decodeRune_enc3 (a b c : Nat) (tl : Bytes) (ha : a < 16) (hb : b < 64) (hc : c < 64)
    (h0 : a = 0 → 32 ≤ b) (h13 : a = 13 → b < 32) :
    decodeRune ((0xE0 + a) :: (0x80 + b) :: (0x80 + c) :: tl) = (4096 * a + 64 * b + c, 3) := by
  unfold decodeRune
  simp only [lead_E a ha]
  have h1 : ¬ (0xE0 + a < 0x80) := by omega
  have h2 : ¬ (((0xE0 + a) :: (0x80 + b) :: (0x80 + c) :: tl).length < 3) := by simp
  have h3 : (decide (0x80 + b < (if a = 0 then 0xA0 else 0x80)) ||
      decide ((if a = 13 then 0x9F else 0xBF) < 0x80 + b)) = false := by
    by_cases e0 : a = 0
    · have := h0 e0
      simp [e0]; omega
    · by_cases e13 : a = 13
      · have := h13 e13
        simp [e13]; omega
      · simp [e0, e13]; omega
  have h4 : ¬ ((3 : Nat) ≤ 2) := by omega
  rw [if_neg h1, if_neg h2, h3]
  simp only [Bool.false_eq_true, if_false, h4, isCont_enc c hc, Bool.not_true, Nat.le_refl, if_true]
  congr 1
  omega

theorem decodeRune_enc4 (a b c d : Nat) (tl : Bytes) (ha : a < 5) (hb : b < 64) (hc : c < 64)
    (hd : d < 64) (h0 : a = 0 → 16 ≤ b) (h4 : a = 4 → b < 16) :
    decodeRune ((0xF0 + a) :: (0x80 + b) :: (0x80 + c) :: (0x80 + d) :: tl) =
      (262144 * a + 4096 * b + 64 * c + d, 4) := by
  unfold decodeRune
  simp only [lead_F a ha]
  have h1 : ¬ (0xF0 + a < 0x80) := by omega
  have h2 : ¬ (((0xF0 + a) :: (0x80 + b) :: (0x80 + c) :: (0x80 + d) :: tl).length < 4) := by simp
  have h3 : (decide (0x80 + b < (if a = 0 then 0x90 else 0x80)) ||
      decide ((if a = 4 then 0x8F else 0xBF) < 0x80 + b)) = false := by
    by_cases e0 : a = 0
    · have := h0 e0
      simp [e0]; omega
    · by_cases e4 : a = 4
      · have := h4 e4
        simp [e4]; omega
      · simp [e0, e4]; omega
  have h5 : ¬ ((4 : Nat) ≤ 2) := by omega
  have h6 : ¬ ((4 : Nat) ≤ 3) := by omega
  rw [if_neg h1, if_neg h2, h3]
  simp only [Bool.false_eq_true, if_false, h5, h6, isCont_enc c hc, isCont_enc d hd, Bool.not_true]
  congr 1
  omega

/-- `DecodeRune(EncodeRune(r) ++ tl) = (r, len)` for every valid scalar value -/
theorem decodeRune_encodeRune (r : Nat) (hr : validScalar r = true) (tl : Bytes) :
    decodeRune (encodeRune r ++ tl) = (r, (encodeRune r).length) := by
  have hv : r < 0xD800 ∨ (0xDFFF < r ∧ r ≤ 0x10FFFF) := by
    simpa [validScalar] using hr
  unfold encodeRune
  by_cases h1 : r < 0x80
  · rw [if_pos h1]
    exact decodeRune_enc1 r tl h1
  · rw [if_neg h1]
    by_cases h2 : r < 0x800
    · rw [if_pos h2]
      have := decodeRune_enc2 (r / 64) (r % 64) tl (by omega) (by omega) (by omega)
      simp only [List.cons_append, List.nil_append, List.length_cons, List.length_nil]
      rw [this]
      congr 1
      omega
    · rw [if_neg h2]
      have h3 : ((decide (0xD800 ≤ r) && decide (r ≤ 0xDFFF)) || decide (r > 0x10FFFF)) = false := by
        simp; omega
      rw [h3]
      simp only [Bool.false_eq_true, if_false]
      by_cases h4 : r < 0x10000
      · rw [if_pos h4]
        have := decodeRune_enc3 (r / 4096) ((r / 64) % 64) (r % 64) tl (by omega) (by omega) (by omega)
          (by omega) (by omega)
        simp only [List.cons_append, List.nil_append, List.length_cons, List.length_nil]
        rw [this]
        congr 1
        omega
      · rw [if_neg h4]
        have := decodeRune_enc4 (r / 262144) ((r / 4096) % 64) ((r / 64) % 64) (r % 64) tl
          (by omega) (by omega) (by omega) (by omega) (by omega) (by omega)
        simp only [List.cons_append, List.nil_append, List.length_cons, List.length_nil]
        rw [this]
        congr 1
        omega

theorem encodeRune_ne_nil (r : Nat) : encodeRune r ≠ [] := by
  unfold encodeRune
  repeat' split
  all_goals simp

end Tea.Utf8

namespace Tea.Input
open Tea Tea.Utf8

/-- the paste rune loop inverts UTF-8 encoding of valid scalar values, except that U+FFFD
itself is dropped (it is indistinguishable from a decoding error) -/
theorem validRunes_encodeRunes (rs : List Nat) (h : ∀ r ∈ rs, validScalar r = true) :
    validRunes (encodeRunes rs) = rs.filter (fun r => r != runeError) := by
  induction rs with
  | nil => simp [encodeRunes, validRunes_nil]
  | cons r rs ih =>
    have hr : validScalar r = true := h r (by simp)
    have hrs : ∀ r' ∈ rs, validScalar r' = true := fun r' h' => h r' (by simp [h'])
    have henc : encodeRunes (r :: rs) = encodeRune r ++ encodeRunes rs := by
      simp [encodeRunes]
    have hne : encodeRune r ++ encodeRunes rs ≠ [] := by
      intro he
      exact encodeRune_ne_nil r (List.append_eq_nil_iff.1 he).1
    rw [henc, validRunes_of_ne_nil hne, decodeRune_encodeRune r hr]
    simp only
    rw [List.drop_left' rfl, ih hrs, List.filter_cons]
    by_cases e : r = runeError
    · simp [e]
    · simp [e]

end Tea.Input
