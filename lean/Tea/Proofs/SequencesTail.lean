import Tea.Proofs.Sequences
/-
Helper lemmas for C08, second part: the tail of detectOneMsg (NUL, rune runs), unknown CSI
sequences, and the decode loop on a stream of events. No property theorems here.
-/
namespace Tea.Input
open Tea Tea.Utf8

/-- decidable equality of decoder results, so that concrete examples can be closed by `decide` -/
instance instDecidableEqExceptC08 {ε α : Type} [DecidableEq ε] [DecidableEq α] : DecidableEq (Except ε α)
  | .ok a, .ok b => if h : a = b then isTrue (h ▸ rfl) else isFalse (fun h' => h (by injection h'))
  | .error a, .error b => if h : a = b then isTrue (h ▸ rfl) else isFalse (fun h' => h (by injection h'))
  | .ok _, .error _ => isFalse (fun h => by cases h)
  | .error _, .ok _ => isFalse (fun h => by cases h)

/-! ### buffers that do not start with ESC -/

theorem noIntroducer_of_head {c : Nat} {tl : Bytes} (hc : c ≠ 0x1b) : NoIntroducer (c :: tl) = true := by
  have h : (0x1b == c) = false := by simpa using Ne.symm hc
  simp [NoIntroducer, isPrefix, bpStart, h, hc]

theorem unknownCSILen_of_head {c : Nat} {tl : Bytes} (hc : c ≠ 0x1b) : unknownCSILen (c :: tl) = none := by
  unfold unknownCSILen
  split
  · rename_i heq; injection heq with h _; exact absurd h.symm (by simpa using Ne.symm hc)
  · rfl

theorem isIncompleteEvent_of_head (T : Table) {c : Nat} {tl : Bytes} (hc : c ≠ 0x1b) :
    isIncompleteEvent T (c :: tl) = false := by
  simp [isIncompleteEvent, hc]

theorem detectSequence_none {T : Table} {b : Bytes} (lens : List Nat) (h1 : NoKeyPrefix T b)
    (h2 : unknownCSILen b = none) : detectSequence T lens b = none := by
  unfold detectSequence
  rw [lookupLens_eq_none_of_noKey h1, h2]

theorem noKeyPrefix_of_incomparable {T : Table} {p : Bytes} (h : incomparableB T p = true) (rest : Bytes) :
    NoKeyPrefix T (p ++ rest) := by
  intro e he hpre
  have := (List.all_eq_true.1 h) e he
  simp only [Bool.and_eq_true, Bool.not_eq_true', isPrefix_eq_false_iff] at this
  rcases List.prefix_or_prefix_of_prefix hpre (List.prefix_append p rest) with h | h
  · exact this.1 h
  · exact this.2 h

theorem isProperPrefixOfKey_of_incomparable {T : Table} {p : Bytes} (h : incomparableB T p = true) (rest : Bytes) :
    isProperPrefixOfKey T (p ++ rest) = false := by
  apply isProperPrefixOfKey_eq_false
  intro e he _ hpre
  have := (List.all_eq_true.1 h) e he
  simp only [Bool.and_eq_true, Bool.not_eq_true', isPrefix_eq_false_iff] at this
  exact this.2 ((List.prefix_append p rest).trans hpre)

/-- a well-formed table has no key that is a prefix of a buffer starting with a printableScalar,
non-space, non-DEL byte -/
theorem noKeyPrefix_of_wf {T : Table} (hT : WFTable T) {c : Nat} {tl : Bytes} (h1 : 32 < c) (h2 : c ≠ 127) :
    NoKeyPrefix T (c :: tl) := by
  intro e he hpre
  obtain ⟨c', tl', hs, hc'⟩ := hT e he
  rw [hs] at hpre
  have := (List.cons_prefix_cons.1 hpre).1
  omega

/-! ### NUL -/

theorem detectTail_nul (rest : Bytes) (more : Bool) :
    detectTail (0 :: rest) more = .ok (1, some (.key { type := keyNUL, alt := false })) := by
  simp [detectTail, idx]

theorem detectTail_esc_nul (rest : Bytes) (more : Bool) :
    detectTail (0x1b :: 0 :: rest) more = .ok (2, some (.key { type := keyNUL, alt := true })) := by
  simp [detectTail, idx]

theorem isIncompleteEvent_esc_nul {T : Table} (h : incomparableB T [0x1b, 0] = true) (rest : Bytes) :
    isIncompleteEvent T (0x1b :: 0 :: rest) = false := by
  have := isProperPrefixOfKey_of_incomparable h rest
  simp only [List.cons_append, List.nil_append] at this
  simp [isIncompleteEvent, this]

/-! ### unknown CSI -/

theorem isParam_not_inter {c : Nat} (h : isInter c = true) : isParam c = false := by
  simp [isInter, isParam] at *; omega
theorem isFinal_not_param {c : Nat} (h : isFinal c = true) : isParam c = false := by
  simp [isFinal, isParam] at *; omega
theorem isFinal_not_inter {c : Nat} (h : isFinal c = true) : isInter c = false := by
  simp [isFinal, isInter] at *; omega

theorem takeWhile_append_stop {p : Nat → Bool} (l : Bytes) (c : Nat) (tl : Bytes)
    (hl : ∀ x ∈ l, p x = true) (hc : p c = false) :
    (l ++ c :: tl).takeWhile p = l ∧ (l ++ c :: tl).dropWhile p = c :: tl := by
  induction l with
  | nil => simp [hc]
  | cons x xs ih =>
    have hx : p x = true := hl x (by simp)
    have := ih (fun y hy => hl y (by simp [hy]))
    simp [hx, this]

theorem unknownCSILen_csi (params inter : Bytes) (final : Nat) (rest : Bytes)
    (hp : ∀ c ∈ params, isParam c = true) (hi : ∀ c ∈ inter, isInter c = true) (hf : isFinal final = true) :
    unknownCSILen (0x1b :: 0x5b :: (params ++ inter ++ final :: rest)) =
      some (2 + params.length + inter.length + 1) := by
  unfold unknownCSILen
  simp only
  have hstop : ∃ c tl, inter ++ final :: rest = c :: tl ∧ isParam c = false := by
    cases inter with
    | nil => exact ⟨final, rest, rfl, isFinal_not_param hf⟩
    | cons x xs => exact ⟨x, xs ++ final :: rest, rfl, isParam_not_inter (hi x (by simp))⟩
  obtain ⟨c, tl, hctl, hc⟩ := hstop
  have h1 := takeWhile_append_stop (p := isParam) params c tl hp hc
  have h2 := takeWhile_append_stop (p := isInter) inter final rest hi (isFinal_not_inter hf)
  rw [List.append_assoc, hctl, h1.1, h1.2, ← hctl, h2.1, h2.2]
  simp [hf]

/-! ### rune runs -/

theorem encodeRune_head {r : Nat} (h : printableScalar r = true) :
    ∃ c tl, encodeRune r = c :: tl ∧ 32 < c ∧ c ≠ 127 := by
  simp only [printableScalar, validScalar, Bool.and_eq_true, Bool.or_eq_true, decide_eq_true_eq, bne_iff_ne, ne_eq] at h
  obtain ⟨⟨⟨h1, h2⟩, h3⟩, h4⟩ := h
  unfold encodeRune
  split
  · exact ⟨r, [], rfl, h2, h3⟩
  · split
    · exact ⟨_, _, rfl, by omega, by omega⟩
    · split
      · exact ⟨_, _, rfl, by omega, by omega⟩
      · split
        · exact ⟨_, _, rfl, by omega, by omega⟩
        · exact ⟨_, _, rfl, by omega, by omega⟩

theorem encodeRunes_cons (r : Nat) (rs : List Nat) : encodeRunes (r :: rs) = encodeRune r ++ encodeRunes rs := by
  simp [encodeRunes]

theorem runeLoop_run (rest : Bytes) (hstop : stopsRun rest = true) : ∀ (rs : List Nat),
    (∀ r ∈ rs, printableScalar r = true) → ∀ (pre : Bytes) (acc : List Nat) (fuel : Nat),
    (encodeRunes rs).length < fuel →
    runeLoop false false fuel (pre ++ encodeRunes rs ++ rest) pre.length acc =
      (pre.length + (encodeRunes rs).length, acc.reverse ++ rs, false) := by
  intro rs
  induction rs with
  | nil =>
    intro _ pre acc fuel hfuel
    cases fuel with
    | zero => simp at hfuel
    | succ f =>
      simp only [runeLoop, encodeRunes, List.flatMap_nil, List.append_nil, List.length_nil, Nat.add_zero]
      split
      · have hd : List.drop pre.length (pre ++ rest) = rest := by simp
        rw [hd]
        simp only [stopsRun, Bool.or_eq_true, decide_eq_true_eq, beq_iff_eq] at hstop
        cases hdr : decodeRune rest with
        | mk r rw =>
          rw [hdr] at hstop
          simp only at hstop ⊢
          have h2 : (r == runeError || decide (r ≤ keyUS) || r == keyDEL || r == 32) = true := by
            simpa [Bool.or_eq_true] using hstop
          simp [h2]
      · rfl
  | cons r rs ih =>
    intro hrs pre acc fuel hfuel
    have hr : printableScalar r = true := hrs r (by simp)
    have hrs' : ∀ r' ∈ rs, printableScalar r' = true := fun r' h' => hrs r' (by simp [h'])
    obtain ⟨c, tl, henc, _, _⟩ := encodeRune_head hr
    have hpr := hr
    simp only [printableScalar, Bool.and_eq_true, decide_eq_true_eq, bne_iff_ne, ne_eq] at hpr
    obtain ⟨⟨⟨hv, h32⟩, h127⟩, herr⟩ := hpr
    cases fuel with
    | zero => simp at hfuel
    | succ f =>
      rw [encodeRunes_cons] at hfuel ⊢
      have hlen : 1 ≤ (encodeRune r).length := by rw [henc]; simp
      have hlt : pre.length < (pre ++ (encodeRune r ++ encodeRunes rs) ++ rest).length := by
        simp only [List.length_append]; omega
      have hd : List.drop pre.length (pre ++ (encodeRune r ++ encodeRunes rs) ++ rest) =
          encodeRune r ++ (encodeRunes rs ++ rest) := by
        simp [List.append_assoc]
      simp only [runeLoop]
      rw [if_pos hlt, hd, decodeRune_encodeRune r hv]
      simp only
      have e1 : (r == runeError) = false := by simpa using herr
      have e2 : decide (r ≤ keyUS) = false := decide_eq_false (by simp only [keyUS]; omega)
      have e3 : (r == keyDEL) = false := by simpa [keyDEL] using h127
      have e4 : (r == 32) = false := by simp; omega
      simp only [e1, e2, e3, e4, Bool.false_and, Bool.or_self, Bool.false_eq_true, if_false]
      have := ih hrs' (pre ++ encodeRune r) (r :: acc) f (by simp only [List.length_append] at hfuel; omega)
      simp only [List.length_append, List.append_assoc] at this ⊢
      rw [this]
      simp [Nat.add_assoc]

theorem detectTail_runes (r : Nat) (rs : List Nat) (rest : Bytes)
    (hrs : ∀ x ∈ r :: rs, printableScalar x = true) (hstop : stopsRun rest = true) :
    detectTail (encodeRunes (r :: rs) ++ rest) false =
      .ok ((encodeRunes (r :: rs)).length, some (.key { type := keyRunes, runes := r :: rs, alt := false })) := by
  have hr : printableScalar r = true := hrs r (by simp)
  obtain ⟨c, tl, henc, hc32, hc127⟩ := encodeRune_head hr
  have hrl := runeLoop_run rest hstop (r :: rs) hrs [] [] ((encodeRunes (r :: rs) ++ rest).length + 1)
    (by simp only [List.length_append]; omega)
  simp only [List.nil_append, List.length_nil, Nat.zero_add, List.reverse_nil] at hrl
  have hb : encodeRunes (r :: rs) ++ rest = c :: (tl ++ encodeRunes rs ++ rest) := by
    rw [encodeRunes_cons, henc]; simp
  have hc27 : (c == 0x1b) = false := by simp; omega
  have hne32 : (r == 32) = false := by
    simp only [printableScalar, Bool.and_eq_true, decide_eq_true_eq] at hr
    simp; omega
  unfold detectTail
  have hidx : idx (encodeRunes (r :: rs) ++ rest) 0 = .ok c := by rw [hb]; simp [idx]
  rw [hidx]
  simp only [hc27, Bool.false_eq_true, if_false]
  rw [hrl]
  simp [hne32]
  intro _
  rw [hb]
  simp
  omega

/-! ### the decode loop on a stream -/

theorem decodeLoop_step (T : Table) (lens : List Nat) (more : Bool) (fuel : Nat) (b : Bytes) (acc : List Out)
    (w : Nat) (m : Option Msg) (hb : b ≠ []) (h : detectOneMsg T lens b more = .ok (w, m)) (hw : w ≠ 0) :
    decodeLoop T lens more (fuel + 1) b acc =
      decodeLoop T lens more fuel (b.drop w) ({ msg := m, consumed := b.take w } :: acc) := by
  simp only [decodeLoop]
  have : b.isEmpty = false := by cases b <;> simp at hb ⊢
  rw [this, h]
  simp [hw]

theorem decodeLoop_stream (T : Table) (lens : List Nat) : ∀ (evs : List (Bytes × Msg)) (acc : List Out) (fuel : Nat),
    StreamOK T lens evs → (evs.map Prod.fst).flatten.length < fuel →
    decodeLoop T lens false fuel (evs.map Prod.fst).flatten acc =
      .ok (acc.reverse ++ evs.map (fun p => { msg := some p.2, consumed := p.1 }), []) := by
  intro evs
  induction evs with
  | nil =>
    intro acc fuel _ hf
    cases fuel with
    | zero => simp at hf
    | succ f => simp [decodeLoop]
  | cons p tl ih =>
    intro acc fuel hs hf
    obtain ⟨s, m⟩ := p
    obtain ⟨hne, hdet, htl⟩ := hs
    have hlen : 0 < s.length := List.length_pos_iff.2 hne
    cases fuel with
    | zero => simp at hf
    | succ f =>
      simp only [List.map_cons, List.flatten_cons] at hf ⊢
      rw [decodeLoop_step T lens false f _ acc s.length (some m) (by simp [hne]) hdet (by omega)]
      have h1 : (s ++ (tl.map Prod.fst).flatten).drop s.length = (tl.map Prod.fst).flatten := by simp
      have h2 : (s ++ (tl.map Prod.fst).flatten).take s.length = s := by simp
      rw [h1, h2, ih _ f htl (by simp only [List.length_append] at hf; omega)]
      simp

theorem notExtended_of_not_properPrefix {T : Table} {s : Bytes} (h : isProperPrefixOfKey T s = false)
    (rest : Bytes) : NotExtended T s rest := by
  intro e' he' hpre
  apply Classical.byContradiction
  intro hlt
  have hlt' : s.length < e'.seq.length := by omega
  have hs : s <+: e'.seq :=
    List.prefix_of_prefix_length_le (List.prefix_append s rest) hpre (by omega)
  unfold isProperPrefixOfKey at h
  rw [List.any_eq_false] at h
  have := h e' he'
  simp [hlt', isPrefix_iff.2 hs] at this

theorem isProperPrefixOfKey_append {T : Table} {p : Bytes} (h : isProperPrefixOfKey T p = false) (rest : Bytes) :
    isProperPrefixOfKey T (p ++ rest) = false := by
  apply isProperPrefixOfKey_eq_false
  intro e he hlen hpre
  unfold isProperPrefixOfKey at h
  rw [List.any_eq_false] at h
  have := h e he
  have hp : p <+: e.seq := (List.prefix_append p rest).trans hpre
  have hl : p.length < e.seq.length := by simp only [List.length_append] at hlen; omega
  simp [hl, isPrefix_iff.2 hp] at this

theorem mem_deriveExt_of_mem {S : Table} {e : Entry} (he : e ∈ S) : e ∈ deriveExt S := by
  unfold deriveExt deriveSeqs
  refine List.mem_append_left _ (List.mem_append_left _ (List.mem_flatMap.2 ⟨e, he, ?_⟩))
  split <;> simp

theorem mem_deriveExt_alt {S : Table} {e : Entry} (he : e ∈ S) (halt : e.key.alt = false) :
    { seq := 0x1b :: e.seq, key := e.key.withAlt } ∈ deriveExt S := by
  unfold deriveExt deriveSeqs
  refine List.mem_append_left _ (List.mem_append_left _ (List.mem_flatMap.2 ⟨e, he, ?_⟩))
  simp [halt]

theorem mem_deriveExt_fixed {S : Table} {e : Entry} (he : e ∈ deriveFixed) : e ∈ deriveExt S := by
  unfold deriveExt
  exact List.mem_append_right _ he

/-! ### two tables with the same lookups decode alike -/

theorem lookup_ext_of_cross {T1 T2 : Table} (h12 : ∀ e ∈ T1, T2.lookup e.seq = some e.key)
    (h21 : ∀ e ∈ T2, T1.lookup e.seq = some e.key) (k : Bytes) : T1.lookup k = T2.lookup k := by
  cases h1 : T1.lookup k with
  | none =>
    cases h2 : T2.lookup k with
    | none => rfl
    | some v =>
      obtain ⟨e, he, hs, _⟩ := Table.lookup_some h2
      have := h21 e he
      rw [hs, h1] at this
      cases this
  | some v =>
    obtain ⟨e, he, hs, hk⟩ := Table.lookup_some h1
    have := h12 e he
    rw [hs, hk] at this
    exact this.symm

theorem lookupLens_congr {T1 T2 : Table} (h : ∀ k, T1.lookup k = T2.lookup k) (b : Bytes) :
    ∀ lens, lookupLens T1 b lens = lookupLens T2 b lens := by
  intro lens
  induction lens with
  | nil => rfl
  | cons l ls ih => simp only [lookupLens, h, ih]

theorem detectOneMsg_congr {T1 T2 : Table} (h : ∀ k, T1.lookup k = T2.lookup k) (lens : List Nat) (b : Bytes) :
    detectOneMsg T1 lens b false = detectOneMsg T2 lens b false := by
  simp only [detectOneMsg, detectSequence, lookupLens_congr h b lens, Bool.false_and]

end Tea.Input
