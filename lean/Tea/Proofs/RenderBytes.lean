import Tea.Render.Model
import Tea.Proofs.Ansi
/-
Byte-count lemmas for the renderer model (helpers for C19): how many bytes the
operations written by `flush` serialize to.
-/
namespace Tea.Render
open Tea Tea.VT

/-! ### serialized length -/

/-- number of bytes a list of terminal operations serializes to -/
def slen (ops : List TermOp) : Nat := (serializeAll ops).length

theorem slen_def (ops : List TermOp) : (serializeAll ops).length = slen ops := rfl

theorem serializeAll_append (a b : List TermOp) :
    serializeAll (a ++ b) = serializeAll a ++ serializeAll b := by
  simp [serializeAll]

@[simp] theorem slen_nil : slen [] = 0 := rfl

@[simp] theorem slen_cons (o : TermOp) (ops : List TermOp) :
    slen (o :: ops) = (serialize o).length + slen ops := by
  simp [slen, serializeAll]

@[simp] theorem slen_append (a b : List TermOp) : slen (a ++ b) = slen a + slen b := by
  simp [slen, serializeAll]

@[simp] theorem len_text (s : Bytes) : (serialize (.text s)).length = s.length := rfl
@[simp] theorem len_cr : (serialize .cr).length = 1 := rfl
@[simp] theorem len_lf : (serialize .lf).length = 1 := rfl
@[simp] theorem len_home : (serialize .home).length = 3 := rfl
@[simp] theorem len_el0 : (serialize .el0).length = 3 := rfl
@[simp] theorem len_ed0 : (serialize .ed0).length = 3 := rfl

theorem countArg_le (k : Nat) : (countArg k).length ≤ (Dec.digits k).length := by
  unfold countArg
  split <;> simp

theorem len_cuu (k : Nat) : (serialize (.cuu k)).length = 3 + (countArg k).length := by
  simp [serialize, csi]; omega

theorem len_cub (k : Nat) : (serialize (.cub k)).length = 3 + (countArg k).length := by
  simp [serialize, csi]; omega

theorem len_cup_le (k : Nat) : (serialize (.cup k)).length ≤ 4 + (Dec.digits k).length := by
  show (if k = 0 then csi ++ [0x48] else csi ++ Dec.digits k ++ [0x3b, 0x48]).length ≤ _
  split
  · simp [csi]; omega
  · simp [csi]; omega

/-- a truncated line is never longer, in bytes, than the line (the escape sequences are kept, only
printing bytes are dropped) -/
theorem truncateLine_length_le (w : Nat) (l : Line) : (truncateLine w l).length ≤ l.length :=
  Ansi.truncate_length_le w l

/-! ### one line of the paint loop -/

/-- the loop's `canSkip` test for line `i` -/
def skips (r : RState) (flushQ shrinking : Bool) (n i : Nat) (l : Line) : Bool :=
  !flushQ && !(shrinking && i == n - 1) && sameAsLast r i l

/-- the text actually sent for a painted line (truncated to the width when it is known) -/
def paintedText (r : RState) (l : Line) : Line :=
  if r.width > 0 then truncateLine r.width l else l

theorem paintedText_length_le (r : RState) (l : Line) : (paintedText r l).length ≤ l.length := by
  unfold paintedText
  split
  · exact truncateLine_length_le _ _
  · exact Nat.le_refl _

theorem paintLineOps_eq (r : RState) (fq sh : Bool) (n i : Nat) (l : Line) :
    paintLineOps r fq sh n i l =
      if skips r fq sh n i l then (if i < n - 1 then [.lf] else [])
      else
        (if i == 0 && r.lastRender.isEmpty then [.cr] else []) ++
        (if sh && i == n - 1 then [.ed0] else []) ++
        ([.text (paintedText r l)] ++
          (if lineWidth (paintedText r l) < r.width then [.el0] else [])) ++
        (if i < n - 1 then [.cr, .lf] else []) := rfl

theorem paintLineOps_skip {r : RState} {fq sh : Bool} {n i : Nat} {l : Line}
    (h : skips r fq sh n i l = true) :
    paintLineOps r fq sh n i l = if i < n - 1 then [.lf] else [] := by
  rw [paintLineOps_eq, if_pos h]

/-- a skipped line costs at most one byte -/
theorem slen_paintLineOps_skip {r : RState} {fq sh : Bool} {n i : Nat} {l : Line}
    (h : skips r fq sh n i l = true) : slen (paintLineOps r fq sh n i l) ≤ 1 := by
  rw [paintLineOps_skip h]
  split <;> simp

/-- any line costs at most its length plus nine bytes -/
theorem slen_paintLineOps_le (r : RState) (fq sh : Bool) (n i : Nat) (l : Line) :
    slen (paintLineOps r fq sh n i l) ≤ l.length + 9 := by
  rw [paintLineOps_eq]
  split
  · split <;> simp
  · have h1 : slen (if (i == 0 && r.lastRender.isEmpty) = true then [TermOp.cr] else []) ≤ 1 := by
      split <;> simp
    have h2 : slen (if (sh && i == n - 1) = true then [TermOp.ed0] else []) ≤ 3 := by
      split <;> simp
    have h3 : slen (if lineWidth (paintedText r l) < r.width then [TermOp.el0] else []) ≤ 3 := by
      split <;> simp
    have h4 : slen (if i < n - 1 then [TermOp.cr, TermOp.lf] else []) ≤ 2 := by
      split <;> simp
    have h5 := paintedText_length_le r l
    simp only [slen_append, slen_cons, slen_nil, len_text]
    omega

/-- cost assigned to a line: one byte when skipped, length + 9 when painted -/
def lineCost (r : RState) (fq sh : Bool) (n : Nat) (p : Line × Nat) : Nat :=
  if skips r fq sh n p.2 p.1 then 1 else p.1.length + 9

theorem slen_paintLineOps_le_cost (r : RState) (fq sh : Bool) (n i : Nat) (l : Line) :
    slen (paintLineOps r fq sh n i l) ≤ lineCost r fq sh n (l, i) := by
  unfold lineCost
  split
  · next h => exact slen_paintLineOps_skip h
  · exact slen_paintLineOps_le _ _ _ _ _ _

/-! ### the whole paint loop -/

/-- recursive bound on the paint loop: the sum of the line costs -/
theorem slen_paintOps_le_cost (r : RState) (fq sh : Bool) (n : Nat) :
    ∀ (ls : List Line) (i : Nat),
      slen (paintOps r fq sh n i ls) ≤ ((ls.zipIdx i).map (lineCost r fq sh n)).sum := by
  intro ls
  induction ls with
  | nil => intro i; simp [paintOps]
  | cons l ls ih =>
    intro i
    have h1 := slen_paintLineOps_le_cost r fq sh n i l
    have h2 := ih (i + 1)
    simp only [paintOps, slen_append, List.zipIdx_cons, List.map_cons, List.sum_cons]
    omega

/-- splitting a sum of "1 if p else f" into the part over the `¬p` elements and the count of
the `p` elements -/
theorem sum_ite_split {α : Type} (p : α → Bool) (f : α → Nat) (xs : List α) :
    (xs.map (fun x => if p x then 1 else f x)).sum =
      ((xs.filter (fun x => !p x)).map f).sum + (xs.filter p).length := by
  induction xs with
  | nil => simp
  | cons x xs ih =>
    cases h : p x <;> simp [h, ih] <;> omega

/-- the paint loop writes at most (length + 9) bytes per painted line and one byte per skipped
line -/
theorem slen_paintOps_le (r : RState) (fq sh : Bool) (n : Nat) (ls : List Line) (i : Nat) :
    slen (paintOps r fq sh n i ls) ≤
      (((ls.zipIdx i).filter (fun p => !skips r fq sh n p.2 p.1)).map (fun p => p.1.length + 9)).sum
      + ((ls.zipIdx i).filter (fun p => skips r fq sh n p.2 p.1)).length := by
  have h := slen_paintOps_le_cost r fq sh n ls i
  have e := sum_ite_split (fun p : Line × Nat => skips r fq sh n p.2 p.1)
    (fun p => p.1.length + 9) (ls.zipIdx i)
  have e' : (ls.zipIdx i).map (lineCost r fq sh n) =
      (ls.zipIdx i).map (fun p => if skips r fq sh n p.2 p.1 then 1 else p.1.length + 9) := rfl
  rw [e', e] at h
  exact h

/-- when prints are flushed every line is painted -/
theorem slen_paintOps_le_all (r : RState) (sh : Bool) (n : Nat) (ls : List Line) (i : Nat) :
    slen (paintOps r true sh n i ls) ≤ (ls.map (fun l => l.length + 9)).sum := by
  induction ls generalizing i with
  | nil => simp [paintOps]
  | cons l ls ih =>
    have h1 := slen_paintLineOps_le r true sh n i l
    have h2 := ih (i + 1)
    simp only [paintOps, slen_append, List.map_cons, List.sum_cons]
    omega

/-! ### flush -/

/-- the cursor movement that starts a flush -/
def flushPre (r : RState) : List TermOp :=
  if r.altActive then [.home]
  else if r.linesRendered > 1 then [.cuu (r.linesRendered - 1)] else []

/-- the cursor movement that ends a flush of `n` lines -/
def flushFin (r : RState) (n : Nat) : List TermOp :=
  if r.altActive then [.cup n] else [.cub r.width]

/-- `flushQ` -/
def flushQ (r : RState) : Bool := !r.queued.isEmpty && !r.altActive

/-- `shrinking` -/
def shrinking (r : RState) : Bool := decide (r.lastLinesRendered > (frameLines r).length)

theorem flush_noop {r : RState} (h : r.buf = [] ∨ r.buf = r.lastRender) : flush r = (r, []) := by
  unfold flush
  rcases h with h | h
  · simp [h]
  · simp [h]

theorem flush_ops {r : RState} (h : ¬ (r.buf.isEmpty || r.buf == r.lastRender) = true) :
    (flush r).2 =
      flushPre r ++ (if flushQ r then r.queued.flatMap (queuedLineOps r.width) else []) ++
        paintOps r (flushQ r) (shrinking r) (frameLines r).length 0 (frameLines r) ++
        flushFin r (frameLines r).length := by
  unfold flush
  rw [if_neg h]
  rfl

theorem flush_state_buf (r : RState) : (flush r).1.buf = [] ∨ (flush r).1 = r := by
  unfold flush
  split
  · right; rfl
  · left; rfl

theorem flushQ_false {r : RState} (h : r.queued = [] ∨ r.altActive = true) : flushQ r = false := by
  unfold flushQ
  rcases h with h | h <;> simp [h]

theorem slen_flushPre_le (r : RState) :
    slen (flushPre r) ≤ 3 + (Dec.digits (r.linesRendered - 1)).length := by
  unfold flushPre
  split
  · simp
  · split
    · have := countArg_le (r.linesRendered - 1)
      simp [len_cuu]; omega
    · simp

theorem slen_flushFin_le (r : RState) (n : Nat) :
    slen (flushFin r n) ≤ 4 + max (Dec.digits n).length (Dec.digits r.width).length := by
  unfold flushFin
  split
  · have := len_cup_le n
    simp only [slen_cons, slen_nil]
    omega
  · have := countArg_le r.width
    simp only [slen_cons, slen_nil, len_cub]
    omega

theorem slen_queuedLineOps_le (w : Nat) (l : Line) : slen (queuedLineOps w l) ≤ l.length + 5 := by
  unfold queuedLineOps
  have h : slen (if (w > 0 && (lineWidth l == 0 || lineWidth l % w != 0)) = true
      then [TermOp.el0] else []) ≤ 3 := by
    split <;> simp
  simp only [slen_append, slen_cons, slen_nil, len_text, len_cr, len_lf]
  omega

theorem slen_queued_le (w : Nat) (q : List Line) :
    slen (q.flatMap (queuedLineOps w)) ≤ (q.map (fun l => l.length + 5)).sum := by
  induction q with
  | nil => simp
  | cons l q ih =>
    have := slen_queuedLineOps_le w l
    simp only [List.flatMap_cons, slen_append, List.map_cons, List.sum_cons]
    omega

/-- flush-level bound without pending prints (or on the alternate screen) -/
theorem slen_flush_le {r : RState} (hq : r.queued = [] ∨ r.altActive = true) :
    slen (flush r).2 ≤
      ((((frameLines r).zipIdx 0).filter
          (fun p => !skips r false (shrinking r) (frameLines r).length p.2 p.1)).map
          (fun p => p.1.length + 9)).sum
      + (((frameLines r).zipIdx 0).filter
          (fun p => skips r false (shrinking r) (frameLines r).length p.2 p.1)).length
      + (3 + (Dec.digits (r.linesRendered - 1)).length)
      + (4 + max (Dec.digits (frameLines r).length).length (Dec.digits r.width).length) := by
  by_cases h : (r.buf.isEmpty || r.buf == r.lastRender) = true
  · have : flush r = (r, []) := by unfold flush; rw [if_pos h]
    rw [this]; simp
  · rw [flush_ops h, flushQ_false hq]
    have h1 := slen_flushPre_le r
    have h2 := slen_flushFin_le r (frameLines r).length
    have h3 := slen_paintOps_le r false (shrinking r) (frameLines r).length (frameLines r) 0
    simp only [slen_append, Bool.false_eq_true, if_false, slen_nil]
    omega

/-- flush-level bound with pending prints: the printed lines, then every frame line -/
theorem slen_flush_le_queued (r : RState) :
    slen (flush r).2 ≤
      (r.queued.map (fun l => l.length + 5)).sum
      + ((frameLines r).map (fun l => l.length + 9)).sum
      + (3 + (Dec.digits (r.linesRendered - 1)).length)
      + (4 + max (Dec.digits (frameLines r).length).length (Dec.digits r.width).length) := by
  by_cases h : (r.buf.isEmpty || r.buf == r.lastRender) = true
  · have : flush r = (r, []) := by unfold flush; rw [if_pos h]
    rw [this]; simp
  · rw [flush_ops h]
    have h1 := slen_flushPre_le r
    have h2 := slen_flushFin_le r (frameLines r).length
    have h4 := slen_queued_le r.width r.queued
    cases hf : flushQ r
    · have h3 := slen_paintOps_le_cost r false (shrinking r) (frameLines r).length (frameLines r) 0
      have h5 : (((frameLines r).zipIdx 0).map (lineCost r false (shrinking r) (frameLines r).length)).sum
          ≤ ((frameLines r).map (fun l => l.length + 9)).sum := by
        generalize (frameLines r).length = n
        generalize 0 = i
        induction (frameLines r) generalizing i with
        | nil => simp
        | cons l ls ih =>
          have := ih (i + 1)
          simp only [List.zipIdx_cons, List.map_cons, List.sum_cons]
          have hc : lineCost r false (shrinking r) n (l, i) ≤ l.length + 9 := by
            unfold lineCost; split <;> simp
          omega
      simp only [slen_append, Bool.false_eq_true, if_false, slen_nil]
      omega
    · have h3 := slen_paintOps_le_all r (shrinking r) (frameLines r).length (frameLines r) 0
      simp only [slen_append, if_true]
      omega

/-! ### repeated flushes, repeated writes -/

theorem flush_flush (r : RState) : flush (flush r).1 = ((flush r).1, []) := by
  by_cases h : (r.buf.isEmpty || r.buf == r.lastRender) = true
  · have e : flush r = (r, []) := by unfold flush; rw [if_pos h]
    rw [e]; exact e
  · have : (flush r).1.buf = [] := by unfold flush; rw [if_neg h]
    exact flush_noop (Or.inl this)

theorem write_write (r : RState) (a b : Bytes) : write (write r a) b = write r b := rfl

/-- any number of writes amount to the last one -/
theorem foldl_write (ws : List Bytes) (h : ws ≠ []) (r : RState) :
    ws.foldl write r = write r (ws.getLast h) := by
  induction ws generalizing r with
  | nil => exact absurd rfl h
  | cons a rest ih =>
    cases rest with
    | nil => rfl
    | cons b rest' =>
      rw [List.foldl_cons, ih (by simp), write_write]
      simp

/-- the cache a rendering flush leaves behind -/
theorem flush_cache {r : RState} (h : r.buf ≠ []) (h' : r.buf ≠ r.lastRender) :
    (flush r).1.lastLines = some (frameLines r) ∧ (flush r).1.lastRender = r.buf ∧
      (flush r).1.buf = [] := by
  have hc : ¬ (r.buf.isEmpty || r.buf == r.lastRender) = true := by
    simp [List.isEmpty_iff, h, h']
  unfold flush
  rw [if_neg hc]
  exact ⟨rfl, rfl, rfl⟩

theorem filter_length_compl {α : Type} (p : α → Bool) (xs : List α) :
    (xs.filter p).length + (xs.filter (fun x => !p x)).length = xs.length := by
  induction xs with
  | nil => rfl
  | cons x xs ih =>
    cases h : p x <;> simp [h] <;> omega

/-- the Boolean identity between "not skipped" and "differs or is the erasing last line" -/
theorem not_skip_eq (a b c : Bool) : (!( !false && !(b && c) && a)) = (!a || (b && c)) := by
  revert a b c; decide

end Tea.Render
