import Tea.Proofs.Flush
import Tea.Proofs.EnterAlt
/-
The alt screen never holds queued printed lines.

`AltQ r` — the queue invariant of a whole run, alt screen included: a queued printed line means
the renderer is on the MAIN screen and its render cache is invalid (so the next flush of a
pending view paints, and prints the queue).  Equivalently: `J r` (`Tea/Proofs/InlineHistory.lean`)
and `altActive → queued = []`.

Every renderer step keeps `AltQ`, with ONE exception: `enterAlt` from the main screen with lines
queued and NO pending view (`buf = []`): the render that precedes the switch is then a no-op
(`flush` returns early when there is no view), and the queue is carried into the alt screen.  So
the invariant holds along every history in which EnterAltScreen never finds printed lines queued
without a pending view (`EntersWithView`) — in particular along every history in which each
`printLine` is directly followed by a `write`, which is what the event loop does: it handles the
message and then writes the model's view (`viewAfterPrint`, `entersWithView_of_viewAfterPrint`).
-/
namespace Tea.Render
open Tea Tea.VT

/-- a queued printed line: the renderer is on the main screen and the next flush of a view paints -/
def AltQ (r : RState) : Prop := r.queued ≠ [] → r.altActive = false ∧ r.lastRender = []

theorem AltQ.alt_empty {r : RState} (h : AltQ r) (ha : r.altActive = true) : r.queued = [] := by
  apply Classical.byContradiction
  intro hq
  have := (h hq).1
  rw [ha] at this
  cases this

theorem altQ_of_empty (r : RState) (hq : r.queued = []) : AltQ r := fun h => absurd hq h

/-- the initial state has nothing queued -/
theorem altQ_init : AltQ {} := altQ_of_empty _ rfl

/-- with `AltQ`, a pending view and a queued line make the flush paint -/
theorem flush_paints_of_altQ (r : RState) (h : AltQ r) (hq : r.queued ≠ []) (hbuf : r.buf ≠ []) :
    (r.buf.isEmpty || r.buf == r.lastRender) = false := by
  rw [(h hq).2]
  cases hb : r.buf with
  | nil => exact absurd hb hbuf
  | cons _ _ => rfl

/-- with `AltQ`, a flush that paints leaves nothing queued -/
theorem flush_queued_of_altQ (r : RState) (h : AltQ r)
    (hne : (r.buf.isEmpty || r.buf == r.lastRender) = false) : (flush r).1.queued = [] := by
  rw [flush_state r hne]
  show (if (!r.queued.isEmpty && !r.altActive) = true then [] else r.queued) = []
  cases hq : r.queued with
  | nil => simp
  | cons x xs =>
    have := (h (by rw [hq]; simp)).1
    simp [this]

theorem altQ_flush (r : RState) (h : AltQ r) : AltQ (flush r).1 := by
  cases hne : (r.buf.isEmpty || r.buf == r.lastRender) with
  | true => rw [flush_noop r hne]; exact h
  | false => exact altQ_of_empty _ (flush_queued_of_altQ r h hne)

/-- `enterAlt` from the main screen with `AltQ` and (when lines are queued) a pending view: nothing
is queued afterwards -/
theorem enterAlt_queued (r : RState) (h : AltQ r) (ha : r.altActive = false)
    (hv : r.queued ≠ [] → r.buf ≠ []) : (enterAlt r).1.queued = [] := by
  rw [(enterAlt_fields r ha).2.2.2.2.2.1]
  cases hq : r.queued with
  | nil => rw [preAlt_noq r hq]; exact hq
  | cons x xs =>
    have hq' : r.queued ≠ [] := by rw [hq]; simp
    rw [preAlt_q r hq']
    exact flush_queued_of_altQ r h (flush_paints_of_altQ r h hq' (hv hq'))

/-- **`AltQ` is kept by every step**, provided an `enterAlt` from the main screen with lines queued
finds a pending view -/
theorem altQ_step (r : RState) (o : ROp) (h : AltQ r)
    (hv : o = .enterAlt → r.altActive = false → r.queued ≠ [] → r.buf ≠ []) :
    AltQ (step r o).1 := by
  cases o with
  | size w h' => exact fun hq => ⟨(h hq).1, rfl⟩
  | write s => exact h
  | flush => exact altQ_flush r h
  | repaintMsg => exact fun hq => ⟨(h hq).1, rfl⟩
  | clearScreen => exact fun hq => ⟨(h hq).1, rfl⟩
  | enterAlt =>
    show AltQ (enterAlt r).1
    cases ha : r.altActive with
    | true => rw [enterAlt_active r ha]; exact h
    | false => exact altQ_of_empty _ (enterAlt_queued r h ha (hv rfl ha))
  | exitAlt =>
    show AltQ (exitAlt r).1
    unfold exitAlt
    split
    · exact h
    · exact fun _ => ⟨rfl, rfl⟩
  | printLine body =>
    show AltQ (if r.altActive = true then (r, []) else _).1
    split
    · exact h
    · rename_i ha
      have ha' : r.altActive = false := by simpa using ha
      exact fun _ => ⟨ha', rfl⟩
  | stop =>
    have := altQ_flush r h
    exact fun hq => ⟨(this hq).1, rfl⟩
  | kill => exact fun hq => ⟨(h hq).1, rfl⟩
  | title s => exact h
  | showCursor => exact h
  | hideCursor => exact h
  | mouseCell => exact h
  | noMouseCell => exact h
  | mouseAll => exact h
  | noMouseAll => exact h
  | mouseSGR => exact h
  | noMouseSGR => exact h
  | paste => exact h
  | noPaste => exact h
  | focus => exact h
  | noFocus => exact h

/-- along the history, every EnterAltScreen issued on the main screen while printed lines are
queued finds a pending view -/
def EntersWithView : RState → List ROp → Prop
  | _, [] => True
  | r, o :: os =>
    (o = .enterAlt → r.altActive = false → r.queued ≠ [] → r.buf ≠ []) ∧
    EntersWithView (step r o).1 os

theorem run_cons_fst (r : RState) (o : ROp) (os : List ROp) :
    (run r (o :: os)).1 = (run (step r o).1 os).1 := rfl

/-- **`AltQ` along a history** -/
theorem altQ_run (ops : List ROp) : ∀ (r : RState), AltQ r → EntersWithView r ops →
    AltQ (run r ops).1 := by
  induction ops with
  | nil => intro r h _; exact h
  | cons o os ih =>
    intro r h hv
    rw [run_cons_fst]
    exact ih _ (altQ_step r o h hv.1) hv.2

theorem entersWithView_take (ops : List ROp) : ∀ (r : RState) (k : Nat), EntersWithView r ops →
    EntersWithView r (ops.take k) := by
  induction ops with
  | nil => intro r k h; simpa using h
  | cons o os ih =>
    intro r k h
    cases k with
    | zero => exact trivial
    | succ k => exact ⟨h.1, ih _ k h.2⟩

/-! ### the event loop's histories: every print is followed by the view -/

theorem write_buf_nonempty (r : RState) (s : Bytes) : (write r s).buf ≠ [] := by
  unfold write
  cases s <;> simp

/-- a pending printed line comes with a pending view -/
def QView (r : RState) : Prop := r.queued ≠ [] → r.buf ≠ []

/-- `QView` is kept by every step but a `printLine` (with `AltQ`: a flush that empties `buf`
with lines queued is a painting inline flush, which prints them) -/
theorem qView_step (r : RState) (o : ROp) (h : AltQ r) (hb : QView r)
    (hp : ∀ b, o ≠ .printLine b) : QView (step r o).1 := by
  cases o with
  | printLine body => exact absurd rfl (hp body)
  | write s => exact fun _ => write_buf_nonempty r s
  | flush =>
    show QView (flush r).1
    cases hne : (r.buf.isEmpty || r.buf == r.lastRender) with
    | true => rw [flush_noop r hne]; exact hb
    | false => exact fun hq => absurd (flush_queued_of_altQ r h hne) hq
  | stop =>
    show QView (flush r).1.repaint
    cases hne : (r.buf.isEmpty || r.buf == r.lastRender) with
    | true => rw [flush_noop r hne]; exact hb
    | false => exact fun hq => absurd (flush_queued_of_altQ r h hne) hq
  | enterAlt =>
    show QView (enterAlt r).1
    cases ha : r.altActive with
    | true => rw [enterAlt_active r ha]; exact hb
    | false => exact fun hq => absurd (enterAlt_queued r h ha hb) hq
  | exitAlt =>
    show QView (exitAlt r).1
    unfold exitAlt
    split
    · exact hb
    · exact hb
  | size w h' => exact hb
  | repaintMsg => exact hb
  | clearScreen => exact hb
  | kill => exact hb
  | title s => exact hb
  | showCursor => exact hb
  | hideCursor => exact hb
  | mouseCell => exact hb
  | noMouseCell => exact hb
  | mouseAll => exact hb
  | noMouseAll => exact hb
  | mouseSGR => exact hb
  | noMouseSGR => exact hb
  | paste => exact hb
  | noPaste => exact hb
  | focus => exact hb
  | noFocus => exact hb

/-- what may follow a step: after a `printLine` the history ends or continues with a `write` -/
def okAfter : ROp → List ROp → Bool
  | .printLine _, [] => true
  | .printLine _, .write _ :: _ => true
  | .printLine _, _ => false
  | _, _ => true

/-- every `printLine` of the history is directly followed by a `write` (or ends the history): the
event loop handles a message and then writes the model's view -/
def viewAfterPrint : List ROp → Bool
  | [] => true
  | o :: os => okAfter o os && viewAfterPrint os

def startsWithWrite : List ROp → Prop
  | .write _ :: _ => True
  | _ => False

theorem entersWithView_of_viewAfterPrint (ops : List ROp) : ∀ (r : RState), AltQ r →
    (ops ≠ [] → QView r ∨ startsWithWrite ops) → viewAfterPrint ops = true →
    EntersWithView r ops := by
  induction ops with
  | nil => intro r _ _ _; exact trivial
  | cons o os ih =>
    intro r h hb hv
    replace hb := hb (by simp)
    simp only [viewAfterPrint, Bool.and_eq_true] at hv
    have hcond : o = .enterAlt → r.altActive = false → r.queued ≠ [] → r.buf ≠ [] := by
      intro ho _ hq
      rcases hb with hb | hb
      · exact hb hq
      · subst ho; exact hb.elim
    refine ⟨hcond, ih _ (altQ_step r o h hcond) ?_ hv.2⟩
    intro hos
    cases o with
    | printLine body =>
      right
      cases os with
      | nil => exact absurd rfl hos
      | cons o' os' =>
        cases o' <;> first | trivial | (simp [okAfter] at hv)
    | write s => exact Or.inl (fun _ => write_buf_nonempty r s)
    | _ =>
      left
      rcases hb with hb | hb
      · exact qView_step r _ h hb (by intro b hc; cases hc)
      · exact hb.elim

end Tea.Render
