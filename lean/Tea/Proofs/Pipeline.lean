import Tea.Runtime.Pipeline
/-
Invariants of the Pipeline LTS (helper lemmas; the property theorems are in Tea/Props).
-/
namespace Tea.Runtime

variable {M : Type}

@[simp] theorem spawn_model (P : Prog M) (s : St M) (c) : (spawn P s c).model = s.model := by
  cases c <;> rfl
@[simp] theorem spawn_updLog (P : Prog M) (s : St M) (c) : (spawn P s c).updLog = s.updLog := by
  cases c <;> rfl
@[simp] theorem spawn_recvLog (P : Prog M) (s : St M) (c) : (spawn P s c).recvLog = s.recvLog := by
  cases c <;> rfl
@[simp] theorem spawn_filterLog (P : Prog M) (s : St M) (c) : (spawn P s c).filterLog = s.filterLog := by
  cases c <;> rfl
@[simp] theorem spawn_issuedEl (P : Prog M) (s : St M) (c) : (spawn P s c).issuedEl = s.issuedEl := by
  cases c <;> rfl
@[simp] theorem spawn_handedEl (P : Prog M) (s : St M) (c) : (spawn P s c).handedEl = s.handedEl := by
  cases c <;> rfl
@[simp] theorem spawn_el (P : Prog M) (s : St M) (c) : (spawn P s c).el = s.el := by
  cases c <;> rfl
@[simp] theorem spawn_ctxDone (P : Prog M) (s : St M) (c) : (spawn P s c).ctxDone = s.ctxDone := by
  cases c <;> rfl
@[simp] theorem spawn_dispAlive (P : Prog M) (s : St M) (c) : (spawn P s c).dispAlive = s.dispAlive := by
  cases c <;> rfl
@[simp] theorem spawn_initPending (P : Prog M) (s : St M) (c) : (spawn P s c).initPending = s.initPending := by
  cases c <;> rfl
@[simp] theorem spawn_ran (P : Prog M) (s : St M) (c) : (spawn P s c).ran = s.ran := by
  cases c <;> rfl
@[simp] theorem spawn_handed (P : Prog M) (s : St M) (c) : (spawn P s c).handed = s.handed ++ [c] := by
  cases c <;> rfl
theorem spawn_spawned (P : Prog M) (s : St M) (c) : (spawn P s c).spawned = s.spawned ++ c.toList := by
  cases c <;> simp [spawn]
theorem spawn_senders_prefix (P : Prog M) (s : St M) (c) : ∃ ext, (spawn P s c).senders = s.senders ++ ext ∧
    (∀ sd ∈ ext, sd.needsRun = true ∧ sd.pos = 0 ∧ sd.pc = .idle ∧ sd.script.length ≤ 1) := by
  cases c with
  | none => exact ⟨[], by simp [spawn]⟩
  | some id =>
    refine ⟨_, rfl, ?_⟩
    intro sd hsd
    simp at hsd
    subst hsd
    cases P.cmdResult id <;> simp

/-- the update function folded over a message list -/
def foldUpd (P : Prog M) (m : M) (ms : List Msg) : M := ms.foldl (fun m x => (P.update m x).1) m

theorem elHandle_fold (P : Prog M) (model : M) (m : Msg) :
    (elHandle P model m).1 = foldUpd P model (elHandle P model m).2.1 := by
  cases m <;> simp [elHandle, foldUpd]

theorem elOne_fold (P : Prog M) (model : M) (m : Msg) :
    (elOne P model m).1 = foldUpd P model (elOne P model m).2.1 := by
  unfold elOne
  split
  · exact elHandle_fold P model m
  · split
    · simp [foldUpd]
    · exact elHandle_fold P model _

theorem elHandle_upd_reaches (P : Prog M) (model : M) (m : Msg) :
    (elHandle P model m).2.1 = if reachesUpdate m then [m] else [] := by
  cases m <;> simp [elHandle, reachesUpdate]

theorem elHandle_issued (P : Prog M) (model : M) (m : Msg) :
    ∀ x ∈ (elHandle P model m).2.1, reachesUpdate x = true := by
  cases m <;> simp [elHandle, reachesUpdate]

theorem elOne_upd_reaches (P : Prog M) (model : M) (m : Msg) :
    ∀ x ∈ (elOne P model m).2.1, reachesUpdate x = true := by
  unfold elOne
  split
  · exact elHandle_issued P model m
  · split
    · simp
    · exact elHandle_issued P model _

/-- a generic induction principle: an invariant that holds initially and is preserved by
every step holds in every reachable state -/
theorem reachable_induct {P : Prog M} {senders : List Sender} (Inv : St M → Prop)
    (h0 : Inv (init P senders))
    (hstep : ∀ s s' l, Reachable P senders s → Inv s → step P s l = some s' → Inv s')
    {s : St M} (hr : Reachable P senders s) : Inv s := by
  induction hr with
  | init => exact h0
  | step l hr hs ih => exact hstep _ _ l hr ih hs

/-- INV 1: the model is the fold of Update over the messages passed to Update -/
theorem inv_fold {P : Prog M} {senders : List Sender} {s : St M} (hr : Reachable P senders s) :
    s.model = foldUpd P P.init s.updLog := by
  refine reachable_induct (fun s => s.model = foldUpd P P.init s.updLog) (by simp [init, foldUpd]) ?_ hr
  intro s s' l _ ih hs
  cases l <;> simp only [step] at hs
  case process i =>
    split at hs <;> try (cases hs)
    split at hs <;> try (cases hs)
    split at hs <;> try (cases hs)
    rename_i sd _ _ m _ _
    simp only
    rw [elOne_fold, ih]
    simp [foldUpd, List.foldl_append]
  all_goals
    (repeat' split at hs)
    all_goals first
      | (injection hs with hs; subst hs; first | exact ih | simpa using ih)
      | (cases hs)

end Tea.Runtime

namespace Tea.Runtime
variable {M : Type}

/-- the messages the loop received from sender `i`, in order -/
def recvOf (i : Nat) (log : List (Nat × Msg)) : List Msg :=
  (log.filter (fun e => e.1 == i)).map (·.2)

theorem recvOf_append_self (i : Nat) (log : List (Nat × Msg)) (m : Msg) :
    recvOf i (log ++ [(i, m)]) = recvOf i log ++ [m] := by
  simp [recvOf, List.filter_append]

theorem recvOf_append_ne (i j : Nat) (h : j ≠ i) (log : List (Nat × Msg)) (m : Msg) :
    recvOf i (log ++ [(j, m)]) = recvOf i log := by
  simp [recvOf, List.filter_append, h]

/-- INV 2 for one sender -/
def SenderOk (s : St M) (i : Nat) (sd : Sender) : Prop :=
  sd.pos ≤ sd.script.length ∧
  (sd.pc = .blocked → sd.pos < sd.script.length) ∧
  (recvOf i s.recvLog).Sublist (sd.script.take sd.pos) ∧
  (s.ctxDone = false → recvOf i s.recvLog = sd.script.take sd.pos)

def SendersInv (s : St M) : Prop :=
  (∀ i sd, s.senders[i]? = some sd → SenderOk s i sd) ∧
  (∀ i, s.senders.length ≤ i → recvOf i s.recvLog = [])

theorem take_succ_getElem {α} (l : List α) (n : Nat) (x : α) (h : l[n]? = some x) :
    l.take (n + 1) = l.take n ++ [x] := by
  rw [List.take_add_one, h]; rfl

theorem sendersInv_spawn (P : Prog M) (s : St M) (c : Option Nat) (h : SendersInv s) :
    SendersInv (spawn P s c) := by
  obtain ⟨ext, hext, hnew⟩ := spawn_senders_prefix P s c
  constructor
  · intro i sd hi
    rw [hext] at hi
    by_cases hlt : i < s.senders.length
    · rw [List.getElem?_append_left hlt] at hi
      have := h.1 i sd hi
      simpa [SenderOk] using this
    · have hge : s.senders.length ≤ i := Nat.le_of_not_lt hlt
      rw [List.getElem?_append_right hge] at hi
      have hmem : sd ∈ ext := List.mem_of_getElem? hi
      obtain ⟨_, hp, hpc, _⟩ := hnew sd hmem
      have hr := h.2 i hge
      simp only [SenderOk, spawn_recvLog, spawn_ctxDone]
      rw [hr, hp]
      simp [hpc]
  · intro i hi
    rw [hext] at hi
    simp at hi
    have := h.2 i (by omega)
    simpa using this

end Tea.Runtime

namespace Tea.Runtime
variable {M : Type}

/-- SendersInv only reads `senders`, `recvLog` and `ctxDone` -/
theorem sendersInv_congr {s s' : St M} (h : SendersInv s)
    (h1 : s'.senders = s.senders) (h2 : s'.recvLog = s.recvLog) (h3 : s'.ctxDone = s.ctxDone) :
    SendersInv s' := by
  constructor
  · intro i sd hi
    rw [h1] at hi
    have := h.1 i sd hi
    simpa [SenderOk, h2, h3] using this
  · intro i hi
    rw [h1] at hi
    rw [h2]; exact h.2 i hi

/-- replacing sender `i` (same log for the others) -/
theorem sendersInv_set {s s' : St M} (h : SendersInv s) (i : Nat) (sd' : Sender)
    (hlt : i < s.senders.length)
    (h1 : s'.senders = s.senders.set i sd')
    (hok : SenderOk s' i sd')
    (hothers : ∀ j x, j ≠ i → s.senders[j]? = some x → SenderOk s j x → SenderOk s' j x)
    (hout : ∀ j, s.senders.length ≤ j → recvOf j s.recvLog = [] → recvOf j s'.recvLog = []) :
    SendersInv s' := by
  constructor
  · intro j x hj
    rw [h1] at hj
    by_cases hji : j = i
    · subst hji
      rw [List.getElem?_set_self hlt] at hj
      injection hj with hj; subst hj; exact hok
    · rw [List.getElem?_set_ne (Ne.symm hji)] at hj
      exact hothers j x hji hj (h.1 j x hj)
  · intro j hj
    rw [h1] at hj
    simp at hj
    exact hout j hj (h.2 j hj)

theorem lt_length_of_getElem? {α} {l : List α} {i : Nat} {x : α} (h : l[i]? = some x) : i < l.length := by
  have := List.getElem?_eq_some_iff.1 h
  exact this.1

/-- INV 2: per sender, nothing the loop received from it was invented, duplicated or
reordered, and before cancellation nothing handed to Send was lost -/
theorem inv_senders {P : Prog M} {senders : List Sender}
    (h0 : ∀ sd ∈ senders, sd.pos = 0 ∧ sd.pc = .idle)
    {s : St M} (hr : Reachable P senders s) : SendersInv s := by
  refine reachable_induct (fun s => SendersInv s) ?_ ?_ hr
  · constructor
    · intro i sd hi
      have hmem : sd ∈ senders := List.mem_of_getElem? hi
      obtain ⟨hp, hpc⟩ := h0 sd hmem
      simp [SenderOk, init, recvOf, hp, hpc]
    · intro i _; simp [init, recvOf]
  · intro s s' l _ ih hs
    cases l <;> simp only [step] at hs
    case sendStart i =>
      split at hs <;> try (cases hs)
      split at hs <;> try (cases hs)
      rename_i sd hsd hc
      refine sendersInv_set ih i _ (lt_length_of_getElem? hsd) rfl ?_ (fun j x _ _ hx => hx) (fun j _ hx => hx)
      have := ih.1 i sd hsd
      simp only [SenderOk] at this ⊢
      exact ⟨this.1, fun _ => hc.2.2, this.2.2.1, this.2.2.2⟩
    case process i =>
      split at hs <;> try (cases hs)
      split at hs <;> try (cases hs)
      split at hs <;> try (cases hs)
      rename_i _ _ sd hsd _ _ m hm hpc
      have hok := ih.1 i sd hsd
      have hlt : sd.pos < sd.script.length := (lt_length_of_getElem? hm)
      refine sendersInv_set ih i _ (lt_length_of_getElem? hsd) rfl ?_ ?_ ?_
      · simp only [SenderOk]
        refine ⟨by omega, fun h => by simp at h, ?_, ?_⟩
        · rw [recvOf_append_self, take_succ_getElem _ _ _ hm]
          exact List.Sublist.append hok.2.2.1 (List.Sublist.refl _)
        · intro hctx
          rw [recvOf_append_self, take_succ_getElem _ _ _ hm, hok.2.2.2 hctx]
      · intro j x hji _ hx
        simp only [SenderOk] at hx ⊢
        rw [recvOf_append_ne j i (Ne.symm hji)]
        exact hx
      · intro j hj hx
        have : i ≠ j := by
          have := lt_length_of_getElem? hsd
          omega
        simp only
        rw [recvOf_append_ne j i this]; exact hx
    case sendAbort i =>
      split at hs <;> try (cases hs)
      split at hs <;> try (cases hs)
      rename_i sd hsd hc
      have hok := ih.1 i sd hsd
      have hlt := hok.2.1 hc.1
      refine sendersInv_set ih i _ (lt_length_of_getElem? hsd) rfl ?_ (fun j x _ _ hx => hx) (fun j _ hx => hx)
      simp only [SenderOk]
      refine ⟨by omega, fun h => by simp at h, ?_, ?_⟩
      · exact List.Sublist.trans hok.2.2.1 (List.take_sublist_take_left (by omega))
      · intro hctx; rw [hc.2] at hctx; cases hctx
    case cmdRun i =>
      split at hs <;> try (cases hs)
      split at hs <;> try (cases hs)
      rename_i sd hsd hc
      have hok := ih.1 i sd hsd
      exact sendersInv_set ih i _ (lt_length_of_getElem? hsd) rfl hok (fun j x _ _ hx => hx) (fun j _ hx => hx)
    case cmdHandOver =>
      split at hs <;> try (cases hs)
      split at hs <;> try (cases hs)
      exact sendersInv_congr (sendersInv_spawn P s _ ih) rfl rfl rfl
    case batchNext =>
      split at hs <;> try (cases hs)
      split at hs <;> try (cases hs)
      exact sendersInv_congr (sendersInv_spawn P s _ ih) rfl rfl rfl
    case initHandOver =>
      split at hs <;> try (cases hs)
      split at hs <;> try (cases hs)
      exact sendersInv_congr (sendersInv_spawn P s _ ih) rfl rfl rfl
    case cancel =>
      cases hs
      constructor
      · intro i sd hi
        have := ih.1 i sd hi
        simp only [SenderOk] at this ⊢
        exact ⟨this.1, this.2.1, this.2.2.1, fun h => by cases h⟩
      · exact ih.2
    all_goals
      (repeat' split at hs)
      all_goals first
        | (injection hs with hs; subst hs; exact sendersInv_congr ih rfl rfl rfl)
        | (cases hs)

end Tea.Runtime

namespace Tea.Runtime
variable {M : Type}

/-- the event loop as a sequential function of the messages it receives -/
structure RAcc (M : Type) where
  model : M
  upd : List Msg
  flog : List (M × Msg)

def replayStep (P : Prog M) (a : RAcc M) (m : Msg) : RAcc M :=
  let r := elOne P a.model m
  { model := r.1, upd := a.upd ++ r.2.1,
    flog := match P.filter with
      | none => a.flog
      | some _ => a.flog ++ [(a.model, m)] }

def replay (P : Prog M) (ms : List Msg) : RAcc M := ms.foldl (replayStep P) ⟨P.init, [], []⟩

theorem replay_snoc (P : Prog M) (ms : List Msg) (m : Msg) :
    replay P (ms ++ [m]) = replayStep P (replay P ms) m := by
  simp [replay, List.foldl_append]

/-- INV 3: model, Update log and filter log are the sequential replay of the received messages -/
def ReplayInv (P : Prog M) (s : St M) : Prop :=
  (replay P (s.recvLog.map (·.2))).model = s.model ∧
  (replay P (s.recvLog.map (·.2))).upd = s.updLog ∧
  (replay P (s.recvLog.map (·.2))).flog = s.filterLog

theorem replayInv_congr {P : Prog M} {s s' : St M} (h : ReplayInv P s)
    (h1 : s'.recvLog = s.recvLog) (h2 : s'.model = s.model) (h3 : s'.updLog = s.updLog)
    (h4 : s'.filterLog = s.filterLog) : ReplayInv P s' := by
  simp only [ReplayInv, h1, h2, h3, h4]; exact h

theorem inv_replay {P : Prog M} {senders : List Sender} {s : St M} (hr : Reachable P senders s) :
    ReplayInv P s := by
  refine reachable_induct (fun s => ReplayInv P s) (by simp [ReplayInv, init, replay]) ?_ hr
  intro s s' l _ ih hs
  cases l <;> simp only [step] at hs
  case process i =>
    split at hs <;> try (cases hs)
    split at hs <;> try (cases hs)
    split at hs <;> try (cases hs)
    rename_i _ _ sd hsd _ _ m hm hpc
    obtain ⟨h1, h2, h3⟩ := ih
    simp only [ReplayInv, List.map_append, List.map_cons, List.map_nil, replay_snoc, replayStep]
    rw [h1, h2, h3]
    refine ⟨rfl, rfl, ?_⟩
    cases P.filter <;> rfl
  all_goals
    (repeat' split at hs)
    all_goals first
      | (injection hs with hs; subst hs; exact replayInv_congr ih (by simp) (by simp) (by simp) (by simp))
      | (cases hs)

theorem snoc_induction {α : Type} {motive : List α → Prop} (h0 : motive [])
    (hs : ∀ l x, motive l → motive (l ++ [x])) : ∀ l, motive l := by
  intro l
  have : ∀ r : List α, motive r.reverse := by
    intro r
    induction r with
    | nil => simpa using h0
    | cons x xs ih => simpa using hs _ x ih
  simpa using this l.reverse

/-- without a filter, the replayed Update log is exactly the received messages that reach Update -/
theorem replay_nofilter_upd (P : Prog M) (hf : P.filter = none) (ms : List Msg) :
    (replay P ms).upd = ms.filter reachesUpdate := by
  refine snoc_induction (motive := fun ms => (replay P ms).upd = ms.filter reachesUpdate) (by simp [replay]) ?_ ms
  intro ms m ih
  rw [replay_snoc]
  simp only [replayStep, elOne, hf, elHandle_upd_reaches, ih, List.filter_append]
  cases h : reachesUpdate m <;> simp [h]

/-- with a filter, the filter log lists every received message once, in order -/
theorem replay_filter_flog (P : Prog M) (φ) (hf : P.filter = some φ) (ms : List Msg) :
    (replay P ms).flog.map (·.2) = ms := by
  refine snoc_induction (motive := fun ms => (replay P ms).flog.map (·.2) = ms) (by simp [replay]) ?_ ms
  intro ms m ih
  rw [replay_snoc]
  simp only [replayStep, hf, List.map_append, ih]
  rfl

/-- every entry of the filter log carries the model that was current when the message arrived:
the model produced by replaying the messages received before it -/
theorem replay_filter_models (P : Prog M) (φ) (hf : P.filter = some φ) (ms : List Msg) :
    (replay P ms).flog = (List.range ms.length).map (fun k => ((replay P (ms.take k)).model, ms.getD k .quit)) := by
  refine snoc_induction (motive := fun ms => (replay P ms).flog =
    (List.range ms.length).map (fun k => ((replay P (ms.take k)).model, ms.getD k .quit))) (by simp [replay]) ?_ ms
  intro ms m ih
  rw [replay_snoc]
  simp only [replayStep, hf, ih, List.length_append, List.length_singleton, List.range_succ, List.map_append,
    List.map_cons, List.map_nil]
  congr 1
  · apply List.map_congr_left
    intro k hk
    have hk' : k < ms.length := List.mem_range.1 hk
    rw [List.take_append_of_le_length (Nat.le_of_lt hk')]
    simp [List.getD, List.getElem?_append_left hk']
  · simp [List.getD]

end Tea.Runtime

namespace Tea.Runtime
variable {M : Type}

/-- commands the loop still has to hand over -/
def pendingEl : ElPc → List (Option Nat)
  | .sendCmd c => [c]
  | .batchSend cs => cs
  | _ => []

/-- INV 4: bookkeeping of commands -/
def CmdInv (s : St M) : Prop :=
  s.spawned = s.handed.filterMap id ∧
  s.senders.filterMap (·.cmd) = s.spawned ∧
  (s.handedEl ++ pendingEl s.el = s.issuedEl ∨
    (s.el = .exited .ctx ∧ s.ctxDone = true ∧ s.handedEl <+: s.issuedEl))

theorem filterMap_cmd_set (l : List Sender) (i : Nat) (sd sd' : Sender) (h : l[i]? = some sd) (hc : sd'.cmd = sd.cmd) :
    (l.set i sd').filterMap (·.cmd) = l.filterMap (·.cmd) := by
  induction l generalizing i with
  | nil => simp
  | cons x xs ih =>
    cases i with
    | zero =>
      simp at h; subst h
      simp [List.filterMap_cons, hc]
    | succ k =>
      simp at h
      simp [List.filterMap_cons, ih k h]

theorem spawn_senders_cmd (P : Prog M) (s : St M) (c : Option Nat) :
    (spawn P s c).senders.filterMap (·.cmd) = s.senders.filterMap (·.cmd) ++ c.toList := by
  cases c <;> simp [spawn, List.filterMap_append]

theorem cmdInv_spawn_parts (P : Prog M) (s : St M) (c : Option Nat) (h : CmdInv s) :
    (spawn P s c).spawned = (spawn P s c).handed.filterMap id ∧
    (spawn P s c).senders.filterMap (·.cmd) = (spawn P s c).spawned := by
  constructor
  · rw [spawn_spawned, spawn_handed, List.filterMap_append, h.1]
    cases c <;> simp
  · rw [spawn_senders_cmd, spawn_spawned, h.2.1]

theorem inv_cmd {P : Prog M} {senders : List Sender} (h0 : ∀ sd ∈ senders, sd.cmd = none)
    {s : St M} (hr : Reachable P senders s) : CmdInv s := by
  refine reachable_induct (fun s => CmdInv s) ?_ ?_ hr
  · refine ⟨rfl, ?_, Or.inl rfl⟩
    simp only [init]
    rw [List.filterMap_eq_nil_iff]
    intro sd hsd; exact h0 sd hsd
  · intro s s' l _ ih hs
    cases l <;> simp only [step] at hs
    case process i =>
      split at hs <;> try (cases hs)
      split at hs <;> try (cases hs)
      split at hs <;> try (cases hs)
      rename_i _ _ sd hsd hel _ m hm hpc
      refine ⟨ih.1, ?_, ?_⟩
      · simp only
        exact (filterMap_cmd_set _ _ sd _ hsd (by rfl)).trans ih.2.1
      · rcases ih.2.2 with h | h
        · left
          simp only
          rw [hel] at h
          simp only [pendingEl, List.append_nil] at h
          rw [h]
          generalize (elOne P s.model m).2.2 = a
          cases a <;> simp [afterPc, afterIssued, pendingEl]
        · rw [hel] at h; cases h.1
    case sendStart i =>
      split at hs <;> try (cases hs)
      split at hs <;> try (cases hs)
      rename_i sd hsd hc
      refine ⟨ih.1, ?_, ih.2.2⟩
      simp only
      exact (filterMap_cmd_set _ _ sd _ hsd (by rfl)).trans ih.2.1
    case sendAbort i =>
      split at hs <;> try (cases hs)
      split at hs <;> try (cases hs)
      rename_i sd hsd hc
      refine ⟨ih.1, ?_, ih.2.2⟩
      simp only
      exact (filterMap_cmd_set _ _ sd _ hsd (by rfl)).trans ih.2.1
    case cmdRun i =>
      split at hs <;> try (cases hs)
      split at hs <;> try (cases hs)
      rename_i sd hsd hc
      refine ⟨ih.1, ?_, ih.2.2⟩
      simp only
      exact (filterMap_cmd_set _ _ sd _ hsd (by rfl)).trans ih.2.1
    case cmdHandOver =>
      split at hs <;> try (cases hs)
      split at hs <;> try (cases hs)
      rename_i c hel _
      obtain ⟨p1, p2⟩ := cmdInv_spawn_parts P s c ih
      refine ⟨p1, p2, ?_⟩
      rcases ih.2.2 with h | h
      · left
        rw [hel] at h
        simpa [pendingEl] using h
      · rw [hel] at h; cases h.1
    case batchNext =>
      split at hs <;> try (cases hs)
      split at hs <;> try (cases hs)
      rename_i c cs hel _
      obtain ⟨p1, p2⟩ := cmdInv_spawn_parts P s c ih
      refine ⟨p1, p2, ?_⟩
      rcases ih.2.2 with h | h
      · left
        rw [hel] at h
        simpa [pendingEl, List.append_assoc] using h
      · rw [hel] at h; cases h.1
    case initHandOver =>
      split at hs <;> try (cases hs)
      split at hs <;> try (cases hs)
      rename_i id _ _
      obtain ⟨p1, p2⟩ := cmdInv_spawn_parts P s (some id) ih
      exact ⟨p1, p2, by simpa using ih.2.2⟩
    case cmdAbort =>
      split at hs <;> try (cases hs)
      split at hs <;> try (cases hs)
      rename_i c hel hctx
      refine ⟨ih.1, ih.2.1, Or.inr ⟨rfl, hctx, ?_⟩⟩
      rcases ih.2.2 with h | h
      · rw [← h]; exact List.prefix_append _ _
      · exact h.2.2
    case batchAbort =>
      split at hs <;> try (cases hs)
      split at hs <;> try (cases hs)
      rename_i c cs hel hctx
      refine ⟨ih.1, ih.2.1, Or.inr ⟨rfl, hctx, ?_⟩⟩
      rcases ih.2.2 with h | h
      · rw [← h]; exact List.prefix_append _ _
      · exact h.2.2
    case batchDone =>
      split at hs <;> try (cases hs)
      rename_i hel
      refine ⟨ih.1, ih.2.1, ?_⟩
      rcases ih.2.2 with h | h
      · left; rw [hel] at h; simpa [pendingEl] using h
      · rw [hel] at h; cases h.1
    case elCtxExit =>
      split at hs <;> try (cases hs)
      split at hs <;> try (cases hs)
      rename_i hel hctx
      refine ⟨ih.1, ih.2.1, ?_⟩
      rcases ih.2.2 with h | h
      · left; rw [hel] at h; simpa [pendingEl] using h
      · rw [hel] at h; cases h.1
    case cancel =>
      cases hs
      refine ⟨ih.1, ih.2.1, ?_⟩
      rcases ih.2.2 with h | h
      · exact Or.inl h
      · exact Or.inr ⟨h.1, rfl, h.2.2⟩
    case initAbort =>
      split at hs <;> try (cases hs)
      split at hs <;> try (cases hs)
      exact ih
    case dispExit =>
      split at hs <;> try (cases hs)
      exact ih

end Tea.Runtime

namespace Tea.Runtime
variable {M : Type}

/-- INV 5: command goroutines: each executes its command at most once, delivers nothing before
it has executed, and its script is the command's result -/
def RanInv (P : Prog M) (s : St M) : Prop :=
  s.ran.Nodup ∧
  (∀ i ∈ s.ran, ∃ sd, s.senders[i]? = some sd ∧ sd.needsRun = false) ∧
  (∀ (i : Nat) (sd : Sender), s.senders[i]? = some sd → sd.needsRun = true → sd.pos = 0 ∧ sd.pc = .idle) ∧
  (∀ (i : Nat) (sd : Sender) (id : Nat), s.senders[i]? = some sd → sd.cmd = some id →
    sd.script = (P.cmdResult id).toList)

theorem ranInv_spawn (P : Prog M) (s : St M) (c : Option Nat) (h : RanInv P s) : RanInv P (spawn P s c) := by
  cases c with
  | none => exact h
  | some id =>
    obtain ⟨h1, h2, h3, h4⟩ := h
    refine ⟨h1, ?_, ?_, ?_⟩
    · intro i hi
      obtain ⟨sd, hsd, hn⟩ := h2 i hi
      refine ⟨sd, ?_, hn⟩
      simp only [spawn]
      rw [List.getElem?_append_left (lt_length_of_getElem? hsd)]; exact hsd
    · intro i sd hsd hn
      simp only [spawn] at hsd
      by_cases hlt : i < s.senders.length
      · rw [List.getElem?_append_left hlt] at hsd; exact h3 i sd hsd hn
      · rw [List.getElem?_append_right (Nat.le_of_not_lt hlt)] at hsd
        have := List.mem_of_getElem? hsd
        simp at this; subst this; simp
    · intro i sd id' hsd hc
      simp only [spawn] at hsd
      by_cases hlt : i < s.senders.length
      · rw [List.getElem?_append_left hlt] at hsd; exact h4 i sd id' hsd hc
      · rw [List.getElem?_append_right (Nat.le_of_not_lt hlt)] at hsd
        have := List.mem_of_getElem? hsd
        simp at this; subst this
        simp at hc; subst hc; rfl

/-- replacing sender `i` by one with the same command, script and `needsRun` -/
theorem ranInv_set {P : Prog M} {s : St M} (h : RanInv P s) (i : Nat) (sd sd' : Sender)
    (hsd : s.senders[i]? = some sd) (hn : sd'.needsRun = sd.needsRun) (hc : sd'.cmd = sd.cmd)
    (hs : sd'.script = sd.script) (hpos : sd'.needsRun = true → sd'.pos = 0 ∧ sd'.pc = .idle)
    (s' : St M) (h1 : s'.senders = s.senders.set i sd') (h2 : s'.ran = s.ran) : RanInv P s' := by
  have hlt := lt_length_of_getElem? hsd
  obtain ⟨g1, g2, g3, g4⟩ := h
  refine ⟨by rw [h2]; exact g1, ?_, ?_, ?_⟩
  · intro j hj
    rw [h2] at hj
    obtain ⟨x, hx, hxn⟩ := g2 j hj
    rw [h1]
    by_cases hji : j = i
    · subst hji
      rw [hsd] at hx; injection hx with hx; subst hx
      exact ⟨sd', List.getElem?_set_self hlt, by rw [hn]; exact hxn⟩
    · exact ⟨x, by rw [List.getElem?_set_ne (Ne.symm hji)]; exact hx, hxn⟩
  · intro j x hx hxn
    rw [h1] at hx
    by_cases hji : j = i
    · subst hji
      rw [List.getElem?_set_self hlt] at hx; injection hx with hx; subst hx
      exact hpos hxn
    · rw [List.getElem?_set_ne (Ne.symm hji)] at hx; exact g3 j x hx hxn
  · intro j x id hx hxc
    rw [h1] at hx
    by_cases hji : j = i
    · subst hji
      rw [List.getElem?_set_self hlt] at hx; injection hx with hx; subst hx
      rw [hs]; exact g4 j sd id hsd (by rw [← hc]; exact hxc)
    · rw [List.getElem?_set_ne (Ne.symm hji)] at hx; exact g4 j x id hx hxc

theorem ranInv_congr {P : Prog M} {s s' : St M} (h : RanInv P s) (h1 : s'.senders = s.senders) (h2 : s'.ran = s.ran) :
    RanInv P s' := by
  simp only [RanInv, h1, h2]; exact h

theorem inv_ran {P : Prog M} {senders : List Sender}
    (h0 : ∀ sd ∈ senders, sd.cmd = none ∧ sd.needsRun = false)
    {s : St M} (hr : Reachable P senders s) : RanInv P s := by
  refine reachable_induct (fun s => RanInv P s) ?_ ?_ hr
  · refine ⟨List.nodup_nil, by simp [init], ?_, ?_⟩
    · intro i sd hsd hn
      have := (h0 sd (List.mem_of_getElem? hsd)).2
      rw [this] at hn; cases hn
    · intro i sd id hsd hc
      have := (h0 sd (List.mem_of_getElem? hsd)).1
      rw [this] at hc; cases hc
  · intro s s' l _ ih hs
    cases l <;> simp only [step] at hs
    case sendStart i =>
      split at hs <;> try (cases hs)
      split at hs <;> try (cases hs)
      rename_i sd hsd hc
      exact ranInv_set ih i sd _ hsd (by rfl) (by rfl) (by rfl) (fun h => by simp [hc.2.1] at h) _ rfl rfl
    case process i =>
      split at hs <;> try (cases hs)
      split at hs <;> try (cases hs)
      split at hs <;> try (cases hs)
      rename_i _ _ sd hsd hel _ m hm hpc
      refine ranInv_set ih i sd _ hsd (by rfl) (by rfl) (by rfl) ?_ _ rfl rfl
      intro hn
      have := (ih.2.2.1 i sd hsd hn).2
      rw [this] at hpc; cases hpc
    case sendAbort i =>
      split at hs <;> try (cases hs)
      split at hs <;> try (cases hs)
      rename_i sd hsd hc
      refine ranInv_set ih i sd _ hsd (by rfl) (by rfl) (by rfl) ?_ _ rfl rfl
      intro hn
      have := (ih.2.2.1 i sd hsd hn).2
      rw [this] at hc; cases hc.1
    case cmdRun i =>
      split at hs <;> try (cases hs)
      split at hs <;> try (cases hs)
      rename_i sd hsd hc
      have hlt := lt_length_of_getElem? hsd
      obtain ⟨g1, g2, g3, g4⟩ := ih
      have hnot : i ∉ s.ran := by
        intro hi
        obtain ⟨x, hx, hxn⟩ := g2 i hi
        rw [hsd] at hx; injection hx with hx; subst hx
        rw [hc] at hxn; cases hxn
      refine ⟨?_, ?_, ?_, ?_⟩
      · exact List.nodup_append.2 ⟨g1, (by simp), by
          intro a ha b hb; simp at hb; subst hb; intro hab; subst hab; exact hnot ha⟩
      · intro j hj
        simp only [List.mem_append, List.mem_singleton] at hj
        by_cases hji : j = i
        · subst hji
          exact ⟨_, List.getElem?_set_self hlt, rfl⟩
        · rcases hj with hj | hj
          · obtain ⟨x, hx, hxn⟩ := g2 j hj
            exact ⟨x, by simp only; rw [List.getElem?_set_ne (Ne.symm hji)]; exact hx, hxn⟩
          · exact absurd hj hji
      · intro j x hx hxn
        simp only at hx
        by_cases hji : j = i
        · subst hji
          rw [List.getElem?_set_self hlt] at hx; injection hx with hx; subst hx
          simp at hxn
        · rw [List.getElem?_set_ne (Ne.symm hji)] at hx; exact g3 j x hx hxn
      · intro j x id hx hxc
        simp only at hx
        by_cases hji : j = i
        · subst hji
          rw [List.getElem?_set_self hlt] at hx; injection hx with hx; subst hx
          exact g4 j sd id hsd hxc
        · rw [List.getElem?_set_ne (Ne.symm hji)] at hx; exact g4 j x id hx hxc
    case cmdHandOver =>
      split at hs <;> try (cases hs)
      split at hs <;> try (cases hs)
      exact ranInv_congr (ranInv_spawn P s _ ih) rfl rfl
    case batchNext =>
      split at hs <;> try (cases hs)
      split at hs <;> try (cases hs)
      exact ranInv_congr (ranInv_spawn P s _ ih) rfl rfl
    case initHandOver =>
      split at hs <;> try (cases hs)
      split at hs <;> try (cases hs)
      exact ranInv_congr (ranInv_spawn P s _ ih) rfl rfl
    all_goals
      (repeat' split at hs)
      all_goals first
        | (injection hs with hs; subst hs; exact ranInv_congr ih rfl rfl)
        | (cases hs)

end Tea.Runtime
