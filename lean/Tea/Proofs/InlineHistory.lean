import Tea.Proofs.InlineQ
/-
Histories of the INLINE renderer.

* `J` — the queue invariant of a run: a pending printed line forces the next flush of a pending
  view to paint (`printLine` clears `lastRender`; a flush that paints empties the queue).
* `inlineStable` — the steps that keep renderer and terminal inline at the same size.
* `InlineTrace r t r' t' P` — what a stretch of an inline history did to the terminal: same size,
  alt screen untouched, rows above the old first view row untouched, the rows `P` (printed lines,
  wrapped) written from the old first view row on, the view directly below them, the window only
  moved down.  Traces compose (`InlineTrace.trans`), which turns the one-step theorem
  (`inline_step_trace`) into the history theorems (`inline_run_trace`).
* the logs of a history: `printedRows` (the rows of every printing flush), `printedLines` (the
  lines of every printing flush), `pendingLines` (the lines printed after the last printing
  flush), `printLinesOf` (every line of every `printLine` step).
-/
namespace Tea.Render
open Tea Tea.VT

/-! ### the queue invariant -/

/-- a pending printed line always forces the next flush of a non-empty view to repaint -/
def J (r : RState) : Prop := r.queued ≠ [] → r.lastRender = []

/-- `J` is preserved by every step of the renderer, with one exception: a flush on the ALT
screen neither prints nor drops the queue but sets `lastRender` (leaving the alt screen then
clears it again, see `J_exitAlt`).  So: every step while inline, and every step but `flush` on
the alt screen. -/
theorem J_step (r : RState) (o : ROp) (hJ : J r) (h : r.altActive = false ∨ o ≠ .flush) :
    J (step r o).1 := by
  cases o with
  | size w h => exact fun _ => rfl
  | write s => exact hJ
  | flush =>
    rcases h with h | h
    · show J (flush r).1
      cases hne : (r.buf.isEmpty || r.buf == r.lastRender) with
      | true => rw [flush_noop r hne]; exact hJ
      | false =>
        rw [flush_state r hne]
        intro hq
        exfalso
        apply hq
        show (if (!r.queued.isEmpty && !r.altActive) = true then [] else r.queued) = []
        cases hqq : r.queued <;> simp [h]
    · exact absurd rfl h
  | repaintMsg => exact fun _ => rfl
  | clearScreen => exact fun _ => rfl
  | enterAlt =>
    show J (enterAlt r).1
    cases ha : r.altActive with
    | true => rw [enterAlt_active r ha]; exact hJ
    | false => exact fun _ => (enterAlt_fields r ha).2.2.1
  | exitAlt =>
    show J (exitAlt r).1
    unfold exitAlt
    split
    · exact hJ
    · exact fun _ => rfl
  | printLine body =>
    show J (if r.altActive = true then (r, []) else _).1
    split
    · exact hJ
    · exact fun _ => rfl
  | stop => exact fun _ => rfl
  | kill => exact fun _ => rfl
  | title s => exact hJ
  | showCursor => exact hJ
  | hideCursor => exact hJ
  | mouseCell => exact hJ
  | noMouseCell => exact hJ
  | mouseAll => exact hJ
  | noMouseAll => exact hJ
  | mouseSGR => exact hJ
  | noMouseSGR => exact hJ
  | paste => exact hJ
  | noPaste => exact hJ
  | focus => exact hJ
  | noFocus => exact hJ

/-- the exception is real: on the alt screen a flush with lines queued leaves `queued ≠ []` and
`lastRender ≠ []` (lines are queued on the alt screen only when EnterAltScreen found them queued
with no pending view, so that its render before the switch was a no-op: `Tea/Proofs/AltQueue.lean`) -/
example :
    let r : RState := { altActive := true, queued := [[49]], buf := [97], width := 10, height := 5 }
    J r ∧ ¬ J (step r .flush).1 := by
  simp only [J]
  decide

/-- leaving the alt screen re-establishes `J` whatever happened there -/
theorem J_exitAlt (r : RState) (h : r.altActive = true) : J (exitAlt r).1 := by
  unfold exitAlt
  simp only [h, Bool.not_true, Bool.false_eq_true, if_false]
  exact fun _ => rfl

/-- a flush does not change the screen the renderer believes it is on -/
theorem flush_altActive (r : RState) : (flush r).1.altActive = r.altActive := by
  cases h : (r.buf.isEmpty || r.buf == r.lastRender) with
  | true => rw [flush_noop r h]
  | false => rw [flush_state r h]

/-- **`J` holds whenever the renderer is inline, along EVERY history**: "`J` while inline" is
preserved by every step without exception (on the alt screen nothing is claimed, and both ways of
getting back to the main screen state — ExitAltScreen, and the steps that invalidate the caches —
establish `J`). -/
theorem J_inline_step (r : RState) (o : ROp) (hJ : r.altActive = false → J r) :
    (step r o).1.altActive = false → J (step r o).1 := by
  cases o with
  | flush =>
    intro h'
    have ha : r.altActive = false := by rw [← flush_altActive r]; exact h'
    exact J_step r .flush (hJ ha) (Or.inl ha)
  | exitAlt =>
    intro _
    cases ha : r.altActive with
    | true => exact J_exitAlt r ha
    | false => exact J_step r .exitAlt (hJ ha) (Or.inl ha)
  | enterAlt =>
    intro h'
    cases ha : r.altActive with
    | true =>
      have e : step r .enterAlt = (r, []) := enterAlt_active r ha
      rw [e] at h'
      rw [ha] at h'
      cases h'
    | false => exact J_step r .enterAlt (hJ ha) (Or.inl ha)
  | printLine body =>
    intro h'
    cases ha : r.altActive with
    | true =>
      have e : step r (.printLine body) = (r, []) := by simp [step, ha]
      rw [e] at h'
      rw [ha] at h'
      cases h'
    | false => exact J_step r _ (hJ ha) (Or.inl ha)
  | size w h => exact fun _ _ => rfl
  | repaintMsg => exact fun _ _ => rfl
  | clearScreen => exact fun _ _ => rfl
  | stop => exact fun _ _ => rfl
  | write s => exact fun h' => hJ h'
  | kill => exact fun _ _ => rfl
  | title s => exact fun h' => hJ h'
  | showCursor => exact fun h' => hJ h'
  | hideCursor => exact fun h' => hJ h'
  | mouseCell => exact fun h' => hJ h'
  | noMouseCell => exact fun h' => hJ h'
  | mouseAll => exact fun h' => hJ h'
  | noMouseAll => exact fun h' => hJ h'
  | mouseSGR => exact fun h' => hJ h'
  | noMouseSGR => exact fun h' => hJ h'
  | paste => exact fun h' => hJ h'
  | noPaste => exact fun h' => hJ h'
  | focus => exact fun h' => hJ h'
  | noFocus => exact fun h' => hJ h'

/-- ... hence after any history at all from a state in which it holds (e.g. the initial state) -/
theorem J_inline_run (ops : List ROp) : ∀ (r : RState), (r.altActive = false → J r) →
    (run r ops).1.altActive = false → J (run r ops).1 := by
  induction ops with
  | nil => intro r h; exact h
  | cons o os ih => intro r h; exact ih (step r o).1 (J_inline_step r o h)

/-- with `J`, a flush of a pending view either does nothing — and then nothing is queued — or it
paints (and then, inline, it prints the whole queue: `inline_flushQ_inv`) -/
theorem flush_J_cases (r : RState) (hJ : J r) (hbuf : r.buf ≠ []) :
    (flush r = (r, []) ∧ r.queued = []) ∨ (r.buf.isEmpty || r.buf == r.lastRender) = false := by
  have hbe : r.buf.isEmpty = false := by
    cases hb : r.buf with
    | nil => exact absurd hb hbuf
    | cons _ _ => rfl
  cases hsame : (r.buf == r.lastRender) with
  | true =>
    left
    refine ⟨flush_noop r (by simp [hsame]), ?_⟩
    have heq : r.buf = r.lastRender := by simpa using hsame
    apply Classical.byContradiction
    intro hq
    exact hbuf (heq.trans (hJ hq))
  | false => right; simp [hbe]

/-- `InlineInv` and `J` are preserved by ANY flush of a pending view (painting, skipping, printing
the queue, or doing nothing because the view is byte-identical — then the queue is empty); the
conclusions are those of `inline_flushQ_inv`. -/
theorem inline_flushJ_inv (r : RState) (t : Term) (hinv : InlineInv r t) (hJ : J r)
    (hbuf : r.buf ≠ []) :
    InlineInv (flush r).1 (applyOps t (flush r).2) ∧
    (flush r).1.queued = [] ∧
    viewTop (flush r).1 (applyOps t (flush r).2) = viewTop r t + (qrows t.w r.queued).length ∧
    (applyOps t (flush r).2).main.top = max t.main.top
      (viewTop r t + (qrows t.w r.queued).length + (frameLines r).length - t.h) ∧
    (applyOps t (flush r).2).alt = t.alt ∧
    (applyOps t (flush r).2).w = t.w ∧ (applyOps t (flush r).2).h = t.h ∧
    (∀ ρ, ρ < viewTop r t → ∀ c, (applyOps t (flush r).2).main.cells ρ c = t.main.cells ρ c) ∧
    (∀ j l, (qrows t.w r.queued)[j]? = some l →
      rowShows t.w (applyOps t (flush r).2).main (viewTop r t + j) l) ∧
    (flush r).1.lastLines = some (frameLines r) ∧
    (flush r).1.linesRendered = (frameLines r).length := by
  rcases flush_J_cases r hJ hbuf with ⟨_, hq⟩ | hne
  · obtain ⟨a1, a2, a3, a4, a5, a6, a7, a8, a9, a10⟩ := inline_flush_inv r t hinv hq hbuf
    have hq0 : qrows t.w r.queued = [] := by rw [hq]; rfl
    rw [hq0]
    refine ⟨a1, a2, a3, a4, a5, a6, a7, a8, ?_, a9, a10⟩
    intro j l hj
    simp at hj
  · exact inline_flushQ_inv r t hinv hne

/-! ### the steps of an inline history -/

/-- the steps that keep renderer and terminal inline (main screen) at the same size, with the
view where the renderer believes it is: everything but a resize, entering the alt screen,
ClearScreen and shutting down -/
def inlineStable : ROp → Bool
  | .size _ _ => false
  | .enterAlt => false
  | .clearScreen => false
  | .stop => false
  | .kill => false
  | _ => true

/-- `InlineInv` only reads these fields -/
theorem InlineInv.congr {r r' : RState} {t t' : Term} (h : InlineInv r t)
    (e1 : r'.altActive = r.altActive) (e2 : r'.width = r.width) (e3 : r'.height = r.height)
    (e4 : r'.linesRendered = r.linesRendered) (e5 : r'.lastLines = r.lastLines)
    (e6 : r'.lastRender = r.lastRender)
    (f1 : t'.onAlt = t.onAlt) (f2 : t'.w = t.w) (f3 : t'.h = t.h) (f4 : t'.main = t.main) :
    InlineInv r' t' := by
  have hv : viewTop r' t' = viewTop r t := by unfold viewTop; rw [e4, f4]
  refine ⟨by rw [e1]; exact h.alt, by rw [f1]; exact h.onAlt, by rw [e2, f2]; exact h.width,
    by rw [e3, f3]; exact h.height, by rw [f2]; exact h.wpos, by rw [f3]; exact h.hpos,
    by rw [f4]; exact h.col, by rw [f4, e4, f3]; exact h.inside, by rw [f4, f3, f2]; exact h.below,
    ?_, by rw [e6, e5, e3]; exact h.render⟩
  rw [e5, e4, f2, f4]
  intro ls hls
  obtain ⟨c1, c2⟩ := h.cache ls hls
  refine ⟨c1, ?_⟩
  intro i l hi
  rw [hv]
  exact c2 i l hi

/-- invalidating the caches keeps the invariant (it only weakens what is known) -/
theorem InlineInv.repaint {r : RState} {t : Term} (h : InlineInv r t) : InlineInv r.repaint t :=
  ⟨h.alt, h.onAlt, h.width, h.height, h.wpos, h.hpos, h.col, h.inside, h.below,
    fun _ hls => by simp [RState.repaint] at hls, fun hne => by simp [RState.repaint] at hne⟩

/-- queuing printed lines (and invalidating the caches) keeps the invariant -/
theorem InlineInv.enqueue {r : RState} {t : Term} (h : InlineInv r t) (ls : List Line) :
    InlineInv ({ r with queued := r.queued ++ ls } : RState).repaint t :=
  ⟨h.alt, h.onAlt, h.width, h.height, h.wpos, h.hpos, h.col, h.inside, h.below,
    fun _ hls => by simp [RState.repaint] at hls, fun hne => by simp [RState.repaint] at hne⟩

/-- the renderer's `printLine` step while inline -/
theorem step_printLine_inline (r : RState) (body : Bytes) (h : r.altActive = false) :
    step r (.printLine body) =
      (({ r with queued := r.queued ++ splitLines body } : RState).repaint, []) := by
  simp [step, h]

/-! ### what a stretch of an inline history does to the terminal -/

/-- From `(r, t)` to `(r', t')` the terminal kept its size and its alt screen, every row above
the old first view row `viewTop r t` is untouched, the rows `P` were written from that row on
(row `viewTop r t + j` shows `P[j]`), the view now starts directly below them, and the window
only moved down. -/
structure InlineTrace (r : RState) (t : Term) (r' : RState) (t' : Term) (P : List Line) : Prop where
  w : t'.w = t.w
  h : t'.h = t.h
  alt : t'.alt = t.alt
  vt : viewTop r' t' = viewTop r t + P.length
  above : ∀ ρ, ρ < viewTop r t → ∀ c, t'.main.cells ρ c = t.main.cells ρ c
  rows : ∀ j l, P[j]? = some l → rowShows t.w t'.main (viewTop r t + j) l
  top : t.main.top ≤ t'.main.top

theorem InlineTrace.refl (r : RState) (t : Term) : InlineTrace r t r t [] :=
  ⟨rfl, rfl, rfl, rfl, fun _ _ _ => rfl, fun j l hj => by simp at hj, Nat.le_refl _⟩

/-- a step that leaves the main screen and `linesRendered` alone -/
theorem InlineTrace.still {r r' : RState} {t t' : Term} (e : r'.linesRendered = r.linesRendered)
    (f2 : t'.w = t.w) (f3 : t'.h = t.h) (f4 : t'.main = t.main) (f5 : t'.alt = t.alt) :
    InlineTrace r t r' t' [] := by
  refine ⟨f2, f3, f5, ?_, ?_, fun j l hj => by simp at hj, by rw [f4]; exact Nat.le_refl _⟩
  · unfold viewTop; rw [e, f4]; rfl
  · intro ρ _ c; rw [f4]

theorem InlineTrace.trans {r r1 r2 : RState} {t t1 t2 : Term} {P1 P2 : List Line}
    (a : InlineTrace r t r1 t1 P1) (b : InlineTrace r1 t1 r2 t2 P2) :
    InlineTrace r t r2 t2 (P1 ++ P2) := by
  refine ⟨b.w.trans a.w, b.h.trans a.h, b.alt.trans a.alt, ?_, ?_, ?_, Nat.le_trans a.top b.top⟩
  · rw [b.vt, a.vt, List.length_append]; omega
  · intro ρ hρ c
    rw [b.above ρ (by rw [a.vt]; omega) c, a.above ρ hρ c]
  · intro j l hj
    by_cases hjl : j < P1.length
    · rw [List.getElem?_append_left hjl] at hj
      exact rowShows_congr (fun c => b.above _ (by rw [a.vt]; omega) c) (a.rows j l hj)
    · rw [List.getElem?_append_right (by omega)] at hj
      have := b.rows _ l hj
      rw [a.w, a.vt] at this
      have e : viewTop r t + P1.length + (j - P1.length) = viewTop r t + j := by omega
      rw [e] at this
      exact this

/-! ### the log of printed rows -/

/-- does a flush in state `r` print the queue?  (a pending view, a non-empty queue, inline; with
`J` such a flush always paints: `flush_J_cases`) -/
def flushPrints (r : RState) : Bool := !r.buf.isEmpty && !r.queued.isEmpty && !r.altActive

/-- the rows one step prints: those of the whole queue, for a flush that prints -/
def stepPrinted (w : Nat) (r : RState) : ROp → List Line
  | .flush => if flushPrints r then qrows w r.queued else []
  | _ => []

/-- the LOG of the rows a history prints: for every flush of the history that prints, the rows
`qrows w queue` of the queue at that moment, concatenated in history order -/
def printedRows (w : Nat) (r : RState) : List ROp → List Line
  | [] => []
  | o :: os => stepPrinted w r o ++ printedRows w (step r o).1 os

theorem stepPrinted_flush_buf (w : Nat) (r : RState) (hbuf : r.buf ≠ []) (halt : r.altActive = false) :
    stepPrinted w r .flush = qrows w r.queued := by
  have hbe : r.buf.isEmpty = false := by
    cases hb : r.buf with
    | nil => exact absurd hb hbuf
    | cons _ _ => rfl
  cases hq : r.queued with
  | nil => simp [stepPrinted, flushPrints, hq, qrows]
  | cons q qs => simp [stepPrinted, flushPrints, hq, hbe, halt]

theorem stepPrinted_flush_nobuf (w : Nat) (r : RState) (hbuf : r.buf = []) :
    stepPrinted w r .flush = [] := by
  simp [stepPrinted, flushPrints, hbuf]

/-- mode switches other than 1049, as the one-operation lists the renderer writes -/
theorem applyOps_mode (t : Term) (n : Nat) (ops : List TermOp) (hn : n ≠ 1049)
    (hops : ops = [.decset n] ∨ ops = [.decrst n]) :
    (applyOps t ops).onAlt = t.onAlt ∧ (applyOps t ops).w = t.w ∧ (applyOps t ops).h = t.h ∧
    (applyOps t ops).alt = t.alt ∧ (applyOps t ops).main = t.main := by
  rcases hops with rfl | rfl
  · exact apply_mode_alt t n true hn
  · exact apply_mode_alt t n false hn

/-- **The one-step theorem of the inline renderer.**  Every `inlineStable` step keeps `InlineInv`
and `J`, and its trace is: nothing, except for a flush that prints, whose trace is the rows of the
whole queue. -/
theorem inline_step_trace (r : RState) (t : Term) (hinv : InlineInv r t) (hJ : J r) (o : ROp)
    (ho : inlineStable o = true) :
    InlineInv (step r o).1 (applyOps t (step r o).2) ∧ J (step r o).1 ∧
    InlineTrace r t (step r o).1 (applyOps t (step r o).2) (stepPrinted t.w r o) := by
  have hJ' : J (step r o).1 := J_step r o hJ (Or.inl hinv.alt)
  have mode : ∀ (r' : RState) (ops : List TermOp) (n : Nat), n ≠ 1049 →
      (ops = [.decset n] ∨ ops = [.decrst n]) → r'.altActive = r.altActive →
      r'.width = r.width → r'.height = r.height → r'.linesRendered = r.linesRendered →
      r'.lastLines = r.lastLines → r'.lastRender = r.lastRender →
      InlineInv r' (applyOps t ops) ∧ InlineTrace r t r' (applyOps t ops) [] := by
    intro r' ops n hn hops e1 e2 e3 e4 e5 e6
    obtain ⟨f1, f2, f3, f4, f5⟩ := applyOps_mode t n ops hn hops
    exact ⟨hinv.congr e1 e2 e3 e4 e5 e6 f1 f2 f3 f5, InlineTrace.still e4 f2 f3 f5 f4⟩
  suffices hh : InlineInv (step r o).1 (applyOps t (step r o).2) ∧
      InlineTrace r t (step r o).1 (applyOps t (step r o).2) (stepPrinted t.w r o) from
    ⟨hh.1, hJ', hh.2⟩
  cases o with
  | size w h => simp [inlineStable] at ho
  | enterAlt => simp [inlineStable] at ho
  | clearScreen => simp [inlineStable] at ho
  | stop => simp [inlineStable] at ho
  | kill => simp [inlineStable] at ho
  | write s => exact ⟨hinv.write s, InlineTrace.still rfl rfl rfl rfl rfl⟩
  | repaintMsg => exact ⟨hinv.repaint, InlineTrace.still rfl rfl rfl rfl rfl⟩
  | exitAlt =>
    have e : step r .exitAlt = (r, []) := by simp [step, exitAlt, hinv.alt]
    rw [e]
    exact ⟨hinv, InlineTrace.refl _ _⟩
  | printLine body =>
    rw [step_printLine_inline r body hinv.alt]
    exact ⟨hinv.enqueue _, InlineTrace.still rfl rfl rfl rfl rfl⟩
  | title s =>
    exact ⟨hinv.congr rfl rfl rfl rfl rfl rfl rfl rfl rfl rfl,
      InlineTrace.still rfl rfl rfl rfl rfl⟩
  | flush =>
    by_cases hbuf : r.buf = []
    · have hnoop : step r .flush = (r, []) := flush_noop r (by simp [hbuf])
      rw [stepPrinted_flush_nobuf _ r hbuf, hnoop]
      exact ⟨hinv, InlineTrace.refl _ _⟩
    · obtain ⟨a1, _, a3, a4, a5, a6, a7, a8, a9, _, _⟩ := inline_flushJ_inv r t hinv hJ hbuf
      rw [stepPrinted_flush_buf _ r hbuf hinv.alt]
      refine ⟨a1, ⟨a6, a7, a5, a3, a8, a9, ?_⟩⟩
      show t.main.top ≤ (applyOps t (flush r).2).main.top
      rw [a4]; exact Nat.le_max_left _ _
  | showCursor => exact mode _ _ 25 (by decide) (Or.inl rfl) rfl rfl rfl rfl rfl rfl
  | hideCursor => exact mode _ _ 25 (by decide) (Or.inr rfl) rfl rfl rfl rfl rfl rfl
  | mouseCell => exact mode _ _ 1002 (by decide) (Or.inl rfl) rfl rfl rfl rfl rfl rfl
  | noMouseCell => exact mode _ _ 1002 (by decide) (Or.inr rfl) rfl rfl rfl rfl rfl rfl
  | mouseAll => exact mode _ _ 1003 (by decide) (Or.inl rfl) rfl rfl rfl rfl rfl rfl
  | noMouseAll => exact mode _ _ 1003 (by decide) (Or.inr rfl) rfl rfl rfl rfl rfl rfl
  | mouseSGR => exact mode _ _ 1006 (by decide) (Or.inl rfl) rfl rfl rfl rfl rfl rfl
  | noMouseSGR => exact mode _ _ 1006 (by decide) (Or.inr rfl) rfl rfl rfl rfl rfl rfl
  | paste => exact mode _ _ 2004 (by decide) (Or.inl rfl) rfl rfl rfl rfl rfl rfl
  | noPaste => exact mode _ _ 2004 (by decide) (Or.inr rfl) rfl rfl rfl rfl rfl rfl
  | focus => exact mode _ _ 1004 (by decide) (Or.inl rfl) rfl rfl rfl rfl rfl rfl
  | noFocus => exact mode _ _ 1004 (by decide) (Or.inr rfl) rfl rfl rfl rfl rfl rfl

/-- **The one-step theorem** in its plain form: every `inlineStable` step keeps `InlineInv` and
`J`, the terminal receiving what the step writes. -/
theorem inline_step_inv (r : RState) (t : Term) (hinv : InlineInv r t) (hJ : J r) (o : ROp)
    (ho : inlineStable o = true) :
    InlineInv (step r o).1 (applyOps t (step r o).2) ∧ J (step r o).1 :=
  ⟨(inline_step_trace r t hinv hJ o ho).1, (inline_step_trace r t hinv hJ o ho).2.1⟩

theorem run_cons (r : RState) (o : ROp) (os : List ROp) :
    (run r (o :: os)).1 = (run (step r o).1 os).1 ∧
    ∀ t, (run r (o :: os)).2.foldl applyOps t =
      (run (step r o).1 os).2.foldl applyOps (applyOps t (step r o).2) :=
  ⟨rfl, fun _ => rfl⟩

/-- **The history theorem of the inline renderer.**  Along any `inlineStable` history `InlineInv`
and `J` are kept and the trace of the whole history is its log `printedRows`. -/
theorem inline_run_trace (ops : List ROp) : ∀ (r : RState) (t : Term), InlineInv r t → J r →
    (∀ o ∈ ops, inlineStable o = true) →
    InlineInv (run r ops).1 ((run r ops).2.foldl applyOps t) ∧ J (run r ops).1 ∧
    InlineTrace r t (run r ops).1 ((run r ops).2.foldl applyOps t) (printedRows t.w r ops) := by
  induction ops with
  | nil => intro r t h hJ _; exact ⟨h, hJ, InlineTrace.refl r t⟩
  | cons o os ih =>
    intro r t h hJ hs
    obtain ⟨a1, a2, a3⟩ := inline_step_trace r t h hJ o (hs o (by simp))
    obtain ⟨b1, b2, b3⟩ := ih (step r o).1 (applyOps t (step r o).2) a1 a2
      (fun o' ho' => hs o' (by simp [ho']))
    rw [(run_cons r o os).1, (run_cons r o os).2 t]
    rw [a3.w] at b3
    exact ⟨b1, b2, a3.trans b3⟩

/-! ### the logs of printed lines (renderer side: no terminal involved) -/

/-- the lines one step prints (queues while inline) -/
def stepLines : ROp → List Line
  | .printLine body => splitLines body
  | _ => []

/-- every line of every `printLine` step of a history, in history order -/
def printLinesOf (ops : List ROp) : List Line := ops.flatMap stepLines

/-- the lines a step takes out of the queue and prints: the whole queue, for a flush that prints -/
def stepPrintedLines (r : RState) : ROp → List Line
  | .flush => if flushPrints r then r.queued else []
  | _ => []

/-- the lines a history prints: the queue at the moment of every printing flush, in history order -/
def printedLines (r : RState) : List ROp → List Line
  | [] => []
  | o :: os => stepPrintedLines r o ++ printedLines (step r o).1 os

/-- the pending lines after one step, `acc` being the pending lines before it: a `printLine` step
appends its lines (unless the renderer is on the alt screen, where it is dropped), a flush that
prints leaves nothing pending, every other step changes nothing -/
def stepPending (acc : List Line) (r : RState) : ROp → List Line
  | .printLine body => if r.altActive then acc else acc ++ splitLines body
  | .flush => if flushPrints r then [] else acc
  | _ => acc

/-- the pending lines after a history that starts with `acc` pending -/
def pendingFrom (acc : List Line) (r : RState) : List ROp → List Line
  | [] => acc
  | o :: os => pendingFrom (stepPending acc r o) (step r o).1 os

/-- the lines printed (`printLine`) and not yet written after a history: the lines of the
`printLine` steps after the last printing flush (all of them, after what was queued at the start,
if no flush of the history prints) -/
def pendingLines (r : RState) (ops : List ROp) : List Line := pendingFrom r.queued r ops

theorem qrows_append (w : Nat) (a b : List Line) : qrows w (a ++ b) = qrows w a ++ qrows w b := by
  simp [qrows]

theorem stepPrinted_eq (w : Nat) (r : RState) (o : ROp) :
    stepPrinted w r o = qrows w (stepPrintedLines r o) := by
  cases o <;> first | rfl | skip
  show (if flushPrints r = true then qrows w r.queued else []) =
    qrows w (if flushPrints r = true then r.queued else [])
  split <;> rfl

/-- the rows a history prints are the rows of the lines it prints -/
theorem printedRows_eq (w : Nat) (ops : List ROp) : ∀ (r : RState),
    printedRows w r ops = qrows w (printedLines r ops) := by
  induction ops with
  | nil => intro r; rfl
  | cons o os ih =>
    intro r
    show stepPrinted w r o ++ printedRows w (step r o).1 os = _
    rw [ih, stepPrinted_eq]
    exact (qrows_append w _ _).symm

theorem run_append (a b : List ROp) : ∀ (r : RState),
    (run r (a ++ b)).1 = (run (run r a).1 b).1 ∧
    ∀ t, (run r (a ++ b)).2.foldl applyOps t =
      (run (run r a).1 b).2.foldl applyOps ((run r a).2.foldl applyOps t) := by
  induction a with
  | nil => intro r; exact ⟨rfl, fun _ => rfl⟩
  | cons o os ih =>
    intro r
    obtain ⟨i1, i2⟩ := ih (step r o).1
    exact ⟨i1, fun t => i2 _⟩

/-- a longer history only appends to the log: what was printed stays where it is in the log -/
theorem printedRows_append (w : Nat) (a b : List ROp) : ∀ (r : RState),
    printedRows w r (a ++ b) = printedRows w r a ++ printedRows w (run r a).1 b := by
  induction a with
  | nil => intro r; rfl
  | cons o os ih =>
    intro r
    show stepPrinted w r o ++ printedRows w (step r o).1 (os ++ b) = _
    rw [ih]
    exact (List.append_assoc _ _ _).symm

/-- **One step and the queue.**  While inline and with `J`, an `inlineStable` step leaves the
queue as the log function `stepPending` says; the renderer stays inline; and the lines queued
before the step followed by the lines the step prints (`printLine`) are the lines the step writes
(a printing flush) followed by the lines queued after it: nothing is lost, duplicated or reordered. -/
theorem queue_step (r : RState) (hJ : J r) (halt : r.altActive = false) (o : ROp)
    (ho : inlineStable o = true) :
    (step r o).1.queued = stepPending r.queued r o ∧ (step r o).1.altActive = false ∧
    r.queued ++ stepLines o = stepPrintedLines r o ++ (step r o).1.queued := by
  have plain : ∀ (r' : RState), r'.queued = r.queued → r'.altActive = r.altActive →
      r'.queued = r.queued ∧ r'.altActive = false ∧ r.queued ++ [] = [] ++ r'.queued := by
    intro r' e1 e2
    exact ⟨e1, by rw [e2, halt], by rw [e1]; simp⟩
  cases o with
  | size w h => simp [inlineStable] at ho
  | enterAlt => simp [inlineStable] at ho
  | clearScreen => simp [inlineStable] at ho
  | stop => simp [inlineStable] at ho
  | kill => simp [inlineStable] at ho
  | write s => exact plain _ rfl rfl
  | repaintMsg => exact plain _ rfl rfl
  | exitAlt =>
    have e : step r .exitAlt = (r, []) := by simp [step, exitAlt, halt]
    rw [e]
    exact plain _ rfl rfl
  | printLine body =>
    rw [step_printLine_inline r body halt]
    refine ⟨?_, halt, ?_⟩
    · show r.queued ++ splitLines body = if r.altActive = true then _ else _
      rw [halt]; rfl
    · show r.queued ++ splitLines body = [] ++ (r.queued ++ splitLines body)
      rfl
  | title s => exact plain _ rfl rfl
  | flush =>
    show (flush r).1.queued = (if flushPrints r = true then [] else r.queued) ∧
      (flush r).1.altActive = false ∧
      r.queued ++ [] = (if flushPrints r = true then r.queued else []) ++ (flush r).1.queued
    cases hne : (r.buf.isEmpty || r.buf == r.lastRender) with
    | true =>
      have hfp : flushPrints r = false := by
        cases hfp : flushPrints r with
        | false => rfl
        | true =>
          exfalso
          simp only [flushPrints, Bool.and_eq_true, Bool.not_eq_true', List.isEmpty_eq_false_iff] at hfp
          have hlr := hJ hfp.1.2
          rw [hlr] at hne
          have hb := hfp.1.1
          cases hbb : r.buf with
          | nil => simp [hbb] at hb
          | cons x xs => simp [hbb] at hne
      rw [flush_noop r hne, hfp]
      simp [halt]
    | false =>
      have hbe : r.buf.isEmpty = false := by
        cases hb : r.buf.isEmpty with
        | false => rfl
        | true => rw [hb] at hne; simp at hne
      rw [flush_state r hne]
      cases hq : r.queued with
      | nil => simp [flushPrints, hq, halt]
      | cons q qs => simp [flushPrints, hq, halt, hbe]
  | showCursor => exact plain _ rfl rfl
  | hideCursor => exact plain _ rfl rfl
  | mouseCell => exact plain _ rfl rfl
  | noMouseCell => exact plain _ rfl rfl
  | mouseAll => exact plain _ rfl rfl
  | noMouseAll => exact plain _ rfl rfl
  | mouseSGR => exact plain _ rfl rfl
  | noMouseSGR => exact plain _ rfl rfl
  | paste => exact plain _ rfl rfl
  | noPaste => exact plain _ rfl rfl
  | focus => exact plain _ rfl rfl
  | noFocus => exact plain _ rfl rfl

/-- **A history and the queue.**  Along an `inlineStable` history from an inline renderer with `J`:
the queue at the end is `pendingLines`; the renderer stays inline; and everything queued at the
start followed by every line of every `printLine` step, in order, is what the printing flushes
wrote, in order, followed by what is still pending — every printed line is in exactly one of the
two, once, and the order is the print order. -/
theorem queue_run (ops : List ROp) : ∀ (r : RState), J r → r.altActive = false →
    (∀ o ∈ ops, inlineStable o = true) →
    (run r ops).1.queued = pendingLines r ops ∧ (run r ops).1.altActive = false ∧
    r.queued ++ printLinesOf ops = printedLines r ops ++ pendingLines r ops := by
  induction ops with
  | nil => intro r _ halt _; exact ⟨rfl, halt, by simp [printLinesOf, printedLines, pendingLines, pendingFrom]⟩
  | cons o os ih =>
    intro r hJ halt hs
    obtain ⟨s1, s2, s3⟩ := queue_step r hJ halt o (hs o (by simp))
    obtain ⟨i1, i2, i3⟩ := ih (step r o).1 (J_step r o hJ (Or.inl halt)) s2
      (fun o' ho' => hs o' (by simp [ho']))
    have hp : pendingLines r (o :: os) = pendingLines (step r o).1 os := by
      show pendingFrom (stepPending r.queued r o) (step r o).1 os = pendingFrom (step r o).1.queued _ os
      rw [s1]
    rw [hp]
    refine ⟨i1, i2, ?_⟩
    show r.queued ++ (stepLines o ++ printLinesOf os) =
      (stepPrintedLines r o ++ printedLines (step r o).1 os) ++ pendingLines (step r o).1 os
    rw [← List.append_assoc, s3, List.append_assoc, i3, List.append_assoc]

/-! ### `pendingLines` is "the lines printed after the last printing flush" -/

theorem pendingFrom_append (a b : List ROp) : ∀ (acc : List Line) (r : RState),
    pendingFrom acc r (a ++ b) = pendingFrom (pendingFrom acc r a) (run r a).1 b := by
  induction a with
  | nil => intro acc r; rfl
  | cons o os ih => intro acc r; exact ih _ _

/-- a flush that prints has a non-empty queue -/
theorem flushPrints_queued {r : RState} (h : flushPrints r = true) : r.queued ≠ [] := by
  simp only [flushPrints, Bool.and_eq_true, Bool.not_eq_true', List.isEmpty_eq_false_iff] at h
  exact h.1.2

/-- along a stretch of an inline history in which no flush prints, the pending lines only grow:
by the lines of its `printLine` steps, in order -/
theorem pendingFrom_noprint (b : List ROp) : ∀ (acc : List Line) (r : RState), J r →
    r.altActive = false → (∀ o ∈ b, inlineStable o = true) → printedLines r b = [] →
    pendingFrom acc r b = acc ++ printLinesOf b := by
  induction b with
  | nil => intro acc r _ _ _ _; simp [pendingFrom, printLinesOf]
  | cons o os ih =>
    intro acc r hJ halt hs hp
    have hp' : stepPrintedLines r o = [] ∧ printedLines (step r o).1 os = [] :=
      List.append_eq_nil_iff.1 hp
    obtain ⟨_, s2, _⟩ := queue_step r hJ halt o (hs o (by simp))
    have hstep : stepPending acc r o = acc ++ stepLines o := by
      cases o with
      | printLine body =>
        show (if r.altActive = true then acc else acc ++ splitLines body) = acc ++ splitLines body
        rw [halt]; rfl
      | flush =>
        show (if flushPrints r = true then [] else acc) = acc ++ []
        cases hfp : flushPrints r with
        | false => simp
        | true =>
          exfalso
          have h1 := hp'.1
          simp only [stepPrintedLines, hfp, if_true] at h1
          exact flushPrints_queued hfp h1
      | _ => simp [stepPending, stepLines]
    show pendingFrom (stepPending acc r o) (step r o).1 os = acc ++ (stepLines o ++ printLinesOf os)
    rw [ih _ _ (J_step r o hJ (Or.inl halt)) s2 (fun o' ho' => hs o' (by simp [ho'])) hp'.2, hstep,
      List.append_assoc]

/-- **`pendingLines` after the last printing flush.**  If the history is `a`, then a flush that
prints, then a stretch `b` in which no flush prints, the pending lines at the end are exactly the
lines of the `printLine` steps of `b`, in order. -/
theorem pendingLines_last_flush (a b : List ROp) (r : RState) (hJ : J r) (halt : r.altActive = false)
    (hs : ∀ o ∈ a ++ .flush :: b, inlineStable o = true)
    (hfp : flushPrints (run r a).1 = true)
    (hb : printedLines (flush (run r a).1).1 b = []) :
    pendingLines r (a ++ .flush :: b) = printLinesOf b := by
  have hsa : ∀ o ∈ a, inlineStable o = true := fun o ho => hs o (by simp [ho])
  have hsb : ∀ o ∈ b, inlineStable o = true := fun o ho => hs o (by simp [ho])
  obtain ⟨_, q2, _⟩ := queue_run a r hJ halt hsa
  have hJa : J (run r a).1 := J_inline_run a r (fun _ => hJ) q2
  obtain ⟨_, s2, _⟩ := queue_step (run r a).1 hJa q2 .flush rfl
  unfold pendingLines
  rw [pendingFrom_append]
  show pendingFrom (if flushPrints (run r a).1 = true then [] else _) (flush (run r a).1).1 b = _
  rw [hfp, if_pos rfl]
  have := pendingFrom_noprint b [] (flush (run r a).1).1 (J_step _ .flush hJa (Or.inl q2)) s2 hsb hb
  rw [this]
  rfl

/-- if no flush of the history prints, everything is still pending: what was queued at the start
and every line of every `printLine` step -/
theorem pendingLines_noprint (ops : List ROp) (r : RState) (hJ : J r) (halt : r.altActive = false)
    (hs : ∀ o ∈ ops, inlineStable o = true) (hp : printedLines r ops = []) :
    pendingLines r ops = r.queued ++ printLinesOf ops :=
  pendingFrom_noprint ops r.queued r hJ halt hs hp

end Tea.Render
