import Tea.Proofs.InputDetect
import Tea.Proofs.Decimal
import Tea.Input.XtermEvent
/-
Helper lemmas for C11: the mouse decoders of the model against the xterm specification.
-/
namespace Tea.Input
open Tea Tea.Dec Xterm

/-! ### low eight bits -/

theorem low8_ofNat (n : Nat) : low8 (Int.ofNat n) = n % 256 := by
  unfold low8
  show ((n : Int) % 256).toNat = n % 256
  omega

theorem low8_ofNat_sub32 (n : Nat) (h : 32 ≤ n) : low8 (Int.ofNat n - 32) = (n - 32) % 256 := by
  unfold low8
  show (((n : Int) - 32) % 256).toNat = (n - 32) % 256
  omega

theorem low8_ofNat_sub32_lt (n : Nat) (h : n < 32) : low8 (Int.ofNat n - 32) = n + 224 := by
  unfold low8
  show (((n : Int) - 32) % 256).toNat = n + 224
  omega

/-- parseMouseButton only looks at the low eight bits of the (shifted) code -/
theorem parseMouseButton_congr {b b' : Int} {s : Bool}
    (h : low8 (if s then b else b - 32) = low8 (if s then b' else b' - 32)) :
    parseMouseButton b s = parseMouseButton b' s := by
  unfold parseMouseButton
  simp only [h]

/-! ### the specification only looks at the low eight bits -/

theorem Xterm.bit_mod (code k : Nat) : Xterm.bit (code % 256) k = Xterm.bit code k := by
  unfold Xterm.bit; rw [Nat.mod_mod]

theorem Xterm.decode_mod (sgr : Bool) (code : Nat) (rf : Bool) :
    Xterm.decode sgr (code % 256) rf = Xterm.decode sgr code rf := by
  unfold Xterm.decode Xterm.isWheel Xterm.isMotion Xterm.isX10Release Xterm.buttonOf
  simp only [Xterm.bit_mod, Nat.mod_mod]

/-! ### the finite core: all 256 codes -/

/-- the release fix-up of parseSGRMouseEvent -/
def sgrFix (ev : MouseEvent) (release : Bool) : MouseEvent :=
  if ev.action != actMotion && !isWheelBtn ev.button && release
  then { ev with action := actRelease, type := mtRelease } else ev

theorem fin_sgr : ∀ (c : Fin 256) (rel : Bool),
    sgrFix (parseMouseButton (Int.ofNat c.val) true) rel = event (decode true c.val rel) 0 0 := by
  decide +kernel

theorem fin_x10 : ∀ (c : Fin 256),
    parseMouseButton (Int.ofNat c.val + 32) false = event (decode false c.val false) 0 0 := by
  decide +kernel

/-- SGR: every button code -/
theorem sgrFix_parse (n : Nat) (rel : Bool) :
    sgrFix (parseMouseButton (Int.ofNat n) true) rel = event (decode true n rel) 0 0 := by
  have h1 : parseMouseButton (Int.ofNat n) true = parseMouseButton (Int.ofNat (n % 256)) true := by
    apply parseMouseButton_congr
    simp only [if_true, low8_ofNat, Nat.mod_mod]
  have h2 := fin_sgr ⟨n % 256, Nat.mod_lt _ (by decide)⟩ rel
  simp only at h2
  rw [h1, h2, Xterm.decode_mod]

/-- X10: every byte `≥ 32`, the code is the byte minus 32 -/
theorem x10_parse (cb : Nat) (h : 32 ≤ cb) :
    parseMouseButton (Int.ofNat cb) false = event (decode false (cb - 32) false) 0 0 := by
  have h1 : parseMouseButton (Int.ofNat cb) false
      = parseMouseButton (Int.ofNat ((cb - 32) % 256) + 32) false := by
    apply parseMouseButton_congr
    simp only [Bool.false_eq_true, if_false]
    rw [low8_ofNat_sub32 cb h]
    have : Int.ofNat ((cb - 32) % 256) + 32 - 32 = Int.ofNat ((cb - 32) % 256) := by omega
    rw [this, low8_ofNat, Nat.mod_mod]
  have h2 := fin_x10 ⟨(cb - 32) % 256, Nat.mod_lt _ (by decide)⟩
  simp only at h2
  rw [h1, h2, Xterm.decode_mod]

/-- X10: a byte below 32 wraps around (Go's `int` arithmetic, then the bit masks) -/
theorem x10_parse_lt (cb : Nat) (h : cb < 32) :
    parseMouseButton (Int.ofNat cb) false = event (decode false (cb + 224) false) 0 0 := by
  have h1 : parseMouseButton (Int.ofNat cb) false
      = parseMouseButton (Int.ofNat ((cb + 224) % 256) + 32) false := by
    apply parseMouseButton_congr
    simp only [Bool.false_eq_true, if_false]
    rw [low8_ofNat_sub32_lt cb h]
    have : Int.ofNat ((cb + 224) % 256) + 32 - 32 = Int.ofNat ((cb + 224) % 256) := by omega
    rw [this, low8_ofNat, Nat.mod_mod]
    omega
  have h2 := fin_x10 ⟨(cb + 224) % 256, Nat.mod_lt _ (by decide)⟩
  simp only at h2
  rw [h1, h2, Xterm.decode_mod]

/-- SGR code `b` and X10 byte `b + 32` are the same event -/
theorem parse_sgr_eq_x10 (b : Nat) :
    parseMouseButton (Int.ofNat b) true = parseMouseButton (Int.ofNat (b + 32)) false := by
  unfold parseMouseButton
  have : (Int.ofNat (b + 32) - 32 : Int) = Int.ofNat b := by
    show ((b + 32 : Nat) : Int) - 32 = (b : Int)
    omega
  simp only [if_true, Bool.false_eq_true, if_false, this]

/-! ### the regular expression on a well-formed report -/

theorem digits_isEmpty (n : Nat) : (digits n).isEmpty = false := by
  have := digits_ne_nil n
  cases h : digits n with
  | nil => exact absurd h this
  | cons _ _ => rfl

theorem sgrMatchAt_digits (b x y fin : Nat) (hfin : fin = 77 ∨ fin = 109) (rest : Bytes) :
    sgrMatchAt (digits b ++ 59 :: (digits x ++ 59 :: (digits y ++ fin :: rest)))
      = some { d1 := digits b, d2 := digits x, d3 := digits y, fin := fin,
               len := (digits b).length + 1 + (digits x).length + 1 + (digits y).length + 1 } := by
  have hf : isDigit fin = false := by rcases hfin with h | h <;> subst h <;> decide
  have hc : (fin == 77 || fin == 109) = true := by rcases hfin with h | h <;> subst h <;> decide
  unfold sgrMatchAt
  rw [spanDigits_digits_cons b 59 _ (by decide)]
  simp only [digits_isEmpty, Bool.false_eq_true, if_false]
  rw [spanDigits_digits_cons x 59 _ (by decide)]
  simp only [digits_isEmpty, Bool.false_eq_true, if_false]
  rw [spanDigits_digits_cons y fin _ hf]
  simp only [digits_isEmpty, Bool.false_eq_true, if_false, hc, if_true]

theorem sgrFind_of_matchAt {s : Bytes} {m : SgrMatch} (h : sgrMatchAt s = some m) :
    sgrFind s = some (0, m) := by
  cases s with
  | nil => simp [sgrMatchAt, spanDigits] at h
  | cons c cs => simp only [sgrFind, h]

theorem sgrFind_digits (b x y fin : Nat) (hfin : fin = 77 ∨ fin = 109) (rest : Bytes) :
    sgrFind (digits b ++ 59 :: (digits x ++ 59 :: (digits y ++ fin :: rest)))
      = some (0, { d1 := digits b, d2 := digits x, d3 := digits y, fin := fin,
                   len := (digits b).length + 1 + (digits x).length + 1 + (digits y).length + 1 }) :=
  sgrFind_of_matchAt (sgrMatchAt_digits b x y fin hfin rest)

/-! ### detectMouse / detectOneMsg on a report -/

/-- the event parseSGRMouseEvent builds from a match -/
def sgrEventOf (m : SgrMatch) : MouseEvent :=
  { sgrFix (parseMouseButton (Int.ofNat (atoi m.d1)) true) (m.fin == 109) with
    x := Int.ofNat (atoi m.d2) - 1, y := Int.ofNat (atoi m.d3) - 1 }

theorem parseSGR_of_find {buf : Bytes} {o : Nat} {m : SgrMatch} (h : sgrFind (buf.drop 3) = some (o, m)) :
    parseSGR buf = .ok (sgrEventOf m) := by
  unfold parseSGR
  rw [h]
  rfl

theorem detectMouse_sgr {s : Bytes} {o : Nat} {m : SgrMatch} (hlen : 3 ≤ s.length)
    (h : sgrFind s = some (o, m)) :
    detectMouse (0x1b :: 0x5b :: 0x3c :: s) = .ok (some (o + m.len + 3, .mouse (sgrEventOf m))) := by
  have hp : parseSGR (0x1b :: 0x5b :: 0x3c :: s) = .ok (sgrEventOf m) :=
    parseSGR_of_find (o := o) (by simpa using h)
  unfold detectMouse
  rw [if_pos (by simp only [List.length_cons]; omega)]
  simp only [h, hp]
  rfl

theorem detectOneMsg_of_mouse (T : Table) (lens : List Nat) (b : Bytes) (more : Bool) {w : Nat} {m : Msg}
    (hinc : (more && isIncompleteEvent T b) = false)
    (h : detectMouse b = .ok (some (w, m))) :
    detectOneMsg T lens b more = .ok (w, some m) := by
  unfold detectOneMsg
  rw [hinc, h]
  simp only [Bool.false_eq_true, if_false]

/-- the SGR report (normalised list form), any `more` for which the buffer is not held back -/
theorem detectOneMsg_sgr (T : Table) (lens : List Nat) (more : Bool) (b x y fin : Nat)
    (hfin : fin = 77 ∨ fin = 109) (rest : Bytes)
    (hinc : (more && isIncompleteEvent T
      (0x1b :: 0x5b :: 0x3c :: (digits b ++ 59 :: (digits x ++ 59 :: (digits y ++ fin :: rest))))) = false) :
    detectOneMsg T lens
      (0x1b :: 0x5b :: 0x3c :: (digits b ++ 59 :: (digits x ++ 59 :: (digits y ++ fin :: rest)))) more
      = .ok ((digits b).length + 1 + (digits x).length + 1 + (digits y).length + 1 + 3,
          some (.mouse (event (decode true (min b maxInt64) (fin == 109))
            (Int.ofNat (min x maxInt64) - 1) (Int.ofNat (min y maxInt64) - 1)))) := by
  have hfind := sgrFind_digits b x y fin hfin rest
  have hlen : 3 ≤ (digits b ++ 59 :: (digits x ++ 59 :: (digits y ++ fin :: rest))).length := by
    have := digits_length_pos b
    simp only [List.length_append, List.length_cons]
    omega
  have hm := detectMouse_sgr hlen hfind
  rw [detectOneMsg_of_mouse T lens _ more hinc hm]
  simp only [Nat.zero_add]
  unfold sgrEventOf
  simp only [atoi_digits, sgrFix_parse]
  rfl

/-- the X10 report -/
theorem detectMouse_x10 (cb cx cy : Nat) (rest : Bytes) :
    detectMouse (0x1b :: 0x5b :: 0x4d :: cb :: cx :: cy :: rest)
      = .ok (some (6, .mouse { parseMouseButton (Int.ofNat cb) false with
            x := Int.ofNat cx - 32 - 1, y := Int.ofNat cy - 32 - 1 })) := by
  unfold detectMouse
  rw [if_pos (by simp only [List.length_cons]; omega)]
  simp only [parseX10, idx]
  rfl

/-! ### a report is never an incomplete event by itself -/

theorem isParam_of_isDigit {c : Nat} (h : isDigit c = true) : isParam c = true := by
  unfold isDigit at h
  unfold isParam
  simp only [Bool.and_eq_true, decide_eq_true_eq] at h ⊢
  omega

theorem isIncompleteEvent_sgr (T : Table) (b x y fin : Nat) (hfin : fin = 77 ∨ fin = 109) (rest : Bytes) :
    isIncompleteEvent T
      (0x1b :: 0x5b :: 0x3c :: (digits b ++ 59 :: (digits x ++ 59 :: (digits y ++ fin :: rest))))
    = isProperPrefixOfKey T
      (0x1b :: 0x5b :: 0x3c :: (digits b ++ 59 :: (digits x ++ 59 :: (digits y ++ fin :: rest)))) := by
  have hp : ∀ n, ∀ a ∈ digits n, isParam a = true := fun n a ha => isParam_of_isDigit (digits_isDigit n a ha)
  have hfp : isParam fin = false := by rcases hfin with h | h <;> subst h <;> decide
  have hfi : isInter fin = false := by rcases hfin with h | h <;> subst h <;> decide
  have hdrop : (List.dropWhile isParam
      (0x3c :: (digits b ++ 59 :: (digits x ++ 59 :: (digits y ++ fin :: rest))))) = fin :: rest := by
    rw [List.dropWhile_cons_of_pos (by decide)]
    rw [List.dropWhile_append_of_pos (hp b), List.dropWhile_cons_of_pos (by decide)]
    rw [List.dropWhile_append_of_pos (hp x), List.dropWhile_cons_of_pos (by decide)]
    rw [List.dropWhile_append_of_pos (hp y), List.dropWhile_cons_of_neg (by simp [hfp])]
  have hfocus : detectReportFocus
      (0x1b :: 0x5b :: 0x3c :: (digits b ++ 59 :: (digits x ++ 59 :: (digits y ++ fin :: rest)))) = none := by
    unfold detectReportFocus
    simp
  unfold isIncompleteEvent
  simp only [hfocus, hdrop]
  cases isProperPrefixOfKey T
      (0x1b :: 0x5b :: 0x3c :: (digits b ++ 59 :: (digits x ++ 59 :: (digits y ++ fin :: rest)))) with
  | true => simp
  | false =>
    simp [List.dropWhile_cons_of_neg, hfi]

theorem isProperPrefixOfKey_false (T : Table) (p s : Bytes)
    (hT : ∀ e ∈ T, ¬ (p <+: e.seq)) :
    isProperPrefixOfKey T (p ++ s) = false := by
  unfold isProperPrefixOfKey
  rw [List.any_eq_false]
  intro e he
  simp only [Bool.and_eq_true, decide_eq_true_eq, not_and]
  intro _ hpre
  exact hT e he ((List.prefix_append p s).trans (isPrefix_iff.1 hpre))

/-! ### one step of the decode loop -/

theorem decodeLoop_step (T : Table) (lens : List Nat) (more : Bool) (fuel : Nat)
    (r rest : Bytes) (acc : List Out) (m : Option Msg) (hr : r ≠ [])
    (h : detectOneMsg T lens (r ++ rest) more = .ok (r.length, m)) :
    decodeLoop T lens more (fuel + 1) (r ++ rest) acc
      = decodeLoop T lens more fuel rest ({ msg := m, consumed := r } :: acc) := by
  rw [decodeLoop]
  have hne : (r ++ rest).isEmpty = false := by
    cases r with
    | nil => exact absurd rfl hr
    | cons _ _ => rfl
  have hw : (r.length == 0) = false := by
    cases r with
    | nil => exact absurd rfl hr
    | cons _ _ => rfl
  simp only [hne, h, hw, Bool.false_eq_true, if_false, List.drop_left, List.take_left]

/-! ### the X10 report is never an incomplete event by itself -/

theorem isIncompleteEvent_x10 (T : Table) (cb cx cy : Nat) (rest : Bytes) :
    isIncompleteEvent T (0x1b :: 0x5b :: 0x4d :: cb :: cx :: cy :: rest)
    = isProperPrefixOfKey T (0x1b :: 0x5b :: 0x4d :: cb :: cx :: cy :: rest) := by
  have hfocus : detectReportFocus (0x1b :: 0x5b :: 0x4d :: cb :: cx :: cy :: rest) = none := by
    unfold detectReportFocus
    simp
  unfold isIncompleteEvent
  simp only [hfocus]
  cases isProperPrefixOfKey T (0x1b :: 0x5b :: 0x4d :: cb :: cx :: cy :: rest) with
  | true => simp
  | false => simp

/-! ### report normal forms -/

theorem sgrReport_append (b x y fin : Nat) (rest : Bytes) :
    sgrReport b x y fin ++ rest
      = 0x1b :: 0x5b :: 0x3c :: (digits b ++ 59 :: (digits x ++ 59 :: (digits y ++ fin :: rest))) := by
  simp only [sgrReport, List.append_assoc, List.cons_append, List.nil_append]

theorem sgrReport_length (b x y fin : Nat) :
    (sgrReport b x y fin).length
      = (digits b).length + 1 + (digits x).length + 1 + (digits y).length + 1 + 3 := by
  simp only [sgrReport, List.length_append, List.length_cons, List.length_nil]
  omega

theorem sgrReport_ne_nil (b x y fin : Nat) : sgrReport b x y fin ≠ [] := by
  intro h
  have := congrArg List.length h
  rw [sgrReport_length] at this
  simp at this

/-! ### consequences of the specification, all codes (lifted from the 256 low bytes) -/

theorem fin_wheel : ∀ (c : Fin 256) (sgr rf : Bool),
    ((4 ≤ (decode sgr c.val rf).button ∧ (decode sgr c.val rf).button ≤ 7) ↔ c.val / 64 % 4 = 1) ∧
    (c.val / 64 % 4 = 1 → (decode sgr c.val rf).action = press) := by
  decide +kernel

theorem fin_motion : ∀ (c : Fin 256) (sgr rf : Bool),
    c.val / 32 % 2 = 1 → c.val / 64 % 4 ≠ 1 → (decode sgr c.val rf).action = motion := by
  decide +kernel

theorem fin_release : ∀ (c : Fin 256) (sgr rf : Bool),
    c.val / 32 % 2 = 0 → c.val / 64 % 4 ≠ 1 →
    ((decode sgr c.val rf).action = release ↔
      ((sgr = true ∧ rf = true) ∨ (c.val % 4 = 3 ∧ c.val / 64 % 4 = 0))) ∧
    ((decode sgr c.val rf).action = press ∨ (decode sgr c.val rf).action = release) := by
  decide +kernel

theorem fin_button : ∀ (c : Fin 256) (sgr rf : Bool),
    (decode sgr c.val rf).button =
      (if c.val / 128 % 2 = 1 then 8 + c.val % 4
       else if c.val / 64 % 2 = 1 then 4 + c.val % 4
       else if c.val % 4 = 3 then 0 else 1 + c.val % 4) := by
  decide +kernel

theorem fin_mods : ∀ (c : Fin 256) (sgr rf : Bool),
    ((decode sgr c.val rf).shift = true ↔ c.val / 4 % 2 = 1) ∧
    ((decode sgr c.val rf).alt = true ↔ c.val / 8 % 2 = 1) ∧
    ((decode sgr c.val rf).ctrl = true ↔ c.val / 16 % 2 = 1) := by
  decide +kernel

theorem Xterm.wheel (sgr : Bool) (code : Nat) (rf : Bool) :
    ((4 ≤ (decode sgr code rf).button ∧ (decode sgr code rf).button ≤ 7) ↔ code / 64 % 4 = 1) ∧
    (code / 64 % 4 = 1 → (decode sgr code rf).action = press) := by
  have h := fin_wheel ⟨code % 256, Nat.mod_lt _ (by decide)⟩ sgr rf
  simp only [Xterm.decode_mod] at h
  have e : code % 256 / 64 % 4 = code / 64 % 4 := by omega
  rw [e] at h
  exact h

theorem Xterm.motion_of (sgr : Bool) (code : Nat) (rf : Bool)
    (hm : code / 32 % 2 = 1) (hw : code / 64 % 4 ≠ 1) : (decode sgr code rf).action = motion := by
  have h := fin_motion ⟨code % 256, Nat.mod_lt _ (by decide)⟩ sgr rf
  simp only [Xterm.decode_mod] at h
  exact h (by omega) (by omega)

theorem Xterm.release_iff (sgr : Bool) (code : Nat) (rf : Bool)
    (hm : code / 32 % 2 = 0) (hw : code / 64 % 4 ≠ 1) :
    ((decode sgr code rf).action = release ↔
      ((sgr = true ∧ rf = true) ∨ (code % 4 = 3 ∧ code / 64 % 4 = 0))) ∧
    ((decode sgr code rf).action = press ∨ (decode sgr code rf).action = release) := by
  have h := fin_release ⟨code % 256, Nat.mod_lt _ (by decide)⟩ sgr rf
  simp only [Xterm.decode_mod] at h
  have e1 : code % 256 / 64 % 4 = code / 64 % 4 := by omega
  have e2 : code % 256 % 4 = code % 4 := by omega
  rw [e1, e2] at h
  exact h (by omega) hw

theorem Xterm.button_eq (sgr : Bool) (code : Nat) (rf : Bool) :
    (decode sgr code rf).button =
      (if code / 128 % 2 = 1 then 8 + code % 4
       else if code / 64 % 2 = 1 then 4 + code % 4
       else if code % 4 = 3 then 0 else 1 + code % 4) := by
  have h := fin_button ⟨code % 256, Nat.mod_lt _ (by decide)⟩ sgr rf
  simp only [Xterm.decode_mod] at h
  have e1 : code % 256 / 128 % 2 = code / 128 % 2 := by omega
  have e2 : code % 256 / 64 % 2 = code / 64 % 2 := by omega
  have e3 : code % 256 % 4 = code % 4 := by omega
  rw [e1, e2, e3] at h
  exact h

theorem Xterm.mods (sgr : Bool) (code : Nat) (rf : Bool) :
    ((decode sgr code rf).shift = true ↔ code / 4 % 2 = 1) ∧
    ((decode sgr code rf).alt = true ↔ code / 8 % 2 = 1) ∧
    ((decode sgr code rf).ctrl = true ↔ code / 16 % 2 = 1) := by
  have h := fin_mods ⟨code % 256, Nat.mod_lt _ (by decide)⟩ sgr rf
  simp only [Xterm.decode_mod] at h
  have e1 : code % 256 / 4 % 2 = code / 4 % 2 := by omega
  have e2 : code % 256 / 8 % 2 = code / 8 % 2 := by omega
  have e3 : code % 256 / 16 % 2 = code / 16 % 2 := by omega
  rw [e1, e2, e3] at h
  exact h

/-- without a release final byte the SGR and the X10 reading of a code are the same -/
theorem Xterm.decode_sgr_press (code : Nat) : decode true code false = decode false code false := by
  unfold decode
  simp only [Bool.and_false]

end Tea.Input
