import Tea.Render.Program
import Tea.Proofs.EnterAlt
/-
Helper lemmas for C12 / C05 / C17 (terminal modes).

Plan: the mode part of the terminal (`modesOf t : ModeReg`, seven Booleans) evolves under a
terminal operation by a register function `regOp` that does not look at the rest of the
terminal (`modesOf_apply`). Every renderer operation `ROp` acts on the register by `regROp`
provided the renderer's tracked flags agree with the terminal (`TrackedM`), and keeps them in
agreement (`step_sim`). Everything about modes then becomes a computation on registers.
-/
namespace Tea.Render
open Tea Tea.VT

/-! ## 1. the modes after one terminal operation -/

/-- DECSET / DECRST `n` on the mode register -/
def setReg (m : ModeReg) (n : Nat) (v : Bool) : ModeReg :=
  if n = 25 then { m with cursorVis := v }
  else if n = 1002 then { m with m1002 := v }
  else if n = 1003 then { m with m1003 := v }
  else if n = 1006 then { m with m1006 := v }
  else if n = 1004 then { m with focus := v }
  else if n = 2004 then { m with paste := v }
  else if n = 1049 then { m with alt := v }
  else m

/-- one terminal operation on the mode register: only DECSET / DECRST matter -/
def regOp (m : ModeReg) : TermOp → ModeReg
  | .decset n => setReg m n true
  | .decrst n => setReg m n false
  | _ => m

/-- operations that are not DECSET / DECRST -/
def nonMode : TermOp → Bool
  | .decset _ => false
  | .decrst _ => false
  | _ => true

theorem modesOf_setBuf (t : Term) (b : Buf) : modesOf (t.setBuf b) = modesOf t := by
  simp only [Term.setBuf]
  split <;> rfl

theorem modesOf_setMode (t : Term) (n : Nat) (v : Bool) :
    modesOf (setMode t n v) = setReg (modesOf t) n v := by
  unfold setMode setReg
  by_cases h1 : n = 25
  · subst h1; simp [modesOf]
  by_cases h2 : n = 1002
  · subst h2; simp [modesOf]
  by_cases h3 : n = 1003
  · subst h3; simp [modesOf]
  by_cases h4 : n = 1006
  · subst h4; simp [modesOf]
  by_cases h5 : n = 1004
  · subst h5; simp [modesOf]
  by_cases h6 : n = 2004
  · subst h6; simp [modesOf]
  by_cases h7 : n = 1049
  · subst h7
    cases v <;> cases h : t.onAlt <;> simp [modesOf, h]
  simp [h1, h2, h3, h4, h5, h6, h7]

/-- the modes after any terminal operation depend only on the modes before -/
theorem modesOf_apply (t : Term) (op : TermOp) : modesOf (apply t op) = regOp (modesOf t) op := by
  cases op <;> simp [apply, regOp, modesOf_setBuf, modesOf_setMode] <;> rfl

theorem regOp_nonMode (m : ModeReg) (op : TermOp) (h : nonMode op = true) : regOp m op = m := by
  cases op <;> simp [nonMode] at h <;> rfl

/-- operations other than DECSET / DECRST leave every mode alone -/
theorem modesOf_apply_nonMode (t : Term) (op : TermOp) (h : nonMode op = true) :
    modesOf (apply t op) = modesOf t := by
  rw [modesOf_apply, regOp_nonMode _ _ h]

theorem modesOf_applyOps (t : Term) (ops : List TermOp) :
    modesOf (applyOps t ops) = ops.foldl regOp (modesOf t) := by
  induction ops generalizing t with
  | nil => rfl
  | cons op ops ih =>
    simp only [applyOps, List.foldl_cons] at ih ⊢
    rw [ih, modesOf_apply]

theorem applyOps_append (t : Term) (a b : List TermOp) :
    applyOps t (a ++ b) = applyOps (applyOps t a) b := by
  simp [applyOps, List.foldl_append]

theorem foldl_regOp_nonMode (m : ModeReg) (ops : List TermOp) (h : ops.all nonMode = true) :
    ops.foldl regOp m = m := by
  induction ops with
  | nil => rfl
  | cons op ops ih =>
    simp only [List.all_cons, Bool.and_eq_true] at h
    simp only [List.foldl_cons, regOp_nonMode _ _ h.1]
    exact ih h.2

/-! ## 2. what `flush` writes -/

theorem queuedLineOps_nonMode (w : Nat) (l : Line) : (queuedLineOps w l).all nonMode = true := by
  unfold queuedLineOps
  split <;> simp [nonMode]

theorem paintLineOps_nonMode (r : RState) (fq sh : Bool) (n i : Nat) (l : Line) :
    (paintLineOps r fq sh n i l).all nonMode = true := by
  unfold paintLineOps
  simp only []
  split
  · split <;> simp [nonMode]
  · simp only [List.all_append, Bool.and_eq_true]
    refine ⟨⟨⟨?_, ?_⟩, ?_⟩, ?_⟩
    · split <;> simp [nonMode]
    · split <;> simp [nonMode]
    · constructor
      · simp [nonMode]
      · split <;> simp [nonMode]
    · split <;> simp [nonMode]

theorem paintOps_nonMode (r : RState) (fq sh : Bool) (n : Nat) (i : Nat) (ls : List Line) :
    (paintOps r fq sh n i ls).all nonMode = true := by
  induction ls generalizing i with
  | nil => simp [paintOps]
  | cons l ls ih =>
    simp only [paintOps, List.all_append, Bool.and_eq_true]
    exact ⟨paintLineOps_nonMode .., ih _⟩

theorem flush_nonMode (r : RState) : (flush r).2.all nonMode = true := by
  unfold flush
  split
  · simp
  · simp only [List.all_append, Bool.and_eq_true]
    refine ⟨⟨⟨?_, ?_⟩, ?_⟩, ?_⟩
    · split
      · simp [nonMode]
      · split <;> simp [nonMode]
    · split
      · simp only [List.all_flatMap]
        simp [queuedLineOps_nonMode]
      · simp
    · exact paintOps_nonMode ..
    · split <;> simp [nonMode]

/-- `flush` does not touch the tracked flags -/
theorem flush_flags (r : RState) :
    (flush r).1.altActive = r.altActive ∧ (flush r).1.bpActive = r.bpActive ∧
    (flush r).1.focusActive = r.focusActive ∧ (flush r).1.cursorHidden = r.cursorHidden := by
  unfold flush
  split <;> simp

/-! ## 3. the tracked flags and the register semantics of renderer operations -/

/-- the renderer's tracked flags agree with a mode register -/
def TrackedM (r : RState) (m : ModeReg) : Prop :=
  r.altActive = m.alt ∧ r.bpActive = m.paste ∧ r.focusActive = m.focus ∧
  r.cursorHidden = !m.cursorVis

/-- the renderer's tracked flags agree with the terminal -/
def Tracked (r : RState) (t : Term) : Prop :=
  r.altActive = (modesOf t).alt ∧ r.bpActive = (modesOf t).paste ∧
  r.focusActive = (modesOf t).focus ∧ r.cursorHidden = !(modesOf t).cursorVis

theorem tracked_iff (r : RState) (t : Term) : Tracked r t ↔ TrackedM r (modesOf t) := Iff.rfl

/-- the documented effect of a renderer operation on the modes -/
def regROp (m : ModeReg) : ROp → ModeReg
  | .enterAlt => { m with alt := true }
  | .exitAlt => { m with alt := false }
  | .showCursor => { m with cursorVis := true }
  | .hideCursor => { m with cursorVis := false }
  | .mouseCell => { m with m1002 := true }
  | .noMouseCell => { m with m1002 := false }
  | .mouseAll => { m with m1003 := true }
  | .noMouseAll => { m with m1003 := false }
  | .mouseSGR => { m with m1006 := true }
  | .noMouseSGR => { m with m1006 := false }
  | .paste => { m with paste := true }
  | .noPaste => { m with paste := false }
  | .focus => { m with focus := true }
  | .noFocus => { m with focus := false }
  | _ => m

/-- renderer operations that have nothing to do with modes (views, ticks, sizes, prints, titles,
clear-screen, stopping) -/
def ROp.neutral : ROp → Bool
  | .size .. | .write _ | .flush | .repaintMsg | .clearScreen | .printLine _ | .stop | .kill
  | .title _ => true
  | _ => false

theorem regROp_neutral (m : ModeReg) (op : ROp) (h : op.neutral = true) : regROp m op = m := by
  cases op <;> simp [ROp.neutral] at h <;> rfl

theorem preAlt_nonMode (r : RState) : (preAlt r).2.all nonMode = true := by
  rcases preAlt_cases r with h | h <;> rw [h]
  · rfl
  · exact flush_nonMode r

/-- (unchanged by the render that now precedes the switch: it writes no mode) -/
theorem enterAlt_sim (r : RState) (m : ModeReg) (h : TrackedM r m) :
    TrackedM (enterAlt r).1 { m with alt := true } ∧
    (enterAlt r).2.foldl regOp m = { m with alt := true } := by
  obtain ⟨ha, hb, hf, hc⟩ := h
  cases hra : r.altActive
  · obtain ⟨f1, _, _, _, _, _, _, f8, f9, f10, _, _⟩ := enterAlt_fields r hra
    refine ⟨⟨f1, by rw [f9]; exact hb, by rw [f10]; exact hf, by rw [f8]; exact hc⟩, ?_⟩
    rw [enterAlt_ops r hra, List.foldl_append, foldl_regOp_nonMode _ _ (preAlt_nonMode r)]
    cases m with
    | mk alt cv a b c p f =>
      simp only at hc
      cases cv <;> simp_all [switchOps, regOp, setReg, cursorOp]
  · rw [enterAlt_active r hra]
    cases m with
    | mk alt cv a b c p f =>
      simp only at ha
      rw [hra] at ha
      subst ha
      exact ⟨⟨hra, hb, hf, hc⟩, rfl⟩

theorem exitAlt_sim (r : RState) (m : ModeReg) (h : TrackedM r m) :
    TrackedM (exitAlt r).1 { m with alt := false } ∧
    (exitAlt r).2.foldl regOp m = { m with alt := false } := by
  obtain ⟨ha, hb, hf, hc⟩ := h
  cases m with
  | mk alt cv a b c p f =>
    simp only at ha hb hf hc
    unfold exitAlt
    cases hra : r.altActive
    · simp_all [TrackedM]
    · cases cv <;>
        simp_all [TrackedM, RState.repaint, regOp, setReg, cursorOp]

theorem stop_flags (r : RState) :
    (stop r).1.altActive = r.altActive ∧ (stop r).1.bpActive = r.bpActive ∧
    (stop r).1.focusActive = r.focusActive ∧ (stop r).1.cursorHidden = r.cursorHidden := by
  simp only [stop]
  exact flush_flags r

theorem stop_nonMode (r : RState) : (stop r).2.all nonMode = true := by
  simp only [stop, List.all_append, Bool.and_eq_true]
  exact ⟨flush_nonMode r, by simp [nonMode]⟩

/-- C05_tracked_flags_sound, register form: every renderer operation has its documented effect
on the modes and keeps the tracked flags in agreement with them -/
theorem step_sim (r : RState) (m : ModeReg) (op : ROp) (h : TrackedM r m) :
    TrackedM (step r op).1 (regROp m op) ∧ (step r op).2.foldl regOp m = regROp m op := by
  cases op with
  | enterAlt => exact enterAlt_sim r m h
  | exitAlt => exact exitAlt_sim r m h
  | flush =>
    obtain ⟨h1, h2, h3, h4⟩ := flush_flags r
    obtain ⟨ha, hb, hf, hc⟩ := h
    refine ⟨⟨?_, ?_, ?_, ?_⟩, ?_⟩ <;> simp only [step, regROp]
    · rw [h1, ha]
    · rw [h2, hb]
    · rw [h3, hf]
    · rw [h4, hc]
    · exact foldl_regOp_nonMode _ _ (flush_nonMode r)
  | stop =>
    obtain ⟨h1, h2, h3, h4⟩ := stop_flags r
    obtain ⟨ha, hb, hf, hc⟩ := h
    refine ⟨⟨?_, ?_, ?_, ?_⟩, ?_⟩ <;> simp only [step, regROp]
    · rw [h1, ha]
    · rw [h2, hb]
    · rw [h3, hf]
    · rw [h4, hc]
    · exact foldl_regOp_nonMode _ _ (stop_nonMode r)
  | printLine body =>
    obtain ⟨ha, hb, hf, hc⟩ := h
    simp only [step, regROp]
    split <;> simp_all [TrackedM, RState.repaint]
  | _ =>
    obtain ⟨ha, hb, hf, hc⟩ := h
    simp_all [step, regROp, TrackedM, RState.repaint, write, clearScreen, kill, regOp, setReg]

/-! ## 4. histories -/

theorem runOps_cons (r : RState) (o : ROp) (os : List ROp) :
    runOps r (o :: os) = ((runOps (step r o).1 os).1, (step r o).2 ++ (runOps (step r o).1 os).2) := rfl

theorem runOps_append (r : RState) (a b : List ROp) :
    runOps r (a ++ b) =
      ((runOps (runOps r a).1 b).1, (runOps r a).2 ++ (runOps (runOps r a).1 b).2) := by
  induction a generalizing r with
  | nil => simp [runOps]
  | cons o os ih =>
    simp only [List.cons_append, runOps_cons, ih, List.append_assoc]

/-- a whole history acts on the modes as the fold of the documented effects, and the tracked
flags agree with the modes afterwards -/
theorem runOps_sim (r : RState) (m : ModeReg) (h : List ROp) (hT : TrackedM r m) :
    TrackedM (runOps r h).1 (h.foldl regROp m) ∧
    (runOps r h).2.foldl regOp m = h.foldl regROp m := by
  induction h generalizing r m with
  | nil => exact ⟨hT, rfl⟩
  | cons o os ih =>
    obtain ⟨h1, h2⟩ := step_sim r m o hT
    obtain ⟨h3, h4⟩ := ih (step r o).1 (regROp m o) h1
    simp only [runOps_cons, List.foldl_cons, List.foldl_append, h2]
    exact ⟨h3, h4⟩

theorem run_tracked (r : RState) (t : Term) (h : List ROp) (hT : Tracked r t) :
    Tracked (runOps r h).1 (applyOps t (runOps r h).2) ∧
    modesOf (applyOps t (runOps r h).2) = h.foldl regROp (modesOf t) := by
  obtain ⟨h1, h2⟩ := runOps_sim r (modesOf t) h hT
  rw [tracked_iff, modesOf_applyOps, h2]
  exact ⟨h1, rfl⟩

theorem foldl_regROp_neutral (m : ModeReg) (h : List ROp) (hn : h.all ROp.neutral = true) :
    h.foldl regROp m = m := by
  induction h with
  | nil => rfl
  | cons o os ih =>
    simp only [List.all_cons, Bool.and_eq_true] at hn
    simp only [List.foldl_cons, regROp_neutral _ _ hn.1]
    exact ih hn.2

/-! ## 5. the specification register machine -/

theorem modeMsgOps_spec (m : ModeReg) (c : ModeCmd) :
    (modeMsgOps c).foldl regROp m = specCmd m c := by
  cases c <;> rfl

theorem cmds_spec (m : ModeReg) (cs : List ModeCmd) :
    (cs.flatMap modeMsgOps).foldl regROp m = cs.foldl specCmd m := by
  induction cs generalizing m with
  | nil => rfl
  | cons c cs ih =>
    simp only [List.flatMap_cons, List.foldl_append, List.foldl_cons, modeMsgOps_spec, ih]

theorem startup_spec (o : Opts) : (startupOps o).foldl regROp {} = specStartup o := by
  cases o with
  | mk alt cell all noPaste focus =>
    cases alt <;> cases cell <;> cases all <;> cases noPaste <;> cases focus <;> rfl

theorem tracked_init : TrackedM {} {} := ⟨rfl, rfl, rfl, rfl⟩

/-! ## 6. restoring -/

theorem restore_spec (r : RState) (m : ModeReg) (hT : TrackedM r m) :
    (restoreOps r).foldl regROp m = {} := by
  obtain ⟨ha, hb, hf, hc⟩ := hT
  cases m with
  | mk alt cv a b c p f =>
    simp only at ha hb hf hc
    simp only [restoreOps, ha, hf]
    cases alt <;> cases f <;> rfl

theorem shutdown_spec (r : RState) (m : ModeReg) (kill : Bool) (hT : TrackedM r m) :
    (shutdownOps r kill).foldl regROp m = {} := by
  simp only [shutdownOps, List.foldl_append, List.foldl_cons, List.foldl_nil]
  have : regROp m (if kill = true then ROp.kill else ROp.stop) = m := by
    cases kill <;> rfl
  rw [this]
  exact restore_spec r m hT

theorem exit_spec (r : RState) (m : ModeReg) (k : ExitKind) (hT : TrackedM r m) :
    (exitOps r k).foldl regROp m = {} := by
  cases k with
  | quit => exact shutdown_spec r m false hT
  | ctx => exact shutdown_spec r m true hT
  | killApi =>
    simp only [exitOps, List.foldl_append]
    obtain ⟨h1, _⟩ := runOps_sim r m (shutdownOps r true) hT
    rw [shutdown_spec r m true hT] at h1 ⊢
    exact shutdown_spec _ _ true h1

theorem runProgram_out (o : Opts) (cs : List ModeCmd) (k : ExitKind) :
    (runProgram o cs k).2 =
      (runOps {} (startupOps o ++ cs.flatMap modeMsgOps)).2 ++
      (runOps (runOps {} (startupOps o ++ cs.flatMap modeMsgOps)).1
        (exitOps (runOps {} (startupOps o ++ cs.flatMap modeMsgOps)).1 k)).2 := rfl

/-! ## 7. on the alt screen nothing reaches the main buffer -/

/-- terminal operations that cannot leave the alt screen: everything but `CSI ? 1049 l` -/
def staysAlt : TermOp → Bool
  | .decrst n => n != 1049
  | _ => true

theorem staysAlt_of_nonMode (op : TermOp) (h : nonMode op = true) : staysAlt op = true := by
  cases op <;> simp [nonMode] at h <;> rfl

theorem all_staysAlt_of_nonMode (ops : List TermOp) (h : ops.all nonMode = true) :
    ops.all staysAlt = true := by
  rw [List.all_eq_true] at h ⊢
  exact fun x hx => staysAlt_of_nonMode x (h x hx)

theorem setMode_onAlt (t : Term) (n : Nat) (v : Bool) (h : t.onAlt = true)
    (hv : v = true ∨ n ≠ 1049) :
    (setMode t n v).onAlt = true ∧ (setMode t n v).main = t.main := by
  unfold setMode
  by_cases h1 : n = 25
  · simp [h1, h]
  by_cases h2 : n = 1002
  · simp [h2, h]
  by_cases h3 : n = 1003
  · simp [h3, h]
  by_cases h4 : n = 1006
  · simp [h4, h]
  by_cases h5 : n = 1004
  · simp [h5, h]
  by_cases h6 : n = 2004
  · simp [h6, h]
  by_cases h7 : n = 1049
  · rcases hv with hv | hv
    · subst hv; simp [h7, h]
    · exact absurd h7 hv
  simp [h1, h2, h3, h4, h5, h6, h7, h]

theorem apply_onAlt (t : Term) (op : TermOp) (h : t.onAlt = true) (hs : staysAlt op = true) :
    (apply t op).onAlt = true ∧ (apply t op).main = t.main := by
  cases op with
  | decset n => exact setMode_onAlt t n true h (Or.inl rfl)
  | decrst n =>
    refine setMode_onAlt t n false h (Or.inr ?_)
    simpa [staysAlt] using hs
  | title s => simp [apply, h]
  | _ => simp [apply, Term.setBuf, h]

theorem applyOps_onAlt (t : Term) (ops : List TermOp) (h : t.onAlt = true)
    (hs : ops.all staysAlt = true) :
    (applyOps t ops).onAlt = true ∧ (applyOps t ops).main = t.main := by
  induction ops generalizing t with
  | nil => exact ⟨h, rfl⟩
  | cons op ops ih =>
    simp only [List.all_cons, Bool.and_eq_true] at hs
    obtain ⟨h1, h2⟩ := apply_onAlt t op h hs.1
    obtain ⟨h3, h4⟩ := ih (apply t op) h1 hs.2
    simp only [applyOps, List.foldl_cons] at h3 h4 ⊢
    exact ⟨h3, h4.trans h2⟩

theorem cursorOp_staysAlt (b : Bool) : staysAlt (cursorOp b) = true := by
  cases b <;> rfl

/-- only `exitAlt` can write `CSI ? 1049 l` -/
theorem step_staysAlt (r : RState) (op : ROp) (hne : op ≠ .exitAlt) :
    (step r op).2.all staysAlt = true := by
  cases op with
  | exitAlt => exact absurd rfl hne
  | flush => exact all_staysAlt_of_nonMode _ (flush_nonMode r)
  | stop => exact all_staysAlt_of_nonMode _ (stop_nonMode r)
  | enterAlt =>
    show (enterAlt r).2.all staysAlt = true
    cases hra : r.altActive
    · rw [enterAlt_ops r hra, List.all_append, Bool.and_eq_true]
      refine ⟨all_staysAlt_of_nonMode _ (preAlt_nonMode r), ?_⟩
      simp only [switchOps, List.all_cons, List.all_nil, cursorOp_staysAlt]
      rfl
    · rw [enterAlt_active r hra]; rfl
  | printLine body =>
    simp only [step]
    split <;> rfl
  | _ => simp [step, clearScreen, kill, staysAlt]

theorem runOps_staysAlt (r : RState) (h : List ROp) (hne : ROp.exitAlt ∉ h) :
    (runOps r h).2.all staysAlt = true := by
  induction h generalizing r with
  | nil => rfl
  | cons o os ih =>
    simp only [List.mem_cons, not_or] at hne
    simp only [runOps_cons, List.all_append, Bool.and_eq_true]
    exact ⟨step_staysAlt r o (fun h => hne.1 h.symm), ih _ hne.2⟩

/-- from any state on the alt screen, a history without `exitAlt` leaves the whole main buffer
(cells, window, cursor, saved cursor) untouched and stays on the alt screen -/
theorem alt_keeps_main (r : RState) (t : Term) (h : List ROp) (hon : t.onAlt = true)
    (hne : ROp.exitAlt ∉ h) :
    (applyOps t (runOps r h).2).onAlt = true ∧ (applyOps t (runOps r h).2).main = t.main :=
  applyOps_onAlt t _ hon (runOps_staysAlt r h hne)

/-- the first two mode operations of a start-up with `WithAltScreen` -/
theorem enter_first (t0 : Term) :
    (applyOps t0 [.decrst 25, .decset 1049]).onAlt = true ∧
    (applyOps t0 [.decrst 25, .decset 1049]).main.cells = t0.main.cells ∧
    (applyOps t0 [.decrst 25, .decset 1049]).main.top = t0.main.top ∧
    (applyOps t0 [.decrst 25, .decset 1049]).main.cr = t0.main.cr ∧
    (applyOps t0 [.decrst 25, .decset 1049]).main.cc = t0.main.cc := by
  cases h : t0.onAlt <;> simp [applyOps, apply, setMode, h]

theorem startup_alt_eq (o : Opts) (ha : o.alt = true) :
    ∃ rest, startupOps o = .hideCursor :: .enterAlt :: rest ∧ ROp.exitAlt ∉ rest := by
  cases o with
  | mk alt cell all noPaste focus =>
    simp only at ha
    subst ha
    cases cell <;> cases all <;> cases noPaste <;> cases focus <;>
      exact ⟨_, rfl, by decide⟩

/-- after a start-up with `WithAltScreen` and any history without `exitAlt`, the main buffer is
the one left by the first two mode operations (hide cursor, `CSI ? 1049 h`) -/
theorem alt_start_main_eq (o : Opts) (ha : o.alt = true) (t0 : Term) (h : List ROp)
    (hne : ROp.exitAlt ∉ h) :
    (applyOps t0 (runOps {} (startupOps o ++ h)).2).onAlt = true ∧
    (applyOps t0 (runOps {} (startupOps o ++ h)).2).main =
      (applyOps t0 [.decrst 25, .decset 1049]).main := by
  obtain ⟨rest, hrest, hn⟩ := startup_alt_eq o ha
  have hne' : ROp.exitAlt ∉ rest ++ h := by
    simp only [List.mem_append, not_or]; exact ⟨hn, hne⟩
  have e1 := (enter_first t0).1
  have key : applyOps t0 (runOps {} (startupOps o ++ h)).2 =
      applyOps (applyOps t0 [.decrst 25, .decset 1049])
      ([.ed2, .home, .decrst 25] ++
        (runOps (step (step {} .hideCursor).1 .enterAlt).1 (rest ++ h)).2) := by
    rw [hrest, ← applyOps_append]
    rfl
  have hall : ([TermOp.ed2, .home, .decrst 25] ++
        (runOps (step (step {} .hideCursor).1 .enterAlt).1 (rest ++ h)).2).all staysAlt = true := by
    simp only [List.all_append, Bool.and_eq_true]
    exact ⟨by decide, runOps_staysAlt _ _ hne'⟩
  rw [key]
  exact applyOps_onAlt _ _ e1 hall

theorem alt_start_keeps_main (o : Opts) (ha : o.alt = true) (t0 : Term) (h : List ROp)
    (hne : ROp.exitAlt ∉ h) :
    let t := applyOps t0 (runOps {} (startupOps o ++ h)).2
    t.onAlt = true ∧ t.main.cells = t0.main.cells ∧ t.main.top = t0.main.top ∧
    t.main.cr = t0.main.cr ∧ t.main.cc = t0.main.cc := by
  intro t
  obtain ⟨k1, k2⟩ := alt_start_main_eq o ha t0 h hne
  obtain ⟨_, e2, e3, e4, e5⟩ := enter_first t0
  show t.onAlt = true ∧ _
  simp only [t, k2]
  exact ⟨k1, e2, e3, e4, e5⟩

/-! ## 8. restore needs only the alt-screen and focus flags -/

theorem restore_weak (r : RState) (t : Term)
    (h1 : t.onAlt = true → r.altActive = true) (h2 : t.m1004 = true → r.focusActive = true) :
    modesOf (applyOps t (runOps r (restoreOps r)).2) = {} := by
  rw [modesOf_applyOps]
  cases hf : r.focusActive <;> cases ha : r.altActive <;>
    simp_all [restoreOps, runOps, step, exitAlt, regOp, setReg, cursorOp, modesOf, RState.repaint]

/-! ## 9. interleaved events -/

/-- what happens between start-up and exit: mode commands, and anything else the renderer is
asked to do (views, ticks, resizes, prints, titles) -/
inductive Ev where
  | cmd (c : ModeCmd)
  | other (op : ROp)
  deriving DecidableEq, Repr

def evOps : Ev → List ROp
  | .cmd c => modeMsgOps c
  | .other op => [op]

def evCmd : Ev → Option ModeCmd
  | .cmd c => some c
  | .other _ => none

/-- every `other` event is mode-neutral (`size`, `write`, `flush`, `repaintMsg`, `clearScreen`,
`printLine`, `stop`, `kill`, `title`) -/
def evNeutral : Ev → Bool
  | .cmd _ => true
  | .other op => op.neutral

theorem evs_spec (m : ModeReg) (evs : List Ev) (hn : evs.all evNeutral = true) :
    (evs.flatMap evOps).foldl regROp m = (evs.filterMap evCmd).foldl specCmd m := by
  induction evs generalizing m with
  | nil => rfl
  | cons e es ih =>
    simp only [List.all_cons, Bool.and_eq_true] at hn
    cases e with
    | cmd c =>
      simp only [List.flatMap_cons, List.foldl_append, evOps, modeMsgOps_spec]
      exact ih _ hn.2
    | other op =>
      have h1 : regROp m op = m := regROp_neutral m op (by simpa [evNeutral] using hn.1)
      simp only [List.flatMap_cons, List.foldl_append, evOps, List.foldl_cons, List.foldl_nil, h1]
      exact ih _ hn.2

/-! ## 10. Exec: ReleaseTerminal / RestoreTerminal -/

theorem releaseTerminal_eq (r : RState) :
    (releaseTerminal r).1 = runOps r (.stop :: restoreOps (step r .stop).1) := rfl

theorem releaseTerminal_saved (r : RState) :
    (releaseTerminal r).2 = { alt := r.altActive, bp := r.bpActive, focus := r.focusActive } := by
  obtain ⟨h1, h2, h3, _⟩ := stop_flags r
  show ({ alt := (stop r).1.altActive, bp := (stop r).1.bpActive,
          focus := (stop r).1.focusActive } : Saved) = _
  rw [h1, h2, h3]

theorem release_sim (r : RState) (m : ModeReg) (hT : TrackedM r m) :
    TrackedM (releaseTerminal r).1.1 {} ∧ (releaseTerminal r).1.2.foldl regOp m = {} := by
  have h0 := (step_sim r m .stop hT).1
  have hs : (ROp.stop :: restoreOps (step r .stop).1).foldl regROp m = {} := by
    simp only [List.foldl_cons]
    exact restore_spec _ _ h0
  have := runOps_sim r m (.stop :: restoreOps (step r .stop).1) hT
  rw [hs] at this
  rw [releaseTerminal_eq]
  exact this

/-- the modes after an Exec, as a function of the modes before -/
def afterExec (m : ModeReg) : ModeReg :=
  { alt := m.alt, paste := m.paste, focus := m.focus, cursorVis := false,
    m1002 := false, m1003 := false, m1006 := false }

theorem afterExec_idem (m : ModeReg) : afterExec (afterExec m) = afterExec m := rfl

theorem restoreTerminal_spec (sv : Saved) :
    (restoreTerminalOps sv).foldl regROp {} =
      { alt := sv.alt, paste := sv.bp, focus := sv.focus, cursorVis := false,
        m1002 := false, m1003 := false, m1006 := false } := by
  cases sv with
  | mk a b f => cases a <;> cases b <;> cases f <;> rfl

theorem restoreTerminal_cache (r : RState) (sv : Saved) (h : r.altActive = false) :
    (runOps r (restoreTerminalOps sv)).1.lastRender = [] ∧
    (runOps r (restoreTerminalOps sv)).1.lastLines = none := by
  cases sv with
  | mk a b f =>
    have e := enterAlt_fields (step r .hideCursor).1 h
    cases a
    · cases b <;> cases f <;> simp [restoreTerminalOps, runOps, step, RState.repaint]
    · cases b <;> cases f <;> exact ⟨e.2.2.1, e.2.2.2.1⟩

/-- one Exec: ReleaseTerminal (the external command then runs on the terminal in that state),
RestoreTerminal -/
def execRound (p : RState × Term) : RState × Term :=
  let rel := releaseTerminal p.1
  let res := runOps rel.1.1 (restoreTerminalOps rel.2)
  (res.1, applyOps (applyOps p.2 rel.1.2) res.2)

/-- the terminal while the external command of an Exec runs -/
def duringExec (p : RState × Term) : Term := applyOps p.2 (releaseTerminal p.1).1.2

/-- what ReleaseTerminal would save in a state whose modes are `m` -/
def savedOf (m : ModeReg) : Saved := { alt := m.alt, bp := m.paste, focus := m.focus }

theorem saved_of_tracked (r : RState) (t : Term) (hT : Tracked r t) :
    (releaseTerminal r).2 = savedOf (modesOf t) := by
  obtain ⟨h1, h2, h3, _⟩ := hT
  rw [releaseTerminal_saved, h1, h2, h3]
  rfl

theorem execRound_sim (p : RState × Term) (hT : Tracked p.1 p.2) :
    modesOf (duringExec p) = {} ∧
    Tracked (execRound p).1 (execRound p).2 ∧
    modesOf (execRound p).2 = afterExec (modesOf p.2) ∧
    (execRound p).1.lastRender = [] ∧ (execRound p).1.lastLines = none := by
  obtain ⟨h1, h2⟩ := release_sim p.1 (modesOf p.2) hT
  have hd : modesOf (duringExec p) = {} := by
    rw [duringExec, modesOf_applyOps, h2]
  have hT1 : Tracked (releaseTerminal p.1).1.1 (duringExec p) := by
    rw [tracked_iff, hd]; exact h1
  obtain ⟨h3, h4⟩ := run_tracked _ _ (restoreTerminalOps (releaseTerminal p.1).2) hT1
  have hc := restoreTerminal_cache (releaseTerminal p.1).1.1 (releaseTerminal p.1).2
    (by have := h1.1; simpa using this)
  refine ⟨hd, h3, ?_, hc⟩
  show modesOf (applyOps (duringExec p) _) = _
  rw [h4, hd, restoreTerminal_spec, saved_of_tracked _ _ hT]
  rfl

/-- `n` consecutive Execs -/
def execRounds : Nat → RState × Term → RState × Term
  | 0, p => p
  | n + 1, p => execRounds n (execRound p)

theorem execRounds_succ' (n : Nat) (p : RState × Term) :
    execRounds (n + 1) p = execRound (execRounds n p) := by
  induction n generalizing p with
  | zero => rfl
  | succ n ih =>
    show execRounds (n + 1) (execRound p) = _
    rw [ih]
    rfl

theorem execRounds_sim (n : Nat) (p : RState × Term) (hT : Tracked p.1 p.2) :
    Tracked (execRounds n p).1 (execRounds n p).2 ∧
    (0 < n → modesOf (execRounds n p).2 = afterExec (modesOf p.2) ∧
      (execRounds n p).1.lastRender = [] ∧ (execRounds n p).1.lastLines = none) := by
  induction n with
  | zero => exact ⟨hT, fun h => absurd h (Nat.lt_irrefl 0)⟩
  | succ n ih =>
    rw [execRounds_succ']
    obtain ⟨_, h2, h3, h4⟩ := execRound_sim (execRounds n p) ih.1
    refine ⟨h2, fun _ => ⟨?_, h4⟩⟩
    rw [h3]
    cases n with
    | zero => rfl
    | succ k => rw [(ih.2 (Nat.succ_pos k)).1, afterExec_idem]

/-! ## 11. odds and ends for the property files -/

/-- mode-neutral renderer operations write no DECSET / DECRST and keep the tracked flags
(no hypothesis on the state) -/
theorem step_neutral (r : RState) (op : ROp) (hn : op.neutral = true) :
    (step r op).2.all nonMode = true ∧
    (step r op).1.altActive = r.altActive ∧ (step r op).1.bpActive = r.bpActive ∧
    (step r op).1.focusActive = r.focusActive ∧ (step r op).1.cursorHidden = r.cursorHidden := by
  cases op with
  | flush => exact ⟨flush_nonMode r, flush_flags r⟩
  | stop => exact ⟨stop_nonMode r, stop_flags r⟩
  | printLine body =>
    simp only [step]
    split <;> simp [RState.repaint]
  | size w h => simp [step, RState.repaint]
  | write s => simp [step, write]
  | repaintMsg => simp [step, RState.repaint]
  | clearScreen => simp [step, clearScreen, RState.repaint, nonMode]
  | kill => simp [step, kill, nonMode, RState.repaint]
  | title s => simp [step, nonMode]
  | _ => simp [ROp.neutral] at hn

theorem paste_stays (cs : List ModeCmd) (m : ModeReg) (hm : m.paste = true)
    (hn : ModeCmd.noPaste ∉ cs) : (cs.foldl specCmd m).paste = true := by
  induction cs generalizing m with
  | nil => exact hm
  | cons c cs ih =>
    simp only [List.mem_cons, not_or] at hn
    refine ih _ ?_ hn.2
    cases c <;> first | exact hm | rfl | exact absurd rfl hn.1

theorem enterAlt_twice (r : RState) :
    step (step r .enterAlt).1 .enterAlt = ((step r .enterAlt).1, []) := by
  simp only [step]
  unfold enterAlt
  cases h : r.altActive <;> simp [h, RState.repaint]

theorem exitAlt_twice (r : RState) :
    step (step r .exitAlt).1 .exitAlt = ((step r .exitAlt).1, []) := by
  simp only [step]
  unfold exitAlt
  cases h : r.altActive <;> simp [h, RState.repaint]

end Tea.Render
