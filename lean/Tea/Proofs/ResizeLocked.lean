import Tea.Proofs.Resize
/-
Helper lemmas about the window-size LTS AFTER the repair (`stepL` of Tea/Runtime/Resize.lean:
size queries are serialised by `resizeMu`) for section 9 of C18: the repaired model is a
restriction of the old one (so every theorem about all runs of `step` is inherited), the
goroutines between query and delivery (`sendingNow`), the invariant `SenderOk`, `Fresh` along
EVERY step, the reports in the order of the queries, and the schedule to quiescence.
-/
namespace Tea.Runtime.Resize

/-! ### the repaired model is a restriction of the model before the repair -/

/-- a step of the repaired model is a step of the old one; and a `query` step found the mutex
free -/
theorem stepL_step {s s' : St} {l : Label} (h : stepL s l = some s') :
    step s l = some s' ∧ (∀ who, l = .query who → mutexHeld s = false) := by
  cases l with
  | query who =>
    simp only [stepL] at h
    split at h
    · rename_i hm; exact ⟨h, fun _ _ => hm⟩
    · cases h
  | resize sz => exact ⟨h, fun _ hh => by cases hh⟩
  | windowSizeCmd => exact ⟨h, fun _ hh => by cases hh⟩
  | cancel => exact ⟨h, fun _ hh => by cases hh⟩
  | take => exact ⟨h, fun _ hh => by cases hh⟩
  | deliver who => exact ⟨h, fun _ hh => by cases hh⟩

theorem stepL_query_of_free {s : St} (who : Option Nat) (hm : mutexHeld s = false) :
    stepL s (.query who) = step s (.query who) := by
  simp only [stepL, hm]

theorem stepL_query_of_held {s : St} (who : Option Nat) (hm : mutexHeld s = true) :
    stepL s (.query who) = none := by
  simp only [stepL, hm]

/-- case analysis of one step of the repaired model: as `step_elim`, the two `query` cases with
the extra guard -/
@[elab_as_elim] theorem stepL_elim {motive : St → Label → St → Prop}
    (resize : ∀ (s : St) sz, motive s (.resize sz) { s with size := sz, pending := true })
    (cmd : ∀ (s : St), s.cancelled = false →
      motive s .windowSizeCmd { s with checkers := s.checkers ++ [.querying] })
    (cancel : ∀ (s : St), motive s .cancel { s with cancelled := true })
    (take : ∀ (s : St), s.cancelled = false → s.listener = .waiting → s.pending = true →
      motive s .take { s with listener := .querying, pending := false })
    (queryL : ∀ (s : St), mutexHeld s = false → s.listener = .querying →
      motive s (.query none) { s with listener := .sending s.size })
    (queryC : ∀ (s : St) i, mutexHeld s = false → s.checkers[i]? = some .querying →
      motive s (.query (some i)) { s with checkers := s.checkers.set i (.sending s.size) })
    (deliverL : ∀ (s : St) sz, s.cancelled = false → s.listener = .sending sz →
      motive s (.deliver none) { s with listener := .waiting, reported := s.reported ++ [sz] })
    (deliverC : ∀ (s : St) i sz, s.cancelled = false → s.checkers[i]? = some (.sending sz) →
      motive s (.deliver (some i))
        { s with checkers := s.checkers.eraseIdx i, reported := s.reported ++ [sz] })
    {s : St} {l : Label} {s' : St} (hs : stepL s l = some s') : motive s l s' := by
  obtain ⟨h1, h2⟩ := stepL_step hs
  revert h2
  refine step_elim
    (motive := fun s l s' => (∀ who, l = .query who → mutexHeld s = false) → motive s l s')
    ?_ ?_ ?_ ?_ ?_ ?_ ?_ ?_ h1
  · intro s sz _; exact resize s sz
  · intro s h _; exact cmd s h
  · intro s _; exact cancel s
  · intro s a b c _; exact take s a b c
  · intro s a hm; exact queryL s (hm none rfl) a
  · intro s i a hm; exact queryC s i (hm (some i) rfl) a
  · intro s sz a b _; exact deliverL s sz a b
  · intro s i sz a b _; exact deliverC s i sz a b

set_option hygiene false in
macro "rstepL_elim" hs:ident : tactic => `(tactic|
  refine stepL_elim ?resize ?cmd ?cancel ?take ?queryL ?queryC ?deliverL ?deliverC $hs:ident)

/-! ### runs -/

theorem runLabelsL_cons {s s' : St} {l : Label} {ls : List Label}
    (h : runLabelsL s (l :: ls) = some s') :
    ∃ s1, stepL s l = some s1 ∧ runLabelsL s1 ls = some s' := by
  simp only [runLabelsL] at h
  split at h
  · rename_i s1 h1; exact ⟨s1, h1, h⟩
  · cases h

theorem runLabelsL_append {s s1 : St} (ls ls' : List Label) (h : runLabelsL s ls = some s1) :
    runLabelsL s (ls ++ ls') = runLabelsL s1 ls' := by
  induction ls generalizing s with
  | nil => simp only [runLabelsL] at h; cases h; rfl
  | cons l ls ih =>
    obtain ⟨s2, h2, h3⟩ := runLabelsL_cons h
    simp only [List.cons_append, runLabelsL, h2]
    exact ih h3

/-- every run of the repaired model is a run of the model before the repair -/
theorem runLabels_of_runLabelsL {s s' : St} {ls : List Label} (h : runLabelsL s ls = some s') :
    runLabels s ls = some s' := by
  induction ls generalizing s with
  | nil => exact h
  | cons l ls ih =>
    obtain ⟨s1, h1, h2⟩ := runLabelsL_cons h
    simp only [runLabels, (stepL_step h1).1]
    exact ih h2

theorem reachable_of_reachableL {z : Size} {s : St} (hr : ReachableL z s) : Reachable z s := by
  induction hr with
  | init => exact Reachable.init
  | step l _ hs ih => exact Reachable.step l ih (stepL_step hs).1

theorem reachableL_runLabelsL {z : Size} {s s' : St} (ls : List Label)
    (hr : ReachableL z s) (h : runLabelsL s ls = some s') : ReachableL z s' := by
  induction ls generalizing s with
  | nil => simp only [runLabelsL] at h; cases h; exact hr
  | cons l ls ih =>
    obtain ⟨s1, h1, h2⟩ := runLabelsL_cons h
    exact ih (ReachableL.step l hr h1) h2

theorem reachableL_of_run {z : Size} {s : St} {ls : List Label}
    (h : runLabelsL (init z) ls = some s) : ReachableL z s :=
  reachableL_runLabelsL ls ReachableL.init h

theorem exists_run_of_reachableL {z : Size} {s : St} (hr : ReachableL z s) :
    ∃ ls, runLabelsL (init z) ls = some s := by
  induction hr with
  | init => exact ⟨[], rfl⟩
  | step l _ hs ih =>
    obtain ⟨ls, h⟩ := ih
    refine ⟨ls ++ [l], ?_⟩
    rw [runLabelsL_append ls [l] h]
    simp only [runLabelsL, hs]

/-- `cancelled` is never reset -/
theorem cancelled_stepL {s s' : St} {l : Label} (hs : stepL s l = some s') :
    s'.cancelled = false → s.cancelled = false := by
  rstepL_elim hs
  case cancel => intro s h; cases h
  all_goals intros; assumption

theorem cancelled_runL {s s' : St} {ls : List Label} (h : runLabelsL s ls = some s') :
    s'.cancelled = false → s.cancelled = false := by
  induction ls generalizing s with
  | nil => simp only [runLabelsL] at h; cases h; exact id
  | cons l ls ih =>
    obtain ⟨s1, h1, h2⟩ := runLabelsL_cons h
    exact fun hn => cancelled_stepL h1 (ih h2 hn)

/-! ### the goroutines between query and delivery -/

theorem mem_cSending {cs : List CPc} {sz : Size} : sz ∈ cSending cs ↔ CPc.sending sz ∈ cs := by
  induction cs with
  | nil => simp [cSending]
  | cons c cs ih =>
    cases c with
    | querying => simp [cSending, ih]
    | sending x => simp [cSending, ih]

theorem cSending_append_querying (cs : List CPc) : cSending (cs ++ [.querying]) = cSending cs := by
  induction cs with
  | nil => rfl
  | cons c cs ih => cases c <;> simp [cSending, ih]

/-- a checker that queries while no checker is sending is the only one sending afterwards -/
theorem cSending_set {cs : List CPc} {i : Nat} (x : Size) (hi : cs[i]? = some .querying)
    (h0 : cSending cs = []) : cSending (cs.set i (.sending x)) = [x] := by
  induction cs generalizing i with
  | nil => cases hi
  | cons c cs ih =>
    cases c with
    | sending y => simp [cSending] at h0
    | querying =>
      simp only [cSending] at h0
      cases i with
      | zero => simp [cSending, h0]
      | succ i =>
        simp only [List.getElem?_cons_succ] at hi
        simp only [List.set_cons_succ, cSending]
        exact ih hi h0

/-- the checker that delivers leaves the list of the sending ones, the others stay in order -/
theorem cSending_eraseIdx {cs : List CPc} {i : Nat} {x : Size} (hi : cs[i]? = some (.sending x)) :
    ∃ a b, cSending cs = a ++ x :: b ∧ cSending (cs.eraseIdx i) = a ++ b := by
  induction cs generalizing i with
  | nil => cases hi
  | cons c cs ih =>
    cases i with
    | zero =>
      simp only [List.getElem?_cons_zero, Option.some.injEq] at hi
      subst hi
      exact ⟨[], cSending cs, rfl, rfl⟩
    | succ i =>
      simp only [List.getElem?_cons_succ] at hi
      obtain ⟨a, b, e1, e2⟩ := ih hi
      cases c with
      | querying => exact ⟨a, b, by simp [cSending, e1], by simp [cSending, e2]⟩
      | sending y => exact ⟨y :: a, b, by simp [cSending, e1], by simp [cSending, e2]⟩

theorem exists_sending_of_cSending_ne_nil {cs : List CPc} (h : cSending cs ≠ []) :
    ∃ (i : Nat) (x : Size), cs[i]? = some (CPc.sending x) := by
  induction cs with
  | nil => exact absurd rfl h
  | cons c cs ih =>
    cases c with
    | sending y => exact ⟨0, y, rfl⟩
    | querying =>
      obtain ⟨i, x, hi⟩ := ih (by simpa [cSending] using h)
      exact ⟨i + 1, x, by simpa using hi⟩

/-- the mutex is free in a state that is not cancelled: nobody is sending -/
theorem sendingNow_of_free {s : St} (hm : mutexHeld s = false) (hn : s.cancelled = false) :
    sendingNow s = [] := by
  simp only [mutexHeld, hn, Bool.not_false, Bool.true_and, Bool.not_eq_false',
    List.isEmpty_iff] at hm
  exact hm

theorem free_of_sendingNow {s : St} (h : sendingNow s = []) : mutexHeld s = false := by
  simp [mutexHeld, h]

theorem sendingNow_nil_parts {s : St} (h : sendingNow s = []) :
    (∀ sz, s.listener ≠ .sending sz) ∧ cSending s.checkers = [] := by
  simp only [sendingNow, List.append_eq_nil_iff] at h
  refine ⟨?_, h.2⟩
  intro sz hl
  rw [hl] at h
  simp [lSending] at h

theorem sendingNow_of_listener_not_sending {s : St} (h : ∀ sz, s.listener ≠ .sending sz) :
    sendingNow s = cSending s.checkers := by
  simp only [sendingNow]
  cases hl : s.listener with
  | sending x => exact absurd hl (h x)
  | waiting => rfl
  | querying => rfl

/-! ### `SenderOk` -/

theorem senderOk_init (z : Size) : SenderOk (init z) := by
  intro _ sz hm
  simp [sendingNow, init, cSending, lSending] at hm

theorem senderOk_stepL {s s' : St} {l : Label} (hs : stepL s l = some s') :
    SenderOk s → SenderOk s' := by
  rstepL_elim hs
  case resize => intro s sz _ _ x _ _; exact Or.inl rfl
  case cmd =>
    intro s _ h hn x hm hne
    have hm' : x ∈ sendingNow s := by
      simpa only [sendingNow, cSending_append_querying] using hm
    exact h hn x hm' hne
  case cancel => intro s _ hn; cases hn
  case take => intro s _ _ _ _ _ x _ _; exact Or.inr rfl
  case queryL =>
    intro s hfree hl _ hn x hm hne
    have h0 := (sendingNow_nil_parts (sendingNow_of_free hfree hn)).2
    simp only [sendingNow, lSending, h0, List.append_nil, List.mem_singleton] at hm
    exact absurd hm hne
  case queryC =>
    intro s i hfree hi _ hn x hm hne
    obtain ⟨h1, h0⟩ := sendingNow_nil_parts (sendingNow_of_free hfree hn)
    have e : sendingNow { s with checkers := s.checkers.set i (.sending s.size) } = [s.size] := by
      exact (sendingNow_of_listener_not_sending
        (s := { s with checkers := s.checkers.set i (.sending s.size) }) h1).trans
        (cSending_set s.size hi h0)
    rw [e, List.mem_singleton] at hm
    exact absurd hm hne
  case deliverL =>
    intro s sz _ hl h hn x hm hne
    have hm' : x ∈ sendingNow s := by
      simp only [sendingNow, lSending, List.nil_append] at hm
      simp only [sendingNow, hl]
      exact List.mem_append_right _ hm
    rcases h hn x hm' hne with hp | hq
    · exact Or.inl hp
    · rw [hl] at hq; cases hq
  case deliverC =>
    intro s i sz _ hi h hn x hm hne
    have hm' : x ∈ sendingNow s := by
      simp only [sendingNow, List.mem_append] at hm ⊢
      rcases hm with hm | hm
      · exact Or.inl hm
      · exact Or.inr (mem_cSending.2 (List.mem_of_mem_eraseIdx (mem_cSending.1 hm)))
    exact h hn x hm' hne

theorem senderOk_runL {s s' : St} {ls : List Label} (h : runLabelsL s ls = some s')
    (hok : SenderOk s) : SenderOk s' := by
  induction ls generalizing s with
  | nil => simp only [runLabelsL] at h; cases h; exact hok
  | cons l ls ih =>
    obtain ⟨s1, h1, h2⟩ := runLabelsL_cons h
    exact ih h2 (senderOk_stepL h1 hok)

theorem senderOk_reachableL {z : Size} {s : St} (hr : ReachableL z s) : SenderOk s := by
  induction hr with
  | init => exact senderOk_init z
  | step l _ hs ih => exact senderOk_stepL hs ih

/-! ### `Fresh`, along every step -/

/-- EVERY step of the repaired model except `cancel` (which changes nothing) ESTABLISHES
`Fresh` - the late delivery by a checker included: the size it hands over is the current one,
or the listener's next round is on its way -/
theorem freshL_established {s s' : St} {l : Label} (hs : stepL s l = some s') :
    SenderOk s → l ≠ .cancel → Fresh s' := by
  rstepL_elim hs
  case resize => intro s sz _ _; exact Or.inl rfl
  case cmd =>
    intro s _ _ _
    exact Or.inr (Or.inr (Or.inr (Or.inl ⟨.querying, by simp, Or.inl rfl⟩)))
  case cancel => intro s _ h; exact absurd rfl h
  case take => intro s _ _ _ _ _; exact Or.inr (Or.inl rfl)
  case queryL => intro s _ _ _ _; exact Or.inr (Or.inr (Or.inl rfl))
  case queryC =>
    intro s i _ hi _ _
    exact Or.inr (Or.inr (Or.inr (Or.inl ⟨.sending s.size, mem_set_self hi, Or.inr rfl⟩)))
  case deliverL =>
    intro s sz hn hl hok _
    cases hd : decide (sz = s.size) with
    | true =>
      have : sz = s.size := of_decide_eq_true hd
      refine Or.inr (Or.inr (Or.inr (Or.inr ?_)))
      simp [lastReported, this]
    | false =>
      have hm : sz ∈ sendingNow s := by simp [sendingNow, lSending, hl]
      rcases hok hn sz hm (of_decide_eq_false hd) with hp | hq
      · exact Or.inl hp
      · rw [hl] at hq; cases hq
  case deliverC =>
    intro s i sz hn hi hok _
    cases hd : decide (sz = s.size) with
    | true =>
      have : sz = s.size := of_decide_eq_true hd
      refine Or.inr (Or.inr (Or.inr (Or.inr ?_)))
      simp [lastReported, this]
    | false =>
      have hm : sz ∈ sendingNow s := by
        simp only [sendingNow, List.mem_append]
        exact Or.inr (mem_cSending.2 (mem_of_getElem? hi))
      rcases hok hn sz hm (of_decide_eq_false hd) with hp | hq
      · exact Or.inl hp
      · exact Or.inr (Or.inl hq)

/-- `Fresh` is inductive along EVERY step of the repaired model -/
theorem freshL_step {s s' : St} {l : Label} (hs : stepL s l = some s') (hok : SenderOk s)
    (hf : Fresh s) : Fresh s' := by
  cases hc : decide (l = .cancel) with
  | false => exact freshL_established hs hok (of_decide_eq_false hc)
  | true =>
    have hl : l = .cancel := of_decide_eq_true hc
    subst hl
    have hs' := (stepL_step hs).1
    simp only [step, Option.some.injEq] at hs'
    subst hs'
    exact hf

theorem freshL_run {s s' : St} {ls : List Label} (h : runLabelsL s ls = some s')
    (hok : SenderOk s) (hf : Fresh s) : Fresh s' := by
  induction ls generalizing s with
  | nil => simp only [runLabelsL] at h; cases h; exact hf
  | cons l ls ih =>
    obtain ⟨s1, h1, h2⟩ := runLabelsL_cons h
    exact ih h2 (senderOk_stepL h1 hok) (freshL_step h1 hok hf)

theorem fresh_reachableL {z : Size} {s : St} (hr : ReachableL z s) : Fresh s := by
  induction hr with
  | init => exact fresh_init z
  | step l hr hs ih => exact freshL_step hs (senderOk_reachableL hr) ih

/-! ### mutual exclusion, and the reports in the order of the queries -/

theorem eq_nil_of_length_le_one_of_cons {α} {x : α} {a b : List α}
    (h : (a ++ x :: b).length ≤ 1) : a = [] ∧ b = [] := by
  simp only [List.length_append, List.length_cons] at h
  exact ⟨List.eq_nil_of_length_eq_zero (by omega), List.eq_nil_of_length_eq_zero (by omega)⟩

/-- one step of a run that is not cancelled: at most one goroutine stays between query and
delivery, and "the reports delivered, then the size of the one that is sending" grows by the
size read exactly at the `query` steps -/
theorem order_step {s s' : St} {l : Label} (hs : stepL s l = some s') :
    s'.cancelled = false → (sendingNow s).length ≤ 1 →
      (sendingNow s').length ≤ 1 ∧
      s'.reported ++ sendingNow s' =
        s.reported ++ sendingNow s ++ readBy s l := by
  rstepL_elim hs
  case resize => intro s sz _ h1; exact ⟨h1, by simp [sendingNow, readBy]⟩
  case cmd =>
    intro s _ _ h1
    have e : sendingNow { s with checkers := s.checkers ++ [.querying] } = sendingNow s := by
      simp only [sendingNow, cSending_append_querying]
    rw [e]; exact ⟨h1, by simp [readBy]⟩
  case cancel => intro s hn; cases hn
  case take =>
    intro s _ hl _ _ h1
    have e : sendingNow { s with listener := .querying, pending := false } = sendingNow s := by
      simp only [sendingNow, hl, lSending]
    rw [e]; exact ⟨h1, by simp [readBy]⟩
  case queryL =>
    intro s hfree hl hn _
    have hs0 := sendingNow_of_free hfree hn
    have h0 := (sendingNow_nil_parts hs0).2
    have e : sendingNow { s with listener := .sending s.size } = [s.size] := by
      simp [sendingNow, lSending, h0]
    rw [e, hs0]; exact ⟨by simp, by simp [readBy]⟩
  case queryC =>
    intro s i hfree hi hn _
    have hs0 := sendingNow_of_free hfree hn
    obtain ⟨h1, h0⟩ := sendingNow_nil_parts hs0
    have e : sendingNow { s with checkers := s.checkers.set i (.sending s.size) } = [s.size] := by
      exact (sendingNow_of_listener_not_sending
        (s := { s with checkers := s.checkers.set i (.sending s.size) }) h1).trans
        (cSending_set s.size hi h0)
    rw [e, hs0]; exact ⟨by simp, by simp [readBy]⟩
  case deliverL =>
    intro s sz _ hl _ h1
    have e1 : sendingNow s = sz :: cSending s.checkers := by simp [sendingNow, lSending, hl]
    have h0 : cSending s.checkers = [] := by
      rw [e1] at h1
      exact (eq_nil_of_length_le_one_of_cons (a := []) h1).2
    have e2 : sendingNow { s with listener := .waiting, reported := s.reported ++ [sz] } = [] := by
      simp [sendingNow, lSending, h0]
    rw [e2, e1, h0]; exact ⟨by simp, by simp [readBy]⟩
  case deliverC =>
    intro s i sz _ hi _ h1
    obtain ⟨a, b, ea, eb⟩ := cSending_eraseIdx hi
    have hs : sendingNow s = (lSending s.listener ++ a) ++ sz :: b := by
      simp only [sendingNow, ea, List.append_assoc]
    rw [hs] at h1
    obtain ⟨hla, hb⟩ := eq_nil_of_length_le_one_of_cons h1
    obtain ⟨hlst, ha⟩ := List.append_eq_nil_iff.1 hla
    have e1 : sendingNow s = [sz] := by rw [hs, hlst, ha, hb]; rfl
    have e2 : sendingNow { s with checkers := s.checkers.eraseIdx i, reported := s.reported ++ [sz] } = [] := by
      simp [sendingNow, eb, hlst, ha, hb]
    rw [e2, e1]; exact ⟨by simp, by simp [readBy]⟩

theorem order_run {s s' : St} {ls : List Label} (h : runLabelsL s ls = some s')
    (hn : s'.cancelled = false) (h1 : (sendingNow s).length ≤ 1) :
    (sendingNow s').length ≤ 1 ∧
    s'.reported ++ sendingNow s' = s.reported ++ sendingNow s ++ queriedL s ls := by
  induction ls generalizing s with
  | nil => simp only [runLabelsL] at h; cases h; exact ⟨h1, by simp [queriedL]⟩
  | cons l ls ih =>
    obtain ⟨s1, hs1, h2⟩ := runLabelsL_cons h
    obtain ⟨a1, a2⟩ := order_step hs1 (cancelled_runL h2 hn) h1
    obtain ⟨b1, b2⟩ := ih h2 a1
    refine ⟨b1, ?_⟩
    rw [b2, a2]
    simp only [queriedL, hs1, List.append_assoc]

/-! ### the schedule to quiescence -/

theorem checkerCost_eraseIdx {cs : List CPc} {i : Nat} {x : Size}
    (hi : cs[i]? = some (.sending x)) : checkerCost (cs.eraseIdx i) + 1 = checkerCost cs := by
  induction cs generalizing i with
  | nil => cases hi
  | cons c cs ih =>
    cases i with
    | zero =>
      simp only [List.getElem?_cons_zero, Option.some.injEq] at hi
      subst hi
      simp only [List.eraseIdx_cons_zero, checkerCost]; omega
    | succ i =>
      simp only [List.getElem?_cons_succ] at hi
      have := ih hi
      cases c <;> simp only [List.eraseIdx_cons_succ, checkerCost] <;> omega

theorem rank_quiescent {s : St} (hq : Quiescent s) : rank s = 0 := by
  obtain ⟨h1, h2, h3, _⟩ := hq
  simp [rank, listenerCost, checkerCost, h1, h2, h3]

/-- PROGRESS.  A state that is not cancelled is quiescent, or some internal step of the
repaired model is enabled that brings it one step closer (`rank`): the goroutine that holds the
mutex delivers; if nobody holds it the first checker, else the listener, queries; else the
listener takes the pending signal. -/
theorem progressL (s : St) (hn : s.cancelled = false) :
    Quiescent s ∨ ∃ l s', l.isInternal = true ∧ stepL s l = some s' ∧ rank s' + 1 = rank s ∧
      s'.size = s.size ∧ s'.cancelled = false := by
  obtain ⟨size, pending, listener, checkers, reported, cancelled⟩ := s
  simp only at hn
  subst hn
  cases listener with
  | sending x =>
    refine Or.inr ⟨.deliver none, _, rfl, rfl, ?_, rfl, rfl⟩
    simp only [rank, listenerCost]; omega
  | waiting =>
    by_cases hcs : cSending checkers = []
    · have hfree : mutexHeld ⟨size, pending, .waiting, checkers, reported, false⟩ = false :=
        free_of_sendingNow (by simp [sendingNow, lSending, hcs])
      cases checkers with
      | cons c cs =>
        cases c with
        | sending y => simp [cSending] at hcs
        | querying =>
          refine Or.inr ⟨.query (some 0), _, rfl,
            (stepL_query_of_free (some 0) hfree).trans rfl, ?_, rfl, rfl⟩
          simp only [rank, listenerCost, checkerCost, List.set_cons_zero]; omega
      | nil =>
        cases pending with
        | false => exact Or.inl ⟨rfl, rfl, rfl, rfl⟩
        | true =>
          refine Or.inr ⟨.take, _, rfl, rfl, ?_, rfl, rfl⟩
          simp [rank, listenerCost, checkerCost]
    · obtain ⟨i, x, hi⟩ := exists_sending_of_cSending_ne_nil hcs
      refine Or.inr ⟨.deliver (some i),
        ⟨size, pending, .waiting, checkers.eraseIdx i, reported ++ [x], false⟩, rfl, ?_, ?_,
        rfl, rfl⟩
      · simp only [stepL, step, hi]
      · have := checkerCost_eraseIdx hi
        simp only [rank, listenerCost]; omega
  | querying =>
    by_cases hcs : cSending checkers = []
    · have hfree : mutexHeld ⟨size, pending, .querying, checkers, reported, false⟩ = false :=
        free_of_sendingNow (by simp [sendingNow, lSending, hcs])
      cases checkers with
      | cons c cs =>
        cases c with
        | sending y => simp [cSending] at hcs
        | querying =>
          refine Or.inr ⟨.query (some 0), _, rfl,
            (stepL_query_of_free (some 0) hfree).trans rfl, ?_, rfl, rfl⟩
          simp only [rank, listenerCost, checkerCost, List.set_cons_zero]; omega
      | nil =>
        refine Or.inr ⟨.query none, _, rfl, (stepL_query_of_free none hfree).trans rfl, ?_,
          rfl, rfl⟩
        simp only [rank, listenerCost, checkerCost]; omega
    · obtain ⟨i, x, hi⟩ := exists_sending_of_cSending_ne_nil hcs
      refine Or.inr ⟨.deliver (some i),
        ⟨size, pending, .querying, checkers.eraseIdx i, reported ++ [x], false⟩, rfl, ?_, ?_,
        rfl, rfl⟩
      · simp only [stepL, step, hi]
      · have := checkerCost_eraseIdx hi
        simp only [rank, listenerCost]; omega

/-- from ANY state that is not cancelled, exactly `rank s` internal steps of the repaired model
reach a quiescent state without the size changing -/
theorem quiesceL : ∀ (n : Nat) (s : St), rank s = n → s.cancelled = false →
    ∃ ps s', (∀ l ∈ ps, l.isInternal = true) ∧ ps.length = n ∧
      runLabelsL s ps = some s' ∧ Quiescent s' ∧ s'.size = s.size := by
  intro n
  induction n with
  | zero =>
    intro s hr hn
    rcases progressL s hn with hq | ⟨l, s1, _, _, h3, _, _⟩
    · exact ⟨[], s, by simp, rfl, rfl, hq, rfl⟩
    · omega
  | succ n ih =>
    intro s hr hn
    rcases progressL s hn with hq | ⟨l, s1, h1, h2, h3, h4, h5⟩
    · have := rank_quiescent hq; omega
    · obtain ⟨ps, s', p1, p2, p3, p4, p5⟩ := ih s1 (by omega) h5
      refine ⟨l :: ps, s', ?_, by simp [p2], ?_, p4, by rw [p5, h4]⟩
      · intro l' hl'
        rcases List.mem_cons.1 hl' with h | h
        · rw [h]; exact h1
        · exact p1 l' h
      · simp only [runLabelsL, h2]; exact p3

end Tea.Runtime.Resize
