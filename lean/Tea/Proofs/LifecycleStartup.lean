import Tea.Proofs.LifecycleRank
/-
Helper lemmas for the start-up theorems of C04: a strike (Kill(), cancellation of the supplied
context) at any point of Run's start-up, the start-up failures, the error when the context was
cancelled before the loop began, the terminal modes when Run returns, and the renderer's halt
before its listen goroutine exists.
-/
namespace Tea.Runtime.Life

/-! ### prefixes of a schedule -/

/-- every prefix of a schedule that can be run can be run, and the rest of the schedule leads from
there to the same end -/
theorem runLabels_take {s s' : St} (ls : List Label) (h : runLabels s ls = some s') (k : Nat) :
    ∃ sk, runLabels s (ls.take k) = some sk ∧ runLabels sk (ls.drop k) = some s' := by
  induction ls generalizing s k with
  | nil => exact ⟨s, by rw [List.take_nil]; rfl, by rw [List.drop_nil]; exact h⟩
  | cons l ls ih =>
    cases k with
    | zero => exact ⟨s, rfl, h⟩
    | succ k =>
      simp only [runLabels] at h
      split at h
      · rename_i s1 h1
        obtain ⟨sk, a, b⟩ := ih h k
        exact ⟨sk, by simp only [List.take_succ_cons, runLabels, h1]; exact a, by simpa using b⟩
      · cases h

/-- the state of the start-up after the first `k` steps of the fault-free schedule -/
theorem startup_prefix (c : Config) (k : Nat) :
    ∃ s, runLabels (init0 c) (startupSchedule.take k) = some s ∧ Reachable c s := by
  obtain ⟨sk, a, _⟩ := runLabels_take startupSchedule (startup_reaches_loop c) k
  exact ⟨sk, a, reachable_runLabels _ Reachable.init0 a⟩

/-! ### a strike during the start-up: the error is ErrProgramKilled -/

/-- the loop, if it has ended, has ended by the cancelled context, and Run's error, if computed, is
ErrProgramKilled -/
def CtxOnly (s : St) : Prop :=
  (∀ cz, s.el = .exited cz → cz = .ctx) ∧
  (s.runPc = .tail ∨ s.runPc = .returned → s.runErr = .killed)

theorem ctxOnly_init0 (c : Config) : CtxOnly (init0 c) := by
  simp [CtxOnly, init0]

/-- a strike: Kill() (or a panic handler on a command goroutine), or cancellation of the supplied
context -/
def strikeLabel : Label → Bool
  | .killCall | .parentCancel => true
  | _ => false

/-- progress steps, returns of user code and strikes keep `CtxOnly`: none of them hands a message to
the loop, none is a failure or a panic -/
theorem ctxOnly_step {s s' : St} {l : Label} (hl : scheduleLabel l = true ∨ strikeLabel l = true)
    (hs : step s l = some s') (h : CtxOnly s) : CtxOnly s' := by
  obtain ⟨h2, h3⟩ := h
  unfold CtxOnly
  step_cases hs l
  all_goals first
    | (simp [scheduleLabel, progressLabel, userReturn, strikeLabel] at hl; done)
    | exact ⟨h2, h3⟩
    | (simp_all; done)
    | (simp_all [errOf]; done)

/-- ... and so does the loop's receiving an Exec message -/
theorem ctxOnly_recv_exec {s s' : St} {i : Nat} {cl : Caller} (hi : s.senders[i]? = some cl)
    (hk : cl.kind = .exec) (hs : step s (.elRecvSender i) = some s') (h : CtxOnly s) : CtxOnly s' := by
  obtain ⟨h2, h3⟩ := h
  simp only [step, hi] at hs
  split at hs
  · cases hs
    refine ⟨?_, h3⟩
    intro cz hcz
    simp only [hk] at hcz
    cases hcz
  · cases hs

theorem ctxOnly_runLabels : ∀ (ls : List Label) {s s' : St},
    (∀ l ∈ ls, scheduleLabel l = true ∨ strikeLabel l = true) → runLabels s ls = some s' →
    CtxOnly s → CtxOnly s' := by
  intro ls
  induction ls with
  | nil => intro s s' _ h hc; simp only [runLabels] at h; cases h; exact hc
  | cons l ls ih =>
    intro s s' hall h hc
    simp only [runLabels] at h
    split at h
    · rename_i s1 h1
      exact ih (fun l' hl' => hall l' (List.mem_cons_of_mem _ hl')) h
        (ctxOnly_step (hall l List.mem_cons_self) h1 hc)
    · cases h

theorem startupSchedule_startupScheduleLabel : ∀ l ∈ startupSchedule, startupScheduleLabel l = true := by
  decide

/-- from a reachable state in which termination has begun and `CtxOnly` holds, at most
`rank s + pendW s` steps - progress steps and returns of user code - bring Run to its return, and the
error there is ErrProgramKilled -/
theorem run_returns_killed {c : Config} {s : St} (hr : Reachable c s) (ht : Terminating s)
    (hc : CtxOnly s) :
    ∃ ls s', (∀ l ∈ ls, scheduleLabel l = true) ∧ ls.length ≤ rank s + pendW s ∧
      runLabels s ls = some s' ∧ s'.runPc = .returned ∧ s'.runErr = .killed := by
  obtain ⟨ls, s', h1, h2, h3, h4, h5⟩ :=
    schedule_exists scheduleLabel (fun s => Reachable c s ∧ Terminating s ∧ CtxOnly s) sched
      (fun _ _ _ hp hs => sched_decreases hp hs)
      (fun _ _ l hi hp hs =>
        ⟨Reachable.step l hi.1 hs, terminating_stable hs hi.2.1, ctxOnly_step (Or.inl hp) hs hi.2.2⟩)
      (fun _ hi hn => no_deadlock_schedule hi.1 hi.2.1 hn)
      (sched s) (Nat.le_refl _) ⟨hr, ht, hc⟩
  exact ⟨ls, s', h1, h2, h3, h5, h4.2.2.2 (Or.inr h5)⟩

/-- the same outside an Exec with no user code in progress on the loop or the listen goroutine: at most
`rank s` steps - progress steps and the returns of the start-up's user code -/
theorem run_returns_killed_quiet {c : Config} {s : St} (hr : Reachable c s) (ht : Terminating s)
    (hc : CtxOnly s) (hq : LoopQuiet s) (hex : s.el.inExec = false) :
    ∃ ls s', (∀ l ∈ ls, startupScheduleLabel l = true) ∧ ls.length ≤ rank s ∧
      runLabels s ls = some s' ∧ s'.runPc = .returned ∧ s'.runErr = .killed := by
  obtain ⟨ls, s', h1, h2, h3, h4, h5⟩ :=
    schedule_exists startupScheduleLabel
      (fun s => Reachable c s ∧ Terminating s ∧ CtxOnly s ∧ LoopQuiet s ∧ s.el.inExec = false) rank
      (fun _ _ _ hp hs => rank_decreases_startup hp hs)
      (fun _ _ l hi hp hs =>
        ⟨Reachable.step l hi.1 hs, terminating_stable hs hi.2.1,
          ctxOnly_step (Or.inl (startupScheduleLabel_schedule l hp)) hs hi.2.2.1,
          quiet_startupSchedule hp hs hi.2.2.2.1 hi.2.2.2.2⟩)
      (fun _ hi hn => no_deadlock_startup hi.1 hi.2.1 hn hi.2.2.2.1 hi.2.2.2.2)
      (rank s) (Nat.le_refl _) ⟨hr, ht, hc, hq, hex⟩
  exact ⟨ls, s', h1, h2, h3, h5, h4.2.2.1.2 (Or.inr h5)⟩

theorem quiet_runLabels : ∀ (ls : List Label) {s s' : St},
    (∀ l ∈ ls, startupScheduleLabel l = true) → runLabels s ls = some s' →
    LoopQuiet s → s.el.inExec = false → LoopQuiet s' ∧ s'.el.inExec = false := by
  intro ls
  induction ls with
  | nil => intro s s' _ h hq hx; simp only [runLabels] at h; cases h; exact ⟨hq, hx⟩
  | cons l ls ih =>
    intro s s' hall h hq hx
    simp only [runLabels] at h
    split at h
    · rename_i s1 h1
      obtain ⟨a, b⟩ := quiet_startupSchedule (hall l List.mem_cons_self) h1 hq hx
      exact ih (fun l' hl' => hall l' (List.mem_cons_of_mem _ hl')) h a b
    · cases h

/-- A STRIKE AT ANY POINT OF THE START-UP.  After any prefix of the fault-free start-up schedule
a Kill() / a cancellation of the supplied context is enabled, and after it at most `rank` steps -
progress steps and the returns of the start-up's user code, each enabled in turn - bring Run to its
return with ErrProgramKilled -/
theorem strike_during_startup (c : Config) (k : Nat) (strike : Label) (hst : strikeLabel strike = true) :
    ∃ s, runLabels (init0 c) (startupSchedule.take k) = some s ∧
      ∃ s1, step s strike = some s1 ∧
        ∃ ls s', (∀ l ∈ ls, startupScheduleLabel l = true) ∧ ls.length ≤ rank s1 ∧
          runLabels s1 ls = some s' ∧ s'.runPc = .returned ∧ s'.runErr = .killed := by
  obtain ⟨s, hrun, hr⟩ := startup_prefix c k
  have hin : ∀ l ∈ startupSchedule.take k, startupScheduleLabel l = true :=
    fun l hl => startupSchedule_startupScheduleLabel l (List.mem_of_mem_take hl)
  have hc : CtxOnly s := ctxOnly_runLabels _
    (fun l hl => Or.inl (startupScheduleLabel_schedule l (hin l hl))) hrun (ctxOnly_init0 c)
  obtain ⟨hq, hx⟩ := quiet_runLabels _ hin hrun (by simp [LoopQuiet, init0]) (by simp [init0, ElPc.inExec])
  refine ⟨s, hrun, ?_⟩
  cases strike <;> simp [strikeLabel] at hst
  · -- killCall
    have hs1 : step s .killCall = some { s with killers := s.killers ++ [.cancel] } := rfl
    refine ⟨_, hs1, ?_⟩
    exact run_returns_killed_quiet (Reachable.step _ hr hs1) (Or.inr (Or.inr (Or.inl (by simp))))
      (ctxOnly_step (Or.inr rfl) hs1 hc) hq hx
  · -- parentCancel
    have hs1 : step s .parentCancel = some { s with ctxDone := true } := rfl
    refine ⟨_, hs1, ?_⟩
    exact run_returns_killed_quiet (Reachable.step _ hr hs1) (Or.inl rfl)
      (ctxOnly_step (Or.inr rfl) hs1 hc) hq hx

/-! ### Run's error is fixed once Run is past its loop / its start-up -/

theorem err_fixed {s s' : St} {l : Label} (hs : step s l = some s')
    (h : s.runPc = .tail ∨ s.runPc = .returned) : s'.runErr = s.runErr := by
  rcases h with h | h <;> (step_cases hs l <;> simp_all)

theorem err_fixed_runLabels : ∀ (ls : List Label) {s s' : St}, runLabels s ls = some s' →
    (s.runPc = .tail ∨ s.runPc = .returned) → s'.runErr = s.runErr := by
  intro ls
  induction ls with
  | nil => intro s s' h _; simp only [runLabels] at h; cases h; rfl
  | cons l ls ih =>
    intro s s' h hp
    simp only [runLabels] at h
    split at h
    · rename_i s1 h1
      rw [ih h (pastLoop_stable h1 hp), err_fixed h1 hp]
    · cases h

theorem pastLoop_runLabels : ∀ (ls : List Label) {s s' : St}, runLabels s ls = some s' →
    (s.runPc = .tail ∨ s.runPc = .returned) → (s'.runPc = .tail ∨ s'.runPc = .returned) := by
  intro ls
  induction ls with
  | nil => intro s s' h hp; simp only [runLabels] at h; cases h; exact hp
  | cons l ls ih =>
    intro s s' h hp
    simp only [runLabels] at h
    split at h
    · rename_i s1 h1
      exact ih h (pastLoop_stable h1 hp)
    · cases h

/-- the loop never leaves `exited`, along any schedule -/
theorem el_exited_runLabels {c : Cause} : ∀ (ls : List Label) {s s' : St},
    runLabels s ls = some s' → s.el = .exited c → s'.el = .exited c := by
  intro ls
  induction ls with
  | nil => intro s s' h he; simp only [runLabels] at h; cases h; exact he
  | cons l ls ih =>
    intro s s' h he
    simp only [runLabels] at h
    split at h
    · rename_i s1 h1; exact ih h (el_exited_stable h1 he)
    · cases h

/-- Run never un-returns, along any schedule -/
theorem returned_runLabels : ∀ (ls : List Label) {s s' : St}, runLabels s ls = some s' →
    s.runPc = .returned → s'.runPc = .returned := by
  intro ls
  induction ls with
  | nil => intro s s' h hp; simp only [runLabels] at h; cases h; exact hp
  | cons l ls ih =>
    intro s s' h hp
    simp only [runLabels] at h
    split at h
    · rename_i s1 h1
      exact ih h (returned_stable h1 hp)
    · cases h

/-! ### the loop's cause and Run's error -/

/-- a loop that has ended had begun: Run is not starting up any more -/
theorem not_starting_of_exited {c : Config} {s : St} (hr : Reachable c s) {cz : Cause}
    (hel : s.el = .exited cz) : ∀ p, s.runPc ≠ .starting p := by
  intro p hp
  have := ((inv_start hr).starting p hp).1
  rw [hel] at this
  cases this

/-- once Run is past the loop that ended with cause `cz`, its error is the one computed from `cz` -/
theorem err_of_exited {c : Config} {s : St} (hr : Reachable c s) (h : s.runPc ≠ .loop) {cz : Cause}
    (hel : s.el = .exited cz) : ∃ b, s.runErr = errOf cz b ∧ s.runKill = (b || cz != .quit) := by
  have hp : s.runPc = .tail ∨ s.runPc = .returned := by
    cases hpc : s.runPc with
    | starting p => exact absurd hpc (not_starting_of_exited hr hel p)
    | loop => exact absurd hpc h
    | tail => exact Or.inl rfl
    | returned => exact Or.inr rfl
  rcases inv_err hr hp with ⟨c1, b, h1, h2, h3⟩ | ⟨h1, _⟩
  · rw [hel] at h1; cases h1; exact ⟨b, h2, h3⟩
  · rw [hel] at h1; cases h1

/-! ### the failures of the start-up -/

/-- the four failures of the start-up and the error class of each -/
def failureClass : Label → Option ErrClass
  | .startTermFails | .startReaderFails => some .startup
  | .initPanics | .firstViewPanics => some .killed
  | _ => none

/-- after a failure of the start-up Run has returned (`initTerminal` failed: no shutdown) or is in
its tail, about to shut down; the error has its class; termination has begun -/
theorem failure_step {s s' : St} {l : Label} {e : ErrClass} (hl : failureClass l = some e)
    (hs : step s l = some s') :
    (s'.runPc = .tail ∨ s'.runPc = .returned) ∧ s'.runErr = e ∧ Terminating s' ∧
    (l = .startTermFails → s'.runPc = .returned ∧ s'.ctxDone = true ∧ s'.finishedClosed = true) := by
  cases l <;> simp [failureClass] at hl <;> subst hl <;> simp only [step] at hs <;> split at hs <;>
    cases hs <;> simp [Terminating]

/-- ... and from every later state without a callback in progress, at most `rank` progress steps
bring Run to its return, with the error of that class -/
theorem failure_returns {c : Config} {s s' : St} {l : Label} {e : ErrClass} (hr : Reachable c s)
    (hl : failureClass l = some e) (hs : step s l = some s') (ls : List Label) (s'' : St)
    (hrun : runLabels s' ls = some s'') (hc : NoCallback s'') :
    ∃ ps s3, (∀ l ∈ ps, progressLabel l = true) ∧ ps.length ≤ rank s'' ∧
      runLabels s'' ps = some s3 ∧ s3.runPc = .returned ∧ s3.runErr = e := by
  obtain ⟨hp, he, ht, _⟩ := failure_step hl hs
  have hr'' := reachable_runLabels ls (Reachable.step l hr hs) hrun
  have hp'' := pastLoop_runLabels ls hrun hp
  have he'' : s''.runErr = e := by rw [err_fixed_runLabels ls hrun hp, he]
  have ht'' := terminating_runLabels ls hrun ht
  have hex : s''.el.inExec = false := by
    rcases inv_err hr'' hp'' with ⟨cz, _, h1, _⟩ | ⟨h1, _⟩ <;> rw [h1] <;> rfl
  obtain ⟨ps, s3, a, b, c', d⟩ := run_returns_past hr'' ht'' hc
    (fun p h => by rcases hp'' with h' | h' <;> rw [h'] at h <;> cases h) hex
  exact ⟨ps, s3, a, b, c', d, by rw [err_fixed_runLabels ps c' hp'', he'']⟩

/-! ### the context was cancelled before the loop began -/

/-- the context is cancelled and Run's error, if computed, is ErrProgramKilled - or the error of a
start-up failure, or the loop took an interrupt message / a read error in spite of the cancelled
context (its `select` may choose either) -/
def StruckEarly (s : St) : Prop :=
  s.ctxDone = true ∧ ((s.runPc = .tail ∨ s.runPc = .returned) →
    s.runErr = .killed ∨ (s.runErr = .startup ∧ s.el = .notStarted) ∨
    (s.runErr = .interrupted ∧ s.el = .exited .interrupt) ∨ (s.runErr = .reader ∧ s.el = .exited .readErr))

theorem struckEarly_step {c : Config} {s s' : St} {l : Label} (hr : Reachable c s)
    (hs : step s l = some s') (h : StruckEarly s) : StruckEarly s' := by
  have S := (inv_start hr).starting
  obtain ⟨h1, h2⟩ := h
  refine ⟨ctxDone_mono hs h1, ?_⟩
  step_cases hs l
  all_goals first
    | exact h2
    | (simp_all; done)
    | (have := S _ (by assumption); simp_all; done)
    | (have := S _ (And.left (by assumption)); simp_all; done)
    | (rename_i cz _ _; cases cz <;> simp_all [errOf]; done)

theorem struckEarly_runLabels {c : Config} : ∀ (ls : List Label) {s s' : St}, Reachable c s →
    runLabels s ls = some s' → StruckEarly s → StruckEarly s' := by
  intro ls
  induction ls with
  | nil => intro s s' _ h hc; simp only [runLabels] at h; cases h; exact hc
  | cons l ls ih =>
    intro s s' hr h hc
    simp only [runLabels] at h
    split at h
    · rename_i s1 h1
      exact ih (Reachable.step l hr h1) h (struckEarly_step hr h1 hc)
    · cases h

/-! ### the terminal modes when Run returns -/

/-- before the mode sequences of the start-up have been written, when Run's own shutdown is done and
when Run has returned, no mode sequence is outstanding: whatever the killers did in between and
whatever an Exec wrote (RestoreTerminal writes the mode sequences again, on the loop's goroutine,
while Run is in its loop), Run's own `restoreTerminalState` comes after the loop's end and is the last
writer -/
structure InvModes (s : St) : Prop where
  early : ∀ p, s.runPc = .starting p → p.afterNewRenderer = false ∨ p = .modeWrites → s.modesDirty = false
  done : s.runPc = .tail → s.runSh = .done → s.modesDirty = false
  returned : s.runPc = .returned → s.modesDirty = false

theorem inv_modes {c : Config} {s : St} (hr : Reachable c s) : InvModes s := by
  refine reachable_induct InvModes ?_ ?_ hr
  · constructor <;> simp [init0]
  · intro s s' l hrs ih hs
    have X : s.el.inExec = true → s.runPc = .loop := fun h => (exec_in_loop hrs h).1
    obtain ⟨h1, h2, h3⟩ := ih
    step_cases hs l
    all_goals constructor
    all_goals first
      | assumption
      | (simp_all [StartPc.afterNewRenderer]; done)
      | (have := X (by simp_all [ElPc.inExec]); simp_all; done)

/-! ### the renderer's halt before the listen goroutine exists -/

/-- in every stage of the start-up before `renderer.start()` the listen goroutine does not exist, so
whoever reaches the renderer phase of its shutdown there takes the step at once -/
theorem shRenderer_enabled_early {c : Config} {s : St} (hr : Reachable c s) (p : StartPc)
    (hp : s.runPc = .starting p) (hb : p.beforeStart = true) (who : Option Nat)
    (hph : phaseOf s who = some .renderer) : (step s (.shRenderer who)).isSome = true :=
  shRenderer_enabled s who hph (by rw [(inv_start hr).early p hp hb]; decide)

end Tea.Runtime.Life
