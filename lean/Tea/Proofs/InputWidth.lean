import Tea.Proofs.InputBasic
/-
Width bounds of every detector (for C09).
-/
namespace Tea.Input
open Tea Tea.Dec Tea.Utf8

theorem sgrMatchAt_len {s : Bytes} {m : SgrMatch} (h : sgrMatchAt s = some m) :
    m.len ≤ s.length ∧ 6 ≤ m.len := by
  unfold sgrMatchAt at h
  have h1 := spanDigits_length s
  revert h
  generalize spanDigits s = p1 at *
  obtain ⟨d1, r1⟩ := p1
  simp only
  split
  · intro h; cases h
  · rename_i hd1
    split
    · rename_i r1'
      have h2 := spanDigits_length r1'
      generalize spanDigits r1' = p2 at *
      obtain ⟨d2, r2⟩ := p2
      simp only
      split
      · intro h; cases h
      · rename_i hd2
        split
        · rename_i r2'
          have h3 := spanDigits_length r2'
          generalize spanDigits r2' = p3 at *
          obtain ⟨d3, r3⟩ := p3
          simp only
          split
          · intro h; cases h
          · rename_i hd3
            split
            · rename_i c rest
              split
              · intro h
                injection h with h
                subst h
                simp at *
                have : 0 < d1.length := List.length_pos_iff.mpr hd1
                have : 0 < d2.length := List.length_pos_iff.mpr hd2
                have : 0 < d3.length := List.length_pos_iff.mpr hd3
                omega
              · intro h; cases h
            · intro h; cases h
        · intro h; cases h
    · intro h; cases h

theorem sgrFind_bound : ∀ (s : Bytes) (off : Nat) (m : SgrMatch), sgrFind s = some (off, m) →
    off + m.len ≤ s.length ∧ 6 ≤ m.len := by
  intro s
  induction s with
  | nil => intro off m h; simp [sgrFind] at h
  | cons c cs ih =>
    intro off m h
    simp only [sgrFind] at h
    split at h
    · rename_i m' hm
      injection h with h
      injection h with h1 h2
      subst h1; subst h2
      have := sgrMatchAt_len hm
      omega
    · cases hcs : sgrFind cs with
      | none => simp [hcs] at h
      | some r =>
        obtain ⟨o, m'⟩ := r
        simp [hcs] at h
        obtain ⟨h1, h2⟩ := h
        subst h1; subst h2
        have := ih o m' hcs
        simp; omega

theorem lookupLens_bound (T : Table) (input : Bytes) : ∀ (lens : List Nat) (sz : Nat) (k : Key),
    lookupLens T input lens = some (sz, k) → sz ≤ input.length ∧ sz ∈ lens ∧ T.lookup (input.take sz) = some k := by
  intro lens
  induction lens with
  | nil => intro sz k h; simp [lookupLens] at h
  | cons l ls ih =>
    intro sz k h
    simp only [lookupLens] at h
    split at h
    · have := ih sz k h
      simp [this]
    · rename_i hl
      split at h
      · rename_i k' hk
        injection h with h
        injection h with h1 h2
        subst h1; subst h2
        simp [hk]; omega
      · have := ih sz k h
        simp [this]

theorem unknownCSILen_bound {b : Bytes} {n : Nat} (h : unknownCSILen b = some n) : 3 ≤ n ∧ n ≤ b.length := by
  unfold unknownCSILen at h
  split at h
  · rename_i rest
    simp only at h
    split at h
    · rename_i c tl hr2
      split at h
      · injection h with h
        subst h
        have e1 : (rest.takeWhile isParam).length + (rest.dropWhile isParam).length = rest.length := by
          have := congrArg List.length (List.takeWhile_append_dropWhile (p := isParam) (l := rest))
          rw [List.length_append] at this; exact this
        have e2 : ((rest.dropWhile isParam).takeWhile isInter).length + ((rest.dropWhile isParam).dropWhile isInter).length
            = (rest.dropWhile isParam).length := by
          have := congrArg List.length (List.takeWhile_append_dropWhile (p := isInter) (l := rest.dropWhile isParam))
          rw [List.length_append] at this; exact this
        rw [hr2] at e2
        simp at e2 ⊢
        omega
      · cases h
    · cases h
  · cases h

theorem runeLoop_bound (alt more : Bool) : ∀ (fuel : Nat) (b : Bytes) (i : Nat) (acc : List Nat),
    i ≤ b.length → (runeLoop alt more fuel b i acc).1 ≤ b.length ∧ i ≤ (runeLoop alt more fuel b i acc).1 := by
  intro fuel
  induction fuel with
  | zero => intro b i acc h; simp [runeLoop, h]
  | succ f ih =>
    intro b i acc h
    simp only [runeLoop]
    split
    · rename_i hi
      have hne : b.drop i ≠ [] := by
        intro he
        have := congrArg List.length he
        simp at this; omega
      have hle := decodeRune_size_le (b.drop i) hne
      simp at hle
      generalize hdr : decodeRune (b.drop i) = dr at *
      obtain ⟨r, rw⟩ := dr
      simp only at hle ⊢
      split
      · simp [h]
      · split
        · simp [h]
        · split
          · simp; omega
          · have := ih b (i + rw) (r :: acc) (by omega)
            omega
    · simp [h]

theorem runeLoop_adv (alt more : Bool) : ∀ (fuel : Nat) (b : Bytes) (i : Nat) (acc : List Nat),
    i ≤ b.length →
    ((runeLoop alt more fuel b i acc).2.1.length = acc.length ∨ i < (runeLoop alt more fuel b i acc).1) := by
  intro fuel
  induction fuel with
  | zero => intro b i acc h; simp [runeLoop]
  | succ f ih =>
    intro b i acc h
    simp only [runeLoop]
    split
    · rename_i hi
      have hne : b.drop i ≠ [] := by
        intro he
        have := congrArg List.length he
        simp at this; omega
      have hle := decodeRune_size_le (b.drop i) hne
      have hpos := decodeRune_size_pos (b.drop i) hne
      simp at hle
      generalize hdr : decodeRune (b.drop i) = dr at *
      obtain ⟨r, rw⟩ := dr
      simp only at hle hpos ⊢
      split
      · simp
      · split
        · simp
        · split
          · right; simp; omega
          · right
            have := (runeLoop_bound alt more f b (i + rw) (r :: acc) (by omega)).2
            omega
    · simp

theorem runeLoop_incomplete_more (alt more : Bool) : ∀ (fuel : Nat) (b : Bytes) (i : Nat) (acc : List Nat),
    (runeLoop alt more fuel b i acc).2.2 = true → more = true := by
  intro fuel
  induction fuel with
  | zero => intro b i acc h; simp [runeLoop] at h
  | succ f ih =>
    intro b i acc
    simp only [runeLoop]
    split
    · generalize decodeRune (b.drop i) = dr
      obtain ⟨r, rw⟩ := dr
      simp only
      split
      · rename_i hc
        intro _
        simp only [Bool.and_eq_true] at hc
        exact hc.1.2
      · split
        · intro h; simp at h
        · split
          · intro h; simp at h
          · exact ih b (i + rw) (r :: acc)
    · intro h; simp at h

end Tea.Input
