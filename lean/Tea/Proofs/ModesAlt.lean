import Tea.Proofs.Modes
/-
Helper lemmas for C12 (second part): what leaving the alt screen at exit does to the main
buffer.
-/
namespace Tea.Render
open Tea Tea.VT

/-- the saved cursor after the first two mode operations of a start-up with `WithAltScreen` -/
theorem enter_first_saved (t0 : Term) (h : t0.onAlt = false) :
    (applyOps t0 [.decrst 25, .decset 1049]).main.sr = t0.main.cr - t0.main.top ∧
    (applyOps t0 [.decrst 25, .decset 1049]).main.sc = t0.main.cc := by
  simp [applyOps, apply, setMode, h]

/-- leaving the alt screen: the main buffer's cells and window are untouched, its cursor goes
back to the saved position -/
theorem leave_alt (t : Term) (b : Bool) (hon : t.onAlt = true) :
    (applyOps t [.decrst 1049, cursorOp b]).onAlt = false ∧
    (applyOps t [.decrst 1049, cursorOp b]).main.cells = t.main.cells ∧
    (applyOps t [.decrst 1049, cursorOp b]).main.top = t.main.top ∧
    (applyOps t [.decrst 1049, cursorOp b]).main.cr = t.main.top + t.main.sr ∧
    (applyOps t [.decrst 1049, cursorOp b]).main.cc = t.main.sc := by
  cases b <;> simp [applyOps, apply, setMode, cursorOp, hon]

/-- a shutdown (stop or kill, then restore) that starts on the alt screen -/
theorem shutdown_from_alt (r : RState) (t : Term) (kill : Bool) (hT : Tracked r t)
    (hon : t.onAlt = true) :
    (applyOps t (runOps r (shutdownOps r kill)).2).onAlt = false ∧
    (applyOps t (runOps r (shutdownOps r kill)).2).main.cells = t.main.cells ∧
    (applyOps t (runOps r (shutdownOps r kill)).2).main.top = t.main.top ∧
    (applyOps t (runOps r (shutdownOps r kill)).2).main.cr = t.main.top + t.main.sr ∧
    (applyOps t (runOps r (shutdownOps r kill)).2).main.cc = t.main.sc := by
  have ha : r.altActive = true := hT.1.trans hon
  obtain ⟨pre, hsd, hpre⟩ : ∃ pre, shutdownOps r kill = pre ++ [.exitAlt] ∧ ROp.exitAlt ∉ pre := by
    refine ⟨[if kill then .kill else .stop] ++
      ([.noPaste, .showCursor, .noMouseCell, .noMouseAll, .noMouseSGR] ++
        (if r.focusActive then [.noFocus] else [])), ?_, ?_⟩
    · simp [shutdownOps, restoreOps, ha]
    · cases kill <;> cases r.focusActive <;> decide
  rw [hsd, runOps_append, applyOps_append]
  obtain ⟨k1, k2⟩ := alt_keeps_main r t pre hon hpre
  have hT1 := (run_tracked r t pre hT).1
  have ha1 : (runOps r pre).1.altActive = true := hT1.1.trans k1
  have hout : (runOps (runOps r pre).1 [.exitAlt]).2 =
      [.decrst 1049, cursorOp (runOps r pre).1.cursorHidden] := by
    simp [runOps, step, exitAlt, ha1]
  rw [hout, ← k2]
  exact leave_alt _ _ k1

/-- a second shutdown(kill) on a restored terminal: only the cursor's row of the main buffer can
change (EraseEntireLine), the terminal stays on the main screen -/
theorem second_kill (r : RState) (t : Term) (hT : Tracked r t) (h0 : modesOf t = {}) :
    (applyOps t (runOps r (shutdownOps r true)).2).onAlt = false ∧
    (∀ row col, row ≠ t.main.cr →
      (applyOps t (runOps r (shutdownOps r true)).2).main.cells row col = t.main.cells row col) ∧
    (applyOps t (runOps r (shutdownOps r true)).2).main.cr = t.main.cr := by
  have hon : t.onAlt = false := congrArg ModeReg.alt h0
  have hfo : t.m1004 = false := congrArg ModeReg.focus h0
  have ha : r.altActive = false := hT.1.trans hon
  have hf : r.focusActive = false := hT.2.2.1.trans hfo
  have hout : (runOps r (shutdownOps r true)).2 =
      [.el2, .cr, .decrst 2004, .decset 25, .decrst 1002, .decrst 1003, .decrst 1006] := by
    simp [shutdownOps, restoreOps, runOps, step, kill, ha, hf]
  rw [hout]
  refine ⟨?_, ?_, ?_⟩
  · simp [applyOps, apply, setMode, Term.setBuf, hon]
  · intro row col hrow
    simp [applyOps, apply, setMode, Term.setBuf, Term.buf, applyBuf, Buf.eraseCols, hon, hrow]
  · simp [applyOps, apply, setMode, Term.setBuf, Term.buf, applyBuf, Buf.eraseCols, hon]

/-- a whole run in the alt screen ended by one shutdown: the main buffer is as it was -/
theorem alt_run_main (o : Opts) (ha : o.alt = true) (t0 : Term) (h0 : modesOf t0 = {})
    (h : List ROp) (hne : ROp.exitAlt ∉ h) (kill : Bool) :
    let r1 := (runOps {} (startupOps o ++ h)).1
    let t1 := applyOps t0 (runOps {} (startupOps o ++ h)).2
    let t2 := applyOps t1 (runOps r1 (shutdownOps r1 kill)).2
    Tracked (runOps r1 (shutdownOps r1 kill)).1 t2 ∧ modesOf t2 = {} ∧
    t2.main.cells = t0.main.cells ∧ t2.main.top = t0.main.top ∧
    t2.main.cr = t0.main.top + (t0.main.cr - t0.main.top) ∧ t2.main.cc = t0.main.cc := by
  intro r1 t1 t2
  have hon0 : t0.onAlt = false := congrArg ModeReg.alt h0
  have hT0 : Tracked {} t0 := by rw [tracked_iff, h0]; exact tracked_init
  obtain ⟨k1, k2⟩ := alt_start_main_eq o ha t0 h hne
  have hT1 : Tracked r1 t1 := (run_tracked {} t0 _ hT0).1
  obtain ⟨_, s2, s3, s4, s5⟩ := shutdown_from_alt r1 t1 kill hT1 k1
  obtain ⟨_, e2, e3, _, _⟩ := enter_first t0
  obtain ⟨f1, f2⟩ := enter_first_saved t0 hon0
  obtain ⟨g1, g2⟩ := run_tracked r1 t1 (shutdownOps r1 kill) hT1
  rw [shutdown_spec r1 _ kill hT1] at g2
  refine ⟨g1, g2, ?_, ?_, ?_, ?_⟩
  · show t2.main.cells = _
    rw [s2]; show t1.main.cells = _; rw [k2, e2]
  · show t2.main.top = _
    rw [s3]; show t1.main.top = _; rw [k2, e3]
  · show t2.main.cr = _
    rw [s4]; show t1.main.top + t1.main.sr = _; rw [k2, e3, f1]
  · show t2.main.cc = _
    rw [s5]; show t1.main.sc = _; rw [k2, f2]

/-- ... ended by Kill (two shutdowns): every row but the cursor's is as it was -/
theorem alt_run_main_kill (o : Opts) (ha : o.alt = true) (t0 : Term) (h0 : modesOf t0 = {})
    (h : List ROp) (hne : ROp.exitAlt ∉ h) :
    let r1 := (runOps {} (startupOps o ++ h)).1
    let t1 := applyOps t0 (runOps {} (startupOps o ++ h)).2
    let t2 := applyOps t1 (runOps r1 (exitOps r1 .killApi)).2
    t2.onAlt = false ∧
    (∀ row col, row ≠ t0.main.top + (t0.main.cr - t0.main.top) →
      t2.main.cells row col = t0.main.cells row col) ∧
    t2.main.cr = t0.main.top + (t0.main.cr - t0.main.top) := by
  intro r1 t1 t2
  obtain ⟨a1, a2, a3, _, a5, _⟩ := alt_run_main o ha t0 h0 h hne true
  have ht2 : t2 = applyOps (applyOps t1 (runOps r1 (shutdownOps r1 true)).2)
      (runOps (runOps r1 (shutdownOps r1 true)).1
        (shutdownOps (runOps r1 (shutdownOps r1 true)).1 true)).2 := by
    show applyOps t1 (runOps r1 (shutdownOps r1 true ++
      shutdownOps (runOps r1 (shutdownOps r1 true)).1 true)).2 = _
    rw [runOps_append, applyOps_append]
  obtain ⟨b1, b2, b3⟩ := second_kill _ _ a1 a2
  rw [ht2]
  refine ⟨b1, ?_, ?_⟩
  · intro row col hrow
    rw [b2 row col (by rw [a5]; exact hrow), a3]
  · rw [b3, a5]

end Tea.Render
