import Tea.Proofs.ChunkedStream
import Tea.Proofs.Sequences
/-
Helper lemmas for C15, second part: the event classes of the grammar `Ev`
(`Tea/Input/StreamSpec.lean`) satisfy `StreamOK` and `CutStable` under the decidable side
conditions of `WellFormed`.  No property theorems here.
(The C08 helper file `Tea/Proofs/SequencesTail.lean` cannot be imported together with the C15
helper files — both define `decodeLoop_step`, `encodeRune_head`, `encodeRunes_cons` — so the
few lemmas needed from it are restated here under other names.)
-/
namespace Tea.Input
open Tea Tea.Utf8

/-! ### table facts -/

theorem controlKeyed_of_wf {T : Table} (h : WFTable T) : ControlKeyed T := by
  intro e he c hc
  obtain ⟨c', tl, hs, hc'⟩ := h e he
  rw [hs] at hc
  simp only [List.head?_cons, Option.some.injEq] at hc
  subst hc
  exact hc'

theorem introFree_spec {T : Table} (hT : introFreeB T = true) {e : Entry} (he : e ∈ T) :
    ¬ [0x1b, 0x5b, 0x4d] <+: e.seq ∧ ¬ [0x1b, 0x5b, 0x3c] <+: e.seq ∧ ¬ bpStart <+: e.seq := by
  have h := (List.all_eq_true.1 hT) e he
  simp only [introducers, focusReports, List.all_cons, List.all_nil, Bool.and_true, Bool.and_eq_true,
    Bool.not_eq_true', isPrefix_eq_false_iff] at h
  obtain ⟨⟨⟨_, a2⟩, ⟨_, b2⟩, ⟨_, c2⟩⟩, _, _⟩ := h
  exact ⟨a2, b2, c2⟩

theorem startFree_of_introFree {T : Table} (hT : introFreeB T = true) : StartFree T :=
  fun _ he => (introFree_spec hT he).2.2

theorem notExtended_of_npp {T : Table} {s : Bytes} (h : isProperPrefixOfKey T s = false)
    (rest : Bytes) : NotExtended T s rest := by
  intro e' he' hpre
  apply Classical.byContradiction
  intro hlt
  have hlt' : s.length < e'.seq.length := by omega
  have hs : s <+: e'.seq :=
    List.prefix_of_prefix_length_le (List.prefix_append s rest) hpre (by omega)
  unfold isProperPrefixOfKey at h
  rw [List.any_eq_false] at h
  have := h e' he'
  simp [hlt', isPrefix_iff.2 hs] at this

theorem npp_append {T : Table} {p : Bytes} (h : isProperPrefixOfKey T p = false) (rest : Bytes) :
    isProperPrefixOfKey T (p ++ rest) = false := by
  apply isProperPrefixOfKey_eq_false
  intro e he hlen hpre
  unfold isProperPrefixOfKey at h
  rw [List.any_eq_false] at h
  have := h e he
  have hp : p <+: e.seq := (List.prefix_append p rest).trans hpre
  have hl : p.length < e.seq.length := by simp only [List.length_append] at hlen; omega
  simp [hl, isPrefix_iff.2 hp] at this

theorem noKeyPrefix_of_incomp {T : Table} {p : Bytes} (h : incomparableB T p = true) (rest : Bytes) :
    NoKeyPrefix T (p ++ rest) := by
  intro e he hpre
  have := (List.all_eq_true.1 h) e he
  simp only [Bool.and_eq_true, Bool.not_eq_true', isPrefix_eq_false_iff] at this
  rcases List.prefix_or_prefix_of_prefix hpre (List.prefix_append p rest) with h | h
  · exact this.1 h
  · exact this.2 h

theorem npp_of_incomp {T : Table} {p : Bytes} (h : incomparableB T p = true) (rest : Bytes) :
    isProperPrefixOfKey T (p ++ rest) = false := by
  apply isProperPrefixOfKey_eq_false
  intro e he _ hpre
  have := (List.all_eq_true.1 h) e he
  simp only [Bool.and_eq_true, Bool.not_eq_true', isPrefix_eq_false_iff] at this
  exact this.2 ((List.prefix_append p rest).trans hpre)

/-! ### `isIncompleteEvent` is monotone: a buffer that is not an incomplete event does not
become one when more bytes follow (given that a lone ESC is one) -/

theorem dropWhile_append_of_ne_nil {α : Type} (p : α → Bool) : ∀ (l r : List α), l.dropWhile p ≠ [] →
    (l ++ r).dropWhile p = l.dropWhile p ++ r
  | [], _, h => absurd rfl h
  | x :: xs, r, h => by
    by_cases hx : p x = true
    · rw [List.cons_append, List.dropWhile_cons_of_pos hx, List.dropWhile_cons_of_pos hx]
      rw [List.dropWhile_cons_of_pos hx] at h
      exact dropWhile_append_of_ne_nil p xs r h
    · rw [List.cons_append, List.dropWhile_cons_of_neg hx, List.dropWhile_cons_of_neg hx]
      rfl

theorem isIncompleteEvent_append {T : Table} (hesc : isProperPrefixOfKey T [0x1b] = true)
    (s r : Bytes) (hne : s ≠ []) (h : isIncompleteEvent T s = false) :
    isIncompleteEvent T (s ++ r) = false := by
  cases s with
  | nil => exact absurd rfl hne
  | cons b0 tl =>
    by_cases hb : b0 = 0x1b
    · subst hb
      have hpp : isProperPrefixOfKey T (0x1b :: tl) = false := by
        cases hp : isProperPrefixOfKey T (0x1b :: tl) with
        | false => rfl
        | true => simp [isIncompleteEvent, hp] at h
      have hpp' := npp_append hpp r
      cases tl with
      | nil => rw [hesc] at hpp; cases hpp
      | cons c rest2 =>
        by_cases hc : c = 0x5b
        · subst hc
          simp only [List.cons_append] at hpp' ⊢
          unfold isIncompleteEvent at h ⊢
          simp only [bne_self_eq_false, Bool.false_eq_true, if_false, hpp, hpp'] at h ⊢
          cases rest2 with
          | nil => simp at h
          | cons d r3 =>
            by_cases hd : d = 0x4d
            · subst hd
              simp only [List.cons_append]
              simp [detectReportFocus] at h ⊢
              omega
            · have hf : detectReportFocus (0x1b :: 0x5b :: d :: r3) = none := by
                cases hf : detectReportFocus (0x1b :: 0x5b :: d :: r3) with
                | none => rfl
                | some p => simp [hf] at h
              simp only [hf, Option.isSome_none, Bool.false_eq_true, if_false] at h
              have hdw : ((d :: r3).dropWhile isParam).dropWhile isInter ≠ [] := by
                intro he
                revert h
                split
                · rename_i heq; injection heq with h1 _; exact absurd h1 hd
                · rw [he]; simp
              have hf' : detectReportFocus (0x1b :: 0x5b :: (d :: r3 ++ r)) = none := by
                cases r3 with
                | nil =>
                  cases r with
                  | nil => simpa using hf
                  | cons _ _ => simp [detectReportFocus]
                | cons _ _ => simp [detectReportFocus]
              simp only [hf', Option.isSome_none, Bool.false_eq_true, if_false]
              have h1 : (d :: r3).dropWhile isParam ≠ [] := by
                intro he; rw [he] at hdw; exact hdw rfl
              split
              · rename_i heq; injection heq with h1 _; exact absurd h1 hd
              · rw [dropWhile_append_of_ne_nil isParam _ r h1, dropWhile_append_of_ne_nil isInter _ r hdw]
                cases hq : List.dropWhile isInter (List.dropWhile isParam (d :: r3)) with
                | nil => exact absurd hq hdw
                | cons _ _ => rfl
        · simp only [List.cons_append] at hpp' ⊢
          unfold isIncompleteEvent
          simp only [bne_self_eq_false, Bool.false_eq_true, if_false, hpp']
          split
          · rename_i heq; injection heq with h1 _; exact absurd h1 hc
          · rfl
    · simp [isIncompleteEvent, hb]

/-! ### keys of the table -/

/-- a key that is not a proper prefix of another key and is not by itself an incomplete event,
followed by anything, read in any way, decodes to its key -/
theorem key_detect {T : Table} {lens : List Nat} (hT : TableOK T lens) (e : Entry) (he : e ∈ T)
    (hne : e.seq ≠ []) (hpp : isProperPrefixOfKey T e.seq = false) (hinc : isIncompleteEvent T e.seq = false)
    (r : Bytes) (more : Bool) :
    detectOneMsg T lens (e.seq ++ r) more = .ok (e.seq.length, some (.key e.key)) :=
  detectOneMsg_key T lens e r more hT.lensDesc (coversPrefixes_of_all hT.lensAll _) he (hT.consistent e he)
    (notExtended_of_npp hpp r) (Or.inr (isIncompleteEvent_append hT.esc _ r hne hinc))
    (noIntroducer_of_introFree hT.introFree he r)

/-- a proper non-empty prefix of a key that is one byte long or starts with ESC is held back -/
theorem key_cut_held (T : Table) (lens : List Nat) (e : Entry) (he : e ∈ T)
    (hshape : e.seq.length = 1 ∨ e.seq.head? = some 0x1b) (k : Nat) (hk : 0 < k) (hk' : k < e.seq.length) :
    detectOneMsg T lens (e.seq.take k) true = .ok (0, none) := by
  rcases hshape with h | h
  · omega
  · cases hs : e.seq with
    | nil => rw [hs] at h; cases h
    | cons c ev' =>
      rw [hs] at h
      simp only [List.head?_cons, Option.some.injEq] at h
      subst h
      have := isIncomplete_held T lens _ (key_cut_incomplete T e he ev' hs k hk hk')
      rw [hs] at this
      exact this

/-! ### mouse reports -/

theorem sgr_detect {T : Table} (lens : List Nat) (hT : introFreeB T = true) (b x y fin : Nat)
    (hfin : fin = 77 ∨ fin = 109) (r : Bytes) (more : Bool) :
    detectOneMsg T lens (Xterm.sgrReport b x y fin ++ r) more
      = .ok ((Xterm.sgrReport b x y fin).length,
          some (.mouse (Xterm.event (Xterm.decode true (min b Dec.maxInt64) (fin == 109))
            (Int.ofNat (min x Dec.maxInt64) - 1) (Int.ofNat (min y Dec.maxInt64) - 1)))) := by
  rw [sgrReport_append, sgrReport_length]
  apply detectOneMsg_sgr T lens more b x y fin hfin r
  rw [isIncompleteEvent_sgr T b x y fin hfin r]
  have := isProperPrefixOfKey_false T [0x1b, 0x5b, 0x3c]
    (Dec.digits b ++ 59 :: (Dec.digits x ++ 59 :: (Dec.digits y ++ fin :: r)))
    (fun e he => (introFree_spec hT he).2.1)
  simp only [List.cons_append, List.nil_append] at this
  rw [this]
  simp

theorem sgr_cut_held {T : Table} (lens : List Nat) (hesc : isProperPrefixOfKey T [0x1b] = true)
    (b x y fin : Nat) (k : Nat) (hk : 0 < k) (hk' : k < (Xterm.sgrReport b x y fin).length) :
    detectOneMsg T lens ((Xterm.sgrReport b x y fin).take k) true = .ok (0, none) := by
  have := isIncomplete_held T lens _
    (csi_cut_incomplete T hesc _ (sgr_params b x y) fin k hk (by rw [← sgrReport_csi]; exact hk'))
  rw [← sgrReport_csi] at this
  exact this

theorem x10_detect {T : Table} (lens : List Nat) (hT : introFreeB T = true) (cb cx cy : Nat)
    (hcb : 32 ≤ cb) (r : Bytes) (more : Bool) :
    detectOneMsg T lens (Xterm.x10Report cb cx cy ++ r) more
      = .ok ((Xterm.x10Report cb cx cy).length,
          some (.mouse (Xterm.event (Xterm.decode false (cb - 32) false)
            (Int.ofNat cx - 32 - 1) (Int.ofNat cy - 32 - 1)))) := by
  have hm := detectMouse_x10 cb cx cy r
  rw [x10_parse cb hcb] at hm
  have hinc : (more && isIncompleteEvent T (Xterm.x10Report cb cx cy ++ r)) = false := by
    have h1 : isIncompleteEvent T (Xterm.x10Report cb cx cy ++ r) = false := by
      show isIncompleteEvent T (0x1b :: 0x5b :: 0x4d :: cb :: cx :: cy :: r) = false
      rw [isIncompleteEvent_x10]
      have := isProperPrefixOfKey_false T [0x1b, 0x5b, 0x4d] (cb :: cx :: cy :: r)
        (fun e he => (introFree_spec hT he).1)
      simpa using this
    rw [h1]; simp
  exact detectOneMsg_of_mouse T lens _ more hinc hm

theorem x10_cut_held {T : Table} (lens : List Nat) (hesc : isProperPrefixOfKey T [0x1b] = true)
    (cb cx cy : Nat) (k : Nat) (hk : 0 < k) (hk' : k < (Xterm.x10Report cb cx cy).length) :
    detectOneMsg T lens ((Xterm.x10Report cb cx cy).take k) true = .ok (0, none) :=
  isIncomplete_held T lens _ (x10_cut_incomplete T hesc cb cx cy k hk (by simpa [Xterm.x10Report] using hk'))

/-! ### bracketed pastes -/

theorem paste_detect {T : Table} (lens : List Nat) (hT : introFreeB T = true) (p : Bytes)
    (hpe : ¬ bpEnd <:+: p) (r : Bytes) (more : Bool) :
    detectOneMsg T lens (bpStart ++ p ++ bpEnd ++ r) more
      = .ok ((bpStart ++ p ++ bpEnd).length,
          some (.key { type := keyRunes, paste := true, runes := pasteRunes p.length p })) := by
  have hb : bpStart ++ p ++ bpEnd ++ r = bpStart ++ (p ++ bpEnd ++ r) := by
    simp [List.append_assoc]
  rw [hb, detectOneMsg_bpStart T lens _ more
    (Or.inr (isIncompleteEvent_bpStart_startFree (startFree_of_introFree hT) _)), indexOf_end p r hpe]
  simp only
  rw [List.append_assoc, List.take_left' rfl]
  have : (bpStart ++ p ++ bpEnd).length = 12 + p.length := by
    simp [bpStart, bpEnd]; omega
  rw [this]
  rfl

theorem paste_cut_held' {T : Table} (lens : List Nat) (hesc : isProperPrefixOfKey T [0x1b] = true)
    (p : Bytes) (hpe : ¬ bpEnd <:+: p) (k : Nat) (hk : 0 < k) (hk' : k < (bpStart ++ p ++ bpEnd).length) :
    detectOneMsg T lens ((bpStart ++ p ++ bpEnd).take k) true = .ok (0, none) :=
  paste_cut_held T lens hesc p hpe k hk hk'

/-! ### unknown CSI sequences -/

theorem ev_isParam_not_inter {c : Nat} (h : isInter c = true) : isParam c = false := by
  simp [isInter, isParam] at *; omega
theorem ev_isFinal_not_param {c : Nat} (h : isFinal c = true) : isParam c = false := by
  simp [isFinal, isParam] at *; omega
theorem ev_isFinal_not_inter {c : Nat} (h : isFinal c = true) : isInter c = false := by
  simp [isFinal, isInter] at *; omega

theorem ev_span_stop {p : Nat → Bool} (l : Bytes) (c : Nat) (tl : Bytes)
    (hl : ∀ x ∈ l, p x = true) (hc : p c = false) :
    (l ++ c :: tl).takeWhile p = l ∧ (l ++ c :: tl).dropWhile p = c :: tl := by
  induction l with
  | nil => simp [hc]
  | cons x xs ih =>
    have hx : p x = true := hl x (by simp)
    have := ih (fun y hy => hl y (by simp [hy]))
    simp [hx, this]

/-- the first byte after the parameter bytes of a CSI sequence is not a parameter byte -/
theorem ev_csi_stop (inter : Bytes) (final : Nat) (rest : Bytes)
    (hi : ∀ c ∈ inter, isInter c = true) (hf : isFinal final = true) :
    ∃ c tl, inter ++ final :: rest = c :: tl ∧ isParam c = false := by
  cases inter with
  | nil => exact ⟨final, rest, rfl, ev_isFinal_not_param hf⟩
  | cons x xs => exact ⟨x, xs ++ final :: rest, rfl, ev_isParam_not_inter (hi x (by simp))⟩

theorem ev_unknownCSILen (params inter : Bytes) (final : Nat) (rest : Bytes)
    (hp : ∀ c ∈ params, isParam c = true) (hi : ∀ c ∈ inter, isInter c = true) (hf : isFinal final = true) :
    unknownCSILen (0x1b :: 0x5b :: (params ++ inter ++ final :: rest)) =
      some (2 + params.length + inter.length + 1) := by
  unfold unknownCSILen
  simp only
  obtain ⟨c, tl, hctl, hc⟩ := ev_csi_stop inter final rest hi hf
  have h1 := ev_span_stop (p := isParam) params c tl hp hc
  have h2 := ev_span_stop (p := isInter) inter final rest hi (ev_isFinal_not_inter hf)
  rw [List.append_assoc, hctl, h1.1, h1.2, ← hctl, h2.1, h2.2]
  simp [hf]

theorem csiBytes_append (ps is : Bytes) (f : Nat) (r : Bytes) :
    csiBytes ps is f ++ r = 0x1b :: 0x5b :: (ps ++ is ++ f :: r) := by
  simp [csiBytes]

theorem csiBytes_length (ps is : Bytes) (f : Nat) :
    (csiBytes ps is f).length = 2 + ps.length + is.length + 1 := by
  simp [csiBytes]; omega

theorem csiPlain_spec {s : Bytes} (h : csiPlain s = true) :
    (¬ s <+: [0x1b, 0x5b, 0x4d] ∧ ¬ [0x1b, 0x5b, 0x4d] <+: s) ∧
    (¬ s <+: [0x1b, 0x5b, 0x3c] ∧ ¬ [0x1b, 0x5b, 0x3c] <+: s) ∧
    (¬ s <+: bpStart ∧ ¬ bpStart <+: s) ∧ s ≠ [0x1b, 0x5b, 0x49] ∧ s ≠ [0x1b, 0x5b, 0x4f] := by
  simp only [csiPlain, introducers, focusReports, List.all_cons, List.all_nil, Bool.and_true, Bool.and_eq_true,
    Bool.not_eq_true', isPrefix_eq_false_iff, bne_iff_ne, ne_eq] at h
  obtain ⟨⟨⟨a1, a2⟩, ⟨b1, b2⟩, c1, c2⟩, d1, d2⟩ := h
  exact ⟨⟨a2, a1⟩, ⟨b2, b1⟩, ⟨c2, c1⟩, d1, d2⟩

theorem csi_noIntroducer (ps is : Bytes) (f : Nat) (h : csiPlain (csiBytes ps is f) = true) (r : Bytes) :
    NoIntroducer (csiBytes ps is f ++ r) = true := by
  obtain ⟨⟨a1, a2⟩, ⟨b1, b2⟩, ⟨c1, c2⟩, d1, d2⟩ := csiPlain_spec h
  have hlen := csiBytes_length ps is f
  have hfoc : ∀ F : Bytes, F.length = 3 → csiBytes ps is f ≠ F → csiBytes ps is f ++ r ≠ F := by
    intro F hF hne heq
    have hp : csiBytes ps is f <+: F := heq ▸ List.prefix_append _ _
    exact hne (hp.eq_of_length (by have := hp.length_le; omega))
  unfold NoIntroducer
  simp only [Bool.and_eq_true, Bool.not_eq_true', bne_iff_ne, ne_eq, Bool.and_eq_false_iff,
    Bool.or_eq_false_iff, isPrefix_eq_false_iff]
  exact ⟨⟨⟨Or.inr ⟨not_prefix_append_of_incomparable a1 a2, not_prefix_append_of_incomparable b1 b2⟩,
    not_prefix_append_of_incomparable c1 c2⟩, hfoc _ rfl d1⟩, hfoc _ rfl d2⟩

/-- a complete CSI sequence unknown to the table is not an incomplete event -/
theorem csi_not_incomplete {T : Table} (ps is : Bytes) (f : Nat)
    (hp : ∀ c ∈ ps, isParam c = true) (hi : ∀ c ∈ is, isInter c = true) (hf : isFinal f = true)
    (hplain : csiPlain (csiBytes ps is f) = true) (hinc : incomparableB T (csiBytes ps is f) = true) :
    isIncompleteEvent T (csiBytes ps is f) = false := by
  obtain ⟨⟨_, a2⟩, _, _, d1, d2⟩ := csiPlain_spec hplain
  have hpp := npp_of_incomp hinc []
  rw [List.append_nil] at hpp
  have hfoc := detectReportFocus_none_of d1 d2
  obtain ⟨c, tl, hctl, hc⟩ := ev_csi_stop is f [] hi hf
  have h1 := ev_span_stop (p := isParam) ps c tl hp hc
  have h2 := ev_span_stop (p := isInter) is f [] hi (ev_isFinal_not_inter hf)
  unfold csiBytes at *
  unfold isIncompleteEvent
  simp only [bne_self_eq_false, Bool.false_eq_true, if_false, hpp, hfoc, Option.isSome_none]
  split
  · rename_i tl' heq
    exfalso
    apply a2
    rw [heq]
    exact ⟨tl', rfl⟩
  · rw [List.append_assoc, hctl, h1.2, ← hctl, h2.2]
    rfl

theorem csi_detect {T : Table} {lens : List Nat} (hT : TableOK T lens) (ps is : Bytes) (f : Nat)
    (hp : ∀ c ∈ ps, isParam c = true) (hi : ∀ c ∈ is, isInter c = true) (hf : isFinal f = true)
    (hplain : csiPlain (csiBytes ps is f) = true) (hinc : incomparableB T (csiBytes ps is f) = true)
    (r : Bytes) (more : Bool) :
    detectOneMsg T lens (csiBytes ps is f ++ r) more
      = .ok ((csiBytes ps is f).length, some (.unknownCSI (csiBytes ps is f))) := by
  have hne : csiBytes ps is f ≠ [] := by simp [csiBytes]
  rw [detectOneMsg_of_noIntro T lens _ more
    (Or.inr (isIncompleteEvent_append hT.esc _ r hne (csi_not_incomplete ps is f hp hi hf hplain hinc)))
    (csi_noIntroducer ps is f hplain r)]
  unfold detectSequence
  rw [lookupLens_eq_none_of_noKey (noKeyPrefix_of_incomp hinc r)]
  have hu := ev_unknownCSILen ps is f r hp hi hf
  rw [← csiBytes_append, ← csiBytes_length] at hu
  rw [hu]
  simp only
  rw [List.take_left' rfl]

/-- `ESC [` followed by parameter bytes, then intermediate bytes (no final byte yet): an
incomplete CSI sequence -/
theorem isIncompleteEvent_csi_open (T : Table) (p i : Bytes)
    (hp : ∀ c ∈ p, isParam c = true) (hi : ∀ c ∈ i, isInter c = true) :
    isIncompleteEvent T (0x1b :: 0x5b :: (p ++ i)) = true := by
  unfold isIncompleteEvent
  simp only [bne_self_eq_false, Bool.false_eq_true, if_false]
  by_cases h1 : isProperPrefixOfKey T (0x1b :: 0x5b :: (p ++ i)) = true
  · rw [if_pos h1]
  · rw [if_neg h1]
    by_cases h2 : (detectReportFocus (0x1b :: 0x5b :: (p ++ i))).isSome = true
    · rw [if_pos h2]
    · rw [if_neg h2]
      have hd : ((p ++ i).dropWhile isParam).dropWhile isInter = [] := by
        rw [List.dropWhile_append_of_pos hp]
        have : i.dropWhile isParam = i := by
          cases i with
          | nil => rfl
          | cons x xs => exact List.dropWhile_cons_of_neg (by simp [ev_isParam_not_inter (hi x (by simp))])
        rw [this]
        exact dropWhile_all isInter i hi
      split
      · rename_i tl heq
        have hm : 0x4d ∈ p ++ i := by rw [heq]; simp
        rcases List.mem_append.1 hm with h | h
        · have := hp _ h; simp [isParam] at this
        · have := hi _ h; simp [isInter] at this
      · rw [hd]; rfl

theorem csi_cut_held {T : Table} (lens : List Nat) (hesc : isProperPrefixOfKey T [0x1b] = true)
    (ps is : Bytes) (f : Nat) (hp : ∀ c ∈ ps, isParam c = true) (hi : ∀ c ∈ is, isInter c = true)
    (k : Nat) (hk : 0 < k) (hk' : k < (csiBytes ps is f).length) :
    detectOneMsg T lens ((csiBytes ps is f).take k) true = .ok (0, none) := by
  apply isIncomplete_held
  rw [csiBytes_length] at hk'
  by_cases h1 : k = 1
  · subst h1
    exact isIncompleteEvent_esc T hesc
  · obtain ⟨j, rfl⟩ : ∃ j, k = j + 2 := ⟨k - 2, by omega⟩
    unfold csiBytes
    simp only [List.take_succ_cons]
    rw [List.take_append_of_le_length (by simp only [List.length_append]; omega), List.take_append]
    exact isIncompleteEvent_csi_open T _ _ (fun c hc => hp c (List.mem_of_mem_take hc))
      (fun c hc => hi c (List.mem_of_mem_take hc))

/-! ### runs of printable characters -/

theorem runeLoop_run_stop (more : Bool) (ps : List Nat) (hp : ∀ r ∈ ps, printable r = true)
    (c : Nat) (hc : c ≤ 32 ∨ c = 127) (rest : Bytes) :
    runeLoop false more ((encodeRunes ps ++ c :: rest).length + 1) (encodeRunes ps ++ c :: rest) 0 []
      = ((encodeRunes ps).length, ps, false) := by
  rw [runeLoop_runes more _ (c :: rest) ps _ 0 [] hp
    (by have := encodeRunes_length_ge ps; simp only [List.length_append]; omega) (by simp)]
  simp only [Nat.zero_add, List.append_nil]
  have : ∃ f, (encodeRunes ps ++ c :: rest).length + 1 - ps.length = f + 1 :=
    ⟨(encodeRunes ps ++ c :: rest).length - ps.length, by
      have := encodeRunes_length_ge ps; simp only [List.length_append]; omega⟩
  obtain ⟨f, hf⟩ := this
  rw [hf]
  simp only [runeLoop]
  have hlt : (encodeRunes ps).length < (encodeRunes ps ++ c :: rest).length := by
    simp only [List.length_append, List.length_cons]; omega
  rw [if_pos hlt, List.drop_left, decodeRune_enc1 c rest (by omega)]
  have h1 : (c == runeError) = false := by simp [runeError]; omega
  simp [h1]
  intro a b d
  unfold keyUS at a
  unfold keyDEL at b
  omega

/-- printable characters followed by a control byte, space or DEL: one KeyRunes message with
exactly the characters, whatever `more` is (the run is closed by that byte) -/
theorem detectOneMsg_run_stop (T : Table) (lens : List Nat) (hl : ∀ l ∈ lens, 0 < l) (hT : ControlKeyed T)
    (more : Bool) (ps : List Nat) (hp : ∀ r ∈ ps, printable r = true) (hps : ps ≠ [])
    (c : Nat) (hc : c ≤ 32 ∨ c = 127) (rest : Bytes) :
    detectOneMsg T lens (encodeRunes ps ++ c :: rest) more =
      .ok ((encodeRunes ps).length, some (.key { type := keyRunes, runes := ps })) := by
  obtain ⟨c0, tl, hc0, hplain⟩ := encodeRunes_head hp hps
  have hb : encodeRunes ps ++ c :: rest = c0 :: (tl ++ c :: rest) := by rw [hc0]; rfl
  rw [hb, detectOneMsg_plain T lens hl hT hplain, detectTail_plain hplain, ← hb,
    runeLoop_run_stop more ps hp c hc]
  have h1 : ps.length > 0 := List.length_pos_iff.mpr hps
  have h2 : (ps == [32]) = false := by
    cases ps with
    | nil => exact absurd rfl hps
    | cons r rs' =>
      have := (printable_iff.1 (hp r (by simp))).2.1
      simp; intro h; omega
  simp [h1, h2]
  intro h; omega

/-! ### NUL -/

theorem nul_detect {T : Table} (lens : List Nat) (h : incomparableB T [0] = true) (r : Bytes) (more : Bool) :
    detectOneMsg T lens (0 :: r) more = .ok (1, some (.key { type := keyNUL })) := by
  have hni : NoIntroducer (0 :: r) = true := by simp [NoIntroducer, isPrefix, bpStart]
  have hinc : isIncompleteEvent T (0 :: r) = false := by simp [isIncompleteEvent]
  rw [detectOneMsg_of_noIntro T lens _ more (Or.inr hinc) hni]
  have hnk : NoKeyPrefix T (0 :: r) := noKeyPrefix_of_incomp h r
  have hcsi : unknownCSILen (0 :: r) = none := by simp [unknownCSILen]
  unfold detectSequence
  rw [lookupLens_eq_none_of_noKey hnk, hcsi]
  simp [detectTail, idx]

/-! ### alt + printable character -/

/-- the first byte of the encoding of a printable character other than `[` is above the space,
not DEL and not `[` -/
theorem encodeRune_head_alt {r : Nat} (h : printable r = true) (h5 : r ≠ 0x5b) :
    ∃ c tl, encodeRune r = c :: tl ∧ plainByte c ∧ c ≠ 0x5b := by
  obtain ⟨_, h32, h127, _⟩ := printable_iff.1 h
  unfold encodeRune
  by_cases h1 : r < 0x80
  · rw [if_pos h1]; exact ⟨_, _, rfl, ⟨h32, h127⟩, h5⟩
  · rw [if_neg h1]
    by_cases h2 : r < 0x800
    · rw [if_pos h2]; exact ⟨_, _, rfl, ⟨by omega, by omega⟩, by omega⟩
    · rw [if_neg h2]
      split
      · exact ⟨_, _, rfl, ⟨by omega, by omega⟩, by omega⟩
      · split
        · exact ⟨_, _, rfl, ⟨by omega, by omega⟩, by omega⟩
        · exact ⟨_, _, rfl, ⟨by omega, by omega⟩, by omega⟩

/-- `ESC c …` with `c` any byte other than `[`: detectOneMsg is the key-table lookup
followed by the tail, unless the buffer is a proper prefix of a key and more data may follow -/
theorem detectOneMsg_esc_plain (T : Table) (lens : List Nat) {c : Nat} (hc5 : c ≠ 0x5b)
    (tl : Bytes) (more : Bool) (hmore : more = false ∨ isProperPrefixOfKey T (0x1b :: c :: tl) = false) :
    detectOneMsg T lens (0x1b :: c :: tl) more =
      match lookupLens T (0x1b :: c :: tl) lens with
      | some (sz, k) => .ok (sz, some (.key k))
      | none => detectTail (0x1b :: c :: tl) more := by
  have hc5' : ¬ (0x5b = c) := fun h => hc5 h.symm
  have hni : NoIntroducer (0x1b :: c :: tl) = true := by
    simp [NoIntroducer, isPrefix, bpStart, hc5, hc5']
  have hinc : more = false ∨ isIncompleteEvent T (0x1b :: c :: tl) = false := by
    rcases hmore with h | h
    · exact Or.inl h
    · right
      unfold isIncompleteEvent
      simp only [bne_self_eq_false, Bool.false_eq_true, if_false, h]
      split
      · rename_i heq; injection heq with h1 _; exact absurd h1 hc5
      · rfl
  rw [detectOneMsg_of_noIntro T lens _ more hinc hni]
  have hcsi : unknownCSILen (0x1b :: c :: tl) = none := by
    unfold unknownCSILen
    split
    · rename_i heq; injection heq with _ h1; injection h1 with h1 _; exact absurd h1 hc5
    · rfl
  unfold detectSequence
  rw [hcsi]
  cases lookupLens T (0x1b :: c :: tl) lens with
  | none => rfl
  | some p => rfl

/-- the tail of detectOneMsg on `ESC` + one printable character + `rest`: alt + the character,
consuming exactly these bytes, unless nothing follows and more data may come (then the whole
is held back: the rune loop reached the end of the buffer) -/
theorem detectTail_altRune (r : Nat) (hp : printable r = true) (rest : Bytes) (more : Bool) :
    detectTail (0x1b :: encodeRune r ++ rest) more =
      if rest = [] ∧ more = true then .ok (0, none)
      else .ok ((0x1b :: encodeRune r).length, some (.key { type := keyRunes, runes := [r], alt := true })) := by
  obtain ⟨hv, h32, h127, hne⟩ := printable_iff.1 hp
  obtain ⟨c, tl, hc, hplain⟩ := encodeRune_head hp
  have h0 : (c == 0) = false := by unfold plainByte at hplain; simp; omega
  have hlen : 0 < (encodeRune r).length := by rw [hc]; simp
  unfold detectTail
  have hidx : idx (0x1b :: encodeRune r ++ rest) 0 = .ok 0x1b := by simp [idx]
  rw [hidx]
  simp only [beq_self_eq_true, if_true]
  have hget : (0x1b :: encodeRune r ++ rest).getD 1 1 = c := by rw [hc]; rfl
  rw [hget, h0]
  simp only [Bool.and_false, Bool.false_eq_true, if_false]
  have hloop : runeLoop true more ((0x1b :: encodeRune r ++ rest).length + 1) (0x1b :: encodeRune r ++ rest) 1 []
      = (1 + (encodeRune r).length, [r], false) := by
    simp only [runeLoop]
    have hi : 1 < (0x1b :: encodeRune r ++ rest).length := by
      simp only [List.cons_append, List.length_cons, List.length_append]; omega
    rw [if_pos hi]
    have hd : (0x1b :: encodeRune r ++ rest).drop 1 = encodeRune r ++ rest := rfl
    rw [hd, decodeRune_encodeRune r hv rest]
    simp only
    have c1 : (r == runeError) = false := by simpa using hne
    have c2 : (decide (r ≤ keyUS) || r == keyDEL || r == 32) = false := by
      simp only [keyUS, keyDEL, Bool.or_eq_false_iff, beq_eq_false_iff_ne, ne_eq]
      refine ⟨⟨?_, h127⟩, ?_⟩
      · have : ¬ r ≤ 31 := by omega
        simp [this]
      · omega
    rw [c1]
    simp only [Bool.false_and, Bool.false_or, Bool.false_eq_true, if_false]
    rw [c2]
    simp
  rw [hloop]
  simp only [Bool.false_eq_true, if_false]
  have h2 : ([r] == [32]) = false := by simp; omega
  have hblen : (0x1b :: encodeRune r ++ rest).length = 1 + (encodeRune r).length + rest.length := by
    simp only [List.cons_append, List.length_cons, List.length_append]; omega
  by_cases hr : rest = []
  · subst hr
    cases more with
    | true => simp; omega
    | false => simp [h2]; omega
  · have hrl : 0 < rest.length := List.length_pos_iff.2 hr
    have : (decide (1 + (encodeRune r).length ≥ (0x1b :: encodeRune r ++ rest).length) && more) = false := by
      rw [hblen]; simp; omega
    rw [this]
    simp [hr, h2]; omega

theorem altRune_noKey {T : Table} {r : Nat} (hinc : incomparableB T (0x1b :: encodeRune r) = true)
    (rest : Bytes) : NoKeyPrefix T (0x1b :: encodeRune r ++ rest) :=
  noKeyPrefix_of_incomp hinc rest

/-- `ESC` + one printable character (not `[`; no key of the table comparable with these bytes)
followed by `rest`: alt + the character, consuming exactly these bytes — when something follows,
or in a short read -/
theorem altRune_detect {T : Table} (lens : List Nat) (r : Nat) (hp : printable r = true) (h5 : r ≠ 0x5b)
    (hinc : incomparableB T (0x1b :: encodeRune r) = true) (rest : Bytes) (more : Bool)
    (hm : rest ≠ [] ∨ more = false) :
    detectOneMsg T lens (0x1b :: encodeRune r ++ rest) more
      = .ok ((0x1b :: encodeRune r).length, some (.key { type := keyRunes, runes := [r], alt := true })) := by
  obtain ⟨c, tl, hc, hplain, hc5⟩ := encodeRune_head_alt hp h5
  have hb : 0x1b :: encodeRune r ++ rest = 0x1b :: c :: (tl ++ rest) := by rw [hc]; rfl
  have hnpp := npp_of_incomp hinc rest
  rw [hb] at hnpp
  have := detectOneMsg_esc_plain T lens hc5 (tl ++ rest) more (Or.inr hnpp)
  rw [← hb] at this
  rw [this, lookupLens_eq_none_of_noKey (altRune_noKey hinc rest), detectTail_altRune r hp rest more]
  rw [if_neg]
  intro h
  rcases hm with h' | h'
  · exact h' h.1
  · rw [h'] at h; cases h.2

/-- `ESC` + one printable character alone at the very end of a completely filled read: held
back whole (the rune loop reached the end of the buffer, more data may follow) -/
theorem altRune_end_held {T : Table} (lens : List Nat) (r : Nat) (hp : printable r = true) (h5 : r ≠ 0x5b)
    (hinc : incomparableB T (0x1b :: encodeRune r) = true) :
    detectOneMsg T lens (0x1b :: encodeRune r) true = .ok (0, none) := by
  obtain ⟨c, tl, hc, hplain, hc5⟩ := encodeRune_head_alt hp h5
  have hnpp := npp_of_incomp hinc []
  have hnk := altRune_noKey hinc []
  have htail := detectTail_altRune r hp [] true
  rw [List.append_nil] at hnpp hnk htail
  have hb : 0x1b :: encodeRune r = 0x1b :: c :: tl := by rw [hc]
  rw [hb] at hnpp
  have := detectOneMsg_esc_plain T lens hc5 tl true (Or.inr hnpp)
  rw [← hb] at this
  rw [this, lookupLens_eq_none_of_noKey hnk, htail]
  simp

/-- a proper non-empty prefix of `ESC utf8(r)` alone at the end of a completely filled read is
held back: `ESC` alone is an incomplete event (some longer key starts with ESC); `ESC` + a
truncated multi-byte character is stopped by the `FullRune` test of the rune loop -/
theorem altRune_cut_held {T : Table} (lens : List Nat) (hesc : isProperPrefixOfKey T [0x1b] = true)
    (r : Nat) (hp : printable r = true) (h5 : r ≠ 0x5b)
    (hinc : incomparableB T (0x1b :: encodeRune r) = true)
    (k : Nat) (hk : 0 < k) (hk' : k < (0x1b :: encodeRune r).length) :
    detectOneMsg T lens ((0x1b :: encodeRune r).take k) true = .ok (0, none) := by
  by_cases h1 : k = 1
  · subst h1
    exact isIncomplete_held T lens _ (isIncompleteEvent_esc T hesc)
  · obtain ⟨j, rfl⟩ : ∃ j, k = j + 1 := ⟨k - 1, by omega⟩
    have hj : 0 < j := by omega
    have hj' : j < (encodeRune r).length := by simpa using hk'
    simp only [List.take_succ_cons]
    by_cases hie : isIncompleteEvent T (0x1b :: (encodeRune r).take j) = true
    · exact isIncomplete_held T lens _ hie
    · obtain ⟨c, tl, hc, hplain, hc5⟩ := encodeRune_head_alt hp h5
      obtain ⟨j', rfl⟩ : ∃ j', j = j' + 1 := ⟨j - 1, by omega⟩
      have hb : 0x1b :: (encodeRune r).take (j' + 1) = 0x1b :: c :: tl.take j' := by rw [hc]; rfl
      -- the buffer is not a proper prefix of a key (or it would be an incomplete event)
      have hnpp : isProperPrefixOfKey T (0x1b :: c :: tl.take j') = false := by
        cases hq : isProperPrefixOfKey T (0x1b :: c :: tl.take j') with
        | false => rfl
        | true =>
          exfalso; apply hie
          rw [hb]
          unfold isIncompleteEvent
          simp [hq]
      -- no key is a prefix of it
      have hnk : NoKeyPrefix T (0x1b :: (encodeRune r).take (j' + 1)) := by
        intro e he hpre
        have h := altRune_noKey hinc [] e he
        rw [List.append_nil] at h
        exact h (hpre.trans (List.cons_prefix_cons.2 ⟨rfl, List.take_prefix _ _⟩))
      have := detectOneMsg_esc_plain T lens hc5 (tl.take j') true (Or.inr hnpp)
      rw [← hb] at this
      rw [this, lookupLens_eq_none_of_noKey hnk]
      -- the tail: the rune loop stops at the truncated character
      obtain ⟨t1, t2⟩ := trunc_encodeRune r (printable_iff.1 hp).1 (j' + 1) hj hj'
      have h0 : (c == 0) = false := by unfold plainByte at hplain; simp; omega
      unfold detectTail
      have hidx : idx (0x1b :: (encodeRune r).take (j' + 1)) 0 = .ok 0x1b := by simp [idx]
      rw [hidx]
      simp only [beq_self_eq_true, if_true]
      have hget : (0x1b :: (encodeRune r).take (j' + 1)).getD 1 1 = c := by rw [hb]; rfl
      rw [hget, h0]
      simp only [Bool.and_false, Bool.false_eq_true, if_false]
      have hloop : (runeLoop true true ((0x1b :: (encodeRune r).take (j' + 1)).length + 1)
          (0x1b :: (encodeRune r).take (j' + 1)) 1 []).2.2 = true := by
        simp only [runeLoop]
        have hi : 1 < (0x1b :: (encodeRune r).take (j' + 1)).length := by
          rw [hb]; simp
        rw [if_pos hi]
        have hd : (0x1b :: (encodeRune r).take (j' + 1)).drop 1 = (encodeRune r).take (j' + 1) := rfl
        rw [hd]
        generalize hdr : decodeRune ((encodeRune r).take (j' + 1)) = dr at t1
        obtain ⟨r', rw'⟩ := dr
        simp only at t1 ⊢
        subst t1
        rw [t2]
        simp
      rw [hloop]
      simp

/-! ### the event grammar -/

/-- a control byte, space or DEL: what closes a run of printable characters -/
def ctrlByte (c : Nat) : Prop := c ≤ 32 ∨ c = 127

theorem run_ok_spec {T : Table} {rs : List Nat} (h : (Ev.run rs).ok T = true) :
    rs ≠ [] ∧ ∀ r ∈ rs, printable r = true := by
  simp only [Ev.ok, Bool.and_eq_true, Bool.not_eq_true', List.isEmpty_eq_false_iff, List.all_eq_true] at h
  exact ⟨h.1, fun r hr => h.2 r hr⟩

theorem key_ok_spec {T : Table} {e : Entry} (h : (Ev.key e).ok T = true) :
    e ∈ T ∧ (e.seq.length = 1 ∨ e.seq.head? = some 0x1b) ∧ isProperPrefixOfKey T e.seq = false ∧
      isIncompleteEvent T e.seq = false := by
  simp only [Ev.ok, keyStableB, Bool.and_eq_true, Bool.not_eq_true', decide_eq_true_eq, Bool.or_eq_true,
    beq_iff_eq] at h
  exact ⟨h.1, h.2.1.1, h.2.1.2, h.2.2⟩

theorem key_seq_ne_nil {e : Entry} (h : e.seq.length = 1 ∨ e.seq.head? = some 0x1b) : e.seq ≠ [] := by
  intro he
  rw [he] at h
  simp at h

theorem csi_ok_spec {T : Table} {ps is : Bytes} {f : Nat} (h : (Ev.csi ps is f).ok T = true) :
    (∀ c ∈ ps, isParam c = true) ∧ (∀ c ∈ is, isInter c = true) ∧ isFinal f = true ∧
      csiPlain (csiBytes ps is f) = true ∧ incomparableB T (csiBytes ps is f) = true := by
  simp only [Ev.ok, Bool.and_eq_true, List.all_eq_true] at h
  exact ⟨h.1.1.1.1, h.1.1.1.2, h.1.1.2, h.1.2, h.2⟩

theorem altRune_ok_spec {T : Table} {r : Nat} (h : (Ev.altRune r).ok T = true) :
    printable r = true ∧ r ≠ 0x5b ∧ incomparableB T (0x1b :: encodeRune r) = true := by
  simp only [Ev.ok, Bool.and_eq_true, bne_iff_ne, ne_eq] at h
  exact ⟨h.1.1, h.1.2, h.2⟩

/-- alt + character: the one event class besides runs that, alone at the very end of a completely
filled read, is held back (the rune loop reached the end of the buffer) -/
def Ev.isAltRune : Ev → Bool
  | .altRune _ => true
  | _ => false

theorem paste_ok_spec {T : Table} {p : Bytes} (h : (Ev.paste p).ok T = true) : ¬ bpEnd <:+: p := by
  simp only [Ev.ok, Option.isNone_iff_eq_none] at h
  exact (indexOf_eq_none_iff bpEnd p).1 h

theorem ev_bytes_ne_nil {T : Table} (e : Ev) (h : e.ok T = true) : e.bytes ≠ [] := by
  cases e with
  | run rs =>
    obtain ⟨hne, hp⟩ := run_ok_spec h
    obtain ⟨c, tl, hc, _⟩ := encodeRunes_head hp hne
    simp [Ev.bytes, hc]
  | key e => exact key_seq_ne_nil (key_ok_spec h).2.1
  | sgr b x y fin => exact sgrReport_ne_nil b x y fin
  | x10 cb cx cy => simp [Ev.bytes, Xterm.x10Report]
  | paste p => simp [Ev.bytes, bpStart]
  | csi ps is f => simp [Ev.bytes, csiBytes]
  | nul => simp [Ev.bytes]
  | altRune r => simp [Ev.bytes]

/-- every event other than a run starts with a control byte, space or DEL -/
theorem ev_head {T : Table} (hT : WFTable T) (e : Ev) (h : e.ok T = true) (hr : e.isRun = false) :
    ∃ c tl, e.bytes = c :: tl ∧ ctrlByte c := by
  cases e with
  | run rs => simp [Ev.isRun] at hr
  | key e =>
    obtain ⟨c, tl, hs, hc⟩ := hT e (key_ok_spec h).1
    exact ⟨c, tl, hs, hc⟩
  | sgr b x y fin => exact ⟨0x1b, _, sgrReport_csi b x y fin, Or.inl (by omega)⟩
  | x10 cb cx cy => exact ⟨0x1b, _, rfl, Or.inl (by omega)⟩
  | paste p => exact ⟨0x1b, _, paste_event_cons p, Or.inl (by omega)⟩
  | csi ps is f => exact ⟨0x1b, _, rfl, Or.inl (by omega)⟩
  | nul => exact ⟨0, [], rfl, Or.inl (by omega)⟩
  | altRune r => exact ⟨0x1b, _, rfl, Or.inl (by omega)⟩

/-- an event followed by `r` decodes to its message and consumes exactly its bytes, whatever
`more` is; for a run, `r` must start with a byte that closes it (or be empty, in a short read);
for alt + character, `r` must be non-empty or the read short (alone at the end of a completely
filled read it is held back, `ev_end`) -/
theorem ev_detect {T : Table} {lens : List Nat} (hT : TableOK T lens) (e : Ev) (h : e.ok T = true)
    (r : Bytes) (more : Bool)
    (hr : e.isRun = true → (∃ c tl, r = c :: tl ∧ ctrlByte c) ∨ (r = [] ∧ more = false))
    (ha : e.isAltRune = true → r ≠ [] ∨ more = false) :
    detectOneMsg T lens (e.bytes ++ r) more = .ok (e.bytes.length, some e.msg) := by
  cases e with
  | run rs =>
    obtain ⟨hne, hp⟩ := run_ok_spec h
    rcases hr rfl with ⟨c, tl, hrc, hc⟩ | ⟨hr0, hm⟩
    · subst hrc
      exact detectOneMsg_run_stop T lens hT.lensPos (controlKeyed_of_wf hT.wf) more rs hp hne c hc tl
    · subst hr0; subst hm
      simp only [Ev.bytes, List.append_nil]
      exact detectOneMsg_run T lens hT.lensPos (controlKeyed_of_wf hT.wf) rs hp hne
  | key e =>
    obtain ⟨he, hshape, hpp, hinc⟩ := key_ok_spec h
    exact key_detect hT e he (key_seq_ne_nil hshape) hpp hinc r more
  | sgr b x y fin =>
    have hfin : fin = 77 ∨ fin = 109 := by simpa [Ev.ok] using h
    exact sgr_detect lens hT.introFree b x y fin hfin r more
  | x10 cb cx cy =>
    have hcb : 32 ≤ cb := by simpa [Ev.ok] using h
    exact x10_detect lens hT.introFree cb cx cy hcb r more
  | paste p => exact paste_detect lens hT.introFree p (paste_ok_spec h) r more
  | csi ps is f =>
    obtain ⟨hp, hi, hf, hplain, hinc⟩ := csi_ok_spec h
    exact csi_detect hT ps is f hp hi hf hplain hinc r more
  | nul => exact nul_detect lens (by simpa [Ev.ok] using h) r more
  | altRune c =>
    obtain ⟨hp, h5, hinc⟩ := altRune_ok_spec h
    exact altRune_detect lens c hp h5 hinc r more (ha rfl)

/-- a proper non-empty prefix of an event, alone at the end of a completely filled read, is
held back -/
theorem ev_cut_held {T : Table} {lens : List Nat} (hT : TableOK T lens) (e : Ev) (h : e.ok T = true)
    (k : Nat) (hk : 0 < k) (hk' : k < e.bytes.length) :
    detectOneMsg T lens (e.bytes.take k) true = .ok (0, none) := by
  cases e with
  | run rs =>
    obtain ⟨hne, hp⟩ := run_ok_spec h
    apply detectOneMsg_run_prefix T lens hT.lensPos (controlKeyed_of_wf hT.wf) rs hp k
    intro he
    have := congrArg List.length he
    simp only [Ev.bytes] at hk'
    rw [List.length_take_of_le (by omega)] at this
    simp at this; omega
  | key e =>
    obtain ⟨he, hshape, _, _⟩ := key_ok_spec h
    exact key_cut_held T lens e he hshape k hk hk'
  | sgr b x y fin => exact sgr_cut_held lens hT.esc b x y fin k hk hk'
  | x10 cb cx cy => exact x10_cut_held lens hT.esc cb cx cy k hk hk'
  | paste p => exact paste_cut_held T lens hT.esc p (paste_ok_spec h) k hk hk'
  | csi ps is f =>
    obtain ⟨hp, hi, _, _, _⟩ := csi_ok_spec h
    exact csi_cut_held lens hT.esc ps is f hp hi k hk hk'
  | nul => simp [Ev.bytes] at hk'; omega
  | altRune r =>
    obtain ⟨hp, h5, hinc⟩ := altRune_ok_spec h
    exact altRune_cut_held lens hT.esc r hp h5 hinc k hk hk'

/-- an event alone at the very end of a completely filled read: decoded, or (a run, or alt +
character) held back -/
theorem ev_end {T : Table} {lens : List Nat} (hT : TableOK T lens) (e : Ev) (h : e.ok T = true) :
    detectOneMsg T lens e.bytes true = .ok (e.bytes.length, some e.msg) ∨
    detectOneMsg T lens e.bytes true = .ok (0, none) := by
  by_cases hr : e.isRun = true
  · right
    cases e with
    | run rs =>
      obtain ⟨hne, hp⟩ := run_ok_spec h
      have hb := ev_bytes_ne_nil _ h
      have := detectOneMsg_run_prefix T lens hT.lensPos (controlKeyed_of_wf hT.wf) rs hp
        (encodeRunes rs).length (by rw [List.take_length]; exact hb)
      rw [List.take_length] at this
      exact this
    | _ => simp [Ev.isRun] at hr
  · by_cases ha : e.isAltRune = true
    · right
      cases e with
      | altRune r =>
        obtain ⟨hp, h5, hinc⟩ := altRune_ok_spec h
        exact altRune_end_held lens r hp h5 hinc
      | _ => simp [Ev.isAltRune] at ha
    · left
      have := ev_detect hT e h [] true (fun h' => absurd h' hr) (fun h' => absurd h' ha)
      rw [List.append_nil] at this
      exact this

theorem streamBytes_evStream_cons (e : Ev) (tl : List Ev) :
    streamBytes (evStream (e :: tl)) = e.bytes ++ streamBytes (evStream tl) := by
  simp [streamBytes, evStream]

/-- a well-formed stream of events satisfies `StreamOK` and `CutStable` -/
theorem evStream_ok {T : Table} {lens : List Nat} (hT : TableOK T lens) :
    ∀ (evs : List Ev), WellFormed T evs = true →
      StreamOK T lens (evStream evs) ∧ CutStable T lens (evStream evs) := by
  intro evs
  induction evs with
  | nil => intro _; exact ⟨trivial, trivial⟩
  | cons e tl ih =>
    intro hwf
    simp only [WellFormed, Bool.and_eq_true] at hwf
    obtain ⟨⟨hok, hadj⟩, hwtl⟩ := hwf
    obtain ⟨ih1, ih2⟩ := ih hwtl
    -- what follows a run closes it
    have hrest : e.isRun = true →
        streamBytes (evStream tl) = [] ∨ ∃ c tl', streamBytes (evStream tl) = c :: tl' ∧ ctrlByte c := by
      intro hrun
      cases tl with
      | nil => left; rfl
      | cons e' tl'' =>
        right
        have hr' : e'.isRun = false := by
          simp only [hrun, Bool.true_and, Bool.not_eq_true'] at hadj
          exact hadj
        have hok' : e'.ok T = true := by
          simp only [WellFormed, Bool.and_eq_true] at hwtl
          exact hwtl.1.1
        obtain ⟨c, t, hb, hc⟩ := ev_head hT.wf e' hok' hr'
        exact ⟨c, t ++ streamBytes (evStream tl''), by rw [streamBytes_evStream_cons, hb]; rfl, hc⟩
    refine ⟨⟨ev_bytes_ne_nil e hok, ?_, ih1⟩, ⟨?_, ?_, ev_end hT e hok, ih2⟩⟩
    · show detectOneMsg T lens (e.bytes ++ streamBytes (evStream tl)) false = _
      apply ev_detect hT e hok _ _ _ (fun _ => Or.inr rfl)
      intro hrun
      rcases hrest hrun with h | h
      · exact Or.inr ⟨h, rfl⟩
      · exact Or.inl h
    · intro k hk hk'
      exact ev_cut_held hT e hok k hk hk'
    · intro r hr hpre
      change r <+: streamBytes (evStream tl) at hpre
      apply ev_detect hT e hok _ _ _ (fun _ => Or.inl hr)
      intro hrun
      left
      rcases hrest hrun with h | ⟨c, tl', h, hc⟩
      · rw [h] at hpre
        exact absurd (List.prefix_nil.1 hpre) hr
      · rw [h] at hpre
        cases r with
        | nil => exact absurd rfl hr
        | cons c' r' =>
          have := (List.cons_prefix_cons.1 hpre).1
          subst this
          exact ⟨c', r', rfl, hc⟩

end Tea.Input
