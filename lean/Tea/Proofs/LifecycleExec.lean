import Tea.Proofs.LifecycleStartup
import Tea.Proofs.LifecycleApi
/-
Helper lemmas about Exec in the Lifecycle LTS (ReleaseTerminal, the command, RestoreTerminal on the
event-loop goroutine) for C04, C17 and C18: the ignore-signals flag as a function of the state, the
fault-free Exec round trip, strikes at any point of an Exec, the callers an Exec appends.
-/
namespace Tea.Runtime.Life

/-! ### the ignore-signals flag -/

/-- the option WithoutSignals is fixed by the configuration: no step writes it -/
theorem inv_withoutSignals {c : Config} {s : St} (hr : Reachable c s) :
    s.withoutSignals = c.ignoreSignals := by
  refine reachable_induct (fun s => s.withoutSignals = c.ignoreSignals) rfl ?_ hr
  intro s s' l _ ih hs
  step_cases hs l
  all_goals exact ih

/-- THE FLAG, EXACTLY.  In every reachable state signals are ignored iff the program was configured
to ignore them (WithoutSignals), or the terminal is released (the loop is inside an Exec, after
`exRelCancel` and before `exResReader`), or a release was never followed by a restore
(`releaseStuck`: the release failed, or the command panicked) -/
theorem inv_sig {c : Config} {s : St} (hr : Reachable c s) :
    s.ignoreSignals = (c.ignoreSignals || s.el.released || s.releaseStuck) := by
  have key : s.withoutSignals = c.ignoreSignals ∧
      s.ignoreSignals = (c.ignoreSignals || s.el.released || s.releaseStuck) := by
    refine reachable_induct (fun s => s.withoutSignals = c.ignoreSignals ∧
      s.ignoreSignals = (c.ignoreSignals || s.el.released || s.releaseStuck)) ?_ ?_ hr
    · simp [init0, ElPc.released]
    · intro s s' l _ ih hs
      step_cases hs l
      all_goals first
        | exact ih
        | (simp_all [ElPc.released]; done)
  exact key.2

/-! ### the record of the repaired defect: RestoreTerminal before the repair -/

/-- the step function BEFORE the repair of RestoreTerminal: `exResReader` and `execRestoreFails`
cleared `ignoreSignals` unconditionally (`atomic.StoreUint32(&p.ignoreSignals, 0)`), whatever the
program was configured with; every other step is the step of the model -/
def stepOld (s : St) (l : Label) : Option St :=
  match l with
  | .exResReader | .execRestoreFails => (step s l).map (fun s' => { s' with ignoreSignals := false })
  | _ => step s l

def runLabelsOld (s : St) : List Label → Option St
  | [] => some s
  | l :: ls => match stepOld s l with
    | some s' => runLabelsOld s' ls
    | none => none

/-- for a program that was not configured to ignore signals the repair changes nothing: the old
step is the step -/
theorem stepOld_eq_step {s : St} (h : s.withoutSignals = false) (l : Label) : stepOld s l = step s l := by
  cases l <;> try rfl
  · -- execRestoreFails
    simp only [stepOld, step]
    split <;> simp [h]
  · -- exResReader
    simp only [stepOld, step]
    split
    · split <;> simp [h]
    · rfl

theorem noexec_set {ss : List Caller} {i : Nat} {c x : Caller}
    (h1 : ∀ cl ∈ ss, cl.kind ≠ .exec) (hi : ss[i]? = some c) (hx : x.kind = c.kind) :
    ∀ cl ∈ ss.set i x, cl.kind ≠ .exec := by
  intro cl hcl
  rcases List.mem_or_eq_of_mem_set hcl with h | h
  · exact h1 cl h
  · rw [h, hx]; exact h1 c (List.mem_of_getElem? hi)

/-- where `releaseStuck` comes from: only the failure of a release and the panic of the command set it -/
theorem releaseStuck_origin {s s' : St} {l : Label} (hs : step s l = some s')
    (h : s'.releaseStuck = true) :
    s.releaseStuck = true ∨ l = .execReleaseFails ∨ l = .execCmdPanics := by
  step_cases hs l
  all_goals first
    | exact Or.inl h
    | exact Or.inr (Or.inl rfl)
    | exact Or.inr (Or.inr rfl)
    | exact Bool.noConfusion h
    | (simp; done)
    | (cases h; done)

/-- RestoreTerminal's first step puts the flag back to what the program was configured with -/
theorem exResReader_signals {s s' : St} (hs : step s .exResReader = some s') :
    s'.ignoreSignals = s.withoutSignals ∧ s'.sig = s.sig ∧ s'.releaseStuck = false := by
  simp only [step] at hs
  split at hs
  · split at hs <;> (cases hs; exact ⟨rfl, rfl, rfl⟩)
  · cases hs

/-- a program without an Exec message never enters an Exec: the flag keeps its configured value -/
theorem inv_noexec {c : Config} (hc : SendKind.exec ∉ c.senders) {s : St} (hr : Reachable c s) :
    (∀ cl ∈ s.senders, cl.kind ≠ .exec) ∧ s.el.inExec = false ∧ s.releaseStuck = false := by
  refine reachable_induct (fun s => (∀ cl ∈ s.senders, cl.kind ≠ .exec) ∧ s.el.inExec = false ∧
    s.releaseStuck = false) ?_ ?_ hr
  · refine ⟨?_, rfl, rfl⟩
    intro cl hcl hk
    simp only [init0, List.mem_map] at hcl
    obtain ⟨k, hk1, hk2⟩ := hcl
    subst hk2
    exact hc (hk ▸ hk1)
  · intro s s' l _ ih hs
    obtain ⟨h1, h2, h4⟩ := ih
    step_cases hs l
    all_goals first
      | exact ⟨h1, h2, h4⟩
      | (simp_all [ElPc.inExec]; done)
      | exact ⟨noexec_set h1 (by assumption) (by rfl), h2, h4⟩
      | exact ⟨noexec_set h1 (by assumption) (by rfl), rfl, h4⟩
      | (exfalso; exact h1 _ (List.mem_of_getElem? (by assumption)) (by assumption))

/-- in a program configured to ignore signals the handler goroutine never holds a signal to forward -
before, during and after any number of Execs -/
theorem inv_ignored_not_sending {c : Config} (hc : c.ignoreSignals = true) {s : St}
    (hr : Reachable c s) : ∀ b, s.sig ≠ .sending b := by
  refine reachable_induct (fun s => ∀ b, s.sig ≠ .sending b) ?_ ?_ hr
  · intro b; simp [init0]
  · intro s s' l hrs ih hs
    have hig : s.ignoreSignals = true := by rw [inv_sig hrs, hc]; rfl
    step_cases hs l
    all_goals first
      | exact ih
      | (simp_all; done)
      | (intro b; split <;> simp_all)

/-- labels that are disabled in every reachable state occur in no run from a reachable state -/
theorem run_avoids {c : Config} (P : Label → Prop)
    (h : ∀ s, Reachable c s → ∀ l, P l → step s l = none) :
    ∀ (ls : List Label) {s s' : St}, Reachable c s → runLabels s ls = some s' → ∀ l ∈ ls, ¬ P l := by
  intro ls
  induction ls with
  | nil => intro s s' _ _ l hl; cases hl
  | cons a ls ih =>
    intro s s' hr hrun l hl hp
    simp only [runLabels] at hrun
    split at hrun
    · rename_i s1 h1
      rcases List.mem_cons.1 hl with e | e
      · subst e
        rw [h s hr l hp] at h1
        cases h1
      · exact ih (Reachable.step a hr h1) hrun l e hp
    · cases hrun

/-- without an input there is never a read loop -/
theorem inv_noinput {c : Config} {s : St} (hr : Reachable c s) :
    s.withInput = false → s.reader = .absent := by
  refine reachable_induct (fun s => s.withInput = false → s.reader = .absent) (by simp [init0]) ?_ hr
  intro s s' l _ ih hs
  step_cases hs l
  all_goals first
    | exact ih
    | (simp_all; done)

/-! ### the callers of Send: what the loop has received stays received -/

theorem getElem?_set_append_ne {α : Type} {ss : List α} {e j : Nat} {x a : α} (t : List α)
    (hj : ss[j]? = some a) (hne : j ≠ e) : (ss.set e x ++ t)[j]? = some a := by
  have hlt : j < ss.length := by
    apply Classical.byContradiction
    intro hn
    rw [List.getElem?_eq_none (by omega)] at hj
    cases hj
  rw [List.getElem?_append_left (by simpa using hlt), List.getElem?_set_ne (Ne.symm hne), hj]

theorem getElem?_append_of_some {α : Type} {ss : List α} {j : Nat} {a : α} (t : List α)
    (hj : ss[j]? = some a) : (ss ++ t)[j]? = some a := by
  have hlt : j < ss.length := by
    apply Classical.byContradiction
    intro hn
    rw [List.getElem?_eq_none (by omega)] at hj
    cases hj
  rw [List.getElem?_append_left hlt, hj]

/-- a caller whose message the loop has received (or that has returned by itself) is never touched
again: no step changes its entry -/
theorem sender_returned_stable {s s' : St} {l : Label} {j : Nat} {cl : Caller}
    (hs : step s l = some s') (hj : s.senders[j]? = some cl) (hp : cl.pc = .returned) :
    s'.senders[j]? = some cl := by
  have key : ∀ (i : Nat) (c x : Caller), s.senders[i]? = some c → c.pc ≠ .returned →
      (s.senders.set i x)[j]? = some cl := by
    intro i c x hi hc
    have hne : i ≠ j := by
      intro h
      rw [h, hj] at hi
      cases hi
      exact hc hp
    rw [List.getElem?_set_ne hne, hj]
  step_cases hs l
  all_goals first
    | exact hj
    | exact getElem?_append_of_some _ hj
    | exact key _ _ _ (by assumption) (by simp_all)

theorem sender_returned_runLabels : ∀ (ls : List Label) {s s' : St} {j : Nat} {cl : Caller},
    runLabels s ls = some s' → s.senders[j]? = some cl → cl.pc = .returned →
    s'.senders[j]? = some cl := by
  intro ls
  induction ls with
  | nil => intro s s' j cl h hj _; simp only [runLabels] at h; cases h; exact hj
  | cons l ls ih =>
    intro s s' j cl h hj hp
    simp only [runLabels] at h
    split at h
    · rename_i s1 h1
      exact ih h (sender_returned_stable h1 hj hp) hp
    · cases h

/-- the loop receives a caller's message only while that caller is blocked in Send, and afterwards the
caller has returned -/
theorem elRecvSender_once {s s' : St} {j : Nat} (hs : step s (.elRecvSender j) = some s') :
    ∃ cl, s.senders[j]? = some cl ∧ cl.pc = .blocked ∧ s'.senders[j]? = some { cl with pc := .returned } := by
  simp only [step] at hs
  split at hs
  · rename_i cl hcl
    split at hs
    · rename_i hg
      cases hs
      exact ⟨cl, hcl, hg.2, getElem?_set_self_of hcl⟩
    · cases hs
  · cases hs

theorem elRecvSender_returned_none {s : St} {j : Nat} {cl : Caller} (hj : s.senders[j]? = some cl)
    (hp : cl.pc = .returned) : step s (.elRecvSender j) = none := by
  simp [step, hj, hp]

/-! ### the fault-free Exec -/

/-- when the read loop has exited, the wait of ReleaseTerminal ends the same way by either label -/
theorem waitRead_eq_timeout {s s' : St} (h : step s .exRelWaitRead = some s') :
    step s .exRelWaitTimeout = some s' := by
  simp only [step] at h ⊢
  split at h
  · rename_i hg
    rw [if_pos hg.1]; exact h
  · cases h

/-- ReleaseTerminal, fault-free, from a loop at its `select` with the renderer listening: the state
in which the command runs -/
theorem exec_release_run {s : St} {e : Nat} {cl : Caller} (hsel : s.el = .select)
    (he : s.senders[e]? = some cl) (hk : cl.kind = .exec) (hb : cl.pc = .blocked)
    (hli : s.listen = .idle) (hm : s.rendererMade = true) :
    runLabels s [.elRecvSender e, .exRelCancel, .exRelWaitTimeout, .exRelRenderer, .exRelRestore] =
      some { s with
        senders := s.senders.set e { cl with pc := .returned }, ignoreSignals := true,
        readerCancelRequested :=
          if s.reader ≠ .absent ∧ s.cancelable = true then true else s.readerCancelRequested,
        listen := .stopped, restores := s.restores + 1, modesDirty := false, el := .execCmd } := by
  simp [runLabels, step, hsel, he, hk, hb, hli, hm]

/-- the command returns and RestoreTerminal, fault-free, from the state in which the command runs
with the renderer stopped: the state in which Update receives the execMsg -/
theorem exec_restore_run {s : St} (hel : s.el = .execCmd) (hl : s.listen = .stopped) :
    runLabels s [.execCmdReturns, .exResReader, .exResRenderer, .exResSpawn] =
      some { s with
        ignoreSignals := s.withoutSignals, releaseStuck := false,
        leakedReaders := if s.withInput = true then
            (if s.reader = .absent ∨ s.reader = .exited then s.leakedReaders else s.leakedReaders + 1)
          else s.leakedReaders,
        reader := if s.withInput = true then .reading else s.reader,
        readerCancelRequested := if s.withInput = true then false else s.readerCancelRequested,
        listen := .idle, modesDirty := true,
        senders := s.senders ++ [{ kind := .user, pc := .blocked }, { kind := .user, pc := .blocked }],
        el := .callback } := by
  cases hw : s.withInput <;> simp [runLabels, step, hel, hl, hw]

/-- the two callers an Exec appends: goroutines already blocked in Send (the repaint / size message,
the callback's message) -/
def execCallers : List Caller := [{ kind := .user, pc := .blocked }, { kind := .user, pc := .blocked }]

/-- what holds while the command of an Exec runs (`sm`), relative to the state `s` before the Exec -/
structure DuringExec (s sm : St) : Prop where
  el : sm.el = .execCmd
  listen : sm.listen = .stopped
  noTick : step sm .tick = none
  modes : sm.modesDirty = false
  restores : sm.restores = s.restores + 1
  signals : sm.ignoreSignals = true ∧ ∀ b, step sm (.signal b) = none
  cancel : s.reader ≠ .absent → s.cancelable = true → sm.readerCancelRequested = true

/-- what holds when Update receives the execMsg (`sf`), relative to the state `s` before the Exec of
the message of sender `e` -/
structure AfterExec (s sf : St) (e : Nat) (cl : Caller) : Prop where
  el : sf.el = .callback
  reader : sf.reader = .reading ↔ s.withInput = true
  listen : sf.listen = .idle
  signals : sf.ignoreSignals = s.withoutSignals ∧ sf.releaseStuck = false ∧ sf.withoutSignals = s.withoutSignals
  modes : sf.modesDirty = true
  senders : sf.senders = s.senders.set e { cl with pc := .returned } ++ execCallers
  restores : sf.restores = s.restores + 1
  same : sf.withInput = s.withInput ∧ sf.dispAlive = s.dispAlive ∧ sf.runPc = s.runPc ∧
    sf.ctxDone = s.ctxDone ∧ sf.killers = s.killers ∧ sf.rendererMade = s.rendererMade

/-- THE EXEC ROUND TRIP.  From a reachable state with the loop at its `select`, the renderer
listening and the Exec message of sender `e` waiting in Send, the fault-free Exec schedule is enabled
step by step; `sm` is the state in which the command runs, `sf` the state in which Update receives
the execMsg -/
theorem exec_roundtrip {c : Config} {s : St} (hr : Reachable c s) (hsel : s.el = .select)
    (hli : s.listen = .idle) {e : Nat} {cl : Caller} (he : s.senders[e]? = some cl)
    (hk : cl.kind = .exec) (hb : cl.pc = .blocked) :
    ∃ sm sf, runLabels s ((execSchedule e).take 5) = some sm ∧
      runLabels sm ((execSchedule e).drop 5) = some sf ∧ runLabels s (execSchedule e) = some sf ∧
      DuringExec s sm ∧ AfterExec s sf e cl := by
  have hm : s.rendererMade = true := inv_listen hr (by rw [hli]; decide)
  have rel := exec_release_run hsel he hk hb hli hm
  have res := exec_restore_run
    (s := { s with
        senders := s.senders.set e { cl with pc := .returned }, ignoreSignals := true,
        readerCancelRequested :=
          if s.reader ≠ .absent ∧ s.cancelable = true then true else s.readerCancelRequested,
        listen := .stopped, restores := s.restores + 1, modesDirty := false, el := .execCmd }) rfl rfl
  refine ⟨_, _, rel, res, ?_, ?_, ?_⟩
  · have : execSchedule e = (execSchedule e).take 5 ++ (execSchedule e).drop 5 := rfl
    rw [this, runLabels_append]
    show (runLabels s [.elRecvSender e, .exRelCancel, .exRelWaitTimeout, .exRelRenderer, .exRelRestore]).bind _ = _
    rw [rel]
    exact res
  · refine ⟨rfl, rfl, by simp [step], rfl, rfl, ⟨rfl, fun b => by simp [step]⟩, ?_⟩
    intro h1 h2
    simp [h1, h2]
  · refine ⟨rfl, ?_, rfl, ⟨rfl, rfl, rfl⟩, rfl, rfl, rfl, ⟨rfl, rfl, rfl, rfl, rfl, rfl⟩⟩
    cases hw : s.withInput with
    | true => simp
    | false => simp [inv_noinput hr hw]

/-! ### any number of consecutive Execs -/

/-- one Exec and the Update / View that follow it, back to the loop's `select` -/
def execRound (e : Nat) : List Label := execSchedule e ++ [.callbackReturns, .elCmdHandOver, .viewReturns]

/-- the loop is at its `select`, the renderer is listening, the command dispatcher is alive -/
structure ExecReady (s : St) : Prop where
  el : s.el = .select
  listen : s.listen = .idle
  disp : s.dispAlive = true

/-- what every Exec re-establishes -/
structure ExecDone (s : St) : Prop where
  signals : s.ignoreSignals = s.withoutSignals ∧ s.releaseStuck = false
  modes : s.modesDirty = true
  reader : s.reader = .reading ↔ s.withInput = true

theorem exec_round {c : Config} {s : St} (hr : Reachable c s) (hrd : ExecReady s) {e : Nat}
    {cl : Caller} (he : s.senders[e]? = some cl) (hk : cl.kind = .exec) (hb : cl.pc = .blocked) :
    ∃ sf, runLabels s (execRound e) = some sf ∧ ExecReady sf ∧ ExecDone sf ∧
      sf.senders = s.senders.set e { cl with pc := .returned } ++ execCallers ∧
      sf.restores = s.restores + 1 ∧ sf.withInput = s.withInput := by
  obtain ⟨sm, sf, _, _, hrun, _, ha⟩ := exec_roundtrip hr hrd.el hrd.listen he hk hb
  have hd : sf.dispAlive = true := by rw [ha.same.2.1, hrd.disp]
  have tail : runLabels sf [.callbackReturns, .elCmdHandOver, .viewReturns] = some { sf with el := .select } := by
    simp [runLabels, step, ha.el, hd]
  refine ⟨{ sf with el := .select }, ?_, ⟨rfl, ha.listen, hd⟩,
    ⟨⟨ha.signals.1.trans ha.signals.2.2.symm, ha.signals.2.1⟩, ha.modes, ?_⟩, ha.senders,
    ha.restores, ha.same.1⟩
  · unfold execRound
    rw [runLabels_append, hrun]
    exact tail
  · show sf.reader = .reading ↔ sf.withInput = true
    rw [ha.same.1]; exact ha.reader

/-- ANY NUMBER OF CONSECUTIVE EXECS.  For every list of distinct Exec messages waiting in Send, the
Execs can be run one after the other (each followed by its Update and View); after each the loop is
back at its `select` with the renderer listening, and what an Exec re-establishes holds -/
theorem exec_rounds {c : Config} : ∀ (es : List Nat) {s : St}, Reachable c s → ExecReady s →
    es.Nodup → (∀ e ∈ es, ∃ cl, s.senders[e]? = some cl ∧ cl.kind = .exec ∧ cl.pc = .blocked) →
    (es = [] → ExecDone s) →
    ∃ sf, runLabels s (es.flatMap execRound) = some sf ∧ ExecReady sf ∧ ExecDone sf ∧
      sf.senders.length = s.senders.length + 2 * es.length ∧ sf.restores = s.restores + es.length ∧
      (∀ e ∈ es, ∃ cl, sf.senders[e]? = some cl ∧ cl.kind = .exec ∧ cl.pc = .returned) := by
  intro es
  induction es with
  | nil =>
    intro s _ hrd _ _ hd
    exact ⟨s, rfl, hrd, hd rfl, by simp, by simp, by simp⟩
  | cons e es ih =>
    intro s hr hrd hnd hall _
    obtain ⟨cl, he, hk, hb⟩ := hall e List.mem_cons_self
    obtain ⟨s1, hrun1, hrd1, hd1, hs1, hres1, _⟩ := exec_round hr hrd he hk hb
    have hr1 := reachable_runLabels _ hr hrun1
    have hnd' := List.nodup_cons.1 hnd
    have hall1 : ∀ e' ∈ es, ∃ cl, s1.senders[e']? = some cl ∧ cl.kind = .exec ∧ cl.pc = .blocked := by
      intro e' he'
      obtain ⟨cl', a, b, c'⟩ := hall e' (List.mem_cons_of_mem _ he')
      refine ⟨cl', ?_, b, c'⟩
      rw [hs1]
      exact getElem?_set_append_ne _ a (fun h => hnd'.1 (h ▸ he'))
    obtain ⟨sf, hrun, hrdf, hdf, hlen, hres, hret⟩ := ih hr1 hrd1 hnd'.2 hall1 (fun _ => hd1)
    refine ⟨sf, ?_, hrdf, hdf, ?_, ?_, ?_⟩
    · rw [List.flatMap_cons, runLabels_append, hrun1]
      exact hrun
    · rw [hlen, hs1]
      simp [execCallers]
      omega
    · rw [hres, hres1]
      simp
      omega
    · intro e' he'
      rcases List.mem_cons.1 he' with h | h
      · subst h
        have h1 : s1.senders[e']? = some { cl with pc := .returned } := by
          rw [hs1]
          exact getElem?_append_of_some _ (getElem?_set_self_of he)
        exact ⟨_, sender_returned_runLabels _ hrun h1 rfl, hk, rfl⟩
      · exact hret e' h

/-! ### a strike at any point of an Exec -/

/-- a loop at its `select` in a reachable state: nothing has ended yet -/
theorem ctxOnly_of_select {c : Config} {s : St} (hr : Reachable c s) (hsel : s.el = .select) :
    CtxOnly s := by
  refine ⟨fun cz h => (by rw [hsel] at h; cases h), fun h => ?_⟩
  rcases inv_err hr h with ⟨cz, _, h1, _⟩ | ⟨h1, _⟩ <;> rw [hsel] at h1 <;> cases h1

/-- A STRIKE AT ANY POINT OF AN EXEC.  Start the fault-free Exec schedule of an Exec message in a
reachable state with the loop at its `select`; after ANY prefix of it that can be run, a Kill() / a
cancellation of the supplied context is enabled, and after it at most `rank + pendW` steps -
progress steps and the returns of user code (the command, Update), each enabled in turn - bring Run
to its return with ErrProgramKilled -/
theorem strike_during_exec {c : Config} {s : St} (hr : Reachable c s) (hsel : s.el = .select)
    {e : Nat} {cl : Caller} (he : s.senders[e]? = some cl) (hk : cl.kind = .exec)
    (wait : Label) (hw : wait = .exRelWaitTimeout ∨ wait = .exRelWaitRead) (k : Nat) {sk : St}
    (hrun : runLabels s ((execSchedule e wait).take k) = some sk)
    (strike : Label) (hst : strikeLabel strike = true) :
    ∃ s1, step sk strike = some s1 ∧
      ∃ ls s', (∀ l ∈ ls, scheduleLabel l = true) ∧ ls.length ≤ rank s1 + pendW s1 ∧
        runLabels s1 ls = some s' ∧ s'.runPc = .returned ∧ s'.runErr = .killed := by
  have hrk : Reachable c sk := reachable_runLabels _ hr hrun
  have hc : CtxOnly sk := by
    have h0 := ctxOnly_of_select hr hsel
    cases k with
    | zero => simp only [List.take_zero, runLabels] at hrun; cases hrun; exact h0
    | succ k =>
      simp only [execSchedule, List.take_succ_cons, runLabels] at hrun
      split at hrun
      · rename_i s1 h1
        refine ctxOnly_runLabels _ ?_ hrun (ctxOnly_recv_exec he hk h1 h0)
        intro l hl
        have hl' := List.mem_of_mem_take hl
        refine Or.inl ?_
        clear hl
        rcases hw with h | h <;> subst h <;> revert l <;> decide
      · cases hrun
  cases strike <;> simp [strikeLabel] at hst
  · have hs1 : step sk .killCall = some { sk with killers := sk.killers ++ [.cancel] } := rfl
    exact ⟨_, hs1, run_returns_killed (Reachable.step _ hrk hs1)
      (Or.inr (Or.inr (Or.inl (by simp)))) (ctxOnly_step (Or.inr rfl) hs1 hc)⟩
  · have hs1 : step sk .parentCancel = some { sk with ctxDone := true } := rfl
    exact ⟨_, hs1, run_returns_killed (Reachable.step _ hrk hs1) (Or.inl rfl)
      (ctxOnly_step (Or.inr rfl) hs1 hc)⟩

end Tea.Runtime.Life
