import Tea.Proofs.Inline
/-
Printed (queued) lines: `.text line` whose visible part is longer than the width wraps;
the operations `queuedLineOps` of one queued line fill `⌈cells/w⌉` rows (one row for a
line without printing bytes) and leave the cursor at the start of the next row.  What the
terminal does with a queued line only depends on its visible part (`queuedLineOps_visible`),
so the wrapping argument is carried out on plain byte strings (`_plain` lemmas: no ESC byte,
where `Ansi.visible` is the identity and `Ansi.truncate` is `take`) and then transferred to
every line through `Ansi.visible`.
-/
namespace Tea.Render
open Tea Tea.VT

/-- the number of rows a printed line of `len` cells takes on a `w`-column terminal -/
def rowsOf (w len : Nat) : Nat := (len - 1) / w + 1

/-- the rows a printed line takes: the successive `w`-cell pieces of its visible part (as suffixes
of the visible part; a row shows the first `w` bytes of its suffix) -/
def chunksOf (w : Nat) (line : Line) : List Line :=
  (List.range (rowsOf w (lineWidth line))).map (fun j => (Ansi.visible line).drop (j * w))

/-- plain text: no ESC byte -/
def Plain (l : Line) : Prop := ∀ x ∈ l, x ≠ 0x1b

theorem Plain.take {l : Line} (h : Plain l) (n : Nat) : Plain (l.take n) :=
  fun x hx => h x (List.mem_of_mem_take hx)
theorem Plain.drop {l : Line} (h : Plain l) (n : Nat) : Plain (l.drop n) :=
  fun x hx => h x (List.mem_of_mem_drop hx)
theorem Plain.visible {l : Line} (h : Plain l) : Ansi.visible l = l := Ansi.visible_of_plain h
theorem Plain.width {l : Line} (h : Plain l) : lineWidth l = l.length := Ansi.width_of_plain h
theorem Plain.awidth {l : Line} (h : Plain l) : Ansi.width l = l.length := Ansi.width_of_plain h
theorem plain_visible (l : Line) : Plain (Ansi.visible l) := Ansi.visibleFrom_no_esc .ground l

theorem rowsOf_le (w len : Nat) (hw : 1 ≤ w) (h : len ≤ w) : rowsOf w len = 1 := by
  unfold rowsOf
  rw [Nat.div_eq_of_lt (by omega)]

theorem rowsOf_gt (w len : Nat) (hw : 1 ≤ w) (h : w < len) : rowsOf w len = rowsOf w (len - w) + 1 := by
  unfold rowsOf
  have : len - 1 = (len - w - 1) + w := by omega
  rw [this, Nat.add_div_right _ (by omega)]

/-- paint one row with `line` cut at `w` cells, then CR LF: the row shows the visible part of
`line` (any byte string) -/
theorem lineRow_step (w h : Nat) (b : Buf) (line : Line) (hw1 : 1 ≤ w)
    (hc : b.cc = 0) (hp : b.pw = false) :
    ∀ b1, b1 = applyBufs w h (applyBufs w h b (lineOps w (truncateLine w line))) [.cr, .lf] →
    b1.cr = b.cr + 1 ∧ b1.cc = 0 ∧ b1.pw = false ∧
    b1.top = (if b.cr + 1 = b.top + h then b.top + 1 else b.top) ∧
    (∀ ρ, ρ ≠ b.cr → ∀ c, b1.cells ρ c = b.cells ρ c) ∧ rowShows w b1 b.cr (Ansi.visible line) := by
  intro b1 hb1
  obtain ⟨p1, p2, _, p4, p5⟩ := lineOps_spec w h b (truncateLine w line) hw1
    (truncateLine_width_le w line) hc hp
  subst hb1
  simp only [applyBufs_cons, applyBufs_nil, applyBuf_lf_cr, applyBuf_lf_cc, applyBuf_lf_pw,
    applyBuf_lf_top, applyBuf_lf_cells, applyBuf_cr_cr, applyBuf_cr_cc, applyBuf_cr_top,
    applyBuf_cr_cells, p1, p2, true_and]
  rw [visible_truncateLine] at p5
  exact ⟨p4, rowShows_congr (fun c => by simp) ((rowShows_take w _ b.cr (Ansi.visible line)).1 p5)⟩

theorem truncateLine_plain (w : Nat) {line : Line} (h : Plain line) :
    truncateLine w line = line.take w := Ansi.truncate_of_plain w h

theorem putChar_wrap (w h : Nat) (b : Buf) (ch : Nat) (hp : b.pw = true) :
    putChar w h b ch = putChar w h (applyBuf w h (applyBuf w h b .cr) .lf) ch := by
  have e : (applyBuf w h (applyBuf w h b .cr) .lf).pw = false := by simp
  have e2 : applyBuf w h (applyBuf w h b .cr) .lf = lineFeed h { b with cc := 0, pw := false } := rfl
  rw [putChar, putChar, e]
  simp only [hp, if_true, Bool.false_eq_true, if_false, e2]

/-- a queued line that fits in one row: its operations are `lineOps` then CR LF -/
theorem queuedLineOps_fit (w : Nat) (line : Line) (hw1 : 1 ≤ w) (h : lineWidth line ≤ w) :
    queuedLineOps w line = lineOps w (truncateLine w line) ++ [.cr, .lf] := by
  have ht : truncateLine w line = line := Ansi.truncate_of_width_le h
  rw [ht]
  unfold queuedLineOps lineOps
  show _ = [TermOp.text line] ++ (if lineWidth line < w then [TermOp.el0] else []) ++ _
  generalize lineWidth line = n at *
  by_cases hl : n < w
  · have : (n == 0 || n % w != 0) = true := by
      rw [Nat.mod_eq_of_lt hl]
      cases hz : n <;> simp
    have hwp : 0 < w := by omega
    simp [hl, this, hwp]
  · have hlw : n = w := by omega
    have : (n == 0 || n % w != 0) = false := by
      rw [hlw, Nat.mod_self]; simp; omega
    have hwp : 0 < w := by omega
    simp [hl, this, hwp]

/-- what `.text` does to a buffer only depends on the visible part of the text -/
theorem applyBuf_text_visible (w h : Nat) (b : Buf) (s : Bytes) :
    applyBuf w h b (.text (Ansi.visible s)) = applyBuf w h b (.text s) := by
  simp only [applyBuf, Ansi.visible_visible]

theorem applyBuf_text_plain (w h : Nat) (b : Buf) {s : Bytes} (hs : Plain s) :
    applyBuf w h b (.text s) = s.foldl (putChar w h) b := by
  simp only [applyBuf, hs.visible]

theorem applyBuf_text_append (w h : Nat) (b : Buf) {s1 s2 : Bytes} (h1 : Plain s1) (h2 : Plain s2) :
    applyBuf w h b (.text (s1 ++ s2)) = applyBuf w h (applyBuf w h b (.text s1)) (.text s2) := by
  have h12 : Plain (s1 ++ s2) := by
    intro x hx
    rcases List.mem_append.1 hx with hx | hx
    · exact h1 x hx
    · exact h2 x hx
  rw [applyBuf_text_plain w h b h12, applyBuf_text_plain w h b h1, applyBuf_text_plain w h _ h2,
    List.foldl_append]

theorem applyBuf_text_cons_wrap (w h : Nat) (b : Buf) (x : Nat) (s : Bytes) (hs : Plain (x :: s))
    (hp : b.pw = true) :
    applyBuf w h b (.text (x :: s)) =
      applyBuf w h (applyBuf w h (applyBuf w h b .cr) .lf) (.text (x :: s)) := by
  rw [applyBuf_text_plain w h b hs, applyBuf_text_plain w h _ hs]
  rw [List.foldl_cons, List.foldl_cons, putChar_wrap w h b x hp]

/-- a plain queued line longer than a row: the first `w` bytes fill the row, the next byte wraps,
and the rest behaves like a queued line of its own -/
theorem queuedLineOps_wrap_plain (w h : Nat) (b : Buf) (line : Line) (hpl : Plain line) (hw1 : 1 ≤ w)
    (hl : w < line.length) (hc : b.cc = 0) (hp : b.pw = false) :
    applyBufs w h b (queuedLineOps w line) =
      applyBufs w h (applyBufs w h (applyBufs w h b (lineOps w (line.take w))) [.cr, .lf])
        (queuedLineOps w (line.drop w)) := by
  have hlen : (line.take w).length = w := by simp [List.length_take]; omega
  have hwt : Ansi.width (line.take w) = w := by rw [(hpl.take w).awidth, hlen]
  have hlo : lineOps w (line.take w) = [.text (line.take w)] := by simp [lineOps, hwt]
  obtain ⟨_, _, t3, t4, _⟩ := applyBuf_text w h b (line.take w) (by rw [hc, hwt]; omega) (by rw [hc]; omega) hp
  rw [hc, hwt] at t4
  obtain ⟨_, e2⟩ := colOK_vcol_eq t3 (by simpa using t4)
  have hel : (decide (w > 0) && (lineWidth line == 0 || lineWidth line % w != 0)) =
      (decide (w > 0) && (lineWidth (line.drop w) == 0 || lineWidth (line.drop w) % w != 0)) := by
    have h1 : (lineWidth line == 0) = false := by
      rw [beq_eq_false_iff_ne, hpl.width]; omega
    have h2 : (lineWidth (line.drop w) == 0) = false := by
      rw [beq_eq_false_iff_ne, (hpl.drop w).width, List.length_drop]; omega
    have h3 : lineWidth line % w = lineWidth (line.drop w) % w := by
      rw [hpl.width, (hpl.drop w).width, List.length_drop]
      have : line.length = (line.length - w) + w := by omega
      rw [this, Nat.add_mod_right]
      simp
    rw [h1, h2, h3]
  cases hd : line.drop w with
  | nil => have : (line.drop w).length = 0 := by rw [hd]; rfl
           simp at this; omega
  | cons x rest =>
    have hsplit : line = line.take w ++ (x :: rest) := by rw [← hd, List.take_append_drop]
    have key : applyBuf w h b (.text line) =
        applyBuf w h (applyBuf w h (applyBuf w h (applyBuf w h b (.text (line.take w))) .cr) .lf)
          (.text (x :: rest)) := by
      calc applyBuf w h b (.text line)
          = applyBuf w h b (.text (line.take w ++ (x :: rest))) := by rw [← hsplit]
        _ = _ := by
          have hxr : Plain (x :: rest) := hd ▸ hpl.drop w
          rw [applyBuf_text_append w h b (hpl.take w) hxr,
            applyBuf_text_cons_wrap w h _ x rest hxr e2]
    rw [hd] at hel
    unfold queuedLineOps
    rw [← hel, hlo]
    simp only [List.cons_append, List.nil_append, applyBufs_cons, applyBufs_nil]
    rw [key]

theorem rowsOf_pos (w len : Nat) : 1 ≤ rowsOf w len := by unfold rowsOf; exact Nat.le_add_left 1 _

/-- One plain queued (printed) line, from the start of a row inside the window: it fills
`rowsOf w len` rows — row `j` shows the line from byte `j*w` on (its first `w` bytes, blank
padded) —, the cursor ends at the start of the next row, the window scrolls by exactly what is
needed, no other row changes. -/
theorem queuedLine_spec_plain (w h : Nat) (hw1 : 1 ≤ w) : ∀ (fuel : Nat) (line : Line) (b : Buf),
    Plain line → line.length ≤ fuel → b.cc = 0 → b.pw = false → b.cr < b.top + h →
    ∀ b', b' = applyBufs w h b (queuedLineOps w line) →
    b'.cr = b.cr + rowsOf w line.length ∧ b'.cc = 0 ∧ b'.pw = false ∧
    b'.top = max b.top (b.cr + rowsOf w line.length + 1 - h) ∧
    (∀ j, j < rowsOf w line.length → rowShows w b' (b.cr + j) (line.drop (j * w))) ∧
    (∀ ρ, ρ < b.cr → ∀ c, b'.cells ρ c = b.cells ρ c) ∧
    (∀ ρ, b.cr + rowsOf w line.length ≤ ρ → ∀ c, b'.cells ρ c = b.cells ρ c) := by
  intro fuel
  induction fuel with
  | zero =>
    intro line b hpl hf hc hp hwin b' hb'
    have hfit : line.length ≤ w := by omega
    rw [queuedLineOps_fit w line hw1 (by rw [hpl.width]; exact hfit), applyBufs_append] at hb'
    obtain ⟨q1, q2, q3, q4, q5, q6⟩ := lineRow_step w h b line hw1 hc hp b' hb'
    rw [rowsOf_le w _ hw1 hfit]
    refine ⟨q1, q2, q3, by rw [q4]; split <;> omega, ?_, fun ρ hρ c => q5 ρ (by omega) c,
      fun ρ hρ c => q5 ρ (by omega) c⟩
    intro j hj
    have : j = 0 := by omega
    subst this
    simpa [hpl.visible] using q6
  | succ fuel ih =>
    intro line b hpl hf hc hp hwin b' hb'
    by_cases hfit : line.length ≤ w
    · rw [queuedLineOps_fit w line hw1 (by rw [hpl.width]; exact hfit), applyBufs_append] at hb'
      obtain ⟨q1, q2, q3, q4, q5, q6⟩ := lineRow_step w h b line hw1 hc hp b' hb'
      rw [rowsOf_le w _ hw1 hfit]
      refine ⟨q1, q2, q3, by rw [q4]; split <;> omega, ?_, fun ρ hρ c => q5 ρ (by omega) c,
        fun ρ hρ c => q5 ρ (by omega) c⟩
      intro j hj
      have : j = 0 := by omega
      subst this
      simpa [hpl.visible] using q6
    · have hl : w < line.length := by omega
      rw [queuedLineOps_wrap_plain w h b line hpl hw1 hl hc hp] at hb'
      obtain ⟨q1, q2, q3, q4, q5, q6⟩ := lineRow_step w h b line hw1 hc hp _ rfl
      rw [truncateLine_plain w hpl, hpl.visible] at *
      generalize applyBufs w h (applyBufs w h b (lineOps w (line.take w))) [.cr, .lf] = b1 at *
      have hwin1 : b1.cr < b1.top + h := by rw [q1, q4]; split <;> omega
      have hdl : (line.drop w).length = line.length - w := List.length_drop
      obtain ⟨s1, s2, s3, s4, s5, s6, s7⟩ := ih (line.drop w) b1 (hpl.drop w) (by rw [hdl]; omega) q2 q3 hwin1 b' hb'
      rw [hdl] at s1 s4 s5 s7
      have hm := rowsOf_gt w line.length hw1 hl
      have hm1 := rowsOf_pos w (line.length - w)
      rw [hm]
      refine ⟨by rw [s1, q1]; omega, s2, s3, by rw [s4, q1, q4]; split <;> omega, ?_, ?_, ?_⟩
      · intro j hj
        cases j with
        | zero =>
          refine rowShows_congr (fun c => s6 _ (by omega) c) ?_
          simpa [hpl.visible] using q6
        | succ j =>
          have := s5 j (by omega)
          rw [List.drop_drop, q1] at this
          have e1 : b.cr + 1 + j = b.cr + (j + 1) := by omega
          have e2 : w + j * w = (j + 1) * w := by rw [Nat.succ_mul]; omega
          rw [e1, e2] at this
          exact this
      · intro ρ hρ c
        rw [s6 ρ (by omega) c, q5 ρ (by omega) c]
      · intro ρ hρ c
        rw [s7 ρ (by omega) c, q5 ρ (by omega) c]

/-- the operations of a queued line act on a buffer as those of its visible part do -/
theorem queuedLineOps_visible (w h : Nat) (b : Buf) (line : Line) :
    applyBufs w h b (queuedLineOps w line) = applyBufs w h b (queuedLineOps w (Ansi.visible line)) := by
  have hwid : lineWidth (Ansi.visible line) = lineWidth line := by
    unfold lineWidth Ansi.width
    rw [Ansi.visible_visible]
  unfold queuedLineOps
  rw [hwid]
  simp only [List.cons_append, List.nil_append, applyBufs_cons, applyBuf_text_visible]

/-- One queued (printed) line, any byte string, from the start of a row inside the window: it
fills `rowsOf w (lineWidth line)` rows — row `j` shows the visible part of the line from visible
byte `j*w` on (its first `w` bytes, blank padded) —, the cursor ends at the start of the next row,
the window scrolls by exactly what is needed, no other row changes. -/
theorem queuedLine_spec (w h : Nat) (hw1 : 1 ≤ w) (line : Line) (b : Buf) :
    b.cc = 0 → b.pw = false → b.cr < b.top + h →
    ∀ b', b' = applyBufs w h b (queuedLineOps w line) →
    b'.cr = b.cr + rowsOf w (lineWidth line) ∧ b'.cc = 0 ∧ b'.pw = false ∧
    b'.top = max b.top (b.cr + rowsOf w (lineWidth line) + 1 - h) ∧
    (∀ j, j < rowsOf w (lineWidth line) → rowShows w b' (b.cr + j) ((Ansi.visible line).drop (j * w))) ∧
    (∀ ρ, ρ < b.cr → ∀ c, b'.cells ρ c = b.cells ρ c) ∧
    (∀ ρ, b.cr + rowsOf w (lineWidth line) ≤ ρ → ∀ c, b'.cells ρ c = b.cells ρ c) := by
  intro hc hp hwin b' hb'
  rw [queuedLineOps_visible] at hb'
  exact queuedLine_spec_plain w h hw1 _ (Ansi.visible line) b (plain_visible line) (Nat.le_refl _)
    hc hp hwin b' hb'

/-- the rows that a list of printed lines takes, in order -/
def qrows (w : Nat) (qs : List Line) : List Line := qs.flatMap (chunksOf w)

theorem chunksOf_length (w : Nat) (line : Line) : (chunksOf w line).length = rowsOf w (lineWidth line) := by
  simp [chunksOf]

theorem chunksOf_getElem? (w : Nat) (line : Line) (j : Nat) (l : Line)
    (h : (chunksOf w line)[j]? = some l) :
    j < rowsOf w (lineWidth line) ∧ l = (Ansi.visible line).drop (j * w) := by
  have hj : j < (chunksOf w line).length := by
    apply Classical.byContradiction
    intro hn
    rw [List.getElem?_eq_none (by omega)] at h
    cases h
  rw [chunksOf_length] at hj
  refine ⟨hj, ?_⟩
  simp [chunksOf, hj] at h
  exact h.symm

/-- the rows of printed lines are pieces of visible parts: they contain no ESC byte -/
theorem qrows_plain (w : Nat) (qs : List Line) : ∀ p ∈ qrows w qs, Plain p := by
  intro p hp
  simp only [qrows, List.mem_flatMap] at hp
  obtain ⟨line, _, hl⟩ := hp
  obtain ⟨j, hj⟩ := List.getElem?_of_mem hl
  obtain ⟨_, e⟩ := chunksOf_getElem? w line j p hj
  rw [e]
  exact (plain_visible line).drop _

/-- All queued lines, from the start of a row inside the window: the rows from the cursor row on
show exactly `qrows w qs` — the visible part of every printed line once, in queue order, wrapped
at the width (the elements of `qrows` are pieces of visible parts: they contain no ESC byte) —, the
cursor ends at the start of the row after them, the window scrolls by exactly what is needed, no
other row changes. -/
theorem queued_spec (w h : Nat) (hw1 : 1 ≤ w) : ∀ (qs : List Line) (b : Buf),
    b.cc = 0 → b.pw = false → b.cr < b.top + h →
    ∀ b', b' = applyBufs w h b (qs.flatMap (queuedLineOps w)) →
    b'.cr = b.cr + (qrows w qs).length ∧ b'.cc = 0 ∧ b'.pw = false ∧
    b'.top = max b.top (b.cr + (qrows w qs).length + 1 - h) ∧
    (∀ j l, (qrows w qs)[j]? = some l → rowShows w b' (b.cr + j) l) ∧
    (∀ ρ, ρ < b.cr → ∀ c, b'.cells ρ c = b.cells ρ c) ∧
    (∀ ρ, b.cr + (qrows w qs).length ≤ ρ → ∀ c, b'.cells ρ c = b.cells ρ c) := by
  intro qs
  induction qs with
  | nil =>
    intro b hc hp hwin b' hb'
    have hb2 : b' = b := hb'
    subst hb2
    have hq0 : qrows w [] = [] := rfl
    rw [hq0]
    refine ⟨rfl, hc, hp, by simp only [List.length_nil]; omega, ?_, fun _ _ _ => rfl, fun _ _ _ => rfl⟩
    intro j l hj
    simp at hj
  | cons line qs ih =>
    intro b hc hp hwin b' hb'
    rw [List.flatMap_cons, applyBufs_append] at hb'
    obtain ⟨q1, q2, q3, q4, q5, q6, q7⟩ := queuedLine_spec w h hw1 line b
      hc hp hwin _ rfl
    generalize applyBufs w h b (queuedLineOps w line) = b1 at *
    have hm1 := rowsOf_pos w (lineWidth line)
    have hwin1 : b1.cr < b1.top + h := by rw [q1, q4]; omega
    obtain ⟨s1, s2, s3, s4, s5, s6, s7⟩ := ih b1 q2 q3 hwin1 b' hb'
    have hq : qrows w (line :: qs) = chunksOf w line ++ qrows w qs := by simp [qrows]
    have hql : (qrows w (line :: qs)).length = rowsOf w (lineWidth line) + (qrows w qs).length := by
      rw [hq, List.length_append, chunksOf_length]
    rw [hql]
    refine ⟨by rw [s1, q1]; omega, s2, s3, by rw [s4, q1, q4]; omega, ?_, ?_, ?_⟩
    · intro j l hj
      rw [hq] at hj
      by_cases hjm : j < rowsOf w (lineWidth line)
      · rw [List.getElem?_append_left (by rw [chunksOf_length]; exact hjm)] at hj
        obtain ⟨_, hl⟩ := chunksOf_getElem? w line j l hj
        subst hl
        exact rowShows_congr (fun c => s6 _ (by omega) c) (q5 j hjm)
      · rw [List.getElem?_append_right (by rw [chunksOf_length]; omega), chunksOf_length] at hj
        have := s5 _ l hj
        rw [q1] at this
        have e : b.cr + rowsOf w (lineWidth line) + (j - rowsOf w (lineWidth line)) = b.cr + j := by omega
        rw [e] at this
        exact this
    · intro ρ hρ c
      rw [s6 ρ (by omega) c, q6 ρ hρ c]
    · intro ρ hρ c
      rw [s7 ρ (by omega) c, q7 ρ (by omega) c]

end Tea.Render
