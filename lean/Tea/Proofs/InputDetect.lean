import Tea.Proofs.InputWidth
/-
The combined specification of detectOneMsg used by C09 (and the reader proofs).
-/
namespace Tea.Input
open Tea Tea.Dec Tea.Utf8

/-- the paste has started but its end marker has not arrived -/
def UnterminatedPaste (b : Bytes) : Prop :=
  bpStart.length ≤ b.length ∧ b.take bpStart.length = bpStart ∧ indexOf bpEnd (b.drop bpStart.length) = none

/-- after an optional ESC, a run of printable characters reaches the end of the buffer, or
the buffer ends inside a multi-byte character (so the run may continue in the next read) -/
def OpenRuneRun (more : Bool) : Bytes → Prop
  | [] => False
  | x :: rest =>
    let r := runeLoop (x == 0x1b) more ((x :: rest).length + 1) (x :: rest) (if (x == 0x1b) = true then 1 else 0) []
    r.2.2 = true ∨ (x :: rest).length ≤ r.1

/-- bytes may be held back only for these reasons: an unterminated paste; or, when the read
filled the buffer, the beginning of an event that may continue in the next read -/
def HeldBack (T : Table) (b : Bytes) (more : Bool) : Prop :=
  UnterminatedPaste b ∨ (more = true ∧ (isIncompleteEvent T b = true ∨ OpenRuneRun more b))

theorem detectBracketedPaste_spec {b : Bytes} {w : Nat} {m : Option Msg}
    (h : detectBracketedPaste b = some (w, m)) :
    w ≤ b.length ∧ ((w = 0 ∧ m = none ∧ UnterminatedPaste b) ∨ (12 ≤ w ∧ m.isSome)) := by
  unfold detectBracketedPaste at h
  split at h
  · cases h
  · rename_i hc
    simp only [Bool.or_eq_true, decide_eq_true_eq, not_or, Nat.not_lt] at hc
    dsimp only at h
    split at h
    · rename_i hi
      injection h with h
      injection h with h1 h2
      subst h1; subst h2
      refine ⟨Nat.zero_le _, Or.inl ⟨rfl, rfl, hc.1, ?_, hi⟩⟩
      simpa using hc.2
    · rename_i i hi
      injection h with h
      injection h with h1 h2
      subst h1; subst h2
      have := indexOf_bound bpEnd _ i hi
      simp [bpStart, bpEnd] at this hc ⊢
      omega

theorem detectReportFocus_spec {b : Bytes} {w : Nat} {m : Msg} (h : detectReportFocus b = some (w, m)) :
    w = 3 ∧ b.length = 3 := by
  unfold detectReportFocus at h
  split at h
  · rename_i hb
    have : b = [0x1b, 0x5b, 0x49] := by simpa using hb
    injection h with h; injection h with h1 h2; subst h1; subst this; simp
  · split at h
    · rename_i hb
      have : b = [0x1b, 0x5b, 0x4f] := by simpa using hb
      injection h with h; injection h with h1 h2; subst h1; subst this; simp
    · cases h

theorem detectSequence_spec {T : Table} {lens : List Nat} {b : Bytes} {w : Nat} {m : Msg}
    (hl : ∀ l ∈ lens, 0 < l) (h : detectSequence T lens b = some (w, m)) : 0 < w ∧ w ≤ b.length := by
  unfold detectSequence at h
  split at h
  · rename_i sz k hk
    injection h with h; injection h with h1 h2; subst h1
    have := lookupLens_bound T b lens _ k hk
    exact ⟨hl _ this.2.1, this.1⟩
  · split at h
    · rename_i n hn
      injection h with h; injection h with h1 h2; subst h1
      have := unknownCSILen_bound hn
      omega
    · cases h

theorem detectMouse_spec {b : Bytes} {w : Nat} {m : Msg} (h : detectMouse b = .ok (some (w, m))) :
    6 ≤ w ∧ w ≤ b.length := by
  unfold detectMouse at h
  split at h
  · rename_i hlen
    split at h
    · obtain ⟨ev, hev⟩ := parseX10_ok (b := _) hlen
      rw [hev] at h
      simp [pure, Except.pure, bind, Except.bind] at h
      omega
    · rename_i rest
      split at h
      · rename_i off sm hf
        obtain ⟨ev, hev⟩ := parseSGR_ok_of_find (b := 0x1b :: 0x5b :: 0x3c :: rest) (r := (off, sm)) (by simpa using hf)
        rw [hev] at h
        simp [pure, Except.pure, bind, Except.bind] at h
        have := sgrFind_bound rest off sm hf
        simp at hlen ⊢
        omega
      · simp [pure, Except.pure] at h
    · simp [pure, Except.pure] at h
  · simp [pure, Except.pure] at h

theorem detectTail_spec (b : Bytes) (more : Bool) (hb : b ≠ []) :
    ∃ w m, detectTail b more = .ok (w, m) ∧ w ≤ b.length ∧
      (0 < w → m.isSome) ∧ (w = 0 → m = none ∧ more = true ∧ OpenRuneRun more b) := by
  cases b with
  | nil => exact absurd rfl hb
  | cons x rest =>
    unfold detectTail
    have hidx : idx (x :: rest) 0 = .ok x := by simp [idx]
    rw [hidx]
    dsimp only
    have hi0 : (if (x == 0x1b) = true then 1 else 0) ≤ (x :: rest).length := by
      split <;> simp
    have hOpen : OpenRuneRun more (x :: rest) ↔
        ((runeLoop (x == 0x1b) more ((x :: rest).length + 1) (x :: rest) (if (x == 0x1b) = true then 1 else 0) []).2.2 = true ∨
         (x :: rest).length ≤
          (runeLoop (x == 0x1b) more ((x :: rest).length + 1) (x :: rest) (if (x == 0x1b) = true then 1 else 0) []).1) := by
      exact Iff.rfl
    have hrl := runeLoop_bound (x == 0x1b) more ((x :: rest).length + 1) (x :: rest) (if (x == 0x1b) = true then 1 else 0) [] hi0
    have hadv := runeLoop_adv (x == 0x1b) more ((x :: rest).length + 1) (x :: rest) (if (x == 0x1b) = true then 1 else 0) [] hi0
    have hinc : (runeLoop (x == 0x1b) more ((x :: rest).length + 1) (x :: rest) (if (x == 0x1b) = true then 1 else 0) []).2.2 = true → more = true :=
      runeLoop_incomplete_more _ _ _ _ _ _
    generalize (if (x == 0x1b) = true then 1 else 0) = i0 at *
    generalize runeLoop (x == 0x1b) more ((x :: rest).length + 1) (x :: rest) i0 [] = rl at *
    obtain ⟨i, runes, inc⟩ := rl
    simp only at hrl hadv hOpen hinc ⊢
    by_cases hnul : (decide (i0 < (x :: rest).length) && (x :: rest).getD i0 1 == 0) = true
    · rw [if_pos hnul]
      simp only [Bool.and_eq_true, decide_eq_true_eq] at hnul
      exact ⟨_, _, rfl, by omega, fun _ => rfl, fun h => by omega⟩
    · rw [if_neg hnul]
      by_cases hincb : inc = true
      · rw [if_pos hincb]
        exact ⟨0, none, rfl, Nat.zero_le _, fun h => by omega, fun _ => ⟨rfl, hinc hincb, hOpen.2 (Or.inl hincb)⟩⟩
      · rw [if_neg hincb]
        by_cases hmore : (decide (i ≥ (x :: rest).length) && more) = true
        · rw [if_pos hmore]
          simp only [ge_iff_le, Bool.and_eq_true, decide_eq_true_eq] at hmore
          exact ⟨0, none, rfl, Nat.zero_le _, fun h => by omega, fun _ => ⟨rfl, hmore.2, hOpen.2 (Or.inr hmore.1)⟩⟩
        · rw [if_neg hmore]
          by_cases hr : runes.length > 0
          · rw [if_pos hr]
            refine ⟨_, _, rfl, hrl.1, fun _ => rfl, ?_⟩
            intro hi
            rcases hadv with h1 | h1
            · simp at h1; rw [h1] at hr; simp at hr
            · omega
          · rw [if_neg hr]
            split
            · exact ⟨1, _, rfl, by simp, fun _ => rfl, fun h => by omega⟩
            · exact ⟨1, _, rfl, by simp, fun _ => rfl, fun h => by omega⟩

/-- detectOneMsg on a non-empty buffer: no panic, width within bounds, a message whenever
the width is non-zero, and a zero width only for the documented reasons. -/
theorem detectOneMsg_spec (T : Table) (lens : List Nat) (b : Bytes) (more : Bool)
    (hb : b ≠ []) (hl : ∀ l ∈ lens, 0 < l) :
    ∃ w m, detectOneMsg T lens b more = .ok (w, m) ∧ w ≤ b.length ∧
      (0 < w → m.isSome) ∧ (w = 0 → m = none ∧ HeldBack T b more) := by
  unfold detectOneMsg
  by_cases hinc : (more && isIncompleteEvent T b) = true
  · rw [if_pos hinc]
    simp only [Bool.and_eq_true] at hinc
    exact ⟨0, none, rfl, Nat.zero_le _, fun h => by omega, fun _ => ⟨rfl, Or.inr ⟨hinc.1, Or.inl hinc.2⟩⟩⟩
  · rw [if_neg hinc]
    obtain ⟨mr, hmr⟩ := detectMouse_ok b
    rw [hmr]
    cases mr with
    | some p =>
      obtain ⟨w, m⟩ := p
      have := detectMouse_spec hmr
      exact ⟨w, some m, rfl, this.2, fun _ => rfl, fun h => by omega⟩
    | none =>
      dsimp only
      split
      · rename_i w m hf
        have := detectReportFocus_spec hf
        exact ⟨w, some m, rfl, by omega, fun _ => rfl, fun h => by omega⟩
      · split
        · rename_i w m hp
          have := detectBracketedPaste_spec hp
          refine ⟨w, m, rfl, this.1, ?_, ?_⟩
          · intro hw
            rcases this.2 with h | h
            · omega
            · exact h.2
          · intro hw
            rcases this.2 with h | h
            · exact ⟨h.2.1, Or.inl h.2.2⟩
            · omega
        · split
          · rename_i w m hs
            have := detectSequence_spec hl hs
            exact ⟨w, some m, rfl, this.2, fun _ => rfl, fun h => by omega⟩
          · obtain ⟨w, m, h1, h2, h3, h4⟩ := detectTail_spec b more hb
            exact ⟨w, m, h1, h2, h3, fun hw => ⟨(h4 hw).1, Or.inr ⟨(h4 hw).2.1, Or.inr (h4 hw).2.2⟩⟩⟩

end Tea.Input
