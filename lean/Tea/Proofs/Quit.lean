import Tea.Proofs.Inline
import Tea.Proofs.LifecycleExec
/-
Helper lemmas for C07 (the final view on quit: `write`, `flush`, `stop` = flush + EL2 + CR on
an inline terminal) and C18 (signals in the Lifecycle LTS; the renderer's reaction to a
window-size message).  Property theorems are in Tea/Props/C07.lean and Tea/Props/C18.lean.
-/

/-! ## C07: terminal side — EL2, CR after a flush -/
namespace Tea.VT
open Tea

/-- rows with the same cells are the same rows -/
theorem Buf.row_congr {b b' : Buf} {w R : Nat} (h : ∀ c, b'.cells R c = b.cells R c) :
    b'.row w R = b.row w R := by
  simp only [Buf.row]
  apply List.map_congr_left
  intro c _
  exact h c

/-- EL2, CR on a terminal showing its main screen: the cursor row is blanked on columns
`[0, w)`, the cursor goes to column 0 (pending wrap cleared) and nothing else changes -/
theorem eraseLine_term (t : Term) (hon : t.onAlt = false) (t' : Term)
    (ht' : t' = applyOps t [.el2, .cr]) :
    t'.onAlt = false ∧ t'.w = t.w ∧ t'.h = t.h ∧ t'.alt = t.alt ∧
    t'.main.top = t.main.top ∧ t'.main.cr = t.main.cr ∧ t'.main.cc = 0 ∧ t'.main.pw = false ∧
    ∀ ρ c, t'.main.cells ρ c = if ρ = t.main.cr ∧ c < t.w then 32 else t.main.cells ρ c := by
  obtain ⟨a1, a2, a3, a4, _, a6⟩ := applyOps_bufOps [.el2, .cr] t (by
    intro op hop
    simp only [List.mem_cons, List.mem_nil_iff, or_false] at hop
    rcases hop with rfl | rfl <;> rfl)
  rw [← ht'] at a1 a2 a3 a4 a6
  have hon' : t'.onAlt = false := by rw [a3, hon]
  rw [Tea.Render.term_buf_main t' hon', Tea.Render.term_buf_main t hon] at a4
  obtain ⟨c1, c2, c3, c4, c5⟩ := a4
  simp only [applyBufs_cons, applyBufs_nil] at c1 c2 c3 c4 c5
  refine ⟨hon', a1, a2, a6 hon, by rw [c2]; simp, by rw [c3]; simp, by rw [c4]; simp,
    by rw [c5]; simp, ?_⟩
  intro ρ c
  rw [c1, applyBuf_cr_cells, applyBuf_el2_cells]
  by_cases h : ρ = t.main.cr ∧ c < t.w
  · rw [if_pos ⟨h.1, Nat.zero_le _, h.2⟩, if_pos h]
  · rw [if_neg (fun hh => h ⟨hh.1, hh.2.2⟩), if_neg h]

end Tea.VT

/-! ## C07: renderer side -/
namespace Tea.Render
open Tea Tea.VT

/-- a second `write` before the next flush simply replaces the pending view -/
theorem write_write (r : RState) (a b : Bytes) : write (write r a) b = write r b := rfl

/-- however many views are written between two flushes, only the last one is pending -/
theorem foldl_write_getLast : ∀ (vs : List Bytes) (h : vs ≠ []) (r : RState),
    vs.foldl write r = write r (vs.getLast h) := by
  intro vs
  induction vs with
  | nil => intro h; exact absurd rfl h
  | cons v vs ih =>
    intro _ r
    cases vs with
    | nil => rfl
    | cons v' vs' =>
      rw [List.foldl_cons, ih (List.cons_ne_nil _ _) (write r v), write_write]
      rfl

/-- `stop` is `flush` followed by EL2, CR; the renderer's caches are invalidated afterwards
(`repaint`), because the cursor line is no longer on the screen -/
theorem stop_eq (r : RState) :
    stop r = ((flush r).1.repaint, (flush r).2 ++ [.el2, .cr]) := rfl

/-- what `stop` writes: the flush, then EL2, CR -/
theorem stop_ops (r : RState) : (stop r).2 = (flush r).2 ++ [.el2, .cr] := rfl

/-- the state after `stop`: the state after the flush with both caches invalidated -/
theorem stop_state (r : RState) : (stop r).1 = (flush r).1.repaint := rfl

/-- a flush never changes the size the renderer believes the terminal has, nor the screen it
believes it is on -/
theorem flush_size (r : RState) :
    (flush r).1.width = r.width ∧ (flush r).1.height = r.height ∧
    (flush r).1.altActive = r.altActive := by
  cases h : (r.buf.isEmpty || r.buf == r.lastRender) with
  | true => rw [flush_noop r h]; exact ⟨rfl, rfl, rfl⟩
  | false => rw [flush_state r h]; exact ⟨rfl, rfl, rfl⟩

/-- after a flush of a non-empty buffer the render cache is that buffer (whether the flush
painted, or did nothing because the buffer already was the cached frame) -/
theorem flush_lastRender (r : RState) (hbuf : r.buf ≠ []) : (flush r).1.lastRender = r.buf := by
  have hbe : r.buf.isEmpty = false := by
    cases hb : r.buf with
    | nil => exact absurd hb hbuf
    | cons _ _ => rfl
  cases hsame : (r.buf == r.lastRender) with
  | true =>
    rw [flush_noop r (by simp [hsame])]
    exact (by simpa using hsame : r.buf = r.lastRender).symm
  | false => rw [flush_state r (by simp [hbe, hsame])]

/-- the frame of a pending view depends only on the height and the view -/
theorem frameLines_write (r : RState) (s : Bytes) :
    frameLines (write r s) = frameOf r.height (if s.isEmpty then [32] else s) := rfl

theorem frameLines_write_congr (r r' : RState) (s : Bytes) (h : r'.height = r.height) :
    frameLines (write r' s) = frameLines (write r s) := by
  rw [frameLines_write, frameLines_write, h]

/-- an inline flush of a written view keeps the first view row where it was -/
theorem inline_flush_viewTop (r : RState) (t : Term) (hinv : InlineInv r t) (hq : r.queued = [])
    (s : Bytes) :
    viewTop (flush (write r s)).1 (applyOps t (flush (write r s)).2) = viewTop r t :=
  (inline_flush_inv (write r s) t (hinv.write s) hq (write_buf_ne r s)).2.2.1

/-! ### lines of a view that ends with a newline -/

theorem splitLines_go_snoc_nl : ∀ (s : Bytes) (cur : Line),
    splitLines.go (s ++ [10]) cur = splitLines.go s cur ++ [[]] := by
  intro s
  induction s with
  | nil => intro cur; simp [splitLines.go]
  | cons c cs ih =>
    intro cur
    by_cases hc : (c == 10) = true
    · simp [splitLines.go, hc, ih]
    · simp [splitLines.go, hc, ih]

/-- the lines of `v ++ "\n"` are the lines of `v` and one empty line -/
theorem splitLines_snoc_nl (v : Bytes) : splitLines (v ++ [10]) = splitLines v ++ [[]] :=
  splitLines_go_snoc_nl v []

/-- the last line of the frame of a view that ends with a newline is empty -/
theorem frameOf_snoc_nl_getLast (height : Nat) (v : Bytes) :
    (frameOf height (v ++ [10])).getLast? = some [] := by
  unfold frameOf
  simp only [splitLines_snoc_nl]
  split
  · rename_i h
    simp only [Bool.and_eq_true, decide_eq_true_eq] at h
    rw [List.getLast?_drop, if_neg (by omega)]
    simp
  · simp

/-! ### a history of renders -/

/-- write and flush each view in turn, feeding the terminal -/
def renderViews (r : RState) (t : Term) : List Bytes → RState × Term
  | [] => (r, t)
  | s :: ss => renderViews (flush (write r s)).1 (applyOps t (flush (write r s)).2) ss

/-- any history of inline renders (no printed lines) keeps the invariant, the place of the view,
the size, the alt screen and everything above the view -/
theorem renderViews_inv (vs : List Bytes) : ∀ (r : RState) (t : Term), InlineInv r t →
    r.queued = [] →
    InlineInv (renderViews r t vs).1 (renderViews r t vs).2 ∧ (renderViews r t vs).1.queued = [] ∧
    viewTop (renderViews r t vs).1 (renderViews r t vs).2 = viewTop r t ∧
    (renderViews r t vs).2.w = t.w ∧ (renderViews r t vs).2.h = t.h ∧
    (renderViews r t vs).1.height = r.height ∧ (renderViews r t vs).2.alt = t.alt ∧
    (∀ ρ, ρ < viewTop r t → ∀ c, (renderViews r t vs).2.main.cells ρ c = t.main.cells ρ c) := by
  induction vs with
  | nil => intro r t h hq; exact ⟨h, hq, rfl, rfl, rfl, rfl, rfl, fun _ _ _ => rfl⟩
  | cons s ss ih =>
    intro r t h hq
    obtain ⟨a1, a2, a3, _, a5, a6, a7, a8, _, _⟩ :=
      inline_flush_inv (write r s) t (h.write s) hq (write_buf_ne r s)
    have hvt : viewTop (write r s) t = viewTop r t := rfl
    rw [hvt] at a3 a8
    obtain ⟨b1, b2, b3, b4, b5, b6, b7, b8⟩ := ih _ _ a1 a2
    simp only [renderViews]
    refine ⟨b1, b2, by rw [b3, a3], by rw [b4, a6], by rw [b5, a7], ?_, by rw [b7, a5], ?_⟩
    · rw [b6, (flush_size (write r s)).2.1]; rfl
    · intro ρ hρ c
      rw [b8 ρ (by rw [a3]; exact hρ) c, a8 ρ hρ c]

/-! ### the renderer after `stop` (ReleaseTerminal, or the first of two shutdowns) -/

/-- the second half of `stop` — EL2, CR on the terminal and the invalidation of both caches in
the renderer — keeps the inline invariant: the cursor stays in the last view row (now blank, at
column 0), `linesRendered` still counts that row, so the view starts where it started; every
other row is untouched.  With the caches invalid the cache clauses of `InlineInv` are vacuous:
this is what the `repaint` in `stop` is for (without it the cache would claim that the erased
row still shows its line). -/
theorem InlineInv.eraseLine {r : RState} {t : Term} (h : InlineInv r t) (t' : Term)
    (ht' : t' = applyOps t [.el2, .cr]) :
    InlineInv r.repaint t' ∧ viewTop r.repaint t' = viewTop r t ∧
    t'.main.cr = t.main.cr ∧ t'.main.top = t.main.top ∧ t'.alt = t.alt ∧ t'.w = t.w ∧
    t'.h = t.h ∧ rowBlank t.w t'.main t'.main.cr ∧
    (∀ ρ, ρ ≠ t.main.cr → ∀ c, t'.main.cells ρ c = t.main.cells ρ c) := by
  obtain ⟨b1, b2, b3, b4, b5, b6, b7, b8, b9⟩ := eraseLine_term t h.onAlt t' ht'
  have hcell : ∀ ρ, ρ ≠ t.main.cr → ∀ c, t'.main.cells ρ c = t.main.cells ρ c := by
    intro ρ hρ c
    rw [b9, if_neg (fun hh => hρ hh.1)]
  refine ⟨⟨h.alt, b1, by rw [b2]; exact h.width, by rw [b3]; exact h.height,
    by rw [b2]; exact h.wpos, by rw [b3]; exact h.hpos, ⟨b7, b8⟩, ?_, ?_, ?_, ?_⟩, ?_, b6, b5, b4,
    b2, b3, ?_, hcell⟩
  · show t'.main.top + max r.linesRendered 1 ≤ t'.main.cr + 1 ∧ t'.main.cr < t'.main.top + t'.h
    rw [b5, b6, b3]; exact h.inside
  · intro ρ h1 h2
    rw [b6] at h1
    rw [b5, b3] at h2
    rw [b2]
    exact rowBlank_congr (hcell ρ (by omega)) (h.below ρ h1 h2)
  · intro ls hls
    exact absurd hls (by simp [RState.repaint])
  · intro hne
    exact absurd rfl hne
  · show t'.main.cr + 1 - max r.linesRendered 1 = t.main.cr + 1 - max r.linesRendered 1
    rw [b6]
  · intro c hc
    rw [b9, b6, if_pos ⟨rfl, hc⟩]

/-- `InlineInv` is preserved by ANY flush with nothing queued — a pending view or none (then the
flush does nothing) —, the view stays where it is and the rows above it are untouched -/
theorem inline_flush_inv_any (r : RState) (t : Term) (hinv : InlineInv r t) (hq : r.queued = []) :
    InlineInv (flush r).1 (applyOps t (flush r).2) ∧
    (flush r).1.queued = [] ∧
    viewTop (flush r).1 (applyOps t (flush r).2) = viewTop r t ∧
    (applyOps t (flush r).2).alt = t.alt ∧
    (applyOps t (flush r).2).w = t.w ∧ (applyOps t (flush r).2).h = t.h ∧
    (flush r).1.height = r.height ∧
    (∀ ρ, ρ < viewTop r t → ∀ c, (applyOps t (flush r).2).main.cells ρ c = t.main.cells ρ c) := by
  by_cases hbuf : r.buf = []
  · have hnoop : flush r = (r, []) := flush_noop r (by simp [hbuf])
    rw [hnoop]
    exact ⟨hinv, hq, rfl, rfl, rfl, rfl, rfl, fun _ _ _ => rfl⟩
  · obtain ⟨a1, a2, a3, _, a5, a6, a7, a8, _, _⟩ := inline_flush_inv r t hinv hq hbuf
    exact ⟨a1, a2, a3, a5, a6, a7, (flush_size r).2.1, a8⟩

/-- **after `stop` the inline invariant holds again.**  `stop` = flush, EL2, CR, caches
invalidated: renderer and terminal still satisfy `InlineInv`; nothing is queued; both caches are
invalid (the next flush of any view paints every line); `linesRendered` is what the flush left —
it still counts the erased cursor row —, so the view starts at the same row; the cursor is at
column 0 of the last view row, which is blank; rows above the view, the alt screen and the size
are untouched. -/
theorem inline_stop_inv (r : RState) (t : Term) (hinv : InlineInv r t) (hq : r.queued = [])
    (r1 : RState) (t1 : Term) (hr1 : r1 = (stop r).1) (ht1 : t1 = applyOps t (stop r).2) :
    InlineInv r1 t1 ∧ r1.queued = [] ∧ r1.lastRender = [] ∧ r1.lastLines = none ∧
    r1.linesRendered = (flush r).1.linesRendered ∧ r1.height = r.height ∧ r1.width = r.width ∧
    viewTop r1 t1 = viewTop r t ∧ t1.alt = t.alt ∧ t1.w = t.w ∧ t1.h = t.h ∧
    t1.main.cr + 1 = viewTop r t + max r1.linesRendered 1 ∧
    t1.main.cc = 0 ∧ t1.main.pw = false ∧ rowBlank t.w t1.main t1.main.cr ∧
    (∀ ρ, ρ < viewTop r t → ∀ c, t1.main.cells ρ c = t.main.cells ρ c) := by
  obtain ⟨a1, a2, a3, a4, a5, a6, a7, a8⟩ := inline_flush_inv_any r t hinv hq
  rw [stop_ops, applyOps_append] at ht1
  rw [stop_state] at hr1
  obtain ⟨b1, b2, b3, _, b5, b6, b7, b8, b9⟩ := a1.eraseLine t1 ht1
  subst hr1
  have hin := a1.inside.1
  have hvt : viewTop (flush r).1 (applyOps t (flush r).2) ≤ (applyOps t (flush r).2).main.cr := by
    unfold viewTop; omega
  refine ⟨b1, a2, rfl, rfl, rfl, a7, (flush_size r).1, by rw [b2, a3], by rw [b5, a4],
    by rw [b6, a5], by rw [b7, a6], ?_, b1.col.1, b1.col.2, by rw [← a5]; exact b8, ?_⟩
  · rw [← a3, b3]
    show _ = viewTop _ _ + max (flush r).1.linesRendered 1
    unfold viewTop; omega
  · intro ρ hρ c
    rw [← a3] at hρ
    rw [b9 ρ (by omega) c]
    exact a8 ρ (by rw [← a3]; exact hρ) c

end Tea.Render

/-! ## C18: signals in the Lifecycle LTS -/
namespace Tea.Runtime.Life

/-- a signal taken by the handler goroutine while the loop is in its `select`, then received by
the loop: the handler has exited and the loop has ended with the signal's cause -/
theorem signal_taken {s : St} (hsig : s.sig = .waiting) (hign : s.ignoreSignals = false)
    (hel : s.el = .select) (b : Bool) :
    runLabels s [.signal b, .elRecvSig] =
      some { s with sig := .exited, el := .exited (if b then .interrupt else .quit) } := by
  simp [runLabels, step, hsig, hign, hel]

/-- Run computes its error from the loop's cause and the context as it is at that moment -/
theorem runTail_err {s s' : St} (hs : step s .runTail = some s') {c : Cause}
    (hel : s.el = .exited c) : s'.runErr = errOf c s.ctxDone ∧ s'.runPc = .tail := by
  simp only [step, hel] at hs
  split at hs
  · cases hs; exact ⟨rfl, rfl⟩
  · cases hs

/-- the configuration the start-up steps read is the one the program was started with (the
ignore-signals flag is NOT among these facts: ReleaseTerminal / RestoreTerminal write it, see
`inv_sig` in `Tea/Proofs/LifecycleExec.lean`) -/
theorem inv_config {c : Config} {s : St} (hr : Reachable c s) :
    s.withSignalHandler = c.withSignalHandler ∧
    s.withResize = c.withResize ∧ s.withInitCmd = c.withInitCmd ∧ s.withInput = c.withInput ∧
    s.cancelable = c.cancelable := by
  refine reachable_induct (fun s =>
    s.withSignalHandler = c.withSignalHandler ∧ s.withResize = c.withResize ∧
    s.withInitCmd = c.withInitCmd ∧ s.withInput = c.withInput ∧ s.cancelable = c.cancelable)
    ⟨rfl, rfl, rfl, rfl, rfl⟩ ?_ hr
  intro s s' l _ ih hs
  step_cases hs l
  all_goals exact ih

/-- without a signal handler there is never a handler goroutine -/
theorem inv_no_handler {c : Config} (hc : c.withSignalHandler = false) {s : St}
    (hr : Reachable c s) : s.sig = .absent := by
  refine reachable_induct (fun s => s.sig = .absent) (by simp [init0]) ?_ hr
  intro s s' l hrs ih hs
  have hw : s.withSignalHandler = false := by rw [(inv_config hrs).1, hc]
  step_cases hs l
  all_goals first
    | exact ih
    | (simp_all; done)

/-- the terminal has been restored at least once when Run's shutdown is done, hence when Run
has returned from it - every return but the one after a failed `initTerminal`, which comes before
anything was written (`startTermFails`: the loop has not begun, no shutdown) -/
theorem inv_restored {c : Config} {s : St} (hr : Reachable c s) :
    (s.runPc = .tail → s.runSh = .done → 1 ≤ s.restores) ∧
    (s.runPc = .returned → s.el ≠ .notStarted → 1 ≤ s.restores) := by
  have key : (s.runPc = .tail → s.runSh = .done → 1 ≤ s.restores) ∧
      (s.runPc = .returned → s.runSh = .done → 1 ≤ s.restores) := by
    refine reachable_induct
      (fun s => (s.runPc = .tail → s.runSh = .done → 1 ≤ s.restores) ∧
        (s.runPc = .returned → s.runSh = .done → 1 ≤ s.restores)) (by simp [init0]) ?_ hr
    intro s s' l hrs ih hs
    have S := (inv_start hrs).starting
    obtain ⟨h1, h2⟩ := ih
    step_cases hs l
    all_goals first
      | exact ⟨h1, h2⟩
      | (constructor <;> simp_all <;> omega)
      | (constructor <;> simp_all; done)
      | (have := S _ (by assumption); constructor <;> simp_all; done)
      | (have := S _ (And.left (by assumption)); constructor <;> simp_all; done)
  refine ⟨key.1, fun hret hel => ?_⟩
  rcases (inv_start hr).returned hret with h | h
  · exact key.2 hret h
  · exact absurd h.1 hel

end Tea.Runtime.Life

/-! ## C18: the renderer and the window size -/
namespace Tea.Render
open Tea Tea.VT

/-- with an invalid line cache no line can be skipped -/
theorem sameAsLast_of_none (r : RState) (h : r.lastLines = none) (i : Nat) (l : Line) :
    sameAsLast r i l = false := by
  simp [sameAsLast, h]

/-- with an invalid line cache the paint loop prints every line it is given (cut at the width) -/
theorem paintLineOps_prints (r : RState) (h : r.lastLines = none) (fq sh : Bool) (n i : Nat)
    (l : Line) :
    TermOp.text (if r.width > 0 then truncateLine r.width l else l) ∈ paintLineOps r fq sh n i l := by
  simp [paintLineOps, sameAsLast_of_none r h]

theorem paintOps_prints (r : RState) (h : r.lastLines = none) (fq sh : Bool) (n : Nat) :
    ∀ (ls : List Line) (i : Nat) (l : Line), l ∈ ls →
      TermOp.text (if r.width > 0 then truncateLine r.width l else l) ∈ paintOps r fq sh n i ls := by
  intro ls
  induction ls with
  | nil => intro i l hl; simp at hl
  | cons a ls ih =>
    intro i l hl
    simp only [paintOps, List.mem_append]
    rcases List.mem_cons.1 hl with rfl | hl
    · exact Or.inl (paintLineOps_prints r h fq sh n i l)
    · exact Or.inr (ih (i + 1) l hl)

/-- with an empty render cache and an invalid line cache, the flush of a pending view prints
every line of its frame (cut at the width): nothing is skipped -/
theorem flush_prints_all (r : RState) (hbuf : r.buf ≠ []) (hlr : r.lastRender = [])
    (hll : r.lastLines = none) (l : Line) (hl : l ∈ frameLines r) :
    TermOp.text (if r.width > 0 then truncateLine r.width l else l) ∈ (flush r).2 := by
  have hne : (r.buf.isEmpty || r.buf == r.lastRender) = false := by
    rw [hlr]
    cases hb : r.buf with
    | nil => exact absurd hb hbuf
    | cons _ _ => rfl
  unfold flush
  rw [if_neg (by rw [hne]; simp)]
  simp only [List.mem_append]
  exact Or.inl (Or.inr (paintOps_prints r hll _ _ _ _ _ l hl))

/-- every text the paint loop prints is a line cut at the width: it takes at most `width` cells
(its escape sequences, which take none, are all kept) -/
theorem paintLineOps_text_le (r : RState) (hw : 0 < r.width) (fq sh : Bool) (n i : Nat) (l : Line)
    (x : Bytes) (hx : TermOp.text x ∈ paintLineOps r fq sh n i l) : lineWidth x ≤ r.width := by
  cases hs : canSkip r fq sh n i l with
  | true =>
    rw [paintLineOps_skip r fq sh n i l hs] at hx
    split at hx <;> simp at hx
  | false =>
    rw [paintLineOps_paint r fq sh n i l hs hw] at hx
    simp only [List.mem_append, lineOps] at hx
    rcases hx with hx | hx | (hx | hx) | hx
    · split at hx <;> simp at hx
    · split at hx <;> simp at hx
    · simp only [List.mem_cons, List.mem_nil_iff, or_false, TermOp.text.injEq] at hx
      rw [hx]; exact truncateLine_width_le _ _
    · split at hx <;> simp at hx
    · split at hx <;> simp at hx

theorem paintOps_text_le (r : RState) (hw : 0 < r.width) (fq sh : Bool) (n : Nat) :
    ∀ (ls : List Line) (i : Nat) (x : Bytes), TermOp.text x ∈ paintOps r fq sh n i ls →
      lineWidth x ≤ r.width := by
  intro ls
  induction ls with
  | nil => intro i x hx; simp [paintOps] at hx
  | cons l ls ih =>
    intro i x hx
    simp only [paintOps, List.mem_append] at hx
    rcases hx with hx | hx
    · exact paintLineOps_text_le r hw fq sh n i l x hx
    · exact ih (i + 1) x hx

/-- with no printed lines queued, every text a flush writes takes at most `width` cells: no line
of a view can reach past the last column -/
theorem flush_text_le (r : RState) (hw : 0 < r.width) (hq : r.queued = []) (x : Bytes)
    (hx : TermOp.text x ∈ (flush r).2) : lineWidth x ≤ r.width := by
  unfold flush at hx
  split at hx
  · simp at hx
  · simp only [hq, List.isEmpty_nil, Bool.not_true, Bool.false_and, Bool.false_eq_true, if_false,
      List.append_nil, List.mem_append] at hx
    rcases hx with (hx | hx) | hx
    · split at hx
      · simp at hx
      · split at hx <;> simp at hx
    · exact paintOps_text_le r hw _ _ _ _ _ x hx
    · split at hx <;> simp at hx

end Tea.Render
