import Tea.Proofs.ChunkedStraddle
import Tea.Input.StreamSpec
/-
Helper lemmas for C15, streams of events over any number of completely filled reads:
the decode loop with `more = true` on a prefix of a `CutStable` stream emits the events that
lie completely before the cut (the last one possibly held back) and keeps the bytes from the
start of the first not-yet-emitted event up to the cut; the reader on such a stream.
No property theorems here.
-/
namespace Tea.Input
open Tea Tea.Utf8

/-- the bytes of a stream of events -/
abbrev streamBytes (evs : List (Bytes × Msg)) : Bytes := (evs.map Prod.fst).flatten

/-- what the reader must emit for a stream of events -/
abbrev streamOuts (evs : List (Bytes × Msg)) : List Out :=
  evs.map (fun p => { msg := some p.2, consumed := p.1 })

theorem streamOK_drop (T : Table) (lens : List Nat) : ∀ (evs : List (Bytes × Msg)) (n : Nat),
    StreamOK T lens evs → StreamOK T lens (evs.drop n) := by
  intro evs
  induction evs with
  | nil => intro n h; simpa using h
  | cons p tl ih =>
    intro n h
    cases n with
    | zero => simpa using h
    | succ n => obtain ⟨s, m⟩ := p; exact ih n h.2.2

theorem cutStable_drop (T : Table) (lens : List Nat) : ∀ (evs : List (Bytes × Msg)) (n : Nat),
    CutStable T lens evs → CutStable T lens (evs.drop n) := by
  intro evs
  induction evs with
  | nil => intro n h; simpa using h
  | cons p tl ih =>
    intro n h
    cases n with
    | zero => simpa using h
    | succ n => obtain ⟨s, m⟩ := p; exact ih n h.2.2.2

/-- a whole `StreamOK` stream decoded with `more = false` (a short read, or one-shot decoding):
exactly its events, nothing left (the C08 stream lemma, restated here because the C08 helper
files are not imported by the C15 files) -/
theorem decodeLoop_stream_false (T : Table) (lens : List Nat) :
    ∀ (evs : List (Bytes × Msg)) (acc : List Out) (fuel : Nat),
    StreamOK T lens evs → (streamBytes evs).length < fuel →
    decodeLoop T lens false fuel (streamBytes evs) acc = .ok (acc.reverse ++ streamOuts evs, []) := by
  intro evs
  induction evs with
  | nil =>
    intro acc fuel _ hf
    cases fuel with
    | zero => simp at hf
    | succ f => simp [decodeLoop]
  | cons p tl ih =>
    intro acc fuel hs hf
    obtain ⟨s, m⟩ := p
    obtain ⟨hne, hdet, htl⟩ := hs
    cases fuel with
    | zero => simp at hf
    | succ f =>
      simp only [streamBytes, List.map_cons, List.flatten_cons] at hf ⊢
      rw [decodeLoop_step T lens false f s _ acc (some m) hne hdet]
      have := ih ({ msg := some m, consumed := s } :: acc) f htl
        (by simp only [List.length_append] at hf; have := List.length_pos_iff.2 hne; simp only [streamBytes]; omega)
      simp only [streamBytes] at this
      rw [this]
      simp

/-- the decode loop of a completely filled read (`more = true`) on the first `k` bytes of a
`StreamOK`, `CutStable` stream: it emits the first `n` events, for some `n`, and what it keeps,
followed by the unread bytes, is exactly the rest of the stream from event `n` on. -/
theorem decodeLoop_cut (T : Table) (lens : List Nat) :
    ∀ (evs : List (Bytes × Msg)), StreamOK T lens evs → CutStable T lens evs →
    ∀ (k fuel : Nat) (acc : List Out), k ≤ (streamBytes evs).length → k < fuel →
    ∃ n left, decodeLoop T lens true fuel ((streamBytes evs).take k) acc
        = .ok (acc.reverse ++ streamOuts (evs.take n), left) ∧
      left ++ (streamBytes evs).drop k = streamBytes (evs.drop n) := by
  intro evs
  induction evs with
  | nil =>
    intro _ _ k fuel acc _ hf
    obtain ⟨f, rfl⟩ : ∃ f, fuel = f + 1 := ⟨fuel - 1, by omega⟩
    exact ⟨0, [], by simp [decodeLoop, streamBytes], by simp [streamBytes]⟩
  | cons p tl ih =>
    intro hs hc k fuel acc hk hf
    obtain ⟨s, m⟩ := p
    obtain ⟨hne, _, htl⟩ := hs
    obtain ⟨ha, hb, hcc, hctl⟩ := hc
    obtain ⟨f, rfl⟩ : ∃ f, fuel = f + 1 := ⟨fuel - 1, by omega⟩
    have hslen : 0 < s.length := List.length_pos_iff.2 hne
    have hflat : streamBytes ((s, m) :: tl) = s ++ streamBytes tl := by simp [streamBytes]
    rw [hflat] at hk ⊢
    simp only [List.length_append] at hk
    by_cases h0 : k = 0
    · subst h0
      exact ⟨0, [], by simp [decodeLoop], by simp [streamBytes]⟩
    by_cases h1 : k < s.length
    · -- the cut is inside the first event: held back
      refine ⟨0, s.take k, ?_, ?_⟩
      · rw [List.take_append_of_le_length (by omega)]
        have hne' : s.take k ≠ [] := by
          intro h
          have := congrArg List.length h
          rw [List.length_take_of_le (by omega)] at this
          simp at this; omega
        rw [decodeLoop_held_acc T lens true _ hne' (ha k (by omega) h1)]
        simp
      · rw [List.drop_append_of_le_length (by omega), ← List.append_assoc, List.take_append_drop]
        simp [streamBytes]
    by_cases h2 : k = s.length
    · -- the cut is right after the first event: decoded or held back
      subst h2
      rw [List.take_left' rfl, List.drop_left' rfl]
      rcases hcc with hcc | hcc
      · refine ⟨1, [], ?_, by simp [streamBytes]⟩
        have := decodeLoop_step T lens true f s [] acc (some m) hne (by rw [List.append_nil]; exact hcc)
        rw [List.append_nil] at this
        rw [this]
        obtain ⟨g, rfl⟩ : ∃ g, f = g + 1 := ⟨f - 1, by omega⟩
        simp [decodeLoop]
      · refine ⟨0, s, ?_, by simp [streamBytes]⟩
        rw [decodeLoop_held_acc T lens true _ hne hcc]
        simp
    · -- the cut is after the first event: it is emitted, go on
      obtain ⟨j, rfl⟩ : ∃ j, k = s.length + j := ⟨k - s.length, by omega⟩
      have hj : 0 < j := by omega
      rw [List.take_length_add_append, List.drop_length_add_append]
      have hr : (streamBytes tl).take j ≠ [] := by
        intro h
        have := congrArg List.length h
        rw [List.length_take_of_le (by omega)] at this
        simp at this; omega
      rw [decodeLoop_step T lens true f s _ acc (some m) hne (hb _ hr (List.take_prefix _ _))]
      obtain ⟨n, left, h3, h4⟩ := ih htl hctl j f ({ msg := some m, consumed := s } :: acc) (by omega) (by omega)
      refine ⟨n + 1, left, ?_, ?_⟩
      · rw [h3]; simp [streamOuts]
      · rw [h4]; simp

/-- the reader on a `StreamOK`, `CutStable` stream delivered as completely filled reads followed
by one short read: invariant "emitted = the events completely decoded so far; left-over ++
unread = the bytes of the remaining events" -/
theorem readAll_stream (T : Table) (lens : List Nat) (eof : Bool) :
    ∀ (fuel : Nat) (evs : List (Bytes × Msg)) (left rem : Bytes) (acc : List Out),
    StreamOK T lens evs → CutStable T lens evs → rem.length ≤ fuel → left ++ rem = streamBytes evs →
    readAll T lens eof (readsOf bufSize rem fuel) left acc = .ok (acc ++ streamOuts evs, []) := by
  have short : ∀ (evs : List (Bytes × Msg)) (left rem : Bytes) (acc : List Out),
      StreamOK T lens evs → rem.length < bufSize → left ++ rem = streamBytes evs →
      readAll T lens eof [rem] left acc = .ok (acc ++ streamOuts evs, []) := by
    intro evs left rem acc hs hlt he
    have hm : (rem.length == bufSize) = false := by simp; omega
    have : processRead T lens left rem = .ok (streamOuts evs, []) := by
      unfold processRead
      rw [hm, he, decodeLoop_stream_false T lens evs [] _ hs (by omega)]
      simp
    exact readAll_one_short T lens eof rem left acc (by omega) _ _ this
  intro fuel
  induction fuel with
  | zero =>
    intro evs left rem acc hs _ hlen he
    simp only [readsOf]
    exact short evs left rem acc hs (by unfold bufSize; omega) he
  | succ f ih =>
    intro evs left rem acc hs hc hlen he
    simp only [readsOf]
    by_cases hlt : rem.length < bufSize
    · rw [if_pos hlt]
      exact short evs left rem acc hs hlt he
    · rw [if_neg hlt]
      have hclen : (rem.take bufSize).length = bufSize := List.length_take_of_le (by omega)
      have hm : ((rem.take bufSize).length == bufSize) = true := by simp [hclen]
      have hpre : left ++ rem.take bufSize = (streamBytes evs).take (left.length + bufSize) := by
        rw [← he, List.take_length_add_append]
      have hk : left.length + bufSize ≤ (streamBytes evs).length := by
        rw [← he, List.length_append]; omega
      obtain ⟨n, left', h1, h2⟩ := decodeLoop_cut T lens evs hs hc (left.length + bufSize)
        (((streamBytes evs).take (left.length + bufSize)).length + 1) [] hk
        (by rw [List.length_take_of_le hk]; omega)
      have hread : processRead T lens left (rem.take bufSize) = .ok (streamOuts (evs.take n), left') := by
        unfold processRead
        rw [hm, hpre, h1]
        simp
      simp only [readAll, hread]
      have h3 : left' ++ rem.drop bufSize = streamBytes (evs.drop n) := by
        rw [← h2, ← he, List.drop_length_add_append]
      rw [ih (evs.drop n) left' (rem.drop bufSize) _ (streamOK_drop T lens evs n hs)
        (cutStable_drop T lens evs n hc) (by rw [List.length_drop]; unfold bufSize at hlt ⊢; omega) h3]
      simp only [streamOuts, List.append_assoc, ← List.map_append, List.take_append_drop]

end Tea.Input
