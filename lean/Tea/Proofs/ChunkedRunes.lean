import Tea.Proofs.Chunked
/-
Helper lemmas for C15, printable characters: a run of printable characters that spans
any number of completely filled reads is held back whole (whether a buffer boundary falls
between two characters or inside a multi-byte character) and delivered as one message by
the final short read.  No property theorems here.
-/
namespace Tea.Utf8
open Tea

/-! ### truncated encodings -/

theorem decodeRune_short (p0 : Nat) (rest : Bytes) (sz lo hi : Nat) (h0 : ¬ p0 < 0x80)
    (hlead : lead p0 = some (sz, lo, hi)) (hlen : (p0 :: rest).length < sz) :
    decodeRune (p0 :: rest) = (runeError, 1) := by
  unfold decodeRune
  simp only [hlead]
  rw [if_neg h0, if_pos hlen]

theorem fullRune_one (p0 : Nat) (sz lo hi : Nat) (hlead : lead p0 = some (sz, lo, hi)) (hsz : 2 ≤ sz) :
    fullRune [p0] = false := by
  unfold fullRune
  simp only [hlead]
  rw [if_neg (by simp; omega)]

theorem fullRune_two (p0 b1 : Nat) (sz lo hi : Nat) (hlead : lead p0 = some (sz, lo, hi)) (hsz : 3 ≤ sz)
    (hlo : lo ≤ b1) (hhi : b1 ≤ hi) : fullRune [p0, b1] = false := by
  unfold fullRune
  simp only [hlead]
  rw [if_neg (by simp; omega)]
  have : (decide (b1 < lo) || decide (hi < b1)) = false := by simp; omega
  rw [this]
  simp

theorem fullRune_three (p0 b1 b2 : Nat) (sz lo hi : Nat) (hlead : lead p0 = some (sz, lo, hi)) (hsz : 4 ≤ sz)
    (hlo : lo ≤ b1) (hhi : b1 ≤ hi) (hc : isCont b2 = true) : fullRune [p0, b1, b2] = false := by
  unfold fullRune
  simp only [hlead]
  rw [if_neg (by simp; omega)]
  have : (decide (b1 < lo) || decide (hi < b1)) = false := by simp; omega
  rw [this]
  simp [hc]

/-- a proper non-empty prefix of the encoding of a valid scalar value is not a full rune and
decodes as RuneError -/
theorem trunc_encodeRune (r : Nat) (hr : validScalar r = true) (k : Nat) (hk : 0 < k)
    (hk' : k < (encodeRune r).length) :
    (decodeRune ((encodeRune r).take k)).1 = runeError ∧ fullRune ((encodeRune r).take k) = false := by
  have hv : r < 0xD800 ∨ (0xDFFF < r ∧ r ≤ 0x10FFFF) := by
    simpa [validScalar] using hr
  unfold encodeRune at hk' ⊢
  by_cases h1 : r < 0x80
  · rw [if_pos h1] at hk'
    simp at hk'; omega
  · rw [if_neg h1] at hk' ⊢
    by_cases h2 : r < 0x800
    · rw [if_pos h2] at hk' ⊢
      have hk1 : k = 1 := by simp at hk'; omega
      subst hk1
      have hl := lead_C (r / 64) (by omega) (by omega)
      simp only [List.take_succ_cons, List.take_zero]
      exact ⟨by rw [decodeRune_short _ _ _ _ _ (by omega) hl (by simp)], fullRune_one _ _ _ _ hl (by omega)⟩
    · rw [if_neg h2] at hk' ⊢
      have h3 : ((decide (0xD800 ≤ r) && decide (r ≤ 0xDFFF)) || decide (r > 0x10FFFF)) = false := by
        simp; omega
      rw [h3] at hk' ⊢
      simp only [Bool.false_eq_true, if_false] at hk' ⊢
      by_cases h4 : r < 0x10000
      · rw [if_pos h4] at hk' ⊢
        have hl := lead_E (r / 4096) (by omega)
        have hk1 : k = 1 ∨ k = 2 := by simp at hk'; omega
        rcases hk1 with hk1 | hk1
        · subst hk1
          simp only [List.take_succ_cons, List.take_zero]
          exact ⟨by rw [decodeRune_short _ _ _ _ _ (by omega) hl (by simp)], fullRune_one _ _ _ _ hl (by omega)⟩
        · subst hk1
          simp only [List.take_succ_cons, List.take_zero]
          refine ⟨by rw [decodeRune_short _ _ _ _ _ (by omega) hl (by simp)], fullRune_two _ _ _ _ _ hl (by omega) ?_ ?_⟩
          · split <;> omega
          · split <;> omega
      · rw [if_neg h4] at hk' ⊢
        have hl := lead_F (r / 262144) (by omega)
        have hk1 : k = 1 ∨ k = 2 ∨ k = 3 := by simp at hk'; omega
        rcases hk1 with hk1 | hk1 | hk1
        · subst hk1
          simp only [List.take_succ_cons, List.take_zero]
          exact ⟨by rw [decodeRune_short _ _ _ _ _ (by omega) hl (by simp)], fullRune_one _ _ _ _ hl (by omega)⟩
        · subst hk1
          simp only [List.take_succ_cons, List.take_zero]
          refine ⟨by rw [decodeRune_short _ _ _ _ _ (by omega) hl (by simp)], fullRune_two _ _ _ _ _ hl (by omega) ?_ ?_⟩
          · split <;> omega
          · split <;> omega
        · subst hk1
          simp only [List.take_succ_cons, List.take_zero]
          refine ⟨by rw [decodeRune_short _ _ _ _ _ (by omega) hl (by simp)],
            fullRune_three _ _ _ _ _ _ hl (by omega) ?_ ?_ (isCont_enc _ (by omega))⟩
          · split <;> omega
          · split <;> omega

end Tea.Utf8

namespace Tea.Input
open Tea Tea.Utf8

/-- a printable character: a valid scalar value above the space, not DEL, not U+FFFD (which
the decoder cannot tell from a decoding error) -/
def printable (r : Nat) : Bool := validScalar r && decide (32 < r) && r != 127 && r != runeError

theorem printable_iff {r : Nat} : printable r = true ↔
    validScalar r = true ∧ 32 < r ∧ r ≠ 127 ∧ r ≠ runeError := by
  simp [printable, and_assoc]

/-- every key of the table starts with a control character, the space or DEL (true of
bubbletea's table: every sequence starts with ESC, a control character, space or DEL) -/
def ControlKeyed (T : Table) : Prop := ∀ e ∈ T, ∀ c, e.seq.head? = some c → c ≤ 32 ∨ c = 127

/-- Boolean form of `ControlKeyed`, for `decide` on a concrete table -/
def controlKeyedB (T : Table) : Bool :=
  T.all (fun e => match e.seq with | [] => true | c :: _ => decide (c ≤ 32) || c == 127)

theorem controlKeyed_of_B {T : Table} (h : controlKeyedB T = true) : ControlKeyed T := by
  intro e he c hc
  have := List.all_eq_true.1 h e he
  cases hs : e.seq with
  | nil => rw [hs] at hc; cases hc
  | cons x xs =>
    rw [hs] at hc this
    simp only [List.head?_cons, Option.some.injEq] at hc
    subst hc
    simpa using this

/-- "plain" first byte: above the space and not DEL (so not ESC, not NUL) -/
def plainByte (c : Nat) : Prop := 32 < c ∧ c ≠ 127

theorem encodeRune_head {r : Nat} (h : printable r = true) :
    ∃ c tl, encodeRune r = c :: tl ∧ plainByte c := by
  obtain ⟨_, h32, h127, _⟩ := printable_iff.1 h
  unfold encodeRune
  by_cases h1 : r < 0x80
  · rw [if_pos h1]; exact ⟨_, _, rfl, h32, h127⟩
  · rw [if_neg h1]
    by_cases h2 : r < 0x800
    · rw [if_pos h2]; exact ⟨_, _, rfl, by omega, by omega⟩
    · rw [if_neg h2]
      split
      · exact ⟨_, _, rfl, by omega, by omega⟩
      · split
        · exact ⟨_, _, rfl, by omega, by omega⟩
        · exact ⟨_, _, rfl, by omega, by omega⟩

theorem encodeRunes_cons (r : Nat) (rs : List Nat) :
    encodeRunes (r :: rs) = encodeRune r ++ encodeRunes rs := by
  simp [encodeRunes]

theorem encodeRunes_head {rs : List Nat} (h : ∀ r ∈ rs, printable r = true) (hne : rs ≠ []) :
    ∃ c tl, encodeRunes rs = c :: tl ∧ plainByte c := by
  cases rs with
  | nil => exact absurd rfl hne
  | cons r rs' =>
    obtain ⟨c, tl, he, hc⟩ := encodeRune_head (h r (by simp))
    exact ⟨c, tl ++ encodeRunes rs', by rw [encodeRunes_cons, he]; rfl, hc⟩

theorem encodeRunes_length_ge (rs : List Nat) : rs.length ≤ (encodeRunes rs).length := by
  induction rs with
  | nil => simp
  | cons r rs ih =>
    rw [encodeRunes_cons, List.length_append, List.length_cons]
    have : 0 < (encodeRune r).length := List.length_pos_iff.mpr (encodeRune_ne_nil r)
    omega

/-! ### detectOneMsg on a buffer that starts with a plain byte -/

theorem lookup_none_of {T : Table} {k : Bytes} (h : ∀ e ∈ T, e.seq ≠ k) : T.lookup k = none := by
  induction T with
  | nil => rfl
  | cons e es ih =>
    simp only [Table.lookup]
    have h1 : (e.seq == k) = false := by simpa using h e (by simp)
    rw [h1]
    simp only [Bool.false_eq_true, if_false]
    exact ih (fun e' he' => h e' (by simp [he']))

theorem lookupLens_plain {T : Table} (hT : ControlKeyed T) {c : Nat} (hc : plainByte c) (tl : Bytes) :
    ∀ (lens : List Nat), (∀ l ∈ lens, 0 < l) → lookupLens T (c :: tl) lens = none := by
  intro lens
  induction lens with
  | nil => intro _; rfl
  | cons sz rest ih =>
    intro hl
    have hrest := ih (fun l h => hl l (by simp [h]))
    simp only [lookupLens]
    split
    · exact hrest
    · have hsz : 0 < sz := hl sz (by simp)
      obtain ⟨n, rfl⟩ : ∃ n, sz = n + 1 := ⟨sz - 1, by omega⟩
      have : T.lookup ((c :: tl).take (n + 1)) = none := by
        apply lookup_none_of
        intro e he heq
        have := hT e he c (by rw [heq]; rfl)
        unfold plainByte at hc
        omega
      rw [this]
      exact hrest

theorem detectOneMsg_plain (T : Table) (lens : List Nat) (hl : ∀ l ∈ lens, 0 < l) (hT : ControlKeyed T)
    {c : Nat} (hc : plainByte c) (tl : Bytes) (more : Bool) :
    detectOneMsg T lens (c :: tl) more = detectTail (c :: tl) more := by
  have hne : c ≠ 0x1b := by unfold plainByte at hc; omega
  have h1 : isIncompleteEvent T (c :: tl) = false := by
    simp [isIncompleteEvent, hne]
  have h2 : detectMouse (c :: tl) = .ok none := by
    unfold detectMouse
    split
    · split
      · rename_i heq; injection heq with h _; exact absurd h hne
      · rename_i heq; injection heq with h _; exact absurd h hne
      · rfl
    · rfl
  have h3 : detectReportFocus (c :: tl) = none := by
    simp [detectReportFocus, hne]
  have h4 : detectBracketedPaste (c :: tl) = none := by
    unfold detectBracketedPaste
    rw [if_pos]
    simp only [Bool.or_eq_true, decide_eq_true_eq, bne_iff_ne, ne_eq]
    by_cases hlen : (c :: tl).length < bpStart.length
    · exact Or.inl hlen
    · right
      intro heq
      have : bpStart.length = 6 := rfl
      rw [this] at heq
      simp only [List.take_succ_cons, bpStart] at heq
      injection heq with h _
      exact hne h
  have h5 : detectSequence T lens (c :: tl) = none := by
    unfold detectSequence
    rw [lookupLens_plain hT hc tl lens hl]
    have : unknownCSILen (c :: tl) = none := by
      unfold unknownCSILen
      split
      · rename_i heq; injection heq with h _; exact absurd h hne
      · rfl
    simp only [this]
  unfold detectOneMsg
  rw [h1, h2, h3, h4, h5]
  simp

/-! ### the rune loop on encoded printable characters -/

theorem runeLoop_runes (more : Bool) (b post : Bytes) :
    ∀ (rs : List Nat) (fuel i : Nat) (acc : List Nat), (∀ r ∈ rs, printable r = true) →
      rs.length ≤ fuel → b.drop i = encodeRunes rs ++ post →
      runeLoop false more fuel b i acc =
        runeLoop false more (fuel - rs.length) b (i + (encodeRunes rs).length) (rs.reverse ++ acc) := by
  intro rs
  induction rs with
  | nil => intro fuel i acc _ _ _; simp [encodeRunes]
  | cons r rs ih =>
    intro fuel i acc hp hf hd
    obtain ⟨f, rfl⟩ : ∃ f, fuel = f + 1 := ⟨fuel - 1, by simp at hf; omega⟩
    obtain ⟨hv, h32, h127, hne⟩ := printable_iff.1 (hp r (by simp))
    rw [encodeRunes_cons, List.append_assoc] at hd
    have hi : i < b.length := by
      apply Classical.byContradiction
      intro hc
      have : b.drop i = [] := List.drop_eq_nil_iff.2 (by omega)
      rw [this] at hd
      exact encodeRune_ne_nil r (List.append_eq_nil_iff.1 hd.symm).1
    simp only [runeLoop]
    rw [if_pos hi, hd, decodeRune_encodeRune r hv]
    simp only
    have c1 : (r == runeError) = false := by simpa using hne
    have c2 : (decide (r ≤ keyUS) || r == keyDEL || r == 32) = false := by
      simp only [keyUS, keyDEL, Bool.or_eq_false_iff, beq_eq_false_iff_ne, ne_eq]
      refine ⟨⟨?_, h127⟩, ?_⟩
      · have : ¬ r ≤ 31 := by omega
        simp [this]
      · omega
    rw [c1]
    simp only [Bool.false_and, Bool.false_or, Bool.false_eq_true, if_false]
    rw [c2]
    simp only [Bool.false_eq_true, if_false]
    have hd' : b.drop (i + (encodeRune r).length) = encodeRunes rs ++ post := by
      rw [← List.drop_drop, hd, List.drop_left]
    rw [ih f (i + (encodeRune r).length) (r :: acc) (fun r' h' => hp r' (by simp [h']))
      (by simp at hf; omega) hd']
    rw [encodeRunes_cons, List.length_append]
    simp only [List.length_cons, Nat.add_sub_add_right, List.reverse_cons, List.append_assoc,
      List.singleton_append, Nat.add_assoc]

/-- the whole buffer is printable characters: the loop reaches the end -/
theorem runeLoop_all (more : Bool) (rs : List Nat) (hp : ∀ r ∈ rs, printable r = true) :
    runeLoop false more ((encodeRunes rs).length + 1) (encodeRunes rs) 0 [] =
      ((encodeRunes rs).length, rs, false) := by
  rw [runeLoop_runes more (encodeRunes rs) [] rs _ 0 [] hp
    (by have := encodeRunes_length_ge rs; omega) (by simp)]
  simp only [Nat.zero_add, List.append_nil]
  have : ∃ f, (encodeRunes rs).length + 1 - rs.length = f + 1 :=
    ⟨(encodeRunes rs).length - rs.length, by have := encodeRunes_length_ge rs; omega⟩
  obtain ⟨f, hf⟩ := this
  rw [hf]
  simp [runeLoop]

/-- printable characters followed by a truncated multi-byte character, `more = true`: the
loop takes the early "incomplete" return -/
theorem runeLoop_trunc (rs : List Nat) (hp : ∀ r ∈ rs, printable r = true) (r k : Nat)
    (hr : validScalar r = true) (hk : 0 < k) (hk' : k < (encodeRune r).length) :
    (runeLoop false true ((encodeRunes rs ++ (encodeRune r).take k).length + 1)
      (encodeRunes rs ++ (encodeRune r).take k) 0 []).2.2 = true := by
  rw [runeLoop_runes true _ ((encodeRune r).take k) rs _ 0 [] hp
    (by have := encodeRunes_length_ge rs; simp only [List.length_append]; omega) (by simp)]
  simp only [Nat.zero_add, List.append_nil]
  have : ∃ f, (encodeRunes rs ++ (encodeRune r).take k).length + 1 - rs.length = f + 1 :=
    ⟨(encodeRunes rs ++ (encodeRune r).take k).length - rs.length, by
      have := encodeRunes_length_ge rs; simp only [List.length_append]; omega⟩
  obtain ⟨f, hf⟩ := this
  rw [hf]
  obtain ⟨h1, h2⟩ := trunc_encodeRune r hr k hk hk'
  simp only [runeLoop]
  have hlt : (encodeRunes rs).length < (encodeRunes rs ++ (encodeRune r).take k).length := by
    simp only [List.length_append, List.length_take]; omega
  rw [if_pos hlt, List.drop_left]
  generalize hdr : decodeRune ((encodeRune r).take k) = dr at h1
  obtain ⟨r', rw'⟩ := dr
  simp only at h1 ⊢
  subst h1
  rw [h2]
  simp

/-! ### prefixes of an encoded run -/

/-- a prefix of an encoded run is: some whole characters, then nothing or a proper non-empty
prefix of the next character's encoding -/
theorem take_encodeRunes : ∀ (rs : List Nat) (n : Nat),
    ∃ rs1 t, (encodeRunes rs).take n = encodeRunes rs1 ++ t ∧ (∀ r ∈ rs1, r ∈ rs) ∧
      (t = [] ∨ ∃ r ∈ rs, ∃ k, 0 < k ∧ k < (encodeRune r).length ∧ t = (encodeRune r).take k) := by
  intro rs
  induction rs with
  | nil => intro n; exact ⟨[], [], by simp [encodeRunes], by simp, Or.inl rfl⟩
  | cons r rs ih =>
    intro n
    rw [encodeRunes_cons]
    by_cases hn : n < (encodeRune r).length
    · rw [List.take_append_of_le_length (by omega)]
      by_cases h0 : n = 0
      · subst h0
        exact ⟨[], [], by simp [encodeRunes], by simp, Or.inl rfl⟩
      · exact ⟨[], (encodeRune r).take n, by simp [encodeRunes], by simp,
          Or.inr ⟨r, by simp, n, by omega, hn, rfl⟩⟩
    · obtain ⟨m, rfl⟩ : ∃ m, n = (encodeRune r).length + m := ⟨n - (encodeRune r).length, by omega⟩
      rw [List.take_length_add_append]
      obtain ⟨rs1, t, h1, h2, h3⟩ := ih m
      refine ⟨r :: rs1, t, by rw [h1, encodeRunes_cons, List.append_assoc], ?_, ?_⟩
      · intro r' hr'
        rcases List.mem_cons.1 hr' with h | h
        · simp [h]
        · simp [h2 r' h]
      · rcases h3 with h3 | ⟨r', hr', k, hk⟩
        · exact Or.inl h3
        · exact Or.inr ⟨r', by simp [hr'], k, hk⟩

/-! ### detectOneMsg on runs and on prefixes of runs -/

theorem detectTail_plain {c : Nat} (hc : plainByte c) (tl : Bytes) (more : Bool) :
    detectTail (c :: tl) more =
      (let r := runeLoop false more ((c :: tl).length + 1) (c :: tl) 0 []
       if r.2.2 then .ok (0, none)
       else if r.1 ≥ (c :: tl).length && more then .ok (0, none)
       else if r.2.1.length > 0 then
         .ok (r.1, some (.key { type := if r.2.1 == [32] then keySpace else keyRunes, runes := r.2.1, alt := false }))
       else .ok (1, some (.unknownByte c))) := by
  have hne : (c == 0x1b) = false := by unfold plainByte at hc; simp; omega
  have h0 : (c == 0) = false := by unfold plainByte at hc; simp; omega
  unfold detectTail
  have hidx : idx (c :: tl) 0 = .ok c := by simp [idx]
  rw [hidx]
  simp only [hne, Bool.false_eq_true, if_false, List.getD_cons_zero, h0, Bool.and_false, Bool.false_and]

/-- a non-empty prefix of an encoded run of printable characters, read into a completely
filled buffer, is held back whole -/
theorem detectOneMsg_run_prefix (T : Table) (lens : List Nat) (hl : ∀ l ∈ lens, 0 < l) (hT : ControlKeyed T)
    (rs : List Nat) (hp : ∀ r ∈ rs, printable r = true) (n : Nat) (hne : (encodeRunes rs).take n ≠ []) :
    detectOneMsg T lens ((encodeRunes rs).take n) true = .ok (0, none) := by
  have hrs : rs ≠ [] := by
    intro h; subst h; simp [encodeRunes] at hne
  obtain ⟨c, tl, hc, hplain⟩ := encodeRunes_head hp hrs
  obtain ⟨n', rfl⟩ : ∃ n', n = n' + 1 := by
    cases n with
    | zero => simp at hne
    | succ n' => exact ⟨n', rfl⟩
  have hb : (encodeRunes rs).take (n' + 1) = c :: tl.take n' := by rw [hc]; rfl
  obtain ⟨rs1, t, h1, h2, h3⟩ := take_encodeRunes rs (n' + 1)
  have hp1 : ∀ r ∈ rs1, printable r = true := fun r hr => hp r (h2 r hr)
  have key : detectTail ((encodeRunes rs).take (n' + 1)) true = .ok (0, none) := by
    rw [hb, detectTail_plain hplain, ← hb, h1]
    rcases h3 with h3 | ⟨r, hr, k, hk, hk', ht⟩
    · subst h3
      rw [List.append_nil, runeLoop_all true rs1 hp1]
      simp
    · subst ht
      have := runeLoop_trunc rs1 hp1 r k (printable_iff.1 (hp r hr)).1 hk hk'
      simp only [this, if_true]
  rw [hb, detectOneMsg_plain T lens hl hT hplain, ← hb]
  exact key

/-- a whole encoded run of printable characters, decoded with `more = false`: one KeyRunes
message with exactly these characters, consuming the whole buffer -/
theorem detectOneMsg_run (T : Table) (lens : List Nat) (hl : ∀ l ∈ lens, 0 < l) (hT : ControlKeyed T)
    (rs : List Nat) (hp : ∀ r ∈ rs, printable r = true) (hrs : rs ≠ []) :
    detectOneMsg T lens (encodeRunes rs) false =
      .ok ((encodeRunes rs).length, some (.key { type := keyRunes, runes := rs })) := by
  obtain ⟨c, tl, hc, hplain⟩ := encodeRunes_head hp hrs
  rw [hc, detectOneMsg_plain T lens hl hT hplain, detectTail_plain hplain, ← hc, runeLoop_all false rs hp]
  have h1 : rs.length > 0 := List.length_pos_iff.mpr hrs
  have h2 : (rs == [32]) = false := by
    cases rs with
    | nil => exact absurd rfl hrs
    | cons r rs' =>
      have := (printable_iff.1 (hp r (by simp))).2.1
      simp; intro h; omega
  simp [h1, h2]

/-! ### the decode loop and the reader on a run -/

def runOut (rs : List Nat) : Out :=
  { msg := some (.key { type := keyRunes, runes := rs }), consumed := encodeRunes rs }

theorem decodeLoop_held (T : Table) (lens : List Nat) (more : Bool) (b : Bytes) (hb : b ≠ [])
    (h : detectOneMsg T lens b more = .ok (0, none)) (fuel : Nat) :
    decodeLoop T lens more (fuel + 1) b [] = .ok ([], b) := by
  simp only [decodeLoop]
  have : b.isEmpty = false := by simpa using hb
  rw [this, h]
  simp

theorem decodeLoop_run (T : Table) (lens : List Nat) (hl : ∀ l ∈ lens, 0 < l) (hT : ControlKeyed T)
    (rs : List Nat) (hp : ∀ r ∈ rs, printable r = true) (hrs : rs ≠ []) :
    decodeLoop T lens false ((encodeRunes rs).length + 1) (encodeRunes rs) [] = .ok ([runOut rs], []) := by
  have hb : encodeRunes rs ≠ [] := by
    obtain ⟨c, tl, hc, _⟩ := encodeRunes_head hp hrs
    rw [hc]; simp
  have hlen : 0 < (encodeRunes rs).length := List.length_pos_iff.mpr hb
  simp only [decodeLoop]
  have : (encodeRunes rs).isEmpty = false := by simpa using hb
  rw [this, detectOneMsg_run T lens hl hT rs hp hrs]
  simp only [Bool.false_eq_true, if_false]
  have hw : ((encodeRunes rs).length == 0) = false := by simp; omega
  rw [hw]
  simp only [Bool.false_eq_true, if_false, List.drop_length, List.take_length]
  obtain ⟨f, hf⟩ : ∃ f, (encodeRunes rs).length = f + 1 := ⟨(encodeRunes rs).length - 1, by omega⟩
  rw [hf]
  simp [decodeLoop, runOut]

/-- the reader on a run of printable characters delivered as full reads then one short
read: everything is held back until the short read, which emits the single message -/
theorem readAll_run (T : Table) (lens : List Nat) (hl : ∀ l ∈ lens, 0 < l) (hT : ControlKeyed T)
    (eof : Bool) (rs : List Nat) (hp : ∀ r ∈ rs, printable r = true) (hrs : rs ≠ []) :
    ∀ (fuel : Nat) (s' left : Bytes), s'.length ≤ fuel → left ++ s' = encodeRunes rs →
      readAll T lens eof (readsOf bufSize s' fuel) left [] = .ok ([runOut rs], []) := by
  have short : ∀ (s' left : Bytes), s'.length < bufSize → left ++ s' = encodeRunes rs →
      readAll T lens eof [s'] left [] = .ok ([runOut rs], []) := by
    intro s' left hs he
    have hm : (s'.length == bufSize) = false := by simp; omega
    have : processRead T lens left s' = .ok ([runOut rs], []) := by
      unfold processRead
      rw [hm, he]
      exact decodeLoop_run T lens hl hT rs hp hrs
    rw [readAll_one_short T lens eof s' left [] (by omega) _ _ this]
    rfl
  intro fuel
  induction fuel with
  | zero =>
    intro s' left hs he
    simp only [readsOf]
    exact short s' left (by unfold bufSize; omega) he
  | succ f ih =>
    intro s' left hs he
    simp only [readsOf]
    by_cases hlt : s'.length < bufSize
    · rw [if_pos hlt]
      exact short s' left hlt he
    · rw [if_neg hlt]
      have hclen : (s'.take bufSize).length = bufSize := List.length_take_of_le (by omega)
      have hm : ((s'.take bufSize).length == bufSize) = true := by simp [hclen]
      have hpre : left ++ s'.take bufSize = (encodeRunes rs).take (left.length + bufSize) := by
        rw [← he, List.take_length_add_append]
      have hne : left ++ s'.take bufSize ≠ [] := by
        intro h
        have := congrArg List.length h
        rw [List.length_append, hclen] at this
        unfold bufSize at this
        simp at this
      have hheld : processRead T lens left (s'.take bufSize) = .ok ([], left ++ s'.take bufSize) := by
        unfold processRead
        rw [hm]
        apply decodeLoop_held T lens true _ hne
        rw [hpre]
        rw [hpre] at hne
        exact detectOneMsg_run_prefix T lens hl hT rs hp _ hne
      simp only [readAll, hheld, List.append_nil]
      apply ih
      · rw [List.length_drop]; unfold bufSize at hlt ⊢; omega
      · rw [List.append_assoc, List.take_append_drop, he]

end Tea.Input
