import Tea.Proofs.InlineHistory
/-
ClearScreen while inline.  `.clearScreen` writes ED2, HOME and invalidates the caches but keeps
`linesRendered`: the cursor is then at the top of a blank window, so `InlineInv.inside` no longer
holds (the renderer still believes that `linesRendered` rows end at the cursor row).  The state
in between is `ClearedInv`; the next painting flush moves up with a CUU that the terminal clamps
at the top row of the window, paints from there — printed lines first, if any are queued — and
re-establishes `InlineInv` (`cleared_flush_inv`).
-/
namespace Tea.Render
open Tea Tea.VT

/-- Renderer and terminal after a ClearScreen while inline: both on the main screen with the same
size; every window row is blank; the cursor is in the top row of the window, column 0, no pending
wrap; both caches of the renderer are invalid (so the next flush of a pending view paints every
line).  Nothing is said about `linesRendered`. -/
structure ClearedInv (r : RState) (t : Term) : Prop where
  alt : r.altActive = false
  onAlt : t.onAlt = false
  width : r.width = t.w
  height : r.height = t.h
  wpos : 1 ≤ t.w
  hpos : 1 ≤ t.h
  cur : t.main.cr = t.main.top ∧ t.main.cc = 0 ∧ t.main.pw = false
  blank : ∀ ρ, t.main.top ≤ ρ → ρ < t.main.top + t.h → rowBlank t.w t.main ρ
  lines : r.lastLines = none
  render : r.lastRender = []

/-- with an empty render cache nothing stops a flush of a pending view -/
theorem ClearedInv.J {r : RState} {t : Term} (h : ClearedInv r t) : J r := fun _ => h.render

/-- ED2, HOME on a terminal showing its main screen: the window is blanked, the cursor goes to
its top left corner, nothing else changes (in particular no row above the window) -/
theorem clearScreen_term (t : Term) (hon : t.onAlt = false) (hh1 : 1 ≤ t.h) :
    (applyOps t [.ed2, .home]).onAlt = false ∧ (applyOps t [.ed2, .home]).w = t.w ∧
    (applyOps t [.ed2, .home]).h = t.h ∧ (applyOps t [.ed2, .home]).alt = t.alt ∧
    (applyOps t [.ed2, .home]).main.top = t.main.top ∧
    (applyOps t [.ed2, .home]).main.cr = t.main.top ∧
    (applyOps t [.ed2, .home]).main.cc = 0 ∧ (applyOps t [.ed2, .home]).main.pw = false ∧
    (∀ ρ c, (applyOps t [.ed2, .home]).main.cells ρ c =
      if t.main.top ≤ ρ ∧ ρ < t.main.top + t.h ∧ c < t.w then 32 else t.main.cells ρ c) := by
  obtain ⟨a1, a2, a3, a4, _, a6⟩ := applyOps_bufOps [.ed2, .home] t (by
    intro op hop
    simp only [List.mem_cons, List.mem_nil_iff, or_false] at hop
    rcases hop with rfl | rfl <;> rfl)
  have hon' : (applyOps t [.ed2, .home]).onAlt = false := by rw [a3, hon]
  rw [term_buf_main _ hon', term_buf_main t hon] at a4
  obtain ⟨c1, c2, c3, c4, c5⟩ := a4
  simp only [applyBufs_cons, applyBufs_nil] at c1 c2 c3 c4 c5
  refine ⟨hon', a1, a2, a6 hon, by rw [c2]; simp, ?_, by rw [c4]; simp, by rw [c5]; simp, ?_⟩
  · rw [c3, applyBuf_home_cr _ _ _ hh1]; simp
  · intro ρ c
    rw [c1, applyBuf_home_cells, applyBuf_ed2_cells]

/-- **ClearScreen while inline** (from any renderer and terminal that are on the main screen with
the same size): afterwards `ClearedInv` holds; the size, the alt screen, the window position and
every row above the window are untouched; `linesRendered` and the queue are what they were. -/
theorem clearScreen_cleared (r : RState) (t : Term) (halt : r.altActive = false)
    (hon : t.onAlt = false) (hw : r.width = t.w) (hh : r.height = t.h) (hw1 : 1 ≤ t.w)
    (hh1 : 1 ≤ t.h) :
    ClearedInv (step r .clearScreen).1 (applyOps t (step r .clearScreen).2) ∧
    (step r .clearScreen).1.queued = r.queued ∧
    (step r .clearScreen).1.linesRendered = r.linesRendered ∧
    (applyOps t (step r .clearScreen).2).w = t.w ∧ (applyOps t (step r .clearScreen).2).h = t.h ∧
    (applyOps t (step r .clearScreen).2).alt = t.alt ∧
    (applyOps t (step r .clearScreen).2).main.top = t.main.top ∧
    (∀ ρ, ρ < t.main.top → ∀ c,
      (applyOps t (step r .clearScreen).2).main.cells ρ c = t.main.cells ρ c) := by
  obtain ⟨b1, b2, b3, b4, b5, b6, b7, b8, b9⟩ := clearScreen_term t hon hh1
  have e1 : (step r .clearScreen).1 = r.repaint := rfl
  have e2 : (step r .clearScreen).2 = [.ed2, .home] := rfl
  rw [e1, e2]
  refine ⟨⟨halt, b1, by rw [b2]; exact hw, by rw [b3]; exact hh, by rw [b2]; exact hw1,
    by rw [b3]; exact hh1, ⟨by rw [b6, b5], b7, b8⟩, ?_, rfl, rfl⟩, rfl, rfl, b2, b3, b4, b5, ?_⟩
  · intro ρ h1 h2 c hc
    rw [b5] at h1 h2
    rw [b3] at h2
    rw [b2] at hc
    rw [b9, if_pos ⟨h1, h2, hc⟩]
  · intro ρ hρ c
    rw [b9, if_neg (by omega)]

theorem InlineInv.clearScreen {r : RState} {t : Term} (h : InlineInv r t) :
    ClearedInv (step r .clearScreen).1 (applyOps t (step r .clearScreen).2) :=
  (clearScreen_cleared r t h.alt h.onAlt h.width h.height h.wpos h.hpos).1

theorem ClearedInv.clearScreen {r : RState} {t : Term} (h : ClearedInv r t) :
    ClearedInv (step r .clearScreen).1 (applyOps t (step r .clearScreen).2) :=
  (clearScreen_cleared r t h.alt h.onAlt h.width h.height h.wpos h.hpos).1

/-! ### the first painting flush after a ClearScreen -/

/-- a CUU from the top row of the window is clamped: the buffer does not change -/
theorem applyBufs_cuu_top (w h k : Nat) (b : Buf) (hcr : b.cr = b.top) (hp : b.pw = false) :
    applyBufs w h b (if k > 1 then [.cuu (k - 1)] else []) = b := by
  by_cases hk : k > 1
  · simp only [hk, if_true, applyBufs_cons, applyBufs_nil]
    have e : (if b.cr - countOr1 (k - 1) < b.top then b.top else b.cr - countOr1 (k - 1)) = b.cr := by
      rw [hcr]; split <;> omega
    show ({ b with cr := _, pw := false } : Buf) = b
    rw [e, ← hp]
  · simp only [hk, if_false, applyBufs_nil]

/-- the general inline flush on a buffer whose cursor is at the top left of the window, with an
invalid line cache (after a ClearScreen), whatever the renderer believes about `linesRendered`
(`k`): the CUU is clamped, the queued lines' rows `qrows w qs` are written from the top row of
the window on and the view below them -/
theorem clearedFlushQ_buf (r : RState) (fq sh : Bool) (w h k : Nat) (b : Buf) (qs ls : List Line)
    (hw : r.width = w) (hw1 : 1 ≤ w) (hh1 : 1 ≤ h) (hn1 : 1 ≤ ls.length)
    (hc : b.cc = 0) (hp : b.pw = false) (hcr : b.cr = b.top) (hnone : r.lastLines = none) :
    ∀ b', b' = applyBufs w h b ((if k > 1 then [.cuu (k - 1)] else []) ++
      (qs.flatMap (queuedLineOps w) ++ (paintOps r fq sh ls.length 0 ls ++ [.cub w]))) →
    b'.cr + 1 = b.top + (qrows w qs).length + ls.length ∧
    b'.top = max b.top (b.top + (qrows w qs).length + ls.length - h) ∧
    b'.cc = 0 ∧ b'.pw = false ∧
    (∀ j l, (qrows w qs)[j]? = some l → rowShows w b' (b.top + j) l) ∧
    (∀ j l, ls[j]? = some l →
      rowShows w b' (b.top + (qrows w qs).length + j) (Ansi.visible l)) ∧
    (∀ ρ, ρ < b.top → ∀ c, b'.cells ρ c = b.cells ρ c) ∧
    (sh = false → ∀ ρ, b.top + (qrows w qs).length + ls.length ≤ ρ →
      ∀ c, b'.cells ρ c = b.cells ρ c) ∧
    (sh = true → ∀ ρ, b.top + (qrows w qs).length + ls.length ≤ ρ →
      ρ < b'.top + h → rowBlank w b' ρ) := by
  intro b' hb'
  rw [applyBufs_append, applyBufs_cuu_top w h k b hcr hp] at hb'
  have e1 : b.cr + 1 - max 1 1 = b.top := by rw [hcr]; simp
  have := inlineFlushQ_buf r fq sh w h 1 b qs ls hw hw1 hn1 hc hp (by rw [hcr]; simp)
    (by rw [hcr]; omega)
    (by
      intro j l _ hcs
      have := canSkip_sameAsLast hcs
      rw [sameAsLast_none r j l hnone] at this
      cases this) b' (by simpa using hb')
  rw [e1] at this
  exact this

/-- One painting inline flush, queue arbitrary, on a `Term` whose cursor is at the top left of the
window, the renderer's line cache being invalid (cf. `inline_flushQ_term`). -/
theorem cleared_flushQ_term (r : RState) (t : Term) (halt : r.altActive = false)
    (hon : t.onAlt = false) (hw : r.width = t.w) (hw1 : 1 ≤ t.w) (hh1 : 1 ≤ t.h)
    (hc : t.main.cc = 0) (hp : t.main.pw = false) (hcr : t.main.cr = t.main.top)
    (hnone : r.lastLines = none)
    (hne : (r.buf.isEmpty || r.buf == r.lastRender) = false) :
    ∀ t', t' = applyOps t (flush r).2 →
    t'.onAlt = false ∧ t'.w = t.w ∧ t'.h = t.h ∧ t'.alt = t.alt ∧
    t'.main.cr + 1 = t.main.top + (qrows t.w r.queued).length + (frameLines r).length ∧
    t'.main.top = max t.main.top
      (t.main.top + (qrows t.w r.queued).length + (frameLines r).length - t.h) ∧
    t'.main.cc = 0 ∧ t'.main.pw = false ∧
    (∀ j l, (qrows t.w r.queued)[j]? = some l → rowShows t.w t'.main (t.main.top + j) l) ∧
    (∀ j l, (frameLines r)[j]? = some l →
      rowShows t.w t'.main (t.main.top + (qrows t.w r.queued).length + j) (Ansi.visible l)) ∧
    (∀ ρ, ρ < t.main.top → ∀ c, t'.main.cells ρ c = t.main.cells ρ c) ∧
    (¬ r.linesRendered > (frameLines r).length →
      ∀ ρ, t.main.top + (qrows t.w r.queued).length + (frameLines r).length ≤ ρ →
      ∀ c, t'.main.cells ρ c = t.main.cells ρ c) ∧
    (r.linesRendered > (frameLines r).length →
      ∀ ρ, t.main.top + (qrows t.w r.queued).length + (frameLines r).length ≤ ρ →
      ρ < t'.main.top + t.h → rowBlank t.w t'.main ρ) := by
  intro t' ht'
  have hn1 : 1 ≤ (frameLines r).length := by rw [frameLines_eq]; exact frameOf_length_pos _ _
  rw [flush_inlineQ_ops r halt hne] at ht'
  obtain ⟨a1, a2, a3, a4, _, a6⟩ := applyOps_bufOps
    ((if r.linesRendered > 1 then [.cuu (r.linesRendered - 1)] else []) ++
      (r.queued.flatMap (queuedLineOps r.width) ++
      (paintOps r (!r.queued.isEmpty) (decide (r.linesRendered > (frameLines r).length))
        (frameLines r).length 0 (frameLines r) ++ [.cub r.width]))) t (by
    intro op hop
    simp only [List.mem_append, List.mem_singleton] at hop
    rcases hop with hop | hop | hop | rfl
    · split at hop
      · simp at hop; subst hop; rfl
      · simp at hop
    · exact queued_bufOps _ _ op hop
    · exact paintOps_bufOps _ _ _ _ _ _ op hop
    · rfl)
  rw [← ht'] at a1 a2 a3 a4 a6
  have hon' : t'.onAlt = false := by rw [a3, hon]
  rw [term_buf_main t' hon', term_buf_main t hon, hw] at a4
  obtain ⟨c1, c2, c3, c4, c5⟩ := a4
  obtain ⟨s1, s2, s3, s4, s5, s6, s7, s8, s9⟩ := clearedFlushQ_buf r (!r.queued.isEmpty)
    (decide (r.linesRendered > (frameLines r).length)) t.w t.h r.linesRendered t.main r.queued
    (frameLines r) hw hw1 hh1 hn1 hc hp hcr hnone _ rfl
  refine ⟨hon', a1, a2, a6 hon, by rw [c3, s1], by rw [c2, s2], by rw [c4, s3], by rw [c5, s4],
    ?_, ?_, ?_, ?_, ?_⟩
  · intro j l hj
    exact rowShows_congr (fun c => by rw [c1]) (s5 j l hj)
  · intro j l hj
    exact rowShows_congr (fun c => by rw [c1]) (s6 j l hj)
  · intro ρ hρ c
    rw [c1]; exact s7 ρ hρ c
  · intro hsh ρ hρ c
    rw [c1]; exact s8 (by simpa using hsh) ρ hρ c
  · intro hsh ρ hρ hρ2
    rw [c2] at hρ2
    exact rowBlank_congr (fun c => by rw [c1]) (s9 (by simpa using hsh) ρ hρ hρ2)

/-- **The first painting flush after a ClearScreen.**  From `ClearedInv r t`, a flush of a pending
view (it always paints: `lastRender` is empty) re-establishes `InlineInv`: the lines that were
queued are written from the TOP ROW of the window on, once and in order, the view directly below
them; rows above the window are untouched; the window scrolls by exactly what is needed; nothing
is queued afterwards and the cache is the new frame. -/
theorem cleared_flush_inv (r : RState) (t : Term) (hinv : ClearedInv r t) (hbuf : r.buf ≠ []) :
    InlineInv (flush r).1 (applyOps t (flush r).2) ∧
    (flush r).1.queued = [] ∧
    viewTop (flush r).1 (applyOps t (flush r).2) = t.main.top + (qrows t.w r.queued).length ∧
    (applyOps t (flush r).2).main.top = max t.main.top
      (t.main.top + (qrows t.w r.queued).length + (frameLines r).length - t.h) ∧
    (applyOps t (flush r).2).alt = t.alt ∧
    (applyOps t (flush r).2).w = t.w ∧ (applyOps t (flush r).2).h = t.h ∧
    (∀ ρ, ρ < t.main.top → ∀ c, (applyOps t (flush r).2).main.cells ρ c = t.main.cells ρ c) ∧
    (∀ j l, (qrows t.w r.queued)[j]? = some l →
      rowShows t.w (applyOps t (flush r).2).main (t.main.top + j) l) ∧
    (flush r).1.lastLines = some (frameLines r) ∧
    (flush r).1.linesRendered = (frameLines r).length := by
  have hne : (r.buf.isEmpty || r.buf == r.lastRender) = false := by
    rw [hinv.render]
    cases hb : r.buf with
    | nil => exact absurd hb hbuf
    | cons _ _ => rfl
  have hn1 : 1 ≤ (frameLines r).length := by rw [frameLines_eq]; exact frameOf_length_pos _ _
  have hnh : (frameLines r).length ≤ t.h := by
    rw [frameLines_eq, ← hinv.height]
    exact frameOf_length_le _ _ (by have := hinv.hpos; have := hinv.height; omega)
  obtain ⟨s1, s2, s3, s4, s5, s6, s7, s8, sq, s9, s10, s11, s12⟩ := cleared_flushQ_term r t
    hinv.alt hinv.onAlt hinv.width hinv.wpos hinv.hpos hinv.cur.2.1 hinv.cur.2.2 hinv.cur.1
    hinv.lines hne _ rfl
  generalize applyOps t (flush r).2 = t' at *
  have e := flush_state r hne
  generalize (flush r).1 = r' at e ⊢
  have f1 : r'.altActive = false := by rw [e]; exact hinv.alt
  have f2 : r'.width = r.width := by rw [e]
  have f3 : r'.height = r.height := by rw [e]
  have f4 : r'.linesRendered = (frameLines r).length := by rw [e]; simp [hinv.alt]
  have f5 : r'.lastLines = some (frameLines r) := by rw [e]
  have f6 : r'.lastRender = r.buf := by rw [e]
  have f7 : r'.queued = [] := by
    rw [e]
    cases hq : r.queued <;> simp [hinv.alt]
  generalize hQ : (qrows t.w r.queued).length = Q at *
  have hvt : viewTop r' t' = t.main.top + Q := by
    unfold viewTop
    rw [f4]; omega
  refine ⟨⟨f1, s1, by rw [s2, f2]; exact hinv.width, by rw [s3, f3]; exact hinv.height,
    by rw [s2]; exact hinv.wpos, by rw [s3]; exact hinv.hpos, ⟨s7, s8⟩, ?_, ?_, ?_, ?_⟩,
    f7, hvt, s6, s4, s2, s3, s10, sq, f5, f4⟩
  · rw [f4, s3, s6]
    constructor <;> omega
  · intro ρ hρ hρ2
    rw [s2]
    rw [s3] at hρ2
    by_cases hsh : r.linesRendered > (frameLines r).length
    · exact s12 hsh ρ (by omega) hρ2
    · refine rowBlank_congr (fun c => s11 hsh ρ (by omega) c) (hinv.blank ρ (by omega) ?_)
      rw [s6] at hρ2
      omega
  · intro ls hls
    rw [f5] at hls
    have := Option.some.inj hls
    subst this
    refine ⟨f4.symm, ?_⟩
    intro i l hi
    rw [s2, hvt]
    exact s9 i l hi
  · intro _
    rw [f5, f6, f3, frameLines_eq]

/-! ### the steps that keep `ClearedInv` -/

/-- `ClearedInv` only reads these fields -/
theorem ClearedInv.congr {r r' : RState} {t t' : Term} (h : ClearedInv r t)
    (e1 : r'.altActive = r.altActive) (e2 : r'.width = r.width) (e3 : r'.height = r.height)
    (e5 : r'.lastLines = r.lastLines) (e6 : r'.lastRender = r.lastRender)
    (f1 : t'.onAlt = t.onAlt) (f2 : t'.w = t.w) (f3 : t'.h = t.h) (f4 : t'.main = t.main) :
    ClearedInv r' t' :=
  ⟨by rw [e1]; exact h.alt, by rw [f1]; exact h.onAlt, by rw [e2, f2]; exact h.width,
    by rw [e3, f3]; exact h.height, by rw [f2]; exact h.wpos, by rw [f3]; exact h.hpos,
    by rw [f4]; exact h.cur, by rw [f4, f3, f2]; exact h.blank, by rw [e5]; exact h.lines,
    by rw [e6]; exact h.render⟩

/-- the steps of an inline history, ClearScreen included -/
def inlineStableC : ROp → Bool
  | .clearScreen => true
  | o => inlineStable o

theorem inlineStableC_of_inlineStable (o : ROp) (h : inlineStable o = true) :
    inlineStableC o = true := by
  cases o <;> first | exact h | rfl

/-- **The steps that keep `ClearedInv`**: every `inlineStable` step other than a flush of a
pending view (which re-establishes `InlineInv`: `cleared_flush_inv`), and ClearScreen itself. -/
theorem cleared_step_inv (r : RState) (t : Term) (h : ClearedInv r t) (o : ROp)
    (ho : inlineStableC o = true) (hf : o = .flush → r.buf = []) :
    ClearedInv (step r o).1 (applyOps t (step r o).2) := by
  have mode : ∀ (r' : RState) (ops : List TermOp) (n : Nat), n ≠ 1049 →
      (ops = [.decset n] ∨ ops = [.decrst n]) → r'.altActive = r.altActive →
      r'.width = r.width → r'.height = r.height →
      r'.lastLines = r.lastLines → r'.lastRender = r.lastRender →
      ClearedInv r' (applyOps t ops) := by
    intro r' ops n hn hops e1 e2 e3 e5 e6
    obtain ⟨f1, f2, f3, _, f5⟩ := applyOps_mode t n ops hn hops
    exact h.congr e1 e2 e3 e5 e6 f1 f2 f3 f5
  cases o with
  | size w h => simp [inlineStableC, inlineStable] at ho
  | enterAlt => simp [inlineStableC, inlineStable] at ho
  | stop => simp [inlineStableC, inlineStable] at ho
  | kill => simp [inlineStableC, inlineStable] at ho
  | clearScreen => exact h.clearScreen
  | write s => exact h.congr rfl rfl rfl rfl rfl rfl rfl rfl rfl
  | repaintMsg => exact h.congr rfl rfl rfl h.lines.symm h.render.symm rfl rfl rfl rfl
  | exitAlt =>
    have e : step r .exitAlt = (r, []) := by simp [step, exitAlt, h.alt]
    rw [e]
    exact h
  | printLine body =>
    rw [step_printLine_inline r body h.alt]
    exact h.congr rfl rfl rfl h.lines.symm h.render.symm rfl rfl rfl rfl
  | title s => exact h.congr rfl rfl rfl rfl rfl rfl rfl rfl rfl
  | flush =>
    have hnoop : step r .flush = (r, []) := flush_noop r (by simp [hf rfl])
    rw [hnoop]
    exact h
  | showCursor => exact mode _ _ 25 (by decide) (Or.inl rfl) rfl rfl rfl rfl rfl
  | hideCursor => exact mode _ _ 25 (by decide) (Or.inr rfl) rfl rfl rfl rfl rfl
  | mouseCell => exact mode _ _ 1002 (by decide) (Or.inl rfl) rfl rfl rfl rfl rfl
  | noMouseCell => exact mode _ _ 1002 (by decide) (Or.inr rfl) rfl rfl rfl rfl rfl
  | mouseAll => exact mode _ _ 1003 (by decide) (Or.inl rfl) rfl rfl rfl rfl rfl
  | noMouseAll => exact mode _ _ 1003 (by decide) (Or.inr rfl) rfl rfl rfl rfl rfl
  | mouseSGR => exact mode _ _ 1006 (by decide) (Or.inl rfl) rfl rfl rfl rfl rfl
  | noMouseSGR => exact mode _ _ 1006 (by decide) (Or.inr rfl) rfl rfl rfl rfl rfl
  | paste => exact mode _ _ 2004 (by decide) (Or.inl rfl) rfl rfl rfl rfl rfl
  | noPaste => exact mode _ _ 2004 (by decide) (Or.inr rfl) rfl rfl rfl rfl rfl
  | focus => exact mode _ _ 1004 (by decide) (Or.inl rfl) rfl rfl rfl rfl rfl
  | noFocus => exact mode _ _ 1004 (by decide) (Or.inr rfl) rfl rfl rfl rfl rfl

/-! ### histories with ClearScreen -/

/-- the invariant of an inline history that may clear the screen: the inline invariant (with the
queue invariant `J`), or the state after a ClearScreen before the next painting flush -/
def InlineOrCleared (r : RState) (t : Term) : Prop := (InlineInv r t ∧ J r) ∨ ClearedInv r t

/-- one step of an inline history that may clear the screen -/
theorem inlineC_step_inv (r : RState) (t : Term) (h : InlineOrCleared r t) (o : ROp)
    (ho : inlineStableC o = true) :
    InlineOrCleared (step r o).1 (applyOps t (step r o).2) := by
  by_cases hcs : o = .clearScreen
  · subst hcs
    rcases h with ⟨h, _⟩ | h
    · exact Or.inr h.clearScreen
    · exact Or.inr h.clearScreen
  · have hst : inlineStable o = true := by
      cases o <;> first | exact ho | exact absurd rfl hcs
    rcases h with ⟨h, hJ⟩ | h
    · exact Or.inl (inline_step_inv r t h hJ o hst)
    · by_cases hf : o = .flush ∧ r.buf ≠ []
      · obtain ⟨rfl, hbuf⟩ := hf
        obtain ⟨a1, a2, _⟩ := cleared_flush_inv r t h hbuf
        exact Or.inl ⟨a1, fun hq => absurd a2 hq⟩
      · refine Or.inr (cleared_step_inv r t h o ho ?_)
        intro hfl
        apply Classical.byContradiction
        intro hb
        exact hf ⟨hfl, hb⟩

/-- any inline history that may clear the screen keeps `InlineOrCleared` -/
theorem inlineC_run_inv (ops : List ROp) : ∀ (r : RState) (t : Term), InlineOrCleared r t →
    (∀ o ∈ ops, inlineStableC o = true) →
    InlineOrCleared (run r ops).1 ((run r ops).2.foldl applyOps t) := by
  induction ops with
  | nil => intro r t h _; exact h
  | cons o os ih =>
    intro r t h hs
    have h1 := inlineC_step_inv r t h o (hs o (by simp))
    have h2 := ih (step r o).1 (applyOps t (step r o).2) h1 (fun o' ho' => hs o' (by simp [ho']))
    rw [(run_cons r o os).1, (run_cons r o os).2 t]
    exact h2

/-- what `InlineInv` says about the screen when the cache is a frame of `n ≥ 1` lines: the `n`
rows ending at the cursor row, all inside the window, show the frame; the window rows below the
cursor are blank; the cursor is in column 0 with no pending wrap -/
theorem InlineInv.view {r : RState} {t : Term} (h : InlineInv r t) {ls : List Line}
    (hls : r.lastLines = some ls) (hn1 : 1 ≤ ls.length) :
    ls.length ≤ t.h ∧ t.main.top + ls.length ≤ t.main.cr + 1 ∧ t.main.cr < t.main.top + t.h ∧
    (∀ i l, ls[i]? = some l →
      t.main.row t.w (t.main.cr + 1 - ls.length + i) = padLine t.w (Ansi.visible l)) ∧
    (∀ ρ, t.main.cr < ρ → ρ < t.main.top + t.h → t.main.row t.w ρ = List.replicate t.w 32) ∧
    t.main.cc = 0 ∧ t.main.pw = false := by
  obtain ⟨b1, b2, b3⟩ := h.screen hls
  have hin := h.inside
  rw [← b1, Nat.max_eq_left hn1] at hin
  have hvt : viewTop r t = t.main.cr + 1 - ls.length := by
    unfold viewTop; rw [← b1, Nat.max_eq_left hn1]
  rw [hvt] at b2
  exact ⟨by omega, hin.1, hin.2, b2, b3, h.col.1, h.col.2⟩

/-- **write s; flush from `InlineOrCleared`**: in both cases the flush leaves `InlineInv` (and `J`,
nothing queued) with the frame of `s` as the cache, the size unchanged -/
theorem inlineC_write_flush (r : RState) (t : Term) (h : InlineOrCleared r t) (s : Bytes) :
    InlineInv (flush (write r s)).1 (applyOps t (flush (write r s)).2) ∧
    (flush (write r s)).1.queued = [] ∧
    (flush (write r s)).1.lastLines = some (frameLines (write r s)) ∧
    (applyOps t (flush (write r s)).2).w = t.w ∧ (applyOps t (flush (write r s)).2).h = t.h := by
  rcases h with ⟨h, hJ⟩ | h
  · obtain ⟨a1, a2, _, _, _, a6, a7, _, _, a10, _⟩ :=
      inline_flushJ_inv (write r s) t (h.write s) hJ (write_buf_ne r s)
    exact ⟨a1, a2, a10, a6, a7⟩
  · obtain ⟨a1, a2, _, _, _, a6, a7, _, _, a10, _⟩ :=
      cleared_flush_inv (write r s) t (h.congr rfl rfl rfl rfl rfl rfl rfl rfl rfl)
        (write_buf_ne r s)
    exact ⟨a1, a2, a10, a6, a7⟩

/-- no terminal operation changes the size of the terminal -/
theorem apply_size (t : Term) (op : TermOp) : (apply t op).w = t.w ∧ (apply t op).h = t.h := by
  have mode : ∀ n v, (setMode t n v).w = t.w ∧ (setMode t n v).h = t.h := by
    intro n v
    unfold setMode
    repeat' split
    all_goals exact ⟨rfl, rfl⟩
  cases op with
  | decset n => exact mode n true
  | decrst n => exact mode n false
  | title s => exact ⟨rfl, rfl⟩
  | _ => exact ⟨(setBuf_facts t _).1, (setBuf_facts t _).2.1⟩

theorem applyOps_size (ops : List TermOp) : ∀ (t : Term),
    (applyOps t ops).w = t.w ∧ (applyOps t ops).h = t.h := by
  induction ops with
  | nil => intro t; exact ⟨rfl, rfl⟩
  | cons op ops ih =>
    intro t
    rw [applyOps_cons]
    exact ⟨(ih _).1.trans (apply_size t op).1, (ih _).2.trans (apply_size t op).2⟩

/-- whatever a history writes, the terminal keeps its size (only `Term.resize` changes it) -/
theorem run_size (ops : List ROp) : ∀ (r : RState) (t : Term),
    ((run r ops).2.foldl applyOps t).w = t.w ∧ ((run r ops).2.foldl applyOps t).h = t.h := by
  induction ops with
  | nil => intro r t; exact ⟨rfl, rfl⟩
  | cons o os ih =>
    intro r t
    rw [(run_cons r o os).2 t]
    obtain ⟨i1, i2⟩ := ih (step r o).1 (applyOps t (step r o).2)
    obtain ⟨j1, j2⟩ := applyOps_size (step r o).2 t
    exact ⟨i1.trans j1, i2.trans j2⟩

end Tea.Render
