import Tea.Proofs.InputDetect
/-
The reader: no panic, byte accounting, progress (for C09).
-/
namespace Tea.Input
open Tea

def consumedOf (out : List Out) : Bytes := (out.map (·.consumed)).flatten

theorem consumedOf_append (a b : List Out) : consumedOf (a ++ b) = consumedOf a ++ consumedOf b := by
  simp [consumedOf]

theorem consumedOf_reverse_cons (o : Out) (acc : List Out) :
    consumedOf (o :: acc).reverse = consumedOf acc.reverse ++ o.consumed := by
  simp [consumedOf]

def GoodOut (o : Out) : Prop := o.consumed ≠ [] ∧ o.msg.isSome

theorem decodeLoop_spec (T : Table) (lens : List Nat) (more : Bool) (hl : ∀ l ∈ lens, 0 < l) :
    ∀ (fuel : Nat) (b : Bytes) (acc : List Out), b.length < fuel → (∀ o ∈ acc, GoodOut o) →
      ∃ out left, decodeLoop T lens more fuel b acc = .ok (out, left) ∧
        consumedOf out ++ left = consumedOf acc.reverse ++ b ∧
        (∀ o ∈ out, GoodOut o) ∧
        (left ≠ [] → HeldBack T left more) ∧
        (∃ sfx, out = acc.reverse ++ sfx) := by
  intro fuel
  induction fuel with
  | zero => intro b acc h; omega
  | succ f ih =>
    intro b acc hf hacc
    simp only [decodeLoop]
    split
    · rename_i he
      have : b = [] := by simpa using he
      subst this
      refine ⟨_, _, rfl, by simp, ?_, by simp, ⟨[], by simp⟩⟩
      intro o ho; exact hacc o (by simpa using ho)
    · rename_i hne
      have hb : b ≠ [] := by simpa using hne
      obtain ⟨w, m, hd, hw, hsome, hzero⟩ := detectOneMsg_spec T lens b more hb hl
      rw [hd]
      simp only
      split
      · rename_i hw0
        have hw0' : w = 0 := by simpa using hw0
        refine ⟨_, _, rfl, rfl, ?_, fun _ => (hzero hw0').2, ⟨[], by simp⟩⟩
        intro o ho; exact hacc o (by simpa using ho)
      · rename_i hw0
        have hwpos : 0 < w := by
          have : ¬ w = 0 := by simpa using hw0
          omega
        have hlen : (b.drop w).length < f := by rw [List.length_drop]; omega
        have hacc' : ∀ o ∈ ({ msg := m, consumed := b.take w } : Out) :: acc, GoodOut o := by
          intro o ho
          rcases List.mem_cons.1 ho with h | h
          · subst h
            refine ⟨?_, hsome hwpos⟩
            intro he
            have := congrArg List.length he
            rw [List.length_take, List.length_nil] at this
            have hbl : 0 < b.length := List.length_pos_iff.mpr hb
            omega
          · exact hacc o h
        obtain ⟨out, left, h1, h2, h3, h4, sfx, h5⟩ := ih (b.drop w) _ hlen hacc'
        refine ⟨out, left, h1, ?_, h3, h4, ⟨{ msg := m, consumed := b.take w } :: sfx, by simp [h5]⟩⟩
        rw [h2, consumedOf_reverse_cons]
        simp [List.append_assoc]

theorem processRead_spec (T : Table) (lens : List Nat) (hl : ∀ l ∈ lens, 0 < l) (left chunk : Bytes) :
    ∃ out left', processRead T lens left chunk = .ok (out, left') ∧
      consumedOf out ++ left' = left ++ chunk ∧ (∀ o ∈ out, GoodOut o) ∧
      (left' ≠ [] → HeldBack T left' (chunk.length == bufSize)) := by
  unfold processRead
  obtain ⟨out, left', h1, h2, h3, h4, _⟩ :=
    decodeLoop_spec T lens (chunk.length == bufSize) hl ((left ++ chunk).length + 1) (left ++ chunk) []
      (by omega) (by simp)
  exact ⟨out, left', h1, by simpa [consumedOf] using h2, h3, h4⟩

theorem readAll_spec (T : Table) (lens : List Nat) (eof : Bool) (hl : ∀ l ∈ lens, 0 < l) :
    ∀ (chunks : List Bytes) (left : Bytes) (acc : List Out), (∀ o ∈ acc, GoodOut o) →
      ∃ out left', readAll T lens eof chunks left acc = .ok (out, left') ∧
        consumedOf out ++ left' = consumedOf acc ++ left ++ chunks.flatten ∧
        (∀ o ∈ out, GoodOut o) ∧
        (eof = true → left' ≠ [] → HeldBack T left' false) := by
  intro chunks
  induction chunks with
  | nil =>
    intro left acc hacc
    simp only [readAll]
    cases eof with
    | false => exact ⟨acc, left, rfl, by simp, hacc, by simp⟩
    | true =>
      obtain ⟨out, left', h1, h2, h3, h4, _⟩ :=
        decodeLoop_spec T lens false hl (left.length + 1) left [] (by omega) (by simp)
      simp only [if_true]
      rw [h1]
      refine ⟨acc ++ out, left', rfl, ?_, ?_, fun _ => h4⟩
      · rw [consumedOf_append, List.append_assoc, h2]
        simp [consumedOf]
      · intro o ho
        rcases List.mem_append.1 ho with h | h
        · exact hacc o h
        · exact h3 o h
  | cons c cs ih =>
    intro left acc hacc
    simp only [readAll]
    obtain ⟨out, left', h1, h2, h3, _⟩ := processRead_spec T lens hl left c
    rw [h1]
    simp only
    have hacc' : ∀ o ∈ acc ++ out, GoodOut o := by
      intro o ho
      rcases List.mem_append.1 ho with h | h
      · exact hacc o h
      · exact h3 o h
    obtain ⟨out2, left2, g1, g2, g3, g4⟩ := ih left' (acc ++ out) hacc'
    refine ⟨out2, left2, g1, ?_, g3, g4⟩
    rw [g2, consumedOf_append]
    simp only [List.flatten_cons, List.append_assoc]
    rw [← List.append_assoc (consumedOf out), h2]
    simp [List.append_assoc]

end Tea.Input
