import Tea.Proofs.Lifecycle
/-
Helper lemmas for C13: the API callers (Send / Quit / Println / Printf through `Send`, and
`Wait`) are released, one by one and all together, once the context is cancelled / `finished`
is closed.
-/
namespace Tea.Runtime.Life

theorem runLabels_append (s : St) (l1 l2 : List Label) :
    runLabels s (l1 ++ l2) = (runLabels s l1).bind (fun s1 => runLabels s1 l2) := by
  induction l1 generalizing s with
  | nil => simp [runLabels]
  | cons l l1 ih =>
    simp only [List.cons_append, runLabels]
    split
    · exact ih _
    · rfl

/-- a blocked Send whose context is cancelled returns by a step of its own -/
theorem sendAbort_enabled {s : St} {i : Nat} {cl : Caller} (hi : s.senders[i]? = some cl)
    (hb : cl.pc = .blocked) (hctx : s.ctxDone = true) :
    step s (.sendAbort i) = some { s with senders := s.senders.set i { cl with pc := .returned } } := by
  simp [step, hi, hb, hctx]

/-- a Send entered with the context already cancelled: it is called, and it returns -/
theorem sendCall_enabled {s : St} {i : Nat} {cl : Caller} (hi : s.senders[i]? = some cl)
    (hb : cl.pc = .notCalled) :
    step s (.sendCall i) = some { s with senders := s.senders.set i { cl with pc := .blocked } } := by
  simp [step, hi, hb]

theorem waitReturn_enabled {s : St} {i : Nat} (hi : s.waiters[i]? = some .blocked)
    (hf : s.finishedClosed = true) :
    step s (.waitReturn i) = some { s with waiters := s.waiters.set i .returned } := by
  simp [step, hi, hf]

theorem waitCall_enabled {s : St} {i : Nat} (hi : s.waiters[i]? = some .notCalled) :
    step s (.waitCall i) = some { s with waiters := s.waiters.set i .blocked } := by
  simp [step, hi]

theorem getElem?_set_self_of {α : Type} {l : List α} {i : Nat} {a b : α} (h : l[i]? = some a) :
    (l.set i b)[i]? = some b := by
  have hlt : i < l.length := by
    apply Classical.byContradiction
    intro hn
    rw [List.getElem?_eq_none (by omega)] at h
    cases h
  simp [hlt]

/-- what a released Send caller looks like -/
def release (cl : Caller) : Caller := if cl.pc = .blocked then { cl with pc := .returned } else cl

/-- what a released Wait caller looks like -/
def releaseW (w : APc) : APc := if w = .blocked then .returned else w

theorem set_append_length {α : Type} (pre : List α) (a b : α) (post : List α) :
    (pre ++ a :: post).set pre.length b = (pre ++ [b]) ++ post := by
  induction pre with
  | nil => rfl
  | cons x pre ih => simp only [List.cons_append, List.length_cons, List.set_cons_succ, ih]

theorem getElem?_append_length {α : Type} (pre : List α) (a : α) (post : List α) :
    (pre ++ a :: post)[pre.length]? = some a := by
  induction pre with
  | nil => rfl
  | cons x pre _ => simp

/-- with the context cancelled, `sendAbort` steps alone release every blocked Send caller and
change nothing else -/
theorem release_all_aux (post : List Caller) : ∀ (s : St) (pre : List Caller),
    s.senders = pre ++ post → s.ctxDone = true →
    ∃ ls, (∀ l ∈ ls, ∃ i, l = Label.sendAbort i) ∧
      runLabels s ls = some { s with senders := pre ++ post.map release } := by
  induction post with
  | nil =>
    intro s pre hs _
    refine ⟨[], by simp, ?_⟩
    simp only [runLabels, List.map_nil, ← hs]
  | cons cl rest ih =>
    intro s pre hs hctx
    by_cases hb : cl.pc = .blocked
    · have hi : s.senders[pre.length]? = some cl := by rw [hs]; exact getElem?_append_length _ _ _
      have hstep := sendAbort_enabled hi hb hctx
      rw [hs, set_append_length] at hstep
      obtain ⟨ls, hall, hrun⟩ :=
        ih { s with senders := pre ++ [{ cl with pc := .returned }] ++ rest }
          (pre ++ [{ cl with pc := .returned }]) rfl hctx
      refine ⟨.sendAbort pre.length :: ls, ?_, ?_⟩
      · intro l hl
        rcases List.mem_cons.1 hl with h | h
        · exact ⟨_, h⟩
        · exact hall l h
      · simp only [runLabels, hstep]
        rw [hrun]
        simp [release, hb]
    · obtain ⟨ls, hall, hrun⟩ := ih s (pre ++ [cl]) (by simp [hs]) hctx
      refine ⟨ls, hall, ?_⟩
      rw [hrun]
      simp [release, hb]

theorem release_all (s : St) (hctx : s.ctxDone = true) :
    ∃ ls, (∀ l ∈ ls, ∃ i, l = Label.sendAbort i) ∧
      runLabels s ls = some { s with senders := s.senders.map release } := by
  simpa using release_all_aux s.senders s [] rfl hctx

/-- with `finished` closed, `waitReturn` steps alone release every blocked Wait caller -/
theorem releaseW_all_aux (post : List APc) : ∀ (s : St) (pre : List APc),
    s.waiters = pre ++ post → s.finishedClosed = true →
    ∃ ls, (∀ l ∈ ls, ∃ i, l = Label.waitReturn i) ∧
      runLabels s ls = some { s with waiters := pre ++ post.map releaseW } := by
  induction post with
  | nil =>
    intro s pre hs _
    refine ⟨[], by simp, ?_⟩
    simp only [runLabels, List.map_nil, ← hs]
  | cons w rest ih =>
    intro s pre hs hf
    by_cases hb : w = .blocked
    · subst hb
      have hi : s.waiters[pre.length]? = some .blocked := by rw [hs]; exact getElem?_append_length _ _ _
      have hstep := waitReturn_enabled hi hf
      rw [hs, set_append_length] at hstep
      obtain ⟨ls, hall, hrun⟩ :=
        ih { s with waiters := pre ++ [.returned] ++ rest } (pre ++ [.returned]) rfl hf
      refine ⟨.waitReturn pre.length :: ls, ?_, ?_⟩
      · intro l hl
        rcases List.mem_cons.1 hl with h | h
        · exact ⟨_, h⟩
        · exact hall l h
      · simp only [runLabels, hstep]
        rw [hrun]
        simp [releaseW]
    · obtain ⟨ls, hall, hrun⟩ := ih s (pre ++ [w]) (by simp [hs]) hf
      refine ⟨ls, hall, ?_⟩
      rw [hrun]
      simp [releaseW, hb]

theorem releaseW_all (s : St) (hf : s.finishedClosed = true) :
    ∃ ls, (∀ l ∈ ls, ∃ i, l = Label.waitReturn i) ∧
      runLabels s ls = some { s with waiters := s.waiters.map releaseW } := by
  simpa using releaseW_all_aux s.waiters s [] rfl hf

end Tea.Runtime.Life
