import Tea.Prelude.Bytes
import Tea.Prelude.Decimal
import Tea.Prelude.Ansi
/-
The operation alphabet of the terminal: exactly what the renderer can emit,
and its serialization to bytes (charmbracelet/x/ansi v0.8.0 spellings).
-/
namespace Tea.VT
open Tea

inductive TermOp where
  | text (s : Bytes)          -- content bytes (may contain SGR sequences), passed through as they are
  | cr | lf
  | cuu (n : Nat)             -- ansi.CursorUp(n)
  | cub (n : Nat)             -- ansi.CursorBackward(n)
  | home                      -- ESC [ H
  | cup (row : Nat)           -- ansi.CursorPosition(0, row)
  | el0 | el2 | ed0 | ed2
  | decset (n : Nat) | decrst (n : Nat)
  | title (s : Bytes)
  deriving Repr, DecidableEq, Inhabited

def csi : Bytes := [0x1b, 0x5b]

/-- the optional count of CUU/CUB: omitted unless `n > 1` -/
def countArg (n : Nat) : Bytes := if n > 1 then Dec.digits n else []

def serialize : TermOp → Bytes
  | .text s => s
  | .cr => [13]
  | .lf => [10]
  | .cuu n => csi ++ countArg n ++ [0x41]
  | .cub n => csi ++ countArg n ++ [0x44]
  | .home => csi ++ [0x48]
  | .cup row => if row = 0 then csi ++ [0x48] else csi ++ Dec.digits row ++ [0x3b, 0x48]
  | .el0 => csi ++ [0x4b]
  | .el2 => csi ++ [0x32, 0x4b]
  | .ed0 => csi ++ [0x4a]
  | .ed2 => csi ++ [0x32, 0x4a]
  | .decset n => csi ++ [0x3f] ++ Dec.digits n ++ [0x68]
  | .decrst n => csi ++ [0x3f] ++ Dec.digits n ++ [0x6c]
  | .title s => [0x1b, 0x5d, 0x32, 0x3b] ++ s ++ [0x07]

def serializeAll (ops : List TermOp) : Bytes := ops.flatMap serialize

end Tea.VT
