import Tea.VT.Ops
/-
Terminal semantics (the specification side of C05/C06/C07/C12/C14): what a
VT100/xterm-style terminal does with each operation of the renderer's alphabet.
A buffer is an unbounded tape of rows seen through a window of `h` rows starting
at `top`; the tape is a function `row → col → char` (32 = blank) so that screen
theorems are pointwise. Autowrap follows xterm: printing in the last column
sets the pending-wrap flag, the next printable wraps; CR/CUU/CUB/CUP clear it;
EL/ED erase from the cursor column. No reflow on resize. Escape sequences
inside content (SGR styling) take no cell: only `Ansi.visible` of a text is printed
(cell attributes are not modelled).
Cross-checked on every run against an independent Go interpreter (`vt` stream).
-/
namespace Tea.VT
open Tea

structure Buf where
  cells : Nat → Nat → Nat := fun _ _ => 32
  top : Nat := 0
  cr : Nat := 0
  cc : Nat := 0
  pw : Bool := false
  sr : Nat := 0          -- saved cursor (row relative to the window)
  sc : Nat := 0
  spw : Bool := false
  used : Nat := 0        -- ghost: rows ≥ used were never touched (for printing only)

structure Term where
  w : Nat
  h : Nat
  main : Buf := {}
  alt : Buf := {}
  onAlt : Bool := false
  cursorVis : Bool := true
  m1002 : Bool := false
  m1003 : Bool := false
  m1006 : Bool := false
  m1004 : Bool := false
  m2004 : Bool := false
  title : Bytes := []
  maxw : Nat := 0        -- ghost: widest the terminal has ever been (for printing only)

def Term.buf (t : Term) : Buf := if t.onAlt then t.alt else t.main
def Term.setBuf (t : Term) (b : Buf) : Term :=
  let b := { b with used := max b.used (b.cr + 1) }
  if t.onAlt then { t with alt := b } else { t with main := b }

def Buf.setCell (b : Buf) (r c ch : Nat) : Buf :=
  { b with cells := fun r' c' => if r' = r ∧ c' = c then ch else b.cells r' c', used := max b.used (r + 1) }

/-- erase columns `[from, to)` of row `r` -/
def Buf.eraseCols (b : Buf) (r lo hi : Nat) : Buf :=
  { b with cells := fun r' c' => if r' = r ∧ lo ≤ c' ∧ c' < hi then 32 else b.cells r' c' }

/-- erase columns `[0, w)` of rows `[lo, hi)` -/
def Buf.eraseRows (b : Buf) (lo hi w : Nat) : Buf :=
  { b with cells := fun r' c' => if lo ≤ r' ∧ r' < hi ∧ c' < w then 32 else b.cells r' c' }

def lineFeed (h : Nat) (b : Buf) : Buf :=
  if b.cr + 1 = b.top + h then { b with top := b.top + 1, cr := b.cr + 1 }
  else { b with cr := b.cr + 1 }

def putChar (w h : Nat) (b : Buf) (ch : Nat) : Buf :=
  let b := if b.pw then lineFeed h { b with cc := 0, pw := false } else b
  let b := b.setCell b.cr b.cc ch
  if b.cc + 1 ≥ w then { b with pw := true } else { b with cc := b.cc + 1 }

def countOr1 (n : Nat) : Nat := if n = 0 then 1 else n

def cupRow (h : Nat) (b : Buf) (row : Nat) : Buf :=
  let r := if row < 1 then 1 else if row > h then h else row
  { b with cr := b.top + r - 1, cc := 0, pw := false }

def applyBuf (w h : Nat) (b : Buf) : TermOp → Buf
  | .text s => (Ansi.visible s).foldl (putChar w h) b
  | .cr => { b with cc := 0, pw := false }
  | .lf => lineFeed h { b with pw := false }
  | .cuu n => { b with cr := if b.cr - countOr1 n < b.top then b.top else b.cr - countOr1 n, pw := false }
  | .cub n => { b with cc := b.cc - countOr1 n, pw := false }
  | .home => cupRow h b 1
  | .cup row => cupRow h b row
  | .el0 => b.eraseCols b.cr b.cc w
  | .el2 => b.eraseCols b.cr 0 w
  | .ed0 => (b.eraseCols b.cr b.cc w).eraseRows (b.cr + 1) (b.top + h) w
  | .ed2 => b.eraseRows b.top (b.top + h) w
  | _ => b

def setMode (t : Term) (n : Nat) (v : Bool) : Term :=
  if n = 25 then { t with cursorVis := v }
  else if n = 1002 then { t with m1002 := v }
  else if n = 1003 then { t with m1003 := v }
  else if n = 1006 then { t with m1006 := v }
  else if n = 1004 then { t with m1004 := v }
  else if n = 2004 then { t with m2004 := v }
  else if n = 1049 then
    if v && !t.onAlt then
      { t with main := { t.main with sr := t.main.cr - t.main.top, sc := t.main.cc, spw := t.main.pw },
               onAlt := true, alt := {} }
    else if !v && t.onAlt then
      { t with onAlt := false,
               main := { t.main with cr := t.main.top + t.main.sr, cc := t.main.sc, pw := t.main.spw } }
    else t
  else t

def apply (t : Term) : TermOp → Term
  | .decset n => setMode t n true
  | .decrst n => setMode t n false
  | .title s => { t with title := s }
  | op => t.setBuf (applyBuf t.w t.h t.buf op)

def applyOps (t : Term) (ops : List TermOp) : Term := ops.foldl apply t

/-- the terminal is resized (no reflow): the active buffer's rows are cut at the new width, the
rows that fall below the new bottom of the window are dropped (they come back blank if the
window grows again, as on a real terminal's alternate screen), its cursor is clamped -/
def resize (t : Term) (w h : Nat) : Term :=
  let b := t.buf
  let b := { b with
    cc := if b.cc > w - 1 then w - 1 else b.cc
    cr := if b.cr > b.top + h - 1 then b.top + h - 1 else b.cr
    pw := false
    cells := fun r c => if c ≥ w ∨ r ≥ b.top + h then 32 else b.cells r c }
  ({ t with w := w, h := h, maxw := max t.maxw w } : Term).setBuf b

end Tea.VT
