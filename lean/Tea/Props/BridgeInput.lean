import Tea.Gen.KeyTable
import Tea.Doc.KeyTable
import Tea.Input.Reader
import Tea.Proofs.Paste
/-
Bridge theorems: the facts regenerated from /repo's working tree (`Tea/Gen`)
satisfy the side conditions the general theorems need, and equal the frozen
documented values (`Tea/Doc`). These are the only theorems that mention
`Tea/Gen`; they are re-checked on every run.
-/
namespace Tea.Props.Bridge
open Tea Tea.Input

/-- every length the decoder tries is positive (hypothesis `hl` of the C09 theorems) -/
theorem lens_pos : ∀ l ∈ Tea.Gen.seqLengths, 0 < l := by decide

/-- the key-type constants the model mentions by name -/
theorem key_consts : Tea.Gen.keyRunes = keyRunes ∧ Tea.Gen.keySpace = keySpace ∧
    Tea.Gen.keyNUL = keyNUL ∧ Tea.Gen.keyESC = keyESC := by decide

/-- no key of the current table begins with the paste start marker (hypothesis `StartFree` of the
C10 theorems about completely filled reads) -/
theorem start_free : Tea.Input.StartFree Tea.Gen.extSequences :=
  Tea.Input.startFree_of_B (by decide +kernel)

/-- the read-buffer size the reader model assumes -/
theorem buf_size : bufSize = 256 := rfl

end Tea.Props.Bridge
