import Tea.Proofs.MouseProofs
/-
C11 — Mouse reports decode to the right button, action, modifiers and cell.

"For every button code, modifier combination and coordinate, an SGR mouse report
(ESC[<b;x;y followed by M or m) and an X10 report (ESC[M followed by three bytes)
decode to a mouse message whose X and Y are the zero-based cell, whose
shift/alt/ctrl flags, button and action follow the xterm encoding (wheel events
are never releases or motions, a motion report stays a motion whatever its final
byte, otherwise release comes from the final byte in SGR and from button code 3
in X10), and the two encodings agree wherever both can express the event. A
report embedded among other events consumes exactly its own bytes."

The xterm encoding is specified independently of the decoder model in
`Tea/Input/XtermSpec.lean` (`Xterm.decode`, written with `/` and `%` on the low
byte of the code; it never mentions `parseMouseButton`).  `Xterm.event d x y`
(`Tea/Input/XtermEvent.lean`) packages a decoded report and a cell as a
`tea.MouseEvent`; its deprecated `Type` field is `MouseRelease` for every release
and otherwise `legacyType button action`, the `switch` at the end of
parseMouseButton — for the model `(parseMouseButton b s).type = legacyType button
action` holds by unfolding, and the theorems below pin the field for every
report (it is part of `Xterm.event`).

`Xterm.sgrReport b x y fin` is `ESC [ < digits(b) ; digits(x) ; digits(y) fin` and
`Xterm.x10Report cb cx cy` is `ESC [ M cb cx cy`.

All theorems hold for EVERY key table `T` and length list `lens`, every natural
number `b x y` (numbers above the maximum int64 saturate, as `strconv.Atoi` with
its error dropped does), every following bytes `rest`.
Only property theorems live here; helper lemmas are in `Tea/Proofs/Decimal.lean`
and `Tea/Proofs/MouseProofs.lean`.
-/
namespace Tea.Props.C11
open Tea Tea.Input Tea.Input.Xterm

/-! ## 1. decimal round trip -/

/-- printing a natural number in decimal and reading it back with `strconv.Atoi` (error
dropped) gives the number, saturated at the maximum int64; the printed form is a non-empty
string of ASCII digits, and the digit scanner `\d+` takes exactly it when what follows is
empty or starts with a non-digit. For ALL naturals. -/
theorem C11_decimal (n : Nat) :
    Dec.atoi (Dec.digits n) = min n Dec.maxInt64 ∧
    Dec.digits n ≠ [] ∧
    (∀ c ∈ Dec.digits n, isDigit c = true) ∧
    (∀ rest : Bytes, (∀ c, rest.head? = some c → isDigit c = false) →
      Dec.spanDigits (Dec.digits n ++ rest) = (Dec.digits n, rest)) :=
  ⟨Dec.atoi_digits n, Dec.digits_ne_nil n, Dec.digits_isDigit n, Dec.spanDigits_digits' n⟩

/-! ## 2. the regular expression -/

/-- on `b;x;y` + final byte + anything, the unanchored regular expression
`(\d+);(\d+);(\d+)([Mm])` matches leftmost at offset 0, its groups are the three numbers
and the final byte, and the match ends at the final byte whatever follows. -/
theorem C11_sgr_find (b x y : Nat) (fin : Nat) (hfin : fin = 77 ∨ fin = 109) (rest : Bytes) :
    sgrFind (Dec.digits b ++ [59] ++ Dec.digits x ++ [59] ++ Dec.digits y ++ [fin] ++ rest)
      = some (0, { d1 := Dec.digits b, d2 := Dec.digits x, d3 := Dec.digits y, fin := fin,
                   len := (Dec.digits b).length + 1 + (Dec.digits x).length + 1
                            + (Dec.digits y).length + 1 }) := by
  have h := sgrFind_digits b x y fin hfin rest
  simpa only [List.append_assoc, List.cons_append, List.nil_append] using h

/-! ## 3. SGR reports -/

/-- an SGR report followed by anything decodes (no panic) to a mouse message that consumes
exactly the report's bytes; X and Y are the zero-based cell (the report is one-based);
button, action and modifiers are the xterm decoding of the code with "release" taken from
the final byte `m` (109); the deprecated type is as in `Xterm.event`. -/
theorem C11_sgr (T : Table) (lens : List Nat) (b x y fin : Nat) (hfin : fin = 77 ∨ fin = 109)
    (rest : Bytes) :
    detectOneMsg T lens (sgrReport b x y fin ++ rest) false
      = .ok ((sgrReport b x y fin).length,
          some (.mouse (event (decode true (min b Dec.maxInt64) (fin == 109))
            (Int.ofNat (min x Dec.maxInt64) - 1) (Int.ofNat (min y Dec.maxInt64) - 1)))) := by
  rw [sgrReport_append, sgrReport_length]
  exact detectOneMsg_sgr T lens false b x y fin hfin rest rfl

/-- the fields of `C11_sgr` one by one (what the prose property lists) -/
theorem C11_sgr_fields (T : Table) (lens : List Nat) (b x y fin : Nat) (hfin : fin = 77 ∨ fin = 109)
    (rest : Bytes) :
    ∃ ev, detectOneMsg T lens (sgrReport b x y fin ++ rest) false
            = .ok ((sgrReport b x y fin).length, some (.mouse ev)) ∧
      ev.x = (min x Dec.maxInt64 : Nat) - 1 ∧ ev.y = (min y Dec.maxInt64 : Nat) - 1 ∧
      ev.button = (decode true (min b Dec.maxInt64) (fin == 109)).button ∧
      ev.action = (decode true (min b Dec.maxInt64) (fin == 109)).action ∧
      ev.shift = (decode true (min b Dec.maxInt64) (fin == 109)).shift ∧
      ev.alt = (decode true (min b Dec.maxInt64) (fin == 109)).alt ∧
      ev.ctrl = (decode true (min b Dec.maxInt64) (fin == 109)).ctrl :=
  ⟨_, C11_sgr T lens b x y fin hfin rest, rfl, rfl, rfl, rfl, rfl, rfl, rfl⟩

/-- a report is never "incomplete" by itself: when the read filled the buffer
(`canHaveMoreData`), the only reason to hold it back is a key of the table that properly
extends the whole buffer. -/
theorem C11_sgr_incomplete (T : Table) (b x y fin : Nat) (hfin : fin = 77 ∨ fin = 109) (rest : Bytes) :
    isIncompleteEvent T (sgrReport b x y fin ++ rest)
      = isProperPrefixOfKey T (sgrReport b x y fin ++ rest) := by
  rw [sgrReport_append]
  exact isIncompleteEvent_sgr T b x y fin hfin rest

/-- `C11_sgr` with `canHaveMoreData = true`, for a buffer that is not held back -/
theorem C11_sgr_more (T : Table) (lens : List Nat) (b x y fin : Nat) (hfin : fin = 77 ∨ fin = 109)
    (rest : Bytes) (hinc : isIncompleteEvent T (sgrReport b x y fin ++ rest) = false) :
    detectOneMsg T lens (sgrReport b x y fin ++ rest) true
      = .ok ((sgrReport b x y fin).length,
          some (.mouse (event (decode true (min b Dec.maxInt64) (fin == 109))
            (Int.ofNat (min x Dec.maxInt64) - 1) (Int.ofNat (min y Dec.maxInt64) - 1)))) := by
  rw [sgrReport_append] at hinc ⊢
  rw [sgrReport_length]
  exact detectOneMsg_sgr T lens true b x y fin hfin rest (by rw [hinc]; rfl)

/-- ... which is the case for every table none of whose keys starts with `ESC [ <`
(true of bubbletea's table: checked on the extracted table by the C20 facts) -/
theorem C11_sgr_more_of_table (T : Table) (lens : List Nat) (b x y fin : Nat)
    (hfin : fin = 77 ∨ fin = 109) (rest : Bytes)
    (hT : ∀ e ∈ T, ¬ ([0x1b, 0x5b, 0x3c] <+: e.seq)) :
    detectOneMsg T lens (sgrReport b x y fin ++ rest) true
      = .ok ((sgrReport b x y fin).length,
          some (.mouse (event (decode true (min b Dec.maxInt64) (fin == 109))
            (Int.ofNat (min x Dec.maxInt64) - 1) (Int.ofNat (min y Dec.maxInt64) - 1)))) := by
  apply C11_sgr_more T lens b x y fin hfin rest
  rw [C11_sgr_incomplete T b x y fin hfin rest]
  have : sgrReport b x y fin ++ rest
      = [0x1b, 0x5b, 0x3c] ++ (Dec.digits b ++ 59 :: (Dec.digits x ++ 59 :: (Dec.digits y ++ fin :: rest))) := by
    rw [sgrReport_append]; rfl
  rw [this]
  exact isProperPrefixOfKey_false T _ _ hT

/-! ## 4. X10 reports -/

/-- an X10 report followed by anything decodes (no panic) to a mouse message of width 6
whose X and Y are the coordinate bytes minus 32 (the offset) minus 1 (one-based), and, for a
button byte `≥ 32` (every byte a terminal sends), whose button, action and modifiers are the
xterm decoding of the byte minus 32; release comes from button code 3. No upper bound on the
bytes is needed. -/
theorem C11_x10 (T : Table) (lens : List Nat) (cb cx cy : Nat) (rest : Bytes) (hcb : 32 ≤ cb) :
    detectOneMsg T lens (x10Report cb cx cy ++ rest) false
      = .ok (6, some (.mouse (event (decode false (cb - 32) false)
            (Int.ofNat cx - 32 - 1) (Int.ofNat cy - 32 - 1)))) := by
  have h := detectMouse_x10 cb cx cy rest
  rw [x10_parse cb hcb] at h
  exact detectOneMsg_of_mouse T lens _ false rfl h

/-- the same for EVERY button byte: width 6, the cell, and for a byte below 32 (never sent)
the code wraps around modulo 256 like Go's masks on a negative `int` do. -/
theorem C11_x10_any (T : Table) (lens : List Nat) (cb cx cy : Nat) (rest : Bytes) :
    ∃ ev, detectOneMsg T lens (x10Report cb cx cy ++ rest) false = .ok (6, some (.mouse ev)) ∧
      ev.x = (cx : Int) - 32 - 1 ∧ ev.y = (cy : Int) - 32 - 1 ∧
      (32 ≤ cb → ev = event (decode false (cb - 32) false) ((cx : Int) - 32 - 1) ((cy : Int) - 32 - 1)) ∧
      (cb < 32 → ev = event (decode false (cb + 224) false) ((cx : Int) - 32 - 1) ((cy : Int) - 32 - 1)) := by
  refine ⟨_, detectOneMsg_of_mouse T lens _ false rfl (detectMouse_x10 cb cx cy rest), rfl, rfl, ?_, ?_⟩
  · intro h; rw [x10_parse cb h]; rfl
  · intro h; rw [x10_parse_lt cb h]; rfl

/-- with `canHaveMoreData = true` the report is held back only for a key of the table that
properly extends the whole buffer; otherwise the result is the same. -/
theorem C11_x10_more (T : Table) (lens : List Nat) (cb cx cy : Nat) (rest : Bytes) (hcb : 32 ≤ cb)
    (hT : isProperPrefixOfKey T (x10Report cb cx cy ++ rest) = false) :
    detectOneMsg T lens (x10Report cb cx cy ++ rest) true
      = .ok (6, some (.mouse (event (decode false (cb - 32) false)
            (Int.ofNat cx - 32 - 1) (Int.ofNat cy - 32 - 1)))) := by
  have h := detectMouse_x10 cb cx cy rest
  rw [x10_parse cb hcb] at h
  apply detectOneMsg_of_mouse T lens _ true _ h
  have := isIncompleteEvent_x10 T cb cx cy rest
  have e : x10Report cb cx cy ++ rest = 0x1b :: 0x5b :: 0x4d :: cb :: cx :: cy :: rest := rfl
  rw [e] at hT
  rw [this, hT]; rfl

/-! ## 5. consequences of the encoding, for all codes -/

/-- the button: bits 0-1 within the group chosen by bit 7 (buttons 8..11), else bit 6 (wheel,
4..7), else left/middle/right (1..3) with 3 meaning "none" (0). -/
theorem C11_button (sgr : Bool) (code : Nat) (releaseFinal : Bool) :
    (decode sgr code releaseFinal).button =
      (if code / 128 % 2 = 1 then 8 + code % 4
       else if code / 64 % 2 = 1 then 4 + code % 4
       else if code % 4 = 3 then 0 else 1 + code % 4) :=
  Xterm.button_eq sgr code releaseFinal

/-- the modifiers: +4 shift, +8 alt, +16 ctrl -/
theorem C11_modifiers (sgr : Bool) (code : Nat) (releaseFinal : Bool) :
    ((decode sgr code releaseFinal).shift = true ↔ code / 4 % 2 = 1) ∧
    ((decode sgr code releaseFinal).alt = true ↔ code / 8 % 2 = 1) ∧
    ((decode sgr code releaseFinal).ctrl = true ↔ code / 16 % 2 = 1) :=
  Xterm.mods sgr code releaseFinal

/-- the button is a wheel button exactly for the codes of the wheel group, and a wheel
event is always a press: never a release (whatever the final byte), never a motion (whatever
the motion bit). -/
theorem C11_wheel (sgr : Bool) (code : Nat) (releaseFinal : Bool) :
    ((4 ≤ (decode sgr code releaseFinal).button ∧ (decode sgr code releaseFinal).button ≤ 7)
        ↔ code / 64 % 4 = 1) ∧
    (code / 64 % 4 = 1 → (decode sgr code releaseFinal).action = press) :=
  Xterm.wheel sgr code releaseFinal

/-- a report with the motion bit that is not a wheel event is a motion, in both encodings
and whatever the final byte. -/
theorem C11_motion (sgr : Bool) (code : Nat) (releaseFinal : Bool)
    (hm : code / 32 % 2 = 1) (hw : code / 64 % 4 ≠ 1) :
    (decode sgr code releaseFinal).action = motion :=
  Xterm.motion_of sgr code releaseFinal hm hw

/-- otherwise (no motion bit, not a wheel event) the action is a press or a release, and it
is a release exactly when the SGR final byte says so, or the code is the basic-group
button 3 ("release" of X10; also honoured in SGR, as the Go code does). -/
theorem C11_release (sgr : Bool) (code : Nat) (releaseFinal : Bool)
    (hm : code / 32 % 2 = 0) (hw : code / 64 % 4 ≠ 1) :
    ((decode sgr code releaseFinal).action = release ↔
      ((sgr = true ∧ releaseFinal = true) ∨ (code % 4 = 3 ∧ code / 64 % 4 = 0))) ∧
    ((decode sgr code releaseFinal).action = press ∨ (decode sgr code releaseFinal).action = release) :=
  Xterm.release_iff sgr code releaseFinal hm hw

/-- the two encodings agree on the button part: SGR code `b` and X10 byte `b + 32` give the
same event (X10 can express it when `b < 224`; the equation needs no bound). -/
theorem C11_agree (b : Nat) :
    parseMouseButton (Int.ofNat b) true = parseMouseButton (Int.ofNat (b + 32)) false :=
  parse_sgr_eq_x10 b

/-- ... and on whole reports: the SGR report `b;x;y M` and the X10 report with bytes
`b+32, x+32, y+32` decode to the same mouse message, the zero-based cell `(x-1, y-1)`
included (X10 can express the event when `b < 224` and `x, y ≤ 223`; the theorem only needs
the numbers to be below the int64 saturation point). -/
theorem C11_agree_report (T : Table) (lens : List Nat) (b x y : Nat) (rest rest' : Bytes)
    (hb : b ≤ Dec.maxInt64) (hx : x ≤ Dec.maxInt64) (hy : y ≤ Dec.maxInt64) :
    ∃ ev, ev.x = (x : Int) - 1 ∧ ev.y = (y : Int) - 1 ∧
      detectOneMsg T lens (sgrReport b x y 77 ++ rest) false
        = .ok ((sgrReport b x y 77).length, some (.mouse ev)) ∧
      detectOneMsg T lens (x10Report (b + 32) (x + 32) (y + 32) ++ rest') false
        = .ok (6, some (.mouse ev)) := by
  refine ⟨event (decode false b false) ((x : Int) - 1) ((y : Int) - 1), rfl, rfl, ?_, ?_⟩
  · rw [C11_sgr T lens b x y 77 (Or.inl rfl) rest, Nat.min_eq_left hb, Nat.min_eq_left hx,
      Nat.min_eq_left hy]
    have : ((77 : Nat) == 109) = false := by decide
    rw [this, Xterm.decode_sgr_press]
    rfl
  · rw [C11_x10 T lens (b + 32) (x + 32) (y + 32) rest' (by omega)]
    have e1 : Int.ofNat (x + 32) - 32 - 1 = (x : Int) - 1 := by
      show ((x + 32 : Nat) : Int) - 32 - 1 = (x : Int) - 1
      omega
    have e2 : Int.ofNat (y + 32) - 32 - 1 = (y : Int) - 1 := by
      show ((y + 32 : Nat) : Int) - 32 - 1 = (y : Int) - 1
      omega
    rw [e1, e2, Nat.add_sub_cancel]

/-! ## 6. embedded reports -/

/-- a report embedded among other events consumes exactly its own bytes: when the decode
loop of the reader reaches a buffer position where an SGR report starts, it emits the mouse
message with precisely the report as its consumed bytes and goes on with what follows. -/
theorem C11_embedded_sgr (T : Table) (lens : List Nat) (b x y fin : Nat) (hfin : fin = 77 ∨ fin = 109)
    (rest : Bytes) (fuel : Nat) (acc : List Out) :
    decodeLoop T lens false (fuel + 1) (sgrReport b x y fin ++ rest) acc
      = decodeLoop T lens false fuel rest
          ({ msg := some (.mouse (event (decode true (min b Dec.maxInt64) (fin == 109))
                (Int.ofNat (min x Dec.maxInt64) - 1) (Int.ofNat (min y Dec.maxInt64) - 1))),
             consumed := sgrReport b x y fin } :: acc) :=
  decodeLoop_step T lens false fuel _ rest acc _ (sgrReport_ne_nil b x y fin)
    (C11_sgr T lens b x y fin hfin rest)

/-- the same for an X10 report -/
theorem C11_embedded_x10 (T : Table) (lens : List Nat) (cb cx cy : Nat) (hcb : 32 ≤ cb)
    (rest : Bytes) (fuel : Nat) (acc : List Out) :
    decodeLoop T lens false (fuel + 1) (x10Report cb cx cy ++ rest) acc
      = decodeLoop T lens false fuel rest
          ({ msg := some (.mouse (event (decode false (cb - 32) false)
                (Int.ofNat cx - 32 - 1) (Int.ofNat cy - 32 - 1))),
             consumed := x10Report cb cx cy } :: acc) :=
  decodeLoop_step T lens false fuel _ rest acc _ (by simp [x10Report])
    (C11_x10 T lens cb cx cy rest hcb)

/-! ## non-vacuity -/

/-- `ESC[<0;1;1M`: left press at cell (0,0), 9 bytes, followed by a letter -/
example : (detectOneMsg [] [] ([0x1b, 0x5b, 0x3c, 0x30, 0x3b, 0x31, 0x3b, 0x31, 0x4d] ++ [0x61]) false).toOption
    = some (9, some (.mouse { x := 0, y := 0, action := 0, button := 1, type := 1 })) := by
  decide

/-- the same through the theorem: the report is `sgrReport 0 1 1 77` -/
example : sgrReport 0 1 1 77 = [0x1b, 0x5b, 0x3c, 0x30, 0x3b, 0x31, 0x3b, 0x31, 0x4d] := by decide

/-- `ESC[<16;10;5m`: ctrl + left release at (9,4) -/
example : (detectOneMsg [] [] (sgrReport 16 10 5 109) false).toOption
    = some (11, some (.mouse { x := 9, y := 4, ctrl := true, action := 1, button := 1, type := 4 })) := by
  decide

/-- the specification on a few codes: wheel-up with shift; motion with the right button;
SGR release of the middle button; X10 release -/
example : decode true 68 true = { button := 4, action := 0, shift := true, alt := false, ctrl := false } := by decide
example : decode true 34 true = { button := 3, action := 2, shift := false, alt := false, ctrl := false } := by decide
example : decode true 1 true = { button := 2, action := 1, shift := false, alt := false, ctrl := false } := by decide
example : decode false 3 false = { button := 0, action := 1, shift := false, alt := false, ctrl := false } := by decide

/-- X10 `ESC[M` + (32, 33, 33): left press at (0,0) -/
example : (detectOneMsg [] [] (x10Report 32 33 33) false).toOption
    = some (6, some (.mouse { x := 0, y := 0, action := 0, button := 1, type := 1 })) := by
  decide

end Tea.Props.C11
