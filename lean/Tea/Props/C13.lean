import Tea.Proofs.LifecycleApi
/-
C13 — Send, Quit, Wait, Println and Printf never hang once the program has ended.

"Once a program has finished - for any reason - Send, Quit, Println and Printf return
immediately whether they were called before or after it finished (every goroutine
blocked in them at termination is released), and Wait returns for every caller,
however many, once Run has completed, including after Kill, context cancellation,
interrupt or error."

The theorems are about the Lifecycle LTS (Tea/Runtime/Lifecycle.lean). Send, Quit, Println
and Printf all go through `Send` (`select { case <-ctx.Done(): ; case p.msgs <- msg: }`); a
caller is an entry of `s.senders` with a `kind` and a program counter `notCalled -> blocked ->
returned`; Wait callers are the entries of `s.waiters`. `sendAbort i` / `waitReturn i` are the
steps by which caller `i` returns WITHOUT a partner (nobody has to receive anything). The
theorems hold for EVERY configuration (any number of callers of any kind) and EVERY schedule
(`Reachable c s` quantifies over all label sequences from the moment Run is entered, `init0 c`:
callers may enter Send / Wait while Run is still starting up), so for every way the program ended:
quit, Kill(), parent-context cancellation, interrupt, read error, panic - and a failure or a panic
of the start-up (after a failed `initTerminal` Run returns WITHOUT a shutdown: the deferred
`cancel()` and `close(finished)` are what releases the callers then).  `s.senders` is not fixed by the
configuration: every Exec APPENDS callers (the goroutines RestoreTerminal spawns to Send the repaint
/ size message and the callback's message, `exResSpawn`; one caller in the error arms) - the theorems
quantify over every index of `s.senders` in the state at hand, so they cover those callers too
(`C13_exec_callers`).

Only property theorems live here; helpers are in `Tea/Proofs/Lifecycle.lean` (invariants) and
`Tea/Proofs/LifecycleApi.lean` (enabledness of the callers' steps, release of all callers).
-/
namespace Tea.Props.C13
open Tea.Runtime.Life

/-! ### 1. Send / Quit / Println / Printf -/

/-- SEND RELEASED. When Run has returned, every goroutine blocked in Send (of whatever kind:
Send, Quit, Println, Printf) can return by one step of its own - no receiver needed - and
after that step it HAS returned, with Run still returned. -/
theorem C13_send_released (c : Config) (s : St) (hr : Reachable c s) (hret : s.runPc = .returned)
    (i : Nat) (cl : Caller) (hi : s.senders[i]? = some cl) (hb : cl.pc = .blocked) :
    ∃ s', step s (.sendAbort i) = some s' ∧ s'.senders[i]? = some { cl with pc := .returned } ∧
      s'.runPc = .returned := by
  have hctx := ((inv_ctx hr).returned hret).1
  exact ⟨_, sendAbort_enabled hi hb hctx, getElem?_set_self_of hi, hret⟩

/-- the form asked for in the task: the step is enabled -/
theorem C13_send_released_enabled (c : Config) (s : St) (hr : Reachable c s)
    (hret : s.runPc = .returned) (i : Nat) (cl : Caller) (hi : s.senders[i]? = some cl)
    (hb : cl.pc = .blocked) : (step s (.sendAbort i)).isSome = true := by
  obtain ⟨s', h, _⟩ := C13_send_released c s hr hret i cl hi hb
  rw [h]; rfl

/-- SEND AFTER THE END. A Send (Quit, Println, Printf) called after Run has returned is entered
and returns: two steps of the caller alone, both enabled. -/
theorem C13_send_after (c : Config) (s : St) (hr : Reachable c s) (hret : s.runPc = .returned)
    (i : Nat) (cl : Caller) (hi : s.senders[i]? = some cl) (hb : cl.pc = .notCalled) :
    ∃ s', runLabels s [.sendCall i, .sendAbort i] = some s' ∧
      s'.senders[i]? = some { cl with pc := .returned } ∧ s'.runPc = .returned := by
  have hctx := ((inv_ctx hr).returned hret).1
  have h1 := sendCall_enabled hi hb
  have hi2 : ({ s with senders := s.senders.set i { cl with pc := .blocked } } : St).senders[i]?
      = some { cl with pc := .blocked } := getElem?_set_self_of hi
  have h2 := sendAbort_enabled hi2 rfl hctx
  refine ⟨{ s with
      senders := (s.senders.set i { cl with pc := .blocked }).set i ({ cl with pc := .returned }) },
    ?_, getElem?_set_self_of hi2, hret⟩
  simp only [runLabels, h1, h2]

/-- RELEASED DURING SHUTDOWN. Even before Run has returned: as soon as the context is cancelled
(the first thing every shutdown does), a blocked Send can return by itself. -/
theorem C13_released_during_shutdown (s : St) (hctx : s.ctxDone = true)
    (i : Nat) (cl : Caller) (hi : s.senders[i]? = some cl) (hb : cl.pc = .blocked) :
    ∃ s', step s (.sendAbort i) = some s' ∧ s'.senders[i]? = some { cl with pc := .returned } :=
  ⟨_, sendAbort_enabled hi hb hctx, getElem?_set_self_of hi⟩

/-- ... and it stays that way: the context is never un-cancelled, so a Send that is still blocked
in ANY later state of any schedule can still return by itself -/
theorem C13_release_is_stable (s s' : St) (l : Label) (hs : step s l = some s')
    (hctx : s.ctxDone = true) : s'.ctxDone = true :=
  ctxDone_mono hs hctx

/-- EVERY BLOCKED SENDER IS RELEASED. When Run has returned there is a schedule consisting of
`sendAbort` steps only after which every caller that was blocked in Send has returned, every
other caller is as it was, and nothing else in the state has changed. -/
theorem C13_all_senders_released (c : Config) (s : St) (hr : Reachable c s)
    (hret : s.runPc = .returned) :
    ∃ ls, (∀ l ∈ ls, ∃ i, l = Label.sendAbort i) ∧
      runLabels s ls = some { s with senders := s.senders.map release } :=
  release_all s ((inv_ctx hr).returned hret).1

/-- `release`: a blocked caller has returned, any other is unchanged; so nobody is blocked -/
theorem release_def (cl : Caller) :
    release cl = if cl.pc = .blocked then { cl with pc := .returned } else cl := rfl

theorem C13_nobody_blocked_after_release (ss : List Caller) (i : Nat) (cl : Caller)
    (h : (ss.map release)[i]? = some cl) : cl.pc ≠ .blocked := by
  simp only [List.getElem?_map, Option.map_eq_some_iff] at h
  obtain ⟨a, _, ha⟩ := h
  subst ha
  unfold release
  split
  · simp
  · assumption

/-- BEFORE THE END (documented behaviour, for contrast): while the context is live and the event
loop is busy (in Update, View, handing over a command, or already exited), a blocked Send
has NO enabled step: it waits - that is what Send does on a running program. -/
theorem C13_before_running (s : St) (hctx : s.ctxDone = false) (hel : s.el ≠ .select)
    (i : Nat) (cl : Caller) (hi : s.senders[i]? = some cl) (_hb : cl.pc = .blocked) :
    step s (.sendAbort i) = none ∧ step s (.elRecvSender i) = none := by
  simp [step, hi, hctx, hel]

/-- THE CALLERS AN EXEC SPAWNS. RestoreTerminal's last step appends two callers already blocked in
Send (the error arms of an Exec: one); they are entries of `senders` like any other - the callers
that were there keep their indices -, so when Run has returned each of them returns by a step of its
own (`C13_send_released` at the indices `s.senders.length`, `s.senders.length + 1`). -/
theorem C13_exec_callers (s s' : St) (hs : step s .exResSpawn = some s') :
    s'.senders = s.senders ++ [{ kind := .user, pc := .blocked }, { kind := .user, pc := .blocked }] ∧
    (∀ (i : Nat) (cl : Caller), s.senders[i]? = some cl → s'.senders[i]? = some cl) ∧
    (∀ c, Reachable c s' → s'.runPc = .returned → ∀ i : Nat, i = s.senders.length ∨ i = s.senders.length + 1 →
      ∃ s'', step s' (.sendAbort i) = some s'' ∧
        s''.senders[i]? = some { kind := .user, pc := .returned }) := by
  have hsend : s'.senders =
      s.senders ++ [{ kind := .user, pc := .blocked }, { kind := .user, pc := .blocked }] := by
    simp only [step] at hs
    split at hs
    · cases hs; rfl
    · cases hs
  refine ⟨hsend, ?_, ?_⟩
  · intro i cl hi
    have hlt : i < s.senders.length := by
      apply Classical.byContradiction
      intro hn
      rw [List.getElem?_eq_none (by omega)] at hi
      cases hi
    rw [hsend, List.getElem?_append_left hlt, hi]
  · intro c hr hret i hi
    have hget : s'.senders[i]? = some { kind := .user, pc := .blocked } := by
      rw [hsend]
      rcases hi with h | h <;> subst h <;> simp
    obtain ⟨s'', h1, h2, _⟩ := C13_send_released c s' hr hret i _ hget rfl
    exact ⟨s'', h1, h2⟩

/-! ### 2. Wait -/

/-- WAIT, EVERY CALLER. When Run has returned (for any reason), every goroutine blocked in Wait,
however many there are, can return by one step of its own, and after it that caller has
returned. (`finished` is closed, not sent on: it is never consumed, see
`C13_finished_stays_closed`.) -/
theorem C13_wait_all (c : Config) (s : St) (hr : Reachable c s) (hret : s.runPc = .returned)
    (i : Nat) (hi : s.waiters[i]? = some .blocked) :
    ∃ s', step s (.waitReturn i) = some s' ∧ s'.waiters[i]? = some .returned ∧
      s'.finishedClosed = true := by
  have hf := ((inv_ctx hr).returned hret).2
  exact ⟨_, waitReturn_enabled hi hf, getElem?_set_self_of hi, hf⟩

/-- the form asked for in the task: the step is enabled -/
theorem C13_wait_all_enabled (c : Config) (s : St) (hr : Reachable c s) (hret : s.runPc = .returned)
    (i : Nat) (hi : s.waiters[i]? = some .blocked) : (step s (.waitReturn i)).isSome = true := by
  obtain ⟨s', h, _⟩ := C13_wait_all c s hr hret i hi
  rw [h]; rfl

/-- a Wait called after Run has returned is entered and returns at once -/
theorem C13_wait_after (c : Config) (s : St) (hr : Reachable c s) (hret : s.runPc = .returned)
    (i : Nat) (hi : s.waiters[i]? = some .notCalled) :
    ∃ s', runLabels s [.waitCall i, .waitReturn i] = some s' ∧ s'.waiters[i]? = some .returned := by
  have hf := ((inv_ctx hr).returned hret).2
  have h1 := waitCall_enabled hi
  have hi2 : ({ s with waiters := s.waiters.set i .blocked } : St).waiters[i]? = some .blocked :=
    getElem?_set_self_of hi
  have h2 := waitReturn_enabled hi2 hf
  refine ⟨{ s with waiters := (s.waiters.set i .blocked).set i .returned }, ?_,
    getElem?_set_self_of hi2⟩
  simp only [runLabels, h1, h2]

/-- one waiter's return takes nothing away from the others: `finished` stays closed and Run
stays returned under EVERY step of anybody -/
theorem C13_finished_stays_closed (s s' : St) (l : Label) (hs : step s l = some s')
    (hf : s.finishedClosed = true) : s'.finishedClosed = true :=
  finished_stable hs hf

theorem C13_returned_stays_returned (s s' : St) (l : Label) (hs : step s l = some s')
    (hret : s.runPc = .returned) : s'.runPc = .returned :=
  returned_stable hs hret

/-- EVERY WAITER IS RELEASED. When Run has returned there is a schedule of `waitReturn` steps
only after which every caller that was blocked in Wait has returned and nothing else changed. -/
theorem C13_all_waiters_released (c : Config) (s : St) (hr : Reachable c s)
    (hret : s.runPc = .returned) :
    ∃ ls, (∀ l ∈ ls, ∃ i, l = Label.waitReturn i) ∧
      runLabels s ls = some { s with waiters := s.waiters.map releaseW } :=
  releaseW_all s ((inv_ctx hr).returned hret).2

theorem releaseW_def (w : APc) : releaseW w = if w = .blocked then .returned else w := rfl

/-- Wait does not return early: a waiter's return step is enabled only when Run has returned -/
theorem C13_wait_only_after_run (c : Config) (s : St) (hr : Reachable c s) (i : Nat)
    (h : (step s (.waitReturn i)).isSome = true) : s.runPc = .returned := by
  apply (inv_ctx hr).finished
  simp only [step] at h
  split at h
  · split at h
    · assumption
    · cases h
  · cases h

/-! ### 3. non-vacuity -/

/-- two Send callers, a Quit() caller, a Println-like caller; three Wait callers -/
def cfg : Config :=
  { cancelable := true, withSignalHandler := true, ignoreSignals := false, withResize := true,
    withInitCmd := true, withInput := true, senders := [.user, .user, .quit, .user], waiters := 3 }

/-- Kill() with two goroutines blocked in Send (the loop is busy in Update, which then
panics), one Send never called, and two waiters blocked; Run returns ErrProgramKilled -/
def killed : List Label :=
  [.sendCall 0, .elRecvSender 0, .sendCall 1, .sendCall 2, .waitCall 0, .waitCall 1,
   .killCall, .shCancel (some 0), .callbackPanics,
   .runTail, .shCancel none, .dispExit, .sigExit, .resizeExit, .initAbort, .shHandlers none,
   .shReader none, .shRenderer none, .shRestore none, .runReturn]

def obs (s : St) : RunPc × ErrClass × List APc × List APc :=
  (s.runPc, s.runErr, s.senders.map (·.pc), s.waiters)

example : (runLabels (init cfg) killed).map obs =
    some (.returned, .killed, [.returned, .blocked, .blocked, .notCalled],
      [.blocked, .blocked, .notCalled]) := by
  decide

/-- ... then everybody is released, in any order, and late callers return too -/
example : (runLabels (init cfg)
    (killed ++ [.waitReturn 1, .sendAbort 2, .sendCall 3, .sendAbort 1, .waitCall 2, .waitReturn 0,
      .sendAbort 3, .waitReturn 2])).map obs =
    some (.returned, .killed, [.returned, .returned, .returned, .returned],
      [.returned, .returned, .returned]) := by
  decide

/-- the hypotheses of the theorems are satisfiable: the state after `killed` is reachable, Run
has returned, sender 1 is blocked, waiter 0 is blocked -/
example : ∃ s, Reachable cfg s ∧ s.runPc = .returned ∧
    (∃ cl, s.senders[1]? = some cl ∧ cl.pc = .blocked) ∧ s.waiters[0]? = some .blocked := by
  obtain ⟨s, hs⟩ : ∃ s, runLabels (init cfg) killed = some s :=
    Option.isSome_iff_exists.1 (by decide)
  have h : (runLabels (init cfg) killed).map
      (fun s => (s.runPc, s.senders[1]?.map (·.pc), s.waiters[0]?)) =
      some (.returned, some .blocked, some .blocked) := by decide
  rw [hs] at h
  simp only [Option.map_some, Option.some.injEq, Prod.mk.injEq] at h
  obtain ⟨h1, h2, h3⟩ := h
  refine ⟨s, reachable_runLabels _ Reachable.init hs, h1, ?_, h3⟩
  cases h4 : s.senders[1]? with
  | none => rw [h4] at h2; cases h2
  | some cl =>
    rw [h4] at h2
    simp only [Option.map_some, Option.some.injEq] at h2
    exact ⟨cl, rfl, h2⟩

/-- a Send and a Wait entered while Run is still starting up (the loop has not begun: the Send
waits); then `initTerminal` fails and Run returns without a shutdown: both callers are released by
the deferred `cancel()` / `close(finished)` -/
example : (runLabels (init0 cfg) [.sendCall 0, .waitCall 0, .suSigHandler, .suNewRenderer]).map
      (fun s => ((step s (.sendAbort 0)).isSome, (step s (.elRecvSender 0)).isSome,
        (step s (.waitReturn 0)).isSome)) = some (false, false, false) ∧
    (runLabels (init0 cfg) [.sendCall 0, .waitCall 0, .suSigHandler, .suNewRenderer, .startTermFails,
      .sendAbort 0, .waitReturn 0]).map obs =
    some (.returned, .startup, [.returned, .notCalled, .notCalled, .notCalled],
      [.returned, .notCalled, .notCalled]) := by
  decide

/-- a Kill() during the start-up with a Send blocked: released as soon as Kill has cancelled the
context, long before Run returns -/
example : (runLabels (init0 cfg) [.sendCall 1, .suSigHandler, .killCall, .shCancel (some 0), .sendAbort 1]).map
    (fun s => (s.runPc, s.senders.map (·.pc))) =
    some (.starting .newRenderer, [.notCalled, .returned, .notCalled, .notCalled]) := by
  decide

/-- an Exec appends two callers blocked in Send (indices 1 and 2 here); Kill() while Update has the
execMsg: when Run has returned both can return by themselves -/
example : (runLabels (init { cfg with senders := [.exec] })
    ([.sendCall 0] ++ execSchedule 0 ++
     [.killCall, .shCancel (some 0), .callbackReturns, .elCmdAbort, .runTail, .shCancel none, .dispExit,
      .sigExit, .resizeExit, .initAbort, .shHandlers none, .shReader none, .shRenderer none,
      .shRestore none, .runReturn, .sendAbort 2, .sendAbort 1])).map obs =
    some (.returned, .killed, [.returned, .returned, .returned], [.notCalled, .notCalled, .notCalled]) ∧
    (runLabels (init { cfg with senders := [.exec] }) ([.sendCall 0] ++ execSchedule 0)).map
      (fun s => s.senders.map (·.pc)) = some [.returned, .blocked, .blocked] := by
  decide

/-- before the end, a Send on a busy loop waits (no step of its own), and Wait waits -/
example : (runLabels (init cfg) [.sendCall 0, .elRecvSender 0, .sendCall 1, .waitCall 0]).map
    (fun s => ((step s (.sendAbort 1)).isSome, (step s (.elRecvSender 1)).isSome,
      (step s (.waitReturn 0)).isSome)) = some (false, false, false) := by
  decide

end Tea.Props.C13
