import Tea.Proofs.InputReader
import Tea.Proofs.InputReaderCancel
/-
C09 — The input reader is total: never panics, stalls, loses or repeats bytes.

"For every byte sequence, delivered in every possible division into reads, the
input reader never panics and never loops without progress: each message it
emits accounts for a non-empty contiguous run of the input, the runs are
adjacent and in order (nothing skipped, nothing decoded twice), bytes are held
back only while an event may still be incomplete, and the reader stops promptly
with the underlying reader's error (end of input) or when the program is
cancelled."

The theorems are about the model of key.go / key_sequences.go / mouse.go in
`Tea/Input`, for EVERY key table `T` and every list `lens` of positive lengths
(so they survive any edit of the table), every byte string and every chunking.
Only property theorems live here; helper lemmas are in `Tea/Proofs`.
-/
namespace Tea.Props.C09
open Tea Tea.Input

/-- detectOneMsg never panics on a non-empty buffer (the reader never passes an empty one:
`C09_reader_total`), whatever the table. In particular the explicit
`panic("invalid mouse event")` of mouse.go and every index expression are safe. -/
theorem C09_no_panic (T : Table) (lens : List Nat) (b : Bytes) (more : Bool)
    (hb : b ≠ []) (hl : ∀ l ∈ lens, 0 < l) :
    ∃ r, detectOneMsg T lens b more = .ok r := by
  obtain ⟨w, m, h, _⟩ := detectOneMsg_spec T lens b more hb hl
  exact ⟨_, h⟩

/-- the width is within the buffer; a non-zero width always comes with a message; a zero
width (= "need more data") only for an unterminated paste or, when the read filled the
buffer, for a run of printable characters that reaches the end of the buffer. -/
theorem C09_width (T : Table) (lens : List Nat) (b : Bytes) (more : Bool)
    (hb : b ≠ []) (hl : ∀ l ∈ lens, 0 < l) (w : Nat) (m : Option Msg)
    (h : detectOneMsg T lens b more = .ok (w, m)) :
    w ≤ b.length ∧ (0 < w → m.isSome) ∧ (w = 0 → m = none ∧ HeldBack T b more) := by
  obtain ⟨w', m', h', h1, h2, h3⟩ := detectOneMsg_spec T lens b more hb hl
  rw [h] at h'
  injection h' with h'
  injection h' with e1 e2
  subst e1; subst e2
  exact ⟨h1, h2, h3⟩

/-- the explicit panic in parseSGRMouseEvent is dead code: whenever detectOneMsg's regex
test succeeds, the re-parse succeeds. -/
theorem C09_sgr_reparse (b : Bytes) (r : Nat × SgrMatch) (h : sgrFind (b.drop 3) = some r) :
    ∃ ev, parseSGR b = .ok ev :=
  parseSGR_ok_of_find h

/-- one successful Read: no panic; the emitted messages account for adjacent, non-empty,
in-order runs of (left-over ++ chunk); whatever is not emitted is exactly the new
left-over, and it is held back only for the two allowed reasons. -/
theorem C09_read_accounting (T : Table) (lens : List Nat) (hl : ∀ l ∈ lens, 0 < l) (left chunk : Bytes) :
    ∃ out left', processRead T lens left chunk = .ok (out, left') ∧
      consumedOf out ++ left' = left ++ chunk ∧
      (∀ o ∈ out, o.consumed ≠ [] ∧ o.msg.isSome) ∧
      (left' ≠ [] → HeldBack T left' (chunk.length == bufSize)) :=
  processRead_spec T lens hl left chunk

/-- every division of every byte string into reads, ended by end of input (`eof = true`:
the held-back bytes are decoded) or by any other error / cancellation (`eof = false`): the
reader is total (the inner loop is defined by structural recursion on fuel `length + 1`,
and the proof shows the fuel never runs out: each iteration consumes at least one byte),
and nothing is skipped, repeated or invented: the consumed runs followed by what is still
held back are the input. At end of input only an unterminated paste can remain undelivered. -/
theorem C09_reader_total (T : Table) (lens : List Nat) (eof : Bool) (hl : ∀ l ∈ lens, 0 < l) (chunks : List Bytes) :
    ∃ out left, readAll T lens eof chunks [] [] = .ok (out, left) ∧
      consumedOf out ++ left = chunks.flatten ∧
      (∀ o ∈ out, o.consumed ≠ [] ∧ o.msg.isSome) ∧
      (eof = true → left ≠ [] → UnterminatedPaste left) := by
  obtain ⟨out, left, h1, h2, h3, h4⟩ := readAll_spec T lens eof hl chunks [] [] (by simp)
  refine ⟨out, left, h1, by simpa [consumedOf] using h2, h3, ?_⟩
  intro he hne
  rcases h4 he hne with h | h
  · exact h
  · simp at h

/-- "held back only while an event may still be incomplete", spelled out: the reasons for a
zero width are decidable facts about the buffer (no hidden state), and none applies to a
buffer that ends with a complete ASCII letter after a short read. -/
example : ¬ HeldBack [] [0x61] false := by
  intro h
  rcases h with h | h
  · exact absurd h.1 (by decide)
  · simp at h

/-- non-vacuity: a concrete stream (a key, an invalid byte, a mouse report cut in two) -/
example : (readAll [{ seq := [0x1b, 0x5b, 0x41], key := { type := -2 } }] [3] true
    [[0x1b, 0x5b, 0x41, 0xff], [0x1b, 0x5b, 0x3c, 0x30, 0x3b], [0x31, 0x3b, 0x31, 0x4d]] [] []).toOption.isSome = true := by
  decide

/-! ### a failing Read that carries data; cancellation -/

/-- A last Read that returns bytes TOGETHER with an error (`n > 0, err != nil`): the bytes are
input like any other. The reader accounts for ALL bytes the underlying reader delivered - the
successful reads AND the bytes that came with the error: the consumed runs, each non-empty and
with a message, followed by what is still held back, are their concatenation; and what is held
back at that point can only be held back for the reasons that apply with the flag off (an
unterminated paste). With no such bytes it is the ordinary failing Read. (Before fix `6d200e8`
the bytes were dropped: the statement then said `consumedOf out ++ left = reads.flatten`.) -/
theorem C09_failing_read_with_data (T : Table) (lens : List Nat) (hl : ∀ l ∈ lens, 0 < l)
    (reads : List Bytes) (lastData : Bytes) :
    (lastData = [] → readAllX T lens reads lastData = readAll T lens false reads [] []) ∧
    ∃ out left, readAllX T lens reads lastData = .ok (out, left) ∧
      consumedOf out ++ left = (reads ++ [lastData]).flatten ∧
      (∀ o ∈ out, o.consumed ≠ [] ∧ o.msg.isSome) ∧
      (lastData ≠ [] → left ≠ [] → HeldBack T left false) := by
  obtain ⟨out, left, h1, h2, h3, _⟩ := C09_reader_total T lens false hl reads
  refine ⟨?_, ?_⟩
  · intro he
    subst he
    simp [readAllX, h1]
  · by_cases he : lastData = []
    · subst he
      refine ⟨out, left, by simp [readAllX, h1], by simpa using h2, h3, fun h => absurd rfl h⟩
    · obtain ⟨out2, left2, d1, d2, d3, d4, _⟩ :=
        decodeLoop_spec T lens false hl ((left ++ lastData).length + 1) (left ++ lastData) []
          (by omega) (by simp)
      have hne : lastData.isEmpty = false := by
        cases lastData with
        | nil => exact absurd rfl he
        | cons _ _ => rfl
      have hx : readAllX T lens reads lastData = .ok (out ++ out2, left2) := by
        unfold readAllX
        rw [h1]
        simp only [hne]
        rw [d1]
        rfl
      refine ⟨out ++ out2, left2, hx, ?_, ?_, fun _ h => d4 h⟩
      · have d2' : consumedOf out2 ++ left2 = left ++ lastData := by simpa [consumedOf] using d2
        rw [consumedOf_append, List.append_assoc, d2', ← List.append_assoc, h2]
        simp
      · intro o ho
        rcases List.mem_append.1 ho with h | h
        · exact h3 o h
        · exact d3 o h

/-- Cancellation only truncates: for every budget the messages sent before the reader notices
the cancellation are EXACTLY the first `min budget n` messages of the uncancelled run (`n` =
their number): nothing reordered, nothing duplicated, nothing sent after the cancellation;
and the reader reports the cancellation iff there was a message number `budget + 1` to send. -/
theorem C09_cancel_prefix (T : Table) (lens : List Nat) (eof : Bool) (hl : ∀ l ∈ lens, 0 < l)
    (reads : List Bytes) (budget : Nat) :
    ∃ out left sent cancelled,
      readAll T lens eof reads [] [] = .ok (out, left) ∧
      readAllC T lens eof reads budget = .ok (sent, cancelled) ∧
      sent = out.take (min budget out.length) ∧
      sent.length = min budget out.length ∧
      (cancelled = true ↔ budget < out.length) := by
  obtain ⟨out, left, h1, _⟩ := C09_reader_total T lens eof hl reads
  have h := readAllCAux_spec T lens eof reads [] [] budget out left h1
  simp only [List.length_nil, Nat.zero_add] at h
  have e : out.take (min budget out.length) = out.take budget := by
    rcases Nat.le_total budget out.length with hle | hle
    · rw [Nat.min_eq_left hle]
    · rw [Nat.min_eq_right hle, List.take_of_length_le hle, List.take_of_length_le (Nat.le_refl _)]
  exact ⟨out, left, _, _, h1, h, e.symm, by simp [List.length_take], by simp⟩

/-- After the cancellation the reader performs no further Read: if message number
`budget + 1` is produced within the reads `pre` (the uncancelled reader on `pre` alone emits
more than `budget` messages), then the result under cancellation is fixed by `pre`: whatever
reads come later (`later` is arbitrary: different, longer, empty) and however the input would
have ended, the same `budget` messages are sent and the reader stops cancelled. (No
hypothesis on the table: the later reads are not even decoded.) -/
theorem C09_cancel_prompt (T : Table) (lens : List Nat) (pre : List Bytes) (budget : Nat)
    (out : List Out) (left : Bytes)
    (h : readAll T lens false pre [] [] = .ok (out, left)) (hb : budget < out.length) :
    ∀ (eof : Bool) (later : List Bytes),
      readAllC T lens eof (pre ++ later) budget = .ok (out.take budget, true) := by
  have h' := readAllCAux_spec T lens false pre [] [] budget out left h
  simp only [List.length_nil, Nat.zero_add, hb, decide_true] at h'
  exact readAllCAux_prompt T lens pre [] [] budget _ h'

/-- the same, as independence: two continuations of `pre` cannot be told apart -/
theorem C09_cancel_prompt_indep (T : Table) (lens : List Nat) (pre : List Bytes) (budget : Nat)
    (out : List Out) (left : Bytes)
    (h : readAll T lens false pre [] [] = .ok (out, left)) (hb : budget < out.length)
    (eof₁ eof₂ : Bool) (later₁ later₂ : List Bytes) :
    readAllC T lens eof₁ (pre ++ later₁) budget = readAllC T lens eof₂ (pre ++ later₂) budget := by
  rw [C09_cancel_prompt T lens pre budget out left h hb, C09_cancel_prompt T lens pre budget out left h hb]

/-- accounting under cancellation: the reader does not panic; the consumed runs of the
messages that were sent are non-empty, adjacent, in order, and form a PREFIX of the input
(`rest` = what was not delivered as a message); when the reader was not cancelled this is the
uncancelled run with its left-over. -/
theorem C09_cancel_accounting (T : Table) (lens : List Nat) (eof : Bool) (hl : ∀ l ∈ lens, 0 < l)
    (reads : List Bytes) (budget : Nat) :
    ∃ sent cancelled rest,
      readAllC T lens eof reads budget = .ok (sent, cancelled) ∧
      consumedOf sent ++ rest = reads.flatten ∧
      (∀ o ∈ sent, o.consumed ≠ [] ∧ o.msg.isSome) ∧
      (cancelled = false → readAll T lens eof reads [] [] = .ok (sent, rest)) := by
  obtain ⟨out, left, h1, h2, h3, _⟩ := C09_reader_total T lens eof hl reads
  have h := readAllCAux_spec T lens eof reads [] [] budget out left h1
  simp only [List.length_nil, Nat.zero_add] at h
  refine ⟨_, _, consumedOf (out.drop budget) ++ left, h, ?_, ?_, ?_⟩
  · rw [← List.append_assoc, ← consumedOf_append, List.take_append_drop, h2]
  · intro o ho
    exact h3 o (List.mem_of_mem_take ho)
  · intro hc
    have hle : out.length ≤ budget := by
      have : ¬ budget < out.length := by simpa using hc
      omega
    rw [List.take_of_length_le hle, List.drop_of_length_le hle]
    simpa [consumedOf] using h1

/-- a concrete run: three reads (an arrow key and an invalid byte; `a`; `b`) give four
messages; cancelled after two, exactly the first two are sent (the key, the invalid byte)
and the reader stops cancelled; a failing third Read carrying `b` yields the first three. -/
example :
    let T : Table := [{ seq := [0x1b, 0x5b, 0x41], key := { type := -2 } }]
    let reads : List Bytes := [[0x1b, 0x5b, 0x41, 0xff], [0x61], [0x62]]
    ((readAll T [3] true reads [] []).toOption.map fun r => r.1.map (·.consumed))
        = some [[0x1b, 0x5b, 0x41], [0xff], [0x61], [0x62]] ∧
    ((readAllC T [3] true reads 2).toOption.map fun r => (r.1.map (·.consumed), r.2))
        = some ([[0x1b, 0x5b, 0x41], [0xff]], true) ∧
    ((readAllC T [3] true reads 2).toOption.map (·.1))
        = (readAll T [3] true reads [] []).toOption.map (·.1.take 2) ∧
    ((readAllC T [3] true reads 4).toOption.map fun r => (r.1.length, r.2)) = some (4, false) ∧
    -- the bytes that come together with the error are decoded too (dropped before fix 6d200e8)
    ((readAllX T [3] (reads.take 2) [0x62]).toOption.map fun r => r.1.map (·.consumed))
        = some [[0x1b, 0x5b, 0x41], [0xff], [0x61], [0x62]] := by
  decide

end Tea.Props.C09
