import Tea.Proofs.InputReader
/-
C09 — The input reader is total: never panics, stalls, loses or repeats bytes.

"For every byte sequence, delivered in every possible division into reads, the
input reader never panics and never loops without progress: each message it
emits accounts for a non-empty contiguous run of the input, the runs are
adjacent and in order (nothing skipped, nothing decoded twice), bytes are held
back only while an event may still be incomplete, and the reader stops promptly
with the underlying reader's error (end of input) or when the program is
cancelled."

The theorems are about the model of key.go / key_sequences.go / mouse.go in
`Tea/Input`, for EVERY key table `T` and every list `lens` of positive lengths
(so they survive any edit of the table), every byte string and every chunking.
Only property theorems live here; helper lemmas are in `Tea/Proofs`.
-/
namespace Tea.Props.C09
open Tea Tea.Input

/-- detectOneMsg never panics on a non-empty buffer (the reader never passes an empty one:
`C09_reader_total`), whatever the table. In particular the explicit
`panic("invalid mouse event")` of mouse.go and every index expression are safe. -/
theorem C09_no_panic (T : Table) (lens : List Nat) (b : Bytes) (more : Bool)
    (hb : b ≠ []) (hl : ∀ l ∈ lens, 0 < l) :
    ∃ r, detectOneMsg T lens b more = .ok r := by
  obtain ⟨w, m, h, _⟩ := detectOneMsg_spec T lens b more hb hl
  exact ⟨_, h⟩

/-- the width is within the buffer; a non-zero width always comes with a message; a zero
width (= "need more data") only for an unterminated paste or, when the read filled the
buffer, for a run of printable characters that reaches the end of the buffer. -/
theorem C09_width (T : Table) (lens : List Nat) (b : Bytes) (more : Bool)
    (hb : b ≠ []) (hl : ∀ l ∈ lens, 0 < l) (w : Nat) (m : Option Msg)
    (h : detectOneMsg T lens b more = .ok (w, m)) :
    w ≤ b.length ∧ (0 < w → m.isSome) ∧ (w = 0 → m = none ∧ HeldBack T b more) := by
  obtain ⟨w', m', h', h1, h2, h3⟩ := detectOneMsg_spec T lens b more hb hl
  rw [h] at h'
  injection h' with h'
  injection h' with e1 e2
  subst e1; subst e2
  exact ⟨h1, h2, h3⟩

/-- the explicit panic in parseSGRMouseEvent is dead code: whenever detectOneMsg's regex
test succeeds, the re-parse succeeds. -/
theorem C09_sgr_reparse (b : Bytes) (r : Nat × SgrMatch) (h : sgrFind (b.drop 3) = some r) :
    ∃ ev, parseSGR b = .ok ev :=
  parseSGR_ok_of_find h

/-- one successful Read: no panic; the emitted messages account for adjacent, non-empty,
in-order runs of (left-over ++ chunk); whatever is not emitted is exactly the new
left-over, and it is held back only for the two allowed reasons. -/
theorem C09_read_accounting (T : Table) (lens : List Nat) (hl : ∀ l ∈ lens, 0 < l) (left chunk : Bytes) :
    ∃ out left', processRead T lens left chunk = .ok (out, left') ∧
      consumedOf out ++ left' = left ++ chunk ∧
      (∀ o ∈ out, o.consumed ≠ [] ∧ o.msg.isSome) ∧
      (left' ≠ [] → HeldBack T left' (chunk.length == bufSize)) :=
  processRead_spec T lens hl left chunk

/-- every division of every byte string into reads, ended by end of input (`eof = true`:
the held-back bytes are decoded) or by any other error / cancellation (`eof = false`): the
reader is total (the inner loop is defined by structural recursion on fuel `length + 1`,
and the proof shows the fuel never runs out: each iteration consumes at least one byte),
and nothing is skipped, repeated or invented: the consumed runs followed by what is still
held back are the input. At end of input only an unterminated paste can remain undelivered. -/
theorem C09_reader_total (T : Table) (lens : List Nat) (eof : Bool) (hl : ∀ l ∈ lens, 0 < l) (chunks : List Bytes) :
    ∃ out left, readAll T lens eof chunks [] [] = .ok (out, left) ∧
      consumedOf out ++ left = chunks.flatten ∧
      (∀ o ∈ out, o.consumed ≠ [] ∧ o.msg.isSome) ∧
      (eof = true → left ≠ [] → UnterminatedPaste left) := by
  obtain ⟨out, left, h1, h2, h3, h4⟩ := readAll_spec T lens eof hl chunks [] [] (by simp)
  refine ⟨out, left, h1, by simpa [consumedOf] using h2, h3, ?_⟩
  intro he hne
  rcases h4 he hne with h | h
  · exact h
  · simp at h

/-- "held back only while an event may still be incomplete", spelled out: the reasons for a
zero width are decidable facts about the buffer (no hidden state), and none applies to a
buffer that ends with a complete ASCII letter after a short read. -/
example : ¬ HeldBack [] [0x61] false := by
  intro h
  rcases h with h | h
  · exact absurd h.1 (by decide)
  · simp at h

/-- non-vacuity: a concrete stream (a key, an invalid byte, a mouse report cut in two) -/
example : (readAll [{ seq := [0x1b, 0x5b, 0x41], key := { type := -2 } }] [3] true
    [[0x1b, 0x5b, 0x41, 0xff], [0x1b, 0x5b, 0x3c, 0x30, 0x3b], [0x31, 0x3b, 0x31, 0x4d]] [] []).toOption.isSome = true := by
  decide

end Tea.Props.C09
