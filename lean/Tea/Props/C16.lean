import Tea.Proofs.Pipeline
/-
C16 — The message filter sees every message once and its verdict is obeyed.

"A filter installed with WithFilter is consulted exactly once for every message,
before Bubble Tea acts on it and together with the current model: returning nil
suppresses the message entirely (no Update, no built-in effect such as quitting
or a mode change), returning the message unchanged lets it through, and
returning a different message makes Bubble Tea treat that message exactly as if
it had been sent instead."

Theorems about the Pipeline LTS and about `elOne`, the event loop's whole
reaction to one received message (filter, built-in switch, Update, what to do
next), for every filter policy `φ`, every program and every schedule.
-/
namespace Tea.Props.C16
open Tea.Runtime

variable {M : Type}

/-- consulted exactly once per received message, in the order received -/
theorem C16_once (P : Prog M) (φ) (hf : P.filter = some φ) (senders : List Sender)
    (s : St M) (hr : Reachable P senders s) :
    s.filterLog.map (·.2) = s.recvLog.map (·.2) := by
  have h := inv_replay hr
  rw [← h.2.2]
  exact replay_filter_flog P φ hf _

/-- ... together with the CURRENT model: the k-th consultation got the model produced by the
event loop's processing of the k messages received before it -/
theorem C16_current_model (P : Prog M) (φ) (hf : P.filter = some φ) (senders : List Sender)
    (s : St M) (hr : Reachable P senders s) :
    s.filterLog = (List.range s.recvLog.length).map
      (fun k => ((replay P ((s.recvLog.map (·.2)).take k)).model, (s.recvLog.map (·.2)).getD k .quit)) := by
  have h := inv_replay hr
  rw [← h.2.2, replay_filter_models P φ hf]
  simp

/-- the verdict is obeyed: nil suppresses the message entirely - the model is unchanged,
nothing is passed to Update, no command is issued and the loop goes straight back to its
select (so no quit, no interrupt, no batch expansion, no built-in effect) - and any other
result is handled exactly as that message would be handled by a program without a filter -/
theorem C16_obeyed (P : Prog M) (φ) (hf : P.filter = some φ) (model : M) (m : Msg) :
    elOne P model m = match φ model m with
      | none => (model, [], .toSelect)
      | some m' => elOne { P with filter := none } model m' := by
  unfold elOne
  simp only [hf]
  cases φ model m <;> rfl

/-- the message list a filtered run is equivalent to: each message replaced by the filter's
verdict under the model current at that point, suppressed ones removed -/
def effective (P : Prog M) (φ : M → Msg → Option Msg) : M → List Msg → List Msg
  | _, [] => []
  | model, m :: ms =>
    match φ model m with
    | none => effective P φ model ms
    | some m' => m' :: effective P φ (elHandle P model m').1 ms

/-- the sequential event loop started from an arbitrary model -/
def replayFrom (P : Prog M) (model : M) (ms : List Msg) : M × List Msg :=
  ms.foldl (fun a m => let r := elOne P a.1 m; (r.1, a.2 ++ r.2.1)) (model, [])

theorem replayFrom_cons (P : Prog M) (model : M) (m : Msg) (ms : List Msg) :
    replayFrom P model (m :: ms) =
      ((replayFrom P (elOne P model m).1 ms).1, (elOne P model m).2.1 ++ (replayFrom P (elOne P model m).1 ms).2) := by
  simp only [replayFrom, List.foldl_cons, List.nil_append]
  generalize (elOne P model m).1 = m1
  generalize (elOne P model m).2.1 = u1
  have key : ∀ (l : List Msg) (a : M) (u v : List Msg),
      (l.foldl (fun a m => let r := elOne P a.1 m; (r.1, a.2 ++ r.2.1)) (a, u ++ v)) =
      ((l.foldl (fun a m => let r := elOne P a.1 m; (r.1, a.2 ++ r.2.1)) (a, v)).1,
        u ++ (l.foldl (fun a m => let r := elOne P a.1 m; (r.1, a.2 ++ r.2.1)) (a, v)).2) := by
    intro l
    induction l with
    | nil => intro a u v; rfl
    | cons x xs ih =>
      intro a u v
      simp only [List.foldl_cons]
      rw [List.append_assoc, ih]
  have := key ms m1 u1 []
  simpa using this

/-- a whole run with the filter equals the run WITHOUT a filter on the effective messages:
same final model, same messages passed to Update -/
theorem C16_run (P : Prog M) (φ) (hf : P.filter = some φ) (model : M) (ms : List Msg) :
    replayFrom P model ms = replayFrom { P with filter := none } model (effective P φ model ms) := by
  induction ms generalizing model with
  | nil => rfl
  | cons m ms ih =>
    rw [replayFrom_cons, C16_obeyed P φ hf]
    simp only [effective]
    cases hφ : φ model m with
    | none => simpa using ih model
    | some m' =>
      simp only
      rw [replayFrom_cons]
      have e : elOne { P with filter := none } model m' = elHandle P model m' := rfl
      rw [e, ih]

/-- non-vacuity: a filter that drops quit and turns `other 1` into quit -/
example :
    let φ : Nat → Msg → Option Msg := fun _ m => if m = .quit then none else if m = .other 1 then some .quit else some m
    let P : Prog Nat := { init := 0, initCmd := none, update := fun m _ => (m + 1, none),
                          cmdResult := fun _ => none, filter := some φ }
    ((runLabels P (init P [{ script := [.quit, .user 0 0, .other 1] }])
      [.sendStart 0, .process 0, .sendStart 0, .process 0, .cmdHandOver, .sendStart 0, .process 0]).map
        (fun s => (s.el, s.updLog, s.filterLog.map (·.2))))
      = some (.exited .quit, [.user 0 0], [.quit, .user 0 0, .other 1]) := by
  decide

end Tea.Props.C16
