import Tea.Proofs.ModesAlt
/-
C12 — Terminal modes always equal what options and commands asked for.

"At every point where the program is idle, the terminal's modes equal the result of
applying, in order, the startup options and the mode commands processed so far: entering
or leaving the alt screen is idempotent and keeps the cursor's visibility; enabling
cell-motion or all-motion mouse also enables SGR encoding and DisableMouse turns all three
off; bracketed paste is on unless disabled; focus reporting and cursor visibility follow
their commands. A program that starts in the alt screen and never leaves it does not alter
the lines that were on the main screen above the cursor when it started."

The theorems relate three models:
* the program glue `startupOps`, `modeMsgOps`, `runOps` (Tea/Render/Program.lean) driving the
  renderer `step` (Tea/Render/Model.lean), which produces terminal operations;
* the terminal `apply` / `applyOps` (Tea/VT/Term.lean), whose mode part is `modesOf`;
* the documented meaning `specStartup` / `specCmd`, a register machine on `ModeReg`.
`t0` is the terminal the program starts on; `modesOf t0 = {}` says it is in the default
state (main screen, cursor visible, mouse / paste / focus reporting off). Its size, contents
and cursor are arbitrary. Theorems named `..._from_any_state` replace "(`{}`, `t0`)" by any
renderer / terminal pair whose tracked flags agree (`Tracked`), which is an invariant
(`C12_tracked_invariant`), so they apply at every idle point of every run.

"Idle points": the statements hold for EVERY command list `cs`, hence for every prefix of the
commands a program issues.

Vocabulary from `Tea/Proofs/Modes.lean`:
* `Tracked r t`  the renderer's flags altActive / bpActive / focusActive / cursorHidden equal
                 the terminal's 1049 / 2004 / 1004 / not-25 modes (restated by `tracked_def`);
* `Ev`           an event between start-up and exit: `.cmd c` (a mode command) or `.other op`
                 (any other renderer operation); `evNeutral` requires the `other` operations to be
                 `size`, `write`, `flush`, `repaintMsg`, `clearScreen`, `printLine`, `stop`, `kill`
                 or `title`, i.e. anything but the mode operations themselves;
* `nonMode op`   the terminal operation is not DECSET / DECRST.
Only property theorems live here; helper lemmas are in `Tea/Proofs/Modes.lean` and
`Tea/Proofs/ModesAlt.lean`.
-/
namespace Tea.Props.C12
open Tea Tea.VT Tea.Render

/-! ### vocabulary, restated -/

/-- `Tracked r t`: the renderer's tracked flags agree with the terminal's modes -/
theorem tracked_def (r : RState) (t : Term) : Tracked r t ↔
    (r.altActive = t.onAlt ∧ r.bpActive = t.m2004 ∧ r.focusActive = t.m1004 ∧
     r.cursorHidden = !t.cursorVis) := Iff.rfl

/-- a fresh renderer agrees with a terminal in its default state -/
theorem tracked_start (t0 : Term) (h0 : modesOf t0 = {}) : Tracked {} t0 := by
  rw [tracked_iff, h0]; exact tracked_init

/-! ### 1. the terminal side: only DECSET / DECRST change modes -/

/-- every terminal operation other than DECSET / DECRST (`text`, `cr`, `lf`, `cuu`, `cub`, `home`,
`cup`, `el0`, `el2`, `ed0`, `ed2`, `title`) leaves all seven modes as they were -/
theorem C12_nonmode_termop_keeps_modes (t : Term) (op : TermOp) (h : nonMode op = true) :
    modesOf (apply t op) = modesOf t :=
  modesOf_apply_nonMode t op h

/-- DECSET / DECRST of 25, 1002, 1003, 1006, 1004, 2004, 1049 set exactly the corresponding mode
to the requested value (whatever it was: setting is idempotent), any other number does nothing -/
theorem C12_decset_decrst (t : Term) (n : Nat) :
    modesOf (apply t (.decset n)) = setReg (modesOf t) n true ∧
    modesOf (apply t (.decrst n)) = setReg (modesOf t) n false :=
  ⟨modesOf_apply t _, modesOf_apply t _⟩

/-- the renderer side: writing a view, flushing (a tick), a window size, a repaint request,
clear-screen, printing above the view, stopping, killing and setting the title write no
DECSET / DECRST at all and do not touch the tracked flags - from ANY renderer state -/
theorem C12_step_nonmode_modes (r : RState) (t : Term) (op : ROp) (hn : op.neutral = true) :
    modesOf (applyOps t (step r op).2) = modesOf t ∧
    (step r op).1.altActive = r.altActive ∧ (step r op).1.bpActive = r.bpActive ∧
    (step r op).1.focusActive = r.focusActive ∧ (step r op).1.cursorHidden = r.cursorHidden := by
  obtain ⟨h1, h2⟩ := step_neutral r op hn
  exact ⟨by rw [modesOf_applyOps, foldl_regOp_nonMode _ _ h1], h2⟩

/-! ### 2. the tracked flags are sound -/

/-- the renderer's tracked flags agree with the terminal after EVERY renderer operation (any of
the 23 `ROp`s, from any agreeing state); so they agree at every point of every run -/
theorem C12_tracked_invariant (r : RState) (t : Term) (op : ROp) (hT : Tracked r t) :
    Tracked (step r op).1 (applyOps t (step r op).2) := by
  have := (run_tracked r t [op] hT).1
  simpa [runOps] using this

/-- ... and hence after every history -/
theorem C12_tracked_invariant_history (r : RState) (t : Term) (h : List ROp) (hT : Tracked r t) :
    Tracked (runOps r h).1 (applyOps t (runOps r h).2) :=
  (run_tracked r t h hT).1

/-! ### 3. modes = options, then commands, in order -/

/-- MAIN THEOREM. Start a program with options `o` on a terminal in its default state and let
the event loop process the mode commands `cs` (any commands, any number, any order): the
terminal's modes are exactly the fold of the documented command meanings `specCmd` over `cs`,
starting from the documented meaning `specStartup o` of the options. -/
theorem C12_modes (o : Opts) (cs : List ModeCmd) (t0 : Term) (h0 : modesOf t0 = {}) :
    modesOf (applyOps t0 (runOps {} (startupOps o ++ cs.flatMap modeMsgOps)).2) =
      cs.foldl specCmd (specStartup o) := by
  rw [(run_tracked {} t0 _ (tracked_start t0 h0)).2, h0, List.foldl_append, startup_spec,
    cmds_spec]

/-- the same with anything else happening in between - views written and flushed, ticks, window
sizes, repaint requests, lines printed above the view, titles, at any time and in any number:
only the mode commands among the events count, in their order -/
theorem C12_modes_interleaved (o : Opts) (evs : List Ev) (hn : evs.all evNeutral = true)
    (t0 : Term) (h0 : modesOf t0 = {}) :
    modesOf (applyOps t0 (runOps {} (startupOps o ++ evs.flatMap evOps)).2) =
      (evs.filterMap evCmd).foldl specCmd (specStartup o) := by
  rw [(run_tracked {} t0 _ (tracked_start t0 h0)).2, h0, List.foldl_append, startup_spec,
    evs_spec _ _ hn]

/-- generalisation to any starting point: from ANY renderer / terminal pair whose tracked flags
agree (every reachable idle point, `C12_tracked_invariant`), processing the commands `cs`
(interleaved with anything mode-neutral) changes the modes by the fold of `specCmd` -/
theorem C12_modes_from_any_state (r : RState) (t : Term) (hT : Tracked r t) (evs : List Ev)
    (hn : evs.all evNeutral = true) :
    modesOf (applyOps t (runOps r (evs.flatMap evOps)).2) =
      (evs.filterMap evCmd).foldl specCmd (modesOf t) := by
  rw [(run_tracked r t _ hT).2, evs_spec _ _ hn]

/-- one command at an idle point: the modes change by exactly `specCmd` -/
theorem C12_one_command (r : RState) (t : Term) (hT : Tracked r t) (c : ModeCmd) :
    modesOf (applyOps t (runOps r (modeMsgOps c)).2) = specCmd (modesOf t) c := by
  rw [(run_tracked r t _ hT).2, modeMsgOps_spec]

/-! ### 4. the clauses of the property, read off the main theorem -/

/-- enabling cell-motion mouse also enables SGR encoding; enabling all-motion mouse also enables
SGR encoding; DisableMouse turns all three off - whatever the options and earlier commands -/
theorem C12_mouse (o : Opts) (cs : List ModeCmd) (t0 : Term) (h0 : modesOf t0 = {}) :
    let after (c : ModeCmd) :=
      modesOf (applyOps t0 (runOps {} (startupOps o ++ (cs ++ [c]).flatMap modeMsgOps)).2)
    ((after .mouseCell).m1002 = true ∧ (after .mouseCell).m1006 = true) ∧
    ((after .mouseAll).m1003 = true ∧ (after .mouseAll).m1006 = true) ∧
    ((after .disableMouse).m1002 = false ∧ (after .disableMouse).m1003 = false ∧
     (after .disableMouse).m1006 = false) := by
  intro after
  simp only [after, C12_modes o _ t0 h0, List.foldl_append, List.foldl_cons, List.foldl_nil]
  exact ⟨⟨rfl, rfl⟩, ⟨rfl, rfl⟩, rfl, rfl, rfl⟩

/-- with the start-up options alone: cell motion wins over all motion, either brings SGR -/
theorem C12_mouse_options (o : Opts) (t0 : Term) (h0 : modesOf t0 = {}) :
    let m := modesOf (applyOps t0 (runOps {} (startupOps o)).2)
    m.m1002 = o.cell ∧ m.m1003 = (!o.cell && o.all) ∧ m.m1006 = (o.cell || o.all) := by
  have := C12_modes o [] t0 h0
  simp only [List.flatMap_nil, List.append_nil, List.foldl_nil] at this
  intro m
  simp only [m, this]
  exact ⟨rfl, rfl, rfl⟩

/-- bracketed paste is on unless disabled: without `WithoutBracketedPaste` and without a
DisableBracketedPaste command it is on at every idle point -/
theorem C12_paste_on_unless_disabled (o : Opts) (cs : List ModeCmd) (t0 : Term)
    (h0 : modesOf t0 = {}) (ho : o.noPaste = false) (hcs : ModeCmd.noPaste ∉ cs) :
    (modesOf (applyOps t0 (runOps {} (startupOps o ++ cs.flatMap modeMsgOps)).2)).paste = true := by
  rw [C12_modes o cs t0 h0]
  exact paste_stays cs _ (by simp [specStartup, ho]) hcs

/-- bracketed paste, focus reporting and cursor visibility follow their commands: after the
command they have the commanded value (and every other mode is as before, `C12_one_command`) -/
theorem C12_follow_commands (r : RState) (t : Term) (hT : Tracked r t) :
    let after (c : ModeCmd) := modesOf (applyOps t (runOps r (modeMsgOps c)).2)
    (after .paste).paste = true ∧ (after .noPaste).paste = false ∧
    (after .focus).focus = true ∧ (after .noFocus).focus = false ∧
    (after .show).cursorVis = true ∧ (after .hide).cursorVis = false ∧
    (after .enterAlt).alt = true ∧ (after .exitAlt).alt = false ∧
    after .clear = modesOf t := by
  intro after
  simp only [after, C12_one_command r t hT]
  exact ⟨rfl, rfl, rfl, rfl, rfl, rfl, rfl, rfl, rfl⟩

/-! ### 5. the alt screen: idempotent, keeps the cursor's visibility -/

/-- entering the alt screen twice: the second EnterAltScreen writes nothing and changes nothing
in the renderer (from any renderer state); likewise leaving it twice -/
theorem C12_alt_idempotent (r : RState) :
    step (step r .enterAlt).1 .enterAlt = ((step r .enterAlt).1, []) ∧
    step (step r .exitAlt).1 .exitAlt = ((step r .exitAlt).1, []) :=
  ⟨enterAlt_twice r, exitAlt_twice r⟩

/-- entering when already in (leaving when already out) writes nothing and changes nothing -/
theorem C12_alt_noop_when_there (r : RState) :
    (r.altActive = true → step r .enterAlt = (r, [])) ∧
    (r.altActive = false → step r .exitAlt = (r, [])) := by
  constructor <;> intro h <;> simp [step, enterAlt, exitAlt, h]

/-- entering or leaving the alt screen keeps the cursor's visibility - on the terminal and in the
renderer's flag - and changes no mode other than 1049 (xterm's 1049 switch does not carry the
cursor's visibility; the renderer re-asserts its tracked value after the switch) -/
theorem C12_alt_keeps_cursor (r : RState) (t : Term) (hT : Tracked r t) :
    modesOf (applyOps t (step r .enterAlt).2) = { modesOf t with alt := true } ∧
    modesOf (applyOps t (step r .exitAlt).2) = { modesOf t with alt := false } ∧
    (modesOf (applyOps t (step r .enterAlt).2)).cursorVis = (modesOf t).cursorVis ∧
    (modesOf (applyOps t (step r .exitAlt).2)).cursorVis = (modesOf t).cursorVis ∧
    (step r .enterAlt).1.cursorHidden = r.cursorHidden ∧
    (step r .exitAlt).1.cursorHidden = r.cursorHidden := by
  have h1 := (step_sim r (modesOf t) .enterAlt hT).2
  have h2 := (step_sim r (modesOf t) .exitAlt hT).2
  rw [modesOf_applyOps, modesOf_applyOps, h1, h2]
  refine ⟨rfl, rfl, rfl, rfl, ?_, ?_⟩
  · show (enterAlt r).1.cursorHidden = r.cursorHidden
    cases ha : r.altActive with
    | true => rw [enterAlt_active r ha]
    | false => exact (enterAlt_fields r ha).2.2.2.2.2.2.2.1
  · simp only [step, exitAlt]; split <;> rfl

/-! ### 6. a program that stays in the alt screen does not touch the main screen -/

/-- Start with `WithAltScreen` on ANY terminal `t0` (any size, contents, modes) and let the
renderer do ANYTHING except ExitAltScreen - views of any content, flushes, resizes handled by
the renderer, clear-screen, prints, mode commands, even stop / kill: every cell of the main
buffer is what it was when the program started (in particular the lines above the cursor), the
main buffer's window and cursor are where they were, and the terminal is still on the alt
screen. (All content operations act on the active buffer, which is the alternate one from the
`CSI ? 1049 h` of start-up onwards; the `CSI ? 25 l` before it touches no cell.) -/
theorem C12_alt_preserves_main (o : Opts) (ha : o.alt = true) (t0 : Term) (h : List ROp)
    (hne : ROp.exitAlt ∉ h) :
    let t := applyOps t0 (runOps {} (startupOps o ++ h)).2
    t.onAlt = true ∧ t.main.cells = t0.main.cells ∧ t.main.top = t0.main.top ∧
    t.main.cr = t0.main.cr ∧ t.main.cc = t0.main.cc :=
  alt_start_keeps_main o ha t0 h hne

/-- the same in terms of commands: `WithAltScreen` and commands other than ExitAltScreen -/
theorem C12_alt_preserves_main_cmds (o : Opts) (ha : o.alt = true) (t0 : Term)
    (cs : List ModeCmd) (hcs : ModeCmd.exitAlt ∉ cs) :
    (applyOps t0 (runOps {} (startupOps o ++ cs.flatMap modeMsgOps)).2).main.cells =
      t0.main.cells := by
  refine (alt_start_keeps_main o ha t0 _ ?_).2.1
  simp only [List.mem_flatMap, not_exists, not_and]
  intro c hc hmem
  cases c <;> simp [modeMsgOps] at hmem
  exact hcs hc

/-- from any later point: while the terminal is on the alt screen, a history without
ExitAltScreen leaves the whole main buffer (cells, window, cursor, saved cursor) untouched -/
theorem C12_alt_preserves_main_from_any_state (r : RState) (t : Term) (h : List ROp)
    (hon : t.onAlt = true) (hne : ROp.exitAlt ∉ h) :
    (applyOps t (runOps r h).2).onAlt = true ∧ (applyOps t (runOps r h).2).main = t.main :=
  alt_keeps_main r t h hon hne

/-- ... and when such a program ends - by quit, or by context cancellation / interrupt / reader
error / a panic on the main goroutine - the terminal is back on the main screen with EVERY cell
as it was when the program started, the same window, and the cursor in the column and (when it
was inside the window, `top ≤ cr`) the row it started from; all modes are back to their initial
values. `h` is any history without ExitAltScreen (views, flushes, prints, other mode commands...). -/
theorem C12_alt_run_restores_main (o : Opts) (ha : o.alt = true) (t0 : Term)
    (h0 : modesOf t0 = {}) (h : List ROp) (hne : ROp.exitAlt ∉ h) (k : ExitKind)
    (hk : k ≠ .killApi) :
    let r1 := (runOps {} (startupOps o ++ h)).1
    let t1 := applyOps t0 (runOps {} (startupOps o ++ h)).2
    let t2 := applyOps t1 (runOps r1 (exitOps r1 k)).2
    modesOf t2 = {} ∧ t2.main.cells = t0.main.cells ∧ t2.main.top = t0.main.top ∧
    t2.main.cc = t0.main.cc ∧ (t0.main.top ≤ t0.main.cr → t2.main.cr = t0.main.cr) := by
  intro r1 t1 t2
  have key : ∀ kill : Bool, t2 = applyOps t1 (runOps r1 (shutdownOps r1 kill)).2 →
      modesOf t2 = {} ∧ t2.main.cells = t0.main.cells ∧ t2.main.top = t0.main.top ∧
      t2.main.cc = t0.main.cc ∧ (t0.main.top ≤ t0.main.cr → t2.main.cr = t0.main.cr) := by
    intro kill e
    obtain ⟨_, a2, a3, a4, a5, a6⟩ := alt_run_main o ha t0 h0 h hne kill
    rw [e]
    exact ⟨a2, a3, a4, a6, fun hle => by rw [a5]; omega⟩
  cases k with
  | quit => exact key false rfl
  | ctx => exact key true rfl
  | killApi => exact absurd rfl hk

/-- PARTIAL for the Kill() / command-goroutine-panic exit (two shutdowns): every row of the main
buffer other than the cursor's row is as it was when the program started - in particular all
lines above the cursor. What is excluded: the second shutdown's `kill` writes EraseEntireLine
after the terminal is back on the main screen, so the cursor's own row is blanked (concrete
instance below). -/
theorem C12_alt_run_restores_main_kill_partial (o : Opts) (ha : o.alt = true) (t0 : Term)
    (h0 : modesOf t0 = {}) (h : List ROp) (hne : ROp.exitAlt ∉ h) :
    let r1 := (runOps {} (startupOps o ++ h)).1
    let t1 := applyOps t0 (runOps {} (startupOps o ++ h)).2
    let t2 := applyOps t1 (runOps r1 (exitOps r1 .killApi)).2
    t2.onAlt = false ∧
    (∀ row col, row ≠ t0.main.top + (t0.main.cr - t0.main.top) →
      t2.main.cells row col = t0.main.cells row col) ∧
    t2.main.cr = t0.main.top + (t0.main.cr - t0.main.top) :=
  alt_run_main_kill o ha t0 h0 h hne

/-! ### non-vacuity: concrete runs -/

/-- an 80x24 terminal in its default state -/
def term0 : Term := { w := 80, h := 24 }

/-- `WithAltScreen`, `WithReportFocus`; EnableMouseAllMotion, DisableMouse, ExitAltScreen:
cursor hidden, paste and focus on, main screen, mouse off -/
example :
    modesOf (applyOps term0 (runOps {} (startupOps { alt := true, focus := true } ++
      [ModeCmd.mouseAll, .disableMouse, .exitAlt].flatMap modeMsgOps)).2) =
    { cursorVis := false, paste := true, focus := true } := by decide

/-- the mode operations actually written in that run, in order -/
example :
    modeOpsOf (runOps {} (startupOps { alt := true, focus := true } ++
      [ModeCmd.mouseAll, .disableMouse, .exitAlt].flatMap modeMsgOps)).2 =
    [(25, false), (1049, true), (25, false), (2004, true), (1004, true), (1003, true), (1006, true),
     (1002, false), (1003, false), (1006, false), (1049, false), (25, false)] := by decide

/-- `WithMouseCellMotion`, `WithoutBracketedPaste`; ShowCursor, EnterAltScreen with a view
flushed in between: cursor still visible on the alt screen, cell motion + SGR on, paste off -/
example :
    modesOf (applyOps term0 (runOps {} (startupOps { cell := true, noPaste := true } ++
      [Ev.cmd .show, .other (.size 80 24), .other (.write [104, 105]), .other .flush,
       .cmd .enterAlt, .other .flush].flatMap evOps)).2) =
    { alt := true, cursorVis := true, m1002 := true, m1006 := true } := by decide

/-- the hypothesis of `C12_alt_preserves_main` is needed: after ExitAltScreen the view is painted
on the main screen -/
example :
    (applyOps term0 (runOps {} (startupOps { alt := true } ++
      [.exitAlt, .write [104], .flush])).2).main.cells 0 0 = 104 ∧ term0.main.cells 0 0 = 32 := by
  decide

/-- ... and with the hypothesis the cell stays blank while the alt buffer shows the view -/
example :
    (applyOps term0 (runOps {} (startupOps { alt := true } ++ [.write [104], .flush])).2).main.cells 0 0 = 32 ∧
    (applyOps term0 (runOps {} (startupOps { alt := true } ++ [.write [104], .flush])).2).alt.cells 0 0 = 104 := by
  decide

/-- a terminal whose main screen is full of `A`s, cursor on row 2 -/
def termA : Term := { w := 80, h := 24, main := { cells := fun _ _ => 65, cr := 2 } }

/-- an alt-screen program that paints a view and quits: rows 1, 2 (the cursor's) and 3 of the main
screen still read `A`, the cursor is back on row 2 -/
example :
    let r1 := (runOps {} (startupOps { alt := true } ++ [.write [104], .flush])).1
    let t1 := applyOps termA (runOps {} (startupOps { alt := true } ++ [.write [104], .flush])).2
    let t2 := applyOps t1 (runOps r1 (exitOps r1 .quit)).2
    t1.alt.cells 0 0 = 104 ∧ t2.onAlt = false ∧ t2.main.cells 1 0 = 65 ∧ t2.main.cells 2 0 = 65 ∧
    t2.main.cells 3 0 = 65 ∧ t2.main.cr = 2 := by decide

/-- the same program ended by Kill(): the cursor's row (2) is blanked by the second shutdown, the
rows above and below are intact - why the Kill variant is `_partial` -/
example :
    let r1 := (runOps {} (startupOps { alt := true } ++ [.write [104], .flush])).1
    let t1 := applyOps termA (runOps {} (startupOps { alt := true } ++ [.write [104], .flush])).2
    let t2 := applyOps t1 (runOps r1 (exitOps r1 .killApi)).2
    t2.onAlt = false ∧ t2.main.cells 1 0 = 65 ∧ t2.main.cells 2 0 = 32 ∧ t2.main.cells 3 0 = 65 := by
  decide

end Tea.Props.C12
