import Tea.Proofs.RenderBytes
import Tea.Proofs.PaintSources
import Tea.Render.Fps
import Tea.Proofs.Ticker
/-
C19 — Rendering is economical: no change, no output; bounded frame rate.

"Rendering a view identical to the one on screen writes nothing, and when only
some lines change the unchanged lines are not retransmitted: the bytes written
are bounded by the changed lines plus a small per-line cursor-movement
overhead. However fast the model updates, at most one render happens per frame
interval, where the frame rate is the configured one clamped to 1..120 and 60
by default."

The theorems are about the model of standard_renderer.go in `Tea/Render/Model.lean`
(`flush`, `write`, the paint loop `paintOps` / `paintLineOps`) and the byte
serialization of terminal operations in `Tea/VT/Ops.lean`. They hold for EVERY
renderer state (every width, height, cache, screen mode). Byte counts are
`(serializeAll ops).length`; the decimal arguments of the two cursor movements that
frame a flush appear as the opaque terms `(Dec.digits k).length`.
Styled text: the bounds count BYTES WRITTEN, so a line enters them with its raw length
`l.length`, escape sequences (SGR styling) included — not with the cells it takes
(`lineWidth l`, which is smaller for a styled line).  A line wider than the terminal is cut
(`truncateLine`: every escape sequence is kept, printing bytes beyond the width are
dropped), which never makes it longer in bytes (`truncateLine_length_le`), so `l.length`
bounds what is written for it in every case.
Only definitions used in statements and property theorems live here; helper lemmas are in
`Tea/Proofs/RenderBytes.lean` and, for section 7 (which operations paint, how many steps of a
history paint), in `Tea/Proofs/PaintSources.lean` — which also holds the definitions that section
states its theorems with: `paints`, `paintSteps`, `isFlush`, `isStop`, `isPrintLine`.
-/
namespace Tea.Props.C19
open Tea Tea.VT Tea.Render

/-! ### frame rate (newRenderer in standard_renderer.go) -/



/-! ### which lines of a frame have to be retransmitted -/

/-- line `p.1` at index `p.2` of the frame that `flush r` is about to paint has to be sent:
it is not equal to line `p.2` of the valid line cache (`sameAsLast` is false also when there
is no valid cache or the cache is shorter), or it is the last line of a frame that is shorter
than the previous one (that line carries the erase-below). -/
def mustSend (r : RState) (p : Line × Nat) : Bool :=
  !sameAsLast r p.2 p.1 ||
    (decide (r.lastLinesRendered > (frameLines r).length) && p.2 == (frameLines r).length - 1)

/-- the changed lines of the frame `flush r` paints (plus the last line when shrinking) -/
def changed (r : RState) : List Line :=
  (((frameLines r).zipIdx 0).filter (mustSend r)).map (·.1)

/-- the other lines of that frame -/
def unchanged (r : RState) : List Line :=
  (((frameLines r).zipIdx 0).filter (fun p => !mustSend r p)).map (·.1)

/-! ### 1. no change, no output -/

/-- A flush of an empty buffer (nothing written since the last flush) or of a view identical
to the last rendered one writes nothing and changes nothing. -/
theorem C19_noop (r : RState) (h : r.buf = [] ∨ r.buf = r.lastRender) : flush r = (r, []) :=
  flush_noop h

/-- the same as a step of a history -/
theorem C19_noop_step (r : RState) (h : r.buf = [] ∨ r.buf = r.lastRender) :
    step r .flush = (r, []) :=
  flush_noop h

/-- and these are the only silent flushes: every other flush writes at least the closing
cursor movement (so `C19_noop` is not vacuous and characterises "no output") -/
theorem C19_noop_iff (r : RState) :
    (flush r).2 = [] ↔ (r.buf = [] ∨ r.buf = r.lastRender) := by
  constructor
  · intro h
    apply Classical.byContradiction
    intro hn
    have hc : ¬ (r.buf.isEmpty || r.buf == r.lastRender) = true := by
      intro hc
      apply hn
      simpa [List.isEmpty_iff] using hc
    rw [flush_ops hc] at h
    have hf : flushFin r (frameLines r).length = [] := (List.append_eq_nil_iff.mp h).2
    unfold flushFin at hf
    split at hf <;> simp at hf
  · intro h
    rw [flush_noop h]

/-- History level: a second flush directly after any flush writes nothing and changes nothing
(flush empties the buffer), for every state `r`. -/
theorem C19_flush_flush (r : RState) :
    (flush (flush r).1).2 = [] ∧ (flush (flush r).1).1 = (flush r).1 := by
  rw [flush_flush]
  exact ⟨rfl, rfl⟩

/-- any number of idle ticks after a flush write nothing -/
theorem C19_idle_ticks (r : RState) (k : Nat) :
    (run (flush r).1 (List.replicate k .flush)).2 = List.replicate k [] ∧
    (run (flush r).1 (List.replicate k .flush)).1 = (flush r).1 := by
  induction k with
  | zero => exact ⟨rfl, rfl⟩
  | succ k ih =>
    have e : step (flush r).1 .flush = ((flush r).1, []) := flush_flush r
    simp [List.replicate_succ, run, e, ih.1, ih.2]

/-! ### 2. writing the view that is on screen -/

/-- Writing the view that was rendered last and flushing writes nothing (and only fills the
buffer). -/
theorem C19_write_then_flush_same (r : RState) (s : Bytes) (h : r.lastRender = s) (hs : s ≠ []) :
    (flush (write r s)).2 = [] := by
  have e : (write r s).buf = (write r s).lastRender := by
    simp [write, h, List.isEmpty_iff, hs]
  rw [flush_noop (Or.inr e)]

/-- the same for the empty view, which `write` represents by one space -/
theorem C19_write_then_flush_same_empty (r : RState) (h : r.lastRender = [32]) :
    (flush (write r [])).2 = [] := by
  have e : (write r []).buf = (write r []).lastRender := by
    simp [write, h]
  rw [flush_noop (Or.inr e)]

/-- after a rendering flush of the view `s`, writing `s` again and flushing writes nothing:
the full write-flush-write-flush history -/
theorem C19_same_view_twice (r : RState) (s : Bytes) (hs : s ≠ []) :
    (flush (write (flush (write r s)).1 s)).2 = [] := by
  apply C19_write_then_flush_same _ _ _ hs
  by_cases h : s = r.lastRender
  · have e : (write r s).buf = (write r s).lastRender := by
      simp [write, ← h, List.isEmpty_iff, hs]
    rw [flush_noop (Or.inr e)]
    simp [write, ← h]
  · have hb : (write r s).buf = s := by simp [write, List.isEmpty_iff, hs]
    have := (flush_cache (r := write r s) (by rw [hb]; exact hs) (by rw [hb]; exact h)).2.1
    rw [this, hb]

/-! ### 3. frame rate -/

/-- The frame rate is the configured one clamped to 1..120, and 60 when not positive. -/
theorem C19_fps (f : Int) :
    1 ≤ clampFPS f ∧ clampFPS f ≤ 120 ∧ (f < 1 → clampFPS f = 60) ∧
    (1 ≤ f → f ≤ 120 → clampFPS f = f) ∧ (120 < f → clampFPS f = 120) := by
  unfold clampFPS
  split
  · omega
  · split <;> omega

/-- The frame interval is one second divided by the clamped rate: between 8333333 ns (120 fps)
and one second (1 fps). -/
theorem C19_framerate (f : Int) :
    framerateNs f = 1000000000 / clampFPS f ∧
    8333333 ≤ framerateNs f ∧ framerateNs f ≤ 1000000000 := by
  obtain ⟨h1, h2, _⟩ := C19_fps f
  unfold framerateNs
  generalize clampFPS f = c at h1 h2
  refine ⟨rfl, ?_, ?_⟩
  · have hc : 0 < c := by omega
    rw [Int.le_ediv_iff_mul_le hc]
    omega
  · exact Int.ediv_le_self _ (by omega)

/-- Go's `/` truncates toward zero; here it coincides with Lean's `/` on `Int`. -/
theorem C19_framerate_go_div (f : Int) :
    Int.tdiv 1000000000 (clampFPS f) = framerateNs f :=
  Int.tdiv_eq_ediv_of_nonneg (by omega)

/-- the default: 60 frames per second, 16666666 ns -/
theorem C19_framerate_default (f : Int) (h : f < 1) : framerateNs f = 16666666 := by
  unfold framerateNs
  rw [(C19_fps f).2.2.1 h]
  decide

/-- Renders happen only at flushes (the ticker's ticks), never at writes: `write` emits
nothing. -/
theorem C19_write_silent (r : RState) (s : Bytes) : (step r (.write s)).2 = [] := rfl

/-- However many times the view is written between two ticks, the flush is the flush of the
last write alone: earlier views are never rendered. -/
theorem C19_writes_coalesce (r : RState) (ws : List Bytes) (h : ws ≠ []) :
    flush (ws.foldl write r) = flush (write r (ws.getLast h)) := by
  rw [foldl_write ws h r]

/-! ### 4. unchanged lines are not retransmitted -/

/-- With a valid line cache, no queued prints and a frame that is not shrinking, a line equal
to the cached line at its index costs at most ONE byte: a bare line feed, nothing for the last
line. -/
theorem C19_unchanged_not_sent (r : RState) (n i : Nat) (l : Line)
    (h : sameAsLast r i l = true) :
    paintLineOps r false false n i l = (if i < n - 1 then [.lf] else []) ∧
    (serializeAll (paintLineOps r false false n i l)).length ≤ 1 := by
  have hs : skips r false false n i l = true := by simp [skips, h]
  exact ⟨paintLineOps_skip hs, slen_paintLineOps_skip hs⟩

/-- When the frame is shrinking the only unchanged line that is retransmitted is the last one
(`i = n - 1`, which carries the erase-below). -/
theorem C19_unchanged_not_sent_shrinking (r : RState) (n i : Nat) (l : Line)
    (hi : i ≠ n - 1) (h : sameAsLast r i l = true) :
    paintLineOps r false true n i l = (if i < n - 1 then [.lf] else []) ∧
    (serializeAll (paintLineOps r false true n i l)).length ≤ 1 := by
  have hs : skips r false true n i l = true := by simp [skips, h, hi]
  exact ⟨paintLineOps_skip hs, slen_paintLineOps_skip hs⟩

/-- The skipped line's text is not in what is written: the bytes written for it are `[]` or
`[10]`. -/
theorem C19_unchanged_bytes (r : RState) (sh : Bool) (n i : Nat) (l : Line)
    (hi : sh = true → i ≠ n - 1) (h : sameAsLast r i l = true) :
    serializeAll (paintLineOps r false sh n i l) = [] ∨
    serializeAll (paintLineOps r false sh n i l) = [10] := by
  have hs : skips r false sh n i l = true := by
    cases sh
    · simp [skips, h]
    · simp [skips, h, hi rfl]
  rw [paintLineOps_skip hs]
  split
  · right; rfl
  · left; rfl

/-! ### 5. a painted line -/

/-- Whatever the flags, one line costs at most its length IN BYTES (escape sequences included)
plus nine bytes: the content (truncated to the width — which drops printing bytes only and keeps
every escape sequence — or not), plus at most CR, erase-below (3 bytes), erase-to-end-of-line
(3 bytes), CR LF. -/
theorem C19_changed_line_bound (r : RState) (flushQ shrinking : Bool) (n i : Nat) (l : Line) :
    (serializeAll (paintLineOps r flushQ shrinking n i l)).length ≤ l.length + 9 :=
  slen_paintLineOps_le r flushQ shrinking n i l

/-! ### 6. the bytes of a flush -/

/-- every frame line is either changed or unchanged -/
theorem C19_changed_unchanged (r : RState) :
    (changed r).length + (unchanged r).length = (frameLines r).length := by
  unfold changed unchanged
  rw [List.length_map, List.length_map, filter_length_compl, List.length_zipIdx]

/-- The main bound, sharp form. Without pending prints (`r.queued = []`; on the alternate
screen prints are never flushed, so the hypothesis is not needed there), a flush writes at most
`length + 9` bytes per CHANGED line, ONE byte per unchanged line, plus the two cursor
movements that frame the flush: at most `3 + digits(linesRendered - 1)` bytes of cursor-up /
home before, at most `4 + max(digits n, digits width)` bytes of cursor-backward /
cursor-position after. -/
theorem C19_bytes_sharp (r : RState) (hq : r.queued = [] ∨ r.altActive = true) :
    (serializeAll (flush r).2).length ≤
      ((changed r).map (fun l => l.length + 9)).sum
      + (unchanged r).length
      + (3 + (Dec.digits (r.linesRendered - 1)).length)
      + (4 + max (Dec.digits (frameLines r).length).length (Dec.digits r.width).length) := by
  have h := slen_flush_le hq
  have e1 : (fun p : Line × Nat =>
      !skips r false (Render.shrinking r) (frameLines r).length p.2 p.1) = mustSend r := by
    funext p
    exact not_skip_eq _ _ _
  have e2 : (fun p : Line × Nat =>
      skips r false (Render.shrinking r) (frameLines r).length p.2 p.1)
      = (fun p => !mustSend r p) := by
    funext p
    rw [← e1]
    simp
  rw [e1, e2] at h
  unfold changed unchanged
  rw [List.map_map, List.length_map]
  exact h

/-- The main bound: the bytes written by a flush are bounded by the changed lines
(`length + 9` each) plus one byte per line of the frame plus the two framing cursor
movements. -/
theorem C19_bytes (r : RState) (hq : r.queued = [] ∨ r.altActive = true) :
    (serializeAll (flush r).2).length ≤
      ((changed r).map (fun l => l.length + 9)).sum
      + (frameLines r).length
      + (3 + (Dec.digits (r.linesRendered - 1)).length)
      + (4 + max (Dec.digits (frameLines r).length).length (Dec.digits r.width).length) := by
  have h := C19_bytes_sharp r hq
  have := C19_changed_unchanged r
  omega

/-- In particular when no line changed (a frame that differs from the last only beyond what is
painted, e.g. after cropping to the height) the flush costs at most one byte per line plus the
framing. -/
theorem C19_bytes_nothing_changed (r : RState) (hq : r.queued = [] ∨ r.altActive = true)
    (h : changed r = []) :
    (serializeAll (flush r).2).length ≤
      (frameLines r).length
      + (3 + (Dec.digits (r.linesRendered - 1)).length)
      + (4 + max (Dec.digits (frameLines r).length).length (Dec.digits r.width).length) := by
  have := C19_bytes r hq
  rw [h] at this
  simpa using this

/-- The unconditional bound (prints pending or not, any state): the queued printed lines
(`length + 5` each: text, erase-to-end-of-line, CR LF), then every frame line at
`length + 9`, plus the framing. With prints pending every line IS repainted (the printed lines
scroll the frame), so nothing better holds there. -/
theorem C19_bytes_with_prints (r : RState) :
    (serializeAll (flush r).2).length ≤
      (r.queued.map (fun l => l.length + 5)).sum
      + ((frameLines r).map (fun l => l.length + 9)).sum
      + (3 + (Dec.digits (r.linesRendered - 1)).length)
      + (4 + max (Dec.digits (frameLines r).length).length (Dec.digits r.width).length) :=
  slen_flush_le_queued r

/-- What "unchanged" refers to: after a flush that rendered, the cache is exactly the frame
that was painted, so at the next flush a line is unchanged iff it equals the line painted at
the same index last time. -/
theorem C19_cache_is_last_frame (r : RState) (h : r.buf ≠ []) (h' : r.buf ≠ r.lastRender)
    (s : Bytes) (i : Nat) (l : Line) :
    sameAsLast (write (flush r).1 s) i l = ((frameLines r)[i]? == some l) := by
  have hc := (flush_cache h h').1
  unfold sameAsLast
  have : (write (flush r).1 s).lastLines = some (frameLines r) := hc
  rw [this]

/-! ### 7. which operations paint; the renders of a history

`TermOp.text` is the only terminal operation that carries content bytes (view lines and printed
lines); `paints ops` says that `ops` contains one. The ticker's tick is the ROp `.flush`.
Definitions (`Tea/Proofs/PaintSources.lean`):

  `paints ops = ops.any (fun o => match o with | .text _ => true | _ => false)`
  `paintSteps r []        = 0`
  `paintSteps r (o :: os) = (if paints (step r o).2 then 1 else 0) + paintSteps (step r o).1 os`
  `isFlush`, `isStop`, `isPrintLine : ROp → Bool` recognise `.flush`, `.stop`, `.printLine _`. -/

/-- Only three operations can paint: the tick (`flush`), the final `stop`, and `enterAlt` — the
last only on the main screen with a printed line pending AND a new view pending (it then brings
the main screen up to date with one ordinary flush before switching). A write, a print, a resize,
a repaint request, ClearScreen, every mode command, ExitAltScreen, kill and the window title never
paint. -/
theorem C19_paint_sources (r : RState) (o : ROp) (h : paints (step r o).2 = true) :
    o = .flush ∨ o = .stop ∨
      (o = .enterAlt ∧ r.altActive = false ∧ r.queued ≠ [] ∧ r.buf ≠ [] ∧ r.buf ≠ r.lastRender) :=
  step_paint_sources r o h

/-- A flush paints only when a view is pending that differs from the one on screen (the guard of
`flush`'s early return; compare `C19_noop`). -/
theorem C19_paint_needs_pending (r : RState) (h : paints (flush r).2 = true) :
    r.buf ≠ [] ∧ r.buf ≠ r.lastRender :=
  flush_paints_pending h

/-- the same for the final flush of `stop` -/
theorem C19_stop_paint_needs_pending (r : RState) (h : paints (stop r).2 = true) :
    r.buf ≠ [] ∧ r.buf ≠ r.lastRender :=
  flush_paints_pending (stop_paints r ▸ h)

/-- The `enterAlt` clause of `C19_paint_sources` is exact: under these conditions it does paint. -/
theorem C19_enterAlt_paints_iff (r : RState) :
    paints (step r .enterAlt).2 = true ↔
      (r.altActive = false ∧ r.queued ≠ [] ∧ r.buf ≠ [] ∧ r.buf ≠ r.lastRender) := by
  constructor
  · intro h
    rcases C19_paint_sources r .enterAlt h with h | h | ⟨_, h⟩
    · exact ROp.noConfusion h
    · exact ROp.noConfusion h
    · exact h
  · rintro ⟨ha, hq, h1, h2⟩
    exact enterAlt_paints_of_queued ha hq h1 h2

/-- Counting over ANY history, from ANY state: the painting steps — plus one if a printed line is
still pending at the end — are bounded by the ticks, the stops and the printLine operations of the
history, plus one if a printed line was pending at the start. (Potential argument: a painting
`enterAlt` needs a non-empty queue and leaves it empty; only `printLine` makes an empty queue
non-empty.) -/
theorem C19_paint_count (r : RState) (ops : List ROp) :
    paintSteps r ops + (if (run r ops).1.queued = [] then 0 else 1)
      ≤ ops.countP isFlush + ops.countP isStop + ops.countP isPrintLine
        + (if r.queued = [] then 0 else 1) :=
  paintSteps_le r ops

/-- From a state with nothing queued, the renders of a history are bounded by its ticks + stops +
printed-line operations, however many writes, mode commands and alt-screen switches it contains:
the ticks and the final `stop` aside, an extra render needs a line printed since the last render. -/
theorem C19_renders_bounded (r : RState) (hq : r.queued = []) (ops : List ROp) :
    paintSteps r ops ≤ ops.countP isFlush + ops.countP isStop + ops.countP isPrintLine := by
  have h := C19_paint_count r ops
  rw [if_pos hq] at h
  omega

/-- Without prints, renders happen at ticks (and stops) only: at most one per frame interval. -/
theorem C19_renders_only_at_ticks (r : RState) (hq : r.queued = []) (ops : List ROp)
    (hnp : ∀ o ∈ ops, (∀ b, o ≠ .printLine b)) :
    paintSteps r ops ≤ ops.countP isFlush + ops.countP isStop := by
  have h := C19_renders_bounded r hq ops
  have h0 : ops.countP isPrintLine = 0 :=
    countP_eq_zero_of_forall isPrintLine ops (fun o ho => isPrintLine_false_of_ne (hnp o ho))
  omega

/-! ### 8. non-vacuity -/

/-- a renderer 20 columns wide showing the three lines aaa / bbb / ccc -/
def r0 : RState := (flush (write { width := 20, height := 10 } [97,97,97,10,98,98,98,10,99,99,99])).1

/-- the model then writes aaa / XYZ / ccc -/
def r1 : RState := write r0 [97,97,97,10,88,89,90,10,99,99,99]

example : r0.lastLines = some [[97,97,97],[98,98,98],[99,99,99]] ∧ r0.linesRendered = 3 := by decide

/-- only the middle line is sent: cursor up 2, LF (skip line 0), "XYZ", erase to end of line,
CR LF, (nothing for line 2), cursor backward 20 -/
example : (flush r1).2 = [.cuu 2, .lf, .text [88,89,90], .el0, .cr, .lf, .cub 20] := by decide

example : serializeAll (flush r1).2 =
    [27,91,50,65, 10, 88,89,90, 27,91,75, 13,10, 27,91,50,48,68] := by decide

/-- the unchanged lines' text (`a` = 97, `c` = 99) is not in the output -/
example : 97 ∉ serializeAll (flush r1).2 ∧ 99 ∉ serializeAll (flush r1).2 := by decide

example : changed r1 = [[88,89,90]] ∧ unchanged r1 = [[97,97,97],[99,99,99]] := by decide

/-- the bound of `C19_bytes_sharp` on this frame: 18 bytes written, bound 12 + 2 + 4 + 6 -/
example : (serializeAll (flush r1).2).length = 18 ∧
    ((changed r1).map (fun l => l.length + 9)).sum + (unchanged r1).length
      + (3 + (Dec.digits (r1.linesRendered - 1)).length)
      + (4 + max (Dec.digits (frameLines r1).length).length (Dec.digits r1.width).length) = 24 := by
  decide

/-- writing the same view again: nothing -/
example : (flush (write r0 [97,97,97,10,98,98,98,10,99,99,99])).2 = [] := by decide

/-- a shrinking frame (3 lines to 2): the unchanged last line IS retransmitted with the
erase-below, the unchanged first line is not -/
example : (flush (write r0 [97,97,97,10,98,98,98])).2 =
    [.cuu 2, .lf, .ed0, .text [98,98,98], .el0, .cub 20] := by decide

/-- the first frame (no cache) paints everything -/
example : (flush (write { width := 20, height := 10 } [97,10,98])).2 =
    [.cr, .text [97], .el0, .cr, .lf, .text [98], .el0, .cub 20] := by decide

/-- a styled line ("\x1b[1mabcdefgh\x1b[0m": 16 bytes, 8 cells) on a 5-column renderer: it is cut to
5 cells, both escape sequences are still written (13 bytes of text, no EL0: the row is full), and
the bound of `C19_changed_line_bound` is in raw bytes: the line costs 13 + 1 bytes, bound 16 + 9 -/
example :
    (flush (write { width := 5, height := 10 } [27,91,49,109,97,98,99,100,101,102,103,104,27,91,48,109])).2 =
      [.cr, .text [27,91,49,109,97,98,99,100,101,27,91,48,109], .cub 5] ∧
    lineWidth [27,91,49,109,97,98,99,100,101,102,103,104,27,91,48,109] = 8 ∧
    lineWidth (truncateLine 5 [27,91,49,109,97,98,99,100,101,102,103,104,27,91,48,109]) = 5 ∧
    (serializeAll (paintLineOps { width := 5, height := 10 } false false 1 0
      [27,91,49,109,97,98,99,100,101,102,103,104,27,91,48,109])).length = 14 := by decide

/-- a history in which `enterAlt` paints: a view is rendered at the tick, a line is printed, a new
view is written, and entering the alt screen first brings the main screen up to date (printed
line `p`, then the view `b`) — two painting steps with a single tick; the bound of
`C19_renders_bounded` is 1 tick + 0 stops + 1 printLine = 2 -/
def hAlt : List ROp := [.write [97], .flush, .printLine [112], .write [98], .enterAlt]

example : (run { width := 20, height := 10 } hAlt).2 =
    [[], [.cr, .text [97], .el0, .cub 20], [], [],
     [.text [112], .el0, .cr, .lf, .cr, .text [98], .el0, .cub 20,
      .decset 1049, .ed2, .home, .decset 25]] := by decide

example : paintSteps { width := 20, height := 10 } hAlt = 2 ∧ hAlt.countP isFlush = 1 ∧
    hAlt.countP isStop = 0 ∧ hAlt.countP isPrintLine = 1 := by decide

/-- the bound attained with 3: twelve operations (writes, mode commands, three alt-screen
switches), and exactly the tick, the flushing `enterAlt` and the `stop` paint:
3 = 1 tick + 1 stop + 1 printLine. The second `enterAlt` (nothing printed since) does not paint. -/
def hThree : List ROp :=
  [.write [97], .write [97,97], .hideCursor, .flush, .printLine [112], .mouseCell, .write [98],
   .enterAlt, .write [99], .exitAlt, .enterAlt, .stop]

example : paintSteps { width := 20, height := 10 } hThree = 3 ∧
    hThree.countP isFlush + hThree.countP isStop + hThree.countP isPrintLine = 3 ∧
    (run { width := 20, height := 10 } hThree).1.queued = [] := by decide

/-- which steps of that history paint -/
example : (run { width := 20, height := 10 } hThree).2.map paints =
    [false, false, false, true, false, false, false, true, false, false, false, true] := by decide

/-- without a pending print `enterAlt` does not paint, even with a new view pending -/
example : paints (step (write r0 [120]) .enterAlt).2 = false := by decide

example : clampFPS 0 = 60 ∧ clampFPS 30 = 30 ∧ clampFPS 1000 = 120 ∧ clampFPS (-5) = 60 := by decide
example : framerateNs 60 = 16666666 ∧ framerateNs 120 = 8333333 ∧ framerateNs 1 = 1000000000 := by decide

/-! ### one ticker, one listener (`Tea/Render/Ticker.lean`)

"At most one render happens per frame interval" also needs that a renderer which is halted and
restarted any number of times (Exec, Suspend, ReleaseTerminal / RestoreTerminal, a second `start`)
never ends up with TWO listeners on its ticker - each tick would then be rendered by one of them
and, with a tick buffered for each, frames could come in pairs. -/
open Tea.Render.Ticker in
/-- every interleaving of `start` / `halt` calls with the listener goroutines: at most one listener
waits for the ticker -/
theorem C19_single_listener (s : St) (h : Reach stepNew s) : waiting s ≤ 1 := by
  rw [(inv_reach s h).2]; split <;> omega

open Tea.Render.Ticker in
/-- `start` twice in a row (RestoreTerminal twice) does not add a listener -/
example : (runWith stepNew {} [.start, .start, .halt 0, .after 0, .start, .start]).map waiting = some 1 := by decide

end Tea.Props.C19
