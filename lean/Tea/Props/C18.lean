import Tea.Props.C04
import Tea.Props.C06
import Tea.Proofs.Quit
import Tea.Proofs.Resize
import Tea.Proofs.ResizeLocked
import Tea.Proofs.ResizeStartup
/-
C18 — OS signals and window size are reported faithfully.

"SIGINT ends the program with ErrInterrupted and SIGTERM ends it like a quit (nil error), in
both cases with the terminal restored; with WithoutSignalHandler no handler is installed, and
while signals are ignored (WithoutSignals, or the terminal is released) they do not end the
program. When output is a terminal, Update receives a WindowSizeMsg with the true size at
start-up, again after every resize signal and on every WindowSize command, and the renderer
clips to the most recently reported size."

PARTIAL BY NATURE.  Kernel signal delivery, `signal.Notify`, SIGWINCH and the pty size query
(`term.GetSize`) are outside any model; what is proved here is the DECISION LOGIC:

* signals: in the Lifecycle LTS (`Tea/Runtime/Lifecycle.lean`) the label `.signal int` is "the
  handler goroutine took SIGINT (`int = true`) or SIGTERM (`false`) from its channel and is
  about to forward it to the event loop".  The theorems hold for every configuration and
  every schedule (`Reachable c s`: every label sequence from the moment Run is entered, `init0 c` -
  the handler goroutine is spawned by the first step of the start-up, a signal taken during the
  start-up is held by it until the loop begins).  `ignoreSignals` starts with the value of the
  configuration (WithoutSignals) and is DYNAMIC: the ReleaseTerminal of an Exec sets it
  (`exRelCancel`), RestoreTerminal clears it (`exResReader`) - both on the event-loop goroutine,
  in the order pinned by the bridge facts of `Tea/Props/Bridge/C18.lean`.  The theorems about ignored
  signals are statements about any state whose flag is set (`C18_ignored`, part 1), the exact
  value of the flag in every reachable state (part 2), programs configured with it (part 3), the
  released phases of an Exec (`C18_ignored_while_released`) and the states after an Exec
  (`C18_signals_obeyed_after_exec`).  ReleaseTerminal / RestoreTerminal called by the PROGRAM from
  another goroutine (outside an Exec) are not modelled.
* window size: that the size in the message is the TRUE size, and that a message is sent at
  start-up / on SIGWINCH / on the WindowSize command, are facts about `checkResize` and the
  OS covered by the bridge facts and the differential tests only.  Proved here is what the
  renderer does with a reported size (`ROp.size`, the `WindowSizeMsg` case of `handleMessages`):
  it adopts it, invalidates its caches, and every later frame is clipped to the LAST one reported.

Only property theorems live here; helper lemmas are in `Tea/Proofs/Quit.lean`,
`Tea/Proofs/Lifecycle*.lean`, `Tea/Proofs/Flush.lean`.
-/
namespace Tea.Props.C18
open Tea.Runtime.Life

/-! ### 1. SIGINT and SIGTERM end the program, with the right error, terminal restored -/

/-- **SIGINT.**  In any reachable state where the handler goroutine is waiting, signals are not
ignored and the event loop is in its `select`: the handler takes the SIGINT, the loop receives
its interrupt message, the handler has exited and the loop has ended with cause `interrupt` -
the program is terminating.  From then on, on EVERY schedule `ls`: the cause stays `interrupt`;
once Run is past its loop its error is ErrInterrupted (`C04_error_interrupt`); and when Run has
returned the terminal has been restored (`restoreTerminalState` ran at least once). -/
theorem C18_sigint (c : Config) (s : St) (hr : Reachable c s) (hsig : s.sig = .waiting)
    (hign : s.ignoreSignals = false) (hel : s.el = .select) :
    ∃ s', runLabels s [.signal true, .elRecvSig] = some s' ∧ s'.el = .exited .interrupt ∧
      s'.sig = .exited ∧ Terminating s' ∧
      ∀ ls s'', runLabels s' ls = some s'' →
        s''.el = .exited .interrupt ∧ (s''.runPc ≠ .loop → s''.runErr = .interrupted) ∧
        (s''.runPc = .returned → 1 ≤ s''.restores) := by
  have h1 := signal_taken hsig hign hel true
  refine ⟨_, h1, rfl, rfl, Or.inr (Or.inl ⟨_, rfl⟩), ?_⟩
  intro ls s'' h2
  have hr'' := reachable_runLabels ls (reachable_runLabels _ hr h1) h2
  have hel'' := el_exited_runLabels ls h2 (c := .interrupt) rfl
  exact ⟨hel'', fun hp => C04.C04_error_interrupt c s'' hr'' hp hel'',
    fun h => (inv_restored hr'').2 h (by rw [hel'']; simp)⟩

/-- **SIGTERM.**  The same for SIGTERM: the loop ends with cause `quit` - exactly the cause of a
quit message, so everything that follows is what follows a quit.  On every later schedule the
cause stays `quit`; once Run is past its loop the error is nil, or ErrProgramKilled if the
context had ALSO been cancelled (Kill(), parent context) by the time Run looked
(`C04_error_quit`); precisely: the `runTail` step computes `nil` iff the context is not
cancelled at that moment; and when Run has returned the terminal has been restored. -/
theorem C18_sigterm (c : Config) (s : St) (hr : Reachable c s) (hsig : s.sig = .waiting)
    (hign : s.ignoreSignals = false) (hel : s.el = .select) :
    ∃ s', runLabels s [.signal false, .elRecvSig] = some s' ∧ s'.el = .exited .quit ∧
      s'.sig = .exited ∧ Terminating s' ∧
      ∀ ls s'', runLabels s' ls = some s'' →
        s''.el = .exited .quit ∧
        (s''.runPc ≠ .loop → s''.runErr = .nil ∨ s''.runErr = .killed) ∧
        (∀ s3, step s'' .runTail = some s3 →
          s3.runErr = (if s''.ctxDone = true then .killed else .nil)) ∧
        (s''.runPc = .returned → 1 ≤ s''.restores) := by
  have h1 := signal_taken hsig hign hel false
  refine ⟨_, h1, rfl, rfl, Or.inr (Or.inl ⟨_, rfl⟩), ?_⟩
  intro ls s'' h2
  have hr'' := reachable_runLabels ls (reachable_runLabels _ hr h1) h2
  have hel'' := el_exited_runLabels ls h2 (c := .quit) rfl
  refine ⟨hel'', fun hp => C04.C04_error_quit c s'' hr'' hp hel'', ?_,
    fun h => (inv_restored hr'').2 h (by rw [hel'']; simp)⟩
  intro s3 h3
  rw [(runTail_err h3 hel'').1]
  cases s''.ctxDone <;> rfl

/-- the error of a quit whose context was not cancelled when Run looked is nil -/
theorem C18_sigterm_nil : errOf .quit false = .nil ∧ errOf .interrupt false = .interrupted ∧
    errOf .interrupt true = .interrupted := ⟨rfl, rfl, rfl⟩

/-- **... AND RUN DOES RETURN.**  After either signal has been received, from every later state
in which no user callback is in progress, at most `rank` internal progress steps - each
enabled in turn, no help from anybody - bring Run to its return (`C04_run_returns`), and there
the error is the signal's (ErrInterrupted for SIGINT; nil or killed for SIGTERM) and the
terminal has been restored. -/
theorem C18_signal_run_returns (c : Config) (s : St) (hr : Reachable c s) (hsig : s.sig = .waiting)
    (hign : s.ignoreSignals = false) (hel : s.el = .select) (int : Bool) :
    ∃ s', runLabels s [.signal int, .elRecvSig] = some s' ∧
      ∀ ls s'', runLabels s' ls = some s'' → NoCallback s'' →
        ∃ ps s3, (∀ l ∈ ps, progressLabel l = true) ∧ ps.length ≤ rank s'' ∧
          runLabels s'' ps = some s3 ∧ s3.runPc = .returned ∧ 1 ≤ s3.restores ∧
          (int = true → s3.runErr = .interrupted) ∧
          (int = false → s3.runErr = .nil ∨ s3.runErr = .killed) := by
  have h1 := signal_taken hsig hign hel int
  refine ⟨_, h1, ?_⟩
  intro ls s'' h2 hnc
  have hr'' := reachable_runLabels ls (reachable_runLabels _ hr h1) h2
  have hel'' := el_exited_runLabels ls h2 (c := if int then .interrupt else .quit) rfl
  obtain ⟨ps, s3, p1, p2, p3, p4⟩ :=
    C04.C04_run_returns_after_startup c s'' hr'' (Or.inr (Or.inl ⟨_, hel''⟩)) hnc
      (not_starting_of_exited hr'' hel'') (by rw [hel'']; rfl)
  have hr3 := reachable_runLabels ps hr'' p3
  have hel3 := el_exited_runLabels ps p3 hel''
  have hnl : s3.runPc ≠ .loop := by rw [p4]; decide
  refine ⟨ps, s3, p1, p2, p3, p4, (inv_restored hr3).2 p4 (by rw [hel3]; simp), ?_, ?_⟩
  · intro hi
    rw [hi] at hel3
    exact C04.C04_error_interrupt c s3 hr3 hnl hel3
  · intro hi
    rw [hi] at hel3
    exact C04.C04_error_quit c s3 hr3 hnl hel3

/-! ### 2. ignored signals do not end the program -/

/- The first version of this theorem (model without Exec) had as part (2)

        (∀ (c : Config) (s : St), Reachable c s → s.ignoreSignals = c.ignoreSignals)

  which is false once Exec is in the model: while the terminal is released the flag is set in every
  program (part (2) below says exactly when).  With the model of RestoreTerminal BEFORE ITS REPAIR
  (`stepOld`: `ignoreSignals := false` unconditionally) part (3) was false as well - a WithoutSignals
  program obeyed SIGINT / SIGTERM after its first Exec; that was a defect of the Go code, found
  here, confirmed on the real code and repaired (`if !p.withoutSignals { … }`).  The run that shows
  it is kept, machine-checked against the old step, in section 7 (`cfgIgnoreExec`). -/

/-- **IGNORED.**  (1) In ANY state whose ignore flag is set, a signal taken by the handler
changes nothing at all: the step does not exist (`handleSignals` drops the signal and keeps
waiting).  (2) The flag, exactly, in every reachable state of every program: it is set iff the
program was configured to ignore signals (WithoutSignals), or the terminal is released by an Exec in
progress, or a release was never followed by a restore (`releaseStuck`).  (3) So in a program
configured to ignore signals, in EVERY reachable state - before, during and after any number of
Execs -: the flag is set, no signal step exists, the handler never holds a signal to forward, the
loop never receives one, and in every run from there neither a signal step nor the loop's receiving
a signal ever occurs: no signal ever ends the program. -/
theorem C18_ignored :
    (∀ (s : St) (b : Bool), s.ignoreSignals = true → step s (.signal b) = none) ∧
    (∀ (c : Config) (s : St), Reachable c s →
      s.ignoreSignals = (c.ignoreSignals || s.el.released || s.releaseStuck)) ∧
    (∀ (c : Config) (s : St), c.ignoreSignals = true → Reachable c s →
      s.ignoreSignals = true ∧
      (∀ b, step s (.signal b) = none) ∧ (∀ b, s.sig ≠ .sending b) ∧ step s .elRecvSig = none ∧
      (∀ ls s', runLabels s ls = some s' → Label.elRecvSig ∉ ls ∧ ∀ b, Label.signal b ∉ ls)) := by
  have p1 : ∀ (s : St) (b : Bool), s.ignoreSignals = true → step s (.signal b) = none := by
    intro s b h
    simp [step, h]
  have p3 : ∀ (c : Config) (s : St), c.ignoreSignals = true → Reachable c s →
      s.ignoreSignals = true ∧ (∀ b, step s (.signal b) = none) ∧ (∀ b, s.sig ≠ .sending b) ∧
      step s .elRecvSig = none := by
    intro c s hc hr
    have hig : s.ignoreSignals = true := by rw [inv_sig hr, hc]; rfl
    have hns := inv_ignored_not_sending hc hr
    refine ⟨hig, fun b => p1 s b hig, hns, ?_⟩
    cases hs : s.sig with
    | sending b => exact absurd hs (hns b)
    | _ => simp [step, hs]
  refine ⟨p1, fun c s hr => inv_sig hr, fun c s hc hr => ?_⟩
  obtain ⟨a1, a2, a3, a4⟩ := p3 c s hc hr
  refine ⟨a1, a2, a3, a4, fun ls s' hrun => ?_⟩
  have hav := run_avoids (c := c) (fun l => l = .elRecvSig ∨ ∃ b, l = .signal b)
    (fun t ht l hl => by
      obtain ⟨_, b2, _, b4⟩ := p3 c t hc ht
      rcases hl with h | ⟨b, h⟩
      · rw [h]; exact b4
      · rw [h]; exact b2 b) ls hr hrun
  exact ⟨fun h => hav _ h (Or.inl rfl), fun b h => hav _ h (Or.inr ⟨b, rfl⟩)⟩

/-- in a program that never Execs the flag is the one of the configuration, in every reachable state -/
theorem C18_flag_without_exec (c : Config) (s : St) (hc : SendKind.exec ∉ c.senders)
    (hr : Reachable c s) : s.ignoreSignals = c.ignoreSignals := by
  obtain ⟨_, h2, h4⟩ := inv_noexec hc hr
  rw [inv_sig hr, h4]
  cases hel : s.el <;> simp_all [ElPc.inExec, ElPc.released]

/-- the phases of an Exec in which the terminal is released -/
theorem released_def (e : ElPc) : e.released =
    match e with
    | .execRelease .waitRead | .execRelease .renderer | .execRelease .restore | .execCmd
    | .execRestore .reader => true
    | _ => false := by
  cases e <;> first | rfl | (rename_i ph; cases ph <;> rfl)

/-- **IGNORED WHILE THE TERMINAL IS RELEASED.**  In every reachable state of every program whose loop
is inside an Exec after `exRelCancel` and before `exResReader` - through the rest of ReleaseTerminal,
the whole run of the command, until RestoreTerminal -: the flag is set and no signal step exists,
for SIGINT and for SIGTERM: a signal cannot end the program (it is received and dropped).
Conversely, in a program that was NOT configured to ignore signals the flag is set ONLY then - or
after a release that was never followed by a restore (`releaseStuck`: set only by the failure of a
release, `execReleaseFails`, and by a panic of the command, `execCmdPanics`; cleared by the next
RestoreTerminal). -/
theorem C18_ignored_while_released (c : Config) (s : St) (hr : Reachable c s) :
    (s.el.released = true → s.ignoreSignals = true ∧ ∀ int, step s (.signal int) = none) ∧
    (c.ignoreSignals = false → (s.ignoreSignals = true ↔ (s.el.released = true ∨ s.releaseStuck = true))) ∧
    (s.el.inExec = false → s.releaseStuck = false → s.ignoreSignals = c.ignoreSignals) ∧
    (∀ l s', step s l = some s' → s'.releaseStuck = true →
      s.releaseStuck = true ∨ l = .execReleaseFails ∨ l = .execCmdPanics) := by
  have hig := inv_sig hr
  refine ⟨fun h => ?_, fun hc => ?_, fun hx hst => ?_, fun l s' hs h => releaseStuck_origin hs h⟩
  · have : s.ignoreSignals = true := by rw [hig, h]; simp
    exact ⟨this, fun int => by simp [step, this]⟩
  · rw [hig, hc]; simp
  · have : s.el.released = false := by
      cases hel : s.el <;> simp_all [ElPc.inExec, ElPc.released]
    rw [hig, this, hst]; simp

/-- **AFTER AN EXEC THE PROGRAM TREATS SIGNALS AS IT WAS CONFIGURED TO.**  (1) RestoreTerminal's first
step puts the flag back to the value of the configuration (`if !p.withoutSignals { store 0 }`): in a
program that obeys signals, with a handler waiting, both signal steps are enabled again at once; in
a WithoutSignals program they stay disabled.  (2) In every reachable state whose loop is not inside a
released phase and with no release stuck - before the first Exec, between two Execs, after the
last - the flag is the one of the configuration.  (3) In particular, in a program that obeys signals,
once the loop is back at its `select` with the handler waiting, the conclusions of `C18_sigint` and
`C18_sigterm` hold from there: SIGINT ends the program with ErrInterrupted, SIGTERM like a quit,
terminal restored. -/
theorem C18_signals_obeyed_after_exec (c : Config) (s : St) (hr : Reachable c s) :
    (∀ s', step s .exResReader = some s' →
      s'.ignoreSignals = c.ignoreSignals ∧
      (c.ignoreSignals = false → s'.sig = .waiting → ∀ int, (step s' (.signal int)).isSome = true) ∧
      (c.ignoreSignals = true → ∀ int, step s' (.signal int) = none)) ∧
    (s.releaseStuck = false → s.el.released = false → s.ignoreSignals = c.ignoreSignals) ∧
    (c.ignoreSignals = false → s.releaseStuck = false → s.el = .select → s.sig = .waiting →
      (∃ s', runLabels s [.signal true, .elRecvSig] = some s' ∧ s'.el = .exited .interrupt ∧
        s'.sig = .exited ∧ Terminating s' ∧
        ∀ ls s'', runLabels s' ls = some s'' →
          s''.el = .exited .interrupt ∧ (s''.runPc ≠ .loop → s''.runErr = .interrupted) ∧
          (s''.runPc = .returned → 1 ≤ s''.restores)) ∧
      (∃ s', runLabels s [.signal false, .elRecvSig] = some s' ∧ s'.el = .exited .quit ∧
        s'.sig = .exited ∧ Terminating s' ∧
        ∀ ls s'', runLabels s' ls = some s'' →
          s''.el = .exited .quit ∧
          (s''.runPc ≠ .loop → s''.runErr = .nil ∨ s''.runErr = .killed) ∧
          (∀ s3, step s'' .runTail = some s3 →
            s3.runErr = (if s''.ctxDone = true then .killed else .nil)) ∧
          (s''.runPc = .returned → 1 ≤ s''.restores))) := by
  have hig := inv_sig hr
  have p2 : s.releaseStuck = false → s.el.released = false → s.ignoreSignals = c.ignoreSignals := by
    intro h2 h3
    rw [hig, h2, h3]; simp
  refine ⟨fun s' hs => ?_, p2, fun hc h2 hel hsig => ?_⟩
  · obtain ⟨a, _, _⟩ := exResReader_signals hs
    rw [inv_withoutSignals hr] at a
    refine ⟨a, fun hc hw int => by simp [step, hw, a, hc], fun hc int => by simp [step, a, hc]⟩
  · have hign : s.ignoreSignals = false := by rw [p2 h2 (by rw [hel]; rfl), hc]
    exact ⟨C18_sigint c s hr hsig hign hel, C18_sigterm c s hr hsig hign hel⟩

/-- ... and ignoring signals does not make the handler goroutine an obstacle to shutdown: it
still leaves at the cancellation of the context (see also `C18_handler_never_blocks_exit`). -/
theorem C18_ignored_handler_exits (s : St) (hctx : s.ctxDone = true) (hs : s.sig = .waiting) :
    ∃ s', step s .sigExit = some s' ∧ s'.sig = .exited ∧ s'.ignoreSignals = s.ignoreSignals := by
  refine ⟨{ s with sig := .exited }, ?_, rfl, rfl⟩
  simp [step, hs, hctx]

/-! ### 3. WithoutSignalHandler: no handler -/

/-- **NO HANDLER.**  With WithoutSignalHandler there is no handler goroutine in any reachable
state; hence no signal is ever taken, none is ever delivered to the loop, and shutdown has no
signal handler to wait for. -/
theorem C18_no_handler (c : Config) (s : St) (hc : c.withSignalHandler = false)
    (hr : Reachable c s) :
    s.sig = .absent ∧ (∀ b, step s (.signal b) = none) ∧ step s .elRecvSig = none ∧
    step s .sigExit = none ∧ step s .sigAbort = none ∧ sigGone s.sig = true := by
  have h := inv_no_handler hc hr
  refine ⟨h, ?_, ?_, ?_, ?_, ?_⟩
  · intro b; simp [step, h]
  · simp [step, h]
  · simp [step, h]
  · simp [step, h]
  · rw [h]; rfl

/-- with a handler (the default) the goroutine is spawned by the FIRST step of Run's start-up
(`suSigHandler`, before the renderer exists) and waits; it is waiting when the loop begins -/
theorem C18_handler_installed (c : Config) (hc : c.withSignalHandler = true) :
    (init c).sig = .waiting ∧
    ∃ s, step (init0 c) .suSigHandler = some s ∧ s.sig = .waiting ∧ s.runPc = .starting .newRenderer := by
  refine ⟨by simp [init, hc], _, rfl, ?_, rfl⟩
  simp [init0, hc]

/-! ### 4. a signal that loses the race does not hang the shutdown -/

/-- **THE HANDLER NEVER BLOCKS THE EXIT.**  Once the context is cancelled (the program is ending
for another reason) a waiting handler leaves (`sigExit`), and a handler that already took a
signal and is blocked forwarding it to a loop that will never receive it leaves too
(`sigAbort`: the `select` on `ctx.Done()` around the send); either way it ends up `exited`,
which is what `handlers.shutdown()` waits for. -/
theorem C18_handler_never_blocks_exit (s : St) (hctx : s.ctxDone = true) :
    (s.sig = .waiting → (step s .sigExit).isSome = true) ∧
    (∀ b, s.sig = .sending b → (step s .sigAbort).isSome = true) ∧
    (∀ s', step s .sigExit = some s' → sigGone s'.sig = true) ∧
    (∀ s', step s .sigAbort = some s' → sigGone s'.sig = true) := by
  refine ⟨?_, ?_, ?_, ?_⟩
  · intro h; simp [step, h, hctx]
  · intro b h; simp [step, h, hctx]
  · intro s' h
    cases hs : s.sig <;> simp [step, hs, hctx] at h
    rw [← h]; rfl
  · intro s' h
    cases hs : s.sig <;> simp [step, hs, hctx] at h
    rw [← h]; rfl

/-! ### 5. the renderer adopts the reported size -/

open Tea Tea.VT Tea.Render

/-- **SIZE ADOPTED.**  On a window-size message the renderer takes the reported width and
height, writes NOTHING to the terminal, keeps the pending view, and invalidates both caches -
so no line of the next frame can be skipped as "unchanged". -/
theorem C18_size_adopted (r : RState) (w h : Nat) :
    Render.step r (.size w h) =
      ({ r with width := w, height := h, lastRender := [], lastLines := none }, []) ∧
    (Render.step r (.size w h)).1.buf = r.buf ∧
    ∀ i l, sameAsLast (Render.step r (.size w h)).1 i l = false :=
  ⟨rfl, rfl, fun i l => sameAsLast_of_none _ rfl i l⟩

/-- **... AND THE NEXT FLUSH REPAINTS EVERYTHING.**  After a size message, the flush of any
view `s` is a painting flush that prints EVERY line of the frame (cut at the new width): the
whole view is redrawn for the new size, and the cache afterwards is that view. -/
theorem C18_size_repaints (r : RState) (w h : Nat) (s : Bytes) (r' : RState)
    (hr' : r' = write (Render.step r (.size w h)).1 s) :
    (∀ l ∈ frameLines r', TermOp.text (if w > 0 then truncateLine w l else l) ∈ (flush r').2) ∧
    (flush r').1.lastRender = r'.buf ∧ (flush r').1.lastLines = some (frameLines r') ∧
    (flush r').1.width = w ∧ (flush r').1.height = h := by
  subst hr'
  have hb := write_buf_ne (Render.step r (.size w h)).1 s
  refine ⟨fun l hl => flush_prints_all _ hb rfl rfl l hl, flush_lastRender _ hb, ?_,
    (flush_size _).1, (flush_size _).2.1⟩
  have hne : ((write (Render.step r (.size w h)).1 s).buf.isEmpty ||
      (write (Render.step r (.size w h)).1 s).buf ==
        (write (Render.step r (.size w h)).1 s).lastRender) = false := by
    show ((write (Render.step r (.size w h)).1 s).buf.isEmpty ||
      (write (Render.step r (.size w h)).1 s).buf == []) = false
    cases hbb : (write (Render.step r (.size w h)).1 s).buf with
    | nil => exact absurd hbb hb
    | cons _ _ => rfl
  rw [flush_state _ hne]

/-! ### 6. ... and clips to the most recently reported size -/

/-- **CLIPPED TO THE LATEST SIZE.**  (1) The last size message wins: after two of them the
renderer has the second width and height.  After a size message `w × h` (`w, h ≥ 1`) and ANY
later writes, flushes and repaints (they never change the size): (2) the frame of a view has
between 1 and `h` lines - the last `h` lines of the view (`C06_clip`); (3) every line is cut to
at most `w` cells (`lineWidth`: escape sequences, which the cut keeps, take none) before it is
printed, and (4) with no printed lines queued, EVERY text a flush writes takes at most `w` cells,
so no view line reaches past the last column or wraps. -/
theorem C18_clip_latest (r : RState) (w1 h1 w h : Nat) (hw : 1 ≤ w) (hh : 1 ≤ h) :
    ((Render.step (Render.step r (.size w1 h1)).1 (.size w h)).1.width = w ∧
     (Render.step (Render.step r (.size w1 h1)).1 (.size w h)).1.height = h) ∧
    (∀ s, 1 ≤ (frameLines (write (Render.step r (.size w h)).1 s)).length ∧
      (frameLines (write (Render.step r (.size w h)).1 s)).length ≤ h ∧
      frameLines (write (Render.step r (.size w h)).1 s) =
        (splitLines (write r s).buf).drop ((splitLines (write r s).buf).length - h)) ∧
    (∀ l : Line, lineWidth (truncateLine w l) ≤ w) ∧
    (∀ s x, r.queued = [] →
      TermOp.text x ∈ (flush (write (Render.step r (.size w h)).1 s)).2 → lineWidth x ≤ w) := by
  refine ⟨⟨rfl, rfl⟩, ?_, fun l => truncateLine_width_le w l, ?_⟩
  · intro s
    obtain ⟨c1, c2, c3, _⟩ := C06.C06_clip (write (Render.step r (.size w h)).1 s) hh
    exact ⟨c2, c3, c1⟩
  · intro s x hq hx
    exact flush_text_le (write (Render.step r (.size w h)).1 s) hw hq x hx

/-- the size survives every renderer step except another size message: flushes in
particular keep clipping to it -/
theorem C18_size_kept (r : RState) (o : ROp) (hs : ∀ w h, o ≠ .size w h) :
    (Render.step r o).1.width = r.width ∧ (Render.step r o).1.height = r.height := by
  cases o with
  | size w h => exact absurd rfl (hs w h)
  | flush => exact ⟨(flush_size r).1, (flush_size r).2.1⟩
  | stop => exact ⟨(flush_size r).1, (flush_size r).2.1⟩
  | enterAlt =>
    show (enterAlt r).1.width = r.width ∧ (enterAlt r).1.height = r.height
    cases ha : r.altActive with
    | true => rw [enterAlt_active r ha]; exact ⟨rfl, rfl⟩
    | false => exact (enterAlt_fields r ha).2.2.2.2.2.2.2.2.2.2
  | exitAlt => simp only [Render.step, exitAlt]; split <;> exact ⟨rfl, rfl⟩
  | printLine b => simp only [Render.step]; split <;> exact ⟨rfl, rfl⟩
  | _ => exact ⟨rfl, rfl⟩

/-! ### 7. concrete runs (non-vacuity) -/

/-- the program of the C04 examples: signal handler, resize listener, cancelable input -/
def cfg : Config := C04.cfg
/-- the same with WithoutSignals -/
def cfgIgnore : Config := { cfg with ignoreSignals := true }
/-- the same with WithoutSignalHandler -/
def cfgNoHandler : Config := { cfg with withSignalHandler := false }

def obs (s : St) : RunPc × ErrClass × Nat × Bool := (s.runPc, s.runErr, s.restores, s.finishedClosed)

/-- the initial state satisfies the hypotheses of `C18_sigint` / `C18_sigterm` -/
example : Reachable cfg (init cfg) ∧ (init cfg).sig = .waiting ∧ (init cfg).ignoreSignals = false ∧
    (init cfg).el = .select := ⟨Reachable.init, by decide, by decide, by decide⟩

/-- SIGINT: Run returns ErrInterrupted, terminal restored once -/
example : (runLabels (init cfg)
    [.signal true, .elRecvSig, .runTail, .shCancel none, .dispExit, .resizeExit, .shHandlers none,
     .shReader none, .shRenderer none, .shRestore none, .runReturn]).map obs
    = some (.returned, .interrupted, 1, true) := by decide

/-- SIGINT while Run is still starting up (inside Init): the handler goroutine takes it and waits,
holding it, until the loop begins; then Run returns ErrInterrupted, terminal restored once -/
example : (runLabels (init0 cfg)
    ([.suSigHandler, .suNewRenderer, .startWriterReturns, .suStartRenderer, .signal true, .initReturns,
      .suSpawnInit, .firstViewReturns, .suOpenReader, .suSpawnHandlers] ++
     [.elRecvSig, .runTail, .shCancel none, .dispExit, .resizeExit, .shHandlers none,
      .shReader none, .shRenderer none, .shRestore none, .runReturn])).map obs
    = some (.returned, .interrupted, 1, true) ∧
    (runLabels (init0 cfg) [.suSigHandler, .suNewRenderer, .startWriterReturns, .suStartRenderer,
      .signal true]).map (fun s => (s.sig, (step s .elRecvSig).isSome)) = some (.sending true, false) := by
  decide

/-- SIGTERM: Run returns nil, terminal restored once; like a quit it waits for the read loop -/
example : (runLabels (init cfg)
    [.signal false, .elRecvSig, .runTail, .shCancel none, .dispExit, .resizeExit, .shHandlers none,
     .shReader none, .readerCanceled, .shWaitRead none, .shRenderer none, .shRestore none,
     .runReturn]).map obs
    = some (.returned, .nil, 1, true) := by decide

/-- SIGTERM racing a Kill(): the context is cancelled before Run looks - ErrProgramKilled -/
example : (runLabels (init cfg)
    [.signal false, .elRecvSig, .killCall, .shCancel (some 0), .runTail]).map (fun s => s.runErr)
    = some .killed := by decide

/-- WithoutSignals: the signal step does not exist, at start-up and later; the program goes on -/
example : (step (init cfgIgnore) (.signal true)).isSome = false ∧
    (step (init cfgIgnore) (.signal false)).isSome = false ∧
    (runLabels (init cfgIgnore) [.decoded, .elRecvReader, .signal true]).isSome = false ∧
    (runLabels (init cfgIgnore) [.decoded, .elRecvReader, .callbackReturns]).isSome = true := by
  decide

/-- the program of `cfgIgnore` (WithoutSignals) with an Exec message -/
def cfgIgnoreExec : Config := { cfgIgnore with senders := [.exec] }

/-- THE REPAIRED DEFECT, against the step function BEFORE the repair (`stepOld`: RestoreTerminal
stores 0 in `ignoreSignals` unconditionally).  WithoutSignals, one Exec: before the Exec no signal
step exists; while the command runs neither; after RestoreTerminal the flag is 0: SIGINT is taken
and ends the program with ErrInterrupted. -/
example :
    (stepOld (init cfgIgnoreExec) (.signal true)).isSome = false ∧
    (runLabelsOld (init cfgIgnoreExec) ([.sendCall 0] ++ (execSchedule 0).take 5)).map
      (fun s => (s.el, s.ignoreSignals, (stepOld s (.signal true)).isSome)) = some (.execCmd, true, false) ∧
    (runLabelsOld (init cfgIgnoreExec)
      ([.sendCall 0] ++ execSchedule 0 ++ [.callbackReturns, .elCmdHandOver, .viewReturns])).map
      (fun s => (s.el, s.ignoreSignals, (stepOld s (.signal true)).isSome)) = some (.select, false, true) ∧
    (runLabelsOld (init cfgIgnoreExec)
      ([.sendCall 0] ++ execSchedule 0 ++ [.callbackReturns, .elCmdHandOver, .viewReturns] ++
       [.signal true, .elRecvSig, .runTail, .shCancel none, .dispExit, .resizeExit, .shHandlers none,
        .shReader none, .shRenderer none, .shRestore none, .runReturn])).map obs
      = some (.returned, .interrupted, 2, true) := by decide

/-- ... and with the repaired RestoreTerminal (`step`): the same program, the same Exec - the flag is
set before, during and after it, no signal step exists at any of the ten points nor back at the
`select`, and the run above is rejected at its `signal true` -/
example :
    ((List.range 10).map (fun k =>
      (runLabels (init cfgIgnoreExec) ([.sendCall 0] ++ (execSchedule 0).take k)).map
        (fun s => (s.ignoreSignals, (step s (.signal true)).isSome, (step s (.signal false)).isSome))))
      = List.replicate 10 (some (true, false, false)) ∧
    (runLabels (init cfgIgnoreExec)
      ([.sendCall 0] ++ execSchedule 0 ++ [.callbackReturns, .elCmdHandOver, .viewReturns])).map
      (fun s => (s.el, s.ignoreSignals, (step s (.signal true)).isSome)) = some (.select, true, false) ∧
    (runLabels (init cfgIgnoreExec)
      ([.sendCall 0] ++ execSchedule 0 ++ [.callbackReturns, .elCmdHandOver, .viewReturns] ++
       [.signal true])).isSome = false := by decide

/-- for a program that obeys signals the repair changes nothing: the old step is the step -/
example (s : St) (h : s.withoutSignals = false) (l : Label) : stepOld s l = step s l :=
  stepOld_eq_step h l

/-- the same Exec in the program that obeys signals: SIGINT and SIGTERM are dropped while the terminal
is released (every point from `exRelCancel` to the command's return), obeyed before and after -/
example :
    ((List.range 10).map (fun k =>
      (runLabels (init { cfg with senders := [.exec] }) ([.sendCall 0] ++ (execSchedule 0).take k)).map
        (fun s => ((step s (.signal true)).isSome, (step s (.signal false)).isSome))))
    = [some (true, true), some (true, true), some (false, false), some (false, false),
       some (false, false), some (false, false), some (false, false), some (true, true),
       some (true, true), some (true, true)] := by decide

/-- WithoutSignalHandler: no goroutine, no signal step, and a quit's shutdown does not wait for
any `sigExit` -/
example : (init cfgNoHandler).sig = .absent ∧ (step (init cfgNoHandler) (.signal true)).isSome = false ∧
    (runLabels (init cfgNoHandler)
      [.sendCall 1, .elRecvSender 1, .runTail, .shCancel none, .dispExit, .resizeExit,
       .shHandlers none, .shReader none, .readerCanceled, .shWaitRead none, .shRenderer none,
       .shRestore none, .runReturn]).map obs = some (.returned, .nil, 1, true) := by decide

/-- a SIGINT that loses the race against a Quit(): `sigAbort`, Run returns nil -/
example : (runLabels (init cfg) C04.sigintLosesToQuit).map obs = some (.returned, .nil, 1, true) := by
  decide

/-- the renderer at 10 x 5 is told 4 x 2, then 6 x 3: nothing is written, the size is the last
one, and the next flush of "abcdefgh\n1\n2\n3" paints its last 3 lines with "abcdefgh" gone (it is
above the frame) - every line cut at 6 columns -/
example :
    let r : RState := { width := 10, height := 5 }
    let r2 := (Render.step (Render.step r (.size 4 2)).1 (.size 6 3)).1
    (Render.step r (.size 4 2)).2 = [] ∧ r2.width = 6 ∧ r2.height = 3 ∧
    (flush (write r2 [97,98,99,100,101,102,103,104,10,49,10,50,10,51])).2 =
      [.cr, .text [49], .el0, .cr, .lf, .text [50], .el0, .cr, .lf, .text [51], .el0, .cub 6] ∧
    (flush (write r2 [49,10,97,98,99,100,101,102,103,104])).2 =
      [.cr, .text [49], .el0, .cr, .lf, .text [97,98,99,100,101,102], .cub 6] := by decide

end Tea.Props.C18

/-! ### 8. window-size reporting as a transition system: "for every sequence of terminal resizes"
       - the code BEFORE the repair

STATUS.  The theorems of this section describe the code BEFORE the repair of `checkResize`
(tty.go; no mutex: `step` / `runLabels` / `Reachable`).  They are kept as the record of the
defect the model found (`C18_stale_checker_race`, and the `raceFree` hypothesis that
`C18_quiescent_last_is_true` therefore needs).  The CURRENT code - `checkResize` holds
`resizeMu` from its size query to the hand-over of the message - is described by section 9
(`stepL`), where the same statements hold without that hypothesis.  Every run of the repaired
model is a run of the model of this section (`C18L_refines`), so what is proved here for EVERY
run (`C18_report_was_true`, `C18_no_resize_lost`, `C18_startup_reported`, the counting, the
coalescing) holds for the current code as well.

The model is `Tea/Runtime/Resize.lean`: the terminal's true size (changed by the environment at
any moment), the 1-slot SIGWINCH channel (`pending`; a second signal is coalesced), the listener
goroutine (`take` the signal, `query` the size, `deliver` the message, wait again), the
`checkResize` goroutines in flight (one at start-up, one per WindowSize command: `query`,
`deliver`, gone), and what Update received (`reported`).  The theorems hold for EVERY run - every
sequence of resizes and commands, every interleaving of the goroutines.  Helper lemmas:
`Tea/Proofs/Resize.lean`.

FINDING (`C18_stale_checker_race`).  "The last size reported is the true size once everything
has settled" does NOT hold for every interleaving: a `checkResize` goroutine that was started at
start-up or by a WindowSize command, has read the size and has not handed its message over yet
is overtaken by the listener's report of a later resize, and then delivers its OLD size last.
What holds instead: the true size IS reported after the last resize (`C18_no_resize_lost`,
always); it is the LAST report unless the very last step was such a late delivery by a checker
(`C18_quiescent_last_step`, `C18_quiescent_last_is_true`); and the listener alone never causes
it (`C18_fresh_inductive`: its own stale report is always followed by another round). -/
namespace Tea.Props.C18
open Tea.Runtime.Resize

/-- **EVERY REPORT WAS TRUE** (safety).  In every run from start-up, the `k`-th size Update
received is the size a `query` step of the run read - the terminal's true size `t.size` at that
moment `t` -, and that moment was before its delivery (at most `k` reports had been delivered).
(A goroutine queries only after the event that started it: a checker exists from its start-up /
its command on, the listener queries only after taking a signal a resize raised.) -/
theorem C18_report_was_true (z : Size) (ls : List Label) (s : St)
    (hrun : runLabels (init z) ls = some s) (k : Nat) (sz : Size)
    (hk : s.reported[k]? = some sz) :
    ∃ pre who post t, ls = pre ++ Label.query who :: post ∧
      runLabels (init z) pre = some t ∧ t.size = sz ∧ t.reported.length ≤ k :=
  (hist_run hrun).1 k sz hk

/-- **THE INVARIANT `Fresh`** - "a signal is pending, or the listener / a checker is about to
query, or is handing over the CURRENT size, or the last report IS the current size".  It holds
at start-up; every reachable state satisfies `ListenerOk` (a listener holding a stale size has
a signal pending); `Fresh` is preserved by every step that is not a late (stale) delivery by a
checker; in fact every such step other than `cancel` ESTABLISHES it; and in a quiescent state
it says that the last report is the true size. -/
theorem C18_fresh_inductive (z : Size) :
    Fresh (init z) ∧
    (∀ s, Reachable z s → ListenerOk s) ∧
    (∀ s l s', Reachable z s → step s l = some s' → staleDelivery s l = false →
      (Fresh s → Fresh s') ∧ (l ≠ .cancel → Fresh s')) ∧
    (∀ s, Fresh s → Quiescent s → lastReported s = some s.size) :=
  ⟨fresh_init z, fun _ hr => listenerOk_reachable hr,
   fun _ _ _ hr hs hst => ⟨fun hf => fresh_step hs (listenerOk_reachable hr) hf hst,
     fun hl => fresh_established hs (listenerOk_reachable hr) hl hst⟩,
   fun _ hf hq => fresh_quiescent hf hq⟩

/-- **NO RESIZE IS LOST.**  From ANY state `t` (whatever the listener and the checkers are doing,
whether a signal is already pending or not): after a resize to `sz` and any continuation `post`
without a further resize, the size is still `sz` and its report is owed (`Owed`: a signal is
pending, or the listener / a checker is about to query or holds `sz`, or `sz` has been delivered
since); hence in a quiescent end state `sz` is among the reports delivered AFTER the resize. -/
theorem C18_no_resize_lost (t s : St) (sz : Size) (post : List Label)
    (hrun : runLabels t (.resize sz :: post) = some s) (hnr : ∀ l ∈ post, l.isResize = false) :
    s.size = sz ∧ Owed t.reported sz s ∧
    (Quiescent s → ∃ extra, s.reported = t.reported ++ extra ∧ sz ∈ extra) := by
  obtain ⟨t1, h1, h2⟩ := runLabels_cons hrun
  simp only [step, Option.some.injEq] at h1
  subst h1
  obtain ⟨ho, hsz⟩ := owed_run h2 hnr rfl (owed_after_resize t sz)
  exact ⟨hsz, ho, fun hq => owed_quiescent ho hq⟩

/-- **START-UP.**  In a run without any resize the size stays the initial one and, once
quiescent, it has been reported (the start-up checker's report is one that carries it). -/
theorem C18_startup_reported (z : Size) (ls : List Label) (s : St)
    (hrun : runLabels (init z) ls = some s) (hnr : ∀ l ∈ ls, l.isResize = false) :
    s.size = z ∧ (Quiescent s → z ∈ s.reported) := by
  obtain ⟨ho, hsz⟩ := owed_run (sz := z) hrun hnr rfl (owed_init z)
  refine ⟨hsz, fun hq => ?_⟩
  obtain ⟨extra, he, hm⟩ := owed_quiescent ho hq
  rw [he]; simpa using hm

/-- **... AND THE LAST REPORT IS THE TRUE SIZE**, in every quiescent state (nothing pending, the
listener waiting, no checker in flight, not cancelled) reached by a run in which no checker
delivered a size that was stale at its delivery (`raceFree`). -/
theorem C18_quiescent_last_is_true (z : Size) (ls : List Label) (s : St)
    (hrun : runLabels (init z) ls = some s) (hrf : raceFree (init z) ls = true)
    (hq : Quiescent s) : lastReported s = some s.size :=
  fresh_quiescent (fresh_run hrun (listenerOk_init z) (fresh_init z) hrf) hq

/-- ... exactly: whatever happened before, a quiescent state's last report is the true size
UNLESS the step that led to it was a stale delivery by a checker. -/
theorem C18_quiescent_last_step (z : Size) (ls : List Label) (t s : St) (l : Label)
    (hrun : runLabels (init z) ls = some t) (hs : step t l = some s) (hq : Quiescent s) :
    lastReported s = some s.size ∨ staleDelivery t l = true := by
  cases hst : staleDelivery t l with
  | true => exact Or.inr rfl
  | false =>
    refine Or.inl (fresh_quiescent (fresh_established hs
      (listenerOk_reachable (reachable_of_run hrun)) ?_ hst) hq)
    intro hl
    subst hl
    simp only [step, Option.some.injEq] at hs
    subst hs
    exact absurd hq.2.2.2 (by simp)

/-- **THE RACE** (the reason for `raceFree`; by evaluation).  80x24 at start-up; the start-up
checker reads 80x24; the terminal is resized to 100x30; the listener takes the signal, reads
100x30 and delivers it; THEN the start-up checker delivers its 80x24.  Everything is quiescent,
Update's last WindowSizeMsg is 80x24, the terminal is 100x30 - and nothing will correct it until
the next resize.  The same with a checker started by a WindowSize command. -/
theorem C18_stale_checker_race :
    (runLabels (init (80, 24))
      [.query (some 0), .resize (100, 30), .take, .query none, .deliver none,
       .deliver (some 0)]).map (fun s => (decide (Quiescent s), s.reported, s.size))
      = some (true, [(100, 30), (80, 24)], (100, 30)) ∧
    (runLabels (init (80, 24))
      [.query (some 0), .deliver (some 0), .windowSizeCmd, .query (some 0), .resize (100, 30),
       .take, .query none, .deliver none,
       .deliver (some 0)]).map (fun s => (decide (Quiescent s), s.reported, s.size))
      = some (true, [(80, 24), (100, 30), (80, 24)], (100, 30)) := by decide

/-- **QUIESCENCE CAN BE REACHED.**  From every reachable state that is not cancelled, exactly
`rank s ≤ 2·(checkers in flight) + 5` internal steps (`take` / `query` / `deliver`; each enabled
in turn, no help from the environment) lead to a quiescent state, with the size unchanged; there
the true size has been reported, and it is the LAST report if a report by the listener was
still to come (a signal pending, the listener querying or holding the current size).  So under
a fair scheduler and with no further resize the true size IS reported. -/
theorem C18_can_quiesce (z : Size) (s : St) (hr : Reachable z s) (hn : s.cancelled = false) :
    ∃ ps s', (∀ l ∈ ps, l.isInternal = true) ∧ ps.length = rank s ∧
      rank s ≤ 2 * s.checkers.length + 5 ∧
      runLabels s ps = some s' ∧ Quiescent s' ∧ s'.size = s.size ∧ s.size ∈ s'.reported ∧
      ((s.pending = true ∨ s.listener = .querying ∨ s.listener = .sending s.size) →
        lastReported s' = some s.size) := by
  obtain ⟨ps, s', p1, p2, p3, p4, p5, p6⟩ := quiesce s hn
  obtain ⟨base, ho⟩ := owed_reachable hr
  obtain ⟨ho', _⟩ := owed_run p3 (internal_not_resize p1) rfl ho
  obtain ⟨extra, he, hm⟩ := owed_quiescent ho' p4
  exact ⟨ps, s', p1, p2, rank_le s, p3, p4, p5,
    by rw [he]; exact List.mem_append_right _ hm, p6⟩

/-- **A RESIZE GETS REPORTED, LAST.**  After a resize to `sz` in any state that is not
cancelled, at most `2·(checkers in flight) + 5` internal steps lead to a quiescent state whose
LAST report is `sz`, the true size. -/
theorem C18_resize_gets_reported (t : St) (sz : Size) (hn : t.cancelled = false) :
    ∃ t1 ps s, step t (.resize sz) = some t1 ∧ (∀ l ∈ ps, l.isInternal = true) ∧
      ps.length ≤ 2 * t.checkers.length + 5 ∧ runLabels t1 ps = some s ∧ Quiescent s ∧
      s.size = sz ∧ lastReported s = some sz := by
  obtain ⟨ps, s, p1, p2, p3, p4, p5, p6⟩ := quiesce { t with size := sz, pending := true } hn
  exact ⟨_, ps, s, rfl, p1, by rw [p2]; exact rank_le _, p3, p4, p5, p6 (Or.inl rfl)⟩

/-- **EVERY COMMAND IS ANSWERED, EXACTLY ONCE.**  In every run from start-up: (1) the reports
delivered plus the goroutines that still owe one are exactly 1 (start-up) + the listener's takes
+ the WindowSize commands; (2) a take needs a signal: takes (+1 if a signal is pending) ≤ resizes;
(3) so once quiescent the number of WindowSizeMsgs Update received is exactly
1 + takes + commands - one for start-up, one for each signal taken, one for each command, none
besides -, at most 1 + resizes + commands; (4) a command adds exactly one goroutine owing a
report and delivers nothing itself. -/
theorem C18_every_command_answered (z : Size) (ls : List Label) (s : St)
    (hrun : runLabels (init z) ls = some s) :
    inFlight s + s.reported.length = 1 + takes ls + commands ls ∧
    takes ls + (if s.pending then 1 else 0) ≤ resizes ls ∧
    (Quiescent s → s.reported.length = 1 + takes ls + commands ls ∧
      s.reported.length ≤ 1 + resizes ls + commands ls) ∧
    (∀ s1, step s .windowSizeCmd = some s1 →
      inFlight s1 = inFlight s + 1 ∧ s1.reported = s.reported) := by
  have h1 := count_run hrun
  have h2 := signal_run hrun
  have e1 : inFlight (init z) = 1 := rfl
  have e2 : (init z).reported.length = 0 := rfl
  have e3 : (init z).pending = false := rfl
  rw [e1, e2] at h1
  rw [e3] at h2
  simp only [Bool.false_eq_true, if_false] at h2
  refine ⟨by omega, by omega, ?_, ?_⟩
  · intro ⟨_, q2, q3, _⟩
    have : inFlight s = 0 := by simp [inFlight, q2, q3]
    omega
  · intro s1 hs1
    have := count_step hs1
    simp only [step] at hs1
    split at hs1
    · cases hs1
      simp only [takes, commands] at this
      simp only [inFlight, List.length_append, List.length_singleton, and_true]
      omega
    · cases hs1

/-- **COALESCING IS SAFE.**  From ANY state `t`: (1) two resizes in a row leave exactly the state
one resize to the last size leaves - one signal, not two; and a resize while a signal is
already pending raises none at all.  After them, for every continuation `post` without a further
resize: (2) the listener takes at most ONE signal; in a quiescent end state (3) it took exactly
one, (4) the last size `b` is among the reports delivered since, and (5) it is the LAST report
if no checker delivered late.  (6) And such an end state can be reached: at most
`2·(checkers in flight) + 5` internal steps, last report `b`. -/
theorem C18_coalescing_is_safe (t : St) (a b : Size) :
    (runLabels t [.resize a, .resize b] = some { t with size := b, pending := true } ∧
     runLabels t [.resize a, .resize b] = runLabels t [.resize b] ∧
     (t.pending = true → step t (.resize b) = some { t with size := b })) ∧
    (∀ post s, runLabels t (.resize a :: .resize b :: post) = some s →
      (∀ l ∈ post, l.isResize = false) →
      takes post ≤ 1 ∧ s.size = b ∧
      (Quiescent s → takes post = 1 ∧ (∃ extra, s.reported = t.reported ++ extra ∧ b ∈ extra) ∧
        (raceFree { t with size := b, pending := true } post = true →
          lastReported s = some b))) ∧
    (t.cancelled = false → ∃ ps s, (∀ l ∈ ps, l.isInternal = true) ∧
      ps.length ≤ 2 * t.checkers.length + 5 ∧
      runLabels t (.resize a :: .resize b :: ps) = some s ∧ Quiescent s ∧ s.size = b ∧
      lastReported s = some b) := by
  refine ⟨⟨rfl, rfl, ?_⟩, ?_, ?_⟩
  · intro hp
    simp only [step]
    rw [← hp]
  · intro post s hrun hnr
    have hrun' : runLabels { t with size := b, pending := true } post = some s := hrun
    have hsig := signal_run hrun'
    have htk := taken_run hrun'
    rw [resizes_eq_zero hnr] at hsig
    obtain ⟨ho, hsz⟩ := owed_run hrun' hnr rfl (owed_after_resize t b)
    refine ⟨?_, hsz, ?_⟩
    · simp only [if_true] at hsig; omega
    · intro hq
      refine ⟨?_, owed_quiescent ho hq, ?_⟩
      · rcases htk (Or.inl rfl) with h | h
        · rw [hq.1] at h; cases h
        · simp only [if_true] at hsig; omega
      · intro hrf
        have hok : ListenerOk { t with size := b, pending := true } := fun _ _ _ => rfl
        have := fresh_quiescent (fresh_run hrun' hok (Or.inl rfl) hrf) hq
        rw [hsz] at this; exact this
  · intro hn
    obtain ⟨ps, s, p1, p2, p3, p4, p5, p6⟩ := quiesce { t with size := b, pending := true } hn
    exact ⟨ps, s, p1, by rw [p2]; exact rank_le _, p3, p4, p5, p6 (Or.inl rfl)⟩

/-- coalescing, a concrete run (by evaluation): the start-up report of 80x24; a resize to 100x30
whose signal the listener takes; while the listener is busy querying, two more resizes (120x40,
90x20) raise ONE signal; the listener reports 90x20 (what it read), takes that signal and reports
90x20 again.  3 resizes, 2 takes, 3 reports = 1 + 2 takes + 0 commands; the last report is the true
size; no checker delivered late. -/
theorem C18_coalescing_example :
    let run : List Label :=
      [.query (some 0), .deliver (some 0), .resize (100, 30), .take, .resize (120, 40),
       .resize (90, 20), .query none, .deliver none, .take, .query none, .deliver none]
    (runLabels (init (80, 24)) run).map
        (fun s => (decide (Quiescent s), s.reported, s.size, lastReported s))
      = some (true, [(80, 24), (90, 20), (90, 20)], (90, 20), some (90, 20)) ∧
    (runLabels (init (80, 24)) (run.take 6)).map (fun s => (s.pending, s.listener))
      = some (true, .querying) ∧
    resizes run = 3 ∧ takes run = 2 ∧ commands run = 0 ∧ raceFree (init (80, 24)) run = true := by
  decide

/-- **NEGATIVE: A LISTENER THAT DRAINS LOSES A RESIZE** (by evaluation).  In the variant
`stepDrain` - the listener empties its channel once more after each `checkResize` - this run
ends quiescent with the last report 100x30 and the terminal at 120x40: the resize that arrived
between the listener's `GetSize` and its `Send` is lost for good, and no checker was involved
(the run is `raceFree`).  Under the real `step` the same labels leave the signal pending
(`Fresh`), and the listener's next round (three more steps) reports 120x40. -/
theorem C18_drain_loses_resize :
    let run : List Label :=
      [.query (some 0), .deliver (some 0), .resize (100, 30), .take, .query none,
       .resize (120, 40), .deliver none]
    (runLabelsDrain (init (80, 24)) run).map
        (fun s => (decide (Quiescent s), lastReported s, s.size))
      = some (true, some (100, 30), (120, 40)) ∧
    raceFree (init (80, 24)) run = true ∧
    (runLabels (init (80, 24)) run).map (fun s => (decide (Quiescent s), s.pending))
      = some (false, true) ∧
    (runLabels (init (80, 24)) (run ++ [.take, .query none, .deliver none])).map
        (fun s => (decide (Quiescent s), lastReported s, s.size))
      = some (true, some (120, 40), (120, 40)) := by decide

/-- **THE RENDERER HAS THE LAST REPORTED SIZE.**  Feeding the renderer the window-size messages
Update received, in order (each is `ROp.size`, `C18_size_adopted`), leaves it with the LAST one -
the size every later frame is clipped to (`C18_clip_latest`).  With
`C18_quiescent_last_is_true`: in a quiescent state of a race-free run the renderer clips to the
terminal's true size. -/
theorem C18_renderer_has_last_reported (r : Tea.Render.RState) (sizes : List Size) (w h : Nat)
    (hl : sizes.getLast? = some (w, h)) :
    (sizes.foldl (fun r sz => (Tea.Render.step r (.size sz.1 sz.2)).1) r).width = w ∧
    (sizes.foldl (fun r sz => (Tea.Render.step r (.size sz.1 sz.2)).1) r).height = h := by
  obtain ⟨ys, rfl⟩ := List.getLast?_eq_some_iff.1 hl
  simp only [List.foldl_append, List.foldl_cons, List.foldl_nil]
  exact ⟨rfl, rfl⟩

end Tea.Props.C18

/-! ### 9. window-size reporting AFTER the repair: size queries are serialised by a mutex

The current code (tty.go):

    func (p *Program) checkResize() {
        if p.ttyOutput == nil { return }
        p.resizeMu.Lock(); defer p.resizeMu.Unlock()
        w, h, err := term.GetSize(fd); ...
        p.Send(WindowSizeMsg{w, h})
    }

The model is `stepL` / `runLabelsL` / `ReachableL` of `Tea/Runtime/Resize.lean`: the state and
the labels of section 8, every step as there, except that a `query` step (of the listener or of
a checker) is enabled only while the mutex is free - `mutexHeld`: the program is not cancelled
and some goroutine is in its `sending` phase, between its query and its delivery.  (A goroutine
that is sending when the program is cancelled returns from `Send` and releases the mutex; the
model keeps its `sending` entry but does not count it as holding the mutex.  Nothing is delivered
after cancellation; `Quiescent` and the theorems on the order of reports are about states that
are not cancelled - `cancelled` is never reset, so such a run has no cancelled state at all.)
Helper lemmas: `Tea/Proofs/ResizeLocked.lean`.

START-UP.  Like section 8, this section starts at `init z`: the listener is subscribed to
SIGWINCH from the first instant (every `resize` raises the signal) and one start-up checker is in
flight.  The subscription itself (`signal.Notify`, a step of the listener goroutine; a resize
before it raises no signal) and the start-up of the current code (the listener subscribes, THEN
performs the initial query itself) are the layer of section 10 on top of `stepL`; the theorems of
this section are used there from the subscription on.

What the repair buys: `C18_quiescent_last_is_true` without `raceFree`
(`C18L_quiescent_last_is_true`); `Fresh` along EVERY step (`C18L_fresh_inductive`); the
reports are the sizes read by the queries, in the order of the queries
(`C18L_reports_in_query_order`); the two runs of `C18_stale_checker_race` are not runs any more
(`C18L_race_excluded`). -/
namespace Tea.Props.C18
open Tea.Runtime.Resize

/-- **THE REPAIRED MODEL REFINES THE OLD ONE**: a step of `stepL` is a step of `step` (and a
`query` step found the mutex free), a run is a run, a reachable state is reachable - so every
theorem of section 8 about all runs / all reachable states holds for the repaired model. -/
theorem C18L_refines :
    (∀ s l s', stepL s l = some s' →
      step s l = some s' ∧ (∀ who, l = .query who → mutexHeld s = false)) ∧
    (∀ s ls s', runLabelsL s ls = some s' → runLabels s ls = some s') ∧
    (∀ z s, ReachableL z s → Reachable z s) ∧
    (∀ s who, mutexHeld s = true → stepL s (.query who) = none) ∧
    (∀ s l, (∀ who, l ≠ .query who) → stepL s l = step s l) ∧
    (∀ s who, mutexHeld s = false → stepL s (.query who) = step s (.query who)) := by
  refine ⟨fun _ _ _ h => stepL_step h, fun _ _ _ h => runLabels_of_runLabelsL h,
    fun _ _ h => reachable_of_reachableL h, fun _ who h => stepL_query_of_held who h, ?_,
    fun _ who h => stepL_query_of_free who h⟩
  intro s l hl
  cases l with
  | query who => exact absurd rfl (hl who)
  | _ => rfl

/-- **MUTUAL EXCLUSION.**  In every reachable state of the repaired model that is not cancelled
at most ONE goroutine (the listener or one checker) is between its query and its delivery. -/
theorem C18L_mutex (z : Size) (s : St) (hr : ReachableL z s) (hn : s.cancelled = false) :
    (sendingNow s).length ≤ 1 := by
  obtain ⟨ls, hrun⟩ := exists_run_of_reachableL hr
  exact (order_run hrun hn (by simp [sendingNow, lSending, cSending, init])).1

/-- **THE LAST REPORT IS THE TRUE SIZE**, in EVERY quiescent state (nothing pending, the
listener waiting, no checker in flight, not cancelled) of EVERY run of the repaired model - no
race-freedom hypothesis. -/
theorem C18L_quiescent_last_is_true (z : Size) (ls : List Label) (s : St)
    (hrun : runLabelsL (init z) ls = some s) (hq : Quiescent s) :
    lastReported s = some s.size :=
  fresh_quiescent (freshL_run hrun (senderOk_init z) (fresh_init z)) hq

/-- **THE REPORTS ARE THE SIZES QUERIED, IN THE ORDER OF THE QUERIES.**  For every run of the
repaired model from start-up whose end state is not cancelled: the sizes Update received
(`reported`), followed by the size held by the one goroutine that is between query and delivery
(`sendingNow`: at most one), are EXACTLY the sizes read by the `query` steps of the run, in the
order of these steps (`queriedL`: `t.size` for every step `query who` taken in state `t`).  So no
report overtakes another; once quiescent every query has been delivered, exactly once and in
order; and the `k`-th report is the size read by the `k`-th query step. -/
theorem C18L_reports_in_query_order (z : Size) (ls : List Label) (s : St)
    (hrun : runLabelsL (init z) ls = some s) (hn : s.cancelled = false) :
    s.reported ++ sendingNow s = queriedL (init z) ls ∧
    (sendingNow s).length ≤ 1 ∧
    (Quiescent s → s.reported = queriedL (init z) ls) ∧
    (∀ (k : Nat) (sz : Size), s.reported[k]? = some sz →
      (queriedL (init z) ls)[k]? = some sz) := by
  obtain ⟨h1, h2⟩ := order_run hrun hn (by simp [sendingNow, lSending, cSending, init])
  have h0 : (init z).reported ++ sendingNow (init z) = [] := by
    simp [sendingNow, lSending, cSending, init]
  rw [h0, List.nil_append] at h2
  refine ⟨h2, h1, ?_, ?_⟩
  · intro ⟨_, q2, q3, _⟩
    have : sendingNow s = [] := by simp [sendingNow, lSending, cSending, q2, q3]
    rw [← h2, this, List.append_nil]
  · intro k sz hk
    rw [← h2, List.getElem?_append_left (lt_of_getElem? hk)]
    exact hk

/-- **THE INVARIANT `Fresh`, ALONG EVERY STEP.**  `Fresh` ("a signal is pending, or the listener
/ a checker is about to query, or is handing over the CURRENT size, or the last report IS the
current size"; the definition of section 8) holds at start-up; every reachable state of the
repaired model satisfies `SenderOk` (a goroutine holding a stale size - it holds the mutex - has
the listener coming after it: the signal is pending, or the listener has taken it and waits for
the mutex), which is itself inductive; `Fresh` is preserved by EVERY step of the repaired model,
the late deliveries by checkers included; in fact every step other than `cancel` ESTABLISHES it;
so it holds in every reachable state; and in a quiescent state it says that the last report is
the true size. -/
theorem C18L_fresh_inductive (z : Size) :
    Fresh (init z) ∧ SenderOk (init z) ∧
    (∀ s l s', stepL s l = some s' → SenderOk s → SenderOk s') ∧
    (∀ s, ReachableL z s → SenderOk s) ∧
    (∀ s l s', SenderOk s → stepL s l = some s' →
      (Fresh s → Fresh s') ∧ (l ≠ .cancel → Fresh s')) ∧
    (∀ s, ReachableL z s → Fresh s) ∧
    (∀ s, Fresh s → Quiescent s → lastReported s = some s.size) :=
  ⟨fresh_init z, senderOk_init z, fun _ _ _ hs hok => senderOk_stepL hs hok,
   fun _ hr => senderOk_reachableL hr,
   fun _ _ _ hok hs => ⟨fun hf => freshL_step hs hok hf, fun hl => freshL_established hs hok hl⟩,
   fun _ hr => fresh_reachableL hr,
   fun _ hf hq => fresh_quiescent hf hq⟩

/-- **QUIESCENCE CAN BE REACHED.**  From every reachable state of the repaired model that is not
cancelled, exactly `rank s ≤ 2·(checkers in flight) + 5` internal steps of the repaired model
(`take` / `query` / `deliver`: the holder of the mutex delivers, then the goroutines query and
deliver one after the other; each step enabled in turn, no help from the environment) lead to a
quiescent state with the size unchanged, and there the LAST report is the true size -
unconditionally (section 8 needed "a report by the listener is still to come" for that). -/
theorem C18L_can_quiesce (z : Size) (s : St) (hr : ReachableL z s) (hn : s.cancelled = false) :
    ∃ ps s', (∀ l ∈ ps, l.isInternal = true) ∧ ps.length = rank s ∧
      rank s ≤ 2 * s.checkers.length + 5 ∧
      runLabelsL s ps = some s' ∧ Quiescent s' ∧ s'.size = s.size ∧
      lastReported s' = some s.size := by
  obtain ⟨ps, s', p1, p2, p3, p4, p5⟩ := quiesceL (rank s) s rfl hn
  have hf := freshL_run p3 (senderOk_reachableL hr) (fresh_reachableL hr)
  exact ⟨ps, s', p1, p2, rank_le s, p3, p4, p5, by rw [← p5]; exact fresh_quiescent hf p4⟩

/-- **A RESIZE GETS REPORTED, LAST.**  After a resize to `sz` in any reachable state of the
repaired model that is not cancelled, at most `2·(checkers in flight) + 5` internal steps lead
to a quiescent state whose LAST report is `sz`, the true size; and EVERY quiescent state
reached after that resize without a further one has `sz` as its last report. -/
theorem C18L_resize_gets_reported (z : Size) (t : St) (sz : Size) (hr : ReachableL z t)
    (hn : t.cancelled = false) :
    (∃ t1 ps s, stepL t (.resize sz) = some t1 ∧ (∀ l ∈ ps, l.isInternal = true) ∧
      ps.length ≤ 2 * t.checkers.length + 5 ∧ runLabelsL t1 ps = some s ∧ Quiescent s ∧
      s.size = sz ∧ lastReported s = some sz) ∧
    (∀ post s, runLabelsL t (.resize sz :: post) = some s →
      (∀ l ∈ post, l.isResize = false) → Quiescent s →
      s.size = sz ∧ lastReported s = some sz) := by
  have hr1 : ReachableL z { t with size := sz, pending := true } :=
    ReachableL.step (.resize sz) hr rfl
  refine ⟨?_, ?_⟩
  · obtain ⟨ps, s, p1, p2, _, p3, p4, p5, p6⟩ :=
      C18L_can_quiesce z { t with size := sz, pending := true } hr1 hn
    exact ⟨_, ps, s, rfl, p1, by rw [p2]; exact rank_le _, p3, p4, p5, p6⟩
  · intro post s hrun hnr hq
    have hsz := (C18_no_resize_lost t s sz post (runLabels_of_runLabelsL hrun) hnr).1
    have hf := fresh_reachableL (reachableL_runLabelsL _ hr hrun)
    exact ⟨hsz, by rw [← hsz]; exact fresh_quiescent hf hq⟩

/-- **EVERY COMMAND IS ANSWERED, EXACTLY ONCE** - the counting theorem for the repaired model.
In every run from start-up: (1) the reports delivered plus the goroutines that still owe one are
exactly 1 (start-up) + the listener's takes + the WindowSize commands; (2) a take needs a signal:
takes (+1 if a signal is pending) ≤ resizes; (3) so once quiescent the number of WindowSizeMsgs
Update received is exactly 1 + takes + commands, at most 1 + resizes + commands, (3') and it is
the number of `query` steps of the run - every size read is delivered exactly once; (4) a command
adds exactly one goroutine owing a report and delivers nothing itself; (5) the mutex makes no
goroutine wait for ever: a command's checker, like everything else in flight, is answered
within `rank` internal steps (`C18L_can_quiesce`). -/
theorem C18L_every_command_answered (z : Size) (ls : List Label) (s : St)
    (hrun : runLabelsL (init z) ls = some s) :
    inFlight s + s.reported.length = 1 + takes ls + commands ls ∧
    takes ls + (if s.pending then 1 else 0) ≤ resizes ls ∧
    (Quiescent s → s.reported.length = 1 + takes ls + commands ls ∧
      s.reported.length ≤ 1 + resizes ls + commands ls ∧
      s.reported.length = (queriedL (init z) ls).length) ∧
    (∀ s1, stepL s .windowSizeCmd = some s1 →
      inFlight s1 = inFlight s + 1 ∧ s1.reported = s.reported) := by
  obtain ⟨h1, h2, h3, h4⟩ := C18_every_command_answered z ls s (runLabels_of_runLabelsL hrun)
  refine ⟨h1, h2, ?_, fun s1 hs1 => h4 s1 hs1⟩
  intro hq
  obtain ⟨a, b⟩ := h3 hq
  refine ⟨a, b, ?_⟩
  rw [← (C18L_reports_in_query_order z ls s hrun hq.2.2.2).2.2.1 hq]

/-- **THE RACE IS EXCLUDED** (by evaluation).  The two runs of `C18_stale_checker_race` are NOT
runs of the repaired model: after the start-up checker (resp. the command's checker) has read
80x24 it holds the mutex, the listener takes the signal of the resize to 100x30 and then WAITS -
its `query` step is not enabled (`stepL … = none`) until the checker has delivered.  The
corresponding serialised runs (the checker delivers, then the listener queries and delivers)
end quiescent with the true size 100x30 as the last report. -/
theorem C18L_race_excluded :
    -- the two runs of the counterexample are not runs any more
    runLabelsL (init (80, 24))
      [.query (some 0), .resize (100, 30), .take, .query none, .deliver none,
       .deliver (some 0)] = none ∧
    runLabelsL (init (80, 24))
      [.query (some 0), .deliver (some 0), .windowSizeCmd, .query (some 0), .resize (100, 30),
       .take, .query none, .deliver none, .deliver (some 0)] = none ∧
    -- the step that is blocked is the listener's query, while the checker holds the mutex
    (runLabelsL (init (80, 24)) [.query (some 0), .resize (100, 30), .take]).map
        (fun s => (mutexHeld s, s.listener, stepL s (.query none), sendingNow s))
      = some (true, .querying, none, [(80, 24)]) ∧
    (runLabelsL (init (80, 24))
      [.query (some 0), .deliver (some 0), .windowSizeCmd, .query (some 0), .resize (100, 30),
       .take]).map (fun s => (mutexHeld s, s.listener, stepL s (.query none), sendingNow s))
      = some (true, .querying, none, [(80, 24)]) ∧
    -- the serialised runs end with the true size
    (runLabelsL (init (80, 24))
      [.query (some 0), .resize (100, 30), .take, .deliver (some 0), .query none,
       .deliver none]).map (fun s => (decide (Quiescent s), s.reported, s.size, lastReported s))
      = some (true, [(80, 24), (100, 30)], (100, 30), some (100, 30)) ∧
    (runLabelsL (init (80, 24))
      [.query (some 0), .deliver (some 0), .windowSizeCmd, .query (some 0), .resize (100, 30),
       .take, .deliver (some 0), .query none,
       .deliver none]).map (fun s => (decide (Quiescent s), s.reported, s.size, lastReported s))
      = some (true, [(80, 24), (80, 24), (100, 30)], (100, 30), some (100, 30)) ∧
    -- and their reports are the sizes queried, in order
    queriedL (init (80, 24))
      [.query (some 0), .deliver (some 0), .windowSizeCmd, .query (some 0), .resize (100, 30),
       .take, .deliver (some 0), .query none, .deliver none]
      = [(80, 24), (80, 24), (100, 30)] :=
  ⟨by decide, by decide, by decide, by decide, by decide, by decide, by decide⟩

/-- the mutex also serialises two checkers (by evaluation): with the start-up checker and a
command's checker in flight, once one has queried the other's `query` is blocked; after
cancellation the blocked goroutine may go on (the cancelled sender has left `Send` and released
the mutex), and nothing is delivered any more. -/
theorem C18L_checkers_serialised :
    runLabelsL (init (80, 24)) [.windowSizeCmd, .query (some 1), .query (some 0)] = none ∧
    (runLabelsL (init (80, 24))
      [.windowSizeCmd, .query (some 1), .resize (100, 30), .deliver (some 1), .query (some 0),
       .deliver (some 0)]).map (fun s => (s.reported, s.size, s.pending))
      = some ([(80, 24), (100, 30)], (100, 30), true) ∧
    (runLabelsL (init (80, 24))
      [.windowSizeCmd, .query (some 1), .cancel, .query (some 0)]).map
        (fun s => (mutexHeld s, sendingNow s, stepL s (.deliver (some 0)), s.reported))
      = some (false, [(80, 24), (80, 24)], none, []) := by decide

/-- **THE RENDERER CLIPS TO THE TRUE SIZE** once the size reporting has settled: feeding the
renderer the WindowSizeMsgs of ANY run of the repaired model that ends quiescent leaves it with
the terminal's true size (`C18_renderer_has_last_reported` with `C18L_quiescent_last_is_true`;
no race-freedom hypothesis). -/
theorem C18L_renderer_has_true_size (r : Tea.Render.RState) (z : Size) (ls : List Label)
    (s : St) (hrun : runLabelsL (init z) ls = some s) (hq : Quiescent s) :
    (s.reported.foldl (fun r sz => (Tea.Render.step r (.size sz.1 sz.2)).1) r).width = s.size.1 ∧
    (s.reported.foldl (fun r sz => (Tea.Render.step r (.size sz.1 sz.2)).1) r).height
      = s.size.2 :=
  C18_renderer_has_last_reported r s.reported s.size.1 s.size.2
    (C18L_quiescent_last_is_true z ls s hrun hq)

end Tea.Props.C18

/-! ### 10. start-up: subscription before the first query

Sections 8 and 9 assume that the listener is subscribed to SIGWINCH from the first instant.  The
real start-up was

    handleResize():      go p.checkResize()            -- the start-up query, a goroutine of its own
                         go p.listenForResize(done)    -- sig := make(chan, 1); signal.Notify(sig, SIGWINCH); loop

so a resize AFTER the start-up query had read the size and BEFORE `signal.Notify` raised a signal
nobody was subscribed to - the Go runtime ignores SIGWINCH then -, and the stale size stayed the
last one reported until the next resize (`C18S_resize_before_subscription_lost`; reproduced on
the real code).  The code is now

    handleResize():      go p.listenForResize(done)
    listenForResize():   sig := make(chan, 1); signal.Notify(sig, SIGWINCH)
                         p.checkResize()               -- the initial size, AFTER the subscription
                         loop as before

The model is the START-UP LAYER at the end of `Tea/Runtime/Resize.lean`, on top of the repaired
core `stepL` of section 9, whose state, labels and steps are untouched: `StS` adds the flag
`subscribed`, `LabelS` the listener's step `subscribe` (internal); a `resize` while nobody is
subscribed changes the size and raises no signal (`resizeUnsub`), every other step of the core is
`stepL` (`C18S_layer`).  `stepOldS` / `initOldS` is the start-up before the repair (`subscribe`
only sets the flag; the start-up checker of `init` is in flight), `stepNewS` / `initNewS` the
current one (no start-up checker; `subscribe` puts the listener into `querying`: its initial
query, under the mutex like every other).  `QuiescentS`: subscribed, and the core is `Quiescent`.
WindowSize commands may start checkers before the subscription - they are ordinary checkers.
Helper lemmas: `Tea/Proofs/ResizeStartup.lean`.

What holds for the current start-up, for EVERY history of resizes - those before the subscription
included: in every reachable `QuiescentS` state the last report is the true size
(`C18S_quiescent_last_is_true`, by the invariant `StartupInv`, `C18S_startup_inductive`); such a
state can be reached from every reachable state that is not cancelled (`C18S_can_quiesce`,
`C18S_resize_gets_reported`); the listener does nothing before it is subscribed
(`C18S_first_report_after_subscription`); and the counting of section 9 with the listener's
initial report in the place of the start-up checker's (`C18S_every_command_answered`). -/
namespace Tea.Props.C18
open Tea.Runtime.Resize

/-- **THE LAYER IS `stepL` PLUS THE SUBSCRIPTION** (both start-ups).  Once subscribed, a step of
the core is exactly a step of the repaired model of section 9; before, the same except that a
resize only changes the size (no signal: `pending` is not touched); `subscribe` is enabled
exactly when not subscribed and not cancelled, and in the current start-up it makes the listener
`querying`. -/
theorem C18S_layer :
    (∀ c l, stepNewS ⟨c, true⟩ (.core l) = (stepL c l).map (fun c' => ⟨c', true⟩)) ∧
    (∀ c l, stepOldS ⟨c, true⟩ (.core l) = (stepL c l).map (fun c' => ⟨c', true⟩)) ∧
    (∀ c l, l.isResize = false →
      stepNewS ⟨c, false⟩ (.core l) = (stepL c l).map (fun c' => ⟨c', false⟩) ∧
      stepOldS ⟨c, false⟩ (.core l) = (stepL c l).map (fun c' => ⟨c', false⟩)) ∧
    (∀ c sz, stepNewS ⟨c, false⟩ (.core (.resize sz)) = some ⟨{ c with size := sz }, false⟩ ∧
      stepOldS ⟨c, false⟩ (.core (.resize sz)) = some ⟨{ c with size := sz }, false⟩) ∧
    (∀ s : StS, (stepNewS s .subscribe).isSome = (!s.subscribed && !s.core.cancelled) ∧
      (stepOldS s .subscribe).isSome = (!s.subscribed && !s.core.cancelled)) ∧
    (∀ s s', stepNewS s .subscribe = some s' →
      s' = ⟨{ s.core with listener := .querying }, true⟩) ∧
    (∀ s s', stepOldS s .subscribe = some s' → s' = ⟨s.core, true⟩) := by
  refine ⟨?_, ?_, ?_, fun _ _ => ⟨rfl, rfl⟩, ?_, ?_, ?_⟩
  · intro c l
    simp only [stepNewS, coreStep_true]
    cases stepL c l <;> rfl
  · intro c l
    simp only [stepOldS, coreStep_true]
    cases stepL c l <;> rfl
  · intro c l hl
    simp only [stepNewS, stepOldS, coreStep_of_not_resize false c hl]
    cases stepL c l <;> exact ⟨rfl, rfl⟩
  · intro ⟨c, sub⟩
    cases sub <;> cases hc : c.cancelled <;> simp [stepNewS, stepOldS, hc]
  · intro s s' h
    rcases stepNewS_cases h with ⟨_, _, _, rfl⟩ | ⟨_, _, hh, _⟩
    · rfl
    · cases hh
  · intro s s' h
    rcases stepOldS_cases h with ⟨_, _, _, rfl⟩ | ⟨_, _, hh, _⟩
    · rfl
    · cases hh

/-- **A RESIZE BEFORE THE SUBSCRIPTION WAS LOST** - the start-up BEFORE the repair (by
evaluation).  80x24 at start-up; the start-up checker reads 80x24; the terminal is resized to
100x30 while the listener has not called `signal.Notify` yet: no signal; the listener subscribes;
the checker delivers its 80x24.  Everything is quiescent - subscribed, no signal pending, the
listener waiting, no checker in flight, not cancelled -, Update's last (and only) WindowSizeMsg
is 80x24, the terminal is 100x30, and nothing will correct it until the next resize.  The mutex
of section 9 does not help: one goroutine queried. -/
theorem C18S_resize_before_subscription_lost :
    (runLabelsOldS (initOldS (80, 24))
      [.core (.query (some 0)), .core (.resize (100, 30)), .subscribe,
       .core (.deliver (some 0))]).map
        (fun s => (decide (QuiescentS s), s.core.cancelled, lastReported s.core, s.core.size))
      = some (true, false, some (80, 24), (100, 30)) ∧
    -- the same resize one step later, after the subscription, is reported
    (runLabelsOldS (initOldS (80, 24))
      [.core (.query (some 0)), .subscribe, .core (.resize (100, 30)),
       .core (.deliver (some 0)), .core .take, .core (.query none), .core (.deliver none)]).map
        (fun s => (decide (QuiescentS s), lastReported s.core, s.core.size))
      = some (true, some (100, 30), (100, 30)) := ⟨by decide, by decide⟩

/-- **THE INVARIANT OF THE CURRENT START-UP** (`StartupInv`): before the subscription the listener
has done nothing - it is waiting and no signal is in its channel -; from the subscription on
`Fresh` and `SenderOk` (section 9) hold.  It holds initially, is preserved by every step - at
`subscribe` the listener becomes `querying`, which makes `Fresh` and `SenderOk` true whatever
the checkers hold and whatever the size has become -, so it holds in every reachable state. -/
theorem C18S_startup_inductive (z : Size) :
    StartupInv (initNewS z) ∧
    (∀ s l s', stepNewS s l = some s' → StartupInv s → StartupInv s') ∧
    (∀ s, ReachableNewS z s → StartupInv s) ∧
    (∀ s s', stepNewS s .subscribe = some s' → Fresh s'.core ∧ SenderOk s'.core) :=
  ⟨startupInv_init z, fun _ _ _ hs hi => startupInv_step hs hi,
   fun _ hr => startupInv_reachable hr,
   fun _ _ hs => by
     rcases stepNewS_cases hs with ⟨_, _, _, rfl⟩ | ⟨_, _, hh, _⟩
     · exact ⟨Or.inr (Or.inl rfl), fun _ _ _ _ => Or.inr rfl⟩
     · cases hh⟩

/-- **THE LAST REPORT IS THE TRUE SIZE**, in EVERY reachable state of the current start-up that
is `QuiescentS` (subscribed, nothing pending, the listener waiting, no checker in flight, not
cancelled) - for every history of resizes and commands, those before the subscription
included, and every interleaving. -/
theorem C18S_quiescent_last_is_true (z : Size) (s : StS) (hr : ReachableNewS z s)
    (hq : QuiescentS s) : lastReported s.core = some s.core.size :=
  startupInv_quiescent (startupInv_reachable hr) hq

/-- **`QuiescentS` CAN BE REACHED.**  From every reachable state of the current start-up that is
not cancelled, exactly `rankS s ≤ 2·(checkers in flight) + 5` internal steps (`subscribe` first
if the listener has not subscribed yet, then `take` / `query` / `deliver` as in
`C18L_can_quiesce`; each enabled in turn, no help from the environment) lead to a `QuiescentS`
state with the size unchanged, and there the LAST report is the true size.  So under a fair
scheduler, after ANY history of resizes - before or after the subscription - and with no further
resize, the program ends up knowing the terminal's true size. -/
theorem C18S_can_quiesce (z : Size) (s : StS) (hr : ReachableNewS z s)
    (hn : s.core.cancelled = false) :
    ∃ ps s', (∀ l ∈ ps, l.isInternal = true) ∧ ps.length = rankS s ∧
      rankS s ≤ 2 * s.core.checkers.length + 5 ∧
      runLabelsNewS s ps = some s' ∧ QuiescentS s' ∧ s'.core.size = s.core.size ∧
      lastReported s'.core = some s.core.size := by
  have hi := startupInv_reachable hr
  obtain ⟨ps, s', p1, p2, p3, p4, p5, _⟩ :=
    quiesceS s hn (fun h => (startupInv_waiting hi h).1)
  refine ⟨ps, s', p1, p2, rankS_le hi, p3, p4, p5, ?_⟩
  rw [← p5]
  exact C18S_quiescent_last_is_true z s' (reachableNewS_runLabels ps hr p3) p4

/-- **A RESIZE GETS REPORTED, LAST - WHENEVER IT HAPPENS.**  After a resize to `sz` in any
reachable state of the current start-up that is not cancelled - subscribed (the signal is raised)
or NOT YET subscribed (no signal: the listener's initial query comes after its subscription and
reads `sz`) -, at most `2·(checkers in flight) + 5` internal steps lead to a `QuiescentS` state
whose LAST report is `sz`; and EVERY `QuiescentS` state reached after that resize without a
further one has `sz` as its last report. -/
theorem C18S_resize_gets_reported (z : Size) (t : StS) (sz : Size) (hr : ReachableNewS z t)
    (hn : t.core.cancelled = false) :
    (∃ t1 ps s, stepNewS t (.core (.resize sz)) = some t1 ∧ (∀ l ∈ ps, l.isInternal = true) ∧
      ps.length ≤ 2 * t.core.checkers.length + 5 ∧ runLabelsNewS t1 ps = some s ∧
      QuiescentS s ∧ s.core.size = sz ∧ lastReported s.core = some sz) ∧
    (∀ post s, runLabelsNewS t (.core (.resize sz) :: post) = some s →
      (∀ l ∈ coreLabels post, l.isResize = false) → QuiescentS s →
      s.core.size = sz ∧ lastReported s.core = some sz) := by
  obtain ⟨t1, h1, hsz, hcs, hc, _, _⟩ := stepNewS_resize t sz
  have hr1 : ReachableNewS z t1 := ReachableNewS.step _ hr h1
  refine ⟨?_, ?_⟩
  · obtain ⟨ps, s, p1, p2, p3, p4, p5, p6, p7⟩ := C18S_can_quiesce z t1 hr1 (by rw [hc]; exact hn)
    exact ⟨t1, ps, s, h1, p1, by rw [p2, ← hcs]; exact p3, p4, p5, by rw [p6, hsz],
      by rw [p7, hsz]⟩
  · intro post s hrun hnr hq
    obtain ⟨t1', h1', h2⟩ := runLabelsNewS_cons hrun
    rw [h1] at h1'
    cases h1'
    have hsize : s.core.size = sz := by rw [size_runS h2 hnr, hsz]
    exact ⟨hsize, by
      rw [← hsize]
      exact C18S_quiescent_last_is_true z s (reachableNewS_runLabels post hr1 h2) hq⟩

/-- **NOTHING BEFORE THE SUBSCRIPTION.**  In the current start-up: (1) in every reachable state
that is not subscribed yet the listener is waiting and no signal is in its channel; (2) in every
run, every step of the listener - `take`, its `query` (in particular the INITIAL query), its
`deliver` - comes after `subscribe`; (3) so the size the listener reports first was read after
the subscription: every later resize raises a signal. -/
theorem C18S_first_report_after_subscription (z : Size) :
    (∀ s, ReachableNewS z s → s.subscribed = false →
      s.core.listener = .waiting ∧ s.core.pending = false) ∧
    (∀ pre post l s, runLabelsNewS (initNewS z) (pre ++ .core l :: post) = some s →
      (l = .take ∨ l = .query none ∨ l = .deliver none) → LabelS.subscribe ∈ pre) ∧
    (∀ s sz, ReachableNewS z s → s.subscribed = true →
      (stepNewS s (.core (.resize sz))).map (fun s' => s'.core.pending) = some true) := by
  refine ⟨fun s hr h => startupInv_waiting (startupInv_reachable hr) h,
    fun pre post l s h hl => listener_step_after_subscribe h hl, ?_⟩
  intro ⟨c, sub⟩ sz _ hsub
  simp only at hsub
  subst hsub
  rfl

/-- **EVERY COMMAND IS ANSWERED, EXACTLY ONCE** - the counting theorem for the current start-up.
In every run from start-up: (1) the reports delivered plus the goroutines that still owe one are
exactly 1 (the listener's initial report, owed from the subscription on) + the listener's takes
+ the WindowSize commands; (2) a take needs a signal, and only a subscribed resize raises one:
takes (+1 if a signal is pending) ≤ resizes; (3) so in a `QuiescentS` state the number of
WindowSizeMsgs Update received is exactly 1 + takes + commands, at most 1 + resizes + commands;
(4) and before the subscription every report answers a WindowSize command. -/
theorem C18S_every_command_answered (z : Size) (ls : List LabelS) (s : StS)
    (hrun : runLabelsNewS (initNewS z) ls = some s) :
    inFlight s.core + s.core.reported.length =
      (if s.subscribed then 1 else 0) + takes (coreLabels ls) + commands (coreLabels ls) ∧
    takes (coreLabels ls) + (if s.core.pending then 1 else 0) ≤ resizes (coreLabels ls) ∧
    (QuiescentS s →
      s.core.reported.length = 1 + takes (coreLabels ls) + commands (coreLabels ls) ∧
      s.core.reported.length ≤ 1 + resizes (coreLabels ls) + commands (coreLabels ls)) ∧
    (s.subscribed = false → takes (coreLabels ls) = 0 ∧
      s.core.reported.length ≤ commands (coreLabels ls)) := by
  have h1 := countS_run hrun (startupInv_init z)
  have h2 := signalS_run hrun
  have e0 : (initNewS z).subscribed = false := rfl
  have e1 : inFlight (initNewS z).core = 0 := rfl
  have e2 : (initNewS z).core.reported.length = 0 := rfl
  have e3 : (initNewS z).core.pending = false := rfl
  rw [e0, e1, e2] at h1
  rw [e3] at h2
  simp only [Bool.false_eq_true, if_false] at h1 h2
  refine ⟨by omega, by omega, ?_, ?_⟩
  · intro ⟨q0, _, q2, q3, _⟩
    have : inFlight s.core = 0 := by simp [inFlight, q2, q3]
    rw [q0] at h1
    simp only [if_true] at h1
    omega
  · intro hsub
    have ht := takes_unsub_run hrun hsub rfl rfl
    rw [hsub] at h1
    simp only [Bool.false_eq_true, if_false] at h1
    exact ⟨ht, by omega⟩

/-! #### concrete runs of the current start-up (non-vacuity; by evaluation) -/

/-- the environment history of `C18S_resize_before_subscription_lost` - a resize to 100x30 before
the subscription - in the current start-up: the listener subscribes, THEN queries: it reads and
reports 100x30 -/
example :
    (runLabelsNewS (initNewS (80, 24))
      [.core (.resize (100, 30)), .subscribe, .core (.query none), .core (.deliver none)]).map
        (fun s => (decide (QuiescentS s), s.core.cancelled, lastReported s.core, s.core.size))
      = some (true, false, some (100, 30), (100, 30)) := by decide

/-- a WindowSize command before the subscription: its checker reads 80x24 and holds the mutex,
the terminal is resized (no signal), the listener subscribes and waits for the mutex (its `query`
is not enabled), the checker delivers 80x24, the listener reads and delivers 100x30 -/
example :
    (runLabelsNewS (initNewS (80, 24))
      [.core .windowSizeCmd, .core (.query (some 0)), .core (.resize (100, 30)),
       .subscribe]).map
        (fun s => (s.core.pending, s.core.listener, mutexHeld s.core,
          (stepNewS s (.core (.query none))).isSome))
      = some (false, .querying, true, false) ∧
    (runLabelsNewS (initNewS (80, 24))
      [.core .windowSizeCmd, .core (.query (some 0)), .core (.resize (100, 30)), .subscribe,
       .core (.deliver (some 0)), .core (.query none), .core (.deliver none)]).map
        (fun s => (decide (QuiescentS s), s.core.reported, lastReported s.core, s.core.size))
      = some (true, [(80, 24), (100, 30)], some (100, 30), (100, 30)) := by decide

/-- without a resize the initial size is reported, once; the listener cannot query before it is
subscribed; and the labels of `C18S_resize_before_subscription_lost` are not a run of the current
start-up (there is no start-up checker) -/
example :
    (runLabelsNewS (initNewS (80, 24))
      [.subscribe, .core (.query none), .core (.deliver none)]).map
        (fun s => (decide (QuiescentS s), s.core.reported, s.core.size))
      = some (true, [(80, 24)], (80, 24)) ∧
    stepNewS (initNewS (80, 24)) (.core (.query none)) = none ∧
    stepNewS (initNewS (80, 24)) (.core .take) = none ∧
    runLabelsNewS (initNewS (80, 24))
      [.core (.query (some 0)), .core (.resize (100, 30)), .subscribe,
       .core (.deliver (some 0))] = none ∧
    rankS (initNewS (80, 24)) = 3 := by decide

/-- **THE RENDERER CLIPS TO THE TRUE SIZE** once the size reporting has settled: feeding the
renderer the WindowSizeMsgs of ANY run of the current start-up that ends `QuiescentS` leaves it
with the terminal's true size. -/
theorem C18S_renderer_has_true_size (r : Tea.Render.RState) (z : Size) (s : StS)
    (hr : ReachableNewS z s) (hq : QuiescentS s) :
    (s.core.reported.foldl (fun r sz => (Tea.Render.step r (.size sz.1 sz.2)).1) r).width
      = s.core.size.1 ∧
    (s.core.reported.foldl (fun r sz => (Tea.Render.step r (.size sz.1 sz.2)).1) r).height
      = s.core.size.2 :=
  C18_renderer_has_last_reported r s.core.reported s.core.size.1 s.core.size.2
    (C18S_quiescent_last_is_true z s hr hq)

end Tea.Props.C18
