import Tea.Props.C04
import Tea.Props.C06
import Tea.Proofs.Quit
/-
C18 — OS signals and window size are reported faithfully.

"SIGINT ends the program with ErrInterrupted and SIGTERM ends it like a quit (nil error), in
both cases with the terminal restored; with WithoutSignalHandler no handler is installed, and
while signals are ignored (WithoutSignals, or the terminal is released) they do not end the
program. When output is a terminal, Update receives a WindowSizeMsg with the true size at
start-up, again after every resize signal and on every WindowSize command, and the renderer
clips to the most recently reported size."

PARTIAL BY NATURE.  Kernel signal delivery, `signal.Notify`, SIGWINCH and the pty size query
(`term.GetSize`) are outside any model; what is proved here is the DECISION LOGIC:

* signals: in the Lifecycle LTS (`Tea/Runtime/Lifecycle.lean`) the label `.signal int` is "the
  handler goroutine took SIGINT (`int = true`) or SIGTERM (`false`) from its channel and is
  about to forward it to the event loop".  The theorems hold for every configuration and
  every schedule (`Reachable c s`).  `ignoreSignals` is a field of the configuration in the
  model (WithoutSignals); its toggling by ReleaseTerminal / RestoreTerminal is NOT modelled (the
  order of those calls is pinned by the bridge facts of `Tea/Props/Bridge/C18.lean`): the theorems
  about ignored signals are statements about any state whose flag is set (`C18_ignored`, part 1)
  and about programs configured with it (parts 2, 3).
* window size: that the size in the message is the TRUE size, and that a message is sent at
  start-up / on SIGWINCH / on the WindowSize command, are facts about `checkResize` and the
  OS covered by the bridge facts and the differential tests only.  Proved here is what the
  renderer does with a reported size (`ROp.size`, the `WindowSizeMsg` case of `handleMessages`):
  it adopts it, invalidates its caches, and every later frame is clipped to the LAST one reported.

Only property theorems live here; helper lemmas are in `Tea/Proofs/Quit.lean`,
`Tea/Proofs/Lifecycle*.lean`, `Tea/Proofs/Flush.lean`.
-/
namespace Tea.Props.C18
open Tea.Runtime.Life

/-! ### 1. SIGINT and SIGTERM end the program, with the right error, terminal restored -/

/-- **SIGINT.**  In any reachable state where the handler goroutine is waiting, signals are not
ignored and the event loop is in its `select`: the handler takes the SIGINT, the loop receives
its interrupt message, the handler has exited and the loop has ended with cause `interrupt` -
the program is terminating.  From then on, on EVERY schedule `ls`: the cause stays `interrupt`;
once Run is past its loop its error is ErrInterrupted (`C04_error_interrupt`); and when Run has
returned the terminal has been restored (`restoreTerminalState` ran at least once). -/
theorem C18_sigint (c : Config) (s : St) (hr : Reachable c s) (hsig : s.sig = .waiting)
    (hign : s.ignoreSignals = false) (hel : s.el = .select) :
    ∃ s', runLabels s [.signal true, .elRecvSig] = some s' ∧ s'.el = .exited .interrupt ∧
      s'.sig = .exited ∧ Terminating s' ∧
      ∀ ls s'', runLabels s' ls = some s'' →
        s''.el = .exited .interrupt ∧ (s''.runPc ≠ .loop → s''.runErr = .interrupted) ∧
        (s''.runPc = .returned → 1 ≤ s''.restores) := by
  have h1 := signal_taken hsig hign hel true
  refine ⟨_, h1, rfl, rfl, Or.inr (Or.inl ⟨_, rfl⟩), ?_⟩
  intro ls s'' h2
  have hr'' := reachable_runLabels ls (reachable_runLabels _ hr h1) h2
  have hel'' := el_exited_runLabels ls h2 (c := .interrupt) rfl
  exact ⟨hel'', fun hp => C04.C04_error_interrupt c s'' hr'' hp hel'', (inv_restored hr'').2⟩

/-- **SIGTERM.**  The same for SIGTERM: the loop ends with cause `quit` - exactly the cause of a
quit message, so everything that follows is what follows a quit.  On every later schedule the
cause stays `quit`; once Run is past its loop the error is nil, or ErrProgramKilled if the
context had ALSO been cancelled (Kill(), parent context) by the time Run looked
(`C04_error_quit`); precisely: the `runTail` step computes `nil` iff the context is not
cancelled at that moment; and when Run has returned the terminal has been restored. -/
theorem C18_sigterm (c : Config) (s : St) (hr : Reachable c s) (hsig : s.sig = .waiting)
    (hign : s.ignoreSignals = false) (hel : s.el = .select) :
    ∃ s', runLabels s [.signal false, .elRecvSig] = some s' ∧ s'.el = .exited .quit ∧
      s'.sig = .exited ∧ Terminating s' ∧
      ∀ ls s'', runLabels s' ls = some s'' →
        s''.el = .exited .quit ∧
        (s''.runPc ≠ .loop → s''.runErr = .nil ∨ s''.runErr = .killed) ∧
        (∀ s3, step s'' .runTail = some s3 →
          s3.runErr = (if s''.ctxDone = true then .killed else .nil)) ∧
        (s''.runPc = .returned → 1 ≤ s''.restores) := by
  have h1 := signal_taken hsig hign hel false
  refine ⟨_, h1, rfl, rfl, Or.inr (Or.inl ⟨_, rfl⟩), ?_⟩
  intro ls s'' h2
  have hr'' := reachable_runLabels ls (reachable_runLabels _ hr h1) h2
  have hel'' := el_exited_runLabels ls h2 (c := .quit) rfl
  refine ⟨hel'', fun hp => C04.C04_error_quit c s'' hr'' hp hel'', ?_, (inv_restored hr'').2⟩
  intro s3 h3
  rw [(runTail_err h3 hel'').1]
  cases s''.ctxDone <;> rfl

/-- the error of a quit whose context was not cancelled when Run looked is nil -/
theorem C18_sigterm_nil : errOf .quit false = .nil ∧ errOf .interrupt false = .interrupted ∧
    errOf .interrupt true = .interrupted := ⟨rfl, rfl, rfl⟩

/-- **... AND RUN DOES RETURN.**  After either signal has been received, from every later state
in which no user callback is in progress, at most `rank` internal progress steps - each
enabled in turn, no help from anybody - bring Run to its return (`C04_run_returns`), and there
the error is the signal's (ErrInterrupted for SIGINT; nil or killed for SIGTERM) and the
terminal has been restored. -/
theorem C18_signal_run_returns (c : Config) (s : St) (hr : Reachable c s) (hsig : s.sig = .waiting)
    (hign : s.ignoreSignals = false) (hel : s.el = .select) (int : Bool) :
    ∃ s', runLabels s [.signal int, .elRecvSig] = some s' ∧
      ∀ ls s'', runLabels s' ls = some s'' → NoCallback s'' →
        ∃ ps s3, (∀ l ∈ ps, progressLabel l = true) ∧ ps.length ≤ rank s'' ∧
          runLabels s'' ps = some s3 ∧ s3.runPc = .returned ∧ 1 ≤ s3.restores ∧
          (int = true → s3.runErr = .interrupted) ∧
          (int = false → s3.runErr = .nil ∨ s3.runErr = .killed) := by
  have h1 := signal_taken hsig hign hel int
  refine ⟨_, h1, ?_⟩
  intro ls s'' h2 hnc
  have hr'' := reachable_runLabels ls (reachable_runLabels _ hr h1) h2
  have hel'' := el_exited_runLabels ls h2 (c := if int then .interrupt else .quit) rfl
  obtain ⟨ps, s3, p1, p2, p3, p4⟩ :=
    C04.C04_run_returns c s'' hr'' (Or.inr (Or.inl ⟨_, hel''⟩)) hnc
  have hr3 := reachable_runLabels ps hr'' p3
  have hel3 := el_exited_runLabels ps p3 hel''
  have hnl : s3.runPc ≠ .loop := by rw [p4]; decide
  refine ⟨ps, s3, p1, p2, p3, p4, (inv_restored hr3).2 p4, ?_, ?_⟩
  · intro hi
    rw [hi] at hel3
    exact C04.C04_error_interrupt c s3 hr3 hnl hel3
  · intro hi
    rw [hi] at hel3
    exact C04.C04_error_quit c s3 hr3 hnl hel3

/-! ### 2. ignored signals do not end the program -/

/-- **IGNORED.**  (1) In ANY state whose ignore flag is set, a signal taken by the handler
changes nothing at all: the step does not exist (`handleSignals` drops the signal and keeps
waiting).  (2) In the model the flag is the one of the configuration, in every reachable
state.  (3) So in a program configured to ignore signals (WithoutSignals), in every reachable
state: no signal step exists, the handler never holds a signal to forward, and the loop never
receives one - no signal ever ends the program. -/
theorem C18_ignored :
    (∀ (s : St) (b : Bool), s.ignoreSignals = true → step s (.signal b) = none) ∧
    (∀ (c : Config) (s : St), Reachable c s → s.ignoreSignals = c.ignoreSignals) ∧
    (∀ (c : Config) (s : St), c.ignoreSignals = true → Reachable c s →
      (∀ b, step s (.signal b) = none) ∧ (∀ b, s.sig ≠ .sending b) ∧ step s .elRecvSig = none) := by
  have p1 : ∀ (s : St) (b : Bool), s.ignoreSignals = true → step s (.signal b) = none := by
    intro s b h
    simp [step, h]
  refine ⟨p1, fun c s hr => inv_ignoreSignals hr, ?_⟩
  intro c s hc hr
  have hns := inv_ignored_not_sending hc hr
  refine ⟨fun b => p1 s b (by rw [inv_ignoreSignals hr, hc]), hns, ?_⟩
  cases hs : s.sig with
  | sending b => exact absurd hs (hns b)
  | _ => simp [step, hs]

/-- ... and ignoring signals does not make the handler goroutine an obstacle to shutdown: it
still leaves at the cancellation of the context (see also `C18_handler_never_blocks_exit`). -/
theorem C18_ignored_handler_exits (s : St) (hctx : s.ctxDone = true) (hs : s.sig = .waiting) :
    ∃ s', step s .sigExit = some s' ∧ s'.sig = .exited ∧ s'.ignoreSignals = s.ignoreSignals := by
  refine ⟨{ s with sig := .exited }, ?_, rfl, rfl⟩
  simp [step, hs, hctx]

/-! ### 3. WithoutSignalHandler: no handler -/

/-- **NO HANDLER.**  With WithoutSignalHandler there is no handler goroutine in any reachable
state; hence no signal is ever taken, none is ever delivered to the loop, and shutdown has no
signal handler to wait for. -/
theorem C18_no_handler (c : Config) (s : St) (hc : c.withSignalHandler = false)
    (hr : Reachable c s) :
    s.sig = .absent ∧ (∀ b, step s (.signal b) = none) ∧ step s .elRecvSig = none ∧
    step s .sigExit = none ∧ step s .sigAbort = none ∧ sigGone s.sig = true := by
  have h := inv_no_handler hc hr
  refine ⟨h, ?_, ?_, ?_, ?_, ?_⟩
  · intro b; simp [step, h]
  · simp [step, h]
  · simp [step, h]
  · simp [step, h]
  · rw [h]; rfl

/-- with a handler (the default) the goroutine exists at start-up and waits -/
theorem C18_handler_installed (c : Config) (hc : c.withSignalHandler = true) :
    (init c).sig = .waiting := by
  simp [init, hc]

/-! ### 4. a signal that loses the race does not hang the shutdown -/

/-- **THE HANDLER NEVER BLOCKS THE EXIT.**  Once the context is cancelled (the program is ending
for another reason) a waiting handler leaves (`sigExit`), and a handler that already took a
signal and is blocked forwarding it to a loop that will never receive it leaves too
(`sigAbort`: the `select` on `ctx.Done()` around the send); either way it ends up `exited`,
which is what `handlers.shutdown()` waits for. -/
theorem C18_handler_never_blocks_exit (s : St) (hctx : s.ctxDone = true) :
    (s.sig = .waiting → (step s .sigExit).isSome = true) ∧
    (∀ b, s.sig = .sending b → (step s .sigAbort).isSome = true) ∧
    (∀ s', step s .sigExit = some s' → sigGone s'.sig = true) ∧
    (∀ s', step s .sigAbort = some s' → sigGone s'.sig = true) := by
  refine ⟨?_, ?_, ?_, ?_⟩
  · intro h; simp [step, h, hctx]
  · intro b h; simp [step, h, hctx]
  · intro s' h
    cases hs : s.sig <;> simp [step, hs, hctx] at h
    rw [← h]; rfl
  · intro s' h
    cases hs : s.sig <;> simp [step, hs, hctx] at h
    rw [← h]; rfl

/-! ### 5. the renderer adopts the reported size -/

open Tea Tea.VT Tea.Render

/-- **SIZE ADOPTED.**  On a window-size message the renderer takes the reported width and
height, writes NOTHING to the terminal, keeps the pending view, and invalidates both caches -
so no line of the next frame can be skipped as "unchanged". -/
theorem C18_size_adopted (r : RState) (w h : Nat) :
    Render.step r (.size w h) =
      ({ r with width := w, height := h, lastRender := [], lastLines := none }, []) ∧
    (Render.step r (.size w h)).1.buf = r.buf ∧
    ∀ i l, sameAsLast (Render.step r (.size w h)).1 i l = false :=
  ⟨rfl, rfl, fun i l => sameAsLast_of_none _ rfl i l⟩

/-- **... AND THE NEXT FLUSH REPAINTS EVERYTHING.**  After a size message, the flush of any
view `s` is a painting flush that prints EVERY line of the frame (cut at the new width): the
whole view is redrawn for the new size, and the cache afterwards is that view. -/
theorem C18_size_repaints (r : RState) (w h : Nat) (s : Bytes) (r' : RState)
    (hr' : r' = write (Render.step r (.size w h)).1 s) :
    (∀ l ∈ frameLines r', TermOp.text (if w > 0 then truncateLine w l else l) ∈ (flush r').2) ∧
    (flush r').1.lastRender = r'.buf ∧ (flush r').1.lastLines = some (frameLines r') ∧
    (flush r').1.width = w ∧ (flush r').1.height = h := by
  subst hr'
  have hb := write_buf_ne (Render.step r (.size w h)).1 s
  refine ⟨fun l hl => flush_prints_all _ hb rfl rfl l hl, flush_lastRender _ hb, ?_,
    (flush_size _).1, (flush_size _).2.1⟩
  have hne : ((write (Render.step r (.size w h)).1 s).buf.isEmpty ||
      (write (Render.step r (.size w h)).1 s).buf ==
        (write (Render.step r (.size w h)).1 s).lastRender) = false := by
    show ((write (Render.step r (.size w h)).1 s).buf.isEmpty ||
      (write (Render.step r (.size w h)).1 s).buf == []) = false
    cases hbb : (write (Render.step r (.size w h)).1 s).buf with
    | nil => exact absurd hbb hb
    | cons _ _ => rfl
  rw [flush_state _ hne]

/-! ### 6. ... and clips to the most recently reported size -/

/-- **CLIPPED TO THE LATEST SIZE.**  (1) The last size message wins: after two of them the
renderer has the second width and height.  After a size message `w × h` (`w, h ≥ 1`) and ANY
later writes, flushes and repaints (they never change the size): (2) the frame of a view has
between 1 and `h` lines - the last `h` lines of the view (`C06_clip`); (3) every line is cut to
at most `w` cells (`lineWidth`: escape sequences, which the cut keeps, take none) before it is
printed, and (4) with no printed lines queued, EVERY text a flush writes takes at most `w` cells,
so no view line reaches past the last column or wraps. -/
theorem C18_clip_latest (r : RState) (w1 h1 w h : Nat) (hw : 1 ≤ w) (hh : 1 ≤ h) :
    ((Render.step (Render.step r (.size w1 h1)).1 (.size w h)).1.width = w ∧
     (Render.step (Render.step r (.size w1 h1)).1 (.size w h)).1.height = h) ∧
    (∀ s, 1 ≤ (frameLines (write (Render.step r (.size w h)).1 s)).length ∧
      (frameLines (write (Render.step r (.size w h)).1 s)).length ≤ h ∧
      frameLines (write (Render.step r (.size w h)).1 s) =
        (splitLines (write r s).buf).drop ((splitLines (write r s).buf).length - h)) ∧
    (∀ l : Line, lineWidth (truncateLine w l) ≤ w) ∧
    (∀ s x, r.queued = [] →
      TermOp.text x ∈ (flush (write (Render.step r (.size w h)).1 s)).2 → lineWidth x ≤ w) := by
  refine ⟨⟨rfl, rfl⟩, ?_, fun l => truncateLine_width_le w l, ?_⟩
  · intro s
    obtain ⟨c1, c2, c3, _⟩ := C06.C06_clip (write (Render.step r (.size w h)).1 s) hh
    exact ⟨c2, c3, c1⟩
  · intro s x hq hx
    exact flush_text_le (write (Render.step r (.size w h)).1 s) hw hq x hx

/-- the size survives every renderer step except another size message: flushes in
particular keep clipping to it -/
theorem C18_size_kept (r : RState) (o : ROp) (hs : ∀ w h, o ≠ .size w h) :
    (Render.step r o).1.width = r.width ∧ (Render.step r o).1.height = r.height := by
  cases o with
  | size w h => exact absurd rfl (hs w h)
  | flush => exact ⟨(flush_size r).1, (flush_size r).2.1⟩
  | stop => exact ⟨(flush_size r).1, (flush_size r).2.1⟩
  | enterAlt => simp only [Render.step, enterAlt]; split <;> exact ⟨rfl, rfl⟩
  | exitAlt => simp only [Render.step, exitAlt]; split <;> exact ⟨rfl, rfl⟩
  | printLine b => simp only [Render.step]; split <;> exact ⟨rfl, rfl⟩
  | _ => exact ⟨rfl, rfl⟩

/-! ### 7. concrete runs (non-vacuity) -/

/-- the program of the C04 examples: signal handler, resize listener, cancelable input -/
def cfg : Config := C04.cfg
/-- the same with WithoutSignals -/
def cfgIgnore : Config := { cfg with ignoreSignals := true }
/-- the same with WithoutSignalHandler -/
def cfgNoHandler : Config := { cfg with withSignalHandler := false }

def obs (s : St) : RunPc × ErrClass × Nat × Bool := (s.runPc, s.runErr, s.restores, s.finishedClosed)

/-- the initial state satisfies the hypotheses of `C18_sigint` / `C18_sigterm` -/
example : Reachable cfg (init cfg) ∧ (init cfg).sig = .waiting ∧ (init cfg).ignoreSignals = false ∧
    (init cfg).el = .select := ⟨Reachable.init, by decide, by decide, by decide⟩

/-- SIGINT: Run returns ErrInterrupted, terminal restored once -/
example : (runLabels (init cfg)
    [.signal true, .elRecvSig, .runTail, .shCancel none, .dispExit, .resizeExit, .shHandlers none,
     .shReader none, .shRenderer none, .shRestore none, .runReturn]).map obs
    = some (.returned, .interrupted, 1, true) := by decide

/-- SIGTERM: Run returns nil, terminal restored once; like a quit it waits for the read loop -/
example : (runLabels (init cfg)
    [.signal false, .elRecvSig, .runTail, .shCancel none, .dispExit, .resizeExit, .shHandlers none,
     .shReader none, .readerCanceled, .shWaitRead none, .shRenderer none, .shRestore none,
     .runReturn]).map obs
    = some (.returned, .nil, 1, true) := by decide

/-- SIGTERM racing a Kill(): the context is cancelled before Run looks - ErrProgramKilled -/
example : (runLabels (init cfg)
    [.signal false, .elRecvSig, .killCall, .shCancel (some 0), .runTail]).map (fun s => s.runErr)
    = some .killed := by decide

/-- WithoutSignals: the signal step does not exist, at start-up and later; the program goes on -/
example : (step (init cfgIgnore) (.signal true)).isSome = false ∧
    (step (init cfgIgnore) (.signal false)).isSome = false ∧
    (runLabels (init cfgIgnore) [.decoded, .elRecvReader, .signal true]).isSome = false ∧
    (runLabels (init cfgIgnore) [.decoded, .elRecvReader, .callbackReturns]).isSome = true := by
  decide

/-- WithoutSignalHandler: no goroutine, no signal step, and a quit's shutdown does not wait for
any `sigExit` -/
example : (init cfgNoHandler).sig = .absent ∧ (step (init cfgNoHandler) (.signal true)).isSome = false ∧
    (runLabels (init cfgNoHandler)
      [.sendCall 1, .elRecvSender 1, .runTail, .shCancel none, .dispExit, .resizeExit,
       .shHandlers none, .shReader none, .readerCanceled, .shWaitRead none, .shRenderer none,
       .shRestore none, .runReturn]).map obs = some (.returned, .nil, 1, true) := by decide

/-- a SIGINT that loses the race against a Quit(): `sigAbort`, Run returns nil -/
example : (runLabels (init cfg) C04.sigintLosesToQuit).map obs = some (.returned, .nil, 1, true) := by
  decide

/-- the renderer at 10 x 5 is told 4 x 2, then 6 x 3: nothing is written, the size is the last
one, and the next flush of "abcdefgh\n1\n2\n3" paints its last 3 lines with "abcdefgh" gone (it is
above the frame) - every line cut at 6 columns -/
example :
    let r : RState := { width := 10, height := 5 }
    let r2 := (Render.step (Render.step r (.size 4 2)).1 (.size 6 3)).1
    (Render.step r (.size 4 2)).2 = [] ∧ r2.width = 6 ∧ r2.height = 3 ∧
    (flush (write r2 [97,98,99,100,101,102,103,104,10,49,10,50,10,51])).2 =
      [.cr, .text [49], .el0, .cr, .lf, .text [50], .el0, .cr, .lf, .text [51], .el0, .cub 6] ∧
    (flush (write r2 [49,10,97,98,99,100,101,102,103,104])).2 =
      [.cr, .text [49], .el0, .cr, .lf, .text [97,98,99,100,101,102], .cub 6] := by decide

end Tea.Props.C18
