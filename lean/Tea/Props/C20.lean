import Tea.Time.Model
/-
C20 — Tick and Every never fire early and report the time they fired.

"A Tick command delivers its message no earlier than the given duration after
the command was created, and an Every command no earlier than the next whole
multiple of its duration on the system clock after creation (and not a whole
period later than that); in both cases the callback receives the time at which
the timer fired and its result is the message delivered, exactly once per
command."

Proved for every instant `n` and every positive duration `d` (unbounded
integers). PARTIAL BY NATURE: that a Go timer does not fire before its duration
elapsed is the runtime's contract (field `Timer.notEarly`), sampled by the
timing scenario, not proved.
-/
namespace Tea.Props.C20
open Tea.Time

/-- the delay Every computes is positive, at most one period, and ends on a period boundary -/
theorem C20_every_delay (n d : Int) (hd : 0 < d) :
    0 < everyDelay n d ∧ everyDelay n d ≤ d ∧ (n + everyDelay n d) % d = 0 := by
  unfold everyDelay truncate
  have h1 : 0 ≤ n % d := Int.emod_nonneg n (by omega)
  have h2 : n % d < d := Int.emod_lt_of_pos n hd
  rw [if_neg (by omega)]
  refine ⟨by omega, by omega, ?_⟩
  have : n + (n - n % d + d - n) = (n - n % d) + d := by omega
  rw [this, Int.add_emod_right]
  have : n - n % d = d * (n / d) := by
    have := Int.emod_add_mul_ediv n d
    omega
  rw [this, Int.mul_emod_right]

/-- it is the NEXT boundary: no multiple of the period lies strictly between creation and it
(so the message is "not a whole period later" than the first boundary after creation) -/
theorem C20_every_next_boundary (n d : Int) (hd : 0 < d) (t : Int) (hn : n < t) (ht : t % d = 0) :
    n + everyDelay n d ≤ t := by
  unfold everyDelay truncate
  rw [if_neg (by omega)]
  have h1 : 0 ≤ n % d := Int.emod_nonneg n (by omega)
  have h2 : n % d < d := Int.emod_lt_of_pos n hd
  have e1 := Int.emod_add_mul_ediv n d
  have e2 := Int.emod_add_mul_ediv t d
  rw [ht] at e2
  -- t = d * (t / d), n = n % d + d * (n / d); n < t forces n / d < t / d
  have hq : n / d < t / d := by
    apply Classical.byContradiction
    intro hc
    have hc' : t / d ≤ n / d := by omega
    have := Int.mul_le_mul_of_nonneg_left hc' (Int.le_of_lt hd)
    omega
  have hq' : n / d + 1 ≤ t / d := by omega
  have := Int.mul_le_mul_of_nonneg_left hq' (Int.le_of_lt hd)
  have e3 : d * (n / d + 1) = d * (n / d) + d := by rw [Int.mul_add, Int.mul_one]
  omega

/-- Tick: the timer is armed at (or after) creation with the full duration, so the time
reported is at least `created + d` -/
theorem C20_tick_not_early (created d : Int) (t : Timer) (harm : created ≤ t.armedAt)
    (hdelay : t.delay = tickDelay d) : created + d ≤ t.fired := by
  have := t.notEarly
  unfold tickDelay at hdelay
  omega

/-- Every: the time reported is not before the first period boundary after creation.
`n` is the clock reading taken by Every; the timer is armed after it. -/
theorem C20_every_not_early (n d : Int) (hd : 0 < d) (t : Timer) (harm : n ≤ t.armedAt)
    (hdelay : t.delay = everyDelay n d) :
    n + everyDelay n d ≤ t.fired ∧ (n + everyDelay n d) % d = 0 ∧ n < n + everyDelay n d := by
  have := t.notEarly
  have h := C20_every_delay n d hd
  exact ⟨by omega, h.2.2, by omega⟩

/-- the callback receives the firing time and its result is the message -/
theorem C20_payload {Msg : Type} (t : Timer) (fn : Int → Msg) : runCmd t fn = fn t.fired := rfl

/-- non-vacuity: 12:34:20 with a one-minute period fires 40 s later, at 12:35:00 -/
example : everyDelay (45260 * 1000000000) (60 * 1000000000) = 40 * 1000000000 := by decide
example : ∃ t : Timer, t.armedAt = 5 ∧ t.delay = everyDelay 5 10 := ⟨⟨5, 5, 10, by decide⟩, rfl, by decide⟩

end Tea.Props.C20
