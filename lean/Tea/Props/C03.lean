import Tea.Proofs.Sequence
import Tea.Proofs.SeqTrace
/-
C03 — Sequence runs its commands strictly one after another, in order.

"The commands given to Sequence are started one at a time in the given order: a
command is not started until the message produced by the previous one has been
received by the event loop, so their messages reach Update in sequence order;
when an element yields a Batch, every message of that batch is received before
the next element starts. Nil commands and nil results are skipped without
stalling the rest of the sequence."

Theorems about the Sequence LTS (Tea/Runtime/Sequence.lean), for EVERY list of
elements `elems` (any mix of nil commands, plain commands and batches with any
pattern of nil entries) and EVERY interleaving of the sequence goroutine, the
fan-out goroutines, the event loop's receives and cancellation (`Reachable`
quantifies over all label sequences; `C03_reachable_iff_schedule` says so).

A message is identified by (element index, part index). It is *settled* when it
is in `received` (the event loop took it) or in `abandoned` (its Send gave up,
which the model only allows once the program context is cancelled).
-/
namespace Tea.Props.C03
open Tea.Runtime.Seq

/-- "every interleaving": the reachable states are exactly the results of running some
schedule (list of labels) from the initial state -/
theorem C03_reachable_iff_schedule (elems : List Elem) (s : St) :
    Reachable elems s ↔ ∃ ls, runLabels (init elems) ls = some s :=
  reachable_iff_runLabels

/-! ### in the given order, one at a time -/

/-- the commands are started in the given order: the log of started element indices is
strictly increasing; every started index is an element of the sequence that is a real
(non-nil) command; and nothing beyond the loop variable `idx` has been started -/
theorem C03_started_in_order (elems : List Elem) (s : St) (hr : Reachable elems s) :
    s.started.Pairwise (· < ·) ∧
    ∀ k ∈ s.started, k < elems.length ∧ k ≤ s.idx ∧ elems[k]? ≠ some .nilCmd := by
  have st := inv_started hr
  have sh := inv_shape hr
  refine ⟨st.sorted, fun k hk => ?_⟩
  have hc := st.isCmd k hk
  rw [sh.elems_eq] at hc
  exact ⟨hc.lt, st.le_idx k hk, hc.ne_nil⟩

/-- the program counter of the sequence goroutine and the log agree: while a command is
executing, blocked in Send, or its fan-out is awaited, that element is the LAST started one
and is in range; at the top of the loop every started element is strictly behind `idx` -/
theorem C03_current_is_last_started (elems : List Elem) (s : St) (hr : Reachable elems s) :
    (s.pc = .running ∨ s.pc = .sending ∨ s.pc = .waiting →
      s.started.getLast? = some s.idx ∧ s.idx < elems.length) ∧
    (s.pc = .next ∨ s.pc = .done → ∀ k ∈ s.started, k < s.idx) := by
  have st := inv_started hr
  have sh := inv_shape hr
  refine ⟨fun h => ⟨st.last h, ?_⟩, st.lt_idx⟩
  have hmem := List.mem_of_getLast? (st.last h)
  have hc := st.isCmd _ hmem
  rw [sh.elems_eq] at hc
  exact hc.lt

/-- shape of the control state: the model's copy of the list never changes; `idx` stays in
range; goroutines of a fan-out exist only while waiting for the batch element at `idx`, one
per non-nil entry of that batch, in entry order -/
theorem C03_shape (elems : List Elem) (s : St) (hr : Reachable elems s) :
    s.elems = elems ∧ s.idx ≤ elems.length ∧
    (s.pc ≠ .waiting → s.fans = []) ∧
    (s.pc = .waiting → ∃ parts, elems[s.idx]? = some (.batch parts) ∧
      s.fans.map (·.part) = (fansOf parts).map (·.part)) ∧
    (s.pc = .sending → elems[s.idx]? = some .plain) ∧
    (s.pc = .done → s.idx = elems.length) := by
  have sh := inv_shape hr
  have he := sh.elems_eq
  refine ⟨he, he ▸ sh.idx_le, sh.fans_nil, he ▸ sh.waiting, he ▸ sh.sending, fun h => ?_⟩
  have h1 := sh.done h
  have h2 := sh.idx_le
  rw [he] at h1 h2
  omega

/-- a fan-out has a goroutine for part `p` exactly when entry `p` of the batch is non-nil -/
theorem C03_fans_are_nonnil_entries (parts : List Bool) (p : Nat) :
    p ∈ (fansOf parts).map (·.part) ↔ parts[p]? = some true :=
  mem_fansOf_part parts p

/-! ### a command is not started until its predecessors' messages were received -/

/-- THE ORDER PROPERTY. If element `k` has been started, then every message of every earlier
element `j < k` is settled: it was received by the event loop (or, only if the program is
being cancelled, its Send was abandoned). Since the logs only grow, this holds in particular
at the moment `k` is started. -/
theorem C03_order (elems : List Elem) (s : St) (hr : Reachable elems s)
    (k : Nat) (hk : k ∈ s.started) (j : Nat) (hj : j < k) :
    ∀ m ∈ msgsOf elems j, m ∈ s.received ∨ m ∈ s.abandoned := by
  intro m hm
  have hle := (inv_started hr).le_idx k hk
  have := (inv_log hr).prev j (by omega) m (by rw [(inv_shape hr).elems_eq]; exact hm)
  exact this

/-- Sends are abandoned only after cancellation -/
theorem C03_abandoned_only_when_cancelled (elems : List Elem) (s : St) (hr : Reachable elems s)
    (hctx : s.ctxDone = false) : s.abandoned = [] :=
  inv_abandoned hr hctx

/-- ... so while the program is running normally (context not cancelled), a started command
means every message of every earlier element WAS RECEIVED by the event loop -/
theorem C03_order_running (elems : List Elem) (s : St) (hr : Reachable elems s)
    (hctx : s.ctxDone = false)
    (k : Nat) (hk : k ∈ s.started) (j : Nat) (hj : j < k) :
    ∀ m ∈ msgsOf elems j, m ∈ s.received := by
  intro m hm
  rcases C03_order elems s hr k hk j hj m hm with h | h
  · exact h
  · rw [inv_abandoned hr hctx] at h; cases h

/-- the same thing read as a guard on the `start` transition itself: whenever `start` fires
(for element `s.idx`), all messages of all earlier elements are already settled in the state
BEFORE the step -/
theorem C03_start_guard (elems : List Elem) (s s' : St) (hr : Reachable elems s)
    (hs : step s .start = some s') (j : Nat) (hj : j < s.idx) :
    s'.started = s.started ++ [s.idx] ∧
    ∀ m ∈ msgsOf elems j, m ∈ s.received ∨ m ∈ s.abandoned := by
  constructor
  · cases step_inv hs with
    | start _ _ => rfl
  · intro m hm
    exact (inv_log hr).prev j hj m (by rw [(inv_shape hr).elems_eq]; exact hm)

/-- one at a time: a started element that still has an unsettled message is the one the
sequence goroutine is currently at - the last started one; no later command has been started -/
theorem C03_unsettled_is_current (elems : List Elem) (s : St) (hr : Reachable elems s)
    (k : Nat) (hk : k ∈ s.started) (m : MsgId) (hm : m ∈ msgsOf elems k)
    (hun : ¬ (m ∈ s.received ∨ m ∈ s.abandoned)) :
    s.started.getLast? = some k ∧ k = s.idx := by
  have st := inv_started hr
  have hle := st.le_idx k hk
  have hki : k = s.idx := by
    apply Classical.byContradiction
    intro hne
    exact hun ((inv_log hr).prev k (by omega) m (by rw [(inv_shape hr).elems_eq]; exact hm))
  subst hki
  refine ⟨?_, rfl⟩
  cases hpc : s.pc with
  | next => exact absurd (st.lt_idx (Or.inl hpc) _ hk) (Nat.lt_irrefl _)
  | done => exact absurd (st.lt_idx (Or.inr hpc) _ hk) (Nat.lt_irrefl _)
  | running => exact st.last (Or.inl hpc)
  | sending => exact st.last (Or.inr (Or.inl hpc))
  | waiting => exact st.last (Or.inr (Or.inr hpc))

/-- no message appears before its command was started -/
theorem C03_message_only_after_start (elems : List Elem) (s : St) (hr : Reachable elems s)
    (m : MsgId) (hm : m ∈ s.received ∨ m ∈ s.abandoned) : m.elem ∈ s.started :=
  inv_settled_started hr m hm

/-! ### the batch barrier -/

/-- THE BATCH BARRIER. If element `j` yields a Batch, then before any later element `k > j`
is started, the message of EVERY non-nil entry `p` of that batch is settled (received by the
event loop, or abandoned under cancellation) -/
theorem C03_batch_barrier (elems : List Elem) (s : St) (hr : Reachable elems s)
    (j : Nat) (parts : List Bool) (hb : elems[j]? = some (.batch parts))
    (k : Nat) (hk : k ∈ s.started) (hj : j < k) :
    ∀ p, parts[p]? = some true → (⟨j, p⟩ : MsgId) ∈ s.received ∨ (⟨j, p⟩ : MsgId) ∈ s.abandoned := by
  intro p hp
  apply C03_order elems s hr k hk j hj
  obtain ⟨f, hf, hfp⟩ := List.mem_map.1 ((mem_fansOf_part parts p).2 hp)
  simp only [msgsOf, hb]
  exact List.mem_map.2 ⟨f, hf, by simp [hfp]⟩

/-- ... all received, when the program is not being cancelled -/
theorem C03_batch_barrier_running (elems : List Elem) (s : St) (hr : Reachable elems s)
    (hctx : s.ctxDone = false)
    (j : Nat) (parts : List Bool) (hb : elems[j]? = some (.batch parts))
    (k : Nat) (hk : k ∈ s.started) (hj : j < k) :
    ∀ p, parts[p]? = some true → (⟨j, p⟩ : MsgId) ∈ s.received := by
  intro p hp
  rcases C03_batch_barrier elems s hr j parts hb k hk hj p hp with h | h
  · exact h
  · rw [inv_abandoned hr hctx] at h; cases h

/-- the barrier seen from inside: g.Wait() returns (label `waitDone`) only when the message
of every goroutine of the fan-out is settled; and a goroutine has finished exactly when its
message is settled -/
theorem C03_wait_returns_after_all (elems : List Elem) (s s' : St) (hr : Reachable elems s)
    (hs : step s .waitDone = some s') :
    ∀ m ∈ msgsOf elems s.idx, m ∈ s.received ∨ m ∈ s.abandoned := by
  intro m hm
  have hr' : Reachable elems s' := .step _ hr hs
  have hidx : s'.idx = s.idx + 1 ∧ s'.received = s.received ∧ s'.abandoned = s.abandoned := by
    cases step_inv hs with
    | waitDone _ _ => exact ⟨rfl, rfl, rfl⟩
  have := (inv_log hr').prev s.idx (by omega) m (by rw [(inv_shape hr').elems_eq]; exact hm)
  simpa [Settled, hidx.2.1, hidx.2.2] using this

/-! ### messages reach the event loop in sequence order -/

/-- THE UPDATE ORDER. The log of messages received by the event loop is ordered by element:
a message of a later element is never received before a message of an earlier one. (Messages
of one batch may arrive in any order among themselves - see the example at the end. By C01
the event loop passes messages to Update in the order it receives them.) -/
theorem C03_update_order (elems : List Elem) (s : St) (hr : Reachable elems s) :
    (s.received.map (·.elem)).Pairwise (· ≤ ·) :=
  (inv_log hr).ordered

/-- EXACTLY ONCE. No message is received twice; no message is both received and abandoned;
every received (or abandoned) message is a genuine message of the sequence element it is
attributed to (nothing invented); and no message of an element beyond `idx` exists yet -/
theorem C03_exactly_once (elems : List Elem) (s : St) (hr : Reachable elems s) :
    s.received.Nodup ∧ s.abandoned.Nodup ∧
    (∀ m ∈ s.received, m ∉ s.abandoned) ∧
    (∀ m ∈ s.received, m ∈ msgsOf elems m.elem) ∧
    (∀ m ∈ s.abandoned, m ∈ msgsOf elems m.elem) ∧
    (∀ m, m ∈ s.received ∨ m ∈ s.abandoned → m.elem ≤ s.idx) := by
  have lg := inv_log hr
  have he := (inv_shape hr).elems_eq
  refine ⟨lg.nodup, lg.nodupA, lg.disj, fun m hm => he ▸ lg.genuine m (Or.inl hm),
    fun m hm => he ▸ lg.genuine m (Or.inr hm), fun m hm => ?_⟩
  rcases lg.bound m hm with h | ⟨h, _⟩ <;> omega

/-- ... and, when the sequence goroutine is done and the program was not cancelled, the
received log contains EVERY message of EVERY element: nothing was lost -/
theorem C03_complete_when_done (elems : List Elem) (s : St) (hr : Reachable elems s)
    (hd : s.pc = .done) (hctx : s.ctxDone = false) (j : Nat) :
    ∀ m ∈ msgsOf elems j, m ∈ s.received := by
  intro m hm
  have sh := inv_shape hr
  have hlen : j < elems.length := by
    apply Classical.byContradiction
    intro h
    have : elems[j]? = none := List.getElem?_eq_none (by omega)
    simp [msgsOf, this] at hm
  have hdone := sh.done hd
  rw [sh.elems_eq] at hdone
  rcases (inv_log hr).prev j (by omega) m (by rw [sh.elems_eq]; exact hm) with h | h
  · exact h
  · rw [inv_abandoned hr hctx] at h; cases h

/-! ### nil commands and nil results do not stall the sequence -/

/-- PROGRESS. In every reachable state in which the sequence goroutine is not done, some step
other than `cancel` is enabled: the sequence never deadlocks (given that the event loop keeps
receiving, which is what the `recv` / `fanRecv` labels are) -/
theorem C03_nil_no_stall (elems : List Elem) (s : St) (hr : Reachable elems s)
    (hd : s.pc ≠ .done) : ∃ l, l ≠ Label.cancel ∧ (step s l).isSome := by
  obtain ⟨l, s', hl, hs⟩ := progress hr hd
  exact ⟨l, hl, by simp [hs]⟩

/-- at a nil command the loop just moves on (`continue`): `skipNil` is enabled and changes
nothing but the loop variable - nothing is started, sent or awaited -/
theorem C03_nil_cmd_skipped (s : St) (h1 : s.pc = .next) (h2 : s.elems[s.idx]? = some .nilCmd) :
    step s .skipNil = some { s with idx := s.idx + 1 } :=
  step_of_Step (.skipNil h1 h2)

/-- a nil RESULT is a message like any other here (Send(nil) hands nil to the event loop):
whenever the sequence goroutine is blocked in Send, the event loop's receive is enabled and
moves the sequence to the next element -/
theorem C03_nil_result_received (s : St) (h1 : s.pc = .sending) :
    step s .recv = some { s with pc := .next, idx := s.idx + 1,
                                 received := s.received ++ [⟨s.idx, 0⟩] } :=
  step_of_Step (.recv h1)

/-- a batch that is empty or whose entries are all nil starts no goroutine, and g.Wait()
returns immediately: `finishBatch` then `waitDone` lead straight to the next element -/
theorem C03_empty_batch_no_stall (s : St) (parts : List Bool) (h1 : s.pc = .running)
    (h2 : s.elems[s.idx]? = some (.batch parts)) (hall : ∀ b ∈ parts, b = false) :
    runLabels s [.finishBatch, .waitDone] = some { s with pc := .next, idx := s.idx + 1, fans := [] } := by
  have hf := fansOf_eq_nil_of_all_false parts hall
  have e1 := step_of_Step (.finishBatch parts h1 h2)
  rw [hf] at e1
  have e2 : step { s with pc := .waiting, fans := [] } .waitDone =
      some { s with pc := .next, idx := s.idx + 1, fans := [] } :=
    step_of_Step (.waitDone rfl (by simp))
  simp only [runLabels, e1, e2]

/-- whenever every goroutine of the fan-out has finished, `waitDone` is enabled -/
theorem C03_wait_done_enabled (s : St) (h1 : s.pc = .waiting)
    (hall : ∀ f ∈ s.fans, f.pc = .finished) : (step s .waitDone).isSome := by
  rw [step_of_Step (.waitDone h1 hall)]; rfl

/-- every step other than `cancel` strictly decreases `remaining` (defined in
Tea/Proofs/Sequence.lean: the number of steps the remaining elements still need: 1 per nil
command, 3 per plain command, 3 + 2 per goroutine for a batch, + 1 for leaving the loop),
and `cancel` leaves it unchanged -/
theorem C03_step_decreases (s s' : St) (l : Label) (hs : step s l = some s') :
    (l ≠ .cancel → remaining s' < remaining s) ∧ (l = .cancel → remaining s' = remaining s) := by
  refine ⟨remaining_decreases (step_inv hs), ?_⟩
  rintro rfl
  simp only [step] at hs
  injection hs with hs; subst hs; rfl

/-- TERMINATION BOUND. In every schedule whatsoever, the number of steps other than `cancel`
is at most `1 + Σ cost(element)`: the sequence cannot run forever -/
theorem C03_terminates_bound (elems : List Elem) (ls : List Label) (s : St)
    (h : runLabels (init elems) ls = some s) :
    (ls.filter (fun l => l != .cancel)).length ≤ 1 + (elems.map cost).sum := by
  have := runLabels_remaining h
  have h0 : remaining (init elems) = 1 + (elems.map cost).sum := by
    simp [remaining, init, tailCost]
  omega

/-- ... and from every reachable state there is a cancel-free continuation that completes the
sequence: together with `C03_nil_no_stall` (no non-final state is stuck) and
`C03_terminates_bound` (no infinite run), every maximal cancel-free run ends in `done` -/
theorem C03_can_finish (elems : List Elem) (s : St) (hr : Reachable elems s) :
    ∃ ls s', (∀ l ∈ ls, l ≠ Label.cancel) ∧ runLabels s ls = some s' ∧ s'.pc = .done :=
  can_finish hr

/-! ### non-vacuity: concrete schedules -/

/-- the element list used in the examples: a plain command, a nil command, a batch with a nil
entry in the middle, a plain command -/
def exElems : List Elem := [.plain, .nilCmd, .batch [true, false, true], .plain]

/-- a complete schedule in which the two goroutines of the batch finish, and are received, in
REVERSE order (part 2 before part 0) -/
def exSched : List Label :=
  [.start, .finishPlain, .recv, .skipNil, .start, .finishBatch,
   .fanFinish 1, .fanFinish 0, .fanRecv 1, .fanRecv 0, .waitDone,
   .start, .finishPlain, .recv, .finish]

/-- the result: commands 0, 2, 3 were started in this order (1 is nil), and the event loop
received element 0's message, then both batch messages (in reverse part order), then
element 3's -/
example : (runLabels (init exElems) exSched).map (fun s => (s.started, s.received, s.abandoned, s.pc))
    = some ([0, 2, 3], [⟨0, 0⟩, ⟨2, 2⟩, ⟨2, 0⟩, ⟨3, 0⟩], [], .done) := by decide

/-- the final state of that schedule is reachable, so all theorems above apply to it -/
example : ∃ s, Reachable exElems s ∧ s.pc = .done ∧ s.started = [0, 2, 3] := by
  have h : ∃ s, runLabels (init exElems) exSched = some s ∧ s.pc = .done ∧ s.started = [0, 2, 3] := by
    decide
  obtain ⟨s, h1, h2, h3⟩ := h
  exact ⟨s, (C03_reachable_iff_schedule _ _).2 ⟨_, h1⟩, h2, h3⟩

/-- while goroutine 0 of the batch is still blocked in Send, `waitDone` and `start` are NOT
enabled: element 3 cannot start before the whole batch was received -/
example : (runLabels (init exElems) (exSched.take 9)).map
    (fun s => (s.pc, s.received, (step s .waitDone).isSome, (step s .start).isSome))
    = some (.waiting, [⟨0, 0⟩, ⟨2, 2⟩], false, false) := by decide

/-- the messages of the example's elements -/
example : (List.range 4).map (msgsOf exElems) = [[⟨0, 0⟩], [], [⟨2, 0⟩, ⟨2, 2⟩], [⟨3, 0⟩]] := by
  decide

/-- the termination bound for the example list is 1 + (3 + 1 + 7 + 3) = 15, and `exSched`
(15 labels, none of them `cancel`) attains it -/
example : 1 + (exElems.map cost).sum = 15 ∧ exSched.length = 15 := by decide

/-- why `C03_order` says "received OR abandoned": under cancellation a Send may give up, and
the next command is then started although the previous message was never received. (Go: `Send`
selects on `p.ctx.Done()`.) `C03_order_running` is therefore restricted to `ctxDone = false` -/
example : (runLabels (init [.plain, .plain]) [.start, .finishPlain, .cancel, .abort, .start]).map
    (fun s => (s.started, s.received, s.abandoned)) = some ([0, 1], [], [⟨0, 0⟩]) := by decide

/-- an all-nil batch and an empty batch do not stall -/
example : (runLabels (init [.batch [false, false], .batch [], .plain])
    [.start, .finishBatch, .waitDone, .start, .finishBatch, .waitDone, .start]).map
    (fun s => (s.started, s.idx)) = some ([0, 1, 2], 2) := by decide

/-! ## the tie by histories: the trace checker of the `strace` stream (`Tea/Runtime/SeqTrace.lean`)

Recorded histories of real sequences (command starts, the loop's filter calls, the ends of its
episodes) are checked against the product of the Sequence LTS with the loop's books. The checker is
part of the correspondence machinery, not of the model; what is proved is that it cannot accept a
history the model does not have. -/
section Trace
open Tea.Runtime.SeqTrace Tea.Runtime.Life

/-- **ACCEPTED MEANS: THE MODEL HAS THAT RUN.** If the checker accepts the observations `obs` for a
sequence `elems`, the product has a run from its initial state - hidden steps, then a run whose
observable projection is exactly `obs` - and every state on it projects to a reachable state of the
Sequence LTS. -/
theorem C03_trace_checker_sound (elems : List Elem) (nils : List MsgId) (obs : List XLabel)
    (h : firstRejectedX elems nils obs = none) :
    ∃ hs0 s0 sN, (∀ l, l ∈ hs0 → l ∈ hiddenX (widthOf elems)) ∧
      runG (stepX nils) (initX elems) hs0 = some s0 ∧
      RunX nils (hiddenX (widthOf elems)) s0 obs sN ∧
      Reachable elems s0.seq ∧ Reachable elems sN.seq := by
  obtain ⟨hs0, s0, sN, hh, hr, hrun⟩ := firstRejectedX_sound elems nils obs h
  have r0 : Reachable elems s0.seq := runG_reach nils elems _ _ _ Reachable.init hr
  exact ⟨hs0, s0, sN, hh, hr, hrun, r0, hrun.reach r0⟩

/-- every step of the product is a step of the Sequence LTS or leaves its state alone: the product
only RESTRICTS the Sequence LTS (by what the loop can be seen doing), it adds no behaviour -/
theorem C03_trace_projects (nils : List MsgId) (x x' : XSt) (l : XLabel) (h : stepX nils x l = some x') :
    x'.seq = x.seq ∨ ∃ l', step x.seq l' = some x'.seq :=
  stepX_proj nils x x' l h

/-- so the theorems of this file hold along every accepted history; e.g. `C03_order`: at the end
of an accepted history, whenever element `k` has been started every message of every earlier
element has been received (or abandoned, after a cancellation) -/
theorem C03_trace_accepted_order (elems : List Elem) (nils : List MsgId) (obs : List XLabel)
    (h : firstRejectedX elems nils obs = none) :
    ∃ sN : XSt, Reachable elems sN.seq ∧
      ∀ k ∈ sN.seq.started, ∀ j, j < k → ∀ m ∈ msgsOf elems j, m ∈ sN.seq.received ∨ m ∈ sN.seq.abandoned := by
  obtain ⟨_, _, sN, _, _, _, _, rN⟩ := C03_trace_checker_sound elems nils obs h
  exact ⟨sN, rN, fun k hk j hj => C03_order elems sN.seq rN k hk j hj⟩

/-- the product is not vacuous: a plain command is started, the loop (idle after the episode that
handled the sequence message) takes its message and logs it -/
example : (runG (stepX []) (initX [.plain]) [.idle, .startPlain 0, .hid .finishPlain, .recv, .logSeq ⟨0, 0⟩,
    .idle, .hid .finish]).map (fun x => (x.seq.started, x.seq.received, x.seq.pc, x.busy)) =
    some ([0], [⟨0, 0⟩], .done, false) := by decide

/-- ... and the loop cannot take a message while it is busy, nor log an unrelated message while it
holds one of the sequence -/
example : runG (stepX []) (initX [.plain]) [.startPlain 0, .hid .finishPlain, .recv] = none ∧
    runG (stepX []) (initX [.plain]) [.idle, .startPlain 0, .hid .finishPlain, .recv, .logOther] = none := by decide

end Trace

end Tea.Props.C03
