import Tea.Gen.KeyTable
import Tea.Proofs.ChunkedRunes
import Tea.Proofs.ChunkedEvents
/-
Bridge theorems for C15: the key table regenerated from /repo's working tree (`Tea/Gen`)
satisfies the two table hypotheses of the C15 theorems.  (Same role as
`Tea/Props/BridgeInput.lean`, kept separate so that file is untouched; may be merged.)
-/
namespace Tea.Props.Bridge
open Tea Tea.Input

/-- every key sequence of the current table starts with ESC, a control character, the space or
DEL (hypothesis `ControlKeyed` of `C15_rune_run`, `C15_rune_straddle`, `C15_*_straddle`) -/
theorem control_keyed : Tea.Input.ControlKeyed Tea.Gen.extSequences :=
  Tea.Input.controlKeyed_of_B (by decide +kernel)

/-- some key sequence longer than one byte starts with ESC, so a lone ESC at the end of a
completely filled buffer is an incomplete event (hypothesis `hesc` of `C15_mouse_straddle`,
`C15_x10_straddle`) -/
theorem esc_is_proper_prefix : isProperPrefixOfKey Tea.Gen.extSequences [0x1b] = true := by
  decide +kernel

/-- the current key table and list of lengths satisfy every table hypothesis (`TableOK`) of
`C15_stream_events` (streams of events over any number of completely filled reads): so that
theorem is a theorem about the table the code uses now -/
theorem table_ok : TableOK Tea.Gen.extSequences Tea.Gen.seqLengths where
  consistent := consistent_of_nodupKeys _ (nodupKeys_of_sorted _ (by decide +kernel))
  introFree := by decide +kernel
  wf := wfTable_of_B (by decide +kernel)
  esc := esc_is_proper_prefix
  lensDesc := by decide
  lensAll := by decide +kernel
  lensPos := by decide

end Tea.Props.Bridge
