import Tea.Gen.KeyTable
import Tea.Proofs.ChunkedRunes
/-
Bridge theorems for C15: the key table regenerated from /repo's working tree (`Tea/Gen`)
satisfies the two table hypotheses of the C15 theorems.  (Same role as
`Tea/Props/BridgeInput.lean`, kept separate so that file is untouched; may be merged.)
-/
namespace Tea.Props.Bridge
open Tea Tea.Input

/-- every key sequence of the current table starts with ESC, a control character, the space or
DEL (hypothesis `ControlKeyed` of `C15_rune_run`, `C15_rune_straddle`, `C15_*_straddle`) -/
theorem control_keyed : Tea.Input.ControlKeyed Tea.Gen.extSequences :=
  Tea.Input.controlKeyed_of_B (by decide +kernel)

/-- some key sequence longer than one byte starts with ESC, so a lone ESC at the end of a
completely filled buffer is an incomplete event (hypothesis `hesc` of `C15_mouse_straddle`,
`C15_x10_straddle`) -/
theorem esc_is_proper_prefix : isProperPrefixOfKey Tea.Gen.extSequences [0x1b] = true := by
  decide +kernel

end Tea.Props.Bridge
