import Tea.Proofs.Modes
import Tea.Proofs.Tty
/-
C05 — The terminal is restored on every exit path (mode part).

"Whenever Run returns - after quit, Kill, context cancellation, interrupt, an input error,
a startup failure, or a recovered panic in Init, Update, View or any command - every
terminal setting Bubble Tea may have changed is back to its initial value: cursor visible,
main (not alternate) screen, mouse tracking and SGR mouse encoding off, bracketed paste
off, focus reporting off [...]. This holds for every combination of startup options and
every sequence of mode-changing commands issued while running."

Models: `restoreOps` (restoreTerminalState), `shutdownOps` (shutdown(kill)), `exitOps`
(the shutdown(s) of each exit path: `quit` = shutdown(false); `ctx` = shutdown(true) once -
context cancellation, interrupt, reader error, panic recovered on the main goroutine;
`killApi` = shutdown(true) twice - Kill() or a panic recovered in a command goroutine, then
Run's own shutdown), `runProgram` (Tea/Render/Program.lean), the renderer `step`
(Tea/Render/Model.lean) and the terminal `applyOps` / `modesOf` (Tea/VT/Term.lean).

`modesOf t = {}` is "every setting is at its initial value" (`restored_def`). `t0` is the
terminal the program starts on, in that state; its size, contents and cursor are arbitrary.
The general theorems start from ANY renderer / terminal pair whose tracked flags agree
(`Tracked`, an invariant of every renderer operation: `C05_tracked_flags_sound`), so the
point at which the exit strikes - during start-up, between any two commands, after a
renderer stop - does not matter. The tty's line discipline (raw mode) is modelled separately
(section 4 below, Tea/Render/Tty.lean); the input reader is outside these models.
Only property theorems live here; helper lemmas are in `Tea/Proofs/Modes.lean`.
-/
namespace Tea.Props.C05
open Tea Tea.VT Tea.Render

/-! ### vocabulary, restated -/

/-- `modesOf t = {}`: main screen, cursor visible, the three mouse modes, bracketed paste and
focus reporting off -/
theorem restored_def (t : Term) : modesOf t = {} ↔
    (t.onAlt = false ∧ t.cursorVis = true ∧ t.m1002 = false ∧ t.m1003 = false ∧
     t.m1006 = false ∧ t.m2004 = false ∧ t.m1004 = false) := by
  simp [modesOf]

/-- `Tracked r t`: the renderer's tracked flags agree with the terminal's modes -/
theorem tracked_def (r : RState) (t : Term) : Tracked r t ↔
    (r.altActive = t.onAlt ∧ r.bpActive = t.m2004 ∧ r.focusActive = t.m1004 ∧
     r.cursorHidden = !t.cursorVis) := Iff.rfl

/-! ### 1. the flags restoreTerminalState consults are right -/

/-- a fresh renderer agrees with a terminal in its initial state -/
theorem C05_tracked_initially (t0 : Term) (h0 : modesOf t0 = {}) : Tracked {} t0 := by
  rw [tracked_iff, h0]; exact tracked_init

/-- every renderer operation (all 23 kinds: views, flushes, sizes, prints, alt screen, cursor,
mouse, paste, focus, stop, kill, title) applied together with what it writes to the terminal
keeps the tracked flags equal to the terminal's modes -/
theorem C05_tracked_flags_sound (r : RState) (t : Term) (op : ROp) (hT : Tracked r t) :
    Tracked (step r op).1 (applyOps t (step r op).2) := by
  have := (run_tracked r t [op] hT).1
  simpa [runOps] using this

/-- ... hence after every history of renderer operations -/
theorem C05_tracked_flags_sound_history (r : RState) (t : Term) (h : List ROp)
    (hT : Tracked r t) : Tracked (runOps r h).1 (applyOps t (runOps r h).2) :=
  (run_tracked r t h hT).1

/-! ### 2. restore works from every state -/

/-- restoreTerminalState from ANY renderer / terminal pair whose tracked flags agree puts every
mode back to its initial value - whatever combination of the seven modes was set -/
theorem C05_restore_from_any_state (r : RState) (t : Term) (hT : Tracked r t) :
    modesOf (applyOps t (runOps r (restoreOps r)).2) = {} := by
  rw [(run_tracked r t _ hT).2, restore_spec r _ hT]

/-- in fact only two of the flags matter, and only in one direction: if the terminal is on the
alt screen the renderer knows it, and if focus reporting is on the renderer knows it. Cursor,
bracketed paste and the three mouse modes are reset unconditionally. -/
theorem C05_restore_needs_only_alt_focus (r : RState) (t : Term)
    (h1 : t.onAlt = true → r.altActive = true) (h2 : t.m1004 = true → r.focusActive = true) :
    modesOf (applyOps t (runOps r (restoreOps r)).2) = {} :=
  restore_weak r t h1 h2

/-- every shutdown sequence (one per exit path) from any agreeing state restores all modes, and
the renderer's own flags are back to their initial values as well -/
theorem C05_exit_from_any_state (r : RState) (t : Term) (k : ExitKind) (hT : Tracked r t) :
    modesOf (applyOps t (runOps r (exitOps r k)).2) = {} ∧
    (runOps r (exitOps r k)).1.altActive = false ∧ (runOps r (exitOps r k)).1.bpActive = false ∧
    (runOps r (exitOps r k)).1.focusActive = false ∧
    (runOps r (exitOps r k)).1.cursorHidden = false := by
  obtain ⟨h1, h2⟩ := run_tracked r t (exitOps r k) hT
  rw [exit_spec r _ k hT] at h2
  rw [tracked_iff, h2] at h1
  exact ⟨h2, h1⟩

/-- restoring twice is the same as restoring once (Kill followed by Run's own shutdown; a panic
handler followed by shutdown): the second restore finds everything at its initial value and
leaves it there -/
theorem C05_restore_idempotent (r : RState) (t : Term) (hT : Tracked r t) :
    let r1 := (runOps r (restoreOps r)).1
    let t1 := applyOps t (runOps r (restoreOps r)).2
    modesOf (applyOps t1 (runOps r1 (restoreOps r1)).2) = modesOf t1 := by
  intro r1 t1
  have hT1 : Tracked r1 t1 := (run_tracked r t _ hT).1
  rw [C05_restore_from_any_state r1 t1 hT1]
  exact (C05_restore_from_any_state r t hT).symm

/-! ### 3. whole runs -/

/-- MAIN THEOREM. For every combination of start-up options `o`, every sequence of mode commands
`cs` processed while running and every exit path `k`, when Run returns every mode is back to
its initial value. -/
theorem C05_restored (o : Opts) (cs : List ModeCmd) (k : ExitKind) (t0 : Term)
    (h0 : modesOf t0 = {}) :
    modesOf (applyOps t0 (runProgram o cs k).2) = {} := by
  rw [runProgram_out, applyOps_append]
  exact (C05_exit_from_any_state _ _ k
    (run_tracked {} t0 _ (C05_tracked_initially t0 h0)).1).1

/-- the same for ANY history `h` of renderer operations before the exit: any prefix of the
start-up sequence (a start-up failure part-way), the options and commands with views, flushes,
resizes and prints interleaved anywhere, commands arriving after a renderer stop - anything -/
theorem C05_restored_any_history (h : List ROp) (k : ExitKind) (t0 : Term)
    (h0 : modesOf t0 = {}) :
    let r1 := (runOps {} h).1
    modesOf (applyOps (applyOps t0 (runOps {} h).2) (runOps r1 (exitOps r1 k)).2) = {} :=
  (C05_exit_from_any_state _ _ k (run_tracked {} t0 h (C05_tracked_initially t0 h0)).1).1

/-- a start-up that fails after `n` of its steps (`n` arbitrary) and then shuts down -/
theorem C05_restored_startup_failure (o : Opts) (n : Nat) (k : ExitKind) (t0 : Term)
    (h0 : modesOf t0 = {}) :
    let r1 := (runOps {} ((startupOps o).take n)).1
    modesOf (applyOps (applyOps t0 (runOps {} ((startupOps o).take n)).2)
      (runOps r1 (exitOps r1 k)).2) = {} :=
  C05_restored_any_history _ k t0 h0

/-! ### non-vacuity: concrete runs -/

/-- an 80x24 terminal in its initial state -/
def term0 : Term := { w := 80, h := 24 }

/-- everything on (alt screen, focus, all-motion mouse, paste, hidden cursor), then each exit path -/
example :
    modesOf (applyOps term0 (runOps {} (startupOps { alt := true, focus := true, all := true })).2) =
      { alt := true, cursorVis := false, m1003 := true, m1006 := true, paste := true, focus := true } ∧
    modesOf (applyOps term0 (runProgram { alt := true, focus := true, all := true } [] .quit).2) = {} ∧
    modesOf (applyOps term0 (runProgram { alt := true, focus := true, all := true } [] .ctx).2) = {} ∧
    modesOf (applyOps term0 (runProgram { alt := true, focus := true, all := true } [] .killApi).2) = {} := by
  decide

/-- commands that leave and re-enter modes before a Kill -/
example :
    modesOf (applyOps term0
      (runProgram { alt := true, focus := true } [.mouseAll, .disableMouse, .exitAlt, .mouseCell] .killApi).2) = {} := by
  decide

/-- what quit writes after `WithAltScreen`, `WithReportFocus`: paste, cursor, mouse, focus, alt -/
example :
    modeOpsOf (runOps (runOps {} (startupOps { alt := true, focus := true })).1
      (exitOps (runOps {} (startupOps { alt := true, focus := true })).1 .quit)).2 =
    [(2004, false), (25, true), (1002, false), (1003, false), (1006, false), (1004, false),
     (1049, false), (25, true)] := by decide

/-- the hypothesis of `C05_restore_needs_only_alt_focus` cannot be dropped: a renderer that does
not know the terminal is on the alt screen leaves it there -/
example :
    modesOf (applyOps { term0 with onAlt := true } (runOps {} (restoreOps {})).2) =
      { alt := true } := by decide

/-! ### 4. the line discipline (termios) of the input terminal

"... and, when input is a terminal, its line-discipline (termios) settings identical to those
before Run. This holds for every combination of startup options and every sequence of
mode-changing commands issued while running [incl. exec]."

Model: Tea/Render/Tty.lean. The settings are an abstract value of an arbitrary type `σ`; `s0`
are the settings before Run; `raw : σ → σ` is an ARBITRARY function (what `term.MakeRaw` does).
`TtyState` = (`cur`: the terminal's settings now, `saved`: `previousTtyInputState`, `isTty`).
`initInput` remembers the CURRENT settings and applies `raw`; `restoreInput` puts the remembered
settings back (and keeps them). `runTty raw isTty s0 evs k` = start-up (`initInput`), the
events `evs` (`exec` = ReleaseTerminal; command; RestoreTerminal - `releaseOnly` / `restoreOnly`
= the application calling ReleaseTerminal / RestoreTerminal itself), the exit `k` (`restoreInput`
once for `quit` / `ctx`, twice for `killApi`). Options and mode commands do not touch termios,
so they do not appear. Assumed: MakeRaw / Restore succeed; nobody else (in particular the
command run by exec) leaves the settings changed. Helper lemmas: Tea/Proofs/Tty.lean. -/

section Termios
variable {σ : Type}

/-- vocabulary, restated -/
theorem runTty_def (raw : σ → σ) (isTty : Bool) (s0 : σ) (evs : List TtyEvent) (k : ExitKind) :
    runTty raw isTty s0 evs k =
      { final := ttyExit (ttyEvents raw (initInput raw ⟨s0, none, isTty⟩) evs) k
        during := ttyDuringAll raw (initInput raw ⟨s0, none, isTty⟩) evs
        between := (initInput raw ⟨s0, none, isTty⟩).cur ::
          ttyBetweenAll raw (initInput raw ⟨s0, none, isTty⟩) evs } := rfl

theorem initInput_def (raw : σ → σ) (c : σ) (sv : Option σ) :
    initInput raw ⟨c, sv, true⟩ = ⟨raw c, some c, true⟩ ∧ initInput raw ⟨c, sv, false⟩ = ⟨c, sv, false⟩ :=
  ⟨rfl, rfl⟩

theorem restoreInput_def (c s : σ) (sv : Option σ) :
    restoreInput ⟨c, some s, true⟩ = ⟨s, some s, true⟩ ∧ restoreInput ⟨c, none, true⟩ = ⟨c, none, true⟩ ∧
    restoreInput ⟨c, sv, false⟩ = ⟨c, sv, false⟩ :=
  ⟨rfl, rfl, rfl⟩

theorem ttyStep_def (raw : σ → σ) (t : TtyState σ) :
    ttyStep raw t .exec = initInput raw (restoreInput t) ∧
    ttyStep raw t .releaseOnly = restoreInput t ∧
    ttyStep raw t .restoreOnly = initInput raw t :=
  ⟨rfl, rfl, rfl⟩

/-- TERMIOS MAIN THEOREM. For all settings `s0` before Run, every `raw`, any number of Execs
(every history consisting of `exec` events), every exit path, terminal or not: when Run returns
the settings are `s0` again. On a terminal the whole final state is known: `s0` is still
remembered. -/
theorem C05_termios_restored (raw : σ → σ) (isTty : Bool) (s0 : σ) (evs : List TtyEvent)
    (k : ExitKind) (h : ∀ e ∈ evs, e = .exec) :
    (runTty raw isTty s0 evs k).final.cur = s0 ∧
    (isTty = true → (runTty raw isTty s0 evs k).final = ⟨s0, some s0, true⟩) := by
  cases isTty with
  | false =>
    have h1 := (events_notTty raw (ttyFresh false s0) evs rfl).1
    refine ⟨?_, by simp⟩
    show (ttyExit (ttyEvents raw (ttyFresh false s0) evs) k).cur = s0
    rw [h1, ttyExit_eq, restoreInput_fresh]; rfl
  | true =>
    have h1 := (execs_taken raw s0 evs h).1
    have hf : (runTty raw true s0 evs k).final = ⟨s0, some s0, true⟩ := by
      show ttyExit (ttyEvents raw (taken raw s0) evs) k = released s0
      rw [h1, ttyExit_taken]
    exact ⟨by rw [hf], fun _ => hf⟩

/-- the same when the history contains `releaseOnly` events anywhere - in particular when it ends
with them (quit while released): for every history WITHOUT `restoreOnly` -/
theorem C05_termios_restored_release (raw : σ → σ) (isTty : Bool) (s0 : σ) (evs : List TtyEvent)
    (k : ExitKind) (h : ∀ e ∈ evs, e ≠ .restoreOnly) :
    (runTty raw isTty s0 evs k).final.cur = s0 := by
  cases isTty with
  | false =>
    have h1 := (events_notTty raw (ttyFresh false s0) evs rfl).1
    show (ttyExit (ttyEvents raw (ttyFresh false s0) evs) k).cur = s0
    rw [h1, ttyExit_eq, restoreInput_fresh]; rfl
  | true =>
    obtain ⟨rel, h1⟩ := alternating_phase raw s0 evs false (alternating_of_no_restoreOnly evs false h)
    show (ttyExit (ttyEvents raw (phase raw s0 false) evs) k).cur = s0
    rw [h1, ttyExit_phase]; rfl

/-- the literal form: `n` Execs, then `m` ReleaseTerminal calls, then the exit -/
theorem C05_termios_restored_release_tail (raw : σ → σ) (isTty : Bool) (s0 : σ) (n m : Nat)
    (k : ExitKind) :
    (runTty raw isTty s0 (List.replicate n .exec ++ List.replicate m .releaseOnly) k).final.cur = s0 := by
  apply C05_termios_restored_release
  intro e he
  rw [List.mem_append] at he
  rcases he with he | he <;> rw [List.eq_of_mem_replicate he] <;> decide

/-- the exact scope: every history in which releases and restores ALTERNATE - `restoreOnly` only
while released, `exec` and `releaseOnly` anywhere (`alternating`, Tea/Render/Tty.lean) -/
theorem C05_termios_restored_alternating (raw : σ → σ) (s0 : σ) (evs : List TtyEvent)
    (k : ExitKind) (h : alternating false evs = true) :
    (runTty raw true s0 evs k).final = ⟨s0, some s0, true⟩ := by
  obtain ⟨rel, h1⟩ := alternating_phase raw s0 evs false h
  show ttyExit (ttyEvents raw (phase raw s0 false) evs) k = released s0
  rw [h1, ttyExit_phase]

/-- if the input is not a terminal nothing is ever changed: for EVERY history (misuse included)
and every exit the state is the initial one, nothing is remembered, and the settings every
external command finds and those between the events are `s0` -/
theorem C05_termios_not_tty (raw : σ → σ) (s0 : σ) (evs : List TtyEvent) (k : ExitKind) :
    (runTty raw false s0 evs k).final = ⟨s0, none, false⟩ ∧
    (∀ x ∈ (runTty raw false s0 evs k).during, x = s0) ∧
    (∀ x ∈ (runTty raw false s0 evs k).between, x = s0) := by
  obtain ⟨h1, h2, h3⟩ := events_notTty raw (ttyFresh false s0) evs rfl
  refine ⟨?_, h2, ?_⟩
  · show ttyExit (ttyEvents raw (ttyFresh false s0) evs) k = ttyFresh false s0
    rw [h1, ttyExit_eq, restoreInput_fresh]
  · intro x hx
    have hx' : x ∈ s0 :: ttyBetweenAll raw (ttyFresh false s0) evs := hx
    rw [List.mem_cons] at hx'
    rcases hx' with hx' | hx'
    · exact hx'
    · exact h3 x hx'

/-- MISUSE, outside the scope of `C05_termios_restored`: RestoreTerminal called while the
terminal is NOT released (twice in a row, or without a ReleaseTerminal) remembers the RAW
settings in place of the original ones; every later restore - Execs before and after make no
difference, nor does the exit path - puts the raw settings back. When Run returns the settings
are `raw s0`, and they differ from `s0` as soon as `raw` changes `s0`. -/
theorem C05_termios_double_restore_misuse (raw : σ → σ) (s0 : σ) (evs1 evs2 : List TtyEvent)
    (k : ExitKind) (h1 : ∀ e ∈ evs1, e = .exec) (h2 : ∀ e ∈ evs2, e = .exec) :
    (runTty raw true s0 (evs1 ++ [.restoreOnly] ++ evs2) k).final = ⟨raw s0, some (raw s0), true⟩ ∧
    (raw s0 ≠ s0 → (runTty raw true s0 (evs1 ++ [.restoreOnly] ++ evs2) k).final.cur ≠ s0) := by
  have hf : (runTty raw true s0 (evs1 ++ [.restoreOnly] ++ evs2) k).final =
      ⟨raw s0, some (raw s0), true⟩ := by
    show ttyExit (ttyEvents raw (taken raw s0) (evs1 ++ [.restoreOnly] ++ evs2)) k = released (raw s0)
    rw [ttyEvents_append, ttyEvents_append, (execs_taken raw s0 evs1 h1).1]
    show ttyExit (ttyEvents raw (taken raw (raw s0)) evs2) k = released (raw s0)
    rw [(execs_taken raw (raw s0) evs2 h2).1, ttyExit_taken]
  exact ⟨hf, fun hne => by rw [hf]; exact hne⟩

/-- the commands run by the Execs AFTER the misuse find the raw settings, not the original ones -/
theorem C05_termios_double_restore_misuse_during (raw : σ → σ) (s0 : σ) (evs2 : List TtyEvent)
    (k : ExitKind) (h2 : ∀ e ∈ evs2, e = .exec) :
    (runTty raw true s0 (.restoreOnly :: evs2) k).during = List.replicate evs2.length (raw s0) := by
  show [] ++ ttyDuringAll raw (taken raw (raw s0)) evs2 = _
  rw [(execs_taken raw (raw s0) evs2 h2).2.1]; rfl

/-- start-up failure: `initInput` succeeded, a later start-up step failed, and Run's early-return
path calls `restoreTerminalState`: the settings are `s0` again (terminal or not). If the failure
comes before `initInput`, or MakeRaw itself fails, nothing is remembered and nothing is done. -/
theorem C05_termios_startup_failure (raw : σ → σ) (isTty : Bool) (s0 : σ) :
    (startupFailureTty raw isTty s0).cur = s0 ∧
    restoreInput (⟨s0, none, isTty⟩ : TtyState σ) = ⟨s0, none, isTty⟩ := by
  cases isTty <;> exact ⟨rfl, rfl⟩

/-- Kill() followed by Run's own shutdown: the second `restoreInput` changes nothing, in any state -/
theorem C05_termios_restore_idempotent (t : TtyState σ) :
    restoreInput (restoreInput t) = restoreInput t :=
  restoreInput_idem t

end Termios

/-! ### non-vacuity (termios): σ = Nat, raw = (· + 100), settings 7 before Run -/

/-- three Execs then each exit path; quit while released; not a terminal -/
example :
    runTty (· + 100) true 7 [.exec, .exec, .exec] .quit =
      { final := ⟨7, some 7, true⟩, during := [7, 7, 7], between := [107, 107, 107, 107] } ∧
    (runTty (· + 100) true 7 [.exec, .exec, .exec] .ctx).final.cur = 7 ∧
    (runTty (· + 100) true 7 [.exec, .exec, .exec] .killApi).final.cur = 7 ∧
    runTty (· + 100) true 7 [] .killApi = { final := ⟨7, some 7, true⟩, during := [], between := [107] } ∧
    runTty (· + 100) true 7 [.exec, .releaseOnly, .releaseOnly] .quit =
      { final := ⟨7, some 7, true⟩, during := [7], between := [107, 107, 7, 7] } ∧
    runTty (· + 100) true 7 [.releaseOnly, .restoreOnly, .exec] .quit =
      { final := ⟨7, some 7, true⟩, during := [7], between := [107, 7, 107, 107] } ∧
    runTty (· + 100) false 7 [.exec, .restoreOnly, .restoreOnly] .killApi =
      { final := ⟨7, none, false⟩, during := [7], between := [7, 7, 7, 7] } := by
  decide

/-- the misuse: a second RestoreTerminal remembers 107; the next command finds 107 and so does
the shell after Run; a third one would remember 207 -/
example :
    runTty (· + 100) true 7 [.exec, .restoreOnly, .exec] .quit =
      { final := ⟨107, some 107, true⟩, during := [7, 107], between := [107, 107, 207, 207] } ∧
    (runTty (· + 100) true 7 [.restoreOnly, .restoreOnly] .killApi).final = ⟨207, some 207, true⟩ ∧
    alternating false [.exec, .restoreOnly, .exec] = false ∧
    alternating false [.releaseOnly, .restoreOnly, .exec] = true := by
  decide

/-- start-up failure after `initInput`: raw mode had been entered, and is left again -/
example :
    initInput (· + 100) (ttyFresh true 7) = ⟨107, some 7, true⟩ ∧
    startupFailureTty (· + 100) true 7 = ⟨7, some 7, true⟩ ∧
    startupFailureTty (· + 100) false 7 = ⟨7, none, false⟩ := by
  decide

end Tea.Props.C05
