import Tea.Proofs.Modes
/-
C05 — The terminal is restored on every exit path (mode part).

"Whenever Run returns - after quit, Kill, context cancellation, interrupt, an input error,
a startup failure, or a recovered panic in Init, Update, View or any command - every
terminal setting Bubble Tea may have changed is back to its initial value: cursor visible,
main (not alternate) screen, mouse tracking and SGR mouse encoding off, bracketed paste
off, focus reporting off [...]. This holds for every combination of startup options and
every sequence of mode-changing commands issued while running."

Models: `restoreOps` (restoreTerminalState), `shutdownOps` (shutdown(kill)), `exitOps`
(the shutdown(s) of each exit path: `quit` = shutdown(false); `ctx` = shutdown(true) once -
context cancellation, interrupt, reader error, panic recovered on the main goroutine;
`killApi` = shutdown(true) twice - Kill() or a panic recovered in a command goroutine, then
Run's own shutdown), `runProgram` (Tea/Render/Program.lean), the renderer `step`
(Tea/Render/Model.lean) and the terminal `applyOps` / `modesOf` (Tea/VT/Term.lean).

`modesOf t = {}` is "every setting is at its initial value" (`restored_def`). `t0` is the
terminal the program starts on, in that state; its size, contents and cursor are arbitrary.
The general theorems start from ANY renderer / terminal pair whose tracked flags agree
(`Tracked`, an invariant of every renderer operation: `C05_tracked_flags_sound`), so the
point at which the exit strikes - during start-up, between any two commands, after a
renderer stop - does not matter. The tty's line discipline (raw mode) and the input
reader are outside these models.
Only property theorems live here; helper lemmas are in `Tea/Proofs/Modes.lean`.
-/
namespace Tea.Props.C05
open Tea Tea.VT Tea.Render

/-! ### vocabulary, restated -/

/-- `modesOf t = {}`: main screen, cursor visible, the three mouse modes, bracketed paste and
focus reporting off -/
theorem restored_def (t : Term) : modesOf t = {} ↔
    (t.onAlt = false ∧ t.cursorVis = true ∧ t.m1002 = false ∧ t.m1003 = false ∧
     t.m1006 = false ∧ t.m2004 = false ∧ t.m1004 = false) := by
  simp [modesOf]

/-- `Tracked r t`: the renderer's tracked flags agree with the terminal's modes -/
theorem tracked_def (r : RState) (t : Term) : Tracked r t ↔
    (r.altActive = t.onAlt ∧ r.bpActive = t.m2004 ∧ r.focusActive = t.m1004 ∧
     r.cursorHidden = !t.cursorVis) := Iff.rfl

/-! ### 1. the flags restoreTerminalState consults are right -/

/-- a fresh renderer agrees with a terminal in its initial state -/
theorem C05_tracked_initially (t0 : Term) (h0 : modesOf t0 = {}) : Tracked {} t0 := by
  rw [tracked_iff, h0]; exact tracked_init

/-- every renderer operation (all 23 kinds: views, flushes, sizes, prints, alt screen, cursor,
mouse, paste, focus, stop, kill, title) applied together with what it writes to the terminal
keeps the tracked flags equal to the terminal's modes -/
theorem C05_tracked_flags_sound (r : RState) (t : Term) (op : ROp) (hT : Tracked r t) :
    Tracked (step r op).1 (applyOps t (step r op).2) := by
  have := (run_tracked r t [op] hT).1
  simpa [runOps] using this

/-- ... hence after every history of renderer operations -/
theorem C05_tracked_flags_sound_history (r : RState) (t : Term) (h : List ROp)
    (hT : Tracked r t) : Tracked (runOps r h).1 (applyOps t (runOps r h).2) :=
  (run_tracked r t h hT).1

/-! ### 2. restore works from every state -/

/-- restoreTerminalState from ANY renderer / terminal pair whose tracked flags agree puts every
mode back to its initial value - whatever combination of the seven modes was set -/
theorem C05_restore_from_any_state (r : RState) (t : Term) (hT : Tracked r t) :
    modesOf (applyOps t (runOps r (restoreOps r)).2) = {} := by
  rw [(run_tracked r t _ hT).2, restore_spec r _ hT]

/-- in fact only two of the flags matter, and only in one direction: if the terminal is on the
alt screen the renderer knows it, and if focus reporting is on the renderer knows it. Cursor,
bracketed paste and the three mouse modes are reset unconditionally. -/
theorem C05_restore_needs_only_alt_focus (r : RState) (t : Term)
    (h1 : t.onAlt = true → r.altActive = true) (h2 : t.m1004 = true → r.focusActive = true) :
    modesOf (applyOps t (runOps r (restoreOps r)).2) = {} :=
  restore_weak r t h1 h2

/-- every shutdown sequence (one per exit path) from any agreeing state restores all modes, and
the renderer's own flags are back to their initial values as well -/
theorem C05_exit_from_any_state (r : RState) (t : Term) (k : ExitKind) (hT : Tracked r t) :
    modesOf (applyOps t (runOps r (exitOps r k)).2) = {} ∧
    (runOps r (exitOps r k)).1.altActive = false ∧ (runOps r (exitOps r k)).1.bpActive = false ∧
    (runOps r (exitOps r k)).1.focusActive = false ∧
    (runOps r (exitOps r k)).1.cursorHidden = false := by
  obtain ⟨h1, h2⟩ := run_tracked r t (exitOps r k) hT
  rw [exit_spec r _ k hT] at h2
  rw [tracked_iff, h2] at h1
  exact ⟨h2, h1⟩

/-- restoring twice is the same as restoring once (Kill followed by Run's own shutdown; a panic
handler followed by shutdown): the second restore finds everything at its initial value and
leaves it there -/
theorem C05_restore_idempotent (r : RState) (t : Term) (hT : Tracked r t) :
    let r1 := (runOps r (restoreOps r)).1
    let t1 := applyOps t (runOps r (restoreOps r)).2
    modesOf (applyOps t1 (runOps r1 (restoreOps r1)).2) = modesOf t1 := by
  intro r1 t1
  have hT1 : Tracked r1 t1 := (run_tracked r t _ hT).1
  rw [C05_restore_from_any_state r1 t1 hT1]
  exact (C05_restore_from_any_state r t hT).symm

/-! ### 3. whole runs -/

/-- MAIN THEOREM. For every combination of start-up options `o`, every sequence of mode commands
`cs` processed while running and every exit path `k`, when Run returns every mode is back to
its initial value. -/
theorem C05_restored (o : Opts) (cs : List ModeCmd) (k : ExitKind) (t0 : Term)
    (h0 : modesOf t0 = {}) :
    modesOf (applyOps t0 (runProgram o cs k).2) = {} := by
  rw [runProgram_out, applyOps_append]
  exact (C05_exit_from_any_state _ _ k
    (run_tracked {} t0 _ (C05_tracked_initially t0 h0)).1).1

/-- the same for ANY history `h` of renderer operations before the exit: any prefix of the
start-up sequence (a start-up failure part-way), the options and commands with views, flushes,
resizes and prints interleaved anywhere, commands arriving after a renderer stop - anything -/
theorem C05_restored_any_history (h : List ROp) (k : ExitKind) (t0 : Term)
    (h0 : modesOf t0 = {}) :
    let r1 := (runOps {} h).1
    modesOf (applyOps (applyOps t0 (runOps {} h).2) (runOps r1 (exitOps r1 k)).2) = {} :=
  (C05_exit_from_any_state _ _ k (run_tracked {} t0 h (C05_tracked_initially t0 h0)).1).1

/-- a start-up that fails after `n` of its steps (`n` arbitrary) and then shuts down -/
theorem C05_restored_startup_failure (o : Opts) (n : Nat) (k : ExitKind) (t0 : Term)
    (h0 : modesOf t0 = {}) :
    let r1 := (runOps {} ((startupOps o).take n)).1
    modesOf (applyOps (applyOps t0 (runOps {} ((startupOps o).take n)).2)
      (runOps r1 (exitOps r1 k)).2) = {} :=
  C05_restored_any_history _ k t0 h0

/-! ### non-vacuity: concrete runs -/

/-- an 80x24 terminal in its initial state -/
def term0 : Term := { w := 80, h := 24 }

/-- everything on (alt screen, focus, all-motion mouse, paste, hidden cursor), then each exit path -/
example :
    modesOf (applyOps term0 (runOps {} (startupOps { alt := true, focus := true, all := true })).2) =
      { alt := true, cursorVis := false, m1003 := true, m1006 := true, paste := true, focus := true } ∧
    modesOf (applyOps term0 (runProgram { alt := true, focus := true, all := true } [] .quit).2) = {} ∧
    modesOf (applyOps term0 (runProgram { alt := true, focus := true, all := true } [] .ctx).2) = {} ∧
    modesOf (applyOps term0 (runProgram { alt := true, focus := true, all := true } [] .killApi).2) = {} := by
  decide

/-- commands that leave and re-enter modes before a Kill -/
example :
    modesOf (applyOps term0
      (runProgram { alt := true, focus := true } [.mouseAll, .disableMouse, .exitAlt, .mouseCell] .killApi).2) = {} := by
  decide

/-- what quit writes after `WithAltScreen`, `WithReportFocus`: paste, cursor, mouse, focus, alt -/
example :
    modeOpsOf (runOps (runOps {} (startupOps { alt := true, focus := true })).1
      (exitOps (runOps {} (startupOps { alt := true, focus := true })).1 .quit)).2 =
    [(2004, false), (25, true), (1002, false), (1003, false), (1006, false), (1004, false),
     (1049, false), (25, true)] := by decide

/-- the hypothesis of `C05_restore_needs_only_alt_focus` cannot be dropped: a renderer that does
not know the terminal is on the alt screen leaves it there -/
example :
    modesOf (applyOps { term0 with onAlt := true } (runOps {} (restoreOps {})).2) =
      { alt := true } := by decide

end Tea.Props.C05
