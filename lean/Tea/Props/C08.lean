import Tea.Proofs.SequencesTail
import Tea.Proofs.InputReader
import Tea.Doc.KeyTable
/-
C08 — Every documented key sequence decodes to its key, in any context.

"Every documented escape sequence, control character and printableScalar character decodes to
the documented key (type, characters, alt flag) when it arrives alone, with an ESC prefix
meaning alt, or anywhere inside a stream of other well-formed events read together; the
longest known sequence always wins, consecutive printableScalar characters arrive as one rune
message in order, space and NUL keep their dedicated keys, unknown CSI sequences are
consumed whole instead of leaking as text, a focus-in/out report arriving on its own
becomes a focus/blur message, and decoded events are delivered in input order."

The theorems are about the model of key.go / key_sequences.go in `Tea/Input`
(`detectOneMsg T lens b more`), where the key table `T` and the list of lengths `lens`
are parameters. The general theorems hold for EVERY table; the `doc` theorems instantiate
them with the table the code derives from the frozen documented table:
`docTable = deriveExt Tea.Doc.sequences`, `docLens = descLengths docTable`
(`Tea/Input/RefDecoder.lean` restates the derivation of `extSequences` / `seqLengths`).

Vocabulary (all in `Tea/Input/RefDecoder.lean`, a spec file):
* `deriveExt S`       the extended table: every documented sequence, its ESC-prefixed alt variant,
                      the control characters alone and after ESC, space, alt+space, alt+escape;
* `descLengths T`     the distinct key lengths of `T`, largest first;
* `Consistent T`      every entry is found under its own sequence (no conflicting duplicates);
* `NoIntroducer b`    `b` is not taken by the mouse / focus / paste detectors that run before the
                      key table (decidable, syntactic);
* `introFreeB T`      no key of `T` is comparable with `ESC [ M`, `ESC [ <`, the paste start marker,
                      and no key is a prefix of `ESC [ I` / `ESC [ O`;
* `NotExtended T s rest`  no key of `T` that is a prefix of `s ++ rest` is longer than `s`;
* `NoKeyPrefix T b`   no key of `T` is a prefix of `b`;
* `WFTable T`         every key starts with a control byte, space or DEL;
* `printableScalar r`       valid scalar, not a control character, not space, not DEL, not U+FFFD;
* `stopsRun rest`     `rest` is empty or starts with something the rune loop stops at;
* `StreamOK T lens evs`  each event of the stream decodes to its message in front of the rest.
Only property theorems live here; helper lemmas are in `Tea/Proofs/Sequences.lean` and
`Tea/Proofs/SequencesTail.lean`.
-/
namespace Tea.Props.C08
open Tea Tea.Input Tea.Utf8

/-- the table the code derives from the documented table -/
abbrev docTable : Table := deriveExt Tea.Doc.sequences
/-- the lengths the code tries, largest first -/
abbrev docLens : List Nat := descLengths docTable

/-! ### 0. facts about the derivation, checked on the documented table -/

/-- `descLengths` is strictly descending, lists the length of every key, and nothing else -/
theorem C08_descLengths (T : Table) :
    (descLengths T).Pairwise (· > ·) ∧ (∀ e ∈ T, e.seq.length ∈ descLengths T) ∧
    (∀ l ∈ descLengths T, ∃ e ∈ T, e.seq.length = l) :=
  ⟨descLengths_pairwise T, fun e he => (mem_descLengths T _).2 ⟨e, he, rfl⟩,
   fun l hl => (mem_descLengths T l).1 hl⟩

/-- the lengths derived from the documented table -/
theorem C08_doc_lens : docLens = [8, 7, 6, 5, 4, 3, 2, 1] := by decide +kernel

/-- the derivation has no conflicting duplicates on ANY documented table that is strictly sorted
by sequence and whose sequences all have the shape `ESC c _ ...` with `c ≠ ESC`: first-match
lookup (the model) and last-write-wins (a Go map) agree, in whatever order the map is filled. -/
theorem C08_derive_consistent (S : Table) (hsorted : sortedKeysB S = true) (hshape : docShapeB S = true) :
    Consistent (deriveExt S) :=
  consistent_deriveExt hsorted hshape

/-- the documented table is strictly sorted and has that shape (two linear checks) -/
theorem C08_doc_sorted : sortedKeysB Tea.Doc.sequences = true ∧ docShapeB Tea.Doc.sequences = true := by
  constructor <;> decide +kernel

/-- so every entry of the derived documented table is found under its own sequence -/
theorem C08_doc_consistent : Consistent docTable :=
  consistent_deriveExt C08_doc_sorted.1 C08_doc_sorted.2

/-- no key of the derived documented table is comparable with a mouse / paste introducer or is a
prefix of a focus report (some keys extend `ESC [ O`: `ESC [ O A` is shift+up) -/
theorem C08_doc_introFree : introFreeB docTable = true := by decide +kernel

/-- every key of the derived documented table starts with a control byte, space or DEL -/
theorem C08_doc_wf : WFTable docTable := wfTable_of_B (by decide +kernel)

/-! ### 1. the longest known sequence always wins -/

/-- "the longest known sequence always wins": when the lengths are tried in strictly descending
order and include the length of every key, the length loop of detectSequence returns a key of the
table that is a prefix of the input, and no key that is a prefix of the input is longer. -/
theorem C08_longest_wins (T : Table) (b : Bytes) (lens : List Nat)
    (hdesc : lens.Pairwise (· > ·)) (hall : ∀ e ∈ T, e.seq.length ∈ lens)
    (sz : Nat) (k : Key) (h : lookupLens T b lens = some (sz, k)) :
    T.lookup (b.take sz) = some k ∧ sz ≤ b.length ∧
    ∀ e ∈ T, e.seq <+: b → e.seq.length ≤ sz := by
  have h1 := lookupLens_bound T b lens sz k h
  exact ⟨h1.2.2, h1.1, lookupLens_longest T b lens hdesc (coversPrefixes_of_all hall b) sz k h⟩

/-- a known sequence at the start of the input is never missed -/
theorem C08_known_prefix_found (T : Table) (b : Bytes) (lens : List Nat)
    (hall : ∀ e ∈ T, e.seq.length ∈ lens) (e : Entry) (he : e ∈ T) (hpre : e.seq <+: b) :
    lookupLens T b lens ≠ none :=
  lookupLens_ne_none T b lens (coversPrefixes_of_all hall b) e he hpre

/-! ### 2. a key in any context -/

/-- a key of the table (`hfirst`: the first entry with its sequence), followed by ANY bytes `rest`
that do not extend it to a longer key, decodes to exactly that key and consumes exactly its bytes.
`hmore`: the read did not fill the buffer, or the buffer is not a possibly-incomplete event. -/
theorem C08_in_context (T : Table) (lens : List Nat) (e : Entry) (rest : Bytes) (more : Bool)
    (hdesc : lens.Pairwise (· > ·)) (hall : ∀ e ∈ T, e.seq.length ∈ lens)
    (he : e ∈ T) (hfirst : T.lookup e.seq = some e.key) (hne : NotExtended T e.seq rest)
    (hmore : more = false ∨ isIncompleteEvent T (e.seq ++ rest) = false)
    (hni : NoIntroducer (e.seq ++ rest) = true) :
    detectOneMsg T lens (e.seq ++ rest) more = .ok (e.seq.length, some (.key e.key)) :=
  detectOneMsg_key T lens e rest more hdesc (coversPrefixes_of_all hall _) he hfirst hne hmore hni

/-- in a table that passes the `introFreeB` check, a key followed by anything is never mistaken
for a mouse report, a focus report or a paste -/
theorem C08_no_introducer (T : Table) (hT : introFreeB T = true) (e : Entry) (he : e ∈ T) (rest : Bytes) :
    NoIntroducer (e.seq ++ rest) = true :=
  noIntroducer_of_introFree hT he rest

/-- a key that is not a proper prefix of another key is never extended, whatever follows -/
theorem C08_maximal_not_extended (T : Table) (s : Bytes) (h : isProperPrefixOfKey T s = false)
    (rest : Bytes) : NotExtended T s rest :=
  notExtended_of_not_properPrefix h rest

/-- the documented table: EVERY entry of the derived table, followed by any bytes that do not
extend it to a longer key, decodes to its documented key (type, runes, alt flag) and consumes
exactly its own bytes. -/
theorem C08_doc_in_context (e : Entry) (he : e ∈ docTable) (rest : Bytes) (more : Bool)
    (hne : NotExtended docTable e.seq rest)
    (hmore : more = false ∨ isIncompleteEvent docTable (e.seq ++ rest) = false) :
    detectOneMsg docTable docLens (e.seq ++ rest) more = .ok (e.seq.length, some (.key e.key)) :=
  C08_in_context docTable docLens e rest more (descLengths_pairwise _)
    (fun e he => (mem_descLengths _ _).2 ⟨e, he, rfl⟩) he (C08_doc_consistent e he) hne hmore
    (noIntroducer_of_introFree C08_doc_introFree he rest)

/-! ### 3. a key alone; ESC prefix means alt -/

/-- any consistent, intro-free table with its derived lengths: every entry arriving alone (short
read) decodes to its key -/
theorem C08_alone_general (T : Table) (hc : Consistent T) (hi : introFreeB T = true) :
    ∀ e ∈ T, detectOneMsg T (descLengths T) e.seq false = .ok (e.seq.length, some (.key e.key)) := by
  intro e he
  have := C08_in_context T (descLengths T) e [] false (descLengths_pairwise _)
    (fun e he => (mem_descLengths _ _).2 ⟨e, he, rfl⟩) he (hc e he) (notExtended_nil T e.seq) (Or.inl rfl)
    (noIntroducer_of_introFree hi he [])
  simpa using this

/-- every entry of the table derived from the documented table (299 entries: the 142 documented
sequences, their ESC-prefixed alt variants, the control characters with and without ESC, space,
alt+space, alt+escape) decodes, alone, to its documented key -/
theorem C08_alone : ∀ e ∈ docTable,
    detectOneMsg docTable docLens e.seq false = .ok (e.seq.length, some (.key e.key)) :=
  C08_alone_general docTable C08_doc_consistent C08_doc_introFree

/-- every documented sequence itself is in the derived table with its documented key -/
theorem C08_doc_kept : ∀ e ∈ Tea.Doc.sequences, docTable.lookup e.seq = some e.key :=
  fun e he => C08_doc_consistent e (mem_deriveExt_of_mem he)

/-- "with an ESC prefix meaning alt": for every documented non-alt sequence, ESC followed by the
sequence is the same key with the alt flag set -/
theorem C08_alt_is_esc : ∀ e ∈ Tea.Doc.sequences, e.key.alt = false →
    docTable.lookup (27 :: e.seq) = some { e.key with alt := true } :=
  fun _ he halt => C08_doc_consistent _ (mem_deriveExt_alt he halt)

/-- ... and that ESC-prefixed sequence, arriving alone, decodes to the alt key -/
theorem C08_alt_alone : ∀ e ∈ Tea.Doc.sequences, e.key.alt = false →
    detectOneMsg docTable docLens (27 :: e.seq) false =
      .ok (e.seq.length + 1, some (.key { e.key with alt := true })) :=
  fun _ he halt => C08_alone _ (mem_deriveExt_alt he halt)

/-! ### 4. consecutive printableScalar characters arrive as one rune message, in order -/

/-- a non-empty run of printableScalar characters (any valid scalar values except control characters,
space, DEL and U+FFFD), UTF-8 encoded, followed by nothing or by something that stops the run,
is delivered as ONE KeyRunes message carrying exactly those characters in order, and consumes
exactly the bytes of the run — for every well-formed table. -/
theorem C08_rune_run (T : Table) (lens : List Nat) (hT : WFTable T) (rs : List Nat) (hne : rs ≠ [])
    (hrs : ∀ r ∈ rs, printableScalar r = true) (rest : Bytes) (hstop : stopsRun rest = true) :
    detectOneMsg T lens (encodeRunes rs ++ rest) false =
      .ok ((encodeRunes rs).length, some (.key { type := keyRunes, runes := rs })) := by
  cases rs with
  | nil => exact absurd rfl hne
  | cons r rs =>
    obtain ⟨c, tl, henc, h32, h127⟩ := encodeRune_head (hrs r (by simp))
    have hb : encodeRunes (r :: rs) ++ rest = c :: (tl ++ encodeRunes rs ++ rest) := by
      rw [encodeRunes_cons, henc]; simp
    have hc : c ≠ 0x1b := by omega
    have hni : NoIntroducer (encodeRunes (r :: rs) ++ rest) = true := by
      rw [hb]; exact noIntroducer_of_head hc
    rw [detectOneMsg_of_noIntro T lens _ false (Or.inl rfl) hni,
      detectSequence_none lens (by rw [hb]; exact noKeyPrefix_of_wf hT h32 h127)
        (by rw [hb]; exact unknownCSILen_of_head hc)]
    exact detectTail_runes r rs rest hrs hstop

/-- what stops a run: the end of the buffer, a control byte, space, DEL (in particular ESC: the
beginning of any escape sequence) -/
theorem C08_stopsRun_cases (rest : Bytes)
    (h : rest = [] ∨ ∃ c tl, rest = c :: tl ∧ (c ≤ 32 ∨ c = 127)) : stopsRun rest = true := by
  rcases h with h | ⟨c, tl, h, hc⟩
  · subst h; decide
  · subst h
    have : decodeRune (c :: tl) = (c, 1) := decodeRune_enc1 c tl (by omega)
    simp only [stopsRun, this, keyUS, keyDEL, Bool.or_eq_true, decide_eq_true_eq, beq_iff_eq]
    omega

/-! ### 5. space and NUL keep their dedicated keys -/

/-- space, followed by anything, read in any way, is KeySpace with the rune `' '` -/
theorem C08_space (rest : Bytes) (more : Bool) :
    detectOneMsg docTable docLens (32 :: rest) more =
      .ok (1, some (.key { type := keySpace, runes := [32] })) := by
  have he : ({ seq := [32], key := { type := keySpace, runes := [32] } } : Entry) ∈ docTable :=
    mem_deriveExt_fixed (by simp [deriveFixed])
  have hpp : isProperPrefixOfKey docTable [32] = false := by decide +kernel
  exact C08_doc_in_context _ he rest more (notExtended_of_not_properPrefix hpp rest)
    (Or.inr (isIncompleteEvent_of_head _ (by decide)))

/-- ESC space, followed by anything, is alt+KeySpace -/
theorem C08_alt_space (rest : Bytes) (more : Bool) :
    detectOneMsg docTable docLens (27 :: 32 :: rest) more =
      .ok (2, some (.key { type := keySpace, runes := [32], alt := true })) := by
  have he : ({ seq := [27, 32], key := { type := keySpace, runes := [32], alt := true } } : Entry) ∈ docTable :=
    mem_deriveExt_fixed (by simp [deriveFixed])
  have hpp : isProperPrefixOfKey docTable [27, 32] = false := by decide +kernel
  refine C08_doc_in_context _ he rest more (notExtended_of_not_properPrefix hpp rest) (Or.inr ?_)
  have := isProperPrefixOfKey_append hpp rest
  simp only [List.cons_append, List.nil_append] at this
  simp [isIncompleteEvent, this]

/-- NUL (ctrl+@), followed by anything, read in any way, is the NUL key — in every table with no
key that is a prefix of the buffer (NUL is not in the table: detectOneMsg handles it itself) -/
theorem C08_nul (T : Table) (lens : List Nat) (rest : Bytes) (more : Bool) (hT : NoKeyPrefix T (0 :: rest)) :
    detectOneMsg T lens (0 :: rest) more = .ok (1, some (.key { type := keyNUL })) := by
  rw [detectOneMsg_of_noIntro T lens _ more (Or.inr (isIncompleteEvent_of_head T (by decide)))
      (noIntroducer_of_head (by decide)),
    detectSequence_none lens hT (unknownCSILen_of_head (by decide))]
  exact detectTail_nul rest more

/-- ESC NUL, followed by anything, is alt+NUL, when no key of the table is comparable with `ESC NUL` -/
theorem C08_alt_nul (T : Table) (lens : List Nat) (rest : Bytes) (more : Bool)
    (hT : incomparableB T [27, 0] = true) :
    detectOneMsg T lens (27 :: 0 :: rest) more = .ok (2, some (.key { type := keyNUL, alt := true })) := by
  have hnk : NoKeyPrefix T (27 :: 0 :: rest) := noKeyPrefix_of_incomparable hT rest
  have hcsi : unknownCSILen (27 :: 0 :: rest) = none := by simp [unknownCSILen]
  have hni : NoIntroducer (27 :: 0 :: rest) = true := by simp [NoIntroducer, isPrefix, bpStart]
  rw [detectOneMsg_of_noIntro T lens _ more (Or.inr (isIncompleteEvent_esc_nul hT rest)) hni,
    detectSequence_none lens hnk hcsi]
  exact detectTail_esc_nul rest more

/-- the documented table satisfies the side conditions of the two NUL theorems -/
theorem C08_doc_nul (rest : Bytes) (more : Bool) :
    detectOneMsg docTable docLens (0 :: rest) more = .ok (1, some (.key { type := keyNUL })) ∧
    detectOneMsg docTable docLens (27 :: 0 :: rest) more =
      .ok (2, some (.key { type := keyNUL, alt := true })) := by
  have h0 : incomparableB docTable [0] = true := by decide +kernel
  have h1 : incomparableB docTable [27, 0] = true := by decide +kernel
  exact ⟨C08_nul _ _ rest more (noKeyPrefix_of_incomparable h0 rest), C08_alt_nul _ _ rest more h1⟩

/-! ### 6. unknown CSI sequences are consumed whole -/

/-- `ESC [ params intermediates final`, followed by anything, when no key of the table is a prefix
of the buffer and it is not a mouse / paste / focus introducer: consumed whole, as one
`unknownCSISequenceMsg` carrying exactly the sequence; nothing leaks as text. -/
theorem C08_unknown_csi (T : Table) (lens : List Nat) (params inter : Bytes) (final : Nat) (rest : Bytes)
    (more : Bool)
    (hp : ∀ c ∈ params, isParam c = true) (hi : ∀ c ∈ inter, isInter c = true) (hf : isFinal final = true)
    (hnk : NoKeyPrefix T (27 :: 91 :: (params ++ inter ++ final :: rest)))
    (hni : NoIntroducer (27 :: 91 :: (params ++ inter ++ final :: rest)) = true)
    (hmore : more = false ∨ isIncompleteEvent T (27 :: 91 :: (params ++ inter ++ final :: rest)) = false) :
    detectOneMsg T lens (27 :: 91 :: (params ++ inter ++ final :: rest)) more =
      .ok (2 + params.length + inter.length + 1,
           some (.unknownCSI (27 :: 91 :: (params ++ inter ++ [final])))) := by
  rw [detectOneMsg_of_noIntro T lens _ more hmore hni]
  unfold detectSequence
  rw [lookupLens_eq_none_of_noKey hnk, unknownCSILen_csi params inter final rest hp hi hf]
  simp only
  congr 3
  have : 2 + params.length + inter.length + 1 = (27 :: 91 :: (params ++ inter ++ [final])).length := by
    simp; omega
  rw [this]
  have e : 27 :: 91 :: (params ++ inter ++ final :: rest) = (27 :: 91 :: (params ++ inter ++ [final])) ++ rest := by
    simp
  rw [e, List.take_left']
  rfl

/-! ### 7. a focus report on its own -/

/-- `ESC [ I` / `ESC [ O` arriving on their own (short read) are focus / blur, for EVERY table
(detectReportFocus runs before the key table; detectMouse needs at least 6 bytes) -/
theorem C08_focus_alone (T : Table) (lens : List Nat) :
    detectOneMsg T lens [27, 91, 73] false = .ok (3, some .focus) ∧
    detectOneMsg T lens [27, 91, 79] false = .ok (3, some .blur) := by
  constructor <;> rfl

/-! ### 8. anywhere inside a stream; events are delivered in input order -/

/-- "anywhere inside a stream of other well-formed events read together ... delivered in input
order": if every event of a stream decodes to its message in front of the events that follow it
(which theorems 2, 4, 5, 6 establish event by event), then one short read containing the whole
stream emits exactly those messages, in input order, each accounting for exactly its own bytes,
and nothing is left over. -/
theorem C08_stream_order (T : Table) (lens : List Nat) (evs : List (Bytes × Msg))
    (h : StreamOK T lens evs) (hshort : (evs.map Prod.fst).flatten.length ≠ bufSize) :
    processRead T lens [] (evs.map Prod.fst).flatten =
      .ok (evs.map (fun p => { msg := some p.2, consumed := p.1 }), []) := by
  unfold processRead
  have hm : ((evs.map Prod.fst).flatten.length == bufSize) = false := by simpa using hshort
  rw [hm]
  have := decodeLoop_stream T lens evs [] (([] ++ (evs.map Prod.fst).flatten).length + 1) h (by simp)
  simpa using this

/-- in general (any input at all, any table): the messages of one read account for adjacent,
non-empty, in-order runs of the input (this is `C09_read_accounting`) -/
theorem C08_order (T : Table) (lens : List Nat) (hl : ∀ l ∈ lens, 0 < l) (left chunk : Bytes) :
    ∃ out left', processRead T lens left chunk = .ok (out, left') ∧
      consumedOf out ++ left' = left ++ chunk ∧
      (∀ o ∈ out, o.consumed ≠ [] ∧ o.msg.isSome) :=
  let ⟨out, left', h1, h2, h3, _⟩ := processRead_spec T lens hl left chunk
  ⟨out, left', h1, h2, h3⟩

/-! ### 9. transfer to any table with the same lookups (for the bridge to the generated table) -/

/-- two tables that find each other's entries (a decidable cross-check) decode every buffer of a
short read alike, with any list of lengths: so every `doc` theorem above transfers to the table
generated from the code once the cross-check against `docTable` is proved. -/
theorem C08_transfer (T1 T2 : Table) (h12 : ∀ e ∈ T1, T2.lookup e.seq = some e.key)
    (h21 : ∀ e ∈ T2, T1.lookup e.seq = some e.key) (lens : List Nat) (b : Bytes) :
    detectOneMsg T1 lens b false = detectOneMsg T2 lens b false :=
  detectOneMsg_congr (lookup_ext_of_cross h12 h21) lens b

/-! ### non-vacuity -/

/-- the documented table: up arrow, then the letter `x` — the arrow is decoded in context -/
example : detectOneMsg docTable docLens [27, 91, 65, 120] false = .ok (3, some (.key { type := -2 })) := by
  decide +kernel

/-- longest match: `ESC ESC` alone is alt+escape, but followed by `[ A` it is alt+up -/
example : detectOneMsg docTable docLens [27, 27] false = .ok (2, some (.key { type := keyESC, alt := true })) ∧
    detectOneMsg docTable docLens [27, 27, 91, 65] false = .ok (4, some (.key { type := -2, alt := true })) := by
  decide +kernel

/-- `ESC ESC` is the only key of the derived table whose hypothesis `NotExtended` can fail -/
example : ¬ NotExtended docTable [27, 27] [91, 65] := by
  intro h
  have := h { seq := [27, 27, 91, 65], key := { type := -2, alt := true } } (by decide +kernel) (by decide)
  simp at this

/-- a rune run: "hé" followed by ESC -/
example : detectOneMsg docTable docLens ([104, 195, 169] ++ [27]) false =
    .ok (3, some (.key { type := keyRunes, runes := [104, 233] })) :=
  C08_rune_run docTable docLens C08_doc_wf [104, 233] (by decide) (by decide) [27] (by decide)

/-- an unknown CSI sequence in the documented table: `ESC [ 9 9 9 z` then `a` -/
example : detectOneMsg docTable docLens [27, 91, 57, 57, 57, 122, 97] false =
    .ok (6, some (.unknownCSI [27, 91, 57, 57, 57, 122])) := by
  decide +kernel

/-- a stream on a small table: `a`, up arrow, `b c`, NUL, in one read -/
example : processRead [{ seq := [27, 91, 65], key := { type := -2 } }] [3] []
    [97, 27, 91, 65, 98, 99, 0] =
    .ok ([{ msg := some (.key { type := keyRunes, runes := [97] }), consumed := [97] },
          { msg := some (.key { type := -2 }), consumed := [27, 91, 65] },
          { msg := some (.key { type := keyRunes, runes := [98, 99] }), consumed := [98, 99] },
          { msg := some (.key { type := keyNUL }), consumed := [0] }], []) := by
  decide

end Tea.Props.C08
