import Tea.Gen.Facts
import Tea.Doc.Facts
/-
Bridge theorems of C20: the facts the go/ast extractor reads from /repo's CURRENT source
(`Tea.Gen`, regenerated on every run) equal the frozen expectation the models and theorems
of this property were written against (`Tea.Doc`). Written by checklib/mkbridges.py.
-/
namespace Tea.Props.Bridge.C20

theorem body_Every : Tea.Gen.fact_body_Every = Tea.Doc.fact_body_Every := rfl
theorem body_Tick : Tea.Gen.fact_body_Tick = Tea.Doc.fact_body_Tick := rfl

end Tea.Props.Bridge.C20
