import Tea.Gen.Facts
import Tea.Doc.Facts
/-
Bridge theorems of C17: the facts the go/ast extractor reads from /repo's CURRENT source
(`Tea.Gen`, regenerated on every run) equal the frozen expectation the models and theorems
of this property were written against (`Tea.Doc`). Written by checklib/mkbridges.py.
-/
namespace Tea.Props.Bridge.C17

theorem order_Program_exec : Tea.Gen.fact_order_Program_exec = Tea.Doc.fact_order_Program_exec := rfl
theorem order_Program_ReleaseTerminal : Tea.Gen.fact_order_Program_ReleaseTerminal = Tea.Doc.fact_order_Program_ReleaseTerminal := rfl
theorem order_Program_RestoreTerminal : Tea.Gen.fact_order_Program_RestoreTerminal = Tea.Doc.fact_order_Program_RestoreTerminal := rfl
theorem el_case_execMsg : Tea.Gen.fact_el_case_execMsg = Tea.Doc.fact_el_case_execMsg := rfl
theorem order_Program_restoreTerminalState : Tea.Gen.fact_order_Program_restoreTerminalState = Tea.Doc.fact_order_Program_restoreTerminalState := rfl
theorem body_Program_initCancelReader : Tea.Gen.fact_body_Program_initCancelReader = Tea.Doc.fact_body_Program_initCancelReader := rfl
theorem order_standardRenderer_stop : Tea.Gen.fact_order_standardRenderer_stop = Tea.Doc.fact_order_standardRenderer_stop := rfl
theorem order_standardRenderer_start : Tea.Gen.fact_order_standardRenderer_start = Tea.Doc.fact_order_standardRenderer_start := rfl
theorem body_Program_readLoop : Tea.Gen.fact_body_Program_readLoop = Tea.Doc.fact_body_Program_readLoop := rfl
theorem body_Program_waitForReadLoop : Tea.Gen.fact_body_Program_waitForReadLoop = Tea.Doc.fact_body_Program_waitForReadLoop := rfl
theorem body_standardRenderer_halt : Tea.Gen.fact_body_standardRenderer_halt = Tea.Doc.fact_body_standardRenderer_halt := rfl
theorem body_Exec : Tea.Gen.fact_body_Exec = Tea.Doc.fact_body_Exec := rfl
theorem body_ExecProcess : Tea.Gen.fact_body_ExecProcess = Tea.Doc.fact_body_ExecProcess := rfl
theorem body_wrapExecCommand : Tea.Gen.fact_body_wrapExecCommand = Tea.Doc.fact_body_wrapExecCommand := rfl
theorem body_osExecCommand_SetStdin : Tea.Gen.fact_body_osExecCommand_SetStdin = Tea.Doc.fact_body_osExecCommand_SetStdin := rfl
theorem body_osExecCommand_SetStdout : Tea.Gen.fact_body_osExecCommand_SetStdout = Tea.Doc.fact_body_osExecCommand_SetStdout := rfl
theorem body_osExecCommand_SetStderr : Tea.Gen.fact_body_osExecCommand_SetStderr = Tea.Doc.fact_body_osExecCommand_SetStderr := rfl
theorem body_Program_suspend : Tea.Gen.fact_body_Program_suspend = Tea.Doc.fact_body_Program_suspend := rfl
theorem el_case_SuspendMsg : Tea.Gen.fact_el_case_SuspendMsg = Tea.Doc.fact_el_case_SuspendMsg := rfl
theorem methods_osExecCommand : Tea.Gen.fact_methods_osExecCommand = Tea.Doc.fact_methods_osExecCommand := rfl
theorem body_standardRenderer_altScreen : Tea.Gen.fact_body_standardRenderer_altScreen = Tea.Doc.fact_body_standardRenderer_altScreen := rfl
theorem body_standardRenderer_bracketedPasteActive : Tea.Gen.fact_body_standardRenderer_bracketedPasteActive = Tea.Doc.fact_body_standardRenderer_bracketedPasteActive := rfl
theorem body_standardRenderer_reportFocus : Tea.Gen.fact_body_standardRenderer_reportFocus = Tea.Doc.fact_body_standardRenderer_reportFocus := rfl
theorem body_suspendProcess : Tea.Gen.fact_body_suspendProcess = Tea.Doc.fact_body_suspendProcess := rfl
theorem body_Suspend : Tea.Gen.fact_body_Suspend = Tea.Doc.fact_body_Suspend := rfl
theorem body_newInputReader : Tea.Gen.fact_body_newInputReader = Tea.Doc.fact_body_newInputReader := rfl

end Tea.Props.Bridge.C17
