import Tea.Gen.Facts
import Tea.Doc.Facts
/-
Bridge theorems of C18: the facts the go/ast extractor reads from /repo's CURRENT source
(`Tea.Gen`, regenerated on every run) equal the frozen expectation the models and theorems
of this property were written against (`Tea.Doc`). Written by checklib/mkbridges.py.
-/
namespace Tea.Props.Bridge.C18

theorem body_Program_handleSignals : Tea.Gen.fact_body_Program_handleSignals = Tea.Doc.fact_body_Program_handleSignals := rfl
theorem body_Program_handleResize : Tea.Gen.fact_body_Program_handleResize = Tea.Doc.fact_body_Program_handleResize := rfl
theorem body_Program_listenForResize : Tea.Gen.fact_body_Program_listenForResize = Tea.Doc.fact_body_Program_listenForResize := rfl
theorem body_Program_checkResize : Tea.Gen.fact_body_Program_checkResize = Tea.Doc.fact_body_Program_checkResize := rfl
theorem body_Program_initInput : Tea.Gen.fact_body_Program_initInput = Tea.Doc.fact_body_Program_initInput := rfl
theorem el_case_windowSizeMsg : Tea.Gen.fact_el_case_windowSizeMsg = Tea.Doc.fact_el_case_windowSizeMsg := rfl
theorem order_Program_ReleaseTerminal : Tea.Gen.fact_order_Program_ReleaseTerminal = Tea.Doc.fact_order_Program_ReleaseTerminal := rfl
theorem order_Program_RestoreTerminal : Tea.Gen.fact_order_Program_RestoreTerminal = Tea.Doc.fact_order_Program_RestoreTerminal := rfl
theorem order_Program_Run : Tea.Gen.fact_order_Program_Run = Tea.Doc.fact_order_Program_Run := rfl
theorem body_WithoutSignalHandler : Tea.Gen.fact_body_WithoutSignalHandler = Tea.Doc.fact_body_WithoutSignalHandler := rfl
theorem body_WithoutSignals : Tea.Gen.fact_body_WithoutSignals = Tea.Doc.fact_body_WithoutSignals := rfl
theorem body_WindowSize : Tea.Gen.fact_body_WindowSize = Tea.Doc.fact_body_WindowSize := rfl
theorem body_NewProgram : Tea.Gen.fact_body_NewProgram = Tea.Doc.fact_body_NewProgram := rfl

end Tea.Props.Bridge.C18
