import Tea.Gen.Facts
import Tea.Doc.Facts
/-
Bridge theorems of C07: the facts the go/ast extractor reads from /repo's CURRENT source
(`Tea.Gen`, regenerated on every run) equal the frozen expectation the models and theorems
of this property were written against (`Tea.Doc`). Written by checklib/mkbridges.py.
-/
namespace Tea.Props.Bridge.C07

theorem order_Program_Run : Tea.Gen.fact_order_Program_Run = Tea.Doc.fact_order_Program_Run := rfl
theorem order_Program_shutdown : Tea.Gen.fact_order_Program_shutdown = Tea.Doc.fact_order_Program_shutdown := rfl
theorem order_standardRenderer_stop : Tea.Gen.fact_order_standardRenderer_stop = Tea.Doc.fact_order_standardRenderer_stop := rfl
theorem calls : Tea.Gen.fact_calls = Tea.Doc.fact_calls := rfl
theorem locks : Tea.Gen.fact_locks = Tea.Doc.fact_locks := rfl
theorem body_standardRenderer_halt : Tea.Gen.fact_body_standardRenderer_halt = Tea.Doc.fact_body_standardRenderer_halt := rfl
theorem body_standardRenderer_render : Tea.Gen.fact_body_standardRenderer_render = Tea.Doc.fact_body_standardRenderer_render := rfl
theorem body_standardRenderer_flush : Tea.Gen.fact_body_standardRenderer_flush = Tea.Doc.fact_body_standardRenderer_flush := rfl
theorem body_standardRenderer_write : Tea.Gen.fact_body_standardRenderer_write = Tea.Doc.fact_body_standardRenderer_write := rfl
theorem body_standardRenderer_repaint : Tea.Gen.fact_body_standardRenderer_repaint = Tea.Doc.fact_body_standardRenderer_repaint := rfl
theorem body_standardRenderer_handleMessages : Tea.Gen.fact_body_standardRenderer_handleMessages = Tea.Doc.fact_body_standardRenderer_handleMessages := rfl
theorem body_standardRenderer_stop : Tea.Gen.fact_body_standardRenderer_stop = Tea.Doc.fact_body_standardRenderer_stop := rfl
theorem body_standardRenderer_kill : Tea.Gen.fact_body_standardRenderer_kill = Tea.Doc.fact_body_standardRenderer_kill := rfl
theorem body_standardRenderer_clearScreen : Tea.Gen.fact_body_standardRenderer_clearScreen = Tea.Doc.fact_body_standardRenderer_clearScreen := rfl
theorem body_standardRenderer_enterAltScreen : Tea.Gen.fact_body_standardRenderer_enterAltScreen = Tea.Doc.fact_body_standardRenderer_enterAltScreen := rfl
theorem body_standardRenderer_exitAltScreen : Tea.Gen.fact_body_standardRenderer_exitAltScreen = Tea.Doc.fact_body_standardRenderer_exitAltScreen := rfl
theorem body_standardRenderer_execute : Tea.Gen.fact_body_standardRenderer_execute = Tea.Doc.fact_body_standardRenderer_execute := rfl
theorem body_standardRenderer_lastLinesRendered : Tea.Gen.fact_body_standardRenderer_lastLinesRendered = Tea.Doc.fact_body_standardRenderer_lastLinesRendered := rfl
theorem body_standardRenderer_setWindowTitle : Tea.Gen.fact_body_standardRenderer_setWindowTitle = Tea.Doc.fact_body_standardRenderer_setWindowTitle := rfl
theorem body_Quit : Tea.Gen.fact_body_Quit = Tea.Doc.fact_body_Quit := rfl
theorem body_WithANSICompressor : Tea.Gen.fact_body_WithANSICompressor = Tea.Doc.fact_body_WithANSICompressor := rfl

end Tea.Props.Bridge.C07
