import Tea.Gen.Facts
import Tea.Doc.Facts
/-
Bridge theorems of C07: the facts the go/ast extractor reads from /repo's CURRENT source
(`Tea.Gen`, regenerated on every run) equal the frozen expectation the models and theorems
of this property were written against (`Tea.Doc`). Written by checklib/mkbridges.py.
-/
namespace Tea.Props.Bridge.C07

theorem order_Program_Run : Tea.Gen.fact_order_Program_Run = Tea.Doc.fact_order_Program_Run := rfl
theorem order_Program_shutdown : Tea.Gen.fact_order_Program_shutdown = Tea.Doc.fact_order_Program_shutdown := rfl
theorem order_standardRenderer_stop : Tea.Gen.fact_order_standardRenderer_stop = Tea.Doc.fact_order_standardRenderer_stop := rfl
theorem calls : Tea.Gen.fact_calls = Tea.Doc.fact_calls := rfl
theorem locks : Tea.Gen.fact_locks = Tea.Doc.fact_locks := rfl
theorem body_standardRenderer_halt : Tea.Gen.fact_body_standardRenderer_halt = Tea.Doc.fact_body_standardRenderer_halt := rfl

end Tea.Props.Bridge.C07
